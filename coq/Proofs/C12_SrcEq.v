(* C12 (T): the loop bodies regenerated from boltons/socketutils.py (Gen/C12_Src.v) are the iteration
   steps of the hand-written model: recv_until / recv_size / the send loop assembled from the generated
   pieces compute exactly Model.recv_until_dl / recv_size_lim / send_loop. *)
From Boltons Require Import Lib.Prelude Lib.C12_Base Lib.C12_Py Model.C12_Model Gen.C12_Src.

(* ---- the Python operations on well-behaved arguments ------------------------------------------- *)
Lemma find_from_nat_eq d : forall l pos start lim, find_from_nat d l pos start lim = find_from d l pos start lim.
Proof. induction l as [|x r IH]; intros; cbn; [reflexivity|]. rewrite IH. reflexivity. Qed.

Lemma py_norm_nonneg len i : (0 <= i)%Z -> py_norm len i = Z.min i len.
Proof. intro H. unfold py_norm. destruct (i <? 0)%Z eqn:E; [apply Z.ltb_lt in E; lia|reflexivity]. Qed.

Lemma slice_to_nat b k : py_slice_to b (Z.of_nat k) = firstn k b.
Proof.
  unfold py_slice_to, py_len. rewrite py_norm_nonneg by lia.
  destruct (Nat.le_gt_cases k (length b)).
  - rewrite Z.min_l by lia. rewrite Nat2Z.id. reflexivity.
  - rewrite Z.min_r by lia. rewrite Nat2Z.id. rewrite !firstn_all2 by lia. reflexivity.
Qed.

Lemma slice_from_nat b k : py_slice_from b (Z.of_nat k) = skipn k b.
Proof.
  unfold py_slice_from, py_len. rewrite py_norm_nonneg by lia.
  destruct (Nat.le_gt_cases k (length b)).
  - rewrite Z.min_l by lia. rewrite Nat2Z.id. reflexivity.
  - rewrite Z.min_r by lia. rewrite Nat2Z.id. rewrite !skipn_all2 by lia. reflexivity.
Qed.

(* b[:-e] and b[-e:] for e > 0: Python's negative indices = the model's truncated subtraction *)
Lemma slice_to_neg b e : (0 < e)%nat -> py_slice_to b (- Z.of_nat e) = firstn (length b - e) b.
Proof.
  intro H. unfold py_slice_to, py_norm, py_len.
  replace (- Z.of_nat e <? 0)%Z with true by (symmetry; apply Z.ltb_lt; lia).
  f_equal. lia.
Qed.

Lemma slice_from_neg b e : (0 < e)%nat -> py_slice_from b (- Z.of_nat e) = skipn (length b - e) b.
Proof.
  intro H. unfold py_slice_from, py_norm, py_len.
  replace (- Z.of_nat e <? 0)%Z with true by (symmetry; apply Z.ltb_lt; lia).
  f_equal. lia.
Qed.

(* ---- recv_until assembled from the generated pieces ------------------------------------------------ *)
(* maxsize as the code sees it (an integer; 1024**5 for None) against the model's limit *)
Definition mz_ok (lim : limit) (mz : Z) (total : nat) : Prop :=
  match lim with Some k => mz = Z.of_nat k | None => (Z.of_nat total <= mz)%Z end.

Fixpoint ru_loop_src (fuel : nat) (d : bytes) (mz : Z) (rs : nat) (w tmo late : bool)
         (recvd : bytes) (fos : Z) (n : net) : (bytes * bytes + exn * bytes) * net :=
  match fuel with
  | 0 => (inr (OutOfFuel, recvd), n)
  | S f =>
      match src_ru_pre d mz (py_len d) w tmo recvd fos late with
      | IBreak (offset, rbuf_offset) =>
          match src_ru_finish recvd offset rbuf_offset with
          | ICont (val, rb) => (inl (val, rb), n)
          | _ => (inr (OutOfFuel, recvd), n)
          end
      | IRaise e r => (inr (e, r), n)              (* both handlers: self.rbuf = bytes(recvd) *)
      | ICont _ => (inr (OutOfFuel, recvd), n)
      | IEffect recvd0 =>
          match sock_recv rs n with
          | (RIntr e, n') => (inr (e, recvd0), n')
          | (RData nxt, n') =>
              match src_ru_post (py_len d) recvd0 nxt with
              | ICont (recvd', fos') => ru_loop_src f d mz rs w tmo (late || slow_head n) recvd' fos' n'
              | IRaise e r => (inr (e, r), n')
              | _ => (inr (OutOfFuel, recvd0), n')
              end
          end
      end
  end.

Definition recv_until_src (d_on : bool) (s : bs) (d : bytes) (mz : Z) (w : bool) : outcome * bs :=
  match ru_loop_src (S (net_size (nt s))) d mz (recvsize s) w d_on false (rbuf s)
                    src_ru_find_offset_start0 (nt s) with
  | (inl (val, rb), n') => (OBytes val, set_recv s rb n')
  | (inr (e, recvd), n') => (OExn e, set_recv s recvd n')
  end.

Lemma sock_recv_flat rs n b n' : sock_recv rs n = (RData b, n') -> flat n = b ++ flat n'.
Proof.
  destruct n as [|[c| |c|c] r]; cbn; intro H; try (inversion H; subst; reflexivity); try discriminate;
    destruct (Nat.leb (length c) rs); inversion H; subst; cbn; try reflexivity;
    rewrite app_assoc, firstn_skipn; reflexivity.
Qed.

(* the pre-recv part of one iteration *)
Lemma src_ru_pre_eq d lim mz recvd fos start w tmo late total :
  start = Z.to_nat (py_start (py_len recvd) fos) ->
  mz_ok lim mz total -> length recvd <= total ->
  src_ru_pre d mz (py_len d) w tmo recvd fos late =
  match py_find d recvd start lim with
  | Some off =>
      IBreak (if w then ((Z.of_nat (off + length d)), (Z.of_nat (off + length d)))
              else (Z.of_nat off, Z.of_nat (off + length d)))
  | None => if lim_exceeded lim recvd then IRaise MessageTooLong recvd
            else if tmo && late then IRaise Timeout recvd else IEffect recvd
  end.
Proof.
  intros Hs Hm Ht. unfold src_ru_pre, py_find_z, py_find. rewrite find_from_nat_eq, <- Hs.
  assert (Hlim : Z.to_nat (py_norm (py_len recvd) mz) =
                 match lim with None => length recvd | Some m => Nat.min m (length recvd) end).
  { unfold py_len. destruct lim as [k|]; unfold mz_ok in Hm.
    - subst mz. rewrite py_norm_nonneg by lia. lia.
    - rewrite py_norm_nonneg by lia. lia. }
  rewrite Hlim.
  destruct (find_from d recvd 0 start _) as [off|].
  - replace (Z.of_nat off =? - (1))%Z with false by (symmetry; apply Z.eqb_neq; lia). cbn [negb].
    unfold py_len. rewrite <- Nat2Z.inj_add. destruct w; reflexivity.
  - change (-1 =? - (1))%Z with true. cbn [negb].
    assert (Hex : (py_len recvd >? mz)%Z = lim_exceeded lim recvd).
    { unfold py_len, lim_exceeded. destruct lim as [k|]; unfold mz_ok in Hm.
      - subst mz. rewrite Z.gtb_ltb. destruct (Nat.ltb k (length recvd)) eqn:E.
        + apply Nat.ltb_lt in E. apply Z.ltb_lt. lia.
        + apply Nat.ltb_ge in E. apply Z.ltb_ge. lia.
      - rewrite Z.gtb_ltb. apply Z.ltb_ge. lia. }
    rewrite Hex. destruct (lim_exceeded lim recvd); [reflexivity|].
    destruct tmo; [destruct late|]; reflexivity.
Qed.

(* the part after nxt = sock.recv(...): the rolling offset *)
Lemma src_ru_post_eq d recvd nxt :
  src_ru_post (py_len d) recvd nxt =
  if is_nil nxt then IRaise ConnectionClosed recvd
  else ICont (recvd ++ nxt, (- py_len nxt - py_len d + 1)%Z).
Proof. unfold src_ru_post, py_truthy. destruct nxt; reflexivity. Qed.

Lemma rolling_offset d recvd nxt : d <> [] -> nxt <> [] ->
  Z.to_nat (py_start (py_len (recvd ++ nxt)) (- py_len nxt - py_len d + 1)) = length recvd + 1 - length d.
Proof.
  intros Hd Hn. unfold py_start, py_len. rewrite app_length.
  assert (1 <= length d) by (destruct d; [congruence|cbn; lia]).
  assert (1 <= length nxt) by (destruct nxt; [congruence|cbn; lia]).
  replace (- Z.of_nat (length nxt) - Z.of_nat (length d) + 1 <? 0)%Z with true
    by (symmetry; apply Z.ltb_lt; lia).
  lia.
Qed.

Lemma src_rolling_offset d recvd nxt : d <> [] -> nxt <> [] ->
  src_ru_post (py_len d) recvd nxt = ICont (recvd ++ nxt, (- py_len nxt - py_len d + 1)%Z) /\
  Z.to_nat (py_start (py_len (recvd ++ nxt)) (- py_len nxt - py_len d + 1)) = length recvd + 1 - length d.
Proof.
  intros Hd Hn. split; [|apply rolling_offset; assumption].
  rewrite src_ru_post_eq. destruct nxt; [congruence|reflexivity].
Qed.

Lemma src_ru_finish_eq recvd a b :
  src_ru_finish recvd (Z.of_nat a) (Z.of_nat b) = ICont (firstn a recvd, skipn b recvd).
Proof. unfold src_ru_finish. rewrite slice_to_nat, slice_from_nat. reflexivity. Qed.

Lemma ru_loop_src_eq d lim mz rs w tmo : d <> [] -> forall fuel late recvd fos start n,
  start = Z.to_nat (py_start (py_len recvd) fos) ->
  mz_ok lim mz (length recvd + length (flat n)) ->
  ru_loop_src fuel d mz rs w tmo late recvd fos n =
  match ru_loop fuel d lim rs tmo late recvd start n with
  | (RuFound off recvd', n') =>
      (inl (firstn (if w then off + length d else off) recvd', skipn (off + length d) recvd'), n')
  | (RuExn e recvd', n') => (inr (e, recvd'), n')
  end.
Proof.
  intros Hd. induction fuel as [|f IH]; intros late recvd fos start n Hs Hm; [reflexivity|].
  cbn [ru_loop_src ru_loop].
  rewrite (src_ru_pre_eq d lim mz recvd fos start w tmo late _ Hs Hm) by lia.
  destruct (py_find d recvd start lim) as [off|].
  - destruct w; rewrite src_ru_finish_eq; reflexivity.
  - destruct (lim_exceeded lim recvd); [reflexivity|].
    destruct (tmo && late); [reflexivity|].
    destruct (sock_recv rs n) as [[nxt|e] n'] eqn:Er; [|reflexivity].
    rewrite src_ru_post_eq. destruct nxt as [|x nxt]; [reflexivity|]. cbn [is_nil].
    apply IH.
    + symmetry. apply rolling_offset; [assumption|discriminate].
    + apply sock_recv_flat in Er. rewrite Er in Hm. unfold mz_ok in *.
      destruct lim; [assumption|]. rewrite !app_length in *. lia.
Qed.

Lemma py_find_empty l lim : py_find [] l 0 lim = Some 0.
Proof. unfold py_find. destruct l; reflexivity. Qed.

(* recv_until as regenerated from the source = the model's recv_until *)
Theorem recv_until_src_eq d_on s d m w mz :
  mz_ok (resolve (maxsize s) m) mz (length (rbuf s) + length (flat (nt s))) ->
  recv_until_src d_on s d mz w = recv_until_dl d_on s d m w.
Proof.
  intros Hm. unfold recv_until_src, recv_until_dl. destruct d as [|x d].
  - (* the empty delimiter is found at once, before any socket call *)
    cbn [ru_loop_src ru_loop].
    rewrite (src_ru_pre_eq [] (resolve (maxsize s) m) mz (rbuf s) src_ru_find_offset_start0 0 w d_on false _
               eq_refl Hm) by lia.
    rewrite py_find_empty. destruct w; rewrite src_ru_finish_eq; reflexivity.
  - rewrite (ru_loop_src_eq (x :: d) (resolve (maxsize s) m) mz (recvsize s) w d_on ltac:(discriminate)
                            _ false (rbuf s) _ 0 (nt s)); [|reflexivity|exact Hm].
    destruct (ru_loop _ _ _ _ _ _ _ _ _) as [[off recvd'|e recvd'] n']; reflexivity.
Qed.

(* ---- recv_size assembled from the generated pieces ------------------------------------------------ *)
Fixpoint rs_loop_src (fuel : nat) (sz : Z) (rsz : nat) (tmo late : bool) (chunks : bytes) (total : Z)
         (nxt : bytes) (n : net) : (bytes * bytes + exn * bytes) * net :=
  match fuel with
  | 0 => (inr (OutOfFuel, chunks), n)
  | S f =>
      if py_truthy nxt then                                   (* while nxt: *)
        match src_rs_pre sz tmo chunks total nxt late with
        | IBreak (chunks', total') =>
            match src_rs_finish sz chunks' total' nxt with
            | ICont (ret, rb) => (inl (ret, rb), n)
            | _ => (inr (OutOfFuel, chunks), n)
            end
        | IRaise e r => (inr (e, r), n)                       (* both handlers: self.rbuf = b''.join(chunks) *)
        | ICont _ => (inr (OutOfFuel, chunks), n)
        | IEffect (chunks', total') =>
            match sock_recv rsz n with
            | (RIntr e, n') => (inr (e, chunks'), n')
            | (RData nxt', n') =>
                match src_rs_post chunks' total' nxt' with
                | ICont (c, t, nx) => rs_loop_src f sz rsz tmo (late || slow_head n) c t nx n'
                | _ => (inr (OutOfFuel, chunks'), n')
                end
            end
        end
      else (inr (ConnectionClosed, chunks), n)                (* else: raise ConnectionClosed *)
  end.

Lemma src_rs_finish_eq k acc total nxt : k <= total ->
  src_rs_finish (Z.of_nat k) acc (Z.of_nat total) nxt =
  ICont (acc ++ firstn (length nxt - (total - k)) nxt, skipn (length nxt - (total - k)) nxt).
Proof.
  intro H. unfold src_rs_finish. destruct (Nat.eq_dec total k) as [->|Hne].
  - rewrite Z.sub_diag. cbn [Z.eqb negb]. rewrite Nat.sub_diag, Nat.sub_0_r, firstn_all, skipn_all. reflexivity.
  - replace (Z.of_nat total - Z.of_nat k =? 0)%Z with false by (symmetry; apply Z.eqb_neq; lia). cbn [negb].
    replace (Z.of_nat total - Z.of_nat k)%Z with (Z.of_nat (total - k)) by lia.
    rewrite slice_to_neg, slice_from_neg by lia. reflexivity.
Qed.

(* size as the code sees it against the model's (possibly infinite) size *)
Definition sz_ok (size : limit) (sz : Z) (bound : nat) : Prop :=
  match size with Some k => sz = Z.of_nat k | None => (Z.of_nat bound < sz)%Z end.

Lemma rs_loop_src_eq size sz rsz tmo : forall fuel late acc total nxt n,
  sz_ok size sz (total + length nxt + length (flat n)) ->
  rs_loop_src fuel sz rsz tmo late acc (Z.of_nat total) nxt n =
  match rs_loop fuel size rsz tmo late acc total nxt n with
  | (RsDone acc' total' nxt', n') =>
      let keep := length nxt' - (total' - match size with Some k => k | None => 0 end) in
      (inl (acc' ++ firstn keep nxt', skipn keep nxt'), n')
  | (RsExn e acc', n') => (inr (e, acc'), n')
  end.
Proof.
  induction fuel as [|f IH]; intros late acc total nxt n Hsz; [reflexivity|].
  cbn [rs_loop_src rs_loop]. destruct nxt as [|x nxt]; [reflexivity|].
  remember (x :: nxt) as nx eqn:Enx. assert (Htr : py_truthy nx = true) by (subst; reflexivity).
  rewrite Htr. unfold src_rs_pre.
  assert (Hreach : (Z.of_nat total + py_len nx >=? sz)%Z = reached size (total + length nx)).
  { unfold py_len, reached. destruct size as [k|]; unfold sz_ok in Hsz.
    - subst sz. rewrite Z.geb_leb. destruct (Nat.leb k (total + length nx)) eqn:E.
      + apply Nat.leb_le in E. apply Z.leb_le. lia.
      + apply Nat.leb_gt in E. apply Z.leb_gt. lia.
    - rewrite Z.geb_leb. apply Z.leb_gt. lia. }
  rewrite Hreach.
  replace (Z.of_nat total + py_len nx)%Z with (Z.of_nat (total + length nx)) by (unfold py_len; lia).
  destruct (reached size (total + length nx)) eqn:Er.
  - destruct size as [k|]; [|discriminate]. unfold sz_ok in Hsz. subst sz. cbn [reached] in Er.
    apply Nat.leb_le in Er. rewrite src_rs_finish_eq by assumption. reflexivity.
  - destruct tmo; [destruct late|]; cbn [andb]; try reflexivity;
      (destruct (sock_recv rsz n) as [[nxt'|e] n'] eqn:Es; [|reflexivity]);
      unfold src_rs_post; rewrite IH; try reflexivity;
      apply sock_recv_flat in Es; rewrite Es in Hsz; unfold sz_ok in *;
      (destruct size; [assumption|]); rewrite !app_length in *; lia.
Qed.

Definition recv_size_src (s : bs) (sz : Z) : outcome * bs :=
  (* nxt = self.rbuf or self.sock.recv(self._recvsize); chunks = []; total_bytes = 0 *)
  let first := match rbuf s with
               | [] => sock_recv (recvsize s) (nt s)
               | rb => (RData rb, nt s)
               end in
  match first with
  | (RIntr e, n') => (OExn e, set_recv s [] n')
  | (RData nxt, n') =>
      let late := match rbuf s with [] => slow_head (nt s) | _ => false end in
      match rs_loop_src (S (S (net_size n'))) sz (recvsize s) (dl s) late [] 0 nxt n' with
      | (inl (ret, rb), n'') => (OBytes ret, set_recv s rb n'')
      | (inr (e, acc), n'') => (OExn e, set_recv s acc n'')
      end
  end.

Theorem recv_size_src_eq s size sz :
  sz_ok size sz (length (rbuf s) + length (flat (nt s))) ->
  recv_size_src s sz = recv_size_lim s size.
Proof.
  intro Hsz. unfold recv_size_src, recv_size_lim.
  destruct (match rbuf s with [] => sock_recv (recvsize s) (nt s) | _ :: _ => _ end) as [[nxt|e] n'] eqn:E1;
    [|reflexivity].
  change 0%Z with (Z.of_nat 0).
  rewrite (rs_loop_src_eq size sz).
  - destruct (rs_loop _ _ _ _ _ _ _ _ _) as [[acc total nxt'|e acc] n'']; reflexivity.
  - unfold sz_ok in *. destruct size; [assumption|].
    destruct (rbuf s) as [|x rb] eqn:Erb.
    + apply sock_recv_flat in E1. rewrite E1 in Hsz. rewrite app_length in Hsz. cbn in *. lia.
    + inversion E1; subst. cbn in *. lia.
Qed.

(* ---- the send loop assembled from the generated piece ----------------------------------------------- *)
Fixpoint send_loop_src (fuel : nat) (tmo late : bool) (cur : bytes) (total : Z) (sc : list sev) (w : bytes)
  : (Z + exn) * bytes * list sev * bytes :=
  match fuel with
  | 0 => (inr OutOfFuel, cur, sc, w)
  | S f =>
      if py_truthy cur then                                   (* while sbuf[0]: *)
        match sock_send cur sc with                           (* sent = self.sock.send(sbuf[0]) *)
        | (SIntr e, sc') => (inr e, cur, sc', w)
        | (SSent k, sc') =>
            match src_send_post tmo cur total (Z.of_nat k) (late || sslow_head sc) with
            | IRaise e rest => (inr e, rest, sc', w ++ firstn k cur)
            | ICont (rest, total') => send_loop_src f tmo (late || sslow_head sc) rest total' sc' (w ++ firstn k cur)
            | _ => (inr OutOfFuel, cur, sc', w)
            end
        end
      else (inl total, [], sc, w)
  end.

Theorem send_loop_src_eq tmo : forall fuel late cur total sc w,
  send_loop_src fuel tmo late cur (Z.of_nat total) sc w =
  match send_loop fuel tmo late cur total sc w with
  | (inl t, c, sc', w') => (inl (Z.of_nat t), c, sc', w')
  | (inr e, c, sc', w') => (inr e, c, sc', w')
  end.
Proof.
  induction fuel as [|f IH]; intros late cur total sc w; [reflexivity|].
  cbn [send_loop_src send_loop]. destruct cur as [|x cur]; [reflexivity|].
  remember (x :: cur) as c eqn:Ec. assert (Htr : py_truthy c = true) by (subst; reflexivity). rewrite Htr.
  destruct (sock_send c sc) as [[k|e] sc'] eqn:Es; [|reflexivity].
  unfold src_send_post. rewrite slice_from_nat.
  replace (Z.of_nat total + Z.of_nat k)%Z with (Z.of_nat (total + k)) by lia.
  destruct tmo; [destruct (late || sslow_head sc)|]; cbn [andb]; try reflexivity; apply IH.
Qed.

(* ---- recv, peek, recv_close assembled from the generated pieces ------------------------------------- *)
Definition recv_src (s : bs) (k : nat) : outcome * bs :=
  match src_recv_pre (Z.of_nat k) (rbuf s) with
  | IBreak (v, rb) => (OBytes v, set_recv s rb (nt s))
  | IEffect rb0 =>
      match sock_recv (recvsize s) (nt s) with
      | (RIntr e, n') => (OExn e, set_recv s rb0 n')       (* socket.timeout -> Timeout; others propagate *)
      | (RData data, n') =>
          match src_recv_post (Z.of_nat k) rb0 data with
          | IBreak (v, rb) => (OBytes v, set_recv s rb n')
          | _ => (OExn OutOfFuel, s)
          end
      end
  | _ => (OExn OutOfFuel, s)
  end.

Lemma geb_nat a b : (Z.of_nat a >=? Z.of_nat b)%Z = Nat.leb b a.
Proof.
  rewrite Z.geb_leb. destruct (Nat.leb b a) eqn:E.
  - apply Nat.leb_le in E. apply Z.leb_le. lia.
  - apply Nat.leb_gt in E. apply Z.leb_gt. lia.
Qed.

Lemma gtb_nat a b : (Z.of_nat a >? Z.of_nat b)%Z = Nat.ltb b a.
Proof.
  rewrite Z.gtb_ltb. destruct (Nat.ltb b a) eqn:E.
  - apply Nat.ltb_lt in E. apply Z.ltb_lt. lia.
  - apply Nat.ltb_ge in E. apply Z.ltb_ge. lia.
Qed.

Theorem recv_src_eq s k : recv_src s k = recv s k.
Proof.
  unfold recv_src, recv, src_recv_pre, src_recv_post, py_len, py_truthy.
  rewrite geb_nat, !slice_to_nat, !slice_from_nat.
  destruct (Nat.leb k (length (rbuf s))); [reflexivity|].
  destruct (rbuf s) as [|x rb] eqn:Erb; cbn [is_nil negb]; [|reflexivity].
  destruct (sock_recv (recvsize s) (nt s)) as [[data|e] n']; [|reflexivity].
  rewrite gtb_nat, slice_to_nat, slice_from_nat. destruct (Nat.ltb k (length data)); reflexivity.
Qed.

Definition peek_src (s : bs) (k : nat) : outcome * bs :=
  match src_peek_pre (Z.of_nat k) (rbuf s) with
  | IBreak (v, rb) => (OBytes v, set_recv s rb (nt s))
  | IEffect _ =>
      match recv_size s k with                               (* data = self.recv_size(size, timeout=timeout) *)
      | (OBytes data, s') =>
          match src_peek_post (rbuf s') data with
          | IBreak (v, rb) => (OBytes v, set_recv s' rb (nt s'))
          | _ => (OExn OutOfFuel, s')
          end
      | r => r
      end
  | _ => (OExn OutOfFuel, s)
  end.

Lemma set_recv_same s : set_recv s (rbuf s) (nt s) = s.
Proof. destruct s. reflexivity. Qed.

Theorem peek_src_eq s k : peek_src s k = peek s k.
Proof.
  unfold peek_src, peek, src_peek_pre, src_peek_post, py_len. rewrite geb_nat, slice_to_nat.
  destruct (Nat.leb k (length (rbuf s))); [rewrite set_recv_same; reflexivity|].
  destruct (recv_size s k) as [[data| | |e] s']; reflexivity.
Qed.

Lemma rc_size_ok lim mz total : mz_ok lim mz total -> sz_ok (option_map S lim) (src_rc_size mz) total.
Proof. unfold mz_ok, sz_ok, src_rc_size. destruct lim; cbn [option_map]; intros; subst; lia. Qed.

Definition recv_close_src (s : bs) (mz : Z) : outcome * bs :=
  match recv_size_src s (src_rc_size mz) with                 (* recvd = self.recv_size(maxsize + 1, timeout) *)
  | (OExn ConnectionClosed, s') =>
      match src_rc_closed (rbuf s') with
      | IBreak (v, rb) => (OBytes v, set_recv s' rb (nt s'))
      | _ => (OExn OutOfFuel, s')
      end
  | (OBytes recvd, s') =>
      match src_rc_toolong (rbuf s') recvd with
      | IRaise e rb => (OExn e, set_recv s' rb (nt s'))
      | _ => (OExn OutOfFuel, s')
      end
  | r => r
  end.

Theorem recv_close_src_eq s m mz :
  mz_ok (resolve (maxsize s) m) mz (length (rbuf s) + length (flat (nt s))) ->
  recv_close_src s mz = recv_close s m.
Proof.
  intro Hm. unfold recv_close_src, recv_close.
  rewrite (recv_size_src_eq s (option_map S (resolve (maxsize s) m))) by (apply rc_size_ok; exact Hm).
  destruct (recv_size_lim s _) as [[recvd| | |[]] s']; reflexivity.
Qed.

(* ---- NetstringSocket assembled from the generated pieces --------------------------------------------- *)
Definition unwrap (r : iter unit bytes unit) : bytes := match r with ICont b => b | _ => [] end.

Definition read_ns_src (x : ns) (m : option nat) : outcome * ns :=
  let '(mx, msg_mx) := match m with
                       | None => (ns_maxsize x, ns_msgsize_maxsize x)
                       | Some k => (k, Z.to_nat (src_ns_msgsize (Z.of_nat k)))
                       end in
  match recv_until_dl (ns_dl x) (ns_bs x) src_ns_delim (MVal msg_mx) false with
  | (OBytes size_prefix, s1) =>
      match py_int size_prefix with                          (* size = int(size_prefix) *)
      | None => (OExn NetstringInvalidSize, with_bs x s1)
      | Some size =>
          if src_ns_too_long size (Z.of_nat mx) then (OExn NetstringMessageTooLong, with_bs x s1)
          else
            let consumed := src_ns_consumed0 size_prefix in
            match recv_size s1 (Z.to_nat size) with          (* payload = self.bsock.recv_size(size) *)
            | (OBytes payload, s2) =>
                let consumed := unwrap (src_ns_consumed1 consumed payload) in
                match recv s2 1 with                         (* trailer = self.bsock.recv(1) *)
                | (OBytes t, s3) =>
                    if src_ns_trailer_bad t then (OExn NetstringProtocolError, with_bs x s3)
                    else (OBytes payload, with_bs x s3)
                | (out, s3) => (out, with_bs x (set_recv s3 (unwrap (src_ns_unread consumed (rbuf s3))) (nt s3)))
                end
            | (out, s2) => (out, with_bs x (set_recv s2 (unwrap (src_ns_unread consumed (rbuf s2))) (nt s2)))
            end
      end
  | (out, s1) => (out, with_bs x s1)
  end.

Lemma src_ns_msgsize_eq k : Z.to_nat (src_ns_msgsize (Z.of_nat k)) = calc_msgsize_maxsize k.
Proof. unfold src_ns_msgsize, calc_msgsize_maxsize, py_str, py_len. rewrite Nat2Z.id. lia. Qed.

Theorem read_ns_src_eq x m : read_ns_src x m = read_ns x m.
Proof.
  unfold read_ns_src, read_ns. change src_ns_delim with [58%N].
  destruct m as [k|]; [rewrite src_ns_msgsize_eq|]; cbv beta iota;
    (destruct (recv_until_dl _ _ _ _ _) as [[sp| | |e] s1]; try reflexivity;
     destruct (py_int sp) as [size|]; [|reflexivity];
     unfold src_ns_too_long; rewrite Z.gtb_ltb;
     match goal with |- context [Z.ltb ?a size] => destruct (Z.ltb a size); [reflexivity|] end;
     cbv zeta; unfold src_ns_consumed0, src_ns_consumed1, src_ns_unread, src_ns_trailer_bad, unwrap;
     destruct (recv_size s1 (Z.to_nat size)) as [[payload| | |e] s2]; try reflexivity;
     destruct (recv s2 1) as [[t| | |e] s3]; try reflexivity;
     try (destruct (bytes_eqb t [44%N]); reflexivity); rewrite <- !app_assoc; reflexivity).
Qed.

Definition write_ns_src (x : ns) (payload : bytes) : outcome * ns :=
  if src_ns_write_too_long payload (Z.of_nat (ns_maxsize x)) then (OExn NetstringMessageTooLong, x)
  else match send (ns_bs x) (src_ns_frame payload) with
       | (ONat _, s') => (ONone, with_bs x s')
       | (out, s') => (out, with_bs x s')
       end.

Theorem write_ns_src_eq x p : write_ns_src x p = write_ns x p.
Proof.
  unfold write_ns_src, write_ns, src_ns_write_too_long, src_ns_frame, py_len, py_str.
  rewrite gtb_nat, Nat2Z.id.
  replace (((dec (length p) ++ [58%N]) ++ p) ++ [44%N]) with (dec (length p) ++ 58%N :: p ++ [44%N])
    by (rewrite <- !app_assoc; reflexivity).
  reflexivity.
Qed.
