(* Concrete runs showing that the hypotheses of the C04 theorems are inhabited
   by non-trivial states (computed by vm_compute). *)
From Boltons Require Import Lib.Prelude Model.C04_Model Spec.C04_Spec Check.C04_Check Proofs.C04_Inv.
Open Scope N_scope.

Definition ex_cfg : cfg := mkCfg true false true None false 0%nat 1%nat.
Definition ex_cfg_noclobber : cfg := mkCfg false true true (Some 384) false 0%nat 1%nat.
Definition ex_old : bytes := [79; 76; 68].
Definition ex_fs : fs := fs_of_list [(0%nat, (ex_old, 416)); (2%nat, ([1; 2], 420))].
Definition ex_body : list bop := [BWrite [104; 105] 0; BWrite [33] 2; BFlush; BWrite [10] 3].

Lemma ex_hyps : c_dest ex_cfg <> c_part ex_cfg /\ same_dir (c_part ex_cfg) = true /\ wf ex_fs.
Proof. split; [discriminate|]. split; [reflexivity|]. apply wf_fs_of_list. Qed.

(* killed before event 8 (the fsync): destination still old, part file holds everything in the kernel,
   nothing of it durable yet *)
Lemma ex_crash_mid :
  let r := run_save ex_cfg ex_body false ex_fs 18 (Some 8%nat) [] in
  fst r = Crashed /\ content_kill (w_fs (snd r)) 0%nat = Some ex_old /\
  content_kill (w_fs (snd r)) 1%nat = Some [104; 105; 33; 10] /\
  content_power (w_fs (snd r)) 1%nat = Some [] /\ length (w_trace (snd r)) = 8%nat.
Proof. vm_compute. repeat split; reflexivity. Qed.

(* a run with an injected ENOSPC at the flush in __exit__ and the destination replaced behind our back *)
Lemma ex_fault :
  let r := run_save ex_cfg ex_body false (fs_of_list []) 18 None [(2%nat, AAppear [7; 7] 384); (7%nat, AFault 28%nat)] in
  fst r = Exc (OSErr 28%nat) /\ content_kill (w_fs (snd r)) 0%nat = Some [7; 7] /\
  f_dir (w_fs (snd r)) 1%nat = None.
Proof. vm_compute. repeat split; reflexivity. Qed.

(* complete runs, both publication styles *)
Lemma ex_complete :
  let r := run_save ex_cfg ex_body false ex_fs 18 None [] in
  fst r = Val tt /\ content_kill (w_fs (snd r)) 0%nat = Some [104; 105; 33; 10] /\
  mode_of (w_fs (snd r)) 0%nat = Some 416 /\
  map (fun e => call_of e) (rev (w_trace (snd r))) =
    [CCreate 1%nat true; CNone; CTouch 1%nat; CWrite; CWrite; CFlush; CWrite; CFlush; CFsync; CClose; CPublish 1%nat 0%nat].
Proof. vm_compute. repeat split; reflexivity. Qed.

Lemma ex_complete_noclobber :
  let r := run_save ex_cfg_noclobber ex_body false (fs_of_list [(1%nat, ([9], 420))]) 63 None [] in
  fst r = Val tt /\ content_power (w_fs (snd r)) 0%nat = Some [104; 105; 33; 10] /\
  mode_of (w_fs (snd r)) 0%nat = Some 384 /\ length (w_trace (snd r)) = 13%nat.
Proof. vm_compute. repeat split; reflexivity. Qed.
