(* C11: the Gallina text of IndexedSet.remove and IndexedSet.pop regenerated from the current source
   (Gen/C11_Ops.v, by harness/translators/c11_ops.py) - which calls the regenerated _get_real_index,
   _add_dead and _cull - equals the model's m_remove / m_pop. *)
From Boltons Require Import Lib.Prelude Lib.PySrc Lib.C11_Iface Spec.C11_Spec Model.C11_Model Lib.C11_PyImp
     Gen.C11_Gen Gen.C11_Src Gen.C11_Cull Gen.C11_Ops
     Proofs.C11_Lists Proofs.C11_Dead Proofs.C11_Inv Proofs.C11_SrcEq Proofs.C11_CullEq.

Lemma py_pos_nat {A} (l : list A) r : py_pos l (Z.of_nat r) = r.
Proof. unfold py_pos. replace (Z.of_nat r <? 0)%Z with false by (symmetry; apply Z.ltb_ge; lia). apply Nat2Z.id. Qed.

Lemma py_get_nat {A} (l : list A) r : py_get l (Z.of_nat r) = nth_error l r.
Proof.
  unfold py_get. assert (F : (Z.of_nat r <? 0)%Z = false) by (apply Z.ltb_ge; lia).
  rewrite F. rewrite F. rewrite Nat2Z.id. reflexivity.
Qed.

(* the common tail: tombstone slot r (holding x), forget x, _add_dead, _cull *)
Lemma kill_tail s r x : Inv0 s -> nth_error (items s) r = Some (Some x) ->
  src_cull (src_add_dead (mkIS (set_nth r None (items s)) (d_del (imap s) x) (dead s)) (Z.of_nat r))
  = m_cull gen_cfg (mkIS (set_nth r None (items s)) (d_del (imap s) x) (add_dead (dead s) r)).
Proof.
  intros H E. rewrite source_add_dead. unfold set_dead. cbn [items imap dead].
  apply source_cull. apply (kill_inv0 s r x H E).
Qed.

Theorem source_remove s x : Inv0 s -> src_remove s x = m_remove gen_cfg s x.
Proof.
  intros H. unfold src_remove, m_remove, py_dict_pop.
  destruct (d_get (imap s) x) as [r|] eqn:G; [|reflexivity].
  assert (E : nth_error (items s) r = Some (Some x)) by (apply H; exact G).
  cbv zeta. unfold set_imap, set_items, py_list_set. cbn [items imap dead]. rewrite py_pos_nat.
  rewrite (kill_tail s r x H E). reflexivity.
Qed.

Lemma live_slot_mem s r x : Inv0 s -> nth_error (items s) r = Some (Some x) -> d_mem (imap s) x = true.
Proof. intros H E. apply H in E. unfold d_mem. rewrite E. reflexivity. Qed.

Theorem source_pop s i : Inv s -> valid_op (m_live s) (Pop i) = true -> src_pop s i = m_pop gen_cfg s i.
Proof.
  intros [H HL] V. unfold src_pop, m_pop. cbv zeta.
  assert (C : (opt_is_none i || opt_eqb i (- (1)) || opt_eqb i (zlen (imap s) - (1)))%Z =
              match i with None => true | Some i0 => ((i0 =? -1) || (i0 =? Z.of_nat (m_len s) - 1))%Z end).
  { destruct i; reflexivity. }
  rewrite C. clear C.
  destruct (match i with None => true | Some i0 => ((i0 =? -1) || (i0 =? Z.of_nat (m_len s) - 1))%Z end) eqn:AE.
  - (* item_list.pop() *)
    unfold py_pop_last. destruct (rev (items s)) as [|o r'] eqn:R; [reflexivity|].
    destruct o as [x|].
    + pose proof (rev_cons_split _ _ _ R) as E.
      assert (Ex : nth_error (items s) (length (rev r')) = Some (Some x)).
      { rewrite E. rewrite nth_error_app2 by lia. rewrite Nat.sub_diag. reflexivity. }
      unfold py_dict_del_slot, set_items. cbn [items imap dead].
      rewrite (live_slot_mem s _ x H Ex). cbv zeta. unfold set_imap. cbn [items imap dead].
      destruct (pop_end_inv0 s (rev r') x H E) as [P1 _].
      rewrite E, removelast_last in *. rewrite (source_cull _ P1). reflexivity.
    + unfold py_dict_del_slot, set_items. cbn [items imap dead]. reflexivity.
  - (* the tombstone path *)
    destruct i as [i|]; [|discriminate].
    cbn [valid_op] in V. destruct (norm_index (length (m_live s)) i) as [j|] eqn:N; [|discriminate].
    destruct (real_index_ok s i j H N) as (r & x & R1 & R2 & R3).
    rewrite R1. cbn [opt_get]. rewrite (source_real_index s i r H R1).
    rewrite py_get_nat, R2.
    unfold py_dict_del_slot, set_items, py_list_set. cbn [items imap dead]. rewrite py_pos_nat.
    rewrite (live_slot_mem s r x H R2). cbv zeta. unfold set_imap. cbn [items imap dead].
    rewrite (kill_tail s r x H R2). reflexivity.
Qed.

(* ---- add / discard / clear / reverse / sort ------------------------------------------------------------ *)
Theorem source_add s x : src_add s x = (m_add s x, Ok RNone).
Proof.
  unfold src_add, m_add. destruct (d_mem (imap s) x); [reflexivity|]. cbn [negb]. cbv zeta.
  unfold set_items, set_imap, zlen. cbn [items imap dead]. rewrite Nat2Z.id. reflexivity.
Qed.

Theorem source_discard s x : Inv0 s -> src_discard s x = (m_discard gen_cfg s x, Ok RNone).
Proof.
  intros H. unfold src_discard, m_discard. rewrite (source_remove s x H). unfold m_remove.
  destruct (d_get (imap s) x); reflexivity.
Qed.

Theorem source_clear s : src_clear s = (m_clear s, Ok RNone).
Proof. reflexivity. Qed.

Lemma remap_slots_some (m : tdict nat) l : py_remap_slots m (map Some l) = remap m l.
Proof.
  unfold py_remap_slots, remap. generalize 0. revert m.
  induction l as [|x l IH]; intros m k; [reflexivity|]. simpl. apply IH.
Qed.

Theorem source_reverse s : src_reverse s = (m_reverse s, Ok RNone).
Proof.
  unfold src_reverse, m_reverse. cbv zeta. unfold set_items, set_imap, set_dead. cbn [items imap dead].
  rewrite remap_slots_some. reflexivity.
Qed.

Lemma source_sort_gen s f :
  src_sort s f = (if list_eqb slot_eqb (map Some (f (m_live s))) (items s) then s
                  else mkIS (map Some (f (m_live s))) (remap (imap s) (f (m_live s))) [], Ok RNone).
Proof.
  unfold src_sort, py_klist_eq_slots. cbv zeta.
  destruct (list_eqb slot_eqb (map Some (f (m_live s))) (items s)); [reflexivity|].
  unfold set_items, set_imap, set_dead. cbn [items imap dead]. rewrite remap_slots_some. reflexivity.
Qed.

Theorem source_sort s r : src_sort s (fun l => py_sorted l r) = (m_sort s r, Ok RNone).
Proof. apply source_sort_gen. Qed.

Theorem source_sort_key s m r : src_sort s (fun l => py_sorted_key l m r) = (m_sort_key s m r, Ok RNone).
Proof. apply source_sort_gen. Qed.

(* ---- index / __getitem__ (integer argument) ----------------------------------------------------------- *)
Theorem source_index s x : Inv0 s -> src_index s x = (s, res_map RNat (m_index s x)).
Proof.
  intros H. unfold src_index. destruct (d_get (imap s) x) as [r|] eqn:G.
  - assert (E : m_index s x = Ok (apparent_loop (dead s) r r)) by (unfold m_index; rewrite G; reflexivity).
    rewrite (source_apparent_index s x r _ H G E), Nat2Z.id, E. reflexivity.
  - unfold m_index. rewrite G. reflexivity.
Qed.

Theorem source_getitem s i j : Inv0 s -> norm_index (length (m_live s)) i = Some j ->
  src_getitem_int s i = (s, res_map RItem (m_getitem s i)).
Proof.
  intros H N.
  assert (N2 : norm_index (length (m_live s)) (norm_neg s i) = Some j).
  { pose proof (norm_index_spec _ _ _ N) as [Lj E]. unfold norm_neg, m_len. rewrite (inv_len s H), E.
    unfold norm_index. replace (0 <=? Z.of_nat j)%Z with true by (symmetry; apply Z.leb_le; lia).
    replace (Z.of_nat j <? Z.of_nat (length (m_live s)))%Z with true by (symmetry; apply Z.ltb_lt; lia).
    simpl. rewrite Nat2Z.id. reflexivity. }
  destruct (real_index_ok s _ j H N2) as (r & x & R1 & R2 & R3).
  assert (G : forall idx, idx = norm_neg s i ->
              (let real_index := src_get_real_index s idx in
               match py_get (items s) real_index with
               | None => (s, Raise IndexError)
               | Some ret => (s, py_return_slot ret)
               end) = (s, res_map RItem (m_getitem s i))).
  { intros idx ->. cbv zeta. rewrite (source_real_index s _ r H R1), py_get_nat, R2.
    unfold m_getitem. rewrite R1, R2. reflexivity. }
  unfold src_getitem_int. destruct (i <? 0)%Z eqn:C.
  - apply G. unfold norm_neg, lenZ. rewrite C. reflexivity.
  - apply G. unfold norm_neg. rewrite C. reflexivity.
Qed.

(* ---- read-only predicates: for k in it: if c(k): return False ... return True  =  forallb ------------- *)
Lemma no_exists_forall {A} (f : A -> bool) l :
  (if existsb (fun k => negb (f k)) l then false else true) = forallb f l.
Proof. induction l as [|x l IH]; simpl; [reflexivity|]. destruct (f x); simpl; [exact IH|reflexivity]. Qed.

Lemma no_exists_forall_neg {A} (f : A -> bool) l :
  (if existsb f l then false else true) = forallb (fun k => negb (f k)) l.
Proof. induction l as [|x l IH]; simpl; [reflexivity|]. destruct (f x); simpl; [reflexivity|exact IH]. Qed.

(* what m_step1 returns for these calls, read off the model *)
Theorem source_predicates s o x :
  snd (m_step1 gen_cfg s (IsDisjoint o)) = Ok (RBool (src_isdisjoint s o)) /\
  snd (m_step1 gen_cfg s (IsSubset o)) = Ok (RBool (src_issubset s o)) /\
  snd (m_step1 gen_cfg s (IsSuperset o)) = Ok (RBool (src_issuperset s o)) /\
  snd (m_step1 gen_cfg s (Count x)) = Ok (RNat (src_count s x)) /\
  snd (m_step1 gen_cfg s (Contains x)) = Ok (RBool (src_contains s x)) /\
  snd (m_step1 gen_cfg s Len) = Ok (RNat (src_len s)).
Proof.
  unfold src_isdisjoint, src_issubset, src_issuperset, src_count, src_contains, src_len. cbn [m_step1 snd].
  repeat split.
  - rewrite no_exists_forall_neg. reflexivity.
  - rewrite no_exists_forall. reflexivity.
  - rewrite no_exists_forall. reflexivity.
Qed.

(* ---- the set algebra ------------------------------------------------------------------------------------------ *)
From Boltons Require Import Proofs.C11_Sets Proofs.C11_Refine.

Lemma not_exists_not {A} (f : A -> bool) l : negb (existsb (fun o => negb (f o)) l) = forallb f l.
Proof. induction l as [|x l IH]; simpl; [reflexivity|]. destruct (f x); simpl; [exact IH|reflexivity]. Qed.

Theorem source_union s os : src_union s os = m_union s os.
Proof. reflexivity. Qed.

Theorem source_intersection s os : src_intersection s os = m_intersection s os.
Proof.
  unfold src_intersection, m_intersection, src_iter_intersection.
  destruct os as [|o [|o2 t]]; cbn [length Nat.eqb nth]; try reflexivity;
    (f_equal; apply filter_ext; intros k; apply not_exists_not).
Qed.

Theorem source_difference s os : src_difference s os = m_difference s os.
Proof.
  unfold src_difference, m_difference, src_iter_difference.
  destruct os as [|o [|o2 t]]; cbn [length Nat.eqb nth]; reflexivity.
Qed.

Theorem source_symmetric_difference s o : src_symmetric_difference s [o] = m_symmetric_difference s o.
Proof.
  unfold src_symmetric_difference, m_symmetric_difference. cbv zeta.
  rewrite source_union, source_intersection, source_difference. reflexivity.
Qed.

Theorem source_rsub s o : src_rsub s o = sort_nat (filter (fun x => negb (m_contains s x)) (o_elems o)).
Proof. reflexivity. Qed.

Lemma fold_adds l : forall s, fold_left (fun self o => fst (src_add self o)) l s = fold_left m_add l s.
Proof. induction l as [|x l IH]; intros s; simpl; [reflexivity|]. rewrite source_add. apply IH. Qed.

Theorem source_update s os : src_update s os = m_update s os.
Proof.
  unfold src_update, m_update. destruct os as [|o [|o2 t]]; cbn [is_nonempty negb length Nat.eqb nth]; cbv zeta;
    try reflexivity; apply fold_adds.
Qed.

Lemma fold_discards D : forall s, Inv s ->
  fold_left (fun self val => fst (src_discard self val)) D s = discard_all gen_cfg s D.
Proof.
  unfold discard_all. induction D as [|x D IH]; intros s H; simpl; [reflexivity|].
  rewrite (source_discard s x (proj1 H)). cbn [fst]. apply IH. apply (discard_inv gen_cfg s x H).
Qed.

Theorem source_intersection_update s os : Inv s -> src_intersection_update s os = m_intersection_update gen_cfg s os.
Proof.
  intros H. unfold src_intersection_update, m_intersection_update. cbv zeta.
  rewrite source_intersection, source_difference. apply fold_discards. exact H.
Qed.

Theorem source_difference_update s os : Inv s -> src_difference_update s os = m_difference_update gen_cfg s os.
Proof.
  intros H. unfold src_difference_update, m_difference_update. cbv zeta.
  rewrite source_clear. cbn [fst].
  assert (H0 : Inv (if existsb (eq_self s) os then m_clear s else s)).
  { destruct (existsb (eq_self s) os); [apply Inv_empty|exact H]. }
  revert H0. generalize (if existsb (eq_self s) os then m_clear s else s). clear H.
  induction os as [|o os IH]; intros st H; simpl; [reflexivity|].
  rewrite source_intersection, (fold_discards _ st H). apply IH.
  apply (discard_all_inv gen_cfg _ st H).
Qed.

Theorem source_symmetric_difference_update s o : Inv s ->
  src_symmetric_difference_update s o = m_symmetric_difference_update gen_cfg s o.
Proof.
  intros H. unfold src_symmetric_difference_update, m_symmetric_difference_update, py_same_object. cbv zeta.
  generalize (m_live (m_from_list (o_elems o))). intros l. revert s H.
  induction l as [|v l IH]; intros s H; simpl; [reflexivity|].
  unfold m_contains. destruct (d_mem (imap s) v) eqn:M.
  - rewrite (source_discard s v (proj1 H)). cbn [fst]. apply IH. apply (discard_inv gen_cfg s v H).
  - rewrite source_add. cbn [fst]. apply IH. apply (add_inv s v H).
Qed.

(* ---- iteration and slicing -------------------------------------------------------------------------------------- *)
Theorem source_iter s : src_iter s = m_live s.
Proof. reflexivity. Qed.

Lemma live_of_rev l : live_of (rev l) = rev (live_of l).
Proof.
  induction l as [|[x|] l IH]; simpl; [reflexivity| |].
  - rewrite live_of_app, IH. reflexivity.
  - rewrite live_of_app, IH. simpl. apply app_nil_r.
Qed.

Theorem source_reversed s : src_reversed s = rev (m_live s).
Proof. unfold src_reversed, m_live. apply live_of_rev. Qed.

Lemma slice_bound_src s (x : option Z) :
  Z.to_nat (opt_get (if opt_lt0 x then Some (Z.max (opt_get x + lenZ s) 0)%Z else x)) =
  match x with None => 0 | Some v => slice_bound s v end.
Proof.
  destruct x as [v|]; [|reflexivity]. unfold opt_lt0, slice_bound, lenZ. cbn [opt_get].
  destruct (v <? 0)%Z; reflexivity.
Qed.

Theorem source_slice s a b (k : option nat) :
  m_slice s a b k =
  match src_iter_slice s a b (option_map Z.of_nat k) with
  | None => Raise ValueError
  | Some sl => Ok (RList (m_live (m_from_list sl)))          (* __getitem__: self.from_iterable(iter_slice) *)
  end.
Proof.
  unfold src_iter_slice, m_slice. cbv zeta.
  assert (SB : forall x, match (if opt_lt0 x then Some (Z.max (opt_get x + lenZ s) 0)%Z else x) with
                         | Some z => Some (Z.to_nat z) | None => None end =
                         match x with None => None | Some v => Some (slice_bound s v) end).
  { intros [v|]; [|reflexivity]. unfold opt_lt0, slice_bound, lenZ. cbn [opt_get]. destruct (v <? 0)%Z; reflexivity. }
  destruct k as [[|n]|]; cbn [option_map opt_lt0].
  - reflexivity.
  - replace (Z.of_nat (S n) <? 0)%Z with false by (symmetry; apply Z.ltb_ge; lia).
    unfold py_islice. cbv zeta. rewrite slice_bound_src, SB.
    replace (Z.of_nat (S n) <=? 0)%Z with false by (symmetry; apply Z.leb_gt; lia).
    rewrite Nat2Z.id. reflexivity.
  - unfold py_islice. cbv zeta. rewrite slice_bound_src, SB. reflexivity.
Qed.
