(* C13: facts about Python dicts as association lists (Prelude.pydict) and
   dict.update (Model.d_update). *)
From Boltons Require Import Lib.Prelude Spec.C13_Spec Model.C13_Model.

Section Dict.
  Context {B : Type}.
  Implicit Types d : pydict B.

  Definition dkeys (d : pydict B) : list K := map fst d.

  Lemma d_get_none_iff d k : d_get d k = None <-> ~ In k (dkeys d).
  Proof.
    induction d as [|[k' v] r IH]; simpl.
    - split; [intros _ [] | reflexivity].
    - destruct (Nat.eqb k k') eqn:E.
      + apply Nat.eqb_eq in E. subst. split; [discriminate | intro H; exfalso; apply H; left; reflexivity].
      + apply Nat.eqb_neq in E. rewrite IH. split.
        * intros H [H1|H1]; [congruence | contradiction].
        * intros H H1. apply H. right. exact H1.
  Qed.

  Lemma d_get_some_in d k v : d_get d k = Some v -> In (k, v) d.
  Proof.
    induction d as [|[k' v'] r IH]; simpl; [discriminate|].
    destruct (Nat.eqb k k') eqn:E.
    - apply Nat.eqb_eq in E. intro H. inversion H; subst. left. reflexivity.
    - intro H. right. apply IH. exact H.
  Qed.

  Lemma d_get_in_nodup d k v : NoDup (dkeys d) -> In (k, v) d -> d_get d k = Some v.
  Proof.
    induction d as [|[k' v'] r IH]; simpl; intros ND Hin; [contradiction|].
    inversion ND; subst. destruct Hin as [E|Hin].
    - inversion E; subst. rewrite Nat.eqb_refl. reflexivity.
    - destruct (Nat.eqb k k') eqn:E.
      + apply Nat.eqb_eq in E. subst. exfalso. apply H1.
        apply in_map_iff. exists (k', v). split; [reflexivity | exact Hin].
      + apply IH; assumption.
  Qed.

  Lemma d_get_d_set_same d k v : d_get (d_set d k v) k = Some v.
  Proof.
    induction d as [|[k' v'] r IH]; simpl.
    - rewrite Nat.eqb_refl. reflexivity.
    - destruct (Nat.eqb k k') eqn:E; simpl; rewrite E; [reflexivity | exact IH].
  Qed.

  Lemma d_get_d_set_other d k k' v : k' <> k -> d_get (d_set d k v) k' = d_get d k'.
  Proof.
    intro N. induction d as [|[k0 v0] r IH]; simpl.
    - apply Nat.eqb_neq in N. rewrite N. reflexivity.
    - destruct (Nat.eqb k k0) eqn:E; simpl.
      + apply Nat.eqb_eq in E. subst k0. apply Nat.eqb_neq in N. rewrite N. reflexivity.
      + rewrite IH. reflexivity.
  Qed.

  Lemma d_set_keys d k v x : In x (dkeys (d_set d k v)) <-> x = k \/ In x (dkeys d).
  Proof.
    induction d as [|[k0 v0] r IH]; simpl.
    - split; [intros [H|[]]; left; symmetry; exact H | intros [H|[]]; left; symmetry; exact H].
    - destruct (Nat.eqb k k0) eqn:E; simpl.
      + apply Nat.eqb_eq in E. subst k0. split; [intros [H|H]; [left; symmetry; exact H | right; right; exact H]|].
        intros [H|[H|H]]; [left; symmetry; exact H | left; exact H | right; exact H].
      + rewrite IH. tauto.
  Qed.

  Lemma d_set_nodup d k v : NoDup (dkeys d) -> NoDup (dkeys (d_set d k v)).
  Proof.
    induction d as [|[k0 v0] r IH]; simpl; intro ND.
    - constructor; [intros [] | constructor].
    - inversion ND; subst. destruct (Nat.eqb k k0) eqn:E; simpl.
      + constructor; assumption.
      + constructor; [|apply IH; assumption]. intro Hin. apply d_set_keys in Hin as [Hin|Hin].
        * apply Nat.eqb_neq in E. congruence.
        * contradiction.
  Qed.

  Lemma d_get_d_del_other d k k' : k' <> k -> d_get (d_del d k) k' = d_get d k'.
  Proof.
    intro N. induction d as [|[k0 v0] r IH]; simpl; [reflexivity|].
    destruct (Nat.eqb k k0) eqn:E; simpl.
    - apply Nat.eqb_eq in E. subst k0. apply Nat.eqb_neq in N. rewrite N. reflexivity.
    - rewrite IH. reflexivity.
  Qed.

  Lemma d_del_keys_incl d k : incl (dkeys (d_del d k)) (dkeys d).
  Proof.
    induction d as [|[k0 v0] r IH]; simpl; [apply incl_refl|].
    destruct (Nat.eqb k k0); simpl.
    - intros a Ha. right. exact Ha.
    - intros a [Ha|Ha]; [left; exact Ha | right; apply IH; exact Ha].
  Qed.

  Lemma d_del_nodup d k : NoDup (dkeys d) -> NoDup (dkeys (d_del d k)).
  Proof.
    induction d as [|[k0 v0] r IH]; simpl; intro ND; [constructor|].
    inversion ND; subst. destruct (Nat.eqb k k0); simpl; [assumption|].
    constructor; [|apply IH; assumption]. intro Hin. apply d_del_keys_incl in Hin. contradiction.
  Qed.

  Lemma d_del_key_gone d k : NoDup (dkeys d) -> ~ In k (dkeys (d_del d k)).
  Proof.
    induction d as [|[k0 v0] r IH]; simpl; intro ND; [intros []|].
    inversion ND; subst. destruct (Nat.eqb k k0) eqn:E; simpl.
    - apply Nat.eqb_eq in E. subst k0. assumption.
    - apply Nat.eqb_neq in E. intros [H|H]; [congruence | apply IH in H; assumption].
  Qed.

  Lemma d_get_d_del_same d k : NoDup (dkeys d) -> d_get (d_del d k) k = None.
  Proof. intro ND. apply d_get_none_iff. apply d_del_key_gone. exact ND. Qed.

  Lemma d_del_notin d k : ~ In k (dkeys d) -> d_del d k = d.
  Proof.
    induction d as [|[k0 v0] r IH]; simpl; intro H; [reflexivity|].
    destruct (Nat.eqb k k0) eqn:E.
    - apply Nat.eqb_eq in E. subst. exfalso. apply H. left. reflexivity.
    - f_equal. apply IH. intro Hin. apply H. right. exact Hin.
  Qed.

  (* dict.update *)
  Lemma d_update_cons d k v r : d_update d ((k, v) :: r) = d_update (d_set d k v) r.
  Proof. reflexivity. Qed.

  Lemma d_update_nodup kvs : forall d, NoDup (dkeys d) -> NoDup (dkeys (d_update d kvs)).
  Proof.
    induction kvs as [|[k v] r IH]; intros d ND; [exact ND|].
    rewrite d_update_cons. apply IH. apply d_set_nodup. exact ND.
  Qed.

  Lemma d_update_keys kvs : forall d x,
    In x (dkeys (d_update d kvs)) <-> In x (dkeys d) \/ In x (map fst kvs).
  Proof.
    induction kvs as [|[k v] r IH]; intros d x.
    - simpl. tauto.
    - rewrite d_update_cons, IH, d_set_keys. simpl. split.
      + intros [[H|H]|H]; [right; left; symmetry; exact H | left; exact H | right; right; exact H].
      + intros [H|[H|H]]; [left; right; exact H | left; left; symmetry; exact H | right; exact H].
  Qed.

  Lemma d_get_d_update_notin kvs : forall d x,
    ~ In x (map fst kvs) -> d_get (d_update d kvs) x = d_get d x.
  Proof.
    induction kvs as [|[k v] r IH]; intros d x H; [reflexivity|].
    rewrite d_update_cons, IH.
    - apply d_get_d_set_other. intro E. apply H. left. symmetry. exact E.
    - intro Hin. apply H. right. exact Hin.
  Qed.

  Lemma d_get_d_update_in kvs : forall d x v,
    NoDup (map fst kvs) -> In (x, v) kvs -> d_get (d_update d kvs) x = Some v.
  Proof.
    induction kvs as [|[k w] r IH]; intros d x v ND Hin; [contradiction|].
    simpl in ND. inversion ND; subst. rewrite d_update_cons. destruct Hin as [E|Hin].
    - inversion E; subst. rewrite (d_get_d_update_notin r _ x H1). apply d_get_d_set_same.
    - apply IH; assumption.
  Qed.
End Dict.
