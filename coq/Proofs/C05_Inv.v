(* C05: what a failed save leaves behind.  Extra invariants (old inodes untouched,
   the part file is ours and fresh, its permission bits, the shape of the trace
   around a failed unlink) carried next to the C04 stages through the same program. *)
From Boltons Require Import Lib.Prelude Model.C04_Model Spec.C04_Spec Check.C04_Check
     Spec.C05_Spec Check.C05_Check Proofs.C04_Hoare Proofs.C04_Inv.
Open Scope nat_scope.
Arguments upd {A} f k v x : simpl never.

Lemma guard_cons x t : link_then_unlink_failed t = true -> link_then_unlink_failed (x :: t) = true.
Proof.
  intro H. destruct x as [e r]. destruct e; destruct r; cbn [link_then_unlink_failed]; auto.
  destruct t as [|[e' r'] t']; [discriminate|].
  destruct e'; destruct r'; auto. rewrite H. apply orb_true_r.
Qed.

Lemma unlink_failed_cons p x t : unlink_failed p t = true -> unlink_failed p (x :: t) = true.
Proof. intro H. unfold unlink_failed in *. cbn [existsb]. rewrite H. apply orb_true_r. Qed.

(* the effect of the events that act on the open file only *)
Definition file_event (e : ev) : Prop :=
  match e with EFdopen | EWrite _ _ | EFlush | EFsync | EClose => True | _ => False end.

Lemma sem_file_event um e s f :
  file_event e ->
  let s' := snd (fst (sem um e s f)) in
  f_dir s' = f_dir s /\ f_next s' = f_next s /\
  (forall j, (forall buf, f <> FOpen j buf) -> f_ino s' j = f_ino s j) /\
  (forall j, i_mode (f_ino s' j) = i_mode (f_ino s j)) /\
  (forall p b, snd (sem um e s f) = FOpen p b -> exists b0, f = FOpen p b0).
Proof.
  intro He. destruct e; cbn in He; try contradiction; cbn [sem].
  - (* fdopen *) cbn. repeat split; auto. intros p b H. eauto.
  - (* write *) destruct f as [|i buf|]; cbn; try (repeat split; auto; intros; discriminate).
    destruct ((blen (i_vol (f_ino s i)) <=? disk)%N && (disk <=? blen (i_vol (f_ino s i) ++ buf ++ data))%N); cbn.
    + split; [auto|]. split; [auto|]. split; [|split].
      * intros j Hj. unfold upd. destruct (Nat.eqb j i) eqn:E; auto.
        apply Nat.eqb_eq in E. subst. exfalso. eapply Hj. reflexivity.
      * intros j. unfold upd. destruct (Nat.eqb j i) eqn:E; auto. apply Nat.eqb_eq in E. subst. reflexivity.
      * intros p b H. inversion H. eauto.
    + repeat split; auto. intros p b H. inversion H. eauto.
  - (* flush *) destruct f as [|i buf|]; cbn; try (repeat split; auto; intros; discriminate).
    split; [auto|]. split; [auto|]. split; [|split].
    + intros j Hj. unfold upd. destruct (Nat.eqb j i) eqn:E; auto.
      apply Nat.eqb_eq in E. subst. exfalso. eapply Hj. reflexivity.
    + intros j. unfold upd. destruct (Nat.eqb j i) eqn:E; auto. apply Nat.eqb_eq in E. subst. reflexivity.
    + intros p b H. inversion H. eauto.
  - (* fsync *) destruct f as [|i buf|]; cbn; try (repeat split; auto; intros; discriminate).
    split; [auto|]. split; [auto|]. split; [|split].
    + intros j Hj. unfold upd. destruct (Nat.eqb j i) eqn:E; auto.
      apply Nat.eqb_eq in E. subst. exfalso. eapply Hj. reflexivity.
    + intros j. unfold upd. destruct (Nat.eqb j i) eqn:E; auto. apply Nat.eqb_eq in E. subst. reflexivity.
    + intros p b H. inversion H. eauto.
  - (* close *) destruct f as [|i buf|]; cbn; try (repeat split; auto; intros; discriminate).
    split; [auto|]. split; [auto|]. split; [|split].
    + intros j Hj. unfold upd. destruct (Nat.eqb j i) eqn:E; auto.
      apply Nat.eqb_eq in E. subst. exfalso. eapply Hj. reflexivity.
    + intros j. unfold upd. destruct (Nat.eqb j i) eqn:E; auto. apply Nat.eqb_eq in E. subst. reflexivity.
    + intros; discriminate.
Qed.

Lemma after_fault_effect um e s f :
  let s' := fst (after_fault um e s f) in
  f_dir s' = f_dir s /\ f_next s' = f_next s /\
  (forall j, (forall buf, f <> FOpen j buf) -> f_ino s' j = f_ino s j) /\
  (forall j, i_mode (f_ino s' j) = i_mode (f_ino s j)) /\
  (forall p b, snd (after_fault um e s f) = FOpen p b -> exists b0, f = FOpen p b0).
Proof.
  destruct e; cbn [after_fault fst snd]; try (repeat split; auto; intros p b H; eauto; fail).
  - repeat split; auto. intros; discriminate.
  - pose proof (sem_file_event um EClose s f I) as H.
    destruct (sem um EClose s f) as [[r s'] f']. exact H.
Qed.

Section Inv5.
  Variable c : cfg.
  Variable s0 : fs.
  Variable sched : list (nat * action).
  Variable new : bytes.
  Variable umask : N.
  Notation dest := (c_dest c).
  Notation part := (c_part c).
  Hypothesis Hdp : dest <> part.
  Hypothesis Hpd : same_dir part = true.
  Hypothesis Hwf0 : wf s0.

  Notation St_any := (St_any c s0 sched).
  Notation St_post := (St_post c new).
  Notation Safe := (Safe c s0 sched new).
  Notation St_init := (St_init c s0 sched).
  Notation St_open := (St_open c s0 sched).
  Notation St_flushed := (St_flushed c s0 sched).
  Notation St_synced := (St_synced c s0 sched).
  Notation St_ready := (St_ready c s0 sched).
  Notation St_done := (St_done c new).
  Notation St_bclosed := (St_bclosed c s0 sched).
  Notation scan_tr := (scan_tr c).
  Notation LT := (LT c sched).
  Notation stageT := (N -> fs -> fstate -> list (ev * option nat) -> Prop).

  (* nothing that existed at entry is ever written to *)
  Definition olds_same (s : fs) : Prop :=
    f_next s0 <= f_next s /\ (forall j, j < f_next s0 -> f_ino s j = f_ino s0 j) /\
    (* every other name of the directory is bound as at entry *)
    (forall n, n <> dest -> n <> part -> f_dir s n = f_dir s0 n).
  Definition file_fresh (f : fstate) : Prop :=
    match f with FOpen p _ => f_next s0 <= p | _ => True end.
  Definition XB (s : fs) (f : fstate) : Prop := olds_same s /\ file_fresh f.

  (* the part file could be created: no stale one was in the way, or we were allowed to remove it *)
  Definition OpenFact : Prop := c_overwrite_part c = true \/ f_dir s0 part = None.

  Definition guardfact (tr : list (ev * option nat)) : Prop :=
    sc_published (scan_tr tr) = true -> link_then_unlink_failed tr = true.
  Definition part_clean (s : fs) (tr : list (ev * option nat)) : Prop :=
    c_rm_part_on_exc c = false \/ f_dir s part = None \/ unlink_failed part tr = true.

  Definition FailCase (s : fs) (tr : list (ev * option nat)) : Prop :=
    (s = s0 /\ tr = [] /\ c_overwrite c = false /\ f_dir s0 dest <> None) \/
    (f_dir s part = f_dir s0 part /\ unlink_failed part tr = true) \/
    (f_dir s part = None /\ OpenFact) \/
    (f_dir s part = f_dir s0 part /\ f_dir s0 part <> None /\ c_overwrite_part c = false) \/
    (OpenFact /\ part_clean s tr).

  Definition Y_start : stageT := fun um s f tr => um = umask /\ s = s0 /\ f = FNone /\ tr = [].
  Definition Y_init1 : stageT := fun um s f tr =>
    um = umask /\ St_init s f (scan_tr tr) /\ XB s f /\ tr = [] /\ f_dir s part = f_dir s0 part.
  Definition Y_init2 : stageT := fun um s f tr =>
    um = umask /\ St_init s f (scan_tr tr) /\ XB s f /\
    ((f_dir s part = None /\ OpenFact) \/ (f_dir s part = f_dir s0 part /\ c_overwrite_part c = false)).
  Definition Y_ours (P : stage) (G : N -> Prop) : stageT := fun um s f tr =>
    um = umask /\ P s f (scan_tr tr) /\ XB s f /\ OpenFact /\
    exists p, f_dir s part = Some p /\ f_next s0 <= p /\ G (i_mode (f_ino s p)).
  Definition Y_postlink (G : N -> Prop) : stageT := fun um s f tr =>
    um = umask /\ St_post s f (scan_tr tr) /\ olds_same s /\ OpenFact /\
    (exists p, f_dir s part = Some p /\ f_dir s dest = Some p /\ G (i_mode (f_ino s p))) /\
    exists tr0, tr = (ELink part dest, None) :: tr0.
  Definition Y_done (G : N -> Prop) : stageT := fun um s f tr =>
    um = umask /\ St_done s f (scan_tr tr) /\ olds_same s /\ OpenFact /\
    exists p, f_dir s dest = Some p /\ G (i_mode (f_ino s p)).
  Definition Y_mid : stageT := fun um s f tr =>
    um = umask /\ Safe s f (scan_tr tr) /\ XB s f /\ OpenFact /\ guardfact tr.
  Definition Y_cleaned : stageT := fun um s f tr => Y_mid um s f tr /\ part_clean s tr.
  Definition Y_fail : stageT := fun um s f tr =>
    Safe s f (scan_tr tr) /\ olds_same s /\ guardfact tr /\ FailCase s tr.

  (* ---- stability under the destination appearing ---- *)
  Lemma olds_create s n cnt d m : (n = dest \/ n = part) -> olds_same s -> olds_same (fs_create s n cnt d m).
  Proof.
    intros Hn' (Hn & Hi & Hd). split; [cbn; lia|]. split.
    - intros j Hj. cbn. rewrite upd_neq by lia. auto.
    - intros x Hx1 Hx2. cbn. rewrite upd_neq; [auto|]. destruct Hn'; congruence.
  Qed.
  Lemma olds_set_name s n o : (n = dest \/ n = part) -> olds_same s -> olds_same (set_name s n o).
  Proof.
    intros Hn' (Hn & Hi & Hd). split; [exact Hn|]. split; [exact Hi|].
    intros x Hx1 Hx2. cbn. rewrite upd_neq; [auto|]. destruct Hn'; congruence.
  Qed.
  Lemma create_dest_keeps s cnt d m x : x <> dest -> f_dir (fs_create s dest cnt d m) x = f_dir s x.
  Proof. intro H. cbn. apply upd_neq. exact H. Qed.

  Lemma init1_stable : istableT c sched Y_init1.
  Proof.
    intros um s f tr k cnt m (Hu & Hi & (Ho & Hf) & Ht & Hp) Hn Hin.
    split; [auto|]. split; [eapply init_stable; eauto|]. split; [split; [apply olds_create; [left; reflexivity|auto]|auto]|].
    split; [auto|]. rewrite create_dest_keeps by congruence. exact Hp.
  Qed.
  Lemma init2_stable : istableT c sched Y_init2.
  Proof.
    intros um s f tr k cnt m (Hu & Hi & (Ho & Hf) & Hp) Hn Hin.
    split; [auto|]. split; [eapply init_stable; eauto|]. split; [split; [apply olds_create; [left; reflexivity|auto]|auto]|].
    rewrite create_dest_keeps by congruence. exact Hp.
  Qed.
  Lemma ours_stable (P : stage) G :
    istable c sched P -> (forall s f sc, P s f sc -> wf s) -> istableT c sched (Y_ours P G).
  Proof.
    intros HP Hwf um s f tr k cnt m (Hu & Hi & (Ho & Hf) & Hof & (p & Hp & Hpn & Hg)) Hn Hin.
    split; [auto|]. split; [eapply HP; eauto|]. split; [split; [apply olds_create; [left; reflexivity|auto]|auto]|].
    split; [auto|]. exists p. rewrite create_dest_keeps by congruence. split; [auto|]. split; [auto|].
    cbn. rewrite upd_neq; [exact Hg|]. apply (Hwf _ _ _ Hi) in Hp. lia.
  Qed.
  Lemma postlink_stable G : istableT c sched (Y_postlink G).
  Proof. intros um s f tr k cnt m (_ & _ & _ & _ & (p & _ & Hd & _) & _) Hn _. congruence. Qed.
  Lemma mid_stable : istableT c sched Y_mid.
  Proof.
    intros um s f tr k cnt m (Hu & Hi & (Ho & Hf) & Hof & Hg) Hn Hin.
    split; [auto|]. split; [eapply safe_stable; eauto|]. split; [split; [apply olds_create; [left; reflexivity|auto]|auto]|]. auto.
  Qed.

  (* ---- generic preservation of the extras ---- *)
  (* at a crash point: nothing that existed at entry has been touched *)
  Definition Ycr : stageT := fun um s f tr => olds_same s.
  Definition CT : world -> Prop := LT Ycr.
  Definition EF : exn -> world -> Prop := fun _ => LT Y_fail.
  Definition EM : exn -> world -> Prop := fun _ => LT Y_mid.

  Lemma scan_tr_cons x t : scan_tr (x :: t) = scan_step dest (scan_tr t) (call_of x).
  Proof. reflexivity. Qed.
  Lemma scan_tr_failed e x t : scan_tr ((e, Some x) :: t) = scan_tr t.
  Proof. rewrite scan_tr_cons, call_of_failed. reflexivity. Qed.

  Lemma XB_effect s f s' f' :
    XB s f ->
    f_next s' = f_next s ->
    f_dir s' = f_dir s ->
    (forall j, (forall buf, f <> FOpen j buf) -> f_ino s' j = f_ino s j) ->
    (forall p b, f' = FOpen p b -> exists b0, f = FOpen p b0) ->
    XB s' f'.
  Proof.
    intros ((Hn & Hi & Hd) & Hf) En Ed Ei Ef. split; [split; [|split]|].
    - rewrite En. exact Hn.
    - intros j Hj. rewrite Ei; [auto|]. intros buf ->. cbn in Hf. lia.
    - intros n H1 H2. rewrite Ed. auto.
    - destruct f' as [|p b|]; cbn; auto. destruct (Ef p b eq_refl) as (b0 & ->). exact Hf.
  Qed.

  Lemma XB_file_event um e s f :
    file_event e -> XB s f -> XB (snd (fst (sem um e s f))) (snd (sem um e s f)).
  Proof.
    intros He HX. destruct (sem_file_event um e s f He) as (Ed & En & Ei & _ & Ef).
    eapply XB_effect; eauto.
  Qed.
  Lemma XB_after_fault um e s f :
    XB s f -> XB (fst (after_fault um e s f)) (snd (after_fault um e s f)).
  Proof.
    intros HX. destruct (after_fault_effect um e s f) as (Ed & En & Ei & _ & Ef).
    eapply XB_effect; eauto.
  Qed.

  Lemma any_mid um s f tr e x :
    um = umask -> St_any s f (scan_tr tr) -> XB s f -> OpenFact -> Y_mid um s f ((e, Some x) :: tr).
  Proof.
    intros Hu Ha HX Ho. split; [auto|]. rewrite scan_tr_failed. split; [left; exact Ha|]. split; [auto|]. split; [auto|].
    unfold guardfact. rewrite scan_tr_failed. destruct Ha as (_ & _ & Hp). rewrite Hp. discriminate.
  Qed.

  Lemma t_pure {A} (phi : Prop) (P : world -> Prop) (m : M A) (Q : A -> world -> Prop)
        (E : exn -> world -> Prop) (C : world -> Prop) :
    (phi -> triple P m Q E C) -> triple (fun w => P w /\ phi) m Q E C.
  Proof. intros H w (Hw & Hphi). apply (H Hphi w Hw). Qed.

  Lemma weakenC {A} (Pst : stageT) (m : M A) (P : world -> Prop) (Q : A -> world -> Prop) (E : exn -> world -> Prop) :
    (forall um s f tr, Pst um s f tr -> olds_same s) ->
    triple P m Q E (LT Pst) -> triple P m Q E CT.
  Proof.
    intros Himp H. eapply t_conseq; [exact H| | | |]; auto.
    intros w (Hw & R). split; [eapply Himp; exact Hw|exact R].
  Qed.

  Lemma ours_olds (P : stage) G um s f tr : Y_ours P G um s f tr -> olds_same s.
  Proof. intros (_ & _ & (H & _) & _). exact H. Qed.
  Lemma init1_olds um s f tr : Y_init1 um s f tr -> olds_same s.
  Proof. intros (_ & _ & (H & _) & _). exact H. Qed.
  Lemma init2_olds um s f tr : Y_init2 um s f tr -> olds_same s.
  Proof. intros (_ & _ & (H & _) & _). exact H. Qed.
  Lemma postlink_olds G um s f tr : Y_postlink G um s f tr -> olds_same s.
  Proof. intros (_ & _ & H & _). exact H. Qed.
  Lemma mid_olds um s f tr : Y_mid um s f tr -> olds_same s.
  Proof. intros (_ & _ & (H & _) & _). exact H. Qed.

  (* ---- file events on our part file ---- *)
  Lemma tr5_file (P Q : stage) G e forced :
    file_event e -> istable c sched P -> (forall s f sc, P s f sc -> wf s) ->
    (forall s f sc, P s f sc -> St_any s f sc) -> sem_prem c s0 sched P Q e ->
    triple (LT (Y_ours P G)) (prim_f e forced) (fun _ => LT (Y_ours Q G)) EM CT.
  Proof.
    intros He Hst Hwf Hany Hsem. apply (weakenC (Y_ours P G)); [apply ours_olds|].
    apply prim_ruleT.
    - apply ours_stable; auto.
    - intros um s f tr errno (Hu & HP & HX & Ho & _).
      apply any_mid; auto.
      + apply any_after_fault. apply Hany. exact HP.
      + apply XB_after_fault. exact HX.
    - intros um s f tr (Hu & HP & HX & Ho & (p & Hp & Hpn & Hg)).
      pose proof (Hsem um s f (scan_tr tr) HP) as R.
      pose proof (XB_file_event um e s f He HX) as HX'.
      destruct (sem_file_event um e s f He) as (Ed & En & Ei & Em & Ef).
      destruct (fst (fst (sem um e s f))) as [errno|].
      + apply any_mid; auto.
      + split; [auto|]. split; [exact R|]. split; [exact HX'|]. split; [auto|].
        exists p. rewrite Ed. split; [auto|]. split; [auto|]. rewrite Em. exact Hg.
  Qed.

  Lemma Hne5 : Nat.eqb part dest = false.
  Proof. apply Nat.eqb_neq. congruence. Qed.

  Lemma unlink_failed_head x t : unlink_failed part ((EUnlink part, Some x) :: t) = true.
  Proof. unfold unlink_failed. cbn. now rewrite Nat.eqb_refl. Qed.

  Lemma fail_of_init2 um s f tr e x :
    Y_init2 um s f tr -> Y_fail um s f ((e, Some x) :: tr).
  Proof.
    intros (Hu & Hi & (Ho & Hf) & Hp).
    pose proof (init_any c s0 sched _ _ _ Hi) as Ha.
    split; [rewrite scan_tr_failed; left; exact Ha|]. split; [exact Ho|]. split.
    - unfold guardfact. rewrite scan_tr_failed. destruct Ha as (_ & _ & Hpub). rewrite Hpub. discriminate.
    - destruct Hp as [Hp' | (He & Hw)].
      + right. right. left. exact Hp'.
      + destruct (f_dir s0 part) eqn:E0.
        * right. right. right. left. rewrite E0 in *. split; [auto|]. split; [discriminate|auto].
        * right. right. left. split; [exact He|]. right. exact E0.
  Qed.

  (* T1: removing a stale part file (overwrite_part) *)
  Lemma tr5_unlink_stale forced :
    c_overwrite_part c = true ->
    triple (LT Y_init1) (prim_f (EUnlink part) forced) (fun _ => LT Y_init2) EF CT.
  Proof.
    intro Howp. apply (weakenC Y_init1); [apply init1_olds|]. apply prim_ruleT; [apply init1_stable| |].
    - intros um s f tr errno (Hu & Hi & (Ho & Hf) & Ht & Hp). subst tr. cbn [after_fault fst snd].
      pose proof (init_any c s0 sched _ _ _ Hi) as Ha.
      split; [rewrite scan_tr_failed; left; exact Ha|]. split; [exact Ho|]. split.
      + unfold guardfact. rewrite scan_tr_failed. cbn. discriminate.
      + right. left. split; [exact Hp|apply unlink_failed_head].
    - intros um s f tr (Hu & Hi & (Ho & Hf) & Ht & Hp).
      pose proof (sem_unlink_init c s0 sched Hdp um s f (scan_tr tr) Hi) as R.
      cbn [sem] in *. destruct (f_dir s part) eqn:E; cbn [fst snd] in *.
      + split; [auto|]. split; [exact R|]. split; [split; [apply olds_set_name; [right; reflexivity|exact Ho]|exact Hf]|].
        left. split; [|left; exact Howp]. cbn. apply upd_eq.
      + pose proof (init_any c s0 sched _ _ _ Hi) as Ha.
        split; [rewrite scan_tr_failed; left; exact Ha|]. split; [exact Ho|]. split.
        * unfold guardfact. rewrite scan_tr_failed. destruct Ha as (_ & _ & Hpub). rewrite Hpub. discriminate.
        * right. right. left. split; [exact E|]. left. exact Howp.
  Qed.

  (* T2: exclusive creation of the part file *)
  Lemma tr5_open perms forced :
    triple (LT Y_init2) (prim_f (EOpen part true perms) forced)
           (fun _ => LT (Y_ours (St_open []) (fun m => m = N.ldiff perms umask))) EF CT.
  Proof.
    apply (weakenC Y_init2); [apply init2_olds|]. apply prim_ruleT; [apply init2_stable| |].
    - intros um s f tr errno H. cbn [after_fault fst snd]. apply fail_of_init2. exact H.
    - intros um s f tr H. pose proof H as (Hu & Hi & (Ho & Hf) & Hp).
      pose proof (sem_open c s0 sched Hdp Hpd perms um s f (scan_tr tr) Hi) as R.
      cbn [sem] in *. destruct (f_dir s part) eqn:E; cbn [fst snd] in *.
      + apply fail_of_init2. exact H.
      + split; [auto|]. split; [exact R|]. split; [split; [apply olds_create; [right; reflexivity|exact Ho]|]|].
        * cbn. apply Ho.
        * split.
          -- destruct Hp as [(_ & Hof) | (He & Hw)]; [exact Hof|]. right. congruence.
          -- exists (f_next s). unfold fs_create. cbn [f_dir f_ino]. rewrite !upd_eq. cbn.
             split; [auto|]. split; [apply Ho|]. subst um. reflexivity.
  Qed.

  (* T4: chmod away the umask *)
  Lemma tr5_chmod acc G perms forced :
    triple (LT (Y_ours (St_open acc) G)) (prim_f (EChmod part perms) forced)
           (fun _ => LT (Y_ours (St_open acc) (fun m => m = perms))) EM CT.
  Proof.
    apply (weakenC (Y_ours (St_open acc) G)); [apply ours_olds|]. apply prim_ruleT.
    - apply ours_stable; [apply open_stable; auto|]. intros s f sc H. apply H.
    - intros um s f tr errno (Hu & HP & HX & Ho & _). cbn [after_fault fst snd].
      apply any_mid; auto. eapply open_any; eauto.
    - intros um s f tr (Hu & HP & HX & Ho & (p & Hp & Hpn & Hg)).
      pose proof (sem_chmod c s0 sched Hdp acc perms um s f (scan_tr tr) HP) as R.
      cbn [sem] in *. rewrite Hp in *. cbn [fst snd] in *.
      split; [auto|]. split; [exact R|]. split; [|split; [auto|]].
      + destruct HX as ((Hn & Hi & Hd) & Hf). split; [split; [exact Hn|split; [|exact Hd]]|exact Hf].
        intros j Hj. unfold set_mode. cbn [f_ino]. rewrite upd_neq by lia. auto.
      + exists p. unfold set_mode. cbn [f_dir f_ino]. rewrite upd_eq. cbn. auto.
  Qed.

  (* T9: publication by rename *)
  Lemma tr5_rename G forced :
    triple (LT (Y_ours (St_ready new) G)) (prim_f (ERename part dest) forced) (fun _ => LT (Y_done G)) EM CT.
  Proof.
    apply (weakenC (Y_ours (St_ready new) G)); [apply ours_olds|]. apply prim_ruleT.
    - apply ours_stable; [apply ready_stable; auto|]. intros s f sc H. apply H.
    - intros um s f tr errno (Hu & HP & HX & Ho & _). cbn [after_fault fst snd].
      apply any_mid; auto. eapply ready_any; eauto.
    - intros um s f tr (Hu & HP & HX & Ho & (p & Hp & Hpn & Hg)).
      pose proof (sem_rename c s0 sched Hdp new um s f (scan_tr tr) HP) as R.
      cbn [sem] in *. rewrite Hp, Hne5 in *. cbn [fst snd] in *.
      split; [auto|]. split; [exact R|].
      split; [apply olds_set_name; [right; reflexivity|]; apply olds_set_name; [left; reflexivity|exact (proj1 HX)]|]. split; [auto|].
      exists p. unfold set_name. cbn [f_dir f_ino]. rewrite upd_neq by congruence. rewrite upd_eq. auto.
  Qed.

  (* T10: publication by link *)
  Lemma tr5_link G forced :
    triple (LT (Y_ours (St_ready new) G)) (prim_f (ELink part dest) forced) (fun _ => LT (Y_postlink G)) EM CT.
  Proof.
    apply (weakenC (Y_ours (St_ready new) G)); [apply ours_olds|]. apply prim_ruleT.
    - apply ours_stable; [apply ready_stable; auto|]. intros s f sc H. apply H.
    - intros um s f tr errno (Hu & HP & HX & Ho & _). cbn [after_fault fst snd].
      apply any_mid; auto. eapply ready_any; eauto.
    - intros um s f tr (Hu & HP & HX & Ho & (p & Hp & Hpn & Hg)).
      pose proof (sem_link c s0 sched new um s f (scan_tr tr) HP) as R.
      cbn [sem] in *. rewrite Hp in *. destruct (f_dir s dest) eqn:Ed; cbn [fst snd] in *.
      + apply any_mid; auto.
      + split; [auto|]. split; [exact R|]. split; [apply olds_set_name; [left; reflexivity|exact (proj1 HX)]|]. split; [auto|]. split.
        * exists p. unfold set_name. cbn [f_dir f_ino]. rewrite upd_neq by congruence. rewrite upd_eq. auto.
        * eexists. reflexivity.
  Qed.

  (* T11: the unlink that completes a no-clobber publication *)
  Lemma tr5_unlink_post G forced :
    triple (LT (Y_postlink G)) (prim_f (EUnlink part) forced) (fun _ => LT (Y_done G)) EM CT.
  Proof.
    apply (weakenC (Y_postlink G)); [apply postlink_olds|]. apply prim_ruleT; [apply postlink_stable| |].
    - intros um s f tr errno (Hu & HP & Ho & Hof & _ & (tr0 & ->)). cbn [after_fault fst snd].
      split; [auto|]. rewrite scan_tr_failed. split; [right; exact HP|]. split; [|split; [auto|]].
      + split; [exact Ho|]. destruct HP as (_ & _ & -> & _). exact I.
      + intros _. cbn. now rewrite Nat.eqb_refl.
    - intros um s f tr (Hu & HP & Ho & Hof & (p & Hp & Hd & Hg) & Htr).
      pose proof (post_sem c Hdp new um (EUnlink part) s f (scan_tr tr) eq_refl HP) as R.
      cbn [sem] in *. rewrite Hp in *. cbn [fst snd] in *.
      split; [auto|]. split; [split; [exact R|cbn; apply upd_eq]|]. split; [apply olds_set_name; [right; reflexivity|exact Ho]|]. split; [auto|].
      exists p. unfold set_name. cbn [f_dir f_ino]. rewrite upd_neq by congruence. auto.
  Qed.

  (* T12: clean-up events after something went wrong *)
  Lemma weak_pub e r tr : weak c e -> sc_published (scan_tr ((e, r) :: tr)) = sc_published (scan_tr tr).
  Proof.
    intro Hw. rewrite scan_tr_cons. destruct r; [rewrite call_of_failed; reflexivity|].
    destruct e; cbn in Hw; try contradiction; reflexivity.
  Qed.

  Lemma guardfact_weak e r tr : weak c e -> guardfact tr -> guardfact ((e, r) :: tr).
  Proof. intros Hw Hg. unfold guardfact. rewrite weak_pub by exact Hw. intro H. apply guard_cons. auto. Qed.

  Lemma XB_weak_sem um e s f :
    weak c e -> XB s f -> XB (snd (fst (sem um e s f))) (snd (sem um e s f)).
  Proof.
    intros Hw HX. destruct e; cbn in Hw; try contradiction;
      try (apply XB_file_event; [exact I|exact HX]).
    subst n. cbn [sem]. destruct (f_dir s part); cbn [fst snd]; [|exact HX].
    destruct HX as (Ho & Hf). split; [apply olds_set_name; [right; reflexivity|exact Ho]|exact Hf].
  Qed.

  Lemma safe_weak_sem um e s f tr :
    weak c e -> Safe s f (scan_tr tr) ->
    Safe (snd (fst (sem um e s f))) (snd (sem um e s f)) (scan_tr ((e, fst (fst (sem um e s f))) :: tr)).
  Proof.
    intros Hw [H|H].
    - pose proof (any_sem c s0 sched Hdp um e s f _ Hw H) as R.
      destruct (fst (fst (sem um e s f))); [rewrite scan_tr_failed|rewrite scan_tr_cons]; left; exact R.
    - pose proof (post_sem c Hdp new um e s f _ Hw H) as R.
      destruct (fst (fst (sem um e s f))); [rewrite scan_tr_failed|rewrite scan_tr_cons]; right; exact R.
  Qed.

  Lemma safe_weak_fault um e s f tr x :
    weak c e -> Safe s f (scan_tr tr) ->
    Safe (fst (after_fault um e s f)) (snd (after_fault um e s f)) (scan_tr ((e, Some x) :: tr)).
  Proof.
    intros Hw [H|H]; rewrite scan_tr_failed.
    - left. apply any_fault; auto.
    - right. apply post_fault; auto.
  Qed.

  Lemma mid_weak_fault um e s f tr x :
    weak c e -> Y_mid um s f tr ->
    Y_mid um (fst (after_fault um e s f)) (snd (after_fault um e s f)) ((e, Some x) :: tr).
  Proof.
    intros Hw (Hu & HS & HX & Ho & Hg). split; [auto|]. split; [apply safe_weak_fault; auto|].
    split; [apply XB_after_fault; auto|]. split; [auto|]. apply guardfact_weak; auto.
  Qed.

  Lemma mid_weak_sem um e s f tr :
    weak c e -> Y_mid um s f tr ->
    Y_mid um (snd (fst (sem um e s f))) (snd (sem um e s f)) ((e, fst (fst (sem um e s f))) :: tr).
  Proof.
    intros Hw (Hu & HS & HX & Ho & Hg). split; [auto|]. split; [apply safe_weak_sem; auto|].
    split; [apply XB_weak_sem; auto|]. split; [auto|]. apply guardfact_weak; auto.
  Qed.

  Lemma tr5_weak e forced :
    weak c e -> triple (LT Y_mid) (prim_f e forced) (fun _ => LT Y_mid) EM CT.
  Proof.
    intro Hw. apply (weakenC Y_mid); [apply mid_olds|]. apply prim_ruleT; [apply mid_stable| |].
    - intros. apply mid_weak_fault; auto.
    - intros um s f tr H. pose proof (mid_weak_sem um e s f tr Hw H) as R.
      destruct (fst (fst (sem um e s f))); exact R.
  Qed.

  Lemma cleaned_stable : istableT c sched Y_cleaned.
  Proof.
    intros um s f tr k cnt m (Hm & Hc) Hn Hin. split; [eapply mid_stable; eauto|].
    destruct Hc as [H|[H|H]]; [left; auto| |right; right; auto].
    right. left. rewrite create_dest_keeps by congruence. exact H.
  Qed.

  Lemma rm_part5 :
    triple (LT Y_mid) (rm_part_file c) (fun _ => LT Y_cleaned) EF CT.
  Proof.
    unfold rm_part_file. destruct (c_rm_part_on_exc c) eqn:Erm.
    - eapply t_catch with (E' := fun _ => LT Y_cleaned).
      + apply (weakenC Y_mid); [apply mid_olds|]. apply prim_ruleT; [apply mid_stable| |].
        * intros um s f tr errno H. split; [apply mid_weak_fault; [reflexivity|exact H]|].
          right. right. apply unlink_failed_head.
        * intros um s f tr H. pose proof (mid_weak_sem um (EUnlink part) s f tr eq_refl H) as R.
          cbn [sem] in *. destruct (f_dir s part) eqn:E; cbn [fst snd] in *.
          -- split; [exact R|]. right. left. cbn. apply upd_eq.
          -- split; [exact R|]. right. left. exact E.
      + intro e. apply t_ret. auto.
    - apply t_ret. intros w (H & R). split; [|exact R]. split; [exact H|]. left. exact Erm.
  Qed.

  Lemma cleanup_raise5 {A} e (Q : A -> world -> Prop) :
    triple (LT Y_mid) (rm_part_file c ;;; raise e) Q EF CT.
  Proof.
    eapply t_bind; [apply rm_part5|]. intros ?; cbv beta. apply t_raise.
    intros w (((Hu & HS & (Ho & _) & Hof & Hg) & Hc) & R). split; [|exact R].
    split; [exact HS|]. split; [exact Ho|]. split; [exact Hg|]. right. right. right. right. auto.
  Qed.

  (* ---- permissions: explicit > those of the replaced file > umask default ---- *)
  Definition perms_ok_prop (m : N) : Prop :=
    match c_file_perms c with
    | Some p => m = p
    | None => match f_dir s0 dest with
              | Some j => m = i_mode (f_ino s0 j)
              | None => m = N.ldiff RW_PERMS umask \/ exists k cnt, In (k, AAppear cnt m) sched
              end
    end.

  Definition perms_choice (pm : N * bool) : Prop :=
    if snd pm then perms_ok_prop (fst pm) else perms_ok_prop (N.ldiff (fst pm) umask).

  Lemma stat_choice um s f tr :
    Y_init2 um s f tr -> c_file_perms c = None ->
    perms_choice (match (match f_dir s dest with Some i => Some (i_mode (f_ino s i)) | None => None end) with
                  | Some m => (m, true) | None => (RW_PERMS, false) end).
  Proof.
    intros (_ & ((_ & Hold & _) & _) & _) Hnone. unfold dest_old in Hold.
    unfold perms_choice, perms_ok_prop. rewrite Hnone.
    destruct (f_dir s dest) as [j|] eqn:Ej; cbn [fst snd].
    - destruct Hold as [(H0 & Hi) | (H0 & (k & cnt & m & Hin & Hx))].
      + rewrite H0, Hi. reflexivity.
      + rewrite H0, Hx. cbn. right. eauto.
    - rewrite Hold. left. reflexivity.
  Qed.

  Notation OursOpen G := (Y_ours (St_open []) G).

  Lemma ours_weaken (P : stage) (G G' : N -> Prop) um s f tr :
    (forall m, G m -> G' m) -> Y_ours P G um s f tr -> Y_ours P G' um s f tr.
  Proof.
    intros HG (Hu & HP & HX & Ho & (p & Hp & Hpn & Hg)). repeat (split; [assumption|]). exists p. auto.
  Qed.

  Lemma ours_mid (P : stage) G w :
    (forall s f sc, P s f sc -> St_any s f sc) -> LT (Y_ours P G) w -> LT Y_mid w.
  Proof.
    intros Hany ((Hu & HP & HX & Ho & _) & R). split; [|exact R].
    pose proof (Hany _ _ _ HP) as Ha.
    split; [auto|]. split; [left; exact Ha|]. split; [auto|]. split; [auto|].
    unfold guardfact. destruct Ha as (_ & _ & Hpub). rewrite Hpub. discriminate.
  Qed.

  Lemma open_part5 :
    triple (LT Y_init2) (open_part_file c) (fun _ => LT (OursOpen perms_ok_prop)) EF CT.
  Proof.
    unfold open_part_file.
    eapply t_bind with (Q := fun pm w => LT Y_init2 w /\ perms_choice pm).
    - destruct (c_file_perms c) as [p|] eqn:Ep.
      + apply t_ret. intros w H. split; [exact H|]. unfold perms_choice, perms_ok_prop. cbn. rewrite Ep. reflexivity.
      + eapply t_bind with (Q := fun st w => LT Y_init2 w /\
                               perms_choice (match st with Some m => (m, true) | None => (RW_PERMS, false) end)).
        * apply t_read. intros w H. split; [exact H|]. destruct H as (H & _). eapply stat_choice; eauto.
        * intro st. apply t_ret. auto.
    - intros [perms do_chmod]. apply t_pure. intro Hch. unfold perms_choice in Hch. cbn [fst snd] in Hch.
      eapply t_bind; [apply tr5_open|]. intros ?; cbv beta.
      eapply t_bind with (Q := fun _ => LT (OursOpen (fun m => m = N.ldiff perms umask))).
      + eapply t_catch with (E' := EM).
        * apply tr5_file; [exact I|apply open_stable; auto|intros s f sc H; apply H|apply open_any|apply sem_fdopen].
        * intro e. apply cleanup_raise5.
      + intros ?; cbv beta. destruct do_chmod.
        * eapply t_catch with (E' := EM).
          -- eapply t_conseq; [apply tr5_chmod|idc| |idc|idc].
             intros ? w (H & R). split; [|exact R]. eapply ours_weaken; [|exact H].
             intros m ->. exact Hch.
          -- intro e. eapply t_bind with (Q := fun _ => LT Y_mid).
             ++ eapply t_catch with (E' := EM); [apply tr5_weak; exact I|]. intro e2. apply cleanup_raise5.
             ++ intros ?; cbv beta. apply cleanup_raise5.
        * apply t_ret. intros w (H & R). split; [|exact R]. eapply ours_weaken; [|exact H].
          intros m ->. exact Hch.
  Qed.

  Lemma start_init1 w : LT Y_start w -> LT Y_init1 w.
  Proof.
    intros ((Hu & Hs & Hf & Ht) & R). split; [|exact R]. rewrite Hs, Hf, Ht.
    split; [auto|]. split.
    - split; [|auto]. split; [exact Hwf0|]. split; [|exact I].
      unfold dest_old. destruct (f_dir s0 dest); auto.
    - split; [split; [split; [lia|split; auto]|exact I]|]. auto.
  Qed.

  Lemma setup5 :
    triple (LT Y_start) (setup c) (fun _ => LT (OursOpen perms_ok_prop)) EF CT.
  Proof.
    unfold setup.
    eapply t_bind with (Q := fun de w => LT Y_start w /\
                                 de = match f_dir s0 dest with Some _ => true | None => false end).
    - apply t_read. intros w H. split; [exact H|]. destruct H as ((_ & -> & _) & _). reflexivity.
    - intro de. apply t_pure. intro Hde.
      destruct (de && negb (c_overwrite c)) eqn:Eref.
      + apply t_raise. intros w ((Hu & Hs & Hf & Ht) & R). split; [|exact R].
        apply andb_true_iff in Eref as [E1 E2]. apply negb_true_iff in E2.
        rewrite Hs, Hf, Ht. split; [|split; [|split]].
        * left. split; [|auto]. split; [exact Hwf0|]. split; [|exact I].
          unfold dest_old. destruct (f_dir s0 dest); auto.
        * split; [lia|split; auto].
        * unfold guardfact. cbn. discriminate.
        * left. split; [auto|]. split; [auto|]. split; [auto|].
          rewrite Hde in E1. destruct (f_dir s0 dest); [discriminate|discriminate].
      + eapply t_bind with (Q := fun pe w => LT Y_init1 w /\
                                   pe = match f_dir s0 part with Some _ => true | None => false end).
        * apply t_read. intros w H. split; [apply start_init1; exact H|].
          destruct H as ((_ & -> & _) & _). reflexivity.
        * intro pe. apply t_pure. intro Hpe.
          eapply t_bind with (Q := fun _ => LT Y_init2).
          -- destruct (c_overwrite_part c) eqn:Eo; cbn [andb].
             ++ destruct pe.
                ** apply tr5_unlink_stale. exact Eo.
                ** apply t_ret. intros w ((Hu & Hi & HX & Ht & Hp) & R). split; [|exact R].
                   split; [auto|]. split; [auto|]. split; [auto|]. left.
                   destruct (f_dir s0 part); [discriminate|]. split; [exact Hp|]. left. exact Eo.
             ++ apply t_ret. intros w ((Hu & Hi & HX & Ht & Hp) & R). split; [|exact R].
                split; [auto|]. split; [auto|]. split; [auto|]. right. auto.
          -- intros ?; cbv beta. apply open_part5.
  Qed.

  Lemma open_wf acc s f sc : St_open acc s f sc -> wf s.
  Proof. intro H. apply H. Qed.

  Lemma bclosed_wf s f sc : St_bclosed s f sc -> wf s.
  Proof. intros (H & _). apply H. Qed.

  (* the body closed the file: every further operation on it fails or is a no-op *)
  Lemma tr5_closed G e forced :
    closed_ev e ->
    triple (LT (Y_ours St_bclosed G)) (prim_f e forced) (fun _ => LT (Y_ours St_bclosed G)) EM CT.
  Proof.
    intro He. apply tr5_file.
    - destruct e; cbn in He; try contradiction; exact I.
    - apply bclosed_stable; auto.
    - apply bclosed_wf.
    - apply bclosed_any.
    - apply sem_closed; auto.
  Qed.

  Lemma run_body5_closed G ops :
    triple (LT (Y_ours St_bclosed G)) (run_body ops) (fun _ => LT (Y_ours St_bclosed G)) EM CT.
  Proof.
    induction ops as [|o r IH]; cbn [run_body]; [apply t_ret; auto|].
    destruct o; (eapply t_bind; [apply tr5_closed; exact I|]; intros ?; cbv beta; exact IH).
  Qed.

  Definition BodyPost5 G (acc : bytes) : unit -> world -> Prop :=
    fun _ w => LT (Y_ours (St_open acc) G) w \/ LT (Y_ours St_bclosed G) w.

  Lemma run_body5 G ops : forall acc,
    triple (LT (Y_ours (St_open acc) G)) (run_body ops) (BodyPost5 G (acc ++ new_content ops)) EM CT.
  Proof.
    induction ops as [|o r IH]; intro acc; cbn [run_body].
    - apply t_ret. intros w H. left. cbn. rewrite app_nil_r. exact H.
    - destruct o as [d k| |].
      + eapply t_bind.
        * apply tr5_file; [exact I|apply open_stable; auto|apply open_wf|apply open_any|apply sem_write; auto].
        * intros ?; cbv beta. eapply t_conseq; [apply (IH (acc ++ d))|idc| |idc|idc].
          intros ? w H. unfold BodyPost5 in *. cbn [new_content flat_map]. fold (new_content r). rewrite app_assoc. exact H.
      + eapply t_bind with (Q := fun _ => LT (Y_ours (St_open acc) G)).
        * eapply t_conseq;
            [apply (tr5_file (St_open acc) (St_flushed acc) G EFlush None I);
               [apply open_stable; auto|apply open_wf|apply open_any|apply sem_flush; auto]
            |idc| |idc|idc].
          intros ? w ((Hu & HP & HR) & R). split; [|exact R]. split; [auto|]. split; [|exact HR].
          apply flushed_open. exact HP.
        * intros ?; cbv beta. eapply t_conseq; [apply (IH acc)|idc| |idc|idc].
          intros ? w H. unfold BodyPost5 in *. cbn [new_content flat_map]. exact H.
      + eapply t_bind.
        * apply (tr5_file (St_open acc) St_bclosed G EClose None I);
            [apply open_stable; auto|apply open_wf|apply open_any|apply sem_bclose; auto].
        * intros ?; cbv beta. eapply t_conseq; [apply (run_body5_closed G r)|idc| |idc|idc].
          intros ? w H. right. exact H.
  Qed.

  Lemma body5 G ops raises :
    triple (LT (Y_ours (St_open []) G)) (body ops raises) (BodyPost5 G (new_content ops)) EM CT.
  Proof.
    unfold body. eapply t_bind; [apply (run_body5 G ops [])|]. intros ?; cbv beta.
    destruct raises.
    - apply t_raise. intros w [H|H]; (eapply ours_mid; [|exact H]); [apply open_any|apply bclosed_any].
    - apply t_ret. auto.
  Qed.

  Lemma sync_handler5 e (Q : unit -> world -> Prop) :
    triple (LT Y_mid) (catch (prim EClose) (fun _ => ret tt) ;;; rm_part_file c ;;; raise e) Q EF CT.
  Proof.
    eapply t_bind with (Q := fun _ => LT Y_mid).
    - eapply t_catch with (E' := EM); [apply tr5_weak; exact I|]. intro e2. apply t_ret. auto.
    - intros ?; cbv beta. apply cleanup_raise5.
  Qed.

  Lemma exit_true5 :
    triple (LT Y_mid) (exit_ c true) (fun _ => LT Y_cleaned) EF CT.
  Proof.
    unfold exit_. apply t_getfile. intro f.
    eapply t_bind with (Q := fun _ => LT Y_mid).
    - assert (H : triple (LT Y_mid)
                    (catch (prim EFlush;;; prim EFsync;;; prim EClose)
                           (fun e => catch (prim EClose) (fun _ => ret tt);;; rm_part_file c;;; raise e))
                    (fun _ => LT Y_mid) EF CT).
      { eapply t_catch with (E' := EM); [|intro e; apply sync_handler5].
        eapply t_bind with (Q := fun _ => LT Y_mid); [apply tr5_weak; exact I|]. intros ?; cbv beta.
        eapply t_bind with (Q := fun _ => LT Y_mid); [apply tr5_weak; exact I|]. intros ?; cbv beta.
        apply tr5_weak; exact I. }
      destruct f.
      + apply t_ret. tauto.
      + eapply t_conseq; [exact H|tauto|idc|idc|idc].
      + eapply t_conseq; [exact H|tauto|idc|idc|idc].
    - intros ?; cbv beta. apply rm_part5.
  Qed.

  Lemma atomic_rename5 G :
    triple (LT (Y_ours (St_ready new) G)) (atomic_rename c) (fun _ => LT (Y_done G)) EM CT.
  Proof.
    unfold atomic_rename. destruct (c_overwrite c).
    - apply tr5_rename.
    - eapply t_bind; [apply tr5_link|]. intros ?; cbv beta. apply tr5_unlink_post.
  Qed.

  Lemma exit_false5 G :
    triple (LT (Y_ours (St_open new) G)) (exit_ c false) (fun _ => LT (Y_done G)) EF CT.
  Proof.
    unfold exit_. apply t_getfile. intro f.
    eapply t_bind with (Q := fun _ => LT (Y_ours (St_ready new) G)).
    - assert (H : triple (LT (Y_ours (St_open new) G))
                    (catch (prim EFlush;;; prim EFsync;;; prim EClose)
                           (fun e => catch (prim EClose) (fun _ => ret tt);;; rm_part_file c;;; raise e))
                    (fun _ => LT (Y_ours (St_ready new) G)) EF CT).
      { eapply t_catch with (E' := EM); [|intro e; apply sync_handler5].
        eapply t_bind.
        - apply (tr5_file (St_open new) (St_flushed new) G EFlush None I);
            [apply open_stable; auto|apply open_wf|apply open_any|apply sem_flush; auto].
        - intros ?; cbv beta. eapply t_bind.
          + apply (tr5_file (St_flushed new) (St_synced new) G EFsync None I);
              [apply flushed_stable; auto|intros s f' sc H; apply H|apply flushed_any|apply sem_fsync; auto].
          + intros ?; cbv beta.
            apply (tr5_file (St_synced new) (St_ready new) G EClose None I);
              [apply synced_stable; auto|intros s f' sc H; apply H|apply synced_any|apply sem_close; auto]. }
      destruct f.
      + eapply t_conseq; [apply (t_false (ret tt) (fun _ => LT (Y_ours (St_ready new) G)) EF CT)| |idc|idc|idc].
        intros w (((_ & (_ & (p & buf & Hf & _) & _) & _) & _) & Hfile). congruence.
      + eapply t_conseq; [exact H|tauto|idc|idc|idc].
      + eapply t_conseq; [exact H|tauto|idc|idc|idc].
    - intros ?; cbv beta. eapply t_catch with (E' := EM); [apply atomic_rename5|]. intro e.
      apply cleanup_raise5.
  Qed.

  Lemma exit_false5_closed G :
    triple (LT (Y_ours St_bclosed G)) (exit_ c false) (fun _ => LT (Y_done G)) EF CT.
  Proof.
    unfold exit_. apply t_getfile. intro f.
    eapply t_bind with (Q := fun _ _ => False); [|intros ?; cbv beta; apply t_false].
    assert (H : triple (LT (Y_ours St_bclosed G))
                  (catch (prim EFlush;;; prim EFsync;;; prim EClose)
                         (fun e => catch (prim EClose) (fun _ => ret tt);;; rm_part_file c;;; raise e))
                  (fun _ _ => False) EF CT).
    { eapply t_catch with (E' := EM); [|intro e; apply sync_handler5].
      eapply t_bind with (Q := fun _ _ => False); [|intros ?; cbv beta; apply t_false].
      eapply t_conseq.
      - apply (tr5_file St_bclosed (fun _ _ _ => False) G EFlush None I);
          [apply bclosed_stable; auto|apply bclosed_wf|apply bclosed_any|].
        intros um s f0 sc (Ha & ->). cbn. exact Ha.
      - idc.
      - intros ? w ((_ & HF & _) & _). exact HF.
      - idc.
      - idc. }
    destruct f.
    - eapply t_conseq; [apply (t_false (ret tt) (fun _ _ => False) EF CT)| |idc|idc|idc].
      intros w (((_ & (_ & Hf) & _) & _) & Hfile). congruence.
    - eapply t_conseq; [exact H|tauto|idc|idc|idc].
    - eapply t_conseq; [exact H|tauto|idc|idc|idc].
  Qed.

  Lemma save5 ops raises :
    new = new_content ops ->
    triple (LT Y_start) (save c ops raises) (fun _ => LT (Y_done perms_ok_prop)) EF CT.
  Proof.
    intro Hn. unfold save. eapply t_bind; [apply setup5|]. intros ?; cbv beta.
    intros w Hw. pose proof (body5 perms_ok_prop ops raises w Hw) as Hb.
    destruct (body ops raises w) as [[x|e|] w'].
    - destruct Hb as [Hb|Hb].
      + apply exit_false5. rewrite Hn. exact Hb.
      + apply exit_false5_closed. exact Hb.
    - assert (T : triple (LT Y_mid) (exit_ c true ;;; raise e) (fun _ : unit => LT (Y_done perms_ok_prop)) EF CT).
      { eapply t_bind; [apply exit_true5|]. intros ?; cbv beta. apply t_raise.
        intros w0 (((Hu & HS & (Ho & _) & Hof & Hg) & Hc) & R). split; [|exact R].
        split; [exact HS|]. split; [exact Ho|]. split; [exact Hg|]. right. right. right. right. auto. }
      apply T. exact Hb.
    - exact Hb.
  Qed.

End Inv5.

(* ---- a run without a crash point never ends in Crashed ---- *)
Definition NC (w : world) : Prop := w_crash w = None.
Definition NCQ {A} : A -> world -> Prop := fun _ => NC.
Definition NCF : world -> Prop := fun _ => False.

Lemma nc_prim e forced : triple NC (prim_f e forced) NCQ NCQ NCF.
Proof.
  intros w Hw. unfold prim_f, crash_now. unfold NC in Hw. rewrite Hw.
  unfold step. destruct (fault_of forced w); cbn; [exact Hw|].
  destruct (fst (fst (sem (w_umask w) e (interfere w) (w_file w)))); exact Hw.
Qed.

Lemma nc_rm c : triple NC (rm_part_file c) NCQ NCQ NCF.
Proof.
  unfold rm_part_file. destruct (c_rm_part_on_exc c).
  - eapply t_catch; [apply nc_prim|]. intro e. apply t_ret. auto.
  - apply t_ret. auto.
Qed.

Lemma nc_rm_raise {A} c e : triple NC (rm_part_file c ;;; raise e) (@NCQ A) NCQ NCF.
Proof. eapply t_bind; [apply nc_rm|]. intros ?; cbv beta. apply t_raise. auto. Qed.

Lemma nc_open_part c : triple NC (open_part_file c) NCQ NCQ NCF.
Proof.
  unfold open_part_file. eapply t_bind with (Q := NCQ).
  - destruct (c_file_perms c); [apply t_ret; auto|].
    eapply t_bind with (Q := NCQ); [apply t_read; auto|]. intro. apply t_ret. auto.
  - intros [perms do_chmod]. eapply t_bind; [apply nc_prim|]. intros ?; cbv beta.
    eapply t_bind with (Q := NCQ).
    + eapply t_catch; [apply nc_prim|]. intro e. apply nc_rm_raise.
    + intros ?; cbv beta. destruct do_chmod; [|apply t_ret; auto].
      eapply t_catch; [apply nc_prim|]. intro e.
      eapply t_bind with (Q := NCQ).
      * eapply t_catch; [apply nc_prim|]. intro e2. apply nc_rm_raise.
      * intros ?; cbv beta. apply nc_rm_raise.
Qed.

Lemma nc_setup c : triple NC (setup c) NCQ NCQ NCF.
Proof.
  unfold setup. eapply t_bind with (Q := NCQ); [apply t_read; auto|]. intro de.
  destruct (de && negb (c_overwrite c)); [apply t_raise; auto|].
  eapply t_bind with (Q := NCQ); [apply t_read; auto|]. intro pe.
  eapply t_bind with (Q := NCQ).
  - destruct (c_overwrite_part c && pe); [apply nc_prim|apply t_ret; auto].
  - intros ?; cbv beta. apply nc_open_part.
Qed.

Lemma nc_run_body ops : triple NC (run_body ops) NCQ NCQ NCF.
Proof.
  induction ops as [|o r IH]; cbn [run_body]; [apply t_ret; auto|].
  destruct o; (eapply t_bind; [apply nc_prim|]; intros ?; cbv beta; exact IH).
Qed.

Lemma nc_exit c exc : triple NC (exit_ c exc) NCQ NCQ NCF.
Proof.
  unfold exit_. eapply t_bind with (Q := NCQ); [apply t_read; auto|]. intro f.
  eapply t_bind with (Q := NCQ).
  - assert (H : triple NC
                  (catch (prim EFlush;;; prim EFsync;;; prim EClose)
                         (fun e => catch (prim EClose) (fun _ => ret tt);;; rm_part_file c;;; raise e))
                  NCQ NCQ NCF).
    { eapply t_catch.
      - eapply t_bind; [apply nc_prim|]. intros ?; cbv beta.
        eapply t_bind; [apply nc_prim|]. intros ?; cbv beta. apply nc_prim.
      - intro e. eapply t_bind with (Q := NCQ).
        + eapply t_catch; [apply nc_prim|]. intro e2. apply t_ret. auto.
        + intros ?; cbv beta. apply nc_rm_raise. }
    destruct f; [apply t_ret; auto|exact H|exact H].
  - intros ?; cbv beta. destruct exc; [apply nc_rm|].
    eapply t_catch.
    + unfold atomic_rename. destruct (c_overwrite c); [apply nc_prim|].
      eapply t_bind; [apply nc_prim|]. intros ?; cbv beta. apply nc_prim.
    + intro e. apply nc_rm_raise.
Qed.

Lemma nc_save c ops raises : triple NC (save c ops raises) NCQ NCQ NCF.
Proof.
  unfold save. eapply t_bind; [apply nc_setup|]. intros ?; cbv beta.
  intros w Hw.
  assert (Hb : triple NC (body ops raises) NCQ NCQ NCF).
  { unfold body. eapply t_bind; [apply nc_run_body|]. intros ?; cbv beta.
    destruct raises; [apply t_raise; auto|apply t_ret; auto]. }
  specialize (Hb w Hw). destruct (body ops raises w) as [[x|e|] w'].
  - apply nc_exit. exact Hb.
  - assert (T : triple NC (exit_ c true ;;; raise e) (@NCQ unit) NCQ NCF).
    { eapply t_bind; [apply nc_exit|]. intros ?; cbv beta. apply t_raise. auto. }
    apply T. exact Hb.
  - exact Hb.
Qed.

(* ---- whole runs ---- *)
Lemma fault_run c ops raises s0 umask sched :
  c_dest c <> c_part c -> same_dir (c_part c) = true -> wf s0 ->
  let r := run_save c ops raises s0 umask None sched in
  match fst r with
  | Val _ => LT c sched (Y_done c s0 (new_content ops) umask (perms_ok_prop c s0 sched umask)) (snd r)
  | Exc _ => LT c sched (Y_fail c s0 sched (new_content ops)) (snd r)
  | Crashed => False
  end.
Proof.
  intros Hdp Hpd Hwf r. unfold r, run_save.
  assert (Hst : LT c sched (Y_start s0 umask) (init_world s0 umask (c_dest c) None sched)).
  { split; [|auto]. cbn. repeat split; auto. }
  pose proof (save5 c s0 sched (new_content ops) umask Hdp Hpd Hwf ops raises eq_refl _ Hst) as H.
  pose proof (nc_save c ops raises (init_world s0 umask (c_dest c) None sched) eq_refl) as Hn.
  destruct (save c ops raises (init_world s0 umask (c_dest c) None sched)) as [[x|e|] w]; cbn [fst snd]; auto.
Qed.

Lemma fault_partial_lemma c ops raises s0 umask sched o w :
  c_dest c <> c_part c -> same_dir (c_part c) = true -> wf s0 ->
  run_save c ops raises s0 umask None sched = (o, w) ->
  match o with
  | Crashed => False
  | Val _ =>
      content_kill (w_fs w) (c_dest c) = Some (new_content ops) /\
      content_power (w_fs w) (c_dest c) = Some (new_content ops) /\
      f_dir (w_fs w) (c_part c) = None /\
      (exists m, mode_of (w_fs w) (c_dest c) = Some m /\ perms_ok_prop c s0 sched umask m) /\
      OpenFact c s0 /\ olds_same c s0 (w_fs w)
  | Exc _ =>
      olds_same c s0 (w_fs w) /\
      FailCase c s0 (w_fs w) (w_trace w) /\
      (link_then_unlink_failed (w_trace w) = false -> dest_old c s0 sched (w_fs w))
  end.
Proof.
  intros Hdp Hpd Hwf Hr.
  pose proof (fault_run c ops raises s0 umask sched Hdp Hpd Hwf) as H. cbv zeta in H.
  rewrite Hr in H. cbn [fst snd] in H. destruct o as [x|e|]; [| |exact H].
  - destruct H as ((_ & ((_ & (p & Hp & Hv & Hd) & _) & Hpart) & Ho & Hof & (p' & Hp' & Hm)) & _).
    unfold content_kill, content_power, mode_of. rewrite Hp. rewrite Hp in Hp'. inversion Hp'; subst p'.
    rewrite Hv, Hd. split; [auto|]. split; [auto|]. split; [auto|]. split; [|split; [auto|exact Ho]].
    eexists; split; [reflexivity|exact Hm].
  - destruct H as ((HS & Ho & Hg & Hf) & _). split; [exact Ho|]. split; [exact Hf|].
    intro Hng. destruct HS as [((_ & Hold & _) & _) | (_ & _ & _ & _ & Hpub)]; [exact Hold|].
    apply Hg in Hpub. congruence.
Qed.

Lemma part_reuse_lemma c ops raises s0 umask sched o w j :
  c_dest c <> c_part c -> same_dir (c_part c) = true -> wf s0 ->
  run_save c ops raises s0 umask None sched = (o, w) ->
  f_dir s0 (c_part c) = Some j -> c_overwrite_part c = false ->
  (exists e, o = Exc e) /\ f_dir (w_fs w) (c_part c) = Some j /\ f_ino (w_fs w) j = f_ino s0 j.
Proof.
  intros Hdp Hpd Hwf Hr Hj Howp.
  pose proof (fault_partial_lemma c ops raises s0 umask sched o w Hdp Hpd Hwf Hr) as H.
  assert (Hno : ~ OpenFact c s0). { intros [A|A]; congruence. }
  destruct o as [x|e|]; [|  |contradiction].
  - destruct H as (_ & _ & _ & _ & Hof & _). contradiction.
  - destruct H as ((_ & Hi & _) & Hf & _). split; [eauto|]. split; [|apply Hi; apply (Hwf _ _ Hj)].
    destruct Hf as [(Hs & _) | [(Hb & _) | [(_ & Hof) | [(Hb & _) | (Hof & _)]]]]; try contradiction.
    + rewrite Hs. exact Hj.
    + congruence.
    + congruence.
Qed.

Lemma cleanup_lemma c ops raises s0 umask sched e w :
  c_dest c <> c_part c -> same_dir (c_part c) = true -> wf s0 ->
  run_save c ops raises s0 umask None sched = (Exc e, w) ->
  c_rm_part_on_exc c = true -> unlink_failed (c_part c) (w_trace w) = false ->
  f_dir (w_fs w) (c_part c) = None \/
  (f_dir (w_fs w) (c_part c) = f_dir s0 (c_part c) /\ f_dir s0 (c_part c) <> None /\
   (c_overwrite_part c = false \/ (c_overwrite c = false /\ f_dir s0 (c_dest c) <> None))).
Proof.
  intros Hdp Hpd Hwf Hr Hrm Hnf.
  pose proof (fault_partial_lemma c ops raises s0 umask sched _ w Hdp Hpd Hwf Hr) as (_ & Hf & _).
  destruct Hf as [(Hs & _ & Ho & Hd) | [(_ & Hu) | [(Hn & _) | [(Hb & Hn0 & Howp) | (_ & Hc)]]]].
  - rewrite Hs. destruct (f_dir s0 (c_part c)) eqn:E; [right|left; reflexivity].
    split; [reflexivity|]. split; [discriminate|]. right. auto.
  - congruence.
  - left. exact Hn.
  - right. auto.
  - destruct Hc as [A|[A|A]]; [congruence|left; exact A|congruence].
Qed.

(* at EVERY crash point and in every outcome: no inode that existed at entry has been written to,
   and every directory name other than destination and part file is bound as at entry *)
Lemma crash_olds_lemma c ops raises s0 umask crash sched o w :
  c_dest c <> c_part c -> same_dir (c_part c) = true -> wf s0 ->
  run_save c ops raises s0 umask crash sched = (o, w) ->
  olds_same c s0 (w_fs w).
Proof.
  intros Hdp Hpd Hwf Hr. unfold run_save in Hr.
  assert (Hst : LT c sched (Y_start s0 umask) (init_world s0 umask (c_dest c) crash sched)).
  { split; [|auto]. cbn. repeat split; auto. }
  pose proof (save5 c s0 sched (new_content ops) umask Hdp Hpd Hwf ops raises eq_refl _ Hst) as H.
  rewrite Hr in H. destruct o as [x|e|].
  - destruct H as ((_ & _ & Ho & _) & _). exact Ho.
  - destruct H as ((_ & Ho & _) & _). exact Ho.
  - destruct H as (Ho & _). exact Ho.
Qed.
