(* URL(text) round trip and the text-level capstone for bases with mixed-case
   scheme / host. *)
From Boltons Require Import Lib.Prelude Lib.C07_Str Spec.C07_Spec Gen.C07_Gen Model.C07_Model
     Check.C07_Check Proofs.C07_StrLemmas Proofs.C07_Rds Proofs.C07_Resolve Proofs.C07_Parse
     Proofs.C07_Navigate Proofs.C07_Text Proofs.C07_Refine Proofs.C07_RoundTrip Proofs.C07_Case
     Proofs.C07_CaseRefine.
Open Scope N_scope.

Record wf_base_mc_text (b : url) : Prop := {
  mct_wf : wf_base_mc b;
  mct_atx : atx b;
  mct_sep : u_sep b = true;
  mct_scheme_ok : scheme_ok (u_scheme b) = true;
  mct_query : Forall kv_ok' (u_query b);
  mct_plain : plain (to_text b) }.

Theorem base_round_trip_mc b : wf_base_mc_text b -> url_of_text (to_text b) = Some b.
Proof.
  intros W. pose proof (mct_wf b W) as Wm. pose proof (mct_atx b W) as A.
  destruct (mc_facts b Wm) as (segs & Hp & Hu & _ & T & U).
  assert (Hs : Forall seg_ok segs).
  { pose proof (wb_segs _ (mc_twin b Wm)) as H. cbn [lc u_path] in H. rewrite Hp in H. inversion H; assumption. }
  pose proof (mct_plain b W) as Hplain.
  unfold url_of_text. rewrite (plain_not_excluded _ Hplain). cbv zeta.
  rewrite T in *. rewrite (parse_recompose _ U), Hu. cbn [scheme authority path query fragment or_empty].
  rewrite (mct_scheme_ok b W).
  rewrite (mem_lacks 91 _ (authority_lacks b 91 A eq_refl eq_refl eq_refl ltac:(discriminate) ltac:(discriminate))).
  rewrite (mem_lacks 93 _ (authority_lacks b 93 A eq_refl eq_refl eq_refl ltac:(discriminate) ltac:(discriminate))).
  rewrite (atx_ascii b A). cbn [negb orb].
  destruct (authority_shape b A) as [EA PU]. rewrite EA.
  assert (Pq : plain (query_text (u_query b))).
  { apply plain_recompose_parts in Hplain as [_ Pq]. rewrite Hu in Pq. cbn [query] in Pq.
    pose proof (opt_spec (query_text (u_query b))) as S. destruct (opt (query_text (u_query b))).
    - destruct S as [-> _]. exact Pq.
    - rewrite S. reflexivity. }
  assert (Hsplit : split SL (abs_path segs) = [] :: segs).
  { apply split_abs_path. eapply Forall_impl; [|exact Hs]. apply seg_ok_noslash. }
  destruct (nonempty (u_user b)) eqn:Eu.
  - rewrite <- app_assoc. cbn [app]. rewrite (rpartition_found AT (ui_text b) (hp_text b) (hp_lacks_at b A)).
    rewrite (ui_partition b A), (hp_partition b A). cbv beta iota zeta. rewrite (atx_host_ok b A).
    rewrite is_nil_nonempty, Eu. cbn [negb andb orb].
    match goal with |- match ?X with _ => _ end = _ => assert (Hport : X = Some (u_port b)) end.
    { destruct (u_port b) as [p|]; [|reflexivity]. destruct (dec_round p) as [R1 R2].
      pose proof (dec_nonempty p) as NE. destruct (dec p) eqn:Ed; [contradiction|].
      cbn [is_nil]. rewrite R1, R2. reflexivity. }
    rewrite Hport.
    rewrite or_empty_opt, (parse_qsl_query_text _ (mct_query b W) Pq), or_empty_opt, Hsplit, <- Hp.
    pose proof (mct_sep b W) as Es. clear -Es. destruct b as [sch sep us pw ho po pa qu fr]. cbn in *. subst. reflexivity.
  - cbn [app]. rewrite (rpartition_missing AT _ (hp_lacks_at b A)).
    rewrite (hp_partition b A). cbv beta iota zeta. rewrite (atx_host_ok b A).
    cbn [is_nil nonempty negb andb orb].
    match goal with |- match ?X with _ => _ end = _ => assert (Hport : X = Some (u_port b)) end.
    { destruct (u_port b) as [p|]; [|reflexivity]. destruct (dec_round p) as [R1 R2].
      pose proof (dec_nonempty p) as NE. destruct (dec p) eqn:Ed; [contradiction|].
      cbn [is_nil]. rewrite R1, R2. reflexivity. }
    rewrite Hport.
    rewrite or_empty_opt, (parse_qsl_query_text _ (mct_query b W) Pq), or_empty_opt, Hsplit, <- Hp.
    pose proof (PU eq_refl) as Epw. destruct (u_user b) eqn:Eus; [|discriminate].
    pose proof (mct_sep b W) as Es. clear -Es Epw Eus. destruct b as [sch sep us pw ho po pa qu fr]. cbn in *. subst. reflexivity.
Qed.

(* text-level capstone, mixed-case base (parsed, not rebuilt) *)
Theorem model_on_texts_mixed_case b d1 d2 f1 f2 o0 :
  wf_base_mc_text b -> dest_text_ok d1 -> dest_text_ok d2 ->
  exists o, c07_model (mkCase (to_text b) false (to_text d1) f1 (to_text d2) f2 o0) = Some o /\
            c07_holds (mkCase (to_text b) false (to_text d1) f1 (to_text d2) f2 o) = true.
Proof.
  intros Wb W1 W2. exists (record_obs b d1 d2). split.
  - apply c07_model_on_texts; [apply base_round_trip_mc; exact Wb | apply dest_round_trip; assumption ..].
  - apply mixed_case_observation_satisfies_spec;
      [exact (mct_wf b Wb) | apply dest_text_ok_wf; assumption ..].
Qed.

Lemma ex_mixed_text_ok : wf_base_mc_text ex_mixed.
Proof.
  constructor.
  - exact (proj1 ex_mixed_ok).
  - constructor; vm_compute; repeat first [ discriminate | reflexivity | exact I | (intro; assumption) | split ].
  - vm_compute. reflexivity.
  - vm_compute. reflexivity.
  - vm_compute. repeat first [ discriminate | reflexivity | exact I | split | constructor ].
  - vm_compute. reflexivity.
Qed.
