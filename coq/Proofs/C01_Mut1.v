(* C01: the basic mutators add / addlist / __setitem__ / __delitem__ / constructor-from-pairs
   keep the invariant and act on the abstract pair list as the Spec says. *)
From Boltons Require Import Lib.Prelude Spec.C01_Spec Model.C01_Model Proofs.C01_Base Proofs.C01_Prim.

(* ---- set_store touches only the dict storage --------------------------------------------- *)
Lemma abs_set_store s st : abs (set_store s st) = abs s.
Proof. reflexivity. Qed.

Lemma store_set_store s st : store (set_store s st) = st.
Proof. reflexivity. Qed.

Lemma CmapOk_set_store s st : CmapOk s -> CmapOk (set_store s st).
Proof. intro H. exact H. Qed.

(* the one way the storage is written by add / addlist / __setitem__: store[k] = vs *)
Lemma StoreOk_set s s1 k vs :
  StoreOk s -> store s1 = store s -> vs <> [] ->
  (forall k', vals_of (abs s1) k' = if Nat.eqb k' k then vs else vals_of (abs s) k') ->
  StoreOk (set_store s1 (d_set (store s1) k vs)).
Proof.
  intros [Hnd Hget] Hst Hne Hv. split.
  - rewrite store_set_store, Hst. apply d_set_NoDup. exact Hnd.
  - intro k'. rewrite store_set_store, abs_set_store, d_get_set, Hv, Hst.
    destruct (Nat.eqb k' k).
    + destruct vs; [contradiction | reflexivity].
    + apply Hget.
Qed.

(* ---- empty ---------------------------------------------------------------------------------- *)
Lemma Inv_empty : Inv m_empty.
Proof.
  split.
  - split; simpl; [constructor | intro k; reflexivity].
  - unfold CmapOk. simpl. repeat split; try constructor.
    intros c Hc. contradiction.
Qed.

Lemma abs_empty : abs m_empty = [].
Proof. reflexivity. Qed.

(* ---- add -------------------------------------------------------------------------------------- *)
Lemma add_ok s k v : Inv s -> Inv (m_add s k v) /\ abs (m_add s k v) = abs s ++ [(k, v)].
Proof.
  intros [Hs Hc]. unfold m_add. split; [split|].
  - apply (StoreOk_set s (ll_insert s k v) k); [exact Hs | reflexivity | |].
    + destruct (d_getd (store s) k); discriminate.
    + intro k'. rewrite abs_insert, vals_of_app, vals_of_single.
      rewrite (d_getd_ne_opt _ _ _ (proj2 Hs k)).
      destruct (Nat.eqb k' k) eqn:E.
      * apply Nat.eqb_eq in E. subst k'. rewrite Nat.eqb_refl. reflexivity.
      * rewrite Nat.eqb_sym, E. apply app_nil_r.
  - apply CmapOk_set_store, CmapOk_insert, Hc.
  - rewrite abs_set_store. apply abs_insert.
Qed.

Lemma add_all_ok l s : Inv s -> Inv (add_all s l) /\ abs (add_all s l) = abs s ++ l.
Proof.
  revert s. induction l as [|[k v] r IH]; intros s H.
  - unfold add_all. simpl. rewrite app_nil_r. split; [exact H | reflexivity].
  - change (add_all s ((k, v) :: r)) with (add_all (m_add s k v) r).
    destruct (add_ok s k v H) as [I A]. destruct (IH _ I) as [I2 A2].
    split; [exact I2|]. rewrite A2, A, <- app_assoc. reflexivity.
Qed.

(* ---- addlist ------------------------------------------------------------------------------------ *)
Lemma fold_insert_ok k vs : forall s, CmapOk s ->
  CmapOk (fold_left (fun s v => ll_insert s k v) vs s) /\
  store (fold_left (fun s v => ll_insert s k v) vs s) = store s /\
  abs (fold_left (fun s v => ll_insert s k v) vs s) = abs s ++ map (pair k) vs.
Proof.
  induction vs as [|a r IH]; intros s Hc; simpl.
  - rewrite app_nil_r. split; [exact Hc|]. split; reflexivity.
  - destruct (IH (ll_insert s k a) (CmapOk_insert s k a Hc)) as [A [B C]].
    split; [exact A|]. split.
    + rewrite B. reflexivity.
    + rewrite C, abs_insert, <- app_assoc. reflexivity.
Qed.

Lemma vals_of_map_pair k vs k' : vals_of (map (pair k) vs) k' = if Nat.eqb k k' then vs else [].
Proof.
  induction vs as [|a r IH].
  - simpl. destruct (Nat.eqb k k'); reflexivity.
  - change (map (pair k) (a :: r)) with ((k, a) :: map (pair k) r).
    rewrite vals_of_cons, IH. cbn [fst snd]. destruct (Nat.eqb k k'); reflexivity.
Qed.

Lemma addlist_ne s k vs : Inv s -> vs <> [] ->
  Inv (set_store (fold_left (fun s v => ll_insert s k v) vs s)
         (d_set (store (fold_left (fun s v => ll_insert s k v) vs s)) k (d_getd (store s) k ++ vs))) /\
  abs (set_store (fold_left (fun s v => ll_insert s k v) vs s)
         (d_set (store (fold_left (fun s v => ll_insert s k v) vs s)) k (d_getd (store s) k ++ vs)))
  = abs s ++ map (pair k) vs.
Proof.
  intros [Hs Hc] Hne. destruct (fold_insert_ok k vs s Hc) as [A [B C]].
  split; [split|].
  - apply (StoreOk_set s _ k); [exact Hs | exact B | |].
    + intro H. apply app_eq_nil in H. destruct H. contradiction.
    + intro k'. rewrite C, vals_of_app, vals_of_map_pair.
      rewrite (d_getd_ne_opt _ _ _ (proj2 Hs k)).
      destruct (Nat.eqb k' k) eqn:E.
      * apply Nat.eqb_eq in E. subst k'. rewrite Nat.eqb_refl. reflexivity.
      * rewrite Nat.eqb_sym, E. apply app_nil_r.
  - apply CmapOk_set_store. exact A.
  - rewrite abs_set_store. exact C.
Qed.

Lemma addlist_ok s k vs : Inv s -> Inv (m_addlist s k vs) /\ abs (m_addlist s k vs) = abs s ++ map (pair k) vs.
Proof.
  intro H. destruct vs as [|v0 vr].
  - simpl. rewrite app_nil_r. split; [exact H | reflexivity].
  - assert (Hne : v0 :: vr <> []) by discriminate.
    exact (addlist_ne s k (v0 :: vr) H Hne).
Qed.

(* ---- __setitem__ ---------------------------------------------------------------------------------- *)
Lemma setitem_core s s1 k v :
  StoreOk s -> CmapOk s1 -> store s1 = store s -> abs s1 = remove_key (abs s) k ->
  Inv (set_store (ll_insert s1 k v) (d_set (store (ll_insert s1 k v)) k [v])) /\
  abs (set_store (ll_insert s1 k v) (d_set (store (ll_insert s1 k v)) k [v]))
  = remove_key (abs s) k ++ [(k, v)].
Proof.
  intros Hs Hc Hst Ha. split; [split|].
  - apply (StoreOk_set s (ll_insert s1 k v) k); [exact Hs | exact Hst | discriminate |].
    intro k'. rewrite abs_insert, Ha, vals_of_app, vals_of_single, vals_of_remove_key.
    destruct (Nat.eqb k' k) eqn:E.
    + apply Nat.eqb_eq in E. subst k'. rewrite Nat.eqb_refl. reflexivity.
    + rewrite Nat.eqb_sym, E. apply app_nil_r.
  - apply CmapOk_set_store, CmapOk_insert, Hc.
  - rewrite abs_set_store, abs_insert, Ha. reflexivity.
Qed.

Lemma setitem_ok s k v : Inv s ->
  exists s', m_setitem s k v = Ok s' /\ Inv s' /\ abs s' = remove_key (abs s) k ++ [(k, v)].
Proof.
  intros [Hs Hc]. unfold m_setitem. rewrite (store_mem s k Hs).
  destruct (has_key (abs s) k) eqn:E.
  - destruct (remove_all_ok s k Hc E) as [s1 [R [C1 [S1 A1]]]]. rewrite R. unfold bind.
    eexists. split; [reflexivity|]. apply (setitem_core s s1 k v); assumption.
  - unfold bind. eexists. split; [reflexivity|].
    apply (setitem_core s s k v); try assumption; [reflexivity|].
    symmetry. apply remove_key_absent. exact E.
Qed.

(* ---- __delitem__ ------------------------------------------------------------------------------------ *)
Lemma delitem_ok s k : Inv s -> has_key (abs s) k = true ->
  exists s', m_delitem s k = Ok s' /\ Inv s' /\ abs s' = remove_key (abs s) k.
Proof.
  intros [Hs Hc] Hk. unfold m_delitem. rewrite (store_mem s k Hs), Hk.
  destruct (remove_all_ok (set_store s (d_del (store s) k)) k
              (CmapOk_set_store s _ Hc) Hk) as [s' [R [C [S A]]]].
  rewrite abs_set_store in A. rewrite store_set_store in S.
  exists s'. split; [exact R|]. split; [split; [split|]|].
  - rewrite S. apply d_del_NoDup. apply Hs.
  - intro k'. rewrite S, A, d_get_del by apply Hs. rewrite vals_of_remove_key.
    destruct (Nat.eqb k' k); [reflexivity | apply Hs].
  - exact C.
  - exact A.
Qed.

Lemma delitem_absent s k : Inv s -> has_key (abs s) k = false -> m_delitem s k = Raise KeyError.
Proof.
  intros [Hs _] Hk. unfold m_delitem. rewrite (store_mem s k Hs), Hk. reflexivity.
Qed.

(* ---- constructor from pairs ---------------------------------------------------------------------------- *)
Lemma from_pairs_ok l : Inv (m_from_pairs l) /\ abs (m_from_pairs l) = l.
Proof.
  unfold m_from_pairs. destruct (add_all_ok l m_empty Inv_empty) as [I A].
  split; [exact I|]. rewrite A, abs_empty. reflexivity.
Qed.

Print Assumptions setitem_ok.
Print Assumptions addlist_ok.
