(* reverse_iter_lines: the block loop computes, for every content, block size >= 1 and start
   position, the split of the whole prefix (hence independent of the block size), and on
   contents whose breaks are \n / \r\n that is the Spec's reverse_lines_spec. *)
From Boltons Require Import Lib.Prelude Spec.C19_Spec Model.C19_Model Proofs.C19_Split.
Open Scope N_scope.

Lemma firstn_add {A} (a b : nat) (l : list A) : firstn (a + b) l = firstn a l ++ firstn b (skipn a l).
Proof.
  revert l. induction a as [|a IH]; intros l; [reflexivity|].
  destruct l as [|x l]; cbn [Nat.add firstn skipn app].
  - rewrite firstn_nil. reflexivity.
  - rewrite IH. reflexivity.
Qed.

Lemma last_cons_ne {A} (x : A) l d : l <> [] -> last (x :: l) d = last l d.
Proof. destruct l; [congruence|reflexivity]. Qed.

Lemma last_app_ne {A} (p b : list A) d : b <> [] -> last (p ++ b) d = last b d.
Proof.
  intros H. induction p as [|x p IH]; [reflexivity|].
  cbn [app]. rewrite last_cons_ne; [assumption|]. destruct p; [assumption|discriminate].
Qed.

Lemma ends_lf_app p b : b <> [] -> ends_lf (p ++ b) = ends_lf b.
Proof. intros H. unfold ends_lf. rewrite last_app_ne by assumption. reflexivity. Qed.

Lemma nl_LF : is_nl_byte LF = true. Proof. reflexivity. Qed.
Lemma nl_CR : is_nl_byte CR = true. Proof. reflexivity. Qed.

Lemma nobrk_last l : nobrk is_nl_byte l = true -> l <> [] -> ends_lf l = false.
Proof.
  intros F N0. unfold ends_lf.
  assert (I : In (last l 0) l).
  { clear F. induction l as [|x l IH]; [congruence|]. destruct l as [|y l]; [left; reflexivity|].
    right. apply IH. discriminate. }
  unfold nobrk in F. rewrite forallb_forall in F. specialize (F _ I).
  destruct (last l 0 =? LF) eqn:E; [|reflexivity].
  apply N.eqb_eq in E. rewrite E in F. discriminate.
Qed.

(* one yield round of the loop, seen from the final split *)
Lemma ril_tail_step p b l0 ls :
  bytes_splitlines b = l0 :: ls -> l0 <> [] ->
  ril_tail (p ++ b) = (if ends_lf b then [[]] else []) ++ rev ls ++ ril_tail (p ++ l0).
Proof.
  intros S N0. unfold bytes_splitlines in S.
  assert (Nb : b <> []) by (intro; subst; discriminate).
  assert (F : nobrk is_nl_byte l0 = true) by (eapply sl_head_nobrk; eassumption).
  unfold ril_tail.
  assert (E1 : is_nil (p ++ b) = false) by (destruct p; destruct b; try congruence; reflexivity).
  assert (E2 : is_nil (p ++ l0) = false) by (destruct p; destruct l0; try congruence; reflexivity).
  rewrite E1, E2, !ends_lf_app by assumption.
  rewrite (nobrk_last l0) by assumption. cbn [app].
  unfold bytes_splitlines. rewrite (sl_prepend is_nl_byte nl_LF p b l0 ls S N0).
  rewrite rev_app_distr. reflexivity.
Qed.

Lemma ril_loop_correct : forall fuel c bs pos buff, (1 <= bs)%nat -> (pos <= fuel)%nat ->
  ril_loop fuel c bs pos buff = Some (ril_tail (firstn pos c ++ buff)).
Proof.
  induction fuel as [|f IH]; intros c bs pos buff Hbs Hf.
  - assert (pos = O) by lia. subst. reflexivity.
  - cbn [ril_loop]. destruct (pos =? 0)%nat eqn:E0.
    + apply Nat.eqb_eq in E0. subst. reflexivity.
    + apply Nat.eqb_neq in E0.
      set (rs := Nat.min bs pos). set (pos' := (pos - rs)%nat).
      assert (Hrs : (1 <= rs <= pos)%nat) by (unfold rs; lia).
      assert (Hp : pos = (pos' + rs)%nat) by (unfold pos'; lia).
      assert (Hsplit : firstn pos c = firstn pos' c ++ firstn rs (skipn pos' c)).
      { rewrite Hp at 1. apply firstn_add. }
      set (cur := firstn rs (skipn pos' c)) in *.
      destruct (bytes_splitlines (cur ++ buff)) as [|l0 ls] eqn:S.
      * cbn [length Nat.ltb Nat.leb orb]. rewrite IH by (unfold pos'; lia).
        rewrite Hsplit, <- app_assoc. reflexivity.
      * cbn [hd tl].
        destruct ((length (l0 :: ls) <? 2)%nat || is_nil l0) eqn:C.
        -- rewrite IH by (unfold pos'; lia). rewrite Hsplit, <- app_assoc. reflexivity.
        -- apply orb_false_iff in C as [_ C2].
           assert (N0 : l0 <> []) by (destruct l0; [discriminate|discriminate]).
           rewrite IH by (unfold pos'; lia). cbn [option_map].
           rewrite Hsplit, <- app_assoc.
           rewrite (ril_tail_step (firstn pos' c) (cur ++ buff) l0 ls S N0). reflexivity.
Qed.

(* for every content: the result does not depend on the block size *)
Theorem reverse_bytes_all : forall c bs pos, (1 <= bs)%nat ->
  reverse_iter_lines_bytes c bs pos = Some (ril_tail (firstn pos c)).
Proof.
  intros. unfold reverse_iter_lines_bytes. rewrite ril_loop_correct by lia.
  rewrite app_nil_r. reflexivity.
Qed.

Theorem reverse_blocksize_independent : forall c bs bs' pos, (1 <= bs)%nat -> (1 <= bs')%nat ->
  reverse_iter_lines_bytes c bs pos = reverse_iter_lines_bytes c bs' pos.
Proof. intros. rewrite !reverse_bytes_all by assumption. reflexivity. Qed.

(* ---- the final split is the Spec's line list on \n / \r\n contents ---------- *)
Lemma nlp_other c t : (c =? LF) = false -> (c =? CR) = false -> nl_pieces (c :: t) = cons_head c (nl_pieces t).
Proof. intros A B. cbn [nl_pieces]. rewrite A, B. reflexivity. Qed.

Lemma ends_lf_cons c t : t <> [] -> ends_lf (c :: t) = ends_lf t.
Proof. intros. unfold ends_lf. rewrite last_cons_ne by assumption. reflexivity. Qed.

Definition tail_flag (b : text) : list text := if ends_lf b || is_nil b then [[]] else [].

Lemma tail_flag_cons_lf t : tail_flag (LF :: t) = tail_flag t.
Proof.
  unfold tail_flag. destruct t as [|d t]; [reflexivity|].
  rewrite ends_lf_cons by discriminate. cbn [is_nil]. reflexivity.
Qed.

Lemma nl_pieces_split : forall b, no_lone_cr b = true ->
  nl_pieces b = bytes_splitlines b ++ tail_flag b.
Proof.
  unfold bytes_splitlines. intros b. pattern b. apply (split_ind is_nl_byte); clear b.
  - reflexivity.
  - intros c t B IH H.
    assert (A1 : (c =? LF) = false /\ (c =? CR) = false).
    { unfold is_nl_byte in B. apply orb_false_iff in B. exact B. }
    destruct A1 as [A1 A2]. rewrite nlp_other, sl_nobrk by assumption.
    cbn [no_lone_cr] in H. rewrite A2 in H. rewrite IH by assumption.
    destruct t as [|d t].
    { unfold tail_flag, ends_lf. cbn. rewrite A1. reflexivity. }
    assert (NE : splitlines is_nl_byte (d :: t) <> []) by (apply sl_nonempty; discriminate).
    etransitivity; [apply cons_head_app; exact NE|]. f_equal.
  - intros c t B E IH H.
    assert (c = LF).
    { unfold is_nl_byte in B. unfold CR in E. rewrite E, orb_false_r in B. apply N.eqb_eq in B. exact B. }
    subst c. rewrite sl_brk by assumption. cbn [nl_pieces]. change (LF =? LF) with true. cbv iota.
    cbn [no_lone_cr] in H. change (LF =? CR) with false in H. cbv iota in H.
    rewrite IH by assumption. rewrite tail_flag_cons_lf. reflexivity.
  - intros t B IH H. rewrite sl_crlf by assumption.
    cbn [nl_pieces]. change (CR =? LF) with false. change (CR =? CR) with true. change (LF =? LF) with true.
    cbv iota.
    assert (H' : no_lone_cr t = true).
    { cbn [no_lone_cr] in H. change (CR =? CR) with true in H. change (LF =? LF) with true in H.
      change (LF =? CR) with false in H. cbv iota in H. exact H. }
    rewrite IH by assumption.
    assert (T : tail_flag (CR :: LF :: t) = tail_flag t).
    { unfold tail_flag at 1. rewrite ends_lf_cons by discriminate. cbn [is_nil]. rewrite orb_false_r.
      fold (tail_flag t). destruct t as [|d t]; [reflexivity|].
      rewrite ends_lf_cons by discriminate. unfold tail_flag. cbn [is_nil]. rewrite orb_false_r. reflexivity. }
    rewrite T. reflexivity.
  - intros t B E IH H. exfalso. cbn [no_lone_cr] in H. change (CR =? CR) with true in H. cbv iota in H.
    destruct t as [|d t]; [discriminate|]. cbn [starts_lf] in E. rewrite E in H. discriminate.
Qed.

Lemma ril_tail_spec b : no_lone_cr b = true -> ril_tail b = reverse_lines_spec b.
Proof.
  intros H. unfold ril_tail, reverse_lines_spec, file_lines.
  destruct b as [|x b]; [reflexivity|]. cbn [is_nil].
  rewrite nl_pieces_split by assumption. unfold tail_flag. cbn [is_nil]. rewrite orb_false_r.
  rewrite rev_app_distr. destruct (ends_lf (x :: b)); reflexivity.
Qed.

Theorem reverse_bytes_spec : forall c bs pos, (1 <= bs)%nat -> no_lone_cr (firstn pos c) = true ->
  reverse_iter_lines_bytes c bs pos = Some (reverse_lines_spec (firstn pos c)).
Proof. intros. rewrite reverse_bytes_all by assumption. rewrite ril_tail_spec by assumption. reflexivity. Qed.

Theorem reverse_binary_spec : forall c bs, (1 <= bs)%nat -> no_lone_cr c = true ->
  reverse_iter_lines Binary c bs (length c) = Ok (reverse_lines_spec c).
Proof.
  intros c bs Hbs H. unfold reverse_iter_lines.
  rewrite (reverse_bytes_spec c bs (length c) Hbs); rewrite firstn_all; [reflexivity|assumption].
Qed.

(* a text-mode file in a single-byte encoding whose code points are the byte values (latin-1) *)
Theorem reverse_latin1_spec : forall c bs, (1 <= bs)%nat -> no_lone_cr c = true ->
  reverse_iter_lines TextLatin1 c bs (length c) = Ok (reverse_lines_spec c).
Proof.
  intros c bs Hbs H. unfold reverse_iter_lines.
  rewrite (reverse_bytes_spec c bs (length c) Hbs); rewrite firstn_all; [reflexivity|assumption].
Qed.

Theorem reverse_latin1_all : forall c bs, (1 <= bs)%nat ->
  reverse_iter_lines TextLatin1 c bs (length c) = Ok (ril_tail c).
Proof.
  intros c bs Hbs. unfold reverse_iter_lines. rewrite reverse_bytes_all by exact Hbs. rewrite firstn_all. reflexivity.
Qed.

(* `encoding or file_obj.encoding`: the caller's encoding wins over the handle's own *)
Lemma pick_encoding_caller_wins : forall arg own : option fmode, pick_encoding arg own = caller_wins arg own.
Proof. intros [a|] [o|]; reflexivity. Qed.
