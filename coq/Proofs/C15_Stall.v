(* C15: exactly when the ideal sequence stalls (binary64), and the complete default-count theorem. *)
From Coq Require Import ZArith Reals Floats Lra Lia Bool.
From Flocq Require Import Core.Core IEEE754.BinarySingleNaN IEEE754.PrimFloat.
From Boltons Require Import Lib.Prelude Lib.C15_Float Spec.C15_Spec Model.C15_Model Proofs.C15_Proofs Proofs.C15_Prim.
Local Existing Instance Hprec.
Local Existing Instance Hmax.
Local Open Scope R_scope.

(* ---- growth persists: if X < rnd(X*F) then Y < rnd(Y*F) for every larger Y ---------------------- *)
Lemma ulp_small : forall X, 0 < X -> X < bpow radix2 (emin + prec - 1) -> ulp64 X = bpow radix2 emin.
Proof.
  intros X P H. apply (ulp_FLT_small radix2 emin prec).
  rewrite Rabs_pos_eq by lra. eapply Rlt_trans; [exact H|]. apply bpow_lt. lia.
Qed.

Lemma rnd_persist : forall X Y F, fmt64 X -> fmt64 Y -> 0 < X -> X < Y -> 1 < F -> fmt64 F ->
  X < rnd (X * F) -> Y < rnd (Y * F).
Proof.
  intros X Y F FX FY PX XY HF FF G.
  destruct (Rle_or_lt (bpow radix2 (emin + prec - 1)) Y) as [N|S].
  - now apply rnd_mul_strict.
  - assert (UX : ulp64 X = bpow radix2 emin) by (apply ulp_small; lra).
    assert (UY : ulp64 Y = bpow radix2 emin) by (apply ulp_small; lra).
    pose proof (bpow_gt_0 radix2 emin) as P0.
    (* X*F is not below the midpoint of X and succ X *)
    assert (M : (X + succ64 X) / 2 <= X * F).
    { destruct (Rle_or_lt ((X + succ64 X) / 2) (X * F)) as [A|A]; [exact A|exfalso].
      pose proof (round_N_le_midp radix2 fexp64 (fun x => negb (Z.even x)) X (X * F) FX A) as R.
      change (round radix2 fexp64 (Znearest (fun x => negb (Z.even x))) (X * F)) with (rnd (X * F)) in R.
      lra. }
    rewrite succ_eq_pos, UX in M by lra.
    assert (M2 : (succ64 Y + pred radix2 fexp64 (succ64 Y)) / 2 < Y * F).
    { rewrite pred_succ by (auto; apply (fexp_correct prec emax); exact Hprec).
      rewrite succ_eq_pos, UY by lra. nra. }
    assert (FS : fmt64 (succ64 Y)).
    { apply generic_format_succ; auto. apply (fexp_correct prec emax). exact Hprec. }
    pose proof (round_N_ge_midp radix2 fexp64 (fun x => negb (Z.even x)) (succ64 Y) (Y * F) FS M2) as R.
    change (round radix2 fexp64 (Znearest (fun x => negb (Z.even x))) (Y * F)) with (rnd (Y * F)) in R.
    pose proof (succ_gt_id radix2 fexp64 Y). lra.
Qed.

(* y finite positive, f > 1 finite, Y < rnd(Y*F) in the reals: y < y*f in binary64 *)
Lemma Bmult_lt_of_real : forall y f : B, is_finite y = true -> is_finite f = true ->
  0 < B2R y -> 1 < B2R f -> B2R y < rnd (B2R y * B2R f) -> Bltb y (Bmult mode_NE y f) = true.
Proof.
  intros y f Fy Ff Py Pf G.
  assert (Sy : Bsign y = false) by (apply finite_sign_pos; auto).
  assert (Sf : Bsign f = false) by (apply finite_sign_pos; auto; lra).
  pose proof (Bmult_correct prec emax _ _ mode_NE y f) as C.
  destruct (Rlt_bool _ _).
  - destruct C as (R & Fi & _). rewrite Fy, Ff in Fi. simpl in Fi.
    rewrite (Bltb_correct _ _ _ _ Fy Fi), R. now apply Rlt_bool_true.
  - rewrite Sy, Sf in C. simpl in C. apply overflow_is_inf in C. rewrite C.
    rewrite Bltb_def. replace (Bleb y (B754_infinity false)) with true
      by (symmetry; apply Bleb_BLE, BLE_inf_r, notnan_fin, Fy).
    destruct (Bleb (B754_infinity false) y) eqn:E; [|reflexivity].
    apply Bleb_BLE in E. destruct y as [s|[|]| |s m e H]; simpl in *; try discriminate; tauto.
Qed.

(* conversely, y < y*f in binary64 gives the real inequality (an overflowing product is huge) *)
Lemma real_of_Bmult_lt : forall y f : B, is_finite y = true -> is_finite f = true ->
  0 < B2R y -> 1 < B2R f -> Bltb y (Bmult mode_NE y f) = true -> B2R y < rnd (B2R y * B2R f).
Proof.
  intros y f Fy Ff Py Pf G.
  pose proof (Bmult_correct prec emax _ _ mode_NE y f) as C.
  destruct (Rlt_bool_spec (Rabs (rnd (B2R y * B2R f))) (bpow radix2 emax)) as [L|L].
  - destruct C as (R & Fi & _). rewrite Fy, Ff in Fi. simpl in Fi.
    rewrite <- R. now apply Bltb_fin.
  - assert (0 <= rnd (B2R y * B2R f)) by (rewrite <- rnd_0; apply rnd_le; nra).
    rewrite Rabs_pos_eq in L by assumption.
    pose proof (abs_B2R_lt_emax prec emax y) as A. rewrite Rabs_pos_eq in A by lra. lra.
Qed.

Local Close Scope R_scope.

(* growth persists along the sequence: x < x*f, x < y (finite, positive)  =>  y < y*f *)
Lemma prim_grow_persist : forall x y f,
  PrimFloat.is_finite x = true -> PrimFloat.is_finite y = true ->
  PrimFloat.ltb PrimFloat.zero x = true -> PrimFloat.ltb x y = true ->
  PrimFloat.ltb PrimFloat.one f = true ->
  PrimFloat.ltb x (PrimFloat.mul x f) = true -> PrimFloat.ltb y (PrimFloat.mul y f) = true.
Proof.
  intros x y f Fx Fy Px Lxy Lf G.
  rewrite is_finite_equiv in Fx, Fy.
  rewrite ltb_equiv, ?Prim2B_zero, ?Prim2B_one in Px, Lxy, Lf.
  rewrite ltb_equiv, mul_equiv in G. rewrite ltb_equiv, mul_equiv.
  pose proof (Bltb_fin _ _ fin_Bzero Fx Px) as RX. rewrite B2R_Bzero in RX.
  pose proof (Bltb_fin _ _ Fx Fy Lxy) as RXY.
  destruct (Bltb_right _ _ fin_B1 Lf) as [Ff|Ef].
  - pose proof (Bltb_fin _ _ fin_B1 Ff Lf) as RF. rewrite B2R_B1 in RF.
    apply Bmult_lt_of_real; auto; try (apply Rlt_trans with (B2R (Prim2B x)); assumption).
    apply (rnd_persist (B2R (Prim2B x)) (B2R (Prim2B y)) (B2R (Prim2B f)));
      auto using fmt_B2R.
    now apply real_of_Bmult_lt.
  - (* f = +inf: y * inf = +inf *)
    rewrite Ef.
    assert (Sy : Bsign (Prim2B y) = false).
    { apply finite_sign_pos; auto. apply Rlt_trans with (B2R (Prim2B x)); assumption. }
    destruct (Prim2B y) as [s|[|]| |s m e H]; try discriminate; simpl in Sy; subst.
    + simpl in RXY. exfalso. apply (Rlt_irrefl 0). apply Rlt_trans with (B2R (Prim2B x)); assumption.
    + reflexivity.
Qed.

(* ---- exactly when the ideal sequence stalls ------------------------------------------------------ *)
Section ExactStall.
  Local Notation le x y := (PrimFloat.leb x y = true).
  Local Notation lt x y := (PrimFloat.ltb x y = true).
  Let OL := prim_order_laws.
  Let GL := prim_grow_laws.
  Variables start stop factor : PrimFloat.float.
  Hypothesis Hvalid : valid prim_ops start stop factor = true.
  Hypothesis Hf : lt PrimFloat.one factor.

  (* zero, or growing (a < a*factor), or already at stop *)
  Definition safe2 (a : PrimFloat.float) : Prop :=
    PrimFloat.eqb a PrimFloat.zero = true \/ lt a (PrimFloat.mul a factor) \/ PrimFloat.ltb a stop = false.

  Lemma no_stall_from_safe2 : forall n a, Inv prim_ops stop a -> safe2 a ->
    stalls prim_ops stop factor a n = false.
  Proof.
    destruct (valid_parts prim_ops start stop factor Hvalid) as (H0s & Hss & H0t & H1f).
    simpl in H0s, Hss, H0t, H1f.
    assert (Hns : PrimFloat.ltb stop stop = false).
    { pose proof (le_nlt prim_ops OL stop stop) as K. simpl in K. apply K.
      eapply (leb_num_r prim_ops OL). exact Hss. }
    induction n as [|n IH]; intros a Ha Sa; [reflexivity|].
    cbn [stalls]. simpl fltb.
    destruct (PrimFloat.ltb a stop) eqn:L; [|reflexivity]. simpl andb.
    assert (Va : valid prim_ops a stop factor = true).
    { destruct Ha as [A1 A2]. unfold valid. simpl in *. now rewrite A1, A2, H0t, H1f. }
    destruct (ideal_next_Inv prim_ops OL GL a stop factor Va a Ha) as [Hi _].
    assert (G : lt a (ideal_next prim_ops stop factor a) /\ safe2 (ideal_next prim_ops stop factor a)).
    { unfold ideal_next. simpl feqb. simpl f0.
      destruct (PrimFloat.eqb a PrimFloat.zero) eqn:E.
      - destruct (eqb_0_le prim_ops OL a E) as [Ea0 _]. simpl in Ea0. split.
        + apply p_le_lt_trans with PrimFloat.zero; auto.
          apply p_lt_fmin; [reflexivity|assumption].
        + unfold safe2, fmin. simpl. destruct (PrimFloat.leb PrimFloat.one stop) eqn:E1.
          * right. left. apply prim_strict_grow; auto; reflexivity.
          * right. right. exact Hns.
      - destruct Sa as [Sa|[Sa|Sa]]; [congruence| |congruence].
        destruct Ha as [A1 A2]. simpl in A1, A2.
        pose proof (lt_stop_finite stop a A1 L) as Fa.
        pose proof (neqb_0_lt prim_ops OL a A1 E) as Pa. simpl in Pa.
        split.
        + apply p_lt_fmin; assumption.
        + unfold safe2, fmin. simpl. destruct (PrimFloat.leb (PrimFloat.mul a factor) stop) eqn:E1.
          * destruct (PrimFloat.ltb (PrimFloat.mul a factor) stop) eqn:L2.
            { right. left.
              assert (A3 : le PrimFloat.zero (PrimFloat.mul a factor)).
              { pose proof (leb_trans prim_ops OL PrimFloat.zero a (PrimFloat.mul a factor) A1) as T.
                simpl in T. apply T. exact (lt_le prim_ops OL _ _ Sa). }
              apply (prim_grow_persist a); auto.
              exact (lt_stop_finite stop _ A3 L2). }
            { right. right. reflexivity. }
          * right. right. exact Hns. }
    destruct G as [G1 G2]. simpl fltb. rewrite G1. simpl. apply IH; auto.
  Qed.

  (* the closed form of the guard: the sequence stalls iff it stalls at start itself *)
  Definition stall_at_start : bool :=
    PrimFloat.ltb PrimFloat.zero start && PrimFloat.ltb start stop
    && negb (PrimFloat.ltb start (PrimFloat.mul start factor)).

  Theorem stalls_iff_stall_at_start : forall n,
    stalls prim_ops stop factor start (S n) = stall_at_start.
  Proof.
    intro n. unfold stall_at_start.
    destruct (valid_parts prim_ops start stop factor Hvalid) as (H0s & Hss & H0t & H1f).
    simpl in H0s, Hss, H0t, H1f.
    pose proof (Inv_start prim_ops start stop factor Hvalid) as Hi.
    destruct (PrimFloat.ltb PrimFloat.zero start) eqn:P.
    - destruct (PrimFloat.ltb start stop) eqn:L.
      + destruct (PrimFloat.ltb start (PrimFloat.mul start factor)) eqn:G; cbn [andb negb].
        * apply no_stall_from_safe2; auto. right. left. exact G.
        * (* stalls at the first step *)
          cbn [stalls]. simpl fltb. rewrite L. simpl andb.
          assert (E : PrimFloat.eqb start PrimFloat.zero = false).
          { pose proof (eqb_def prim_ops OL start PrimFloat.zero) as D. simpl in D. rewrite D.
            pose proof (lt_nle prim_ops OL _ _ P) as N. simpl in N. rewrite N. reflexivity. }
          unfold ideal_next. simpl feqb. simpl f0. rewrite E.
          assert (Nm : PrimFloat.leb (PrimFloat.mul start factor) start = true).
          { pose proof (nlt_le prim_ops OL start (PrimFloat.mul start factor)) as K. simpl in K.
            apply K; auto.
            - eapply (leb_num_r prim_ops OL). exact H0s.
            - eapply (leb_num_r prim_ops OL). apply (mul_grow prim_ops GL); assumption. }
          assert (Ls : PrimFloat.leb (PrimFloat.mul start factor) stop = true).
          { pose proof (leb_trans prim_ops OL (PrimFloat.mul start factor) start stop Nm Hss) as T. exact T. }
          unfold fmin. simpl fleb. rewrite Ls. simpl fmul. rewrite G. reflexivity.
      + cbn [andb negb]. apply no_stall_from_safe2; auto. right. right. exact L.
    - cbn [andb negb]. apply no_stall_from_safe2; auto. left.
      pose proof (eqb_def prim_ops OL start PrimFloat.zero) as D. simpl in D. rewrite D.
      simpl in H0s. rewrite H0s, andb_true_r.
      pose proof (ltb_negb_leb prim_ops OL PrimFloat.zero start (num_0 prim_ops OL)) as K. simpl in K.
      rewrite K in P by (eapply (leb_num_r prim_ops OL); exact H0s).
      now apply negb_false_iff in P.
  Qed.
End ExactStall.

(* the guard of the open finding, in closed form *)
Theorem known_guard_exact : forall p n,
  spec_known prim_ops p (S n)
  = negb (must_raise prim_ops p) && PrimFloat.ltb PrimFloat.one (p_factor p)
    && (match p_count p with CNone => true | _ => false end)
    && stall_at_start (p_start p) (p_stop p) (p_factor p).
Proof.
  intros p n. unfold spec_known.
  destruct (must_raise prim_ops p) eqn:M; [reflexivity|]. simpl negb. simpl andb.
  destruct (must_raise_false_parts prim_ops p M) as [V _].
  simpl fltb. simpl f1.
  destruct (PrimFloat.ltb PrimFloat.one (p_factor p)) eqn:Lf; [|reflexivity].
  destruct (p_count p); try reflexivity. simpl andb.
  apply stalls_iff_stall_at_start; assumption.
Qed.

(* THE DEFAULT-COUNT CLAUSE, COMPLETE.  For all valid parameters with factor > 1 and any jitter in
   range: either start*factor does not exceed start (0 < start < stop; only possible for a
   subnormal start) and backoff() raises ValueError whatever the fuel, or there are a fuel and a
   number n of draws such that for every n or more draws in [0,1] backoff() returns a list within
   all value clauses whose un-jittered value at the last position is stop. *)
Theorem binary64_default_count_complete : forall start stop factor j take,
  let p := mkP ApiList start stop CNone factor j take in
  must_raise prim_ops p = false -> PrimFloat.ltb PrimFloat.one factor = true ->
  (stall_at_start start stop factor = true /\
   forall fuel draws, run prim_ops p (S fuel) draws = mkObs [] (ERaise ValueError))
  \/
  (stall_at_start start stop factor = false /\
   exists fuel n, forall draws, draws_ok prim_ops draws -> (n <= length draws)%nat ->
     let o := run prim_ops p fuel draws in
     o_end o = EStop /\ values_ok prim_ops p (o_vals o) = true /\
     last_is prim_ops stop (if jitter_off prim_ops j then o_vals o
                            else ideal prim_ops stop factor start (length (o_vals o))) = true).
Proof.
  intros start stop factor j take p M Lf.
  destruct (must_raise_false_parts prim_ops p M) as [V _]. cbn [p p_start p_stop p_factor] in V.
  destruct (stall_at_start start stop factor) eqn:Sas.
  - left. split; [reflexivity|]. intros fuel draws.
    apply (known_means_value_error _ prim_ops prim_order_laws p (S fuel) draws); [|left; reflexivity].
    rewrite known_guard_exact. cbn [p p_count p_start p_stop p_factor]. now rewrite M, Lf, Sas.
  - right. split; [reflexivity|].
    destruct (valid_parts prim_ops start stop factor V) as (H0 & _).
    destruct (default_count_terminates start stop factor H0) as [fuel Hfuel].
    exists fuel, (default_len prim_ops fuel start stop factor). intros draws Hd Hn.
    pose proof (run_list_default_not_fuel_draws prim_ops prim_order_laws
                  start stop factor j take fuel draws V (Hfuel 1%Z) Hn) as NF.
    assert (St : stalls prim_ops stop factor start fuel = false).
    { destruct fuel as [|k]; [reflexivity|]. rewrite stalls_iff_stall_at_start; assumption. }
    exact (default_count_last_is_stop prim_ops prim_order_laws prim_grow_laws prim_jitter_laws
             start stop factor j take fuel draws Hd M Lf St NF).
Qed.

(* the same through backoff_iter, for every non-stalling start *)
Theorem binary64_default_count_iter_complete : forall start stop factor j take,
  let p := mkP ApiIter start stop CNone factor j take in
  must_raise prim_ops p = false -> PrimFloat.ltb PrimFloat.one factor = true -> take <> O ->
  (stall_at_start start stop factor = true /\
   forall fuel draws, run prim_ops p (S fuel) draws = mkObs [] (ERaise ValueError))
  \/
  (stall_at_start start stop factor = false /\
   exists fuel n, forall draws, draws_ok prim_ops draws -> (n <= length draws)%nat ->
     let o := run prim_ops p fuel draws in
     values_ok prim_ops p (o_vals o) = true /\
     ((o_end o = EMore /\ length (o_vals o) = take) \/
      (o_end o = EStop /\
       last_is prim_ops stop (if jitter_off prim_ops j then o_vals o
                              else ideal prim_ops stop factor start (length (o_vals o))) = true))).
Proof.
  intros start stop factor j take p M Lf Ht.
  destruct (must_raise_false_parts prim_ops p M) as [V _]. cbn [p p_start p_stop p_factor] in V.
  destruct (stall_at_start start stop factor) eqn:Sas.
  - left. split; [reflexivity|]. intros fuel draws.
    apply (known_means_value_error _ prim_ops prim_order_laws p (S fuel) draws); [|right; exact Ht].
    rewrite known_guard_exact. cbn [p p_count p_start p_stop p_factor]. now rewrite M, Lf, Sas.
  - right. split; [reflexivity|].
    destruct (valid_parts prim_ops start stop factor V) as (H0 & _).
    destruct (default_count_terminates start stop factor H0) as [fuel Hfuel].
    exists fuel, (Nat.max take (default_len prim_ops fuel start stop factor)). intros draws Hd Hn.
    pose proof (run_iter_default_not_fuel_draws prim_ops prim_order_laws
                  start stop factor j take fuel draws V (Hfuel 1%Z)) as NF.
    assert (St : stalls prim_ops stop factor start fuel = false).
    { destruct fuel as [|k]; [reflexivity|]. rewrite stalls_iff_stall_at_start; assumption. }
    exact (default_count_iter_last_is_stop prim_ops prim_order_laws prim_grow_laws prim_jitter_laws
             start stop factor j take fuel draws Hd M Lf St Ht (NF ltac:(lia) ltac:(lia))).
Qed.
