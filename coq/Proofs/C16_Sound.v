(* The checker's [holds] predicate is met by the model on EVERY input outside the
   recorded guards: so whenever a run finds [agree] (implementation = model) on a
   case, the theorems transfer to the implementation's behaviour on that case. *)
From Boltons Require Import Lib.Prelude Lib.C16_Text Spec.C16_Spec Model.C16_Model Gen.C16_Gen
  Check.C16_Check Proofs.C16_Text Proofs.C16_Regex Proofs.C16_Parse Proofs.C16_Fold Proofs.C16_FoldM Proofs.C16_Format Proofs.C16_Main.
Open Scope N_scope.

Lemma frame_eqb_refl f : frame_eqb f f = true.
Proof.
  unfold frame_eqb. rewrite !str_eqb_refl. destruct (f_func f); cbn [option_eqb]; rewrite ?str_eqb_refl; reflexivity.
Qed.

Lemma tb_eqb_refl T : tb_eqb T T = true.
Proof.
  unfold tb_eqb. rewrite !str_eqb_refl, !andb_true_r.
  induction (t_frames T) as [|f fs IH]; [reflexivity|]. cbn [list_eqb]. rewrite frame_eqb_refl, IH. reflexivity.
Qed.

Lemma rtb_eqb_refl r : rtb_eqb r r = true.
Proof. destruct r as [T|e]; cbn; [apply tb_eqb_refl|destruct e; cbn; rewrite ?Nat.eqb_refl; reflexivity]. Qed.

Lemma rstr_eqb_refl r : rstr_eqb r r = true.
Proof. destruct r as [T|e]; cbn; [apply str_eqb_refl|destruct e; cbn; rewrite ?Nat.eqb_refl; reflexivity]. Qed.

Lemma cp_obs_list_refl l : list_eqb cp_obs_eqb l l = true.
Proof.
  induction l as [|c l IH]; [reflexivity|]. cbn [list_eqb]. rewrite IH, andb_true_r.
  unfold cp_obs_eqb. rewrite !str_eqb_refl, N.eqb_refl. reflexivity.
Qed.

Lemma ei_obs_eqb_refl o : ei_obs_eqb o o = true.
Proof.
  unfold ei_obs_eqb. rewrite cp_obs_list_refl, !str_eqb_refl. cbn [andb].
  destruct (eo_more o) as [[[[[t f] p] r] c]|]; [|reflexivity].
  rewrite !str_eqb_refl, rtb_eqb_refl. reflexivity.
Qed.

(* ---- round-trip cases ------------------------------------------------------------------------- *)
Theorem rt_sound T ms :
  length ms = length (t_frames T) ->
  rt_verdict T ms (real_text T ms)
             (fst (model_parse_print (real_text T ms))) (snd (model_parse_print (real_text T ms)))
  = (true, true, false).
Proof.
  intros Hl. unfold rt_verdict.
  destruct (model_parse_print (real_text T ms)) as [mp ms'] eqn:E. cbn [fst snd].
  rewrite rtb_eqb_refl, rstr_eqb_refl. unfold rt_input_ok. rewrite str_eqb_refl, Hl, N.eqb_refl.
  cbn [andb].
  destruct (wf P T && markers_ok ms && src_consistent (t_frames T)) eqn:W; [|reflexivity].
  apply andb_true_iff in W as [W W3]. apply andb_true_iff in W as [W1 W2].
  unfold model_parse_print in E. rewrite (parse_real P py_cc_ok T ms W1 W2 Hl W3) in E.
  rewrite (to_string_std T (wf_funcs P T W1)) in E. injection E as <- <-.
  rewrite rtb_eqb_refl, rstr_eqb_refl. reflexivity.
Qed.

(* ---- live exceptions ----------------------------------------------------------------------------- *)
Lemma frames_match_model fs :
  frames_match fs (map (fun c => mkCpObs (cp_path c) (cp_lineno c) (cp_func c) (deferred_str P (cp_raw c)))
                       (map cp_of_live fs)) = true.
Proof.
  induction fs as [|l fs IH]; [reflexivity|]. cbn [map frames_match]. rewrite IH, andb_true_r.
  unfold frame_matches, std_frame, cp_of_live.
  cbn [co_path co_lineno co_func co_line cp_path cp_lineno cp_func cp_raw f_path f_lineno func_of f_func f_src].
  rewrite !str_eqb_refl. cbn [andb]. apply str_eqb_eq. unfold deferred_str. apply strip_rstrip.
Qed.

Theorem ei_sound fs e :
  plain_exc e = true ->
  ei_verdict fs e (std_text (std_tb P fs e)) (model_ei fs e) = (true, true, false).
Proof.
  intros He. pose proof (plain_exc_tb P fs e He) as ET.
  pose proof (format_partial P fs e He) as FMT. unfold ei_text in FMT.
  assert (Emsg : ei_msg e = std_msg e) by (apply (f_equal t_msg) in ET; exact ET).
  assert (Hhint : hint_of e = Some []).
  { unfold plain_exc in He. unfold hint_of. rewrite He. reflexivity. }
  assert (Hshown : str_eqb (ex_shown e) (exc_text (std_type e) (std_msg e)) = true).
  { unfold plain_exc in He. unfold std_msg. rewrite Hhint, app_nil_r. exact He. }
  unfold ei_verdict. cbn [std_tb t_frames t_type t_msg].
  rewrite He, Hhint, Hshown, str_eqb_refl. cbn [is_some andb orb negb].
  rewrite ei_obs_eqb_refl.
  (* the clauses *)
  assert (CL : ei_clauses fs e (model_ei fs e) (std_tb P fs e) (std_text (std_tb P fs e)) = true).
  { unfold ei_clauses, model_ei. cbn [eo_frames eo_type eo_msg eo_fmt eo_only eo_more std_tb t_type t_msg].
    rewrite frames_match_model, (ei_type_std e), Emsg, !str_eqb_refl. cbn [andb].
    rewrite (ei_type_std e), Emsg in FMT.
    rewrite FMT, str_eqb_refl. cbn [andb].
    unfold ei_formatted in FMT.
    change (ei_exc_only (std_type e) (std_msg e)) with (exc_text (std_type e) (std_msg e)) in *.
    rewrite FMT, str_eqb_refl. cbn [andb].
    change M_nl with NL. rewrite app_assoc, FMT, !str_eqb_refl. reflexivity. }
  rewrite CL. cbn [andb orb].
  (* reparse *)
  destruct (wf P (std_tb P fs e) && src_consistent (map (std_frame P) fs)) eqn:W; cbn [negb orb]; [|reflexivity].
  apply andb_true_iff in W as [W Wc].
  unfold model_ei. cbn [eo_more].
  pose proof (format_reparse P py_cc_ok fs e) as RP. rewrite ET in RP.
  specialize (RP W Wc). unfold ei_text in RP. rewrite RP, rtb_eqb_refl. reflexivity.
Qed.

(* ---- call stacks ------------------------------------------------------------------------------------- *)
Theorem stack_format fs :
  tbi_formatted P (map cp_of_live fs) = L_header ++ NL ++ spec_stack_lines fs.
Proof.
  unfold tbi_formatted, spec_stack_lines. change M_header with L_header. change M_nl with NL.
  f_equal. f_equal. exact (tbi_fold_std P fs None 0).
Qed.

Theorem stack_sound fs :
  let cs := map cp_of_live fs in
  let one := match rev cs with c :: _ => tb_frame_str P c | [] => [] end in
  stack_verdict fs (spec_stack_lines fs)
    (map (fun c => mkCpObs (cp_path c) (cp_lineno c) (cp_func c) (deferred_str P (cp_raw c))) cs)
    (tbi_formatted P cs) one one = (true, true, false).
Proof.
  cbv zeta. unfold stack_verdict.
  rewrite cp_obs_list_refl, !str_eqb_refl, frames_match_model, stack_format, str_eqb_refl. cbn [andb].
  assert (E : match rev (map cp_of_live fs) with c :: _ => tb_frame_str P c | [] => [] end = last_entry_text fs).
  { unfold last_entry_text. rewrite <- map_rev. destruct (rev fs) as [|l r]; [reflexivity|].
    cbn [map]. apply tb_frame_str_std. }
  rewrite E, str_eqb_refl. reflexivity.
Qed.

(* ---- inside the recorded guard (a display-time suggestion, a failing __str__) the model's behaviour
   is exactly what [known] describes: the standard text with tbutils' own message.  So a run can
   only ever report such a case as the recorded finding, never as something else, as long as the
   implementation agrees with the model. ------------------------------------------------------------- *)
Lemma hint_shown e : hint_of e <> None -> ex_shown e = exc_text (std_type e) (std_msg e).
Proof.
  unfold std_msg, hint_of. destruct (str_eqb (ex_shown e) (exc_text (std_type e) (std_base_msg e))) eqn:E.
  - intros _. apply str_eqb_eq in E. rewrite app_nil_r. exact E.
  - destruct (drop_prefix (std_type e ++ L_colon ++ std_base_msg e) (ex_shown e)) as [h|] eqn:D; [|intro H; contradiction].
    destruct (startswith L_hint h) eqn:S; [|intro H; contradiction]. intros _.
    assert (Sh : ex_shown e = (std_type e ++ L_colon ++ std_base_msg e) ++ h).
    { clear - D. revert D. generalize (std_type e ++ L_colon ++ std_base_msg e) as p. generalize (ex_shown e) as t.
      intros t p. revert t. induction p as [|a p IH]; intros t D; cbn [drop_prefix] in D.
      - injection D as ->. reflexivity.
      - destruct t as [|b t]; [discriminate|]. destruct (a =? b) eqn:Eab; [|discriminate].
        apply N.eqb_eq in Eab. subst b. cbn [app]. f_equal. apply IH. exact D. }
    rewrite Sh. unfold exc_text. destruct (std_base_msg e ++ h) eqn:Em.
    + destruct h; [discriminate|]. destruct (std_base_msg e); discriminate.
    + cbn [is_nil]. rewrite <- Em, <- !app_assoc. reflexivity.
Qed.

Theorem ei_known fs e :
  plain_exc e = false -> hint_of e <> None ->
  let v := ei_verdict fs e (std_text (std_tb P fs e)) (model_ei fs e) in
  fst (fst v) = true /\ snd v = true.
Proof.
  intros He Hh. cbv zeta. unfold ei_verdict. cbn [std_tb t_frames t_type t_msg].
  rewrite He, ei_obs_eqb_refl, <- (hint_shown e Hh), !str_eqb_refl.
  destruct (hint_of e) as [h|] eqn:EH; [|contradiction]. cbn [is_some negb andb fst snd].
  split; [reflexivity|].
  pose proof (ei_text_std P fs e) as FMT. unfold ei_text, ei_tb in FMT.
  unfold ei_clauses, model_ei. cbn [eo_frames eo_type eo_msg eo_fmt eo_only eo_more t_type t_msg].
  rewrite frames_match_model, (ei_type_std e), !str_eqb_refl. cbn [andb].
  rewrite (ei_type_std e) in FMT. rewrite FMT, str_eqb_refl. cbn [andb].
  unfold ei_formatted in FMT.
  change (ei_exc_only (std_type e) (ei_msg e)) with (exc_text (std_type e) (ei_msg e)) in *.
  rewrite FMT, !str_eqb_refl. cbn [andb].
  change M_nl with NL. rewrite app_assoc, FMT, !str_eqb_refl. reflexivity.
Qed.

(* ---- the limit parameter: for a positive limit the model shows the traceback module's entries and text --- *)
Lemma live_list_eqb_refl l :
  list_eqb (fun a b => str_eqb (lv_file a) (lv_file b) && (lv_lineno a =? lv_lineno b) &&
                       str_eqb (lv_name a) (lv_name b) && str_eqb (lv_raw a) (lv_raw b)) l l = true.
Proof.
  induction l as [|a l IH]; [reflexivity|]. cbn [list_eqb]. rewrite !str_eqb_refl, N.eqb_refl, IH. reflexivity.
Qed.

Theorem lim_sound fs e k via_sys :
  (0 < k)%Z -> fs <> [] -> plain_exc e = true ->
  let lim_fs := spec_limit k via_sys fs in
  let T := std_tb P lim_fs e in
  let cs := model_limit k (map cp_of_live fs) in
  lim_verdict fs e k via_sys lim_fs
    ((if is_nil lim_fs then exc_text (t_type T) (t_msg T) else std_text T) ++ NL)
    (map (fun c => mkCpObs (cp_path c) (cp_lineno c) (cp_func c) (deferred_str P (cp_raw c))) cs)
    (tbi_formatted P cs ++ ei_exc_only (ei_type (ex_module e) (ex_qualname e)) (ei_msg e) ++ M_nl)
  = (true, true, false).
Proof.
  intros Hk Hne He. cbv zeta. unfold lim_verdict.
  assert (Kpos : (k <=? 0)%Z = false) by (apply Z.leb_gt; exact Hk).
  assert (Knn : (0 <=? k)%Z = true) by (apply Z.leb_le; lia).
  assert (CS : model_limit k (map cp_of_live fs) = map cp_of_live (spec_limit k via_sys fs)).
  { unfold model_limit, spec_limit. rewrite Kpos, Knn. apply firstn_map. }
  assert (Hhint : hint_of e = Some []) by (unfold plain_exc in He; unfold hint_of; rewrite He; reflexivity).
  rewrite cp_obs_list_refl, !str_eqb_refl, live_list_eqb_refl, Hhint, Kpos, He. cbn [is_some andb orb negb].
  rewrite CS, frames_match_model. cbn [andb].
  pose proof (format_partial P (spec_limit k via_sys fs) e He) as FMT. unfold ei_text, ei_formatted in FMT.
  destruct (spec_limit k via_sys fs) as [|l ls] eqn:EL.
  - (* a positive limit keeps at least the first entry *)
    exfalso. unfold spec_limit in EL. rewrite Knn in EL. destruct fs as [|f0 fs']; [contradiction|].
    destruct (Z.to_nat k) eqn:EK; [lia|]. discriminate.
  - cbn [is_nil]. change M_nl with NL. rewrite app_assoc, FMT, str_eqb_refl. reflexivity.
Qed.
