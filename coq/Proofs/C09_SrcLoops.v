(* C09 (T): the scanner loops of split_iter, unique_iter and bucketize as
   translated from /repo's current source (Gen/C09_Src.v, regenerated on every
   run by harness/translators/c09_loops.py) ARE the hand-written model loops. *)
From Boltons Require Import Lib.Prelude Spec.C09_Spec Model.C09_Model Gen.C09_Src.

(* ---- unique_iter ------------------------------------------------------------ *)
Lemma gen_unique_fold key : forall src seen out,
  snd (fold_left (Gunique_iter_step key) src (seen, out)) = out ++ unique_loop key seen src.
Proof.
  induction src as [|i r IH]; intros seen out; cbn [fold_left unique_loop].
  - cbn [snd]. symmetry. apply app_nil_r.
  - unfold Gunique_iter_step at 2. destruct (memb (key i) seen); cbn [negb].
    + apply IH.
    + rewrite IH, <- app_assoc. reflexivity.
Qed.

Lemma gen_unique_is_model src key : Gunique_iter src key = m_unique key src.
Proof.
  unfold Gunique_iter, m_unique. pose proof (gen_unique_fold key src [] []) as H.
  destruct (fold_left (Gunique_iter_step key) src ([], [])) as [seen out]. exact H.
Qed.

(* ---- bucketize -------------------------------------------------------------- *)
Lemma fold_left_ext {A B} (f g : A -> B -> A) : (forall a b, f a b = g a b) ->
  forall l a, fold_left f l a = fold_left g l a.
Proof. intros H l. induction l as [|x l IH]; intro a; cbn [fold_left]; [reflexivity|]. rewrite H. apply IH. Qed.

Lemma gen_bucketize_is_model src key vt kf_none kf :
  Gbucketize src key vt kf_none kf = m_bucketize key vt (fun k => kf_none || kf k) src.
Proof.
  unfold Gbucketize, m_bucketize. apply fold_left_ext. intros d val.
  unfold Gbucketize_step, bucket_step. destruct (kf_none || kf (key val)); reflexivity.
Qed.

(* ---- split_iter -------------------------------------------------------------- *)
Section Split.
  Variables (sepf : K -> bool) (none mnone : bool) (m : nat).
  Let mx : option nat := if mnone then None else Some m.
  Let step := Gsplit_iter_step none mnone m.

  Definition final (st : (K -> bool) * list K * nat * list (list K)) : list (list K) :=
    let '(_, cur, _, out) := st in
    if negb (is_nil cur) || negb none then out ++ [cur] else out.

  Lemma limit_eq cnt : negb mnone && (m <=? cnt) = limit_reached mx cnt.
  Proof. unfold mx. destruct mnone; reflexivity. Qed.

  (* sep_func already replaced by the constant-False function *)
  Lemma gen_split_off : forall src cur cnt out,
    final (fold_left step src ((fun _ : K => false), cur, cnt, out))
    = out ++ split_loop sepf none mx false cur cnt src.
  Proof.
    induction src as [|s r IH]; intros cur cnt out; cbn [fold_left split_loop].
    - cbn [final]. destruct (negb (is_nil cur) || negb none); [reflexivity|symmetry; apply app_nil_r].
    - unfold step at 2. unfold Gsplit_iter_step.
      rewrite limit_eq.
      destruct (limit_reached mx cnt), (negb (is_nil cur) || negb none); cbn [andb]; apply IH.
  Qed.

  Lemma gen_split_on : forall src cur cnt out,
    final (fold_left step src (sepf, cur, cnt, out))
    = out ++ split_loop sepf none mx true cur cnt src.
  Proof.
    induction src as [|s r IH]; intros cur cnt out; cbn [fold_left split_loop].
    - cbn [final]. destruct (negb (is_nil cur) || negb none); [reflexivity|symmetry; apply app_nil_r].
    - unfold step at 2. unfold Gsplit_iter_step.
      rewrite limit_eq.
      destruct (limit_reached mx cnt) eqn:L, (negb (is_nil cur) || negb none) eqn:C; cbn [andb].
      + (* sep_func switched off *) apply gen_split_off.
      + destruct (sepf s); cbn [andb].
        * rewrite negb_involutive.
          destruct (none && is_nil cur) eqn:E; [apply IH|]. rewrite Nat.add_1_r, IH, <- app_assoc. reflexivity.
        * apply IH.
      + destruct (sepf s); cbn [andb].
        * rewrite negb_involutive.
          destruct (none && is_nil cur) eqn:E; [apply IH|]. rewrite Nat.add_1_r, IH, <- app_assoc. reflexivity.
        * apply IH.
      + destruct (sepf s); cbn [andb].
        * rewrite negb_involutive.
          destruct (none && is_nil cur) eqn:E; [apply IH|]. rewrite Nat.add_1_r, IH, <- app_assoc. reflexivity.
        * apply IH.
  Qed.

  Lemma gen_split_scan_is_loop src :
    Gsplit_iter src sepf none mnone m = split_loop sepf none mx true [] 0 src.
  Proof.
    unfold Gsplit_iter. pose proof (gen_split_on src [] 0 []) as H. unfold step in H.
    destruct (fold_left (Gsplit_iter_step none mnone m) src (sepf, [], 0, [])) as [[[sf cur] cnt] out].
    cbn [final] in H. cbn [app] in H. rewrite <- H.
    destruct (negb (is_nil cur) || negb none); reflexivity.
  Qed.
End Split.

Definition is_sep_none (sep : sepk) : bool := match sep with SepNone => true | _ => false end.

(* the translated scanner, given the separator predicate the prelude builds,
   is the model of split / split_iter - every sep kind, every maxsplit *)
Lemma gen_split_is_model sep maxsplit src :
  Gsplit_iter src (sep_pred sep) (is_sep_none sep)
              (match maxsplit with None => true | Some _ => false end)
              (match maxsplit with None => 0 | Some k => k end)
  = m_split sep maxsplit src.
Proof.
  rewrite gen_split_scan_is_loop. unfold m_split, is_sep_none.
  destruct maxsplit; destruct sep; reflexivity.
Qed.

(* ---- redundant ---------------------------------------------------------------- *)
Section Redundant.
  Variables (kt : bool) (kf : K -> K).
  Let key : K -> K := fun i => if kt then kf i else i.

  Definition tup (s : red_state) := (r_seen s, r_order s, r_groups s).

  Lemma gen_red_step_false seen order rg i :
    Gredundant_groups_false_step kt kf (seen, order, rg) i
    = tup (red_step key false (mkRed seen order rg) i).
  Proof.
    unfold Gredundant_groups_false_step, red_step, tup, d_mem, d_at, key. cbn [r_seen r_order r_groups].
    destruct (d_get seen (if kt then kf i else i)) as [first|]; cbn [negb]; [|reflexivity].
    destruct (d_get rg (if kt then kf i else i)); reflexivity.
  Qed.

  Lemma gen_red_step_true seen order rg i :
    Gredundant_groups_true_step kt kf (seen, order, rg) i
    = tup (red_step key true (mkRed seen order rg) i).
  Proof.
    unfold Gredundant_groups_true_step, red_step, tup, d_mem, d_at, group_at, key. cbn [r_seen r_order r_groups].
    destruct (d_get seen (if kt then kf i else i)) as [first|]; cbn [negb]; [|reflexivity].
    destruct (d_get rg (if kt then kf i else i)); reflexivity.
  Qed.

  Lemma gen_red_fold_false : forall src s,
    fold_left (Gredundant_groups_false_step kt kf) src (tup s)
    = tup (fold_left (red_step key false) src s).
  Proof.
    induction src as [|i r IH]; intro s; [reflexivity|]. cbn [fold_left].
    destruct s as [a b c]. unfold tup at 1. cbn [r_seen r_order r_groups].
    rewrite gen_red_step_false. apply IH.
  Qed.

  Lemma gen_red_fold_true : forall src s,
    fold_left (Gredundant_groups_true_step kt kf) src (tup s)
    = tup (fold_left (red_step key true) src s).
  Proof.
    induction src as [|i r IH]; intro s; [reflexivity|]. cbn [fold_left].
    destruct s as [a b c]. unfold tup at 1. cbn [r_seen r_order r_groups].
    rewrite gen_red_step_true. apply IH.
  Qed.

  Lemma gen_redundant_false_is_model src :
    Gredundant_groups_false src kt kf = m_redundant key src.
  Proof.
    unfold Gredundant_groups_false, m_redundant, red_run.
    change ((@nil (K * K), @nil K, @nil (K * list K))) with (tup (mkRed [] [] [])).
    rewrite gen_red_fold_false. unfold tup. reflexivity.
  Qed.

  Lemma gen_redundant_true_is_model src :
    Gredundant_groups_true src kt kf = m_redundant_groups key src.
  Proof.
    unfold Gredundant_groups_true, m_redundant_groups, red_run.
    change ((@nil (K * K), @nil K, @nil (K * list K))) with (tup (mkRed [] [] [])).
    rewrite gen_red_fold_true. unfold tup. reflexivity.
  Qed.
End Redundant.

(* ---- chunked_iter --------------------------------------------------------------- *)
Section Chunked.
  Variables (size : nat) (do_fill : bool) (fill_val : K).
  Let fill : option K := if do_fill then Some fill_val else None.
  Let idf : list K -> list K := fun x => x.

  Lemma gen_chunked_while : forall fuel it out,
    option_map snd (Gchunked_iter_while fuel size do_fill fill_val idf (it, out))
    = option_map (app out) (chunk_loop fuel size fill it).
  Proof.
    induction fuel as [|fuel IH]; intros it out; [reflexivity|].
    cbn [Gchunked_iter_while chunk_loop]. unfold Gchunked_iter_step.
    destruct (firstn size it) as [|c cs] eqn:E.
    - cbn [is_nil negb option_map snd]. rewrite app_nil_r. reflexivity.
    - cbn [is_nil negb]. rewrite <- E. rewrite firstn_all.
      assert (Hcur : (if (length (firstn size it) <? size) && do_fill
                      then (true, (skipn size it, out ++ [idf (firstn size it ++ repeat fill_val (size - length (firstn size it)))]))
                      else (true, (skipn size it, out ++ [idf (firstn size it)])))
                     = (true, (skipn size it,
                               out ++ [match fill with
                                       | Some f => if length (firstn size it) <? size
                                                   then firstn size it ++ repeat f (size - length (firstn size it))
                                                   else firstn size it
                                       | None => firstn size it
                                       end]))).
      { unfold fill, idf. destruct do_fill, (length (firstn size it) <? size); reflexivity. }
      rewrite Hcur. rewrite IH.
      destruct (chunk_loop fuel size fill (skipn size it)) as [rest|]; cbn [option_map]; [|reflexivity].
      rewrite <- app_assoc. reflexivity.
  Qed.

  Lemma gen_chunked_is_loop fuel src :
    Gchunked_iter fuel src size do_fill fill_val idf = chunk_loop fuel size fill src.
  Proof.
    unfold Gchunked_iter. pose proof (gen_chunked_while fuel src []) as H.
    destruct (Gchunked_iter_while fuel size do_fill fill_val idf (src, [])) as [[it out]|];
      destruct (chunk_loop fuel size fill src); cbn [option_map snd app] in H; congruence.
  Qed.
End Chunked.
