(* C14: the clauses that the correspondence check evaluates on the implementation's
   observations (Check.c14_holds), as theorems about the model - compositions of the
   main results. *)
From Boltons Require Import Lib.Prelude Lib.C14_Text Spec.C14_Spec Model.C14_Model Check.C14_Check
  Proofs.C14_Sh Proofs.C14_Int Proofs.C14_Int2 Proofs.C14_Int3.
Open Scope Z_scope.

Lemma sort_dedup_nonneg L : all_nonneg L = true -> all_nonneg (sort_dedup L) = true.
Proof.
  intro H. unfold all_nonneg. apply forallb_forall. intros x Hx. apply (proj1 (sort_dedup_in L x)) in Hx.
  apply Z.leb_le. exact (all_nonneg_in L H x Hx).
Qed.

Lemma sort_dedup_idem L : sort_dedup (sort_dedup L) = sort_dedup L.
Proof. apply sort_dedup_ext. intro x. apply sort_dedup_in. Qed.

Lemma spec_ranges_dedup L : spec_ranges (sort_dedup L) = spec_ranges L.
Proof. unfold spec_ranges. rewrite sort_dedup_idem. reflexivity. Qed.

(* kind int, complement clause *)
Theorem complement_of_format d rd L (space : bool) start stop :
  all_nonneg L = true -> delims_ok [d] [rd] = true ->
  complement_int_list (format_int_list [d] [rd] L space) start stop [d] [rd]
  = Ok (spec_format [d] [rd] (spec_missing (sort_dedup L) start (window_end (sort_dedup L) start stop))).
Proof.
  intros Hn Hd. apply complement_spec. apply parse_format_roundtrip; assumption.
Qed.

(* kind int, ranges clause *)
Theorem int_ranges_of_format d rd L (space : bool) :
  all_nonneg L = true -> delims_ok [d] [rd] = true ->
  int_ranges_from_int_list (format_int_list [d] [rd] L space) [d] [rd] = Ok (spec_ranges L).
Proof.
  intros Hn Hd. rewrite <- spec_ranges_dedup. apply int_ranges_spec.
  - apply parse_format_roundtrip; assumption.
  - apply sort_dedup_nonneg. exact Hn.
Qed.

(* kind gzip: the text of gzip_bytes has the RFC 1952 frame *)
Open Scope N_scope.
Theorem gzip_bytes_frame (deflate : list N -> N -> list N) mtime b l :
  exists mid, gzip_bytes deflate mtime b l
              = [31; 139; 8] ++ mid ++ (le32 (crc32 b) ++ le32 (len_N b mod 4294967296)).
Proof.
  unfold gzip_bytes, gz_header, gz_trailer, gz_isize.
  eexists ([0] ++ mtime ++ [_; 255] ++ deflate b l). cbn [app]. rewrite <- !app_assoc. reflexivity.
Qed.
