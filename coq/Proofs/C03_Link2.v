(* C03 -> C02 link, part 2: every public operation of the C03 model, executed atomically,
   computes C02's pointer-level step (Model/C02_PtrCache.pstep1) -- hence, by C02's own
   theorems (C02_pointer_step, C02_inv, C02_refines ...), C02's list-level sequential model. *)
From Boltons Require Import Lib.Prelude Lib.C03_Syntax Lib.C03_Conc Model.C03_Model Proofs.C03_Link1.
From Boltons Require Lib.C02_Syntax Model.C02_Model Model.C02_PtrModel Model.C02_PtrCache.
From Boltons Require Proofs.C02_Lists Proofs.C02_Inv Proofs.C02_PtrLemmas Proofs.C02_PtrRep Proofs.C02_PtrSim.

Module I2 := Boltons.Proofs.C02_Inv.
Module R2 := Boltons.Proofs.C02_PtrRep.
Module Sim2 := Boltons.Proofs.C02_PtrSim.
Module Li2 := Boltons.Proofs.C02_Lists.

(* ---- a represented ring is closed ------------------------------------------------------------ *)
Lemma chain_next_in h : forall L, L2.chain h L ->
  forall x, In x (removelast L) -> In (P2.c_next (h x)) (tl L).
Proof.
  induction L as [|x0 r IH]; intros C x Hx; [destruct Hx|].
  destruct r as [|y r']; [destruct Hx|].
  destruct C as [C1 [C2 C3]].
  change (removelast (x0 :: y :: r')) with (x0 :: removelast (y :: r')) in Hx.
  destruct Hx as [<-|Hx].
  - rewrite C1. now left.
  - simpl. right. apply (IH C3 x Hx).
Qed.

Lemma chain_prev_in h : forall L, L2.chain h L ->
  forall x, In x (tl L) -> In (P2.c_prev (h x)) (removelast L).
Proof.
  induction L as [|x0 r IH]; intros C x Hx; [destruct Hx|].
  destruct r as [|y r']; [destruct Hx|].
  destruct C as [C1 [C2 C3]].
  change (removelast (x0 :: y :: r')) with (x0 :: removelast (y :: r')).
  simpl in Hx. destruct Hx as [<-|Hx].
  - rewrite C2. now left.
  - right. apply (IH C3 x). exact Hx.
Qed.

Lemma nodup_in_dget {B} (d : pydict B) k x :
  NoDup (map fst d) -> In (k, x) d -> d_get d k = Some x.
Proof.
  induction d as [|[k0 v0] r IH]; intros ND H; [destruct H|].
  simpl in *. inversion ND as [|? ? NI ND']; subst.
  destruct H as [E|H].
  - inversion E; subst. now rewrite Nat.eqb_refl.
  - destruct (Nat.eqb_spec k k0) as [->|NE]; [|now apply IH].
    exfalso. apply NI. change k0 with (fst (k0, x)). now apply in_map.
Qed.

Lemma dget_combine_in (ks : list K) : forall (ids : list nat) k x,
  d_get (combine ks ids) k = Some x -> In x ids.
Proof.
  induction ks as [|k0 r IH]; intros ids k x H; [discriminate|].
  destruct ids as [|i ir]; [discriminate|]. simpl in H.
  destruct (Nat.eqb k k0); [inversion H; now left|right; eapply IH; eauto].
Qed.

Lemma rep_closed pr l ids : L2.Rep pr l ids -> Closed pr (P2.pr_anchor pr :: ids).
Proof.
  intros [ND CH CE LK LND FR].
  assert (RL : removelast (P2.pr_anchor pr :: ids ++ [P2.pr_anchor pr]) = P2.pr_anchor pr :: ids).
  { change (P2.pr_anchor pr :: ids ++ [P2.pr_anchor pr]) with ((P2.pr_anchor pr :: ids) ++ [P2.pr_anchor pr]).
    apply removelast_last. }
  assert (TL : forall x, In x (P2.pr_anchor pr :: ids) <-> In x (ids ++ [P2.pr_anchor pr])).
  { intro x. rewrite in_app_iff. simpl. tauto. }
  constructor.
  - now left.
  - apply Forall_forall. intros [k x] H. simpl. right.
    pose proof (nodup_in_dget _ _ _ LND H) as G. rewrite LK in G.
    eapply dget_combine_in. exact G.
  - rewrite Forall_forall in FR. exact FR.
  - intros x Hx. rewrite <- RL. apply (chain_prev_in _ _ CH). simpl. now apply TL.
  - intros x Hx. apply TL. apply (chain_next_in _ _ CH x). now rewrite RL.
Qed.

(* ---- configurations --------------------------------------------------------------------------- *)
Definition cls2 (k : kind) : S2.cls := match k with LRI => S2.LRI | LRU => S2.LRU end.
Definition cfg2 (c : config) : S2.cfg := S2.mkCfg (cls2 (cf_kind c)) (cf_max c) (cf_miss c).

(* C03 shared state ~ C02 pointer-level cache (counters are not part of C03's state) *)
Definition CR (s : shared) (p : PC2.pcache) : Prop := SR s (PC2.ps_store p) (PC2.ps_ring p).

(* what the link lemmas need from C02's invariant Inv and representation relation PRel
   (nothing about the counters) *)
Record Lk (p : PC2.pcache) (m : M2.cache) : Prop := mkLk {
  lk_nd : NoDup (Li2.keys (M2.ring m));
  lk_len : length (M2.store m) = length (M2.ring m);
  lk_store : PC2.ps_store p = M2.store m;
  lk_rep : exists ids, L2.Rep (PC2.ps_ring p) (M2.ring m) ids
}.

Lemma lk_of c2 p m : I2.Inv c2 m -> Sim2.PRel p m -> Lk p m.
Proof. intros [NR NS SAME LEN CAP _] [ES RP _ _ _ _]. constructor; assumption. Qed.

Lemma sr_set_store s st pr st' :
  SR s st pr -> SR (mkShared (heap s) (anchor s) (lookup s) st') st' pr.
Proof. intro R. constructor; simpl; try apply R. reflexivity. Qed.

Lemma tail_dset {A} s st pr k v (a : A) :
  SR s st pr ->
  exists s', arun (do_ (ADSet k v) (Ret (Ok a))) s = (s', Ok a) /\ SR s' (d_set st k v) pr.
Proof.
  intro R. eexists. split; [reflexivity|]. constructor; simpl; try apply R.
  now rewrite (sr_store _ _ _ R).
Qed.

Lemma tail_ddel {A} s st pr e (kk : P (res A)) :
  SR s st pr ->
  if d_mem st e
  then exists s', arun (do_ (ADDel (FKey e)) kk) s = arun kk s' /\ SR s' (d_del st e) pr
  else arun (do_ (ADDel (FKey e)) kk) s = (s, Raise KeyError).
Proof.
  intro R. unfold do_, d_mem. rewrite arun_act. unfold sem. rewrite (sr_store _ _ _ R).
  destruct (d_get st e); [|reflexivity].
  eexists. split; [reflexivity|]. constructor; simpl; try apply R. reflexivity.
Qed.

Lemma eq_items_link (p : PC2.pcache) (l : list (K * V)) : dict_eq_items (PC2.ps_store p) l = PC2.pcache_eq p l.
Proof.
  unfold PC2.pcache_eq, M2.dict_eq, dict_eq_items.
  rewrite (Nat.eqb_sym (length l)).
  destruct (Nat.eqb (length (PC2.ps_store p)) (length l)); simpl; [|reflexivity].
  induction (PC2.ps_store p) as [|[k0 v0] t IHt]; simpl; [reflexivity|].
  rewrite IHt. f_equal.
Qed.

Section Ops.
  Variables (tb : lock_table) (c : config).
  Notation cls := (cf_kind c).
  Notation mx := (cf_max c).
  Notation om := (cf_miss c).
  Hypothesis Hmax : 1 <= cf_max c.

  Lemma sem_dlen s st pr : SR s st pr -> sem ADLen s = (s, XNat (length st)).
  Proof. intro R. unfold sem. now rewrite (sr_store _ _ _ R). Qed.

  (* __setitem__ *)
  Lemma setitem_link m p s k v :
    Lk p m -> CR s p ->
    exists s', arun (m_setitem tb cls mx k v) s = (s', snd (PC2.psetitem (cfg2 c) p k v))
               /\ CR s' (fst (PC2.psetitem (cfg2 c) p k v)).
  Proof.
    intros [NR LEN ES [ids RP]] R.
    pose proof (rep_closed _ _ _ RP) as C. set (S := P2.pr_anchor (PC2.ps_ring p) :: ids) in *.
    unfold CR in *. unfold m_setitem, locked. rewrite arun_with_lock, arun_bind.
    unfold PC2.psetitem. change (S2.c_max (cfg2 c)) with (cf_max c).
    pose proof (mv_sim _ S s _ k R C) as MV.
    destruct (d_get (M2.ring m) k) as [v0|] eqn:G.
    - destruct (R2.rep_move _ _ _ _ _ RP NR G) as [pr' [n [ids' [E _]]]].
      rewrite E in *. destruct MV as [s1 [E1 [R1 [C1 Hn]]]]. rewrite E1.
      rewrite arun_bindr.
      destruct (st_wr_val _ S s1 pr' n (Some v) (Ret (Ok tt)) R1 C1 Hn) as [s2 [E2 [R2' _]]].
      simpl val_fv in E2. rewrite E2. simpl arun at 1. cbn beta iota.
      destruct (tail_dset s2 _ _ k v tt R2') as [s3 [E3 R3]]. rewrite E3.
      eexists. split; [reflexivity|]. exact R3.
    - destruct (R2.rep_absent _ _ _ _ RP G) as [_ [E _]].
      rewrite E in *. rewrite MV. rewrite arun_bindr, arun_act, (sem_dlen _ _ _ R).
      cbn beta iota.
      destruct (length (PC2.ps_store p) <? mx) eqn:LT.
      + destruct (add_sim _ S s _ k v R C) as [s1 [E1 [R1 _]]]. rewrite E1.
        destruct (tail_dset s1 _ _ k v tt R1) as [s3 [E3 R3]]. rewrite E3.
        eexists. split; [reflexivity|]. exact R3.
      + rewrite arun_bindr.
        apply Nat.ltb_ge in LT. destruct (M2.ring m) as [|[e ve] rest] eqn:ER.
        { simpl in LEN. rewrite ES in LT. lia. }
        assert (Hk : ~ In k (Li2.keys ((e, ve) :: rest))) by now apply Li2.d_get_none_iff.
        destruct (R2.rep_evict _ _ _ _ _ k v RP NR Hk) as [pr' [ids' [E' _]]].
        rewrite E'. destruct (ev_sim _ S s _ k v pr' e R C E') as [s1 [E1 [R1 _]]].
        rewrite E1.
        pose proof (tail_ddel s1 _ _ e (Ret (Ok tt)) R1) as TD.
        destruct (d_mem (PC2.ps_store p) e).
        * destruct TD as [s2 [E2 R2']]. rewrite E2. simpl arun at 1. cbn beta iota.
          destruct (tail_dset s2 _ _ k v tt R2') as [s3 [E3 R3]]. rewrite E3.
          eexists. split; [reflexivity|]. exact R3.
        * rewrite TD. eexists. split; [reflexivity|]. exact R1.
  Qed.

  (* __getitem__ (LRI and LRU) *)
  Lemma getitem_link m p s k :
    Lk p m -> CR s p ->
    exists s', arun (m_getitem tb cls mx om k) s = (s', snd (PC2.pgetitem (cfg2 c) p k))
               /\ CR s' (fst (PC2.pgetitem (cfg2 c) p k)).
  Proof.
    intros LK R. pose proof LK as [NR LEN ES [ids RP]].
    pose proof (rep_closed _ _ _ RP) as C. set (S := P2.pr_anchor (PC2.ps_ring p) :: ids) in *.
    unfold CR in *. unfold m_getitem, locked. rewrite arun_with_lock.
    unfold PC2.pgetitem. change (S2.c_cls (cfg2 c)) with (cls2 cls). change (S2.c_on_miss (cfg2 c)) with om.
    (* the miss path, shared by both classes *)
    assert (MISS : exists s',
      arun (on_miss_path tb cls mx om k) s
      = (s', snd (let p1 := PC2.mkPC (PC2.ps_store p) (PC2.ps_ring p) (PC2.ps_hit p) (PC2.ps_miss p + 1)%N
                                      (PC2.ps_soft p) (PC2.ps_calls p) in
                  match om with
                  | None => (p1, Raise KeyError)
                  | Some f =>
                      let p2 := PC2.mkPC (PC2.ps_store p1) (PC2.ps_ring p1) (PC2.ps_hit p1) (PC2.ps_miss p1)
                                         (PC2.ps_soft p1) (k :: PC2.ps_calls p1) in
                      match PC2.psetitem (cfg2 c) p2 k (f k) with
                      | (p3, Ok _) => (p3, Ok (f k))
                      | (p3, Raise e) => (p3, Raise e)
                      end
                  end))
      /\ SR s' (PC2.ps_store (fst (let p1 := PC2.mkPC (PC2.ps_store p) (PC2.ps_ring p) (PC2.ps_hit p) (PC2.ps_miss p + 1)%N
                                      (PC2.ps_soft p) (PC2.ps_calls p) in
                  match om with
                  | None => (p1, Raise KeyError)
                  | Some f =>
                      let p2 := PC2.mkPC (PC2.ps_store p1) (PC2.ps_ring p1) (PC2.ps_hit p1) (PC2.ps_miss p1)
                                         (PC2.ps_soft p1) (k :: PC2.ps_calls p1) in
                      match PC2.psetitem (cfg2 c) p2 k (f k) with
                      | (p3, Ok _) => (p3, Ok (f k))
                      | (p3, Raise e) => (p3, Raise e)
                      end
                  end)))
               (PC2.ps_ring (fst (let p1 := PC2.mkPC (PC2.ps_store p) (PC2.ps_ring p) (PC2.ps_hit p) (PC2.ps_miss p + 1)%N
                                      (PC2.ps_soft p) (PC2.ps_calls p) in
                  match om with
                  | None => (p1, Raise KeyError)
                  | Some f =>
                      let p2 := PC2.mkPC (PC2.ps_store p1) (PC2.ps_ring p1) (PC2.ps_hit p1) (PC2.ps_miss p1)
                                         (PC2.ps_soft p1) (k :: PC2.ps_calls p1) in
                      match PC2.psetitem (cfg2 c) p2 k (f k) with
                      | (p3, Ok _) => (p3, Ok (f k))
                      | (p3, Raise e) => (p3, Raise e)
                      end
                  end)))).
    { unfold on_miss_path. cbv zeta. destruct om as [f|].
      - set (p2 := PC2.mkPC (PC2.ps_store p) (PC2.ps_ring p) (PC2.ps_hit p) (PC2.ps_miss p + 1)%N
                            (PC2.ps_soft p) (k :: PC2.ps_calls p)).
        assert (LK2 : Lk p2 m) by (constructor; simpl; auto; now exists ids).
        destruct (setitem_link m p2 s k (f k) LK2 R) as [s1 [E1 R1]].
        simpl PC2.ps_store. simpl PC2.ps_ring. simpl PC2.ps_hit. simpl PC2.ps_miss. simpl PC2.ps_soft. simpl PC2.ps_calls.
        fold p2. rewrite arun_bindr, E1.
        destruct (PC2.psetitem (cfg2 c) p2 k (f k)) as [p3 [[]|e]]; simpl in *.
        + eexists. split; [reflexivity|exact R1].
        + eexists. split; [reflexivity|exact R1].
      - eexists. split; [reflexivity|]. simpl. exact R. }
    destruct (d_get (M2.ring m) k) as [v|] eqn:G.
    - destruct cls; simpl cls2; cbv iota.
      + pose proof (R2.rep_find _ _ _ k RP NR) as F. rewrite G in F. rewrite F.
        unfold P2.p_find in F.
        rewrite arun_act, (sem_lkget _ _ _ _ R).
        destruct (d_get (P2.pr_lookup (PC2.ps_ring p)) k) as [n|] eqn:GL; [|discriminate].
        cbn beta iota. rewrite arun_stat, (rv_sim _ S s _ n R C (cl_lookup_get _ _ _ _ C GL)), F.
        eexists. split; [reflexivity|]. simpl. exact R.
      + destruct (R2.rep_move _ _ _ _ _ RP NR G) as [pr' [n [ids' [E [_ [VV _]]]]]].
        rewrite E, VV. rewrite arun_bind.
        pose proof (mv_sim _ S s _ k R C) as MV. rewrite E in MV.
        destruct MV as [s1 [E1 [R1 [C1 Hn]]]]. rewrite E1. cbn beta iota.
        rewrite arun_stat, (rv_sim _ S s1 _ n R1 C1 Hn), VV.
        eexists. split; [reflexivity|]. simpl. exact R1.
    - destruct (R2.rep_absent _ _ _ _ RP G) as [GL [E _]].
      destruct cls; simpl cls2; cbv iota.
      + pose proof (R2.rep_find _ _ _ k RP NR) as F. rewrite G in F. rewrite F.
        rewrite arun_act, (sem_lkget _ _ _ _ R).
        change (d_get (P2.pr_lookup (PC2.ps_ring p)) k = None) in GL. rewrite GL. cbn beta iota.
        exact MISS.
      + rewrite E. rewrite arun_bind.
        pose proof (mv_sim _ S s _ k R C) as MV. rewrite E in MV. rewrite MV. cbn beta iota.
        exact MISS.
  Qed.

  Lemma arun_ret_of {A} (f : A -> rv) (q : P (res A)) s :
    arun (ret_of f q) s = let '(s', r) := arun q s in (s', match r with Ok a => f a | Raise e => RExn e end).
  Proof. unfold ret_of. rewrite arun_bind. destruct (arun q s). reflexivity. Qed.

  (* the operations that exist in C02's syntax *)
  Definition tr (o : op) : option S2.op1 :=
    match o with
    | SetItem k v => Some (S2.SetItem k v)
    | GetItem k => Some (S2.GetItem k)
    | Get k d => Some (S2.Get k d)
    | DelItem k => Some (S2.DelItem k)
    | Pop k d => Some (S2.Pop k d)
    | PopItem => Some S2.PopItem
    | Clear => Some S2.Clear
    | SetDefault k d => Some (S2.SetDefault k d)
    | Update l => Some (S2.Update l [])
    | Ior l => Some (S2.IOr l)
    | EqDict l => Some (S2.EqDict l)
    | Len => Some S2.Len
    | Contains k => Some (S2.Contains k)
    | NeDict l => Some (S2.NeDict l)
    | EqSelf | Copy | Snapshot _ | CopyCopy => None
    end.

  Definition conv_out (o : op) (r : res S2.outv) : rv :=
    match r with
    | Raise e => RExn e
    | Ok S2.ONone => RNone
    | Ok (S2.OVal v) => RVal v
    | Ok (S2.OBool b) => match o with Ior _ => RNone | _ => RBool b end
    | Ok (S2.ONat n) => RNat n
    | Ok (S2.OItem k v) => RItem k v
    | Ok (S2.OKeys _) | Ok (S2.OItems _) => RExn crash
    end.

  (* d.popitem() on a dict with distinct keys: C02 deletes the last key, C03 drops the last item *)
  Lemma del_last (st : pydict V) k v r :
    NoDup (Li2.keys st) -> rev st = (k, v) :: r -> d_del st k = rev r.
  Proof.
    intros ND E. assert (ST : st = rev r ++ [(k, v)]).
    { rewrite <- (rev_involutive st), E. reflexivity. }
    rewrite ST in *. clear ST E.
    unfold Li2.keys in ND. rewrite map_app in ND. simpl in ND.
    apply NoDup_remove_2 in ND. rewrite app_nil_r in ND.
    induction (rev r) as [|[k0 v0] t IH]; simpl.
    - now rewrite Nat.eqb_refl.
    - simpl in ND. destruct (Nat.eqb_spec k k0) as [->|NE]; [exfalso; apply ND; now left|].
      f_equal. apply IH. intro H. apply ND. now right.
  Qed.

  Lemma premove_link m p s k (out : S2.outv) st' :
    Lk p m -> SR s st' (PC2.ps_ring p) -> st' = d_del (PC2.ps_store p) k ->
    exists s' r, arun (remove_from_ll k) s = (s', r)
               /\ CR s' (fst (PC2.premove_after p k out))
               /\ snd (PC2.premove_after p k out) = match r with Ok _ => Ok out | Raise e => Raise e end.
  Proof.
    intros [NR LEN ES [ids RP]] R ->. pose proof (rep_closed _ _ _ RP) as C.
    unfold PC2.premove_after, CR.
    pose proof (rm_sim _ _ s _ k R C) as RM.
    destruct (P2.p_remove (PC2.ps_ring p) k) as [r'|].
    - destruct RM as [s1 [E1 [R1 _]]]. rewrite E1. do 2 eexists. split; [reflexivity|]. simpl. split; [exact R1|reflexivity].
    - rewrite RM. do 2 eexists. split; [reflexivity|]. simpl. split; [exact R|reflexivity].
  Qed.

  Lemma setitems_link l : forall m p s,
    I2.Inv (cfg2 c) m -> Sim2.PRel p m -> CR s p ->
    exists s', arun (setitems tb cls mx l) s = (s', snd (PC2.psetitems (cfg2 c) p l))
               /\ CR s' (fst (PC2.psetitems (cfg2 c) p l)).
  Proof.
    induction l as [|[k v] r IH]; intros m p s I PR R; simpl.
    - eexists. split; [reflexivity|exact R].
    - rewrite arun_bindr.
      destruct (setitem_link m p s k v (lk_of _ _ _ I PR) R) as [s1 [E1 R1]]. rewrite E1.
      destruct (I2.setitem_sim (cfg2 c) m k v Hmax I) as [m' [Em [I' _]]].
      destruct (Sim2.psetitem_sim (cfg2 c) p m k v Hmax I PR) as [p' [Ep PR']].
      rewrite Em in Ep, PR'. simpl in Ep, PR'. rewrite Ep in *. simpl in *.
      apply (IH m' p' s1 I' PR' R1).
  Qed.

  Theorem step_link m p s o o1 :
    tr o = Some o1 -> I2.Inv (cfg2 c) m -> Sim2.PRel p m -> CR s p ->
    exists s', run_op tb c s o = (s', conv_out o (snd (PC2.pstep1 (cfg2 c) p o1)))
               /\ CR s' (fst (PC2.pstep1 (cfg2 c) p o1)).
  Proof.
    intros T I PR R. pose proof (lk_of _ _ _ I PR) as LK.
    unfold run_op, compile_cfg.
    destruct o; simpl in T; inversion T; subst o1; clear T; unfold compile; rewrite arun_ret_of; simpl PC2.pstep1.
    - (* SetItem *)
      destruct (setitem_link m p s k v LK R) as [s1 [E1 R1]]. rewrite E1.
      unfold PC2.plift. destruct (PC2.psetitem (cfg2 c) p k v) as [p' [[]|e]]; simpl in *;
        (eexists; split; [reflexivity|exact R1]).
    - (* GetItem *)
      destruct (getitem_link m p s k LK R) as [s1 [E1 R1]]. rewrite E1.
      unfold PC2.plift. destruct (PC2.pgetitem (cfg2 c) p k) as [p' [v|e]]; simpl in *;
        (eexists; split; [reflexivity|exact R1]).
    - (* Get *)
      unfold m_get, locked. rewrite arun_with_lock, arun_bind.
      destruct (getitem_link m p s k LK R) as [s1 [E1 R1]]. rewrite E1.
      destruct (PC2.pgetitem (cfg2 c) p k) as [p' [v|e]]; simpl in *.
      + eexists. split; [reflexivity|exact R1].
      + destruct e; simpl; (eexists; split; [reflexivity|exact R1]).
    - (* DelItem *)
      unfold m_delitem, locked. rewrite arun_with_lock.
      pose proof (tail_ddel s _ _ k (remove_from_ll k) R) as TD.
      destruct (d_mem (PC2.ps_store p) k).
      + destruct TD as [s1 [E1 R1]]. rewrite E1.
        destruct (premove_link m p s1 k S2.ONone _ LK R1 eq_refl) as [s2 [r [E2 [R2' O2]]]]. rewrite E2, O2.
        destruct r as [[]|e]; (eexists; split; [reflexivity|exact R2']).
      + rewrite TD. eexists. split; [reflexivity|exact R].
    - (* Pop *)
      unfold m_pop, locked. rewrite arun_with_lock, arun_act. unfold sem at 1.
      rewrite (sr_store _ _ _ R).
      destruct (d_get (PC2.ps_store p) k) as [v|] eqn:G; cbn beta iota.
      + rewrite arun_bindr.
        match goal with |- context [arun (remove_from_ll k) ?ss] =>
          assert (R1 : SR ss (d_del (PC2.ps_store p) k) (PC2.ps_ring p))
            by (constructor; simpl; try apply R; reflexivity) end.
        destruct (premove_link m p _ k (S2.OVal v) _ LK R1 eq_refl) as [s2 [r [E2 [R2' O2]]]]. rewrite E2, O2.
        destruct r as [[]|e]; (eexists; split; [reflexivity|exact R2']).
      + destruct d; (eexists; split; [reflexivity|exact R]).
    - (* PopItem *)
      unfold m_popitem, locked. rewrite arun_with_lock, arun_act. unfold sem at 1.
      rewrite (sr_store _ _ _ R).
      destruct (rev (PC2.ps_store p)) as [|[k v] r] eqn:G; cbn beta iota.
      + eexists. split; [reflexivity|exact R].
      + rewrite arun_bindr.
        assert (DL : d_del (PC2.ps_store p) k = rev r).
        { apply (del_last _ k v r); [|exact G]. destruct PR as [ES _ _ _ _ _]. rewrite ES. apply I. }
        match goal with |- context [arun (remove_from_ll k) ?ss] =>
          assert (R1 : SR ss (d_del (PC2.ps_store p) k) (PC2.ps_ring p))
            by (rewrite DL; constructor; simpl; try apply R; reflexivity) end.
        destruct (premove_link m p _ k (S2.OItem k v) _ LK R1 eq_refl) as [s2 [r0 [E2 [R2' O2]]]]. rewrite E2, O2.
        destruct r0 as [[]|e]; (eexists; split; [reflexivity|exact R2']).
    - (* Clear *)
      unfold m_clear, locked, do_. rewrite arun_with_lock, arun_act. unfold sem at 1. cbn beta iota.
      match goal with |- context [arun init_ll ?ss] =>
        assert (R1 : SR ss [] (PC2.ps_ring p)) by (constructor; simpl; try apply R; reflexivity) end.
      destruct (init_sim _ _ _ R1) as [s2 [E2 [R2' _]]]. rewrite E2.
      eexists. split; [reflexivity|]. exact R2'.
    - (* SetDefault *)
      unfold m_setdefault, locked. rewrite arun_with_lock, arun_bind.
      destruct (getitem_link m p s k LK R) as [s1 [E1 R1]]. rewrite E1.
      destruct (I2.getitem_sim (cfg2 c) m k Hmax I) as [m' [ov [Em [I' _]]]].
      destruct (Sim2.pgetitem_sim (cfg2 c) p m k Hmax I PR) as [p' [Ep PR']].
      rewrite Em in Ep, PR'. simpl in Ep, PR'. rewrite Ep in *. simpl in R1 |- *.
      destruct ov as [v|]; simpl.
      + eexists. split; [reflexivity|exact R1].
      + rewrite arun_bindr.
        assert (LK' : Lk (PC2.pbump_soft p') m').
        { destruct (lk_of _ _ _ I' PR') as [A B C' D]. constructor; simpl; assumption. }
        destruct (setitem_link m' (PC2.pbump_soft p') s1 k d LK' R1) as [s2 [E2 R2']]. rewrite E2.
        unfold PC2.plift. destruct (PC2.psetitem (cfg2 c) (PC2.pbump_soft p') k d) as [p'' [[]|e]]; simpl in *;
          (eexists; split; [reflexivity|exact R2']).
    - (* Update *)
      unfold m_update, locked. rewrite arun_with_lock, app_nil_r.
      destruct (setitems_link l m p s I PR R) as [s1 [E1 R1]]. rewrite E1.
      unfold PC2.plift. destruct (PC2.psetitems (cfg2 c) p l) as [p' [[]|e]]; simpl in *;
        (eexists; split; [reflexivity|exact R1]).
    - (* Ior *)
      unfold m_ior, m_update, locked. rewrite !arun_with_lock.
      destruct (setitems_link l m p s I PR R) as [s1 [E1 R1]]. rewrite E1.
      unfold PC2.plift. destruct (PC2.psetitems (cfg2 c) p l) as [p' [[]|e]]; simpl in *;
        (eexists; split; [reflexivity|exact R1]).
    - (* EqDict *)
      unfold m_eq_dict, locked. rewrite arun_with_lock, arun_act. unfold sem at 1. cbn beta iota.
      rewrite (sr_store _ _ _ R). simpl arun.
      eexists. split; [|exact R]. f_equal. simpl. f_equal.
      unfold PC2.pcache_eq, M2.dict_eq, dict_eq_items.
      rewrite (Nat.eqb_sym (length l)).
      destruct (Nat.eqb (length (PC2.ps_store p)) (length l)); simpl; [|reflexivity].
      induction (PC2.ps_store p) as [|[k0 v0] t IHt]; simpl; [reflexivity|].
      rewrite IHt. f_equal.
    - (* Len *)
      unfold m_len, locked. rewrite arun_with_lock, arun_act, (sem_dlen _ _ _ R). simpl arun.
      eexists. split; [reflexivity|exact R].
    - (* Contains *)
      unfold m_contains, locked. rewrite arun_with_lock, arun_act. unfold sem at 1. cbn beta iota.
      rewrite (sr_store _ _ _ R). simpl arun.
      eexists. split; [reflexivity|exact R].    - (* NeDict *)
      unfold m_ne, locked. rewrite arun_with_lock, arun_bind.
      unfold m_eq_dict, locked. rewrite arun_with_lock, arun_act. unfold sem at 1. cbn beta iota.
      rewrite (sr_store _ _ _ R). simpl arun. rewrite eq_items_link.
      eexists. split; [reflexivity|exact R].
  Qed.
End Ops.
