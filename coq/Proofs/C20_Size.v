(* C20: the TRUE size bound of lossy counting, in the form
      len <= 2 * w * (log2 bucket + 1),    bucket = total / w + 1,  w = int(1/threshold).
   (The documented bound 2/threshold = 2*w is refuted in C20_Proofs.size_refuted; what the
   algorithm really guarantees is logarithmic in the number of buckets.)
   Proof: every tracked entry (c, dl) satisfies bucket <= c + dl, and for every bucket index t
   the counts of the entries inserted after bucket t sum to at most the number of additions made
   since then.  Entries whose age (bucket - dl) lies in [2^K, 2^(K+1)) therefore number < 2w. *)
From Coq Require Import ZifyBool ZifyN ZifyNat.
From Boltons Require Import Lib.Prelude Model.C20_Model Spec.C20_Spec Proofs.C20_Proofs.
Open Scope N_scope.

Definition dl_of (e : K * (N * N)) : N := snd (snd e).
Definition newer (t : N) (e : K * (N * N)) : bool := t <=? dl_of e.
Definition Sf (f : K * (N * N) -> bool) (m : pydict (N * N)) : N :=
  sumN (map (fun e => if f e then cnt e else 0) m).
Definition St (m : pydict (N * N)) (t : N) : N := Sf (newer t) m.

Record Inv2 (s : tc) : Prop := mkInv2 {
  inv2_floor : forall k c dl, d_get (tc_map s) k = Some (c, dl) -> tc_bucket s <= c + dl;
  inv2_window : forall t, t + 1 <= tc_bucket s -> St (tc_map s) t + t * tc_w s <= tc_total s
}.

Lemma Sf_cons f e r : Sf f (e :: r) = (if f e then cnt e else 0) + Sf f r.
Proof. reflexivity. Qed.

Lemma St_bump m k b t : St (bump m k b) t <= St m t + 1.
Proof.
  unfold St. induction m as [|[k0 [c dl]] r IH]; cbn [bump].
  - rewrite Sf_cons. unfold Sf, newer, dl_of, cnt. cbn [map sumN fst snd]. destruct (t <=? b - 1); lia.
  - destruct (Nat.eqb k k0); rewrite !Sf_cons; unfold newer, dl_of, cnt in *; cbn [fst snd] in *;
      destruct (t <=? dl); lia.
Qed.

Lemma St_filter f m t : St (filter f m) t <= St m t.
Proof.
  unfold St. induction m as [|e r IH]; cbn [filter]; [lia|].
  destruct (f e); rewrite !Sf_cons; destruct (newer t e); lia.
Qed.

Lemma St_none m t : (forall e, In e m -> dl_of e < t) -> St m t = 0.
Proof.
  unfold St. induction m as [|e r IH]; intro H; [reflexivity|]. rewrite Sf_cons.
  assert (newer t e = false) as -> by (unfold newer; specialize (H e (or_introl eq_refl)); lia).
  rewrite IH; [reflexivity|]. intros e' He'. apply H. right. exact He'.
Qed.

Lemma inv2_init w : Inv2 (tc_init w).
Proof.
  constructor; cbn [tc_init tc_map tc_bucket tc_w tc_total d_get].
  - discriminate.
  - intros t Ht. assert (t = 0) by lia. subst. reflexivity.
Qed.

Lemma inv2_step w hist s k : 1 <= w -> Inv w hist s -> Inv2 s -> Inv2 (tc_add s k).
Proof.
  intros Hw [Iw It Ib Ind Ie Iu Is] [Jf Jw].
  set (T := tc_total s) in *. set (b := tc_bucket s) in *. set (m := tc_map s) in *.
  set (m' := bump m k b).
  assert (ND' : NoDup (map fst m')) by (apply bump_nodup; exact Ind).
  assert (Hb1 : 1 <= b) by (rewrite Ib; lia).
  assert (F' : forall k' c dl, d_get m' k' = Some (c, dl) -> b <= c + dl /\ dl + 1 <= b).
  { intros k' c dl H. unfold m' in H. rewrite d_get_bump in H.
    destruct (Nat.eqb k' k) eqn:E.
    - destruct (d_get m k) as [[c0 dl0]|] eqn:G; injection H as <- <-.
      + specialize (Jf _ _ _ G). specialize (Ie _ _ _ G). lia.
      + lia.
    - specialize (Jf _ _ _ H). specialize (Ie _ _ _ H). lia. }
  assert (W' : forall t, t + 1 <= b -> St m' t + t * w <= T + 1).
  { intros t Ht. pose proof (St_bump m k b t). specialize (Jw t Ht). rewrite Iw in Jw. unfold m'. lia. }
  unfold tc_add. fold T b m m'. rewrite Iw.
  destruct ((T + 1) mod w =? 0) eqn:C.
  - apply N.eqb_eq in C.
    assert (Hq : (T + 1) / w = T / w + 1) by (apply div_succ_exact; assumption).
    assert (Hexact : T + 1 = b * w).
    { pose proof (N.div_mod (T + 1) w ltac:(lia)) as E. rewrite C, Hq in E. rewrite Ib. lia. }
    constructor; cbn [tc_w tc_total tc_bucket tc_map].
    + intros k' c dl H. apply d_get_filter_some in H as [H Hk]; [|exact ND'].
      destruct (F' _ _ _ H) as [F1 _]. unfold keep in Hk. lia.
    + intros t Ht. pose proof (St_filter (keep b) m' t) as Hf.
      destruct (N.eq_dec t b) as [->|Hne].
      * (* nothing was inserted after bucket b yet *)
        assert (St m' b = 0) as Hz.
        { apply St_none. intros [k' [c dl]] Hin. unfold dl_of. cbn [snd].
          apply (d_get_In _ _ _ ND') in Hin. destruct (F' _ _ _ Hin). lia. }
        lia.
      * assert (t + 1 <= b) by lia. specialize (W' t H). lia.
  - constructor; cbn [tc_w tc_total tc_bucket tc_map].
    + intros k' c dl H. destruct (F' _ _ _ H). lia.
    + intros t Ht. specialize (W' t Ht). lia.
Qed.

Lemma inv2_adds w ks : 1 <= w -> forall hist s, Inv w hist s -> Inv2 s -> Inv2 (tc_adds s ks).
Proof.
  intro Hw. induction ks as [|k ks IH]; intros hist s I J; cbn [tc_adds fold_left]; [exact J|].
  apply (IH (hist ++ [k])); [apply inv_step|eapply inv2_step]; eassumption.
Qed.

Lemma inv2_reachable w ks : 1 <= w -> Inv2 (tc_adds (tc_init w) ks).
Proof. intro Hw. eapply inv2_adds; [exact Hw|apply inv_init|apply inv2_init]. Qed.

(* ---- counting ---------------------------------------------------------------------- *)
Lemma filter_split {A} (p q : A -> bool) l :
  length (filter p l) =
  (length (filter (fun x => p x && q x) l) + length (filter (fun x => p x && negb (q x)) l))%nat.
Proof.
  induction l as [|x r IH]; cbn [filter length]; [reflexivity|].
  destruct (p x), (q x); cbn [andb negb length]; lia.
Qed.

Lemma sum_ge_len P (f : K * (N * N) -> bool) m :
  (forall e, In e m -> f e = true -> P <= cnt e) ->
  P * N.of_nat (length (filter f m)) <= Sf f m.
Proof.
  induction m as [|e r IH]; intro H; cbn [filter length]; [unfold Sf; cbn; lia|].
  assert (IH' := IH (fun e' He' => H e' (or_intror He'))). rewrite Sf_cons.
  destruct (f e) eqn:E; [|lia].
  cbn [length]. specialize (H e (or_introl eq_refl) E). lia.
Qed.

Lemma Sf_mono (f g : K * (N * N) -> bool) m :
  (forall e, In e m -> f e = true -> g e = true) -> Sf f m <= Sf g m.
Proof.
  induction m as [|e r IH]; intro H; [unfold Sf; cbn; lia|].
  assert (IH' := IH (fun e' He' => H e' (or_intror He'))). rewrite !Sf_cons.
  destruct (f e) eqn:E.
  - rewrite (H e (or_introl eq_refl) E). lia.
  - destruct (g e); lia.
Qed.

Section Bound.
  Variables (w : N) (ks : list K).
  Hypothesis Hw : 1 <= w.
  Let s := tc_adds (tc_init w) ks.
  Let m := tc_map s.
  Let b := tc_bucket s.

  Definition age (e : K * (N * N)) : N := b - dl_of e.
  Definition younger (P : N) (e : K * (N * N)) : bool := age e <? P.

  Lemma entry_facts e : In e m -> 1 <= age e /\ age e <= cnt e /\ age e <= b.
  Proof.
    destruct e as [k [c dl]]. intro Hin.
    destruct (inv_reachable w ks Hw) as [_ _ Ib Ind Ie _ _].
    destruct (inv2_reachable w ks Hw) as [Jf _].
    apply (d_get_In _ _ _ Ind) in Hin. specialize (Ie _ _ _ Hin). specialize (Jf _ _ _ Hin).
    unfold age, dl_of, cnt, b, m, s in *. cbn [fst snd] in *. lia.
  Qed.

  (* entries whose age lies in [P, 2P) : fewer than 2w *)
  Lemma class_small P : 1 <= P ->
    N.of_nat (length (filter (fun e => younger (2 * P) e && negb (younger P e)) m)) < 2 * w.
  Proof.
    intro HP.
    destruct (inv_reachable w ks Hw) as [Iw It Ib _ _ _ _]. fold s in Iw, It, Ib.
    destruct (inv2_reachable w ks Hw) as [_ Jw]. fold s in Jw.
    set (cls := fun e => younger (2 * P) e && negb (younger P e)).
    set (n := N.of_nat (length (filter cls m))).
    set (t := b - (2 * P - 1)).
    assert (Hb : 1 <= b) by (unfold b; rewrite Ib; lia).
    assert (H1 : P * n <= Sf cls m).
    { apply sum_ge_len. intros e Hin Hc. destruct (entry_facts e Hin) as (_ & Hc2 & _).
      unfold cls, younger in Hc. lia. }
    assert (H2 : Sf cls m <= St m t).
    { apply Sf_mono. intros e Hin Hc. unfold cls, younger, age in Hc. unfold newer, t.
      destruct (entry_facts e Hin) as (Ha & _ & _). unfold age in Ha. lia. }
    assert (H3 : St m t + t * w <= tc_total s).
    { specialize (Jw t). rewrite Iw in Jw. apply Jw. unfold t. fold b. lia. }
    (* total < b * w *)
    assert (H4 : tc_total s < b * w).
    { unfold b. rewrite Ib. pose proof (N.div_mod (tc_total s) w ltac:(lia)).
      pose proof (N.mod_lt (tc_total s) w ltac:(lia)). nia. }
    assert (H5 : b <= t + (2 * P - 1)) by (unfold t; lia).
    assert (H6 : P * n < P * (2 * w)) by nia.
    apply N.mul_lt_mono_pos_l in H6; [exact H6|lia].
  Qed.

  Lemma younger_pow_bound Kk :
    N.of_nat (length (filter (younger (2 ^ Kk)) m)) <= 2 * w * Kk.
  Proof.
    induction Kk as [|Kk IH] using N.peano_ind.
    - (* age >= 1: nobody is younger than 1 *)
      assert (filter (younger (2 ^ 0)) m = []) as ->; [|cbn; lia].
      assert (H : forall e, In e m -> younger (2 ^ 0) e = false).
      { intros e Hin. destruct (entry_facts e Hin) as (Ha & _ & _). unfold younger. cbn. lia. }
      clear -H. induction m as [|e r IHr]; [reflexivity|]. cbn [filter].
      rewrite (H e (or_introl eq_refl)). apply IHr. intros e' He'. apply H. right. exact He'.
    - rewrite N.pow_succ_r'. set (P := 2 ^ Kk) in *.
      assert (HP : 1 <= P) by (unfold P; pose proof (N.pow_nonzero 2 Kk ltac:(lia)); lia).
      rewrite (filter_split (younger (2 * P)) (younger P) m).
      pose proof (class_small P HP) as Hc.
      assert (E : filter (fun x => younger (2 * P) x && younger P x) m = filter (younger P) m).
      { apply filter_ext. intro e. unfold younger. destruct (age e <? P) eqn:E1; [|apply andb_false_r].
        rewrite andb_true_r. lia. }
      rewrite E. lia.
  Qed.

  Lemma size_log_bound : tc_len s <= 2 * w * (N.log2 b + 1).
  Proof.
    unfold tc_len. fold m.
    assert (Hb : 1 <= b).
    { destruct (inv_reachable w ks Hw) as [_ _ Ib _ _ _ _]. unfold b. fold s in Ib. rewrite Ib. lia. }
    assert (E : filter (younger (2 ^ (N.log2 b + 1))) m = m).
    { assert (H : forall e, In e m -> younger (2 ^ (N.log2 b + 1)) e = true).
      { intros e Hin. destruct (entry_facts e Hin) as (_ & _ & Hab). unfold younger.
        pose proof (N.log2_spec b ltac:(lia)) as [_ Hl]. rewrite <- N.add_1_r in Hl. lia. }
      clear -H. induction m as [|e r IHr]; [reflexivity|]. cbn [filter].
      rewrite (H e (or_introl eq_refl)). f_equal. apply IHr. intros e' He'. apply H. right. exact He'. }
    rewrite <- E at 1. apply younger_pow_bound.
  Qed.
End Bound.

Lemma size_log_bound_stream w ks : 1 <= w ->
  tc_len (tc_adds (tc_init w) ks) <= 2 * w * (N.log2 (N.of_nat (length ks) / w + 1) + 1).
Proof. intro Hw. rewrite <- (bucket_formula w ks Hw). apply size_log_bound. exact Hw. Qed.

(* the refinement the correspondence check relies on, with the size clause that is true *)
Lemma history_meets_spec_and_size w ops i n probe : 1 <= w ->
  let pre := firstn i ops in
  let o := observe (fold_left tc_step pre (tc_init w)) n probe in
  spec_core w (flat_map op_keys pre) (o_total o) (o_items o) (o_common o) (o_uncommon o)
            (o_mc_all o) (o_mc_n o) n (o_len o) probe (o_probe o) (o_keys o) (o_values o) (o_elems o)
  && spec_size_log w (flat_map op_keys pre) (o_len o) = true.
Proof.
  intros Hw pre o. apply andb_true_intro. split; [apply history_meets_spec; exact Hw|].
  unfold o, spec_size_log. rewrite steps_as_adds. cbn [observe o_len]. apply N.leb_le.
  apply size_log_bound_stream. exact Hw.
Qed.
