(* Printing: ParsedException.to_string, the interpreter's folding, and
   ExceptionInfo's formatter against the standard format. *)
From Boltons Require Import Lib.Prelude Lib.C16_Text Spec.C16_Spec Model.C16_Model
  Proofs.C16_Text Proofs.C16_Regex.
Open Scope N_scope.

(* ---- to_string --------------------------------------------------------------------------------- *)
Lemma ts_repeated_std count : ts_repeated count = flush_repeat count.
Proof.
  unfold ts_repeated, flush_repeat. rewrite (N.leb_antisym 3 count). destruct (3 <? count); reflexivity.
Qed.

Lemma ts_fold_std fs : forall last count, ts_fold last count fs = fold_entries last count fs.
Proof.
  induction fs as [|f fs IH]; intros last count; cbn [ts_fold fold_entries].
  - apply ts_repeated_std.
  - change fr_same with same_place.
    destruct (match last with Some l => same_place l f | None => false end).
    + rewrite (N.leb_antisym 3 (count + 1)). destruct (3 <? count + 1); cbn [negb app]; rewrite IH; reflexivity.
    + rewrite ts_repeated_std, IH. reflexivity.
Qed.

Definition has_funcs (fs : list frame) : bool :=
  forallb (fun f => match f_func f with Some _ => true | None => false end) fs.

(* to_string prints the interpreter's rendering (identical consecutive entries folded) *)
Theorem to_string_std (T : tb) : has_funcs (t_frames T) = true -> to_string T = Ok (std_text T).
Proof.
  intro H.
  assert (E : forallb (fun f => is_some (f_func f)) (t_frames T) = true).
  { unfold has_funcs in H. rewrite forallb_forall in *. intros f Hf. specialize (H f Hf).
    destruct (f_func f); [reflexivity|discriminate]. }
  unfold to_string. rewrite E, ts_fold_std. reflexivity.
Qed.

(* ---- folding -------------------------------------------------------------------------------------- *)
Lemma fold_entries_plain fs : forall last count,
  long_repeat_from last count fs = false -> count <= 3 ->
  fold_entries last count fs = flat_map entry_lines fs.
Proof.
  induction fs as [|f fs IH]; intros last count H Hc; cbn [fold_entries long_repeat_from flat_map] in *.
  - unfold flush_repeat. destruct (3 <? count) eqn:E; [apply N.ltb_lt in E; lia|reflexivity].
  - destruct (match last with Some l => same_place l f | None => false end).
    + apply orb_false_iff in H as [H1 H2]. rewrite H1. rewrite (IH last (count + 1) H2); [reflexivity|].
      apply N.ltb_ge in H1. exact H1.
    + unfold flush_repeat. destruct (3 <? count) eqn:E; [apply N.ltb_lt in E; lia|].
      cbn [app]. rewrite (IH (Some f) 1 H); [reflexivity|lia].
Qed.

Theorem std_text_plain (T : tb) : long_repeat (t_frames T) = false -> std_text T = plain_text T.
Proof.
  intro H. unfold std_text, std_lines, plain_text, plain_lines, long_repeat in *.
  rewrite (fold_entries_plain _ None 0 H) by lia. reflexivity.
Qed.

Theorem to_string_plain (T : tb) :
  has_funcs (t_frames T) = true -> long_repeat (t_frames T) = false -> to_string T = Ok (plain_text T).
Proof. intros H Hr. rewrite (to_string_std T H), (std_text_plain T Hr). reflexivity. Qed.

(* a recursion of depth 5 *)
Definition rec_frame : frame := mkFrame [114;46;112;121] [55] (Some [102]) [102;40;41].   (* r.py 7 f f() *)
Definition rec_tb : tb := mkTb (repeat rec_frame 5) [69] [].

(* ---- strip / rstrip ---------------------------------------------------------------------------------- *)
Section Strip2.
  Context (C : cc).

  Lemma lstrip_shape s : match lstrip C s with [] => True | c :: _ => is_sp C c = false end.
  Proof.
    induction s as [|c s IH]; cbn [lstrip]; [exact I|]. destruct (is_sp C c) eqn:E; [exact IH|exact E].
  Qed.

  Lemma rstrip_shape s : rstrip C s = [] \/ exists t c, rstrip C s = t ++ [c] /\ is_sp C c = false.
  Proof.
    unfold rstrip. pose proof (lstrip_shape (rev s)) as H. destruct (lstrip C (rev s)) as [|c r].
    - left. reflexivity.
    - right. exists (rev r), c. split; [reflexivity|exact H].
  Qed.

  Lemma lstrip_keeps_last t c : is_sp C c = false -> exists u, lstrip C (t ++ [c]) = u ++ [c].
  Proof.
    intro H. induction t as [|x t IH]; cbn [app lstrip].
    - rewrite H. exists []. reflexivity.
    - destruct (is_sp C x); [exact IH|]. exists (x :: t). reflexivity.
  Qed.

  Lemma rstrip_app_space a w : forallb (is_sp C) w = true -> rstrip C (a ++ w) = rstrip C a.
  Proof.
    intro H. unfold rstrip. rewrite rev_app_distr. rewrite lstrip_spaces; [reflexivity|].
    rewrite forallb_forall in *. intros x Hx. apply H. apply in_rev. exact Hx.
  Qed.

  (* the line boltons prints (strip of the rstripped linecache line) is the line the
     interpreter prints (strip of the linecache line), and both decide alike whether
     there is a source line at all *)
  Lemma strip_rstrip s :
    strip C (rstrip C s) = strip C s /\ is_nil (rstrip C s) = is_nil (strip C s).
  Proof.
    destruct (rstrip_spec C s) as [w [Es Hw]].
    destruct (rstrip_shape s) as [E|[t [c [E Hc]]]].
    - rewrite E in *. cbn [app] in Es. subst s. unfold strip.
      rewrite (lstrip_all_space C w Hw). split; reflexivity.
    - rewrite E in *. destruct (lstrip_keeps_last t c Hc) as [u Eu].
      assert (S1 : strip C (t ++ [c]) = u ++ [c]).
      { unfold strip. rewrite Eu. apply rstrip_unit. exact Hc. }
      assert (S2 : strip C s = u ++ [c]).
      { unfold strip. rewrite Es at 1. rewrite (lstrip_app_space C (t ++ [c]) w Hw), Eu.
        destruct (u ++ [c]) eqn:Euc; [destruct u; discriminate|]. rewrite <- Euc.
        rewrite (rstrip_app_space (u ++ [c]) w Hw). apply rstrip_unit. exact Hc. }
      rewrite S1, S2. split; [reflexivity|]. destruct t, u; reflexivity.
  Qed.
End Strip2.

(* ---- ExceptionInfo.get_formatted ------------------------------------------------------------------------- *)
Lemma join_terminated A x :
  join NL (A ++ [x]) = flat_map (fun l => l ++ NL) A ++ x.
Proof.
  induction A as [|a A IH]; [reflexivity|]. cbn [app flat_map].
  rewrite join_cons by (destruct A; discriminate). rewrite IH, <- !app_assoc. reflexivity.
Qed.

Lemma flat_map_flat_map {X Y Z} (f : X -> list Y) (g : Y -> list Z) l :
  flat_map g (flat_map f l) = flat_map (fun x => flat_map g (f x)) l.
Proof. induction l as [|x l IH]; [reflexivity|]. cbn [flat_map]. rewrite flat_map_app, IH. reflexivity. Qed.

Section Live.
  Context (C : cc).

  Lemma tb_frame_str_std l :
    tb_frame_str C (cp_of_live l) = flat_map (fun x => x ++ NL) (entry_lines (std_frame C l)).
  Proof.
    unfold tb_frame_str, cp_of_live, std_frame, entry_lines, frame_line, src_lines, deferred_str.
    cbn [cp_path cp_lineno cp_func cp_raw f_path f_lineno f_func f_src func_of flat_map].
    destruct (strip_rstrip C (lv_raw l)) as [E1 E2]. rewrite E1, E2.
    change M_file2 with L_file2. change M_qline with L_qline. change M_in with L_in.
    change M_nl with NL. change M_ind4 with L_ind4.
    destruct (is_nil (strip C (lv_raw l))); cbn [flat_map app]; rewrite <- ?app_assoc; cbn [app];
      rewrite ?app_nil_r; rewrite <- ?app_assoc; reflexivity.
  Qed.

  Lemma ei_type_std e : ei_type (ex_module e) (ex_qualname e) = std_type e.
  Proof.
    unfold ei_type, std_type, M_plain_mods. destruct (ex_module e); [|reflexivity].
    cbn [existsb]. rewrite orb_false_r. reflexivity.
  Qed.

  (* the traceback ExceptionInfo holds: the interpreter's entries and type, its own message *)
  Definition ei_tb (fs : list live_frame) (e : live_exc) : tb :=
    mkTb (map (std_frame C) fs) (std_type e) (ei_msg e).

  Lemma cp_same_std a b : cp_same (cp_of_live a) (cp_of_live b) = same_place (std_frame C a) (std_frame C b).
  Proof.
    unfold cp_same, same_place, cp_of_live, std_frame.
    cbn [cp_path cp_lineno cp_func f_path f_lineno func_of f_func]. f_equal. f_equal.
    destruct (lv_lineno a =? lv_lineno b) eqn:E.
    - apply N.eqb_eq in E. rewrite E. symmetry. apply str_eqb_refl.
    - symmetry. destruct (str_eqb (dec (lv_lineno a)) (dec (lv_lineno b))) eqn:E2; [|reflexivity].
      apply str_eqb_eq, dec_inj in E2. apply N.eqb_neq in E. contradiction.
  Qed.

  Lemma repeated_str_std count : repeated_str count = flat_map (fun x => x ++ NL) (flush_repeat count).
  Proof.
    unfold repeated_str, flush_repeat. rewrite (N.leb_antisym 3 count). destruct (3 <? count); cbn [negb flat_map]; [|reflexivity].
    unfold repeat_line. change M_prev1 with L_prev1. change M_prev2 with L_prev2. change M_nl with NL.
    rewrite app_nil_r, <- !app_assoc. reflexivity.
  Qed.

  Lemma tbi_fold_std fs : forall last count,
    tbi_fold C (option_map cp_of_live last) count (map cp_of_live fs) =
    flat_map (fun x => x ++ NL) (fold_entries (option_map (std_frame C) last) count (map (std_frame C) fs)).
  Proof.
    induction fs as [|l fs IH]; intros last count; cbn [map tbi_fold fold_entries].
    - apply repeated_str_std.
    - assert (S : match option_map cp_of_live last with Some l0 => cp_same l0 (cp_of_live l) | None => false end
                  = match option_map (std_frame C) last with Some l0 => same_place l0 (std_frame C l) | None => false end).
      { destruct last as [l0|]; [apply cp_same_std|reflexivity]. }
      rewrite S. destruct (match option_map (std_frame C) last with Some l0 => same_place l0 (std_frame C l) | None => false end).
      + rewrite (N.leb_antisym 3 (count + 1)). destruct (3 <? count + 1); cbn [negb].
        * cbn [app]. apply IH.
        * rewrite flat_map_app, <- IH, tb_frame_str_std. reflexivity.
      + rewrite !flat_map_app, repeated_str_std, tb_frame_str_std.
        change (Some (cp_of_live l)) with (option_map cp_of_live (Some l)).
        change (Some (std_frame C l)) with (option_map (std_frame C) (Some l)). rewrite IH. reflexivity.
  Qed.

  (* ExceptionInfo's text is the interpreter's rendering of it, whatever the call chain *)
  Theorem ei_text_std fs e : ei_text C fs e = std_text (ei_tb fs e).
  Proof.
    unfold ei_text, ei_formatted, tbi_formatted, std_text, std_lines, ei_tb. cbn [t_frames t_type t_msg].
    rewrite ei_type_std.
    change (L_header :: fold_entries None 0 (map (std_frame C) fs) ++ [exc_text (std_type e) (ei_msg e)])
      with ((L_header :: fold_entries None 0 (map (std_frame C) fs)) ++ [exc_text (std_type e) (ei_msg e)]).
    rewrite join_terminated. cbn [flat_map].
    change M_header with L_header. change M_nl with NL. rewrite <- !app_assoc. f_equal. f_equal.
    f_equal. exact (tbi_fold_std fs None 0).
  Qed.

  (* in the ordinary case (str(value) works, no display-time suggestion) that is the
     traceback the interpreter shows *)
  Lemma ei_msg_base e : ei_msg e = std_base_msg e.
  Proof. unfold ei_msg, std_base_msg. destruct (ex_str e); reflexivity. Qed.

  Lemma plain_exc_tb fs e : plain_exc e = true -> ei_tb fs e = std_tb C fs e.
  Proof.
    unfold plain_exc, ei_tb, std_tb, std_msg, hint_of. intro H. rewrite H, app_nil_r, ei_msg_base. reflexivity.
  Qed.

  (* Callpoint.line against FrameSummary.line *)
  Lemma callpoint_line l : strip C (deferred_str C (lv_raw l)) = f_src (std_frame C l).
  Proof. unfold deferred_str, std_frame. cbn [f_src]. apply strip_rstrip. Qed.
End Live.

(* when linecache is a function of (file, line) at the moment of observation -- entries at the same
   file and line carry the same raw text -- the interpreter's entries are source-consistent, which is
   what reading folded entries back needs *)
Fixpoint raw_consistent (fs : list live_frame) : bool :=
  match fs with
  | [] => true
  | a :: r => match r with
              | [] => true
              | b :: _ => (negb (str_eqb (lv_file a) (lv_file b) && (lv_lineno a =? lv_lineno b))
                           || str_eqb (lv_raw a) (lv_raw b)) && raw_consistent r
              end
  end.

Lemma live_consistent C fs : raw_consistent fs = true -> src_consistent (map (std_frame C) fs) = true.
Proof.
  induction fs as [|a fs IH]; [reflexivity|]. destruct fs as [|b fs]; [reflexivity|].
  intro H. change (raw_consistent (a :: b :: fs)) with
    ((negb (str_eqb (lv_file a) (lv_file b) && (lv_lineno a =? lv_lineno b)) || str_eqb (lv_raw a) (lv_raw b))
     && raw_consistent (b :: fs)) in H.
  apply andb_true_iff in H as [H1 H2].
  change (src_consistent (map (std_frame C) (a :: b :: fs))) with
    ((negb (same_place (std_frame C a) (std_frame C b)) || str_eqb (f_src (std_frame C a)) (f_src (std_frame C b)))
     && src_consistent (map (std_frame C) (b :: fs))).
  rewrite (IH H2), andb_true_r.
  destruct (same_place (std_frame C a) (std_frame C b)) eqn:S; [|reflexivity]. cbn [negb orb].
  unfold same_place, std_frame in S. cbn [f_path f_lineno func_of f_func] in S.
  apply andb_true_iff in S as [S _]. apply andb_true_iff in S as [S1 S2].
  apply str_eqb_eq, dec_inj in S2. rewrite S1, S2, N.eqb_refl in H1. cbn [andb negb orb] in H1.
  apply str_eqb_eq in H1. unfold std_frame. cbn [f_src]. rewrite H1. apply str_eqb_refl.
Qed.
