(* The law records of Lib/C15_Float.v are satisfiable: exact integer arithmetic
   is an instance (so the generic theorems are not vacuous).  The instance that
   matters, binary64, is in Proofs/C15_Prim.v. *)
From Coq Require Import ZArith Lia Bool.
From Boltons Require Import Lib.Prelude Lib.C15_Float.
Open Scope Z_scope.

Definition z_ops : fops Z :=
  mkFops Z Z.mul Z.sub Z.leb Z.ltb Z.eqb Z.eqb (fun _ => true) 0 1 (-1).

Lemma z_order_laws : order_laws z_ops.
Proof.
  constructor; unfold num; simpl; intros;
    repeat match goal with
           | H : (_ <=? _) = true |- _ => apply Z.leb_le in H
           | H : (_ <? _) = true |- _ => apply Z.ltb_lt in H
           end;
    try (apply Z.leb_le; lia).
  - destruct (Z.leb_spec x y); [left|right]; auto. apply Z.leb_le. lia.
  - destruct (Z.ltb_spec x y), (Z.leb_spec x y), (Z.leb_spec y x); simpl; auto; lia.
  - destruct (Z.eqb_spec x y), (Z.leb_spec x y), (Z.leb_spec y x); simpl; auto; lia.
  - lia.
  - reflexivity.
  - apply Z.eqb_eq.
Qed.

Lemma z_grow_laws : grow_laws z_ops.
Proof.
  constructor; simpl; intros x f Hx Hf.
  apply Z.ltb_lt in Hx. apply Z.leb_le in Hf. apply Z.leb_le. nia.
Qed.

Lemma z_jitter_laws : jitter_laws z_ops.
Proof.
  constructor; unfold fin, num; simpl; intros;
    repeat match goal with
           | H : (_ <=? _) = true |- _ => apply Z.leb_le in H
           | H : (_ =? _) = true |- _ => apply Z.eqb_eq in H
           end;
    repeat split; auto; try (apply Z.leb_le; nia).
Qed.
