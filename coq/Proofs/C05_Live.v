(* C05 "so that a retry can succeed": a save that meets no failure and is not
   refused by its configuration completes (progress), for every valid behaviour
   of the buffering oracle. *)
From Boltons Require Import Lib.Prelude Model.C04_Model Spec.C04_Spec Check.C04_Check Proofs.C04_Hoare Proofs.C04_Inv.
Open Scope nat_scope.
Arguments upd {A} f k v x : simpl never.

Lemma blen_app a b : blen (a ++ b) = (blen a + blen b)%N.
Proof. unfold blen. rewrite app_length. lia. Qed.

Definition NoE : exn -> world -> Prop := fun _ _ => False.
Definition NoC : world -> Prop := fun _ => False.

Section Live.
  Variable c : cfg.
  Notation dest := (c_dest c).
  Notation part := (c_part c).
  Hypothesis Hdp : dest <> part.
  Hypothesis Hvalid : c_fdopen_invalid c = false.

  Definition RW (phi : fs -> fstate -> Prop) (w : world) : Prop :=
    w_sched w = [] /\ w_crash w = None /\ phi (w_fs w) (w_file w).

  Lemma prim_prog e (phi psi : fs -> fstate -> Prop) :
    (forall um s f, phi s f ->
        fst (fst (sem um e s f)) = None /\ psi (snd (fst (sem um e s f))) (snd (sem um e s f))) ->
    triple (RW phi) (prim_f e None) (fun _ => RW psi) NoE NoC.
  Proof.
    intros H w (Hs & Hc & Hp). unfold prim_f, crash_now. rewrite Hc.
    unfold step, fault_of, interfere. rewrite Hs. cbn [sched_fault sched_appear].
    destruct (H (w_umask w) _ _ Hp) as (Hr & Hpsi).
    rewrite Hr. split; [exact Hs|]. split; [exact Hc|]. exact Hpsi.
  Qed.

  Definition Dok (s : fs) : Prop := c_overwrite c = true \/ f_dir s dest = None.
  Definition Pok (s : fs) : Prop := c_overwrite_part c = true \/ f_dir s part = None.

  Definition phi_init : fs -> fstate -> Prop := fun s f => f = FNone /\ Dok s /\ Pok s.
  Definition phi_init2 : fs -> fstate -> Prop := fun s f => f = FNone /\ Dok s /\ f_dir s part = None.
  Definition phi_open (vl bl : N) : fs -> fstate -> Prop := fun s f =>
    exists p buf, f = FOpen p buf /\ f_dir s part = Some p /\ Dok s /\
                  blen (i_vol (f_ino s p)) = vl /\ blen buf = bl.
  Definition phi_closed : fs -> fstate -> Prop := fun s f =>
    f = FClosed /\ (exists p, f_dir s part = Some p) /\ Dok s.
  Definition phi_linked : fs -> fstate -> Prop := fun s f => f = FClosed /\ exists p, f_dir s part = Some p.
  Definition phi_done : fs -> fstate -> Prop := fun s f => True.

  Lemma dok_keep s s' : f_dir s' dest = f_dir s dest -> Dok s -> Dok s'.
  Proof. intros E [H|H]; [left; exact H|right; congruence]. Qed.

  Lemma catch_never {A} (m : M A) (h : exn -> M A) P Q :
    triple P m Q NoE NoC -> triple P (catch m h) Q NoE NoC.
  Proof.
    intros Hm. eapply t_catch with (E' := NoE); [exact Hm|]. intro e.
    apply (t_false (h e) Q NoE NoC).
  Qed.

  Definition phi_stale : fs -> fstate -> Prop := fun s f =>
    f = FNone /\ Dok s /\ exists i, f_dir s part = Some i.

  Lemma unlink_live :
    triple (RW phi_stale) (prim (EUnlink part)) (fun _ => RW phi_init2) NoE NoC.
  Proof.
    apply prim_prog. intros um s f (Hf & Hd & (i & Hi)). cbn [sem]. rewrite Hi. cbn [fst snd].
    split; [reflexivity|]. split; [exact Hf|]. split.
    - eapply dok_keep; [|exact Hd]. cbn. apply upd_neq. congruence.
    - cbn. apply upd_eq.
  Qed.

  Lemma open_live perms :
    triple (RW phi_init2) (prim (EOpen part true perms)) (fun _ => RW (phi_open 0 0)) NoE NoC.
  Proof.
    apply prim_prog. intros um s f (Hf & Hd & Hn). cbn [sem]. rewrite Hn. cbn [fst snd].
    split; [reflexivity|]. exists (f_next s), []. split; [reflexivity|].
    unfold fs_create. cbn [f_dir f_ino]. rewrite !upd_eq. split; [reflexivity|]. split; [|split; reflexivity].
    eapply dok_keep; [|exact Hd]. cbn. apply upd_neq. congruence.
  Qed.

  Lemma fdopen_live vl bl :
    triple (RW (phi_open vl bl)) (fdopen c) (fun _ => RW (phi_open vl bl)) NoE NoC.
  Proof.
    unfold fdopen. rewrite Hvalid. apply prim_prog. intros um s f H. cbn. auto.
  Qed.

  Lemma chmod_live vl bl perms :
    triple (RW (phi_open vl bl)) (prim (EChmod part perms)) (fun _ => RW (phi_open vl bl)) NoE NoC.
  Proof.
    apply prim_prog. intros um s f (p & buf & Hf & Hp & Hd & Hv & Hb). cbn [sem]. rewrite Hp. cbn [fst snd].
    split; [reflexivity|]. exists p, buf. split; [exact Hf|]. unfold set_mode. cbn [f_dir f_ino].
    rewrite upd_eq. cbn. auto.
  Qed.

  Lemma open_part_live :
    triple (RW phi_init2) (open_part_file c) (fun _ => RW (phi_open 0 0)) NoE NoC.
  Proof.
    unfold open_part_file.
    eapply t_bind with (Q := fun _ => RW phi_init2).
    - destruct (c_file_perms c); [apply t_ret; auto|].
      eapply t_bind with (Q := fun _ => RW phi_init2); [apply t_read; auto|]. intro st. apply t_ret. auto.
    - intros [perms do_chmod].
      eapply t_bind; [apply open_live|]. intros ?; cbv beta.
      eapply t_bind with (Q := fun _ => RW (phi_open 0 0)).
      + apply catch_never. apply fdopen_live.
      + intros ?; cbv beta. destruct do_chmod; [|apply t_ret; auto].
        apply catch_never. apply chmod_live.
  Qed.

  Lemma setup_live :
    triple (RW phi_init) (setup c) (fun _ => RW (phi_open 0 0)) NoE NoC.
  Proof.
    intros w Hw. pose proof Hw as (Hs & Hc & (Hf & Hd & Hp)).
    unfold setup, bind at 1, lexists at 1.
    assert (Er : (match f_dir (w_fs w) dest with Some _ => true | None => false end) && negb (c_overwrite c) = false).
    { destruct Hd as [Ho|Hn]; [rewrite Ho; apply andb_false_r|rewrite Hn; reflexivity]. }
    rewrite Er. unfold bind at 1, lexists at 1.
    assert (T : forall pe, pe = match f_dir (w_fs w) part with Some _ => true | None => false end ->
                triple (fun w' => w' = w)
                  ((if c_overwrite_part c && pe then prim (EUnlink part) else ret tt);;; open_part_file c)
                  (fun _ => RW (phi_open 0 0)) NoE NoC).
    { intros pe Hpe. eapply t_bind with (Q := fun _ => RW phi_init2); [|intros ?; cbv beta; apply open_part_live].
      destruct (c_overwrite_part c && pe) eqn:Eu.
      - eapply t_conseq; [apply unlink_live| |idc|idc|idc].
        intros w' ->. split; [auto|]. split; [auto|]. split; [auto|]. split; [auto|].
        apply andb_true_iff in Eu as [_ E2]. subst pe.
        destruct (f_dir (w_fs w) part); [eauto|discriminate].
      - apply t_ret. intros w' ->. split; [auto|]. split; [auto|]. split; [auto|]. split; [auto|].
        destruct Hp as [Ho|Hn]; [|exact Hn]. rewrite Ho in Eu. cbn in Eu. subst pe.
        destruct (f_dir (w_fs w) part); [discriminate|reflexivity]. }
    apply (T _ eq_refl w eq_refl).
  Qed.

  Lemma body_live ops : forall vl bl,
    oracle_ok vl bl ops = true ->
    triple (RW (phi_open vl bl)) (run_body ops) (fun _ => RW (fun s f => exists vl' bl', phi_open vl' bl' s f)) NoE NoC.
  Proof.
    induction ops as [|o r IH]; intros vl bl Hok; cbn [run_body].
    - apply t_ret. intros w (Hs & Hc & H). split; [auto|]. split; [auto|]. eauto.
    - destruct o as [d k| |]; cbn [oracle_ok] in Hok; [| |discriminate].
      + apply andb_true_iff in Hok as [Hk Hr]. apply andb_true_iff in Hk as [Hk1 Hk2].
        eapply t_bind; [|intros ?; cbv beta; apply (IH _ _ Hr)].
        apply prim_prog. intros um s f (p & buf & Hf & Hp & Hd & Hv & Hb). subst f. cbn [sem].
        assert (Hall : blen (i_vol (f_ino s p) ++ buf ++ d) = (vl + bl + blen d)%N).
        { rewrite !blen_app. lia. }
        rewrite Hv, Hall, Hk1, Hk2. cbn [andb fst snd].
        split; [reflexivity|]. eexists p, _. split; [reflexivity|]. unfold set_vol. cbn [f_dir f_ino].
        rewrite upd_eq. cbn [i_vol]. split; [exact Hp|]. split; [exact Hd|].
        apply N.leb_le in Hk2. unfold blen in *.
        split.
        * rewrite firstn_length_le by lia. lia.
        * rewrite skipn_length. lia.
      + eapply t_bind; [|intros ?; cbv beta; apply (IH _ _ Hok)].
        apply prim_prog. intros um s f (p & buf & Hf & Hp & Hd & Hv & Hb). subst f. cbn [sem fst snd].
        split; [reflexivity|]. exists p, []. split; [reflexivity|]. unfold set_vol. cbn [f_dir f_ino].
        rewrite upd_eq. cbn [i_vol]. split; [exact Hp|]. split; [exact Hd|]. rewrite blen_app. split; [lia|reflexivity].
  Qed.

  Lemma exit_live :
    triple (RW (fun s f => exists vl bl, phi_open vl bl s f)) (exit_ c false) (fun _ => RW phi_done) NoE NoC.
  Proof.
    unfold exit_. intros w Hw. pose proof Hw as (Hs & Hc & (vl & bl & (p & buf & Hf & Hp & Hd & _))).
    unfold bind at 1, get_file at 1. rewrite Hf.
    assert (T : triple (fun w' => w' = w)
                  (catch (prim EFlush;;; prim EFsync;;; prim EClose)
                         (fun e => catch (prim EClose) (fun _ => ret tt);;; rm_part_file c;;; raise e) ;;;
                   catch (atomic_rename c) (fun e => rm_part_file c;;; raise e))
                  (fun _ => RW phi_done) NoE NoC).
    { eapply t_bind with (Q := fun _ => RW phi_closed).
      - apply catch_never.
        eapply t_conseq with (P' := RW (fun s f => exists vl bl, phi_open vl bl s f)) (Q' := fun _ => RW phi_closed) (E' := NoE) (C' := NoC); [| |idc|idc|idc].
        + eapply t_bind with (Q := fun _ => RW (fun s f => exists vl bl, phi_open vl bl s f)).
          * apply prim_prog. intros um s f (vl' & bl' & (p' & buf' & Hf' & Hp' & Hd' & _)). subst f. cbn [sem fst snd].
            split; [reflexivity|]. exists (blen (i_vol (f_ino s p') ++ buf')), 0%N, p', [].
            split; [reflexivity|]. unfold set_vol. cbn [f_dir f_ino]. rewrite upd_eq. cbn. auto.
          * intros ?; cbv beta. eapply t_bind with (Q := fun _ => RW (fun s f => exists vl bl, phi_open vl bl s f)).
            -- apply prim_prog. intros um s f (vl' & bl' & (p' & buf' & Hf' & Hp' & Hd' & _)). subst f. cbn [sem fst snd].
               split; [reflexivity|]. exists (blen (i_vol (f_ino s p'))), (blen buf'), p', buf'.
               split; [reflexivity|]. unfold set_dur. cbn [f_dir f_ino]. rewrite upd_eq. cbn. auto.
            -- intros ?; cbv beta.
               apply prim_prog. intros um s f (vl' & bl' & (p' & buf' & Hf' & Hp' & Hd' & _)). subst f. cbn [sem fst snd].
               split; [reflexivity|]. split; [reflexivity|]. split; [exists p'; exact Hp'|exact Hd'].
        + intros w' ->. exact Hw.
      - intros ?; cbv beta. apply catch_never. unfold atomic_rename. destruct (c_overwrite c) eqn:Eo.
        + apply prim_prog. intros um s f (Hf' & (p' & Hp') & Hd'). cbn [sem]. rewrite Hp'.
          destruct (Nat.eqb part dest); cbn; (split; [reflexivity|exact I]).
        + eapply t_bind with (Q := fun _ => RW phi_linked).
          * apply prim_prog. intros um s f (Hf' & (p' & Hp') & Hd'). cbn [sem]. rewrite Hp'.
            destruct Hd' as [Ho|Hn]; [congruence|]. rewrite Hn. cbn [fst snd].
            split; [reflexivity|]. split; [exact Hf'|].
            exists p'. cbn. rewrite upd_neq by congruence. exact Hp'.
          * intros ?; cbv beta. apply prim_prog. intros um s f (Hf' & (p' & Hp')). cbn [sem]. rewrite Hp'.
            cbn. split; [reflexivity|exact I]. }
    cbn beta iota. apply (T w eq_refl).
  Qed.

  Lemma save_live ops :
    oracle_ok 0 0 ops = true ->
    triple (RW phi_init) (save c ops false) (fun _ => RW phi_done) NoE NoC.
  Proof.
    intro Hok. unfold save. eapply t_bind; [apply setup_live|]. intros ?; cbv beta.
    intros w Hw.
    assert (Hb : triple (RW (phi_open 0 0)) (body ops false)
                        (fun _ => RW (fun s f => exists vl bl, phi_open vl bl s f)) NoE NoC).
    { unfold body. eapply t_bind; [apply (body_live ops _ _ Hok)|]. intros ?; cbv beta. apply t_ret. auto. }
    specialize (Hb w Hw). destruct (body ops false w) as [[x|e|] w']; try contradiction.
    apply exit_live. exact Hb.
  Qed.
End Live.

Lemma retry_completes_lemma c ops s umask :
  c_dest c <> c_part c -> c_fdopen_invalid c = false ->
  (c_overwrite c = true \/ f_dir s (c_dest c) = None) ->
  (c_overwrite_part c = true \/ f_dir s (c_part c) = None) ->
  oracle_ok 0 0 ops = true ->
  exists w', run_save c ops false s umask None [] = (Val tt, w').
Proof.
  intros Hdp Hv Hd Hp Hok.
  pose proof (save_live c Hdp Hv ops Hok (init_world s umask (c_dest c) None [])) as H.
  unfold run_save.
  destruct (save c ops false (init_world s umask (c_dest c) None [])) as [[[]|e|] w'].
  - eauto.
  - exfalso. apply H. split; [reflexivity|]. split; [reflexivity|]. split; [reflexivity|]. split; assumption.
  - exfalso. apply H. split; [reflexivity|]. split; [reflexivity|]. split; [reflexivity|]. split; assumption.
Qed.
