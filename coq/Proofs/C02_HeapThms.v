(* C02: counters and recency over whole heaps of caches (copies and update between
   caches included), at the list level and transported to the pointer-level model. *)
From Boltons Require Import Lib.Prelude Lib.C02_Syntax Spec.C02_Spec Model.C02_Model
  Model.C02_PtrModel Model.C02_PtrCache
  Proofs.C02_Lists Proofs.C02_Eqb Proofs.C02_Inv Proofs.C02_Refine Proofs.C02_Heap Proofs.C02_Thms
  Proofs.C02_Counters Proofs.C02_Recency Proofs.C02_PtrLemmas Proofs.C02_PtrRep Proofs.C02_PtrSim.
Close Scope N_scope.
Open Scope nat_scope.

(* ---- bookkeeping "from outside": one use log and one triple of lookup counts per cache ------------ *)
Definition src_uses (c : cfg) (ks : list K) : list K :=
  match c_cls c with LRU => ks | LRI => [] end.

(* the use logs after one heap operation (`present` tests are the public `k in cache`) *)
Definition hop_logs (c : cfg) (h : list cache) (logs : list (list K)) (o : hop) : list (list K) :=
  match o with
  | On i o1 =>
      match nth_error h i, nth_error logs i with
      | Some m, Some lg => upd_nth i (lg ++ op_uses c (d_mem (store m)) o1) logs
      | _, _ => logs
      end
  | Copy i =>
      (* the copy starts with the source's present keys in the order of their latest use *)
      match nth_error h i, nth_error logs i with
      | Some m, Some lg => logs ++ [filter (d_mem (store m)) (keep_last lg)]
      | _, _ => logs
      end
  | EqCache _ _ => logs
  | UpdateFrom i j =>
      match nth_error h i, nth_error h j, nth_error logs i, nth_error logs j with
      | Some mi, Some mj, Some lgi, Some lgj =>
          if Nat.eqb i j then logs
          else let ks := d_keys (store mj) in
               (* every item of the source is assigned on the target; each is a lookup on the source *)
               upd_nth i (lgi ++ ks) (upd_nth j (lgj ++ src_uses c ks) logs)
      | _, _, _, _ => logs
      end
  end.

Definition hop_counts (c : cfg) (h : list cache) (cnts : list (N * N * N)) (o : hop) : list (N * N * N) :=
  match o with
  | On i o1 =>
      match nth_error h i, nth_error cnts i with
      | Some m, Some x => upd_nth i (add3 x (lookup_delta c (d_mem (store m)) o1)) cnts
      | _, _ => cnts
      end
  | Copy i => match nth_error h i with Some _ => cnts ++ [(0, 0, 0)%N] | None => cnts end
  | EqCache _ _ => cnts
  | UpdateFrom i j =>
      match nth_error h i, nth_error h j, nth_error cnts j with
      | Some _, Some mj, Some x =>
          if Nat.eqb i j then cnts
          else upd_nth j (add3 x (N.of_nat (length (store mj)), 0, 0)%N) cnts
      | _, _, _ => cnts
      end
  end.

Fixpoint run_logs_from (c : cfg) (h : list cache) (logs : list (list K)) (ops : list hop) : list (list K) :=
  match ops with
  | [] => logs
  | o :: rest => run_logs_from c (fst (fst (hstep c h o))) (hop_logs c h logs o) rest
  end.

Fixpoint run_counts_from (c : cfg) (h : list cache) (cnts : list (N * N * N)) (ops : list hop) : list (N * N * N) :=
  match ops with
  | [] => cnts
  | o :: rest => run_counts_from c (fst (fst (hstep c h o))) (hop_counts c h cnts o) rest
  end.

Definition run_logs (c : cfg) (init : list (K * V)) (ops : list hop) : list (list K) :=
  run_logs_from c [fst (init_cache c init)] [map fst init] ops.
Definition run_counts (c : cfg) (init : list (K * V)) (ops : list hop) : list (N * N * N) :=
  run_counts_from c [fst (init_cache c init)] [(0, 0, 0)%N] ops.

(* ---- small lemmas ----------------------------------------------------------------------------------- *)
Lemma keep_last_nodup l : NoDup l -> keep_last l = l.
Proof.
  induction l as [|x r IH]; simpl; intro ND; [reflexivity|].
  inversion ND; subst. destruct (existsb (Nat.eqb x) r) eqn:E.
  - apply existsb_exists in E as [y [Hy Ey]]. apply Nat.eqb_eq in Ey. subst. tauto.
  - now rewrite IH.
Qed.

Lemma latest_self (l : list (K * V)) : NoDup (keys l) -> by_latest_use l (keys l).
Proof.
  intro ND. unfold by_latest_use. rewrite keep_last_nodup by assumption.
  transitivity (filter (fun _ : K => true) (keys l)).
  - clear. induction (keys l) as [|a r IH]; simpl; [reflexivity|]. now rewrite <- IH.
  - apply filter_ext_in'. intros x Hx. symmetry. now apply d_mem_iff.
Qed.

Lemma Forall2_app' {A B} (P : A -> B -> Prop) l1 l2 x y :
  Forall2 P l1 l2 -> P x y -> Forall2 P (l1 ++ [x]) (l2 ++ [y]).
Proof. intros F Pxy. apply Forall2_app; [assumption|]. constructor; [assumption|constructor]. Qed.

Lemma Forall2_nth_error_l {A B} (P : A -> B -> Prop) l1 l2 i a :
  Forall2 P l1 l2 -> nth_error l1 i = Some a -> exists b, nth_error l2 i = Some b /\ P a b.
Proof.
  intros F N. pose proof (Forall2_nth_error P l1 l2 i F) as H. rewrite N in H.
  destruct (nth_error l2 i) as [b|]; [eauto|tauto].
Qed.

Lemma Forall2_nth_error_none {A B} (P : A -> B -> Prop) l1 l2 i :
  Forall2 P l1 l2 -> nth_error l1 i = None -> nth_error l2 i = None.
Proof.
  intros F N. pose proof (Forall2_nth_error P l1 l2 i F) as H. rewrite N in H.
  destruct (nth_error l2 i); [tauto|reflexivity].
Qed.

(* ---- recency over the heap ---------------------------------------------------------------------------- *)
Definition HJ (h : list cache) (logs : list (list K)) : Prop :=
  Forall2 (fun m lg => by_latest_use (ring m) lg) h logs.

Lemma step1_fst_getitem c m k : fst (step1 c m (GetItem k)) = fst (getitem c m k).
Proof. simpl. destruct (getitem c m k) as [m' [v|e]]; reflexivity. Qed.

Lemma step1_fst_setitem c m k v : fst (step1 c m (SetItem k v)) = fst (setitem c m k v).
Proof. simpl. destruct (setitem c m k v) as [m' [u|e]]; reflexivity. Qed.

Lemma upd_from_latest c ks : forall mi mj lgi lgj,
  1 <= c_max c -> Inv c mi -> Inv c mj ->
  by_latest_use (ring mi) lgi -> by_latest_use (ring mj) lgj ->
  Forall (fun k => In k (keys (ring mj))) ks ->
  by_latest_use (ring (fst (fst (upd_from c mi mj ks)))) (lgi ++ ks)
  /\ by_latest_use (ring (snd (fst (upd_from c mi mj ks)))) (lgj ++ src_uses c ks).
Proof.
  induction ks as [|k rest IH]; intros mi mj lgi lgj Hmax Ii Ij Ji Jj F.
  - simpl. unfold src_uses. destruct (c_cls c); rewrite !app_nil_r; auto.
  - inversion F as [|? ? Hk Fr]; subst. simpl upd_from.
    destruct (getitem_present c mj k Hmax Ij Hk) as [mj1 [v [Eg [Ij1 [_ [_ KS]]]]]].
    pose proof (step1_latest c mj (GetItem k) lgj Hmax Ij Jj) as Jj1.
    rewrite step1_fst_getitem, Eg in Jj1. simpl in Jj1. rewrite Eg.
    destruct (setitem_sim c mi k v Hmax Ii) as [mi1 [Es [Ii1 _]]].
    pose proof (step1_latest c mi (SetItem k v) lgi Hmax Ii Ji) as Ji1.
    rewrite step1_fst_setitem, Es in Ji1. simpl in Ji1. rewrite Es.
    assert (Fr' : Forall (fun k0 => In k0 (keys (ring mj1))) rest).
    { eapply Forall_impl; [|exact Fr]. intros a Ha. now apply KS. }
    assert (PK : d_mem (store mj) k = true).
    { rewrite (inv_mem c mj k Ij). now apply d_mem_iff. }
    unfold lookup_uses in Jj1. rewrite PK in Jj1.
    destruct (IH mi1 mj1 (lgi ++ [k]) (lgj ++ src_uses c [k]) Hmax Ii1 Ij1 Ji1) as [A B]; auto.
    split.
    + replace (lgi ++ k :: rest) with ((lgi ++ [k]) ++ rest) by now rewrite <- app_assoc. exact A.
    + unfold src_uses in *. destruct (c_cls c).
      * rewrite !app_nil_r in *. exact B.
      * replace (lgj ++ k :: rest) with ((lgj ++ [k]) ++ rest) by now rewrite <- app_assoc. exact B.
Qed.

Lemma store_keys_in_ring c m : Inv c m -> Forall (fun k => In k (keys (ring m))) (d_keys (store m)).
Proof.
  intro I. apply Forall_forall. intros k Hk. apply d_mem_iff. rewrite <- (inv_mem c m k I). now apply d_mem_iff.
Qed.

Lemma hstep_latest c h logs o :
  1 <= c_max c -> Forall (Inv c) h -> HJ h logs ->
  HJ (fst (fst (hstep c h o))) (hop_logs c h logs o).
Proof.
  intros Hmax FI J. unfold HJ in *. destruct o as [i o1|i|i j|i j]; simpl.
  - destruct (nth_error h i) as [m|] eqn:N.
    + destruct (Forall2_nth_error_l _ _ _ _ _ J N) as [lg [NL Jm]]. rewrite NL.
      pose proof (nth_error_Forall _ _ _ _ FI N) as I.
      pose proof (step1_latest c m o1 lg Hmax I Jm) as J'.
      destruct (step1 c m o1) as [m' out]. simpl in *. now apply Forall2_upd_nth.
    + exact J.
  - destruct (nth_error h i) as [m|] eqn:N.
    + destruct (Forall2_nth_error_l _ _ _ _ _ J N) as [lg [NL Jm]]. rewrite NL.
      pose proof (nth_error_Forall _ _ _ _ FI N) as I. pose proof I as [NR _ _ _ _ _].
      destruct (copy_correct c h i m Hmax FI N) as [m' [E [RM _]]]. simpl in E. rewrite N in E.
      destruct (copy_cache c m) as [mc [u|ex]]; inversion E as [[H0]].
      apply app_inv_head in H0. inversion H0; subst mc.
      simpl. apply Forall2_app'; [assumption|]. rewrite RM.
      assert (EQ : filter (d_mem (store m)) (keep_last lg) = keys (ring m)).
      { unfold by_latest_use in Jm. rewrite Jm. apply filter_ext_in'. intros x _. apply (inv_mem c m x I). }
      rewrite EQ. now apply latest_self.
    + exact J.
  - destruct (nth_error h i); [destruct (nth_error h j)|]; exact J.
  - destruct (nth_error h i) as [mi|] eqn:Ni; [|exact J].
    destruct (nth_error h j) as [mj|] eqn:Nj; [|exact J].
    destruct (Forall2_nth_error_l _ _ _ _ _ J Ni) as [lgi [NLi Ji]].
    destruct (Forall2_nth_error_l _ _ _ _ _ J Nj) as [lgj [NLj Jj]]. rewrite NLi, NLj.
    destruct (Nat.eqb i j); [exact J|].
    pose proof (nth_error_Forall _ _ _ _ FI Ni) as Ii. pose proof (nth_error_Forall _ _ _ _ FI Nj) as Ij.
    destruct (upd_from_latest c (d_keys (store mj)) mi mj lgi lgj Hmax Ii Ij Ji Jj (store_keys_in_ring c mj Ij)) as [A B].
    destruct (upd_from c mi mj (d_keys (store mj))) as [[mi' mj'] [u|ex]]; simpl in *;
      (apply Forall2_upd_nth; [apply Forall2_upd_nth|]; assumption).
Qed.

Lemma run_logs_from_latest c ops : forall h logs,
  1 <= c_max c -> Forall (Inv c) h -> HJ h logs ->
  HJ (run_heap_from c h ops) (run_logs_from c h logs ops).
Proof.
  induction ops as [|o rest IH]; intros h logs Hmax FI J; simpl; [exact J|].
  apply IH; [assumption|now apply hstep_inv|now apply hstep_latest].
Qed.

Lemma heap_recency c init ops :
  1 <= c_max c ->
  Forall2 (fun m lg => keys (ring m) = filter (d_mem (store m)) (keep_last lg))
          (run_heap c init ops) (run_logs c init ops).
Proof.
  intro Hmax. unfold run_heap, run_logs.
  destruct (init_sim c init Hmax) as [m0 [E [I A]]]. rewrite E. simpl.
  assert (J0 : HJ [m0] [map fst init]).
  { constructor; [|constructor]. change (ring m0) with (r_items (abs m0)). rewrite A. unfold r_init.
    apply (latest_sets c init r_empty []); simpl; [constructor|reflexivity]. }
  assert (FI : Forall (Inv c) [m0]) by (constructor; [assumption|constructor]).
  pose proof (run_logs_from_latest c ops [m0] [map fst init] Hmax FI J0) as J.
  pose proof (run_heap_from_inv c ops [m0] Hmax FI) as FI'.
  unfold HJ in J. revert FI'. induction J; intro FI'; constructor.
  - inversion FI'; subst. unfold by_latest_use in H. rewrite H. apply filter_ext_in'. intros k _.
    symmetry. eapply inv_mem; eauto.
  - apply IHJ. now inversion FI'.
Qed.

(* ---- counters over the heap ---------------------------------------------------------------------------- *)
Definition HC (h : list cache) (cnts : list (N * N * N)) : Prop :=
  Forall2 (fun m x => counters m = x) h cnts.

Lemma hstep_counts c h cnts o :
  1 <= c_max c -> Forall (Inv c) h -> HC h cnts ->
  HC (fst (fst (hstep c h o))) (hop_counts c h cnts o).
Proof.
  intros Hmax FI J. unfold HC in *. destruct o as [i o1|i|i j|i j]; simpl.
  - destruct (nth_error h i) as [m|] eqn:N.
    + destruct (Forall2_nth_error_l _ _ _ _ _ J N) as [x [NL Jm]]. rewrite NL.
      pose proof (nth_error_Forall _ _ _ _ FI N) as I.
      pose proof (step1_counters c m o1 Hmax I) as S.
      destruct (step1 c m o1) as [m' out]. apply Forall2_upd_nth; [assumption|]. rewrite <- Jm. exact S.
    + exact J.
  - destruct (nth_error h i) as [m|] eqn:N; [|exact J].
    destruct (copy_correct c h i m Hmax FI N) as [m' [E [_ [_ [H0 [M0 [S0 _]]]]]]]. simpl in E. rewrite N in E.
    destruct (copy_cache c m) as [mc [u|ex]]; inversion E as [[HH]].
    apply app_inv_head in HH. inversion HH; subst mc.
    simpl. apply Forall2_app'; [assumption|]. unfold counters. now rewrite H0, M0, S0.
  - destruct (nth_error h i); [destruct (nth_error h j)|]; exact J.
  - destruct (nth_error h i) as [mi|] eqn:Ni; [|exact J].
    destruct (nth_error h j) as [mj|] eqn:Nj; [|exact J].
    destruct (Forall2_nth_error_l _ _ _ _ _ J Nj) as [xj [NLj Jj]]. rewrite NLj.
    destruct (Nat.eqb_spec i j) as [EQ|NE]; [exact J|].
    pose proof (nth_error_Forall _ _ _ _ FI Ni) as Ii. pose proof (nth_error_Forall _ _ _ _ FI Nj) as Ij.
    destruct (upd_from_effect c (d_keys (store mj)) mi mj Hmax Ii Ij (store_keys_in_ring c mj Ij))
      as [mi' [mj' [E [_ [_ [_ [HJ' [MJ [SJ [HI [MI SI]]]]]]]]]]].
    rewrite E. simpl.
    destruct (Forall2_nth_error_l _ _ _ _ _ J Ni) as [xi [NLi Ji]].
    assert (Ci : counters mi' = xi) by (unfold counters in *; congruence).
    assert (Cj : counters mj' = add3 xj (N.of_nat (length (store mj)), 0, 0)%N).
    { unfold counters in *. rewrite HJ', MJ, SJ. rewrite <- Jj. unfold d_keys. rewrite map_length.
      simpl. now rewrite !N.add_0_r. }
    (* position i of the counts is untouched: rewrite it as an update with the same value *)
    assert (EI : upd_nth j (add3 xj (N.of_nat (length (store mj)), 0, 0)%N) cnts
                 = upd_nth i xi (upd_nth j (add3 xj (N.of_nat (length (store mj)), 0, 0)%N) cnts)).
    { assert (G : nth_error (upd_nth j (add3 xj (N.of_nat (length (store mj)), 0, 0)%N) cnts) i = Some xi)
        by (rewrite nth_error_upd_nth_ne; auto).
      clear -G. revert i G. generalize (upd_nth j (add3 xj (N.of_nat (length (store mj)), 0, 0)%N) cnts).
      induction l as [|a r IH]; intros i G; destruct i; simpl in *; try discriminate.
      - now inversion G.
      - f_equal. now apply IH. }
    rewrite EI. apply Forall2_upd_nth; [apply Forall2_upd_nth|]; assumption.
Qed.

Lemma run_counts_from_ok c ops : forall h cnts,
  1 <= c_max c -> Forall (Inv c) h -> HC h cnts ->
  HC (run_heap_from c h ops) (run_counts_from c h cnts ops).
Proof.
  induction ops as [|o rest IH]; intros h cnts Hmax FI J; simpl; [exact J|].
  apply IH; [assumption|now apply hstep_inv|now apply hstep_counts].
Qed.

Lemma heap_counters c init ops :
  1 <= c_max c ->
  Forall2 (fun m x => (hit m, miss m, soft m) = x /\ (soft m <= miss m)%N)
          (run_heap c init ops) (run_counts c init ops).
Proof.
  intro Hmax. unfold run_heap, run_counts.
  destruct (init_sim c init Hmax) as [m0 [E [I A]]]. rewrite E. simpl.
  destruct (setitems_sim c init empty_cache Hmax (inv_empty c)) as [m0' [E' [_ [_ [_ [H0 [M0 S0]]]]]]].
  unfold init_cache in E. rewrite E in E'. inversion E'; subst m0'. simpl in H0, M0, S0.
  assert (C0 : HC [m0] [(0, 0, 0)%N]).
  { constructor; [|constructor]. unfold counters. now rewrite H0, M0, S0. }
  assert (FI : Forall (Inv c) [m0]) by (constructor; [assumption|constructor]).
  pose proof (run_counts_from_ok c ops [m0] _ Hmax FI C0) as J.
  pose proof (run_heap_from_inv c ops [m0] Hmax FI) as FI'.
  unfold HC in J. revert FI'. induction J; intro FI'; constructor.
  - inversion FI' as [|? ? Ix Fl]. split; [exact H|]. eapply inv_soft; exact Ix.
  - apply IHJ. now inversion FI'.
Qed.

(* ---- transported to the pointer-level model ------------------------------------------------------------------ *)
Lemma Forall2_trans3 {A B C} (P : A -> B -> Prop) (Q : B -> C -> Prop) (R : A -> C -> Prop) l1 : forall l2 l3,
  (forall a b c, P a b -> Q b c -> R a c) -> Forall2 P l1 l2 -> Forall2 Q l2 l3 -> Forall2 R l1 l3.
Proof.
  induction l1 as [|a r IH]; intros l2 l3 H F1 F2; inversion F1; subst; inversion F2; subst; constructor; eauto.
Qed.

Lemma pointer_heap_counters c init ops :
  1 <= c_max c ->
  Forall2 (fun p x => (ps_hit p, ps_miss p, ps_soft p) = x /\ (ps_soft p <= ps_miss p)%N)
          (prun_heap c init ops) (run_counts c init ops).
Proof.
  intro Hmax. eapply Forall2_trans3; [|apply (prun_heap_rel c init ops Hmax)|apply (heap_counters c init ops Hmax)].
  intros p m x [ES _ EH EM ESo _] [E L]. simpl in *. rewrite EH, EM, ESo. auto.
Qed.

Lemma pointer_heap_recency c init ops :
  1 <= c_max c ->
  Forall2 (fun p lg => keys (p_flatten (ps_ring p)) = filter (d_mem (ps_store p)) (keep_last lg))
          (prun_heap c init ops) (run_logs c init ops).
Proof.
  intro Hmax. eapply Forall2_trans3; [|apply (prun_heap_rel c init ops Hmax)|apply (heap_recency c init ops Hmax)].
  intros p m lg [ES [ids R] _ _ _ _] E. simpl in *. rewrite (rep_flatten _ _ _ R), ES. exact E.
Qed.
