(* C06: components survive to_text(full_quote=True) -> URL(): the round-trip theorem. *)
From Boltons Require Import Lib.Prelude Lib.C06_Text Spec.C06_Spec Model.C06_Model
  Proofs.C06_Codec Proofs.C06_Utf8 Proofs.C06_Quote Proofs.C06_Lists.
From Coq Require Import ZifyBool.
Open Scope N_scope.

(* ---- the quoted text of a component contains none of the characters in L ------------- *)
Definition excl (p : position) (L : list N) : bool :=
  forallb (fun b => implb (ok_at p b) (not_in L b)) (range 128) &&
  not_in L 37 && forallb (not_in L) hexdigits.

Lemma excl_user : excl PUser [58; 64; 47; 63; 35] = true.  Proof. vm_compute. reflexivity. Qed.
Lemma excl_path : excl PPath [47; 63; 35] = true.          Proof. vm_compute. reflexivity. Qed.
Lemma excl_query : excl PQuery [38; 59; 61; 43; 35] = true. Proof. vm_compute. reflexivity. Qed.

Lemma forallb_not_in_mem L x c : forallb (not_in L) x = true -> memN c L = true -> memN c x = false.
Proof.
  intros H M. induction x as [|y r IH]; [reflexivity|].
  cbn [forallb] in H. apply andb_true_iff in H as [Hy Hr]. cbn [memN].
  rewrite (IH Hr), orb_false_r. destruct (c =? y) eqn:E; [|reflexivity].
  apply N.eqb_eq in E. subst y. unfold not_in in Hy. rewrite M in Hy. discriminate.
Qed.

Lemma forallb_weaken (L L' : list N) x :
  (forall c, memN c L' = true -> memN c L = true) ->
  forallb (not_in L) x = true -> forallb (not_in L') x = true.
Proof.
  intros W H. rewrite forallb_forall in *. intros y Hy. specialize (H y Hy). unfold not_in in *.
  destruct (memN y L') eqn:E; [|reflexivity]. rewrite (W y E) in H. discriminate.
Qed.


Lemma not_memN_forallb_in c s : memN c s = false -> forallb (not_in [c]) s = true.
Proof.
  induction s as [|y r IH]; intro H; [reflexivity|].
  cbn [memN] in H. apply orb_false_iff in H as [H1 H2].
  cbn [forallb]. rewrite (IH H2), andb_true_r. unfold not_in. cbn [memN]. rewrite N.eqb_sym, H1. reflexivity.
Qed.

Section Round.
Variable T : tables.
Variable O : oracles.
Hypothesis TOK : tables_ok T = true.
Let nfc := o_nfc O.
Let qf := quote_full T O.

Lemma qf_excl c s L :
  excl (position_of c) L = true -> all_scalar (nfc s) = true -> forallb (not_in L) (qf c s) = true.
Proof.
  intros X S. unfold excl in X. apply andb_true_iff in X as [X X3]. apply andb_true_iff in X as [X1 X2].
  unfold qf, quote_full, quote_bytes.
  apply (quote_forall (ok_at (position_of c)) (qmap T c) (tables_ok_map T c TOK) (not_in L)).
  - exact X2.
  - exact X3.
  - intros b Hb. pose proof (ok_at_ascii _ _ Hb) as A. unfold is_ascii in A. apply N.ltb_lt in A.
    pose proof (forallb_range 128 _ X1 b A) as I. cbn beta in I. rewrite Hb in I. exact I.
  - apply utf8_enc_bytes. exact S.
Qed.

Lemma unq_qf c s : all_scalar (nfc s) = true -> unq_if_pct T (qf c s) = nfc s.
Proof.
  intro S. unfold unq_if_pct. pose proof (unquote_quote_full T O TOK c s S) as U.
  destruct (memN 37 (qf c s)) eqn:E; [exact U|].
  unfold unquote in U. fold qf in U. rewrite E in U. exact U.
Qed.

Lemma qf_nil c s : all_scalar (nfc s) = true -> qf c s = [] -> nfc s = [].
Proof.
  intros S E. apply utf8_enc_nil.
  apply (quote_nil (ok_at (position_of c)) (qmap T c) (tables_ok_map T c TOK)); [|exact E].
  apply utf8_enc_bytes. exact S.
Qed.

(* ---- _URL_RE on a text of the shape scheme://authority path ?query #fragment ------------- *)
Definition qpart (qs : text) : text := if nonempty qs then 63 :: qs else [].
Definition fpart (fr : text) : text := if nonempty fr then 35 :: fr else [].
Definition some_if (s : text) : option text := if nonempty s then Some s else None.

(* the scheme prefix: "scheme:" or nothing (a network-path reference //host/path) *)
Definition sprefix (scheme : text) : text := if nonempty scheme then scheme ++ [58] else [].

Lemma url_re_shape scheme auth pathtxt qs fr :
  forallb (not_in [58; 47; 63; 35]) scheme = true ->
  forallb (not_in [47; 63; 35]) auth = true ->
  (pathtxt = [] \/ exists p', pathtxt = 47 :: p') -> forallb (not_in [63; 35]) pathtxt = true ->
  forallb (not_in [35]) qs = true ->
  url_re (sprefix scheme ++ [47; 47] ++ auth ++ pathtxt ++ qpart qs ++ fpart fr)
  = mkRe (some_if scheme) (Some auth) pathtxt (some_if qs) (some_if fr).
Proof.
  intros Hs Ha Hp0 Hp Hq.
  assert (S2 : stops (not_in [47; 63; 35]) (pathtxt ++ qpart qs ++ fpart fr) = true).
  { destruct Hp0 as [->|[p' ->]]; [|reflexivity]. cbn [app]. unfold qpart, fpart.
    destruct (nonempty qs); [reflexivity|]. destruct (nonempty fr); reflexivity. }
  assert (S3 : stops (not_in [63; 35]) (qpart qs ++ fpart fr) = true).
  { unfold qpart, fpart. destruct (nonempty qs); [reflexivity|]. destruct (nonempty fr); reflexivity. }
  assert (TAIL : forall sch,
            (let '(au, s2) := let '(a, r') := span (not_in [47; 63; 35]) (auth ++ pathtxt ++ qpart qs ++ fpart fr) in (Some a, r') in
             let '(path, s3) := span (not_in [63; 35]) s2 in
             let '(q, s4) := match s3 with
                             | 63 :: r => let '(a, r') := span (not_in [35]) r in (Some a, r')
                             | _ => (None, s3)
                             end in
             let f := match s4 with 35 :: r => Some r | _ => None end in
             mkRe sch au path q f) = mkRe sch (Some auth) pathtxt (some_if qs) (some_if fr)).
  { intro sch. rewrite (span_stop _ auth _ Ha S2). rewrite (span_stop _ pathtxt _ Hp S3).
    unfold qpart, fpart, some_if. destruct (nonempty qs) eqn:Q.
    - cbn [app]. assert (S4 : stops (not_in [35]) (if nonempty fr then 35 :: fr else []) = true)
        by (destruct (nonempty fr); reflexivity).
      rewrite (span_stop _ qs _ Hq S4). destruct (nonempty fr); reflexivity.
    - cbn [app]. destruct (nonempty fr) eqn:Fr; reflexivity. }
  unfold url_re, sprefix. destruct scheme as [|s0 sr].
  - cbn [nonempty app span]. change (not_in [58; 47; 63; 35] 47) with false. cbn iota. apply (TAIL None).
  - cbn [nonempty]. rewrite <- app_assoc. rewrite (span_stop _ (s0 :: sr) _ Hs) by reflexivity.
    cbn [app]. apply (TAIL (Some (s0 :: sr))).
Qed.

(* ---- path ------------------------------------------------------------------------------------ *)
Definition scalar_nfc (s : text) : Prop := all_scalar (nfc s) = true.

Lemma path_back path :
  path <> [] -> Forall scalar_nfc path ->
  map (unq_if_pct T) (split_on 47 (join [47] (map (qf CPath) path))) = map nfc path.
Proof.
  intros NE F. rewrite split_join.
  - rewrite map_map. apply map_ext_in. intros x Hx. apply unq_qf.
    rewrite Forall_forall in F. apply F. exact Hx.
  - destruct path; [contradiction|discriminate].
  - apply Forall_forall. intros y Hy. apply in_map_iff in Hy as [x [<- Hx]].
    rewrite Forall_forall in F.
    apply (forallb_not_in_mem [47; 63; 35]); [|reflexivity].
    apply qf_excl; [exact excl_path|apply F; exact Hx].
Qed.

Lemma path_chars path :
  Forall scalar_nfc path -> forallb (not_in [63; 35]) (join [47] (map (qf CPath) path)) = true.
Proof.
  induction path as [|x r IH]; intro F; [reflexivity|].
  inversion F as [|? ? Hx Hr]; subst.
  assert (X : forallb (not_in [63; 35]) (qf CPath x) = true).
  { apply (forallb_weaken [47; 63; 35]); [|apply qf_excl; [exact excl_path|exact Hx]].
    intros c Hc. cbn [memN] in *. repeat rewrite orb_false_r in *.
    apply orb_true_iff in Hc. apply orb_true_iff. right. apply orb_true_iff. exact Hc. }
  destruct r as [|y r'].
  - cbn [map join]. exact X.
  - change (join [47] (map (qf CPath) (x :: y :: r')))
      with (qf CPath x ++ 47 :: join [47] (map (qf CPath) (y :: r'))).
    rewrite forallb_app, X. cbn [forallb andb]. apply IH. exact Hr.
Qed.

(* ---- query ------------------------------------------------------------------------------------- *)
Definition rp (kv : text * option text) : text :=
  let '(k, v) := kv in
  match v with None => qf CQuery k | Some v => qf CQuery k ++ [61] ++ qf CQuery v end.

Definition pair_ok (kv : text * option text) : Prop :=
  let '(k, v) := kv in
  scalar_nfc k /\ match v with Some v => scalar_nfc v | None => nfc k <> [] end.

Lemma query_to_text_rp q : query_to_text T O true q = join [38] (map rp q).
Proof.
  unfold query_to_text. f_equal; try (apply map_ext; intros [k [v|]]; reflexivity).
Qed.

Lemma qq_no c x : scalar_nfc x -> memN c [38; 59; 61; 43; 35] = true -> memN c (qf CQuery x) = false.
Proof.
  intros S M. apply (forallb_not_in_mem [38; 59; 61; 43; 35]); [|exact M].
  apply qf_excl; [exact excl_query|exact S].
Qed.

Lemma rp_no c kv : pair_ok kv -> memN c [38; 59; 35] = true -> memN c (rp kv) = false.
Proof.
  intros P M. destruct kv as [k [v|]]; destruct P as [Pk Pv]; cbn [rp].
  - rewrite !memN_app. rewrite (qq_no c k Pk), (qq_no c v Pv).
    + cbn [memN orb]. rewrite orb_false_r. cbn [memN] in M. repeat rewrite orb_false_r in M.
      destruct (c =? 61) eqn:E; [|reflexivity]. apply N.eqb_eq in E. subst c. discriminate.
    + cbn [memN] in *. repeat rewrite orb_false_r in *.
      repeat (apply orb_true_iff in M as [M|M]); rewrite M; repeat rewrite orb_true_r; reflexivity.
    + cbn [memN] in *. repeat rewrite orb_false_r in *.
      repeat (apply orb_true_iff in M as [M|M]); rewrite M; repeat rewrite orb_true_r; reflexivity.
  - apply qq_no; [exact Pk|].
    cbn [memN] in *. repeat rewrite orb_false_r in *.
    repeat (apply orb_true_iff in M as [M|M]); rewrite M; repeat rewrite orb_true_r; reflexivity.
Qed.

Lemma rp_nonempty kv : pair_ok kv -> rp kv <> [].
Proof.
  destruct kv as [k [v|]]; intros [Pk Pv]; cbn [rp].
  - destruct (qf CQuery k); discriminate.
  - intro E. apply Pv. apply (qf_nil CQuery k Pk E).
Qed.

Lemma qsl_pair_rp kv : pair_ok kv -> qsl_pair T (rp kv) = (nfc (fst kv), option_map nfc (snd kv)).
Proof.
  destruct kv as [k [v|]]; intros [Pk Pv]; cbn [rp fst snd option_map]; unfold qsl_pair.
  - cbn [app]. rewrite (partition_app 61 _ _ (qq_no 61 k Pk eq_refl)).
    rewrite (replace_char_none 43 32 _ (qq_no 43 k Pk eq_refl)).
    assert (Uk : unquote T (qf CQuery k) = nfc k) by (apply (unquote_quote_full T O TOK); exact Pk).
    rewrite Uk. destruct (qf CQuery v) as [|x r] eqn:E.
    + rewrite (qf_nil CQuery v Pv E). reflexivity.
    + rewrite <- E. rewrite (replace_char_none 43 32 _ (qq_no 43 v Pv eq_refl)).
      f_equal. f_equal. apply (unquote_quote_full T O TOK). exact Pv.
  - rewrite (partition_none 61 _ (qq_no 61 k Pk eq_refl)).
    rewrite (replace_char_none 43 32 _ (qq_no 43 k Pk eq_refl)).
    f_equal. apply (unquote_quote_full T O TOK). exact Pk.
Qed.

Lemma parse_qsl_join q :
  Forall pair_ok q -> parse_qsl T (join [38] (map rp q)) = map (fun kv => (nfc (fst kv), option_map nfc (snd kv))) q.
Proof.
  intro F. unfold parse_qsl. destruct q as [|kv0 q0]; [reflexivity|].
  rewrite split_join.
  - assert (G : forall l, Forall pair_ok l ->
                 map (qsl_pair T) (filter (fun p => match p with [] => false | _ => true end)
                                          (flat_map (split_on 59) (map rp l)))
                 = map (fun kv => (nfc (fst kv), option_map nfc (snd kv))) l).
    { induction l as [|kv l IH]; intro Fl; [reflexivity|].
      inversion Fl as [|? ? Hk Hl]; subst. cbn [map flat_map].
      rewrite (split_on_none 59 _ (rp_no 59 kv Hk eq_refl)). cbn [app filter].
      pose proof (rp_nonempty kv Hk) as NE. destruct (rp kv) eqn:E; [contradiction|].
      rewrite <- E. cbn [map]. rewrite (qsl_pair_rp kv Hk). f_equal. apply IH. exact Hl. }
    apply G. exact F.
  - discriminate.
  - apply Forall_forall. intros y Hy. apply in_map_iff in Hy as [kv [<- Hkv]].
    rewrite Forall_forall in F. apply (rp_no 38 kv (F kv Hkv) eq_refl).
Qed.

Lemma query_chars q : Forall pair_ok q -> forallb (not_in [35]) (join [38] (map rp q)) = true.
Proof.
  induction q as [|kv r IH]; intro F; [reflexivity|].
  inversion F as [|? ? Hk Hr]; subst.
  assert (X : forallb (not_in [35]) (rp kv) = true).
  { apply not_memN_forallb_in. apply (rp_no 35 kv Hk eq_refl). }
  destruct r as [|y r'].
  - cbn [map join]. exact X.
  - change (join [38] (map rp (kv :: y :: r'))) with (rp kv ++ 38 :: join [38] (map rp (y :: r'))).
    rewrite forallb_app, X. cbn [forallb andb]. apply IH. exact Hr.
Qed.

(* ---- authority ------------------------------------------------------------------------------------ *)
Variable ht : text.                     (* the host as rendered: reg-name / IPv4 / IDNA-encoded name / [IPv6] *)
Hypothesis ht_ne : ht <> [].
Hypothesis ht_chars : forallb (not_in [64; 47; 63; 35]) ht = true.

(* the port as rendered and what int() makes of it *)
Variables (ptxt : text) (pres : option Z).
Hypothesis port_ok :
  (ptxt = [] /\ pres = None) \/
  (exists ds p, ptxt = 58 :: ds /\ pres = Some p /\ py_int ds = Some p /\ all_ascii ds = true /\
                forallb (not_in [64; 47; 63; 35; 93]) ds = true /\ forallb is_digit ds = true).

Definition userinfo (user pw : text) : text :=
  if nonempty user || nonempty pw
  then qf CUser user ++ (if nonempty pw then 58 :: qf CUser pw else []) ++ [64]
  else [].
Definition authority (user pw : text) : text := userinfo user pw ++ ht ++ ptxt.

Lemma ptxt_no c : memN c [64; 47; 63; 35] = true -> memN c ptxt = false.
Proof.
  intro M. destruct port_ok as [[-> _]|[ds [p [-> [_ [_ [_ [D _]]]]]]]]; [reflexivity|].
  cbn [memN]. rewrite (forallb_not_in_mem [64; 47; 63; 35; 93] ds c D).
  - rewrite orb_false_r. cbn [memN] in M. repeat rewrite orb_false_r in M.
    destruct (c =? 58) eqn:E; [|reflexivity]. apply N.eqb_eq in E. subst c. discriminate.
  - cbn [memN] in *. repeat rewrite orb_false_r in *.
    repeat (apply orb_true_iff in M as [M|M]); rewrite M; repeat rewrite orb_true_r; reflexivity.
Qed.

Lemma ht_no c : memN c [64; 47; 63; 35] = true -> memN c ht = false.
Proof. intro M. apply (forallb_not_in_mem _ _ _ ht_chars M). Qed.

Lemma quser_no c x : scalar_nfc x -> memN c [58; 64; 47; 63; 35] = true -> memN c (qf CUser x) = false.
Proof.
  intros S M. apply (forallb_not_in_mem [58; 64; 47; 63; 35]); [|exact M].
  apply qf_excl; [exact excl_user|exact S].
Qed.

Lemma userinfo_no c user pw :
  scalar_nfc user -> scalar_nfc pw -> memN c [47; 63; 35] = true -> memN c (userinfo user pw) = false.
Proof.
  intros Su Sp M.
  assert (M5 : memN c [58; 64; 47; 63; 35] = true).
  { cbn [memN] in *. repeat rewrite orb_false_r in *.
    repeat (apply orb_true_iff in M as [M|M]); rewrite M; repeat rewrite orb_true_r; reflexivity. }
  assert (C58 : (c =? 58) = false).
  { destruct (c =? 58) eqn:E; [|reflexivity]. apply N.eqb_eq in E. subst c. discriminate. }
  assert (C64 : (c =? 64) = false).
  { destruct (c =? 64) eqn:E; [|reflexivity]. apply N.eqb_eq in E. subst c. discriminate. }
  unfold userinfo. destruct (nonempty user || nonempty pw); [|reflexivity].
  rewrite !memN_app, (quser_no c user Su M5). destruct (nonempty pw).
  - cbn [memN]. rewrite (quser_no c pw Sp M5), C58, C64. reflexivity.
  - cbn [memN]. rewrite C64. reflexivity.
Qed.

Lemma authority_chars user pw :
  scalar_nfc user -> scalar_nfc pw -> forallb (not_in [47; 63; 35]) (authority user pw) = true.
Proof.
  intros Su Sp. apply forallb_forall. intros x Hx. unfold not_in.
  destruct (memN x [47; 63; 35]) eqn:M; [exfalso|reflexivity].
  apply memN_In in Hx. unfold authority in Hx. rewrite !memN_app in Hx.
  rewrite (userinfo_no x user pw Su Sp M) in Hx.
  assert (M5 : memN x [58; 64; 47; 63; 35] = true).
  { cbn [memN] in *. repeat rewrite orb_false_r in *.
    repeat (apply orb_true_iff in M as [M|M]); rewrite M; repeat rewrite orb_true_r; reflexivity. }
  assert (M4 : memN x [64; 47; 63; 35] = true).
  { cbn [memN] in *. repeat rewrite orb_false_r in *.
    repeat (apply orb_true_iff in M as [M|M]); rewrite M; repeat rewrite orb_true_r; reflexivity. }
  rewrite (ht_no x M4) in Hx.
  rewrite (ptxt_no x M4) in Hx. discriminate.
Qed.

(* what parse_url reads back as username / password text *)
Definition pu_user_txt (user pw : text) : text := if nonempty user || nonempty pw then qf CUser user else [].
Definition pu_pass_txt (pw : text) : text := if nonempty pw then qf CUser pw else [].

Lemma hostport_parse_plain h :
  h <> [] -> memN 58 h = false -> split_hostport O (h ++ ptxt) = MOk (h, pres).
Proof.
  intros HNE H58. unfold split_hostport.
  destruct (h ++ ptxt) as [|x y] eqn:E.
  { apply app_eq_nil in E as [E1 _]. contradiction. }
  rewrite <- E. clear E x y.
  destruct port_ok as [[-> ->]|[ds [p [-> [-> [PI [PA [PD _]]]]]]]].
  - rewrite app_nil_r. rewrite (partition_none 58 h H58). reflexivity.
  - rewrite (partition_app 58 h ds H58).
    rewrite (forallb_not_in_mem [64; 47; 63; 35; 93] ds 93 PD eq_refl), andb_false_r.
    unfold port_of. rewrite PA, PI. reflexivity.
Qed.

Lemma parse_host_plain h b :
  h <> [] -> memN 58 h = false -> o_inet4 O h = MOk b -> parse_host O h = MOk ((if b then 4 else 0), h).
Proof.
  intros NE M I4. unfold parse_host. destruct h as [|h0 hr]; [contradiction|].
  rewrite M. cbn [andb]. rewrite I4. reflexivity.
Qed.

Lemma memN_split c h : memN c h = true -> exists a b, h = a ++ c :: b /\ memN c a = false.
Proof.
  induction h as [|x r IH]; intro H; [discriminate|].
  cbn [memN] in H. destruct (c =? x) eqn:E.
  - apply N.eqb_eq in E. subst x. exists [], r. split; reflexivity.
  - cbn [orb] in H. destruct (IH H) as [a [b [-> Ha]]]. exists (x :: a), b. split; [reflexivity|].
    cbn [memN]. rewrite E, Ha. reflexivity.
Qed.

(* '[' h ']' with a ':' inside h: the bracket repair of parse_url puts the literal together again *)
Lemma hostport_parse_v6 h :
  memN 58 h = true -> memN 93 h = false ->
  split_hostport O ((91 :: h ++ [93]) ++ ptxt) = MOk (91 :: h ++ [93], pres).
Proof.
  intros H58 H93. destruct (memN_split 58 h H58) as [a [b [-> Ha]]].
  rewrite memN_app in H93. apply orb_false_iff in H93 as [H93a H93b].
  cbn [memN] in H93b. apply orb_false_iff in H93b as [_ H93b].
  unfold split_hostport. cbn [app].
  replace (91 :: ((a ++ 58 :: b) ++ [93]) ++ ptxt) with ((91 :: a) ++ 58 :: (b ++ 93 :: ptxt))
    by (cbn [app]; rewrite <- !app_assoc; reflexivity).
  assert (A58 : memN 58 (91 :: a) = false) by (cbn [memN]; rewrite Ha; reflexivity).
  rewrite (partition_app 58 (91 :: a) _ A58). cbn [app].
  assert (M93 : memN 93 (b ++ 93 :: ptxt) = true).
  { rewrite memN_app. cbn [memN]. rewrite N.eqb_refl, orb_true_r. reflexivity. }
  rewrite N.eqb_refl, M93. cbn [andb]. rewrite (partition_app 93 b ptxt H93b).
  destruct port_ok as [[-> ->]|[ds [p [-> [-> [PI [PA [PD _]]]]]]]].
  - unfold port_of. change (all_ascii []) with true. change (py_int []) with (@None Z). cbn iota beta.
    cbn [app mbind]. rewrite <- app_assoc. reflexivity.
  - unfold port_of. rewrite PA, PI. cbn [app mbind]. rewrite <- app_assoc. reflexivity.
Qed.

Lemma last_is_snoc c x : last_is c (x ++ [c]) = true.
Proof. unfold last_is. rewrite rev_app_distr. cbn [rev app]. apply N.eqb_refl. Qed.

Lemma parse_host_v6 h :
  memN 58 h = true -> o_inet6 O h = MOk V6Ok -> parse_host O (91 :: h ++ [93]) = MOk (6, h).
Proof.
  intros H58 I6. unfold parse_host.
  assert (M : memN 58 (91 :: h ++ [93]) = true).
  { cbn [memN]. rewrite memN_app, H58. reflexivity. }
  rewrite M, N.eqb_refl. change (91 :: h ++ [93]) with ([91] ++ h ++ [93]) at 1.
  rewrite app_assoc, last_is_snoc. cbn [andb tl]. rewrite removelast_last, I6. reflexivity.
Qed.

Lemma authority_ne user pw : authority user pw <> [].
Proof.
  unfold authority. intro E. apply app_eq_nil in E as [_ E]. apply app_eq_nil in E as [E _]. contradiction.
Qed.

Lemma hostinfo_no_at : memN 64 (ht ++ ptxt) = false.
Proof. rewrite memN_app, (ht_no 64 eq_refl), (ptxt_no 64 eq_refl). reflexivity. Qed.

Lemma split_userinfo_authority user pw :
  scalar_nfc user -> scalar_nfc pw ->
  split_userinfo (authority user pw) = (pu_user_txt user pw, pu_pass_txt pw, ht ++ ptxt).
Proof.
  intros Su Sp. unfold split_userinfo.
  pose proof (authority_ne user pw) as ANE.
  destruct (authority user pw) as [|a0 ar] eqn:EA; [contradiction|]. rewrite <- EA. clear ANE EA a0 ar.
  unfold authority, userinfo, pu_user_txt, pu_pass_txt.
  destruct (nonempty user || nonempty pw) eqn:U.
  - replace ((qf CUser user ++ (if nonempty pw then 58 :: qf CUser pw else []) ++ [64]) ++ ht ++ ptxt)
      with ((qf CUser user ++ (if nonempty pw then 58 :: qf CUser pw else [])) ++ 64 :: (ht ++ ptxt))
      by (rewrite <- !app_assoc; reflexivity).
    rewrite (rpartition_app 64 _ _ hostinfo_no_at).
    destruct (nonempty pw).
    + rewrite (partition_app 58 _ _ (quser_no 58 user Su eq_refl)). reflexivity.
    + rewrite app_nil_r, (partition_none 58 _ (quser_no 58 user Su eq_refl)). reflexivity.
  - cbn [app]. rewrite (rpartition_none 64 _ hostinfo_no_at).
    apply orb_false_iff in U as [_ U2]. rewrite U2. reflexivity.
Qed.

(* what parse_url makes of the host and port text: family and host as parse_host returns them *)
Variables (hp : text) (fam' : N).
Hypothesis host_parse :
  exists hraw, split_hostport O (ht ++ ptxt) = MOk (hraw, pres) /\ parse_host O hraw = MOk (fam', hp).

Lemma parse_url_full scheme user pw pathtxt qs fr :
  forallb (not_in [58; 47; 63; 35]) scheme = true ->
  scalar_nfc user -> scalar_nfc pw ->
  (pathtxt = [] \/ exists p', pathtxt = 47 :: p') -> forallb (not_in [63; 35]) pathtxt = true ->
  forallb (not_in [35]) qs = true ->
  parse_url O (sprefix scheme ++ [47; 47] ++ authority user pw ++ pathtxt ++ qpart qs ++ fpart fr)
  = MOk (mkParsed (some_if scheme) true (pu_user_txt user pw) (pu_pass_txt pw)
                  fam' hp pres pathtxt (some_if qs) (some_if fr)).
Proof.
  intros Hs Su Sp Hp0 Hp Hq. unfold parse_url.
  rewrite (url_re_shape scheme (authority user pw) pathtxt qs fr Hs (authority_chars user pw Su Sp) Hp0 Hp Hq).
  cbn [g_authority g_scheme g_path g_query g_fragment].
  rewrite (split_userinfo_authority user pw Su Sp).
  destruct host_parse as [hraw [HSP HPH]]. rewrite HSP. cbn [mbind]. rewrite HPH. reflexivity.
Qed.

(* ---- URL(rendered text) ------------------------------------------------------------------------------- *)
Variable h2 : text.                     (* what the host attribute reads after parsing *)
Hypothesis host_decode : decode_host O hp = MOk h2.
Hypothesis nfc_nil : nfc [] = [].

Lemma decode_host_plain h r :
  h <> [] -> (if all_ascii h then o_idna_dec O h = MOk r else r = h) -> decode_host O h = MOk r.
Proof.
  intros NE D. unfold decode_host. destruct h as [|x y]; [contradiction|].
  destruct (all_ascii (x :: y)); [rewrite D; reflexivity|subst r; reflexivity].
Qed.

Lemma opt_text_some_if s : opt_text (some_if s) = s.
Proof. unfold some_if. destruct s; reflexivity. Qed.

Lemma nonempty_false s : nonempty s = false -> s = [].
Proof. destruct s; [reflexivity|discriminate]. Qed.

Definition nfc_pair (kv : text * option text) := (nfc (fst kv), option_map nfc (snd kv)).

Definition rendered scheme user pw path q frag : text :=
  sprefix scheme ++ [47; 47] ++ authority user pw ++ join [47] (map (qf CPath) path)
         ++ qpart (join [38] (map rp q)) ++ fpart (qf CFrag frag).

Theorem url_init_rendered scheme user pw rest q frag :
  forallb (not_in [58; 47; 63; 35]) scheme = true ->
  scalar_nfc user -> scalar_nfc pw -> Forall scalar_nfc rest -> Forall pair_ok q -> scalar_nfc frag ->
  url_init T O (rendered scheme user pw ([] :: rest) q frag)
  = MOk (mkU scheme true (nfc user) (nfc pw) fam' h2 pres
             (map nfc ([] :: rest)) (map nfc_pair q) (nfc frag)).
Proof.
  intros Hs Su Sp Fp Fq Sf. unfold url_init, rendered.
  assert (Fpath : Forall scalar_nfc ([] :: rest)).
  { constructor; [unfold scalar_nfc; rewrite nfc_nil; reflexivity|exact Fp]. }
  assert (P0 : join [47] (map (qf CPath) ([] :: rest)) = []
               \/ exists p', join [47] (map (qf CPath) ([] :: rest)) = 47 :: p').
  { assert (Q0 : qf CPath [] = []).
    { unfold qf, quote_full. fold nfc. rewrite nfc_nil. reflexivity. }
    destruct rest as [|y r']; cbn [map].
    - left. cbn [join]. exact Q0.
    - right. rewrite join_nonempty_head, Q0. cbn [app]. eauto. }
  pose proof (parse_url_full scheme user pw _ _ (qf CFrag frag) Hs Su Sp P0
                (path_chars _ Fpath) (query_chars q Fq)) as PU.
  match goal with |- match ?t with [] => _ | _ :: _ => _ end = _ => destruct t as [|x0 xr] eqn:ET end.
  { exfalso. apply app_eq_nil in ET as [_ ET]. discriminate. }
  rewrite PU. cbn [mbind pu_host pu_scheme pu_sep pu_user pu_pass pu_family pu_port
                                       pu_path pu_query pu_fragment].
  rewrite host_decode. cbn [mbind].
  rewrite !opt_text_some_if.
  assert (NEp : ([] :: rest : list text) <> []) by discriminate.
  rewrite (path_back _ NEp Fpath), (parse_qsl_join q Fq), (unq_qf CFrag frag Sf).
  assert (Eu : unq_if_pct T (pu_user_txt user pw) = nfc user).
  { unfold pu_user_txt. destruct (nonempty user || nonempty pw) eqn:U; [apply unq_qf; exact Su|].
    apply orb_false_iff in U as [U1 _]. rewrite (nonempty_false _ U1), nfc_nil. reflexivity. }
  assert (Ep : unq_if_pct T (pu_pass_txt pw) = nfc pw).
  { unfold pu_pass_txt. destruct (nonempty pw) eqn:U; [apply unq_qf; exact Sp|].
    rewrite (nonempty_false _ U), nfc_nil. reflexivity. }
  rewrite Eu, Ep. reflexivity.
Qed.

(* ---- to_text(full_quote=True) produces that text ------------------------------------------------------- *)
Lemma get_authority_plain scheme sep user pw fam host port path q frag :
  let u := mkU scheme sep user pw fam host port path q frag in
  host <> [] -> (fam =? 6) = false -> memN 58 host = false -> o_idna_enc O host = MOk ht ->
  port_text T u = ptxt ->
  get_authority T O true u = MOk (authority user pw).
Proof.
  intros u NE F6 M58 ENC PT. unfold get_authority. cbn [u u_user u_pass u_host u_family].
  destruct host as [|h0 hr]; [contradiction|].
  rewrite F6, M58. cbn [orb]. rewrite ENC. cbn [mbind]. fold u. rewrite PT. reflexivity.
Qed.

Lemma get_authority_v6 scheme sep user pw fam host port path q frag :
  let u := mkU scheme sep user pw fam host port path q frag in
  host <> [] -> (fam =? 6) || memN 58 host = true -> ht = [91] ++ host ++ [93] ->
  port_text T u = ptxt ->
  get_authority T O true u = MOk (authority user pw).
Proof.
  intros u NE F6 EH PT. unfold get_authority. cbn [u u_user u_pass u_host u_family].
  destruct host as [|h0 hr]; [contradiction|].
  rewrite F6. cbn [mbind]. fold u. rewrite PT. unfold authority, userinfo. rewrite EH. reflexivity.
Qed.

Lemma nonempty_app_l a b : nonempty a = true -> nonempty (a ++ b) = true.
Proof. destruct a; [discriminate|reflexivity]. Qed.

Theorem to_text_rendered scheme sep user pw fam host port rest q frag :
  let u := mkU scheme sep user pw fam host port ([] :: rest) q frag in
  nfc [] = [] ->
  get_authority T O true u = MOk (authority user pw) ->
  to_text T O true u = MOk (rendered scheme user pw ([] :: rest) q frag).
Proof.
  intros u N0 GA. unfold to_text. rewrite GA. cbn [mbind]. cbn [u u_scheme u_path u_query u_frag].
  unfold rendered, sprefix. rewrite query_to_text_rp.
  assert (A1 : nonempty (authority user pw) = true).
  { pose proof (authority_ne user pw) as A. destruct (authority user pw); [contradiction|reflexivity]. }
  rewrite A1. change (quote T O true CPath) with (qf CPath). change (quote T O true CFrag frag) with (qf CFrag frag).
  assert (Q0 : qf CPath [] = []).
  { unfold qf, quote_full. fold nfc. rewrite N0. reflexivity. }
  f_equal. f_equal. rewrite <- !app_assoc. cbn [app]. f_equal. f_equal. f_equal.
  destruct rest as [|y r'].
  - cbn [map join]. rewrite Q0. reflexivity.
  - cbn [map]. rewrite join_nonempty_head, Q0. cbn [app nonempty negb]. rewrite andb_false_r. reflexivity.
Qed.

(* ---- rendering the re-parsed URL gives the same text (needs: NFC idempotent, only the empty text
   normalises to the empty text) --------------------------------------------------------------------------- *)
Section Again.
Hypothesis nfc_idem : forall x, nfc (nfc x) = nfc x.
Hypothesis nfc_nonnil : forall x, nfc x = [] -> x = [].

Lemma qf_nfc c x : qf c (nfc x) = qf c x.
Proof. unfold qf, quote_full. fold nfc. rewrite nfc_idem. reflexivity. Qed.

Lemma nonempty_nfc x : nonempty (nfc x) = nonempty x.
Proof.
  destruct x as [|a r]; [rewrite nfc_nil; reflexivity|].
  destruct (nfc (a :: r)) eqn:E; [apply nfc_nonnil in E; discriminate|reflexivity].
Qed.

Lemma rp_nfc kv : rp (nfc_pair kv) = rp kv.
Proof. destruct kv as [k [v|]]; cbn [nfc_pair rp fst snd option_map]; rewrite ?qf_nfc; reflexivity. Qed.

Lemma rendered_nfc scheme user pw rest q frag :
  rendered scheme (nfc user) (nfc pw) ([] :: map nfc rest) (map nfc_pair q) (nfc frag)
  = rendered scheme user pw ([] :: rest) q frag.
Proof.
  unfold rendered, authority, userinfo. rewrite !nonempty_nfc, !qf_nfc.
  cbn [map]. rewrite !map_map.
  rewrite (map_ext (fun x => qf CPath (nfc x)) (qf CPath) (qf_nfc CPath)).
  rewrite (map_ext (fun x => rp (nfc_pair x)) rp rp_nfc). reflexivity.
Qed.
End Again.

End Round.

(* ---- ports 1..65535: str() then int() --------------------------------------------------------------- *)
Definition port_check (n : N) : bool :=
  let ds := str_of_N n in
  match py_int ds with Some z => Z.eqb z (Z.of_N n) | None => false end &&
  all_ascii ds && forallb (not_in [64; 47; 63; 35; 93]) ds && forallb is_digit ds.

(* a port the round trip is claimed for: absent, or non-negative with a decimal rendering that int()
   reads back (Proofs/C06_Ports.v shows by exhaustive computation that every port 0..65535 is) *)
Definition port_wf (p : option Z) : bool :=
  match p with
  | None => true
  | Some p => (0 <=? p)%Z && port_check (Z.to_N p)
  end.

Lemma port_digits n : port_check n = true ->
  py_int (str_of_N n) = Some (Z.of_N n) /\ all_ascii (str_of_N n) = true /\
  forallb (not_in [64; 47; 63; 35; 93]) (str_of_N n) = true /\ forallb is_digit (str_of_N n) = true.
Proof.
  intro C. unfold port_check in C.
  apply andb_true_iff in C as [C C4]. apply andb_true_iff in C as [C C3]. apply andb_true_iff in C as [C1 C2].
  destruct (py_int (str_of_N n)) as [z|]; [|discriminate]. apply Z.eqb_eq in C1. subst z. auto.
Qed.

(* what the parser reads for the port *)
Definition port_back (T : tables) (u : url) : option Z :=
  match port_text T u with [] => None | _ => u_port u end.

Lemma port_text_ok T u :
  port_wf (u_port u) = true ->
  (port_text T u = [] /\ port_back T u = None) \/
  (exists ds p, port_text T u = 58 :: ds /\ port_back T u = Some p /\ py_int ds = Some p /\
                all_ascii ds = true /\ forallb (not_in [64; 47; 63; 35; 93]) ds = true /\
                forallb is_digit ds = true).
Proof.
  intro V. unfold port_back, port_text. destruct (u_port u) as [p|]; [|left; auto].
  destruct (negb (p =? 0)%Z && negb (optZ_eqb (Some p) (default_port T u))); [|left; auto].
  right. exists (str_of_Z p), p.
  cbn [port_wf] in V. apply andb_true_iff in V as [V0 V1]. apply Z.leb_le in V0.
  assert (E : str_of_Z p = str_of_N (Z.to_N p)) by (destruct p; try reflexivity; lia).
  destruct (port_digits (Z.to_N p) V1) as [P1 [P2 [P3 P4]]].
  rewrite E. rewrite Z2N.id in P1 by lia. repeat split; assumption.
Qed.

(* ---- the round-trip theorem ---------------------------------------------------------------------------- *)
(* generic in how the host is written (ht) and read back (hp, fam', h2) *)
Theorem roundtrip_gen T O :
  tables_ok T = true ->
  forall scheme sep user pw fam host port rest q frag ht hp fam' h2,
  let nfc := o_nfc O in
  let u := mkU scheme sep user pw fam host port ([] :: rest) q frag in
  forallb (not_in [58; 47; 63; 35]) scheme = true ->
  nfc [] = [] ->
  all_scalar (nfc user) = true -> all_scalar (nfc pw) = true -> all_scalar (nfc frag) = true ->
  Forall (fun s => all_scalar (nfc s) = true) rest ->
  Forall (pair_ok O) q ->
  ht <> [] -> forallb (not_in [64; 47; 63; 35]) ht = true ->
  get_authority T O true u = MOk (authority T O ht (port_text T u) user pw) ->
  (exists hraw, split_hostport O (ht ++ port_text T u) = MOk (hraw, port_back T u) /\
                parse_host O hraw = MOk (fam', hp)) ->
  decode_host O hp = MOk h2 ->
  port_wf port = true ->
  to_text T O true u = MOk (rendered T O ht (port_text T u) scheme user pw ([] :: rest) q frag) /\
  url_init T O (rendered T O ht (port_text T u) scheme user pw ([] :: rest) q frag)
  = MOk (mkU scheme true (nfc user) (nfc pw) fam' h2 (port_back T u)
             (map nfc ([] :: rest)) (map (nfc_pair O) q) (nfc frag)).
Proof.
  intros TOK scheme sep user pw fam host port rest q frag ht hp fam' h2 nfc u
         Hs N0 Su Sp Sf Fr Fq HTNE HTC GA HP DEC PV.
  pose proof (port_text_ok T u PV) as PO. split.
  - apply (to_text_rendered T O ht HTNE (port_text T u) scheme sep user pw fam host port rest q frag N0 GA).
  - apply (url_init_rendered T O TOK ht HTNE HTC (port_text T u) (port_back T u) PO hp fam' HP h2 DEC N0
             scheme user pw rest q frag Hs Su Sp Fr Fq Sf).
Qed.

Lemma weaken_host_chars ht :
  forallb (not_in [58; 64; 47; 63; 35]) ht = true -> forallb (not_in [64; 47; 63; 35]) ht = true.
Proof.
  apply forallb_weaken. intros c Hc. cbn [memN] in *. rewrite Hc. apply orb_true_r.
Qed.

(* name / IPv4 / IDN hosts *)
Theorem roundtrip T O :
  tables_ok T = true ->
  forall scheme sep user pw fam host port rest q frag ht b4 h2,
  let nfc := o_nfc O in
  let u := mkU scheme sep user pw fam host port ([] :: rest) q frag in
  (* scheme: none of : / ? # (empty for a network-path reference //host/...) *)
  forallb (not_in [58; 47; 63; 35]) scheme = true ->
  (* NFC oracle: the empty text is normalised; normalised components are scalar-value strings *)
  nfc [] = [] ->
  all_scalar (nfc user) = true -> all_scalar (nfc pw) = true -> all_scalar (nfc frag) = true ->
  Forall (fun s => all_scalar (nfc s) = true) rest ->
  Forall (pair_ok O) q ->
  (* host: a name or IPv4 address that the idna codec encodes to ht (no : @ / ? #), decoded back as h2 *)
  host <> [] -> (fam =? 6) = false -> memN 58 host = false -> o_idna_enc O host = MOk ht ->
  ht <> [] -> forallb (not_in [58; 64; 47; 63; 35]) ht = true -> o_inet4 O ht = MOk b4 ->
  (if all_ascii ht then o_idna_dec O ht = MOk h2 else h2 = ht) ->
  (* port: absent or 0..65535 *)
  port_wf port = true ->
  exists full u',
    to_text T O true u = MOk full /\ url_init T O full = MOk u' /\
    u_user u' = nfc user /\ u_pass u' = nfc pw /\ u_path u' = map nfc ([] :: rest) /\
    u_query u' = map (fun kv => (nfc (fst kv), option_map nfc (snd kv))) q /\ u_frag u' = nfc frag /\
    u_scheme u' = scheme /\ u_host u' = h2 /\ u_port u' = port_back T u.
Proof.
  intros TOK scheme sep user pw fam host port rest q frag ht b4 h2 nfc u
         Hs N0 Su Sp Sf Fr Fq HNE F6 M58 ENC HTNE HTC I4 DEC PV.
  pose proof (port_text_ok T u PV) as PO.
  assert (H58 : memN 58 ht = false) by (apply (forallb_not_in_mem _ _ 58 HTC); reflexivity).
  destruct (roundtrip_gen T O TOK scheme sep user pw fam host port rest q frag ht ht (if b4 then 4 else 0) h2
              Hs N0 Su Sp Sf Fr Fq HTNE (weaken_host_chars ht HTC)) as [R P]; try exact PV.
  - apply (get_authority_plain T O ht (port_text T u) scheme sep user pw fam host port ([] :: rest) q frag
             HNE F6 M58 ENC eq_refl).
  - exists ht. split.
    + apply (hostport_parse_plain O (port_text T u) (port_back T u) PO ht HTNE H58).
    + apply (parse_host_plain O ht b4 HTNE H58 I4).
  - apply (decode_host_plain O ht h2 HTNE DEC).
  - eexists. eexists. split; [exact R|]. split; [exact P|]. cbn. repeat split; reflexivity.
Qed.

(* IPv6 hosts: rendered in brackets whenever the host contains ':' (or the family says so) *)
Theorem roundtrip_v6 T O :
  tables_ok T = true ->
  forall scheme sep user pw fam host port rest q frag h2,
  let nfc := o_nfc O in
  let u := mkU scheme sep user pw fam host port ([] :: rest) q frag in
  forallb (not_in [58; 47; 63; 35]) scheme = true ->
  nfc [] = [] ->
  all_scalar (nfc user) = true -> all_scalar (nfc pw) = true -> all_scalar (nfc frag) = true ->
  Forall (fun s => all_scalar (nfc s) = true) rest ->
  Forall (pair_ok O) q ->
  (* host: an address with a ':' and none of ] @ / ? #, which inet_pton(AF_INET6) accepts *)
  memN 58 host = true -> forallb (not_in [93; 64; 47; 63; 35]) host = true ->
  o_inet6 O host = MOk V6Ok -> decode_host O host = MOk h2 ->
  port_wf port = true ->
  exists full u',
    to_text T O true u = MOk full /\ url_init T O full = MOk u' /\
    u_user u' = nfc user /\ u_pass u' = nfc pw /\ u_path u' = map nfc ([] :: rest) /\
    u_query u' = map (fun kv => (nfc (fst kv), option_map nfc (snd kv))) q /\ u_frag u' = nfc frag /\
    u_scheme u' = scheme /\ u_family u' = 6 /\ u_host u' = h2 /\ u_port u' = port_back T u.
Proof.
  intros TOK scheme sep user pw fam host port rest q frag h2 nfc u
         Hs N0 Su Sp Sf Fr Fq H58 HC I6 DEC PV.
  pose proof (port_text_ok T u PV) as PO.
  assert (HNE : host <> []) by (destruct host; [discriminate|discriminate]).
  assert (H93 : memN 93 host = false) by (apply (forallb_not_in_mem _ _ 93 HC); reflexivity).
  set (ht := [91] ++ host ++ [93]).
  assert (HTNE : ht <> []) by discriminate.
  assert (HTC : forallb (not_in [64; 47; 63; 35]) ht = true).
  { unfold ht. rewrite !forallb_app. cbn [forallb]. rewrite !andb_true_r. cbn [andb].
    apply (forallb_weaken [93; 64; 47; 63; 35]); [|exact HC].
    intros c Hc. cbn [memN] in *. rewrite Hc. apply orb_true_r. }
  destruct (roundtrip_gen T O TOK scheme sep user pw fam host port rest q frag ht host 6 h2
              Hs N0 Su Sp Sf Fr Fq HTNE HTC) as [R P]; try exact PV.
  - apply (get_authority_v6 T O ht (port_text T u) scheme sep user pw fam host port ([] :: rest) q frag HNE);
      [rewrite H58; apply orb_true_r|reflexivity|reflexivity].
  - exists (91 :: host ++ [93]). split.
    + apply (hostport_parse_v6 O (port_text T u) (port_back T u) PO host H58 H93).
    + apply (parse_host_v6 O host H58 I6).
  - exact DEC.
  - eexists. eexists. split; [exact R|]. split; [exact P|]. cbn. repeat split; reflexivity.
Qed.

Lemma port_text_back T u1 u2 :
  u_scheme u2 = u_scheme u1 -> u_port u2 = port_back T u1 -> port_text T u2 = port_text T u1.
Proof.
  intros ES EP. unfold port_back in EP. unfold port_text in *. unfold default_port in *. rewrite ES.
  destruct (u_port u1) as [p|] eqn:P1.
  - destruct (negb (p =? 0)%Z && negb (optZ_eqb (Some p) _)) eqn:C.
    + rewrite EP, C. reflexivity.
    + rewrite EP. reflexivity.
  - rewrite EP. reflexivity.
Qed.

(* render o parse o render = render (full quoting), generic in the host form: it suffices that the
   re-parsed URL writes its host the same way (GA1) *)
Theorem fixpoint_full_gen T O :
  tables_ok T = true ->
  forall scheme sep user pw fam host port rest q frag ht hp fam' h2,
  let nfc := o_nfc O in
  let u := mkU scheme sep user pw fam host port ([] :: rest) q frag in
  let u1 := mkU scheme true (nfc user) (nfc pw) fam' h2 (port_back T u)
                ([] :: map nfc rest) (map (nfc_pair O) q) (nfc frag) in
  forallb (not_in [58; 47; 63; 35]) scheme = true ->
  nfc [] = [] -> (forall x, nfc (nfc x) = nfc x) -> (forall x, nfc x = [] -> x = []) ->
  all_scalar (nfc user) = true -> all_scalar (nfc pw) = true -> all_scalar (nfc frag) = true ->
  Forall (fun s => all_scalar (nfc s) = true) rest ->
  Forall (pair_ok O) q ->
  ht <> [] -> forallb (not_in [64; 47; 63; 35]) ht = true ->
  get_authority T O true u = MOk (authority T O ht (port_text T u) user pw) ->
  (exists hraw, split_hostport O (ht ++ port_text T u) = MOk (hraw, port_back T u) /\
                parse_host O hraw = MOk (fam', hp)) ->
  decode_host O hp = MOk h2 ->
  get_authority T O true u1 = MOk (authority T O ht (port_text T u) (nfc user) (nfc pw)) ->
  port_wf port = true ->
  forall full u', to_text T O true u = MOk full -> url_init T O full = MOk u' ->
  to_text T O true u' = MOk full.
Proof.
  intros TOK scheme sep user pw fam host port rest q frag ht hp fam' h2 nfc u u1
         Hs N0 IDEM NN Su Sp Sf Fr Fq HTNE HTC GA HP DEC GA1 PV full u' R P.
  destruct (roundtrip_gen T O TOK scheme sep user pw fam host port rest q frag ht hp fam' h2
              Hs N0 Su Sp Sf Fr Fq HTNE HTC GA HP DEC PV) as [R0 P0].
  pose proof (eq_trans (eq_sym R0) R) as EF. inversion EF as [EF']. subst full. clear EF R.
  pose proof (eq_trans (eq_sym P0) P) as EU. inversion EU as [EU']. clear EU P.
  pose proof (to_text_rendered T O ht HTNE (port_text T u) scheme true (nfc user) (nfc pw)
                fam' h2 (port_back T u) (map nfc rest) (map (nfc_pair O) q) (nfc frag) N0 GA1) as R1.
  cbn [map]. fold nfc. rewrite N0. refine (eq_trans R1 _). f_equal.
  apply (rendered_nfc T O ht (port_text T u) N0 IDEM NN).
Qed.

Theorem fixpoint_full_class T O :
  tables_ok T = true ->
  forall scheme sep user pw fam host port rest q frag ht b4 h2,
  let nfc := o_nfc O in
  let u := mkU scheme sep user pw fam host port ([] :: rest) q frag in
  forallb (not_in [58; 47; 63; 35]) scheme = true ->
  nfc [] = [] -> (forall x, nfc (nfc x) = nfc x) -> (forall x, nfc x = [] -> x = []) ->
  all_scalar (nfc user) = true -> all_scalar (nfc pw) = true -> all_scalar (nfc frag) = true ->
  Forall (fun s => all_scalar (nfc s) = true) rest ->
  Forall (pair_ok O) q ->
  host <> [] -> (fam =? 6) = false -> memN 58 host = false -> o_idna_enc O host = MOk ht ->
  ht <> [] -> forallb (not_in [58; 64; 47; 63; 35]) ht = true -> o_inet4 O ht = MOk b4 ->
  (if all_ascii ht then o_idna_dec O ht = MOk h2 else h2 = ht) ->
  (* the decoded host encodes to the same text again (IDNA round trip) *)
  h2 <> [] -> memN 58 h2 = false -> o_idna_enc O h2 = MOk ht ->
  port_wf port = true ->
  forall full u', to_text T O true u = MOk full -> url_init T O full = MOk u' ->
  to_text T O true u' = MOk full.
Proof.
  intros TOK scheme sep user pw fam host port rest q frag ht b4 h2 nfc u
         Hs N0 IDEM NN Su Sp Sf Fr Fq HNE F6 M58 ENC HTNE HTC I4 DEC H2NE H2M ENC2 PV.
  pose proof (port_text_ok T u PV) as PO.
  assert (H58 : memN 58 ht = false) by (apply (forallb_not_in_mem _ _ 58 HTC); reflexivity).
  apply (fixpoint_full_gen T O TOK scheme sep user pw fam host port rest q frag ht ht (if b4 then 4 else 0) h2
           Hs N0 IDEM NN Su Sp Sf Fr Fq HTNE (weaken_host_chars ht HTC)); try exact PV.
  - apply (get_authority_plain T O ht (port_text T u) scheme sep user pw fam host port ([] :: rest) q frag
             HNE F6 M58 ENC eq_refl).
  - exists ht. split.
    + apply (hostport_parse_plain O (port_text T u) (port_back T u) PO ht HTNE H58).
    + apply (parse_host_plain O ht b4 HTNE H58 I4).
  - apply (decode_host_plain O ht h2 HTNE DEC).
  - apply (get_authority_plain T O ht (port_text T u) scheme true (nfc user) (nfc pw) (if b4 then 4 else 0) h2
             (port_back T u) ([] :: map nfc rest) (map (nfc_pair O) q) (nfc frag) H2NE); try assumption.
    + destruct b4; reflexivity.
    + apply port_text_back; reflexivity.
Qed.

Theorem fixpoint_full_v6 T O :
  tables_ok T = true ->
  forall scheme sep user pw fam host port rest q frag,
  let nfc := o_nfc O in
  let u := mkU scheme sep user pw fam host port ([] :: rest) q frag in
  forallb (not_in [58; 47; 63; 35]) scheme = true ->
  nfc [] = [] -> (forall x, nfc (nfc x) = nfc x) -> (forall x, nfc x = [] -> x = []) ->
  all_scalar (nfc user) = true -> all_scalar (nfc pw) = true -> all_scalar (nfc frag) = true ->
  Forall (fun s => all_scalar (nfc s) = true) rest ->
  Forall (pair_ok O) q ->
  memN 58 host = true -> forallb (not_in [93; 64; 47; 63; 35]) host = true ->
  o_inet6 O host = MOk V6Ok -> decode_host O host = MOk host ->
  port_wf port = true ->
  forall full u', to_text T O true u = MOk full -> url_init T O full = MOk u' ->
  to_text T O true u' = MOk full.
Proof.
  intros TOK scheme sep user pw fam host port rest q frag nfc u
         Hs N0 IDEM NN Su Sp Sf Fr Fq H58 HC I6 DEC PV.
  pose proof (port_text_ok T u PV) as PO.
  assert (HNE : host <> []) by (destruct host; [discriminate|discriminate]).
  assert (H93 : memN 93 host = false) by (apply (forallb_not_in_mem _ _ 93 HC); reflexivity).
  set (ht := [91] ++ host ++ [93]).
  assert (HTNE : ht <> []) by discriminate.
  assert (HTC : forallb (not_in [64; 47; 63; 35]) ht = true).
  { unfold ht. rewrite !forallb_app. cbn [forallb]. rewrite !andb_true_r. cbn [andb].
    apply (forallb_weaken [93; 64; 47; 63; 35]); [|exact HC].
    intros c Hc. cbn [memN] in *. rewrite Hc. apply orb_true_r. }
  apply (fixpoint_full_gen T O TOK scheme sep user pw fam host port rest q frag ht host 6 host
           Hs N0 IDEM NN Su Sp Sf Fr Fq HTNE HTC); try exact PV.
  - apply (get_authority_v6 T O ht (port_text T u) scheme sep user pw fam host port ([] :: rest) q frag HNE);
      [rewrite H58; apply orb_true_r|reflexivity|reflexivity].
  - exists (91 :: host ++ [93]). split.
    + apply (hostport_parse_v6 O (port_text T u) (port_back T u) PO host H58 H93).
    + apply (parse_host_v6 O host H58 I6).
  - exact DEC.
  - apply (get_authority_v6 T O ht (port_text T u) scheme true (nfc user) (nfc pw) 6 host
             (port_back T u) ([] :: map nfc rest) (map (nfc_pair O) q) (nfc frag) HNE);
      [reflexivity|reflexivity|apply port_text_back; reflexivity].
Qed.
