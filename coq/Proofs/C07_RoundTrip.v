(* URL(text) of a printed URL object gives the object back (model level), on the
   plain-text domain: so the theorems about URL objects are theorems about the
   texts navigate() is called with. *)
From Boltons Require Import Lib.Prelude Lib.C07_Str Spec.C07_Spec Gen.C07_Gen Model.C07_Model
     Check.C07_Check Proofs.C07_StrLemmas Proofs.C07_Rds Proofs.C07_Resolve Proofs.C07_Parse
     Proofs.C07_Navigate Proofs.C07_Text Proofs.C07_Refine.
Open Scope N_scope.

(* no '%', no line break: unquote is the identity and the regex sees one line *)
Definition plain_char (c : N) : bool := negb ((c =? PCT) || (c =? 10) || (c =? 13)).
Definition plain (t : str) : Prop := forallb plain_char t = true.

Lemma plain_not_excluded t : plain t ->
  existsb (fun c => (c =? PCT) || (c =? 10) || (c =? 13)) t = false.
Proof.
  unfold plain. induction t as [|c t IH]; intro H; [reflexivity|].
  cbn [forallb existsb] in *. apply andb_true_iff in H as [Hc Ht]. unfold plain_char in Hc.
  apply negb_true_iff in Hc. rewrite Hc, (IH Ht). reflexivity.
Qed.

(* ---- generic split / partition facts ------------------------------------------------------ *)
Definition lacks (x : N) (s : str) : Prop := forallb (fun c => negb (c =? x)) s = true.

Lemma lacks_cons x c s : lacks x (c :: s) -> (c =? x) = false /\ lacks x s.
Proof.
  unfold lacks. cbn [forallb]. intro H. apply andb_true_iff in H as [H1 H2].
  apply negb_true_iff in H1. split; assumption.
Qed.

Lemma split_lacks x s : lacks x s -> split x s = [s].
Proof.
  induction s as [|c s IH]; intro H; [reflexivity|].
  apply lacks_cons in H as [Hc Hs]. cbn [split]. rewrite Hc, (IH Hs). reflexivity.
Qed.

Lemma split_app_sep x s t : lacks x s -> split x (s ++ x :: t) = s :: split x t.
Proof.
  induction s as [|c s IH]; intro H.
  - cbn [app split]. rewrite N.eqb_refl. reflexivity.
  - apply lacks_cons in H as [Hc Hs]. cbn [app split]. rewrite Hc, (IH Hs). reflexivity.
Qed.

Lemma split_join x first rest : lacks x first -> Forall (lacks x) rest ->
  split x (first ++ concat (map (app [x]) rest)) = first :: rest.
Proof.
  revert first. induction rest as [|r rest IH]; intros first Hf Hr.
  - cbn [map concat]. rewrite app_nil_r. apply split_lacks, Hf.
  - inversion Hr; subst. cbn [map concat]. change ([x] ++ r) with (x :: r).
    cbn [app]. rewrite (split_app_sep x first _ Hf), IH by assumption. reflexivity.
Qed.

Lemma partition_lacks x s : lacks x s -> partition_at x s = (s, false, []).
Proof.
  induction s as [|c s IH]; intro H; [reflexivity|].
  apply lacks_cons in H as [Hc Hs]. cbn [partition_at]. rewrite Hc, (IH Hs). reflexivity.
Qed.

Lemma partition_app_sep x s t : lacks x s -> partition_at x (s ++ x :: t) = (s, true, t).
Proof.
  induction s as [|c s IH]; intro H.
  - cbn [app partition_at]. rewrite N.eqb_refl. reflexivity.
  - apply lacks_cons in H as [Hc Hs]. cbn [app partition_at]. rewrite Hc, (IH Hs). reflexivity.
Qed.

Lemma forallb_lacks (P : N -> bool) x s : P x = false -> forallb P s = true -> lacks x s.
Proof.
  intros Hx H. unfold lacks. eapply forallb_impl; [|exact H]. intros c Hc. apply negb_true_iff.
  apply N.eqb_neq. intro E. subst c. congruence.
Qed.

(* ---- the query string ----------------------------------------------------------------------- *)
(* as kv_ok, and a value that is present is not empty ("k=" is not in the modelled domain) *)
Definition kv_ok' (kv : str * option str) : Prop :=
  kv_ok kv /\ match snd kv with Some v => v <> [] | None => True end.

Lemma query_char_not c x : mem x gen_query_delims = true -> query_char c = true -> (c =? x) = false.
Proof.
  intros Hx Hc. apply N.eqb_neq. intro E. subst c. unfold query_char, not_in in Hc.
  rewrite Hx in Hc. discriminate.
Qed.

Lemma query_chars_lack x s : mem x gen_query_delims = true -> forallb query_char s = true -> lacks x s.
Proof.
  intros Hx H. unfold lacks. eapply forallb_impl; [|exact H]. intros c Hc.
  rewrite (query_char_not c x Hx Hc). reflexivity.
Qed.

Lemma kv_text_plain kv : kv_ok kv ->
  kv_text kv = match snd kv with None => fst kv | Some v => fst kv ++ EQS :: v end.
Proof.
  intros (_ & Hk & Hv). unfold kv_text, quote_query_part. destruct (snd kv) as [v|].
  - rewrite (quote_with_id _ _ Hk), (quote_with_id _ _ Hv). reflexivity.
  - rewrite (quote_with_id _ _ Hk). reflexivity.
Qed.

Lemma kv_text_lacks x kv : mem x gen_query_delims = true -> x <> EQS -> kv_ok kv -> lacks x (kv_text kv).
Proof.
  intros Hx Hne K. rewrite (kv_text_plain kv K). destruct K as (_ & Hk & Hv).
  destruct (snd kv) as [v|].
  - unfold lacks. rewrite forallb_app'. cbn [forallb].
    rewrite (query_chars_lack x _ Hx Hk), (query_chars_lack x _ Hx Hv).
    apply N.eqb_neq in Hne. rewrite N.eqb_sym, Hne. reflexivity.
  - apply query_chars_lack; assumption.
Qed.

Lemma kv_partition kv : kv_ok' kv ->
  partition_at EQS (kv_text kv) =
  (fst kv, match snd kv with Some _ => true | None => false end, match snd kv with Some v => v | None => [] end).
Proof.
  intros [K Hv]. rewrite (kv_text_plain kv K). destruct K as (_ & Hk & _).
  assert (L : lacks EQS (fst kv)) by (apply query_chars_lack; [reflexivity|exact Hk]).
  destruct (snd kv) as [v|]; [apply partition_app_sep | apply partition_lacks]; exact L.
Qed.

Lemma join_lacks x sep texts : x <> sep -> Forall (lacks x) texts -> lacks x (join [sep] texts).
Proof.
  intros Hne H. destruct H as [|t l Ht Hl]; [reflexivity|]. cbn [join]. unfold lacks in *.
  rewrite forallb_app', Ht, forallb_concat. cbn [andb].
  induction Hl as [|t' l' Ht' _ IH]; [reflexivity|]. cbn [map]. rewrite forallb_cons, IH.
  change ([sep] ++ t') with (sep :: t'). rewrite forallb_cons, Ht'.
  apply N.eqb_neq in Hne. rewrite N.eqb_sym, Hne. reflexivity.
Qed.

Lemma Forall_kv_texts (P : str -> Prop) l :
  (forall kv, kv_ok kv -> P (kv_text kv)) -> Forall kv_ok l -> Forall P (map kv_text l).
Proof. intros HP H. induction H; constructor; auto. Qed.

Lemma filter_split_join texts : Forall (lacks AMP) texts -> Forall (fun t => t <> []) texts ->
  filter nonempty (split AMP (join [AMP] texts)) = texts.
Proof.
  intros HL HN. destruct HL as [|t l Ht Hl]; [reflexivity|]. cbn [join].
  rewrite (split_join AMP t l Ht Hl). clear Ht Hl.
  induction HN as [|t' l' Hne _ IH]; [reflexivity|]. cbn [filter]. rewrite (nonempty_true _ Hne), IH. reflexivity.
Qed.

Lemma lacks_existsb x s : lacks x s -> existsb (fun c => c =? x) s = false.
Proof.
  induction s as [|c s IH]; intro H; [reflexivity|]. apply lacks_cons in H as [Hc Hs].
  cbn [existsb]. rewrite Hc, (IH Hs). reflexivity.
Qed.

Lemma plain_lacks_pct t : plain t -> lacks PCT t.
Proof.
  unfold plain, lacks. apply forallb_impl. intros c Hc. unfold plain_char in Hc.
  apply negb_true_iff in Hc. apply orb_false_iff in Hc as [Hc _]. apply orb_false_iff in Hc as [Hc _].
  rewrite Hc. reflexivity.
Qed.

Lemma existsb_or3 (s : str) a b c :
  existsb (fun x => (x =? a) || (x =? b) || (x =? c)) s =
  existsb (fun x => x =? a) s || existsb (fun x => x =? b) s || existsb (fun x => x =? c) s.
Proof.
  induction s as [|x s IH]; [reflexivity|]. cbn [existsb]. rewrite IH.
  destruct (x =? a), (x =? b), (x =? c), (existsb (fun x => x =? a) s), (existsb (fun x => x =? b) s);
    reflexivity.
Qed.

Lemma parse_qsl_query_text q : Forall kv_ok' q -> plain (query_text q) ->
  parse_qsl (query_text q) = Some q.
Proof.
  intros H Hplain. unfold parse_qsl. cbv zeta.
  assert (Hok : Forall kv_ok q) by (eapply Forall_impl; [|exact H]; intros kv [K _]; exact K).
  assert (E1 : existsb (fun c => (c =? 59) || (c =? 43) || (c =? PCT)) (query_text q) = false).
  { rewrite existsb_or3, (lacks_existsb PCT _ (plain_lacks_pct _ Hplain)), query_text_eq.
    rewrite (lacks_existsb 59), (lacks_existsb 43); [reflexivity| |];
      (apply join_lacks; [discriminate|]; apply Forall_kv_texts; [|exact Hok]; intros kv K;
       apply kv_text_lacks; [reflexivity|discriminate|exact K]). }
  rewrite E1, query_text_eq.
  rewrite filter_split_join.
  2:{ apply Forall_kv_texts; [|exact Hok]. intros kv K. apply kv_text_lacks; [reflexivity|discriminate|exact K]. }
  2:{ apply Forall_kv_texts; [|exact Hok]. intros kv K. apply (kv_text_ok kv K). }
  rewrite map_map.
  assert (P : map (fun x => partition_at EQS (kv_text x)) q =
              map (fun kv => (fst kv, match snd kv with Some _ => true | None => false end,
                              match snd kv with Some v => v | None => [] end)) q).
  { clear -H. induction H as [|kv l Hkv _ IH]; [reflexivity|]. cbn [map]. rewrite (kv_partition kv Hkv), IH.
    reflexivity. }
  rewrite P.
  match goal with |- context [existsb ?f ?l] => assert (E2 : existsb f l = false) end.
  { clear -H. induction H as [|[k [v|]] l [_ Hv] _ IH]; [reflexivity| |]; cbn [map existsb fst snd]; rewrite IH.
    - cbn [snd] in Hv. destruct v; [contradiction|reflexivity].
    - reflexivity. }
  rewrite E2, map_map. f_equal. rewrite <- (map_id q) at 2. apply map_ext.
  intros [k [v|]]; reflexivity.
Qed.

(* ---- references --------------------------------------------------------------------------------- *)
Lemma or_empty_opt s : or_empty (opt s) = s.
Proof. unfold opt. destruct s; reflexivity. Qed.

Lemma plain_app a b : plain (a ++ b) <-> plain a /\ plain b.
Proof. unfold plain. rewrite forallb_app'. apply andb_true_iff. Qed.

Lemma split_join_parts parts : parts <> [] -> Forall noslash parts -> split SL (join [SL] parts) = parts.
Proof.
  intros Hne H. destruct H as [|x rest Hx Hrest]; [contradiction|].
  cbn [join]. exact (split_seg_abs rest x Hx Hrest).
Qed.

(* a relative reference as URL(text) builds it *)
Record wf_ref_text (d : url) : Prop := {
  wrt_wf : wf_ref d;
  wrt_sep : u_sep d = false;
  wrt_path_ne : u_path d <> [];
  wrt_query : Forall kv_ok' (u_query d);
  wrt_plain : plain (to_text d) }.

Lemma plain_recompose_parts u : plain (recompose u) ->
  plain (path u) /\ plain (match query u with Some q => q | None => [] end).
Proof.
  rewrite recompose_parts. intro H.
  apply plain_app in H as [_ H]. apply plain_app in H as [_ H]. apply plain_app in H as [Hp H].
  apply plain_app in H as [Hq _]. split; [exact Hp|]. unfold Qs in Hq. destruct (query u); [|reflexivity].
  unfold plain in *. cbn [forallb] in Hq. apply andb_true_iff in Hq as [_ Hq]. exact Hq.
Qed.

Theorem ref_round_trip d : wf_ref_text d -> url_of_text (to_text d) = Some d.
Proof.
  intros [W Hsep Hne Hq Hplain]. destruct (ref_facts d W) as (Hu & T & U).
  unfold url_of_text. rewrite (plain_not_excluded _ Hplain). cbv zeta.
  rewrite T in *. rewrite (parse_recompose _ U), Hu. cbn [scheme authority path query fragment or_empty].
  change (scheme_ok []) with true. cbn [negb orb mem existsb].
  change (rpartition_at AT []) with (@nil N, false, @nil N).
  change (partition_at COLON []) with (@nil N, false, @nil N).
  cbn [host_ok is_nil negb orb andb nonempty].
  rewrite or_empty_opt.
  assert (Pq : plain (query_text (u_query d))).
  { apply plain_recompose_parts in Hplain as [_ Pq]. rewrite Hu in Pq. cbn [query] in Pq.
    pose proof (opt_spec (query_text (u_query d))) as S. destruct (opt (query_text (u_query d))).
    - destruct S as [-> _]. exact Pq.
    - rewrite S. reflexivity. }
  rewrite (parse_qsl_query_text _ Hq Pq), or_empty_opt.
  rewrite split_join_parts; [|exact Hne|].
  2:{ eapply Forall_impl; [|exact (wr_segs d W)]. apply seg_ok_noslash. }
  destruct d as [sch sep us pw ho po pa qu fr]. cbn in *.
  pose proof (wr_scheme _ W) as E1. pose proof (wr_user _ W) as E2. pose proof (wr_pass _ W) as E3.
  pose proof (wr_host _ W) as E4. pose proof (wr_port _ W) as E5. cbn in *. subst. reflexivity.
Qed.

(* ---- absolute URLs: the authority ------------------------------------------------------------ *)
From Coq Require Import DecimalN.

Lemma uint_digits_round u : uint_of_digits (digits_of_uint u) = Some u.
Proof. induction u; cbn [digits_of_uint uint_of_digits]; try rewrite IHu; reflexivity. Qed.

Lemma digits_are_digits u : forallb is_digit (digits_of_uint u) = true.
Proof. induction u; cbn [digits_of_uint forallb]; try rewrite IHu; reflexivity. Qed.

Lemma dec_round p : uint_of_digits (dec p) = Some (N.to_uint p) /\ N.of_uint (N.to_uint p) = p.
Proof. split; [apply uint_digits_round | apply DecimalN.Unsigned.of_to]. Qed.

Lemma dec_nonempty p : dec p <> [].
Proof.
  unfold dec. destruct p as [|q]; [discriminate|]. intro E.
  assert (Z : N.to_uint (N.pos q) = Decimal.Nil) by (destruct (N.to_uint (N.pos q)); try discriminate; reflexivity).
  pose proof (DecimalN.Unsigned.of_to (N.pos q)) as R. rewrite Z in R. discriminate.
Qed.

Lemma rpartition_found x a b : lacks x b -> rpartition_at x (a ++ x :: b) = (a, true, b).
Proof.
  intro Hb. unfold rpartition_at. rewrite rev_app_distr. cbn [rev]. rewrite <- app_assoc. cbn [app].
  rewrite (partition_app_sep x (rev b) (rev a)).
  - rewrite !rev_involutive. reflexivity.
  - unfold lacks in *. rewrite forallb_rev. exact Hb.
Qed.

Lemma rpartition_missing x s : lacks x s -> rpartition_at x s = ([], false, s).
Proof.
  intro H. unfold rpartition_at. rewrite (partition_lacks x (rev s)); [reflexivity|].
  unfold lacks in *. rewrite forallb_rev. exact H.
Qed.

Lemma lacks_app x a b : lacks x (a ++ b) <-> lacks x a /\ lacks x b.
Proof. unfold lacks. rewrite forallb_app'. apply andb_true_iff. Qed.

Definition host_char (c : N) : bool := is_alpha c || is_digit c || (c =? 45) || (c =? DOT).
Definition ui_char (c : N) : bool := mem c gen_userinfo_safe.

(* obligations over the regenerated userinfo table: '@' and ':' are not safe there *)
Lemma ui_lacks x s : mem x gen_userinfo_safe = false -> forallb ui_char s = true -> lacks x s.
Proof.
  intros Hx H. apply (forallb_lacks ui_char); [exact Hx | exact H].
Qed.

Lemma quote_ui_id s : forallb ui_char s = true -> quote_userinfo_part s = s.
Proof.
  induction s as [|c s IH]; intro H; [reflexivity|]. cbn [forallb] in H. apply andb_true_iff in H as [Hc Hs].
  unfold quote_userinfo_part in *. cbn [flat_map]. unfold ui_char in Hc. rewrite Hc, (IH Hs). reflexivity.
Qed.

Lemma host_lacks x s : host_char x = false -> forallb host_char s = true -> lacks x s.
Proof. apply forallb_lacks. Qed.

Lemma digits_lack x s : is_digit x = false -> forallb is_digit s = true -> lacks x s.
Proof. apply forallb_lacks. Qed.

(* what URL(text) needs of the authority (any case of the host) *)
Record atx (b : url) : Prop := {
  atx_user : forallb ui_char (u_user b) = true;
  atx_pass : forallb ui_char (u_pass b) = true;
  atx_pass_user : u_pass b <> [] -> u_user b <> [];
  atx_host_ne : u_host b <> [];
  atx_host_ok : host_ok (u_host b) = true;
  atx_host_chars : forallb host_char (u_host b) = true;
  atx_port : match u_port b with
             | Some p => p <> 0 /\ option_eqb N.eqb (Some p) (default_port (u_scheme b)) = false
             | None => True end;
  atx_ascii : existsb (fun c => 127 <? c) (authority_text b) = false }.

(* an absolute URL as URL(text) builds it, in the URL type's normal form *)
Record wf_base_text (b : url) : Prop := {
  wbt_wf : wf_base b;
  wbt_sep : u_sep b = true;
  wbt_scheme_ok : scheme_ok (u_scheme b) = true;
  wbt_user : forallb ui_char (u_user b) = true;
  wbt_pass : forallb ui_char (u_pass b) = true;
  wbt_pass_user : u_pass b <> [] -> u_user b <> [];
  wbt_host_ok : host_ok (u_host b) = true;
  wbt_host_chars : forallb host_char (u_host b) = true;
  wbt_port : match u_port b with
             | Some p => p <> 0 /\ option_eqb N.eqb (Some p) (default_port (u_scheme b)) = false
             | None => True end;
  wbt_ascii : existsb (fun c => 127 <? c) (authority_text b) = false;
  wbt_query : Forall kv_ok' (u_query b);
  wbt_plain : plain (to_text b) }.

Lemma wbt_atx b : wf_base_text b -> atx b.
Proof.
  intro W. constructor.
  - exact (wbt_user b W).
  - exact (wbt_pass b W).
  - exact (wbt_pass_user b W).
  - exact (wb_host_ne b (wbt_wf b W)).
  - exact (wbt_host_ok b W).
  - exact (wbt_host_chars b W).
  - exact (wbt_port b W).
  - exact (wbt_ascii b W).
Qed.

Definition ui_text (b : url) : str :=
  u_user b ++ (if nonempty (u_pass b) then COLON :: u_pass b else []).
Definition hp_text (b : url) : str :=
  u_host b ++ match u_port b with Some p => COLON :: dec p | None => [] end.

Lemma authority_shape b : atx b ->
  authority_text b = (if nonempty (u_user b) then ui_text b ++ [AT] else []) ++ hp_text b /\
  (nonempty (u_user b) = false -> u_pass b = []).
Proof.
  intros W. unfold authority_text, ui_text, hp_text.
  rewrite (quote_ui_id _ (atx_user b W)), (quote_ui_id _ (atx_pass b W)).
  rewrite (nonempty_true _ (atx_host_ne b W)).
  assert (NC : mem COLON (u_host b) = false).
  { pose proof (host_lacks COLON _ eq_refl (atx_host_chars b W)) as L. unfold mem.
    rewrite <- (lacks_existsb COLON _ L). clear. induction (u_host b) as [|c s IH]; [reflexivity|].
    cbn [existsb]. rewrite IH, (N.eqb_sym COLON c). reflexivity. }
  rewrite NC.
  assert (PU : nonempty (u_user b) = false -> u_pass b = []).
  { intro E. destruct (u_pass b) as [|c p] eqn:Ep; [reflexivity|]. exfalso.
    assert (u_user b <> []) by (apply (atx_pass_user b W); rewrite Ep; discriminate).
    destruct (u_user b); [contradiction|discriminate]. }
  split; [|exact PU].
  f_equal.
  - destruct (nonempty (u_user b)) eqn:Eu.
    + cbn [orb]. rewrite <- app_assoc. reflexivity.
    + rewrite (PU eq_refl). reflexivity.
  - f_equal. pose proof (atx_port b W) as HP. destruct (u_port b) as [p|]; [|reflexivity].
    destruct HP as [H0 HD]. apply N.eqb_neq in H0. rewrite H0, HD. reflexivity.
Qed.

Lemma hp_lacks_at b : atx b -> lacks AT (hp_text b).
Proof.
  intro W. unfold hp_text. apply lacks_app. split.
  - apply (host_lacks AT _ eq_refl (atx_host_chars b W)).
  - destruct (u_port b) as [p|]; [|reflexivity]. unfold lacks. cbn [forallb].
    change (negb (COLON =? AT)) with true. cbn [andb].
    apply (digits_lack AT _ eq_refl (digits_are_digits _)).
Qed.

Lemma ui_partition b : atx b ->
  partition_at COLON (ui_text b) = (u_user b, nonempty (u_pass b), u_pass b).
Proof.
  intro W. unfold ui_text.
  assert (L : lacks COLON (u_user b)) by (apply (ui_lacks COLON _ eq_refl (atx_user b W))).
  destruct (u_pass b) as [|c p]; cbn [nonempty].
  - rewrite List.app_nil_r. apply partition_lacks, L.
  - apply partition_app_sep, L.
Qed.

Lemma hp_partition b : atx b ->
  partition_at COLON (hp_text b) =
  (u_host b, match u_port b with Some _ => true | None => false end,
   match u_port b with Some p => dec p | None => [] end).
Proof.
  intro W. unfold hp_text.
  assert (L : lacks COLON (u_host b)) by (apply (host_lacks COLON _ eq_refl (atx_host_chars b W))).
  destruct (u_port b) as [p|].
  - apply partition_app_sep, L.
  - rewrite List.app_nil_r. apply partition_lacks, L.
Qed.

Lemma mem_lacks x s : lacks x s -> mem x s = false.
Proof.
  intro L. unfold mem. rewrite <- (lacks_existsb x s L). clear.
  induction s as [|c s IH]; [reflexivity|]. cbn [existsb]. rewrite IH, (N.eqb_sym x c). reflexivity.
Qed.

Lemma authority_lacks b x : atx b ->
  mem x gen_userinfo_safe = false -> host_char x = false -> is_digit x = false ->
  x <> AT -> x <> COLON -> lacks x (authority_text b).
Proof.
  intros W Hu Hh Hd Hat Hco. destruct (authority_shape b W) as [E _]. rewrite E.
  assert (NAT : negb (AT =? x) = true) by (apply negb_true_iff, N.eqb_neq; congruence).
  assert (NCO : negb (COLON =? x) = true) by (apply negb_true_iff, N.eqb_neq; congruence).
  apply lacks_app. split.
  - destruct (nonempty (u_user b)); [|reflexivity]. unfold ui_text. apply lacks_app. split.
    + apply lacks_app. split; [apply (ui_lacks x _ Hu (atx_user b W))|].
      destruct (nonempty (u_pass b)); [|reflexivity]. unfold lacks. cbn [forallb]. rewrite NCO.
      apply (ui_lacks x _ Hu (atx_pass b W)).
    + unfold lacks. cbn [forallb]. rewrite NAT. reflexivity.
  - unfold hp_text. apply lacks_app. split; [apply (host_lacks x _ Hh (atx_host_chars b W))|].
    destruct (u_port b); [|reflexivity]. unfold lacks. cbn [forallb]. rewrite NCO.
    apply (digits_lack x _ Hd (digits_are_digits _)).
Qed.

Theorem base_round_trip b : wf_base_text b -> url_of_text (to_text b) = Some b.
Proof.
  intros W. pose proof (wbt_wf b W) as Wb.
  destruct (base_facts b Wb) as (segs & Hp & Hs & Hu & T & U).
  pose proof (wbt_plain b W) as Hplain.
  unfold url_of_text. rewrite (plain_not_excluded _ Hplain). cbv zeta.
  rewrite T in *. rewrite (parse_recompose _ U), Hu. cbn [scheme authority path query fragment or_empty].
  rewrite (wbt_scheme_ok b W).
  rewrite (mem_lacks 91 _ (authority_lacks b 91 (wbt_atx b W) eq_refl eq_refl eq_refl ltac:(discriminate) ltac:(discriminate))).
  rewrite (mem_lacks 93 _ (authority_lacks b 93 (wbt_atx b W) eq_refl eq_refl eq_refl ltac:(discriminate) ltac:(discriminate))).
  rewrite (wbt_ascii b W). cbn [negb orb].
  destruct (authority_shape b (wbt_atx b W)) as [EA PU]. rewrite EA.
  assert (Pq : plain (query_text (u_query b))).
  { apply plain_recompose_parts in Hplain as [_ Pq]. rewrite Hu in Pq. cbn [query] in Pq.
    pose proof (opt_spec (query_text (u_query b))) as S. destruct (opt (query_text (u_query b))).
    - destruct S as [-> _]. exact Pq.
    - rewrite S. reflexivity. }
  assert (Hsplit : split SL (abs_path segs) = [] :: segs).
  { apply split_abs_path. eapply Forall_impl; [|exact Hs]. apply seg_ok_noslash. }
  destruct (nonempty (u_user b)) eqn:Eu.
  - rewrite <- app_assoc. cbn [app]. rewrite (rpartition_found AT (ui_text b) (hp_text b) (hp_lacks_at b (wbt_atx b W))).
    rewrite (ui_partition b (wbt_atx b W)), (hp_partition b (wbt_atx b W)). cbv beta iota zeta. rewrite (wbt_host_ok b W).
    rewrite is_nil_nonempty, Eu. cbn [negb andb orb].
    match goal with |- match ?X with _ => _ end = _ => assert (Hport : X = Some (u_port b)) end.
    { destruct (u_port b) as [p|]; [|reflexivity]. destruct (dec_round p) as [R1 R2].
      pose proof (dec_nonempty p) as NE. destruct (dec p) eqn:Ed; [contradiction|].
      cbn [is_nil]. rewrite R1, R2. reflexivity. }
    rewrite Hport.
    rewrite or_empty_opt, (parse_qsl_query_text _ (wbt_query b W) Pq), or_empty_opt, Hsplit, <- Hp.
    pose proof (wbt_sep b W) as Es. clear -Es. destruct b as [sch sep us pw ho po pa qu fr]. cbn in *. subst. reflexivity.
  - cbn [app]. rewrite (rpartition_missing AT _ (hp_lacks_at b (wbt_atx b W))).
    rewrite (hp_partition b (wbt_atx b W)). cbv beta iota zeta. rewrite (wbt_host_ok b W).
    cbn [is_nil nonempty negb andb orb].
    match goal with |- match ?X with _ => _ end = _ => assert (Hport : X = Some (u_port b)) end.
    { destruct (u_port b) as [p|]; [|reflexivity]. destruct (dec_round p) as [R1 R2].
      pose proof (dec_nonempty p) as NE. destruct (dec p) eqn:Ed; [contradiction|].
      cbn [is_nil]. rewrite R1, R2. reflexivity. }
    rewrite Hport.
    rewrite or_empty_opt, (parse_qsl_query_text _ (wbt_query b W) Pq), or_empty_opt, Hsplit, <- Hp.
    pose proof (PU eq_refl) as Epw. destruct (u_user b) eqn:Eus; [|discriminate].
    pose proof (wbt_sep b W) as Es. clear -Es Epw Eus. destruct b as [sch sep us pw ho po pa qu fr]. cbn in *. subst. reflexivity.
Qed.

(* ---- the capstone, on texts ---------------------------------------------------------------------- *)
Definition dest_text_ok (d : url) : Prop := wf_ref_text d \/ wf_base_text d.

Lemma dest_text_ok_wf d : dest_text_ok d -> wf_ref d \/ wf_base d.
Proof. intros [W|W]; [left; exact (wrt_wf d W) | right; exact (wbt_wf d W)]. Qed.

Lemma dest_round_trip d : dest_text_ok d -> url_of_text (to_text d) = Some d.
Proof. intros [W|W]; [apply ref_round_trip | apply base_round_trip]; exact W. Qed.

(* For every base and every two destinations in normal form: running the model
   on their TEXTS yields an observation, and that observation satisfies the
   predicate the correspondence run evaluates on the implementation. *)
Theorem model_on_texts_satisfies_spec b d1 d2 f1 f2 o0 :
  wf_base_text b -> dest_text_ok d1 -> dest_text_ok d2 ->
  exists o, c07_model (mkCase (to_text b) false (to_text d1) f1 (to_text d2) f2 o0) = Some o /\
            c07_holds (mkCase (to_text b) false (to_text d1) f1 (to_text d2) f2 o) = true.
Proof.
  intros Wb W1 W2. exists (record_obs b d1 d2). split.
  - apply c07_model_on_texts; [apply base_round_trip; exact Wb | apply dest_round_trip; assumption ..].
  - apply model_observation_satisfies_spec;
      [exact (wbt_wf b Wb) | apply dest_text_ok_wf; assumption ..].
Qed.

(* ---- inhabitants ------------------------------------------------------------------------------------ *)
Ltac wf_concrete' :=
  constructor; vm_compute;
  repeat first [ discriminate | reflexivity | exact I | (intro; assumption) | (eexists; reflexivity)
               | split | constructor ].

Lemma ex_base_text_ok : wf_base_text ex_base. Proof. wf_concrete'. Qed.
Lemma ex_ref1_text_ok : wf_ref_text ex_ref1. Proof. wf_concrete'. Qed.
Lemma ex_ref2_text_ok : wf_ref_text ex_ref2. Proof. wf_concrete'. Qed.
Lemma ex_abs_text_ok : wf_base_text ex_abs. Proof. wf_concrete'. Qed.
