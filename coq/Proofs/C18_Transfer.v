(* How a run transfers the theorems to the code: whenever the checker finds that
   the model reproduces an implementation run (agree), that run satisfies the
   reference (the part of holds that concerns it) - for every case, not only the
   ones evaluated. *)
From Coq Require Import ZifyBool.
From Boltons Require Import Lib.Prelude Spec.C18_Spec Model.C18_Model Check.C18_Check
  Proofs.C18_Bytes Proofs.C18_Mfr Proofs.C18_Utf8 Proofs.C18_StringRun.

Lemma exn_eqb_eq a b : exn_eqb a b = true -> a = b.
Proof.
  destruct a, b; cbn; try discriminate; try reflexivity; intro H; apply Nat.eqb_eq in H; now subst.
Qed.

Lemma data_eqb_eq a b : data_eqb a b = true <-> a = b.
Proof. apply list_eqb_eq. intros x y. apply N.eqb_eq. Qed.

Lemma fobs_eqb_eq a b : fobs_eqb a b = true -> a = b.
Proof.
  destruct a, b; cbn; try discriminate; try reflexivity; intro H.
  - apply data_eqb_eq in H. now subst.
  - apply (list_eqb_eq data_eqb data_eqb_eq) in H. now subst.
  - apply Nat.eqb_eq in H. now subst.
  - apply exn_eqb_eq in H. now subst.
Qed.

Lemma fobs_eqb_refl a : fobs_eqb a a = true.
Proof.
  destruct a; cbn; try reflexivity.
  - now apply data_eqb_eq.
  - now apply (list_eqb_eq data_eqb data_eqb_eq).
  - apply Nat.eqb_refl.
  - destruct e; cbn; try reflexivity; apply Nat.eqb_refl.
Qed.

Lemma step_obs_eqb_eq a b : step_obs_eqb a b = true <-> a = b.
Proof.
  unfold step_obs_eqb. destruct a as [o t], b as [o' t']. cbn. split.
  - intro H. apply andb_true_iff in H as [H1 H2]. apply fobs_eqb_eq in H1. apply Nat.eqb_eq in H2. now subst.
  - intro H. injection H as -> ->. now rewrite fobs_eqb_refl, Nat.eqb_refl.
Qed.

Lemma obs_list_eqb_eq a b : obs_list_eqb a b = true <-> a = b.
Proof. apply list_eqb_eq. exact step_obs_eqb_eq. Qed.

(* a group of runs, one of which is a Spooled run with this max_size *)
Definition spooled_member (g : run_group) : Prop := exists max, In (Some max) (fst g).

Lemma agree_runs_member model runs : agree_runs model runs = true ->
  Forall (fun g : run_group => forall max, In (Some max) (fst g) -> model max = snd g) runs.
Proof.
  unfold agree_runs. intro H. rewrite forallb_forall in H. apply Forall_forall. intros g Hg max Hm.
  specialize (H g Hg). rewrite forallb_forall in H. specialize (H _ Hm). cbn in H.
  now apply obs_list_eqb_eq.
Qed.

(* SpooledBytesIO: agree on a run => that run is what the reference gives *)
Theorem transfer_bytes ops runs r :
  ref_run KBytes rf_empty ops = Some r ->
  agree_runs (fun max => sb_run (sb_init max) ops) runs = true ->
  Forall (fun g : run_group => spooled_member g -> snd g = r) runs.
Proof.
  intros R A. apply agree_runs_member in A. eapply Forall_impl; [|exact A].
  intros g H [max Hm]. rewrite <- (H max Hm). now apply bytes_refines_reference.
Qed.

(* SpooledStringIO *)
Theorem transfer_string chunk ops runs r :
  1 <= chunk -> Forall op_valid ops ->
  ref_run KString rf_empty ops = Some r ->
  agree_runs (fun max => ss_run (ss_init max chunk) ops) runs = true ->
  Forall (fun g : run_group => spooled_member g -> snd g = r) runs.
Proof.
  intros Ch V R A. apply agree_runs_member in A. eapply Forall_impl; [|exact A].
  intros g H [max Hm]. rewrite <- (H max Hm). now apply string_refines_reference.
Qed.

(* MultiFileReader: agree => holds, for every case *)
Theorem transfer_mfr contents ops obs :
  fst (fst (c18_verdict (CMfr contents ops obs))) = true ->
  snd (fst (c18_verdict (CMfr contents ops obs))) = true.
Proof.
  cbn [c18_verdict fst snd]. intros A.
  destruct (mref_run (mkRF (concat contents) 0) ops) as [r|] eqn:R.
  - rewrite <- (mfr_reads_concatenation contents ops r R). exact A.
  - exfalso. clear A. revert R. generalize (mkRF (concat contents) 0).
    induction ops as [|op ops IH]; intros f R; cbn in *; [discriminate|].
    destruct (mref_step f op) as [f' o]. destruct (mref_run f' ops) eqn:E; [discriminate|].
    eapply IH; eassumption.
Qed.
