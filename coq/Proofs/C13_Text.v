(* Text level of FunctionBuilder (C13): the parameter-list text that
   get_sig_str / get_invocation_str produce reads back as the intended
   structure, for ANY FunctionBuilder shape and ANY rendering of name tokens
   as identifiers.  In particular the regular expression  \*\s*,\s*  removes
   the bare keyword-only marker "*, " and nothing else.
   Definitions live in Model/C13_Text.v; proofs only here, no axioms. *)
From Boltons Require Import Lib.Prelude Spec.C13_Spec Model.C13_Model Model.C13_Text.
From Coq Require Import Lia.
Local Open Scope N_scope.

(* ---- characters ------------------------------------------------------------------ *)
Ltac b2p :=
  repeat match goal with
  | H : _ || _ = true |- _ => apply orb_true_iff in H; destruct H as [H|H]
  | H : _ && _ = true |- _ => apply andb_true_iff in H; destruct H as [? H]
  | H : (_ <=? _) = true |- _ => apply N.leb_le in H
  | H : (_ =? _) = true |- _ => apply N.eqb_eq in H
  end.

Lemma idchar_facts c : idchar c = true ->
  is_space c = false /\ (c =? STAR) = false /\ (c =? COMMA) = false /\ (c =? EQUALS) = false.
Proof.
  unfold idchar. destruct (is_space c) eqn:Hs; cbn [negb]; intros H.
  - exfalso. rewrite andb_false_r, orb_false_r in H. unfold is_space in Hs.
    b2p; lia.
  - rewrite andb_true_r in H. split; [reflexivity|]. unfold STAR, COMMA, EQUALS.
    rewrite !N.eqb_neq. b2p; lia.
Qed.

Lemma idchar_ne c : idchar c = true -> c <> STAR /\ c <> COMMA /\ c <> EQUALS /\ c <> SPACE.
Proof.
  intros H. destruct (idchar_facts c H) as (Hs & H1 & H2 & H3).
  apply N.eqb_neq in H1, H2, H3. repeat split; try assumption.
  intros ->. discriminate Hs.
Qed.

Lemma is_space_SPACE : is_space SPACE = true. Proof. reflexivity. Qed.
Lemma is_space_STAR : is_space STAR = false. Proof. reflexivity. Qed.
Lemma is_space_COMMA : is_space COMMA = false. Proof. reflexivity. Qed.

Lemma idchars_cons c t : forallb idchar (c :: t) = true ->
  idchar c = true /\ forallb idchar t = true.
Proof. cbn [forallb]. intros H. apply andb_true_iff in H. exact H. Qed.

Lemma ident_inv t : ident t = true ->
  exists c r, t = c :: r /\ idchar c = true /\ forallb idchar t = true.
Proof.
  destruct t as [|c r]; [discriminate|]. unfold ident. intros H.
  exists c, r. split; [reflexivity|]. split; [|exact H].
  apply idchars_cons in H. tauto.
Qed.

(* ---- the regex substitution: one step at a time ------------------------------------ *)
Lemma scan_N_other c r : (c =? STAR) = false -> scan Normal (c :: r) = c :: scan Normal r.
Proof. intros H. cbn [scan]. rewrite H. reflexivity. Qed.

Lemma scan_N_star r : scan Normal (STAR :: r) = scan (AfterStar []) r.
Proof. reflexivity. Qed.

Lemma scan_A_other c r : is_space c = false -> (c =? COMMA) = false ->
  scan (AfterStar []) (c :: r) = STAR :: scan Normal (c :: r).
Proof. intros H1 H2. cbn [scan]. rewrite H1, H2. reflexivity. Qed.

Lemma scan_A_comma r : scan (AfterStar []) (COMMA :: r) = scan Eating r.
Proof. reflexivity. Qed.

Lemma scan_E_space c r : is_space c = true -> scan Eating (c :: r) = scan Eating r.
Proof. intros H. cbn [scan]. rewrite H. reflexivity. Qed.

Lemma scan_E_other c r : is_space c = false -> scan Eating (c :: r) = scan Normal (c :: r).
Proof. intros H. cbn [scan]. rewrite H. reflexivity. Qed.

(* "*, " in front of anything that does not start with white space disappears *)
Lemma scan_marker c r : is_space c = false ->
  scan Normal (STAR :: COMMA :: SPACE :: c :: r) = scan Normal (c :: r).
Proof.
  intros H. rewrite scan_N_star, scan_A_comma.
  rewrite (scan_E_space SPACE) by reflexivity. apply scan_E_other. exact H.
Qed.

(* texts the substitution copies unchanged, whatever follows *)
Definition pass (t : text) : Prop :=
  forall rest, scan Normal (t ++ rest) = t ++ scan Normal rest.

Lemma pass_nil : pass [].
Proof. intros rest. reflexivity. Qed.

Lemma pass_app a b : pass a -> pass b -> pass (a ++ b).
Proof. intros Ha Hb rest. rewrite <- !app_assoc. rewrite Ha, Hb. reflexivity. Qed.

Lemma pass_cons c t : (c =? STAR) = false -> pass t -> pass (c :: t).
Proof.
  intros Hc Ht rest. cbn [app]. rewrite scan_N_other by assumption.
  rewrite Ht. reflexivity.
Qed.

Lemma pass_idchars t : forallb idchar t = true -> pass t.
Proof.
  induction t as [|c t IH]; intros H; [apply pass_nil|].
  apply idchars_cons in H as [H1 H2].
  destruct (idchar_facts c H1) as (_ & Hs & _).
  apply pass_cons; auto.
Qed.

Lemma pass_star_ident t : ident t = true -> pass (STAR :: t).
Proof.
  intros H. destruct (ident_inv t H) as (c & r & E & Hc & Hall).
  destruct (idchar_facts c Hc) as (Hs & _ & Hco & _).
  intros rest. subst t. cbn [app]. rewrite scan_N_star.
  rewrite scan_A_other by assumption.
  change (c :: r ++ rest) with ((c :: r) ++ rest).
  rewrite (pass_idchars _ Hall). reflexivity.
Qed.

Lemma pass_dstar_ident t : ident t = true -> pass (STAR :: STAR :: t).
Proof.
  intros H rest. cbn [app]. rewrite scan_N_star.
  rewrite scan_A_other by reflexivity.
  change (STAR :: t ++ rest) with ((STAR :: t) ++ rest).
  rewrite (pass_star_ident t H). reflexivity.
Qed.

Lemma pass_SEP : pass SEP.
Proof.
  unfold SEP. apply pass_cons; [reflexivity|]. apply pass_cons; [reflexivity|]. apply pass_nil.
Qed.

(* ---- join ------------------------------------------------------------------------------ *)
Lemma join_cons_ne (x : text) l : l <> [] -> join SEP (x :: l) = x ++ SEP ++ join SEP l.
Proof. destruct l; [congruence|reflexivity]. Qed.

Lemma strip_ends_parens x : strip_ends (LPAR :: x ++ [RPAR]) = x.
Proof. unfold strip_ends. cbn [tl]. apply removelast_last. Qed.

(* ---- the shapes of specs ----------------------------------------------------------------- *)
Inductive gspec : text -> item -> Prop :=
| GPos t : ident t = true -> gspec t (IPos t)
| GStar t : ident t = true -> gspec (STAR :: t) (IStar t)
| GKw k v : ident k = true -> ident v = true -> gspec (k ++ EQUALS :: v) (IKw k v)
| GDStar t : ident t = true -> gspec (STAR :: STAR :: t) (IDStar t).

Definition hd_ns (t : text) : bool :=
  match t with c :: _ => negb (is_space c) | [] => false end.

Definition good (s : text) : Prop := pass s /\ text_eqb s [STAR] = false.

Lemma gspec_good s i : gspec s i -> good s.
Proof.
  intros H. destruct H as [t H|t H|k v Hk Hv|t H].
  - destruct (ident_inv t H) as (c & r & E & Hc & Hall).
    destruct (idchar_facts c Hc) as (_ & Hs & _).
    split; [apply pass_idchars; exact Hall|].
    subst t. unfold text_eqb. cbn [list_eqb]. rewrite Hs. reflexivity.
  - split; [apply pass_star_ident; exact H|].
    destruct (ident_inv t H) as (c & r & E & _). subst t. reflexivity.
  - destruct (ident_inv k Hk) as (c & r & E & Hc & Hall).
    destruct (ident_inv v Hv) as (c' & r' & E' & Hc' & Hall').
    destruct (idchar_facts c Hc) as (_ & Hs & _).
    split.
    + apply pass_app; [apply pass_idchars; exact Hall|].
      apply pass_cons; [reflexivity|apply pass_idchars; exact Hall'].
    + subst k. unfold text_eqb. cbn [app list_eqb]. rewrite Hs. reflexivity.
  - split; [apply pass_dstar_ident; exact H|]. reflexivity.
Qed.

Lemma Forall2_gspec_good l is : Forall2 gspec l is -> Forall good l.
Proof.
  induction 1 as [|s i l is H _ IH]; constructor; [eapply gspec_good; exact H|exact IH].
Qed.

Lemma pass_join l : Forall good l -> pass (join SEP l).
Proof.
  induction 1 as [|x l Hx Hl IH]; [apply pass_nil|].
  destruct l as [|y l]; [apply Hx|].
  rewrite join_cons_ne by discriminate.
  apply pass_app; [apply Hx|]. apply pass_app; [apply pass_SEP|exact IH].
Qed.

Lemma filter_good l : Forall good l ->
  filter (fun s => negb (text_eqb s [STAR])) l = l.
Proof.
  induction 1 as [|x l Hx Hl IH]; [reflexivity|].
  cbn [filter]. destruct Hx as [_ Hx]. rewrite Hx. cbn [negb]. rewrite IH. reflexivity.
Qed.

(* the bare star, followed by a spec that does not start with white space, goes away
   together with its ", " - and nothing else changes *)
Lemma scan_join_star : forall A c t R rest,
  Forall good A -> is_space c = false -> pass (join SEP ((c :: t) :: R)) ->
  scan Normal (join SEP (A ++ [STAR] :: (c :: t) :: R) ++ rest) =
  join SEP (A ++ (c :: t) :: R) ++ scan Normal rest.
Proof.
  induction A as [|a A IH]; intros c t R rest HA Hs HP.
  - cbn [app].
    change (join SEP ([STAR] :: (c :: t) :: R))
      with (STAR :: COMMA :: SPACE :: join SEP ((c :: t) :: R)).
    assert (HJ : exists J, join SEP ((c :: t) :: R) = c :: J)
      by (destruct R; eexists; reflexivity).
    destruct HJ as [J EJ]. rewrite EJ in *. cbn [app].
    rewrite scan_marker by assumption. apply (HP rest).
  - inversion HA as [|a' A' Ha HA']; subst.
    cbn [app]. rewrite !join_cons_ne by (apply not_eq_sym, app_cons_not_nil).
    rewrite <- !app_assoc. destruct Ha as [Ha _]. rewrite Ha, pass_SEP.
    rewrite IH by assumption. reflexivity.
Qed.

(* ---- reading --------------------------------------------------------------------------------- *)
Lemma lstrip_hd t : hd_ns t = true -> lstrip t = t.
Proof.
  destruct t as [|c r]; [discriminate|]. unfold hd_ns. cbn [lstrip]. intros H.
  apply negb_true_iff in H. rewrite H. reflexivity.
Qed.

Lemma strip_keep x d : hd_ns (x ++ [d]) = true -> is_space d = false ->
  strip (x ++ [d]) = x ++ [d].
Proof.
  intros H1 H2. unfold strip. rewrite (lstrip_hd _ H1). rewrite rev_unit.
  rewrite lstrip_hd.
  - cbn [rev]. rewrite rev_involutive. reflexivity.
  - unfold hd_ns. rewrite H2. reflexivity.
Qed.

Lemma idchars_last t : t <> [] -> forallb idchar t = true ->
  exists x d, t = x ++ [d] /\ idchar d = true.
Proof.
  intros Hn H. destruct (exists_last Hn) as (x & d & E). exists x, d.
  split; [exact E|]. subst t. rewrite forallb_app in H.
  apply andb_true_iff in H as [_ H]. cbn [forallb] in H.
  rewrite andb_true_r in H. exact H.
Qed.

Lemma strip_tail_ident p t : hd_ns (p ++ t) = true -> ident t = true ->
  strip (p ++ t) = p ++ t.
Proof.
  intros Hh Hi. destruct (ident_inv t Hi) as (c & r & E & Hc & Hall).
  assert (Hn : t <> []) by (rewrite E; discriminate).
  destruct (idchars_last t Hn Hall) as (x & d & E2 & Hd).
  destruct (idchar_facts d Hd) as (Hs & _).
  revert Hh. rewrite E2, app_assoc. intros Hh. apply strip_keep; assumption.
Qed.

Lemma hd_ns_ident t : ident t = true -> hd_ns t = true.
Proof.
  intros H. destruct (ident_inv t H) as (c & r & E & Hc & _).
  destruct (idchar_facts c Hc) as (Hs & _). subst t. unfold hd_ns. rewrite Hs. reflexivity.
Qed.

Lemma strip_ident t : ident t = true -> strip t = t.
Proof. intros H. apply (strip_tail_ident [] t); [apply hd_ns_ident|]; exact H. Qed.

Lemma split_eq_idchars t : forall cur, forallb idchar t = true -> split_eq cur t = None.
Proof.
  induction t as [|c t IH]; intros cur H; [reflexivity|].
  apply idchars_cons in H as [H1 H2].
  destruct (idchar_facts c H1) as (_ & _ & _ & He).
  cbn [split_eq]. rewrite He. apply IH. exact H2.
Qed.

Lemma split_eq_kw k v : forall cur, forallb idchar k = true ->
  split_eq cur (k ++ EQUALS :: v) = Some (rev cur ++ k, v).
Proof.
  induction k as [|c k IH]; intros cur H.
  - cbn [app split_eq]. rewrite N.eqb_refl, app_nil_r. reflexivity.
  - apply idchars_cons in H as [H1 H2].
    destruct (idchar_facts c H1) as (_ & _ & _ & He).
    cbn [app split_eq]. rewrite He. rewrite IH by exact H2.
    cbn [rev]. rewrite <- app_assoc. reflexivity.
Qed.

Lemma read_item_nostar t c r : strip t = t -> t = c :: r -> (c =? STAR) = false ->
  read_item t =
  match split_eq [] t with
  | Some (k, v) => if ident (strip k) && ident (strip v)
                   then Some (IKw (strip k) (strip v)) else None
  | None => if ident t then Some (IPos t) else None
  end.
Proof.
  intros E1 E2 Hc. unfold read_item. rewrite E1. subst t. cbv beta iota.
  rewrite Hc. reflexivity.
Qed.

Lemma read_item_star t r : strip t = t -> t = STAR :: r ->
  read_item t =
  match r with
  | [] => Some IBare
  | c2 :: r2 => if c2 =? STAR
                then (if ident r2 then Some (IDStar r2) else None)
                else (if ident r then Some (IStar r) else None)
  end.
Proof. intros E1 E2. unfold read_item. rewrite E1. subst t. reflexivity. Qed.

Lemma read_item_pos t : ident t = true -> read_item t = Some (IPos t).
Proof.
  intros H. destruct (ident_inv t H) as (c & r & E & Hc & Hall).
  destruct (idchar_facts c Hc) as (_ & Hs & _).
  rewrite (read_item_nostar t c r (strip_ident t H) E Hs).
  rewrite (split_eq_idchars t [] Hall). rewrite H. reflexivity.
Qed.

Lemma read_item_istar t : ident t = true -> read_item (STAR :: t) = Some (IStar t).
Proof.
  intros H. destruct (ident_inv t H) as (c & r & E & Hc & Hall).
  destruct (idchar_facts c Hc) as (_ & Hs & _).
  rewrite (read_item_star (STAR :: t) t); [| |reflexivity].
  - subst t. rewrite Hs. rewrite H. reflexivity.
  - apply (strip_tail_ident [STAR] t); [reflexivity|exact H].
Qed.

Lemma read_item_dstar t : ident t = true -> read_item (STAR :: STAR :: t) = Some (IDStar t).
Proof.
  intros H.
  rewrite (read_item_star (STAR :: STAR :: t) (STAR :: t)); [| |reflexivity].
  - change (STAR =? STAR) with true. cbv iota. rewrite H. reflexivity.
  - apply (strip_tail_ident [STAR; STAR] t); [reflexivity|exact H].
Qed.

Lemma read_item_bare : read_item [STAR] = Some IBare.
Proof. reflexivity. Qed.

Lemma read_item_kw k v : ident k = true -> ident v = true ->
  read_item (k ++ EQUALS :: v) = Some (IKw k v).
Proof.
  intros Hk Hv. destruct (ident_inv k Hk) as (c & r & E & Hc & Hall).
  destruct (idchar_facts c Hc) as (Hsp & Hs & _).
  assert (Hstrip : strip (k ++ EQUALS :: v) = k ++ EQUALS :: v).
  { change (k ++ EQUALS :: v) with (k ++ [EQUALS] ++ v). rewrite app_assoc.
    apply strip_tail_ident; [|exact Hv]. subst k. cbn [app]. unfold hd_ns.
    rewrite Hsp. reflexivity. }
  rewrite (read_item_nostar _ c (r ++ EQUALS :: v) Hstrip); [|subst k; reflexivity|exact Hs].
  rewrite (split_eq_kw k v [] Hall). cbn [rev app].
  rewrite (strip_ident k Hk), (strip_ident v Hv), Hk, Hv. reflexivity.
Qed.

(* no commas inside a spec *)
Definition nocomma (t : text) : bool := forallb (fun c => negb (c =? COMMA)) t.

Lemma nocomma_cons c t : (c =? COMMA) = false -> nocomma t = true -> nocomma (c :: t) = true.
Proof. intros H1 H2. unfold nocomma in *. cbn [forallb]. rewrite H1, H2. reflexivity. Qed.

Lemma nocomma_app a b : nocomma a = true -> nocomma b = true -> nocomma (a ++ b) = true.
Proof. intros H1 H2. unfold nocomma in *. rewrite forallb_app, H1, H2. reflexivity. Qed.

Lemma nocomma_idchars t : forallb idchar t = true -> nocomma t = true.
Proof.
  induction t as [|c t IH]; intros H; [reflexivity|].
  apply idchars_cons in H as [H1 H2].
  destruct (idchar_facts c H1) as (_ & _ & Hco & _).
  apply nocomma_cons; auto.
Qed.

Lemma nocomma_ident t : ident t = true -> nocomma t = true.
Proof.
  intros H. destruct (ident_inv t H) as (c & r & _ & _ & Hall). apply nocomma_idchars, Hall.
Qed.

(* what the reader needs from a spec *)
Definition ritem (s : text) (i : item) : Prop :=
  hd_ns s = true /\ nocomma s = true /\ read_item s = Some i.

Lemma gspec_ritem s i : gspec s i -> ritem s i.
Proof.
  intros H. destruct H as [t H|t H|k v Hk Hv|t H].
  - split; [apply hd_ns_ident, H|]. split; [apply nocomma_ident, H|apply read_item_pos, H].
  - split; [reflexivity|]. split; [|apply read_item_istar, H].
    apply nocomma_cons; [reflexivity|apply nocomma_ident, H].
  - split; [|split; [|apply read_item_kw; assumption]].
    + destruct (ident_inv k Hk) as (c & r & E & Hc & _).
      destruct (idchar_facts c Hc) as (Hs & _). subst k. cbn [app]. unfold hd_ns.
      rewrite Hs. reflexivity.
    + apply nocomma_app; [apply nocomma_ident, Hk|].
      apply nocomma_cons; [reflexivity|apply nocomma_ident, Hv].
  - split; [reflexivity|]. split; [|apply read_item_dstar, H].
    apply nocomma_cons; [reflexivity|]. apply nocomma_cons; [reflexivity|apply nocomma_ident, H].
Qed.

Lemma bare_ritem : ritem [STAR] IBare.
Proof. split; [reflexivity|]. split; reflexivity. Qed.

Lemma split_commas_nocomma t : forall cur rest, nocomma t = true ->
  split_commas cur (t ++ rest) = split_commas (rev t ++ cur) rest.
Proof.
  induction t as [|c t IH]; intros cur rest H; [reflexivity|].
  unfold nocomma in H. cbn [forallb] in H. apply andb_true_iff in H as [H1 H2].
  apply negb_true_iff in H1.
  cbn [app split_commas]. rewrite H1. rewrite IH by exact H2.
  cbn [rev]. rewrite <- app_assoc. reflexivity.
Qed.

Lemma split_commas_sep cur J :
  split_commas cur (COMMA :: SPACE :: J) = rev cur :: split_commas [SPACE] J.
Proof. reflexivity. Qed.

Lemma split_commas_join : forall l s cur,
  Forall (fun s => nocomma s = true) (s :: l) ->
  split_commas cur (join SEP (s :: l)) = (rev cur ++ s) :: map (cons SPACE) l.
Proof.
  induction l as [|a l IH]; intros s cur H; inversion H as [|s' l' Hs Hl]; subst.
  - cbn [join map]. pose proof (split_commas_nocomma s cur [] Hs) as E.
    rewrite app_nil_r in E. rewrite E. cbn [split_commas].
    rewrite rev_app_distr, rev_involutive. reflexivity.
  - change (join SEP (s :: a :: l)) with (s ++ COMMA :: SPACE :: join SEP (a :: l)).
    rewrite split_commas_nocomma by exact Hs. rewrite split_commas_sep.
    rewrite IH by exact Hl. cbn [rev app map].
    rewrite rev_app_distr, rev_involutive. reflexivity.
Qed.

Lemma read_item_space s : read_item (SPACE :: s) = read_item s.
Proof. unfold read_item, strip. cbn [lstrip]. rewrite is_space_SPACE. reflexivity. Qed.

Lemma read_items_ok l is : Forall2 ritem l is ->
  read_items l = Some is /\ read_items (map (cons SPACE) l) = Some is.
Proof.
  induction 1 as [|s i l is (_ & _ & Hr) _ [IH1 IH2]]; [split; reflexivity|].
  cbn [map read_items]. rewrite read_item_space, Hr, IH1, IH2. split; reflexivity.
Qed.

Lemma ritem_nocomma l is : Forall2 ritem l is -> Forall (fun s => nocomma s = true) l.
Proof. induction 1 as [|s i l is (_ & Hn & _) _ IH]; constructor; assumption. Qed.

Lemma lstrip_last_ns x c : is_space c = false -> lstrip (x ++ [c]) <> [].
Proof.
  intros H. induction x as [|a x IH]; cbn [app lstrip].
  - rewrite H. discriminate.
  - destruct (is_space a); [exact IH|discriminate].
Qed.

Lemma strip_nonempty t : hd_ns t = true -> strip t <> [].
Proof.
  intros H. unfold strip. rewrite (lstrip_hd t H).
  destruct t as [|c r]; [discriminate|]. unfold hd_ns in H. apply negb_true_iff in H.
  cbn [rev]. pose proof (lstrip_last_ns (rev r) c H) as Hn.
  destruct (lstrip (rev r ++ [c])) as [|a L]; [congruence|].
  cbn [rev]. intros E. apply app_eq_nil in E. destruct E; discriminate.
Qed.

Lemma hd_ns_join s l : hd_ns s = true -> hd_ns (join SEP (s :: l)) = true.
Proof.
  destruct s as [|c s]; [discriminate|]. intros H. destruct l; exact H.
Qed.

(* specs joined by ", " read back as their items *)
Lemma read_arglist_join l is : Forall2 ritem l is -> read_arglist (join SEP l) = Some is.
Proof.
  intros H. pose proof (ritem_nocomma l is H) as Hn.
  destruct H as [|s i l is Hs Hl]; [reflexivity|].
  unfold read_arglist.
  destruct (strip (join SEP (s :: l))) eqn:E.
  - exfalso. revert E. apply strip_nonempty. apply hd_ns_join. apply Hs.
  - rewrite split_commas_join by exact Hn. cbn [rev app read_items].
    destruct Hs as (_ & _ & Hr). rewrite Hr.
    rewrite (proj2 (read_items_ok l is Hl)). reflexivity.
Qed.

Lemma Forall2_maps {A B C} (R : B -> C -> Prop) (f : A -> B) (g : A -> C) l :
  (forall x, R (f x) (g x)) -> Forall2 R (map f l) (map g l).
Proof. intros H. induction l; cbn [map]; constructor; auto. Qed.

Lemma Forall2_impl2 {A B} (R S : A -> B -> Prop) l l' :
  (forall a b, R a b -> S a b) -> Forall2 R l l' -> Forall2 S l l'.
Proof. intros H. induction 1; constructor; auto. Qed.

(* ---- FunctionBuilder ---------------------------------------------------------------------------- *)
Section TextProofs.
  Variable render : name -> text.
  Hypothesis render_ident : forall n, ident (render n) = true.

  (* the invocation specs without the bare star *)
  Definition inv_specs' (b : fbuilder) : list text :=
    map render (fb_args b)
    ++ match fb_varargs b with Some v => [STAR :: render v] | None => [] end
    ++ map (fun k => render k ++ EQUALS :: render k) (fb_kwonly b)
    ++ match fb_varkw b with Some k => [STAR :: STAR :: render k] | None => [] end.

  Lemma inv_specs'_items b :
    Forall2 gspec (inv_specs' b) (inv_items render (get_invocation b)).
  Proof.
    unfold inv_specs', inv_items, get_invocation. cbn [i_pos i_star i_kw i_dstar].
    rewrite map_map. repeat apply Forall2_app.
    - apply Forall2_maps. intros x. constructor. apply render_ident.
    - destruct (fb_varargs b); repeat constructor. apply render_ident.
    - apply Forall2_maps. intros x. cbv beta. cbn [fst snd]. constructor; apply render_ident.
    - destruct (fb_varkw b); repeat constructor. apply render_ident.
  Qed.

  Lemma good_args l : Forall good (map render l).
  Proof.
    induction l; cbn [map]; constructor; [|assumption].
    eapply gspec_good. apply GPos. apply render_ident.
  Qed.

  Lemma good_kws l : Forall good (map (fun k => render k ++ EQUALS :: render k) l).
  Proof.
    induction l; cbn [map]; constructor; [|assumption].
    eapply gspec_good. apply GKw; apply render_ident.
  Qed.

  Lemma good_dstar o :
    Forall good (match o with Some k => [STAR :: STAR :: render k] | None => [] end).
  Proof.
    destruct o; constructor; [|constructor].
    eapply gspec_good. apply GDStar. apply render_ident.
  Qed.

  Lemma good_star v : good (STAR :: render v).
  Proof. eapply gspec_good. apply GStar. apply render_ident. Qed.

  Lemma inv_specs_filter b :
    filter (fun s => negb (text_eqb s [STAR])) (inv_specs render b) = inv_specs' b.
  Proof.
    unfold inv_specs, inv_specs'. rewrite !filter_app.
    rewrite (filter_good _ (good_args _)), (filter_good _ (good_kws _)),
      (filter_good _ (good_dstar _)).
    f_equal. f_equal.
    destruct (fb_varargs b) as [v|].
    - apply (filter_good [STAR :: render v]). constructor; [apply good_star|constructor].
    - destruct (fb_kwonly b); reflexivity.
  Qed.

  Lemma scan_inv b rest :
    scan Normal (join SEP (inv_specs render b) ++ rest) =
    join SEP (inv_specs' b) ++ scan Normal rest.
  Proof.
    pose proof (Forall2_gspec_good _ _ (inv_specs'_items b)) as HG.
    unfold inv_specs, inv_specs' in *.
    destruct (fb_varargs b) as [v|]; [apply pass_join; exact HG|].
    destruct (fb_kwonly b) as [|k ks] eqn:EK; [apply pass_join; exact HG|].
    clear HG.
    assert (HX : exists c t, render k ++ EQUALS :: render k = c :: t /\ is_space c = false).
    { destruct (ident_inv _ (render_ident k)) as (c & r & E & Hc & _). rewrite E.
      exists c, (r ++ EQUALS :: c :: r). split; [reflexivity|]. apply idchar_facts. exact Hc. }
    destruct HX as (c & t & EX & Hs).
    pose proof (good_kws (k :: ks)) as HK. cbn [map] in HK.
    cbn [map app]. rewrite EX in *.
    apply scan_join_star; [apply good_args|exact Hs|].
    apply pass_join. inversion HK; subst. constructor; [assumption|].
    apply Forall_app. split; [assumption|apply good_dstar].
  Qed.

  (* 1. the marker substitution removes exactly the bare-star spec *)
  Theorem sub_marker_inv_text b :
    sub_marker (inv_text_raw render b) =
    LPAR :: join SEP (filter (fun s => negb (text_eqb s [STAR])) (inv_specs render b)) ++ [RPAR].
  Proof.
    unfold sub_marker, inv_text_raw. rewrite inv_specs_filter.
    rewrite scan_N_other by reflexivity. rewrite scan_inv. reflexivity.
  Qed.

  (* 2. the invocation text reads back as the structural invocation *)
  Theorem inv_text_reads b :
    read_arglist (inv_text render b) = Some (inv_items render (get_invocation b)).
  Proof.
    unfold inv_text. rewrite sub_marker_inv_text, strip_ends_parens, inv_specs_filter.
    apply read_arglist_join.
    eapply Forall2_impl2; [apply gspec_ritem|apply inv_specs'_items].
  Qed.

  (* 3. the def line's parameter list reads back as the structure (bare star included) *)
  Theorem sig_text_reads b :
    read_arglist (strip_ends (sig_text render b)) = Some (sig_items render b).
  Proof.
    unfold sig_text. rewrite strip_ends_parens. apply read_arglist_join.
    unfold sig_specs, sig_items. repeat apply Forall2_app.
    - apply Forall2_maps. intros x. apply gspec_ritem, GPos, render_ident.
    - destruct (fb_varargs b) as [v|].
      + constructor; [|constructor]. apply gspec_ritem, GStar, render_ident.
      + destruct (fb_kwonly b); constructor; [apply bare_ritem|constructor].
    - apply Forall2_maps. intros x. apply gspec_ritem, GPos, render_ident.
    - destruct (fb_varkw b) as [k|]; constructor; [|constructor].
      apply gspec_ritem, GDStar, render_ident.
  Qed.
End TextProofs.
