(* (T) The Gallina text regenerated from the current source of
   boltons.urlutils.resolve_path_parts (Gen/C07_Src.v, written on every run by
   harness/translators/c07_src.py) is the model function the theorems are about. *)
From Boltons Require Import Lib.Prelude Lib.PySrc Lib.C07_Str Spec.C07_Spec Gen.C07_Gen Gen.C07_Src
     Model.C07_Model Proofs.C07_StrLemmas.
Open Scope N_scope.

Lemma last1_dots parts :
  existsb (strs_eqb (py_last1 parts)) [[[DOT]]; [[DOT; DOT]]] = ends_with_dots parts.
Proof.
  unfold py_last1, ends_with_dots. destruct (rev parts) as [|x r]; [reflexivity|].
  unfold is_dot, is_dotdot, strs_eqb. cbn [existsb list_eqb].
  rewrite !andb_true_r, orb_false_r. reflexivity.
Qed.

Theorem src_resolve_path_parts_eq parts : src_resolve_path_parts parts = resolve_path_parts parts.
Proof.
  unfold src_resolve_path_parts, resolve_path_parts. cbv zeta. rewrite last1_dots.
  match goal with |- context [fold_left ?f parts []] =>
    assert (L : forall ps ret, fold_left f ps ret = rpp_loop ps ret) end.
  { induction ps as [|p ps IH]; intro ret; [reflexivity|].
    cbn [fold_left rpp_loop]. rewrite IH. unfold is_dot, is_dotdot, py_len, py_first.
    destruct (str_eqb p [DOT]); [reflexivity|]. destruct (str_eqb p [DOT; DOT]); [|reflexivity].
    destruct (nonempty ret && _); reflexivity. }
  rewrite L. destruct (ends_with_dots parts); reflexivity.
Qed.
