(* C03: the property statement for the micro-step model, in the very terms `holds` evaluates:
   for every schedule, the observation of a finished concurrent run (what each thread got back,
   the final items, len, and the eviction probe) satisfies Spec.spec_holds. *)
From Boltons Require Import Lib.Prelude Lib.C03_Syntax Lib.C03_Conc Model.C03_Model Spec.C03_Spec
     Proofs.C03_Serial Proofs.C03_Covered Proofs.C03_Main
     Proofs.C03_Link1 Proofs.C03_Link2 Proofs.C03_Link4 Proofs.C03_Link3
     Proofs.C03_SpecLink Proofs.C03_SpecLink2 Proofs.C03_SpecLink3 Proofs.C03_Complete Proofs.C03_FinalOk
     Proofs.C03_Probe.
From Boltons Require Import Gen.C03_Gen Check.C03_Check Proofs.C03_Transfer.
From Boltons Require Lib.C02_Syntax Model.C02_Model.

Lemma nth_map_seq {X} (f : nat -> X) n t d : t < n -> nth t (map f (seq 0 n)) d = f t.
Proof.
  intro H. rewrite (nth_indep (map f (seq 0 n)) d (f 0)) by (rewrite map_length, seq_length; exact H).
  rewrite (map_nth f (seq 0 n) 0 t). now rewrite seq_nth.
Qed.

Definition progs_fn (ps : list (list op)) : nat -> list op := fun t => nth t ps [].

Definition observe_conc (tb : lock_table) (cf : config) (n : nat)
           (s : @mstate shared act ares counters sact nat op rv) : outcome :=
  let '(steps, post) := probe tb cf (m_sh s) in
  mkOutcome Done (map (fun t => t_done (m_thr s t)) (seq 0 n))
            (view_items (m_sh s)) (view_len (m_sh s)) steps None post.

Definition wf_progs (cf : config) (init : list (K * V)) (ps : list (list op)) : Prop :=
  1 <= cf_max cf /\ Forall (Forall wf_op) ps /\ Forall (Forall small_op) ps
  /\ (forall p, In p init -> fst p < 100).

Theorem conc_outcome_holds tb cf init ps :
  table_covered tb = true -> wf_progs cf init ps ->
  forall sched,
    let s := conc_run tb cf (progs_fn ps) (run_ops tb cf shared_init (init_ops init)) sched in
    finished s ->
    spec_holds (rc_of cf) init ps (observe_conc tb cf (length ps) s) = true.
Proof.
  intros T [Hmax [WFp [SMp SMi]]] sched s F.
  destruct (init_link tb cf Hmax init shared_init M2.empty_cache (stands_for_init cf)) as [m0 [SF0 R0]].
  set (sh0 := run_ops tb cf shared_init (init_ops init)) in *.
  assert (WF : forall t, Forall wf_op (progs_fn ps t)).
  { intro t. unfold progs_fn. destruct (Nat.lt_ge_cases t (length ps)) as [Lt|Ge].
    - rewrite Forall_forall in WFp. apply WFp. now apply nth_In.
    - rewrite nth_overflow by exact Ge. constructor. }
  destruct (atomic_wrt_c03_spec tb T cf Hmax (progs_fn ps) WF sh0 m0 SF0 sched F)
    as [tr [mf [OPS [RES [RP SFf]]]]].
  fold s in RES, SFf.
  (* events only come from the threads that have a program *)
  assert (B : forall e, In e tr -> fst (fst e) < length ps).
  { intros [[t o] x] He. simpl. destruct (Nat.lt_ge_cases t (length ps)) as [Lt|Ge]; [exact Lt|].
    pose proof (in_ops_of t o x tr He) as Ho. rewrite OPS in Ho. unfold progs_fn in Ho.
    rewrite nth_overflow in Ho by exact Ge. destruct Ho. }
  assert (SMf : small (M2.ring mf)).
  { apply (replay_small (rc_of cf) tr (M2.ring m0) (M2.ring mf) RP).
    - rewrite R0. intros k Hk. destruct (keys_fold_insert _ _ _ _ Hk) as [[]|H].
      apply in_map_iff in H as [p [<- Hp]]. now apply SMi.
    - intros [[t o] x] He. simpl. pose proof (B _ He) as Lt. simpl in Lt.
      pose proof (in_ops_of t o x tr He) as Ho. rewrite OPS in Ho. unfold progs_fn in Ho.
      rewrite Forall_forall in SMp. specialize (SMp _ (nth_In ps [] Lt)). rewrite Forall_forall in SMp. now apply SMp. }
  unfold observe_conc. rewrite (probe_correct tb cf (m_sh s) mf Hmax SFf SMf).
  set (results := map (fun t => t_done (m_thr s t)) (seq 0 (length ps))).
  assert (LR : length results = length ps) by (unfold results; now rewrite map_length, seq_length).
  assert (NR : forall t, t < length ps -> nth t results [] = results_of t tr).
  { intros t Lt. unfold results. rewrite nth_map_seq by exact Lt. symmetry. apply RES. }
  assert (NP : forall t, t < length ps -> nth t ps [] = ops_of t tr).
  { intros t Lt. symmetry. apply OPS. }
  destruct (zip_ok ps results) as [z [EZ [LZ [NZ SZ]]]].
  { now rewrite LR. }
  { intros i Hi. rewrite (NP i Hi), (NR i Hi). apply ops_results_length. }
  unfold spec_holds, size_ok, serial_witness. simpl o_status. simpl o_results. rewrite EZ. simpl o_len.
  destruct (final_items_ok cf (m_sh s) mf SFf) as [F1 [F2 [F3 F4]]].
  assert (SZok : Nat.leb (view_len (m_sh s)) (r_max (rc_of cf)) = true) by (apply Nat.leb_le; exact F4).
  rewrite SZok. simpl.
  set (o := mkOutcome Done results (view_items (m_sh s)) (view_len (m_sh s))
                      (expected_probe (rc_of cf) (M2.ring mf)) None (cf_max cf)).
  assert (FIN : final_ok (rc_of cf) o (M2.ring mf) = true).
  { unfold final_ok, o. simpl. rewrite F1, F2, F3. simpl. rewrite Nat.eqb_refl.
    assert (LE : list_eqb (list_eqb Nat.eqb) (expected_probe (rc_of cf) (M2.ring mf))
                         (expected_probe (rc_of cf) (M2.ring mf)) = true).
    { apply (proj2 (list_eqb_eq _ (fun a b => list_eqb_eq Nat.eqb Nat.eqb_eq a b) _ _)). reflexivity. }
    rewrite LE. reflexivity. }
  assert (ACC : accepted (rc_of cf) (final_ok (rc_of cf) o) (r_init (rc_of cf) init) z).
  { apply (trace_to_accepted (rc_of cf) (final_ok (rc_of cf) o) tr _ (M2.ring mf) z).
    - assert (E0 : r_init (rc_of cf) init = M2.ring m0) by (rewrite R0; reflexivity).
      rewrite E0. exact RP.
    - exact FIN.
    - intros e He. pose proof (B e He) as Be. rewrite <- LZ in Be. exact Be.
    - intros t Ht0. assert (Ht : t < length ps) by (rewrite <- LZ; exact Ht0).
      etransitivity; [exact (NZ t Ht)|]. rewrite (NP t Ht), (NR t Ht). reflexivity. }
  pose proof (find_serial_complete (rc_of cf) (final_ok (rc_of cf) o) _ z ACC (total_ops ps) SZ) as FS.
  match goal with |- match ?X with _ => _ end = true =>
    change X with (find_serial (total_ops ps) (rc_of cf) (r_init (rc_of cf) init) z (final_ok (rc_of cf) o)) end.
  destruct (find_serial (total_ops ps) (rc_of cf) (r_init (rc_of cf) init) z (final_ok (rc_of cf) o));
    [reflexivity|congruence].
Qed.
