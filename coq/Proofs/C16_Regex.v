(* The three regexes of ParsedException on the lines the interpreter writes. *)
From Coq Require Import DecimalN.
From Boltons Require Import Lib.Prelude Lib.C16_Text Spec.C16_Spec Model.C16_Model Proofs.C16_Text.
Open Scope N_scope.

Ltac split_andb :=
  repeat match goal with
         | H : _ && _ = true |- _ => apply andb_true_iff in H; destruct H
         | H : negb _ = true |- _ => apply negb_true_iff in H
         end.

Section Regex.
  Context (C : cc) (OK : cc_ok C).

  (* ---- facts about the classes ------------------------------------------------------- *)
  Lemma nbr_of_nsp c : is_sp C c = false -> is_br C c = false.
  Proof.
    intro H. destruct (is_br C c) eqn:E; [|reflexivity].
    rewrite (br_sp C OK c E) in H. discriminate.
  Qed.

  Lemma sp_10 : is_sp C 10 = true.
  Proof. apply (br_sp C OK). apply (br_10 C OK). Qed.

  Lemma nsp_not_10 c : is_sp C c = false -> (c =? 10) = false.
  Proof. intro H. apply N.eqb_neq. intro E. subst c. rewrite sp_10 in H. discriminate. Qed.

  Lemma nsp_not_32 c : is_sp C c = false -> (c =? 32) = false.
  Proof. intro H. apply N.eqb_neq. intro E. subst c. rewrite (sp_32 C OK) in H. discriminate. Qed.

  Lemma nbr_not_10 c : is_br C c = false -> (c =? 10) = false.
  Proof. intro H. apply N.eqb_neq. intro E. subst c. rewrite (br_10 C OK) in H. discriminate. Qed.

  Definition ascii_text (l : str) : bool := forallb (fun c => (32 <=? c) && (c <=? 126)) l.

  Lemma nbr_ascii c : (32 <=? c) && (c <=? 126) = true -> is_br C c = false.
  Proof.
    intro H. apply andb_true_iff in H as [H1 H2]. apply N.leb_le in H1, H2.
    destruct (N.eq_dec c 32) as [->|Hne]; [apply (br_32 C OK)|].
    apply nbr_of_nsp. apply (sp_print C OK). lia.
  Qed.

  Lemma no_break_ascii l : ascii_text l = true -> no_break C l = true.
  Proof.
    unfold ascii_text, no_break. induction l as [|c l IH]; cbn [forallb]; [reflexivity|].
    intro H. apply andb_true_iff in H as [H1 H2]. rewrite (nbr_ascii c H1), (IH H2). reflexivity.
  Qed.

  Lemma no_break_app a b : no_break C (a ++ b) = no_break C a && no_break C b.
  Proof. unfold no_break. apply forallb_app. Qed.

  Lemma no_break_digits n : all_digits C n = true -> no_break C n = true.
  Proof.
    unfold all_digits, no_break. induction n as [|c n IH]; cbn [forallb]; [reflexivity|].
    intro H. apply andb_true_iff in H as [H1 H2]. rewrite (dg_br C OK c H1), (IH H2). reflexivity.
  Qed.

  Lemma no_break_no_nl l : no_break C l = true -> forallb (fun c => negb (c =? 10)) l = true.
  Proof.
    unfold no_break. induction l as [|c l IH]; cbn [forallb]; [reflexivity|].
    intro H. apply andb_true_iff in H as [H1 H2]. apply negb_true_iff in H1.
    rewrite (nbr_not_10 c H1), (IH H2). reflexivity.
  Qed.

  Lemma no_space_no_break l : no_space C l = true -> no_break C l = true.
  Proof.
    unfold no_space, no_break. induction l as [|c l IH]; cbn [forallb]; [reflexivity|].
    intro H. apply andb_true_iff in H as [H1 H2]. apply negb_true_iff in H1.
    rewrite (nbr_of_nsp c H1), (IH H2). reflexivity.
  Qed.

  Lemma no_space_no_32 l : no_space C l = true -> forallb (fun c => negb (c =? 32)) l = true.
  Proof.
    unfold no_space. induction l as [|c l IH]; cbn [forallb]; [reflexivity|].
    intro H. apply andb_true_iff in H as [H1 H2]. apply negb_true_iff in H1.
    rewrite (nsp_not_32 c H1), (IH H2). reflexivity.
  Qed.

  Lemma digit_not_quote c : is_dg C c = true -> (c =? 34) = false.
  Proof.
    intro H. apply N.eqb_neq. intro E. subst c. rewrite (dg_low C OK 34) in H by lia. discriminate.
  Qed.

  (* ---- reading the well-formedness booleans ---------------------------------------------- *)
  Lemma nonempty_inv (s : str) : nonempty s = true -> s <> [].
  Proof. destruct s; [discriminate|discriminate]. Qed.

  Lemma path_ok_inv p : path_ok C p = true -> p <> [] /\ no_break C p = true.
  Proof. unfold path_ok. intro H. apply andb_true_iff in H as [H1 H2]. split; [apply nonempty_inv|]; assumption. Qed.

  Lemma lineno_ok_inv n : lineno_ok C n = true -> n <> [] /\ all_digits C n = true.
  Proof. unfold lineno_ok. intro H. apply andb_true_iff in H as [H1 H2]. split; [apply nonempty_inv|]; assumption. Qed.

  Lemma func_ok_inv g : func_ok C (Some g) = true ->
    g <> [] /\ no_break C g = true /\ forallb (fun c => negb (c =? 34)) g = true /\
    last_not_space C g = true.
  Proof.
    unfold func_ok. intro H. apply andb_true_iff in H as [H H4]. apply andb_true_iff in H as [H H3].
    apply andb_true_iff in H as [H1 H2]. repeat split; try assumption; [apply nonempty_inv; assumption|].
    apply negb_true_iff in H3. clear - H3. induction g as [|c g IH]; cbn [forallb existsb] in *; [reflexivity|].
    apply orb_false_iff in H3 as [Hc Hg]. rewrite N.eqb_sym in Hc. rewrite Hc, (IH Hg). reflexivity.
  Qed.

  (* ---- [.+$] ---------------------------------------------------------------------------- *)
  Lemma dot_plus_end_line g :
    g <> [] -> forallb (fun c => negb (c =? 10)) g = true -> dot_plus_end g = Some g.
  Proof.
    intros Hne H. unfold dot_plus_end. rewrite (span_all _ g H). destruct g; [contradiction|reflexivity].
  Qed.

  (* ---- the tail of _frame_re ------------------------------------------------------------- *)
  Lemma tail_frame_line n g :
    n <> [] -> all_digits C n = true -> g <> [] -> no_break C g = true ->
    tail_frame C (L_qline ++ n ++ L_in ++ g) = Some (n, Some g).
  Proof.
    intros Hn Hd Hg Hb. unfold tail_frame. change M_qline with L_qline. rewrite drop_prefix_app.
    change (L_in ++ g) with (44 :: ([32;105;110;32] ++ g)).
    rewrite (span_stop (is_dg C) n 44 _ Hd) by (apply (dg_low C OK); lia).
    destruct n as [|d n]; [contradiction|].
    change (44 :: [32; 105; 110; 32] ++ g) with (M_in ++ g). rewrite drop_prefix_app.
    rewrite (dot_plus_end_line g Hg (no_break_no_nl g Hb)). reflexivity.
  Qed.

  Lemma tail_frame_no_quote s :
    match s with [] => true | c :: _ => negb (c =? 34) end = true -> tail_frame C s = None.
  Proof.
    intro H. unfold tail_frame. destruct s as [|c s]; [reflexivity|].
    apply negb_true_iff in H. unfold M_qline. rewrite drop_prefix_head; [reflexivity|].
    intro E. subst c. discriminate.
  Qed.

  (* no suffix of a quote-free text starts the tail *)
  Lemma tail_frame_suffix X : forallb (fun c => negb (c =? 34)) X = true ->
    forall q s, X = q ++ s -> tail_frame C s = None.
  Proof.
    intros H q s E. subst X. rewrite forallb_app in H. apply andb_true_iff in H as [_ H].
    apply tail_frame_no_quote. destruct s as [|c s]; [reflexivity|]. cbn [forallb] in H.
    apply andb_true_iff in H as [H _]. exact H.
  Qed.

  (* ---- the greedy file-path group ---------------------------------------------------------- *)
  Lemma path_split_cons tf pre c t :
    path_split tf pre (c :: t) =
    let here := match pre with
                | [] => None
                | _ => match tf (c :: t) with Some (n, f) => Some (rev pre, n, f) | None => None end
                end in
    if c =? 10 then here
    else match path_split tf (c :: pre) t with Some r => Some r | None => here end.
  Proof. reflexivity. Qed.

  Lemma path_split_none tf : forall t pre,
    (forall q s, t = q ++ s -> tf s = None) -> path_split tf pre t = None.
  Proof.
    induction t as [|c t IH]; intros pre H.
    - cbn [path_split]. rewrite (H [] [] eq_refl). destruct pre; reflexivity.
    - rewrite path_split_cons. cbv zeta. rewrite (H [] (c :: t) eq_refl).
      assert (G : path_split tf (c :: pre) t = None).
      { apply IH. intros q s E. apply (H (c :: q) s). rewrite E. reflexivity. }
      rewrite G. destruct pre; destruct (c =? 10); reflexivity.
  Qed.

  Lemma path_split_at tf t0 n f :
    tf t0 = Some (n, f) ->
    (forall q s, q <> [] -> t0 = q ++ s -> tf s = None) ->
    forall p pre, forallb (fun c => negb (c =? 10)) p = true -> (pre <> [] \/ p <> []) ->
    path_split tf pre (p ++ t0) = Some (rev pre ++ p, n, f).
  Proof.
    intros Ht Hlater. induction p as [|c p IH]; intros pre Hp Hne.
    - cbn [app]. rewrite app_nil_r. destruct Hne as [Hne|Hne]; [|contradiction].
      destruct t0 as [|c t].
      + cbn [path_split]. rewrite Ht. destruct pre; [contradiction|reflexivity].
      + rewrite path_split_cons. cbv zeta. rewrite Ht.
        assert (G : path_split tf (c :: pre) t = None).
        { apply path_split_none. intros q s E. apply (Hlater (c :: q) s); [discriminate|]. rewrite E. reflexivity. }
        rewrite G. destruct pre; [contradiction|]. destruct (c =? 10); reflexivity.
    - cbn [forallb] in Hp. apply andb_true_iff in Hp as [Hc Hp]. apply negb_true_iff in Hc.
      cbn [app]. rewrite path_split_cons. cbv zeta. rewrite Hc.
      rewrite (IH (c :: pre) Hp) by (left; discriminate).
      cbn [rev]. rewrite <- app_assoc. reflexivity.
  Qed.

  (* ---- _frame_re on a frame line ------------------------------------------------------------ *)
  Lemma frame_re_line p n g :
    path_ok C p = true -> lineno_ok C n = true -> func_ok C (Some g) = true ->
    frame_re C (L_file ++ p ++ L_qline ++ n ++ L_in ++ g) = Some (p, n, Some g).
  Proof.
    intros Hp Hn Hg. apply path_ok_inv in Hp as [Pne Pb]. apply lineno_ok_inv in Hn as [Nne Nd].
    apply func_ok_inv in Hg as [Gne [Gb [Gq _]]].
    unfold frame_re, match_re. change M_file with L_file. rewrite drop_prefix_app.
    rewrite (path_split_at (tail_frame C) (L_qline ++ n ++ L_in ++ g) n (Some g)).
    - reflexivity.
    - apply tail_frame_line; assumption.
    - intros q s Hq E.
      (* a non-empty prefix was consumed: s is a suffix of the text after the opening quote *)
      destruct q as [|x q]; [contradiction|].
      change (L_qline ++ n ++ L_in ++ g) with (34 :: ([44;32;108;105;110;101;32] ++ n ++ L_in ++ g)) in E.
      injection E as _ E.
      apply (tail_frame_suffix ([44;32;108;105;110;101;32] ++ n ++ L_in ++ g)) with (q := q); [|exact E].
      rewrite !forallb_app. apply andb_true_iff. split; [reflexivity|].
      apply andb_true_iff. split.
      + clear - Nd OK. unfold all_digits in Nd. induction n as [|c n IH]; cbn [forallb] in *; [reflexivity|].
        apply andb_true_iff in Nd as [Hc Hn]. rewrite (digit_not_quote c Hc), (IH Hn). reflexivity.
      + apply andb_true_iff. split; [reflexivity|exact Gq].
    - apply no_break_no_nl. assumption.
    - right. exact Pne.
  Qed.

  Lemma frame_re_not_file s : startswith L_file s = false -> frame_re C s = None.
  Proof. intro H. unfold frame_re, match_re. change M_file with L_file. rewrite (drop_prefix_startswith _ _ H). reflexivity. Qed.

  (* ---- _underline_re ----------------------------------------------------------------------- *)
  Definition inset (c : N) : bool := (c =? 126) || (c =? 94) || (c =? 32).

  Lemma underline_marker m : marker_ok m = true -> underline_re m = true.
  Proof. intro H. unfold underline_re. unfold marker_ok in H. rewrite (span_all _ m H). reflexivity. Qed.

  Lemma underline_false a c r :
    forallb inset a = true -> inset c = false -> (c =? 10) = false -> underline_re (a ++ c :: r) = false.
  Proof.
    intros Ha Hc H10. unfold underline_re. fold inset.
    change (fun c0 : N => (c0 =? 126) || (c0 =? 94) || (c0 =? 32)) with inset.
    rewrite (span_stop inset a c r Ha Hc). destruct r; [exact H10|reflexivity].
  Qed.

  (* ---- strip on the lines of the standard format ------------------------------------------------ *)
  Lemma strip_stripped s : s <> [] -> stripped C s = true -> strip C s = s.
  Proof.
    intros Hne H. unfold stripped, first_not_space, last_not_space in H. apply andb_true_iff in H as [H1 H2].
    unfold strip. destruct s as [|c r]; [contradiction|]. apply negb_true_iff in H1.
    rewrite (lstrip_nonspace C c r H1).
    destruct (last_shape C (c :: r) Hne H2) as [s' [d [E Hd]]]. rewrite E. apply rstrip_unit. exact Hd.
  Qed.

  Lemma strip_indented s : s <> [] -> stripped C s = true -> strip C (L_ind4 ++ s) = s.
  Proof.
    intros Hne H. unfold strip.
    rewrite (lstrip_spaces C L_ind4 s) by (cbn; rewrite (sp_32 C OK); reflexivity).
    exact (strip_stripped s Hne H).
  Qed.

  Lemma lstrip_file2 X : lstrip C (L_file2 ++ X) = L_file ++ X.
  Proof.
    unfold L_file2, L_file. cbn [app lstrip]. rewrite (sp_32 C OK), (sp_print C OK 70) by lia. reflexivity.
  Qed.

  Lemma strip_frame_line p n g :
    func_ok C (Some g) = true ->
    strip C (L_file2 ++ p ++ L_qline ++ n ++ L_in ++ g) = L_file ++ p ++ L_qline ++ n ++ L_in ++ g.
  Proof.
    intro Hg. apply func_ok_inv in Hg as [Gne [_ [_ Gl]]].
    unfold strip. rewrite lstrip_file2.
    destruct (last_shape C g Gne Gl) as [g' [d [E Hd]]]. rewrite E.
    replace (L_file ++ p ++ L_qline ++ n ++ L_in ++ g' ++ [d])
      with ((L_file ++ p ++ L_qline ++ n ++ L_in ++ g') ++ [d]) by (rewrite <- !app_assoc; reflexivity).
    apply rstrip_unit. exact Hd.
  Qed.

  (* ---- _repeat_re and the folding line ------------------------------------------------------------ *)
  Lemma repeat_re_not s : startswith L_prevline s = false -> repeat_re C s = None.
  Proof. intro H. unfold repeat_re. change M_prevline with L_prevline. rewrite (drop_prefix_startswith _ _ H). reflexivity. Qed.

  Definition fold_line_body (n : N) : str :=
    L_prevline ++ dec n ++ L_prev2 ++ (if 1 <? n then [115] else []) ++ [93].

  Lemma dec_all_digits n : all_digits C (dec n) = true.
  Proof.
    unfold all_digits. pose proof (dec_digits n) as Hd. rewrite forallb_forall in *. intros x Hx.
    specialize (Hd x Hx). apply andb_true_iff in Hd as [H1 H2]. apply N.leb_le in H1, H2.
    apply (dg_ascii C OK). lia.
  Qed.

  Lemma repeat_re_line n : repeat_re C (fold_line_body n) = Some (dec n).
  Proof.
    unfold repeat_re, fold_line_body. change M_prevline with L_prevline. rewrite drop_prefix_app.
    change (L_prev2 ++ (if 1 <? n then [115] else []) ++ [93])
      with (32 :: ([109;111;114;101;32;116;105;109;101] ++ (if 1 <? n then [115] else []) ++ [93])).
    rewrite (span_stop (is_dg C) (dec n) 32 _ (dec_all_digits n)) by (apply (dg_low C OK); lia).
    pose proof (dec_nonnil n) as Hn. destruct (dec n) as [|d r] eqn:E; [contradiction|].
    change (32 :: [109;111;114;101;32;116;105;109;101] ++ (if 1 <? n then [115] else []) ++ [93])
      with (M_moretime ++ (if 1 <? n then [115] else []) ++ [93]).
    rewrite drop_prefix_app. destruct (1 <? n); reflexivity.
  Qed.

  Lemma strip_repeat_line n : strip C (repeat_line n) = fold_line_body n.
  Proof.
    change (repeat_line n) with ([32; 32] ++ fold_line_body n).
    unfold strip. rewrite lstrip_spaces by (cbn; rewrite (sp_32 C OK); reflexivity).
    assert (E : fold_line_body n = (L_prevline ++ dec n ++ L_prev2 ++ (if 1 <? n then [115] else [])) ++ [93])
      by (unfold fold_line_body; rewrite <- !app_assoc; reflexivity).
    assert (L : lstrip C (fold_line_body n) = fold_line_body n).
    { unfold fold_line_body, L_prevline. cbn [app]. apply lstrip_nonspace. apply (sp_print C OK). lia. }
    rewrite L, E. apply rstrip_unit. apply (sp_print C OK). lia.
  Qed.

  Lemma frame_re_repeat_line n : frame_re C (strip C (repeat_line n)) = None.
  Proof. rewrite strip_repeat_line. apply frame_re_not_file. reflexivity. Qed.

  Lemma underline_repeat_line n : underline_re (repeat_line n) = false.
  Proof.
    unfold repeat_line, L_prev1. cbn [app].
    exact (underline_false [32; 32] 91 _ eq_refl eq_refl eq_refl).
  Qed.

  Lemma no_break_repeat_line n : no_break C (repeat_line n) = true.
  Proof.
    unfold repeat_line. rewrite !no_break_app.
    rewrite (no_break_ascii L_prev1), (no_break_ascii L_prev2), (no_break_digits (dec n) (dec_all_digits n)) by reflexivity.
    destruct (1 <? n); cbn; rewrite ?(nbr_ascii 115), ?(nbr_ascii 93) by reflexivity; reflexivity.
  Qed.

  (* int(str(n)) = n *)
  Definition int_step (a c : N) : N := a * 10 + dg_val C c.

  Lemma int_fold_pos u : forall acc,
    fold_left int_step (uint_codes u) (N.pos acc) = N.pos (Pos.of_uint_acc u acc).
  Proof.
    induction u; intro acc; cbn [uint_codes fold_left Pos.of_uint_acc]; try reflexivity;
      unfold int_step at 2; rewrite (dg_val_ascii C OK) by lia;
      match goal with |- fold_left _ _ ?x = N.pos (Pos.of_uint_acc _ ?y) =>
        replace x with (N.pos y) by lia end; apply IHu.
  Qed.

  Lemma int_of_uint u : int_of C (uint_codes u) = N.of_uint u.
  Proof.
    unfold int_of. change (fun acc c : N => acc * 10 + dg_val C c) with int_step.
    unfold N.of_uint. induction u; cbn [uint_codes fold_left Pos.of_uint]; try reflexivity;
      unfold int_step at 2; rewrite (dg_val_ascii C OK) by lia; cbn [N.mul N.add N.sub Pos.sub Pos.pred_double Pos.sub_mask Pos.double_mask Pos.succ_double_mask Pos.double_pred_mask];
      try exact IHu; apply int_fold_pos.
  Qed.

  Lemma int_of_dec n : int_of C (dec n) = n.
  Proof. unfold dec. rewrite int_of_uint. apply DecimalN.Unsigned.of_to. Qed.

  (* a line whose first word is a type name (no blank inside) followed by nothing or by a colon
     does not start with a text that has a blank before any colon-free prefix is exhausted *)
  Lemma no_prefix_line a b : forallb (fun c => negb (c =? 58)) a = true ->
    forall ty l0, forallb (fun c => negb (c =? 32)) ty = true -> (l0 = [] \/ exists l', l0 = 58 :: l') ->
    startswith (a ++ 32 :: b) (ty ++ l0) = false.
  Proof.
    induction a as [|c a IH]; intros Ha ty l0 Hty Hl; cbn [app startswith].
    - destruct ty as [|x ty]; cbn [app].
      + destruct Hl as [->|[l' ->]]; reflexivity.
      + cbn [forallb] in Hty. apply andb_true_iff in Hty as [Hx _]. apply negb_true_iff in Hx.
        rewrite N.eqb_sym, Hx. reflexivity.
    - cbn [forallb] in Ha. apply andb_true_iff in Ha as [Hc Ha]. apply negb_true_iff in Hc.
      destruct ty as [|x ty]; cbn [app].
      + destruct Hl as [->|[l' ->]]; [reflexivity|]. rewrite Hc. reflexivity.
      + cbn [forallb] in Hty. apply andb_true_iff in Hty as [_ Hty].
        rewrite (IH Ha ty l0 Hty Hl). apply andb_false_r.
  Qed.

  Lemma strip_header : strip C L_header = L_header.
  Proof.
    apply strip_stripped; [discriminate|]. unfold stripped, first_not_space, last_not_space. cbn.
    rewrite (sp_print C OK 84), (sp_print C OK 58) by lia. reflexivity.
  Qed.
End Regex.
