(* C02: the pointer-level cache model and the list-level cache model compute the
   same observations; hence "agree on the pointer-level model implies holds". *)
From Boltons Require Import Lib.Prelude Lib.C02_Syntax Spec.C02_Spec Model.C02_Model
  Proofs.C02_Lists Proofs.C02_Eqb Proofs.C02_Inv Proofs.C02_Refine Proofs.C02_Heap.
From Boltons Require Import Model.C02_PtrModel Model.C02_PtrCache Proofs.C02_PtrLemmas Proofs.C02_PtrRep.
Close Scope N_scope.
Open Scope nat_scope.

Record PRel (p : pcache) (m : cache) : Prop := mkPRel {
  pr_store : ps_store p = store m;
  pr_rep   : exists ids, Rep (ps_ring p) (ring m) ids;
  pr_hit   : ps_hit p = hit m;
  pr_miss  : ps_miss p = miss m;
  pr_soft  : ps_soft p = soft m;
  pr_calls : ps_calls p = calls m
}.

Lemma d_set_move_end (r : list (K * V)) k v0 v :
  NoDup (keys r) -> d_set (d_del r k ++ [(k, v0)]) k v = d_del r k ++ [(k, v)].
Proof.
  intro ND. pose proof (not_in_keys_del r k ND) as Hnk.
  induction (d_del r k) as [|[k1 v1] t IH]; simpl.
  - now rewrite Nat.eqb_refl.
  - simpl in Hnk. destruct (Nat.eqb_spec k k1); [exfalso; apply Hnk; left; congruence|].
    f_equal. apply IH. tauto.
Qed.

Lemma prel_empty : PRel p_empty empty_cache.
Proof. constructor; simpl; auto. exists []. apply rep_init. Qed.

(* ---- __setitem__ --------------------------------------------------------------------- *)
Lemma psetitem_sim c p m k v :
  1 <= c_max c -> Inv c m -> PRel p m ->
  exists p', psetitem c p k v = (p', snd (setitem c m k v)) /\ PRel p' (fst (setitem c m k v)).
Proof.
  intros Hmax I [ES [ids R] EH EM ESo EC]. pose proof I as [NR NS SAME LEN CAP SOFT].
  unfold psetitem, setitem, ll_move_to_front. rewrite ES.
  destruct (d_get (ring m) k) as [v0|] eqn:G.
  - destruct (rep_move _ _ _ _ _ R NR G) as [pr' [n [ids' [E [_ [_ RS]]]]]]. rewrite E.
    eexists. split; [reflexivity|]. simpl. rewrite d_set_move_end by assumption.
    constructor; simpl; auto. exists ids'. apply RS.
  - destruct (rep_absent _ _ _ _ R G) as [_ [E _]]. rewrite E.
    assert (Hk : ~ In k (keys (ring m))) by now apply d_get_none_iff.
    destruct (length (store m) <? c_max c) eqn:LT.
    + eexists. split; [reflexivity|]. simpl. constructor; simpl; auto.
      eexists. unfold ll_add_to_front. apply rep_add; eauto.
    + apply Nat.ltb_ge in LT. destruct (ring m) as [|[e ve] rest] eqn:ER.
      { simpl in LEN. lia. }
      destruct (rep_evict _ _ _ _ _ k v R NR Hk) as [pr' [ids' [E' R']]]. rewrite E'. simpl.
      assert (He : d_mem (store m) e = true).
      { unfold d_mem. rewrite SAME. simpl. now rewrite Nat.eqb_refl. }
      rewrite He. eexists. split; [reflexivity|]. simpl. constructor; simpl; auto. now exists ids'.
Qed.

Lemma psetitems_sim c kvs : forall p m,
  1 <= c_max c -> Inv c m -> PRel p m ->
  exists p', psetitems c p kvs = (p', snd (setitems c m kvs)) /\ PRel p' (fst (setitems c m kvs)).
Proof.
  induction kvs as [|[k v] rest IH]; intros p m Hmax I R; simpl.
  - exists p. auto.
  - destruct (psetitem_sim c p m k v Hmax I R) as [p1 [E R1]].
    destruct (setitem_sim c m k v Hmax I) as [m1 [Em [I1 _]]].
    rewrite E, Em in *. simpl in *. now apply IH.
Qed.

(* ---- __getitem__ ------------------------------------------------------------------------ *)
Lemma pgetitem_sim c p m k :
  1 <= c_max c -> Inv c m -> PRel p m ->
  exists p', pgetitem c p k = (p', snd (getitem c m k)) /\ PRel p' (fst (getitem c m k)).
Proof.
  intros Hmax I [ES [ids R] EH EM ESo EC]. pose proof I as [NR NS SAME LEN CAP SOFT].
  unfold pgetitem, getitem.
  destruct (d_get (ring m) k) as [v|] eqn:G.
  - destruct (c_cls c).
    + rewrite (rep_find _ _ _ k R NR), G. eexists. split; [reflexivity|]. simpl.
      constructor; simpl; auto; [now exists ids|congruence].
    + destruct (rep_move _ _ _ _ _ R NR G) as [pr' [n [ids' [E [R' [VV _]]]]]]. rewrite E, VV.
      eexists. split; [reflexivity|]. simpl. constructor; simpl; auto; [now exists ids'|congruence].
  - assert (HR : match c_cls c with
                 | LRI => match p_find (ps_ring p) k with Some v => Some (ps_ring p, v) | None => None end
                 | LRU => match p_move_to_front (ps_ring p) k with
                          | Some (r', link) => match c_val (pr_heap r' link) with Some v => Some (r', v) | None => None end
                          | None => None end
                 end = None).
    { destruct (c_cls c).
      - now rewrite (rep_find _ _ _ k R NR), G.
      - destruct (rep_absent _ _ _ _ R G) as [_ [E _]]. now rewrite E. }
    rewrite HR. destruct (c_on_miss c) as [f|].
    + set (m2 := mkC (store m) (ring m) (hit m) (miss m + 1)%N (soft m) (k :: calls m)).
      set (p2 := mkPC (ps_store p) (ps_ring p) (ps_hit p) (ps_miss p + 1)%N (ps_soft p) (k :: ps_calls p)).
      assert (I2 : Inv c m2) by (constructor; simpl; try assumption; lia).
      assert (R2 : PRel p2 m2) by (constructor; simpl; auto; [now exists ids|congruence|congruence]).
      destruct (psetitem_sim c p2 m2 k (f k) Hmax I2 R2) as [p3 [E R3]].
      destruct (setitem_sim c m2 k (f k) Hmax I2) as [m3 [Em _]].
      simpl. fold p2 m2. rewrite E, Em in *. simpl in *. eexists. split; [reflexivity|]. exact R3.
    + eexists. split; [reflexivity|]. simpl. constructor; simpl; auto; [now exists ids|congruence].
Qed.

Lemma prel_bump p m : PRel p m -> PRel (pbump_soft p) (bump_soft m).
Proof. intros [ES R EH EM ESo EC]. constructor; simpl; auto. congruence. Qed.

Lemma pcache_eq_eq p m d : PRel p m -> pcache_eq p d = cache_eq m d.
Proof. intros [ES _ _ _ _ _]. unfold pcache_eq, cache_eq. now rewrite ES. Qed.

(* removal from the list after the storage gave the key up *)
Lemma premove_sim c p m k v out :
  Inv c m -> PRel p m -> d_get (ring m) k = Some v ->
  exists p', premove_after p k out = (p', Ok out)
    /\ PRel p' (set_sr m (d_del (store m) k) (d_del (ring m) k)).
Proof.
  intros I [ES [ids R] EH EM ESo EC] G. pose proof I as [NR NS SAME LEN CAP SOFT].
  destruct (rep_remove _ _ _ _ _ R NR G) as [pr' [ids' [E R']]].
  unfold premove_after. rewrite E. eexists. split; [reflexivity|].
  constructor; simpl; auto; [now rewrite ES|now exists ids'].
Qed.

(* ---- one public method call ------------------------------------------------------------------ *)
Lemma pstep1_sim c p m o :
  1 <= c_max c -> Inv c m -> PRel p m ->
  exists p', pstep1 c p o = (p', snd (step1 c m o)) /\ PRel p' (fst (step1 c m o)).
Proof.
  intros Hmax I R. pose proof I as [NR NS SAME LEN CAP SOFT]. pose proof R as [ES RR EH EM ESo EC].
  destruct o as [k v|k|k d|k d|k|k d| | |e f|e|k| | | |d|d|f| |]; simpl pstep1; simpl step1.
  - (* SetItem *)
    destruct (psetitem_sim c p m k v Hmax I R) as [p' [E R']]. rewrite E.
    destruct (setitem c m k v) as [m' [[]|ex]]; simpl in *; eauto.
  - (* GetItem *)
    destruct (pgetitem_sim c p m k Hmax I R) as [p' [E R']]. rewrite E.
    destruct (getitem c m k) as [m' [x|ex]]; simpl in *; eauto.
  - (* Get *)
    destruct (pgetitem_sim c p m k Hmax I R) as [p' [E R']]. rewrite E.
    destruct (getitem c m k) as [m' [x|ex]]; simpl in *; eauto.
    destruct ex; simpl; eauto using prel_bump.
  - (* SetDefault *)
    destruct (pgetitem_sim c p m k Hmax I R) as [p' [E R']]. rewrite E.
    destruct (getitem_sim c m k Hmax I) as [m1 [ov [Eg [I1 [_ [_ MS]]]]]].
    rewrite Eg in *. destruct ov as [x|]; simpl in *; eauto.
    assert (IB : Inv c (bump_soft m1)).
    { destruct I1. destruct (MS eq_refl) as [M S]. constructor; simpl; try assumption. lia. }
    destruct (psetitem_sim c (pbump_soft p') (bump_soft m1) k d Hmax IB (prel_bump _ _ R')) as [p2 [E2 R2]].
    rewrite E2. destruct (setitem c (bump_soft m1) k d) as [m2 [[]|ex]]; simpl in *; eauto.
  - (* DelItem *)
    rewrite ES. rewrite (inv_mem c m k I). destruct (d_mem (ring m) k) eqn:DM; [|eauto].
    assert (Hk : In k (keys (ring m))) by now apply d_mem_iff.
    rewrite ll_remove_in by assumption.
    unfold d_mem in DM. destruct (d_get (ring m) k) as [v|] eqn:G; [|discriminate].
    destruct (premove_sim c p m k v ONone I R G) as [p' [E R']]. rewrite E. simpl. eauto.
  - (* Pop *)
    rewrite ES, SAME. destruct (d_get (ring m) k) as [v|] eqn:G.
    + assert (Hk : In k (keys (ring m))) by (eapply d_get_some_keys; eauto).
      rewrite ll_remove_in by assumption.
      destruct (premove_sim c p m k v (OVal v) I R G) as [p' [E R']]. rewrite E. simpl. eauto.
    + destruct d; simpl; eauto.
  - (* PopItem *)
    rewrite ES. destruct (rev (store m)) as [|[k v] rest] eqn:RV; [simpl; eauto|].
    assert (Hin : In (k, v) (store m)) by (eapply last_of_rev_in; eauto).
    assert (G : d_get (ring m) k = Some v) by (rewrite <- SAME; now apply d_get_in_nd).
    assert (Hk : In k (keys (ring m))) by (eapply d_get_some_keys; eauto).
    rewrite ll_remove_in by assumption.
    destruct (premove_sim c p m k v (OItem k v) I R G) as [p' [E R']]. rewrite E. simpl. eauto.
  - (* Clear *)
    eexists. split; [reflexivity|]. simpl. constructor; simpl; auto. exists []. apply rep_init.
  - (* Update *)
    destruct (psetitems_sim c (e ++ f) p m Hmax I R) as [p' [E R']]. rewrite E.
    destruct (setitems c m (e ++ f)) as [m' [[]|ex]]; simpl in *; eauto.
  - (* IOr *)
    destruct (psetitems_sim c e p m Hmax I R) as [p' [E R']]. rewrite E.
    destruct (setitems c m e) as [m' [[]|ex]]; simpl in *; eauto.
  - rewrite ES. simpl. eauto.
  - rewrite ES. simpl. eauto.
  - rewrite ES. simpl. eauto.
  - rewrite ES. simpl. eauto.
  - rewrite (pcache_eq_eq p m d R). simpl. eauto.
  - rewrite (pcache_eq_eq p m d R). simpl. eauto.
  - destruct (psetitems_sim c f p m Hmax I R) as [p' [E R']]. rewrite E.
    destruct (setitems c m f) as [m' [[]|ex]]; simpl in *; eauto.
  - simpl. eauto.
  - simpl. eauto.
Qed.

(* ---- c_i.update(c_j) ------------------------------------------------------------------------------ *)
Lemma pupd_from_sim c ks : forall pi pj mi mj,
  1 <= c_max c -> Inv c mi -> Inv c mj -> PRel pi mi -> PRel pj mj ->
  exists pi' pj', pupd_from c pi pj ks = (pi', pj', snd (upd_from c mi mj ks))
    /\ PRel pi' (fst (fst (upd_from c mi mj ks))) /\ PRel pj' (snd (fst (upd_from c mi mj ks))).
Proof.
  induction ks as [|k rest IH]; intros pi pj mi mj Hmax Ii Ij Ri Rj; simpl.
  - exists pi, pj. auto.
  - destruct (pgetitem_sim c pj mj k Hmax Ij Rj) as [pj1 [Eg Rj1]]. rewrite Eg.
    destruct (getitem_sim c mj k Hmax Ij) as [mj1 [ov [Em [Ij1 _]]]]. rewrite Em in *. simpl in *.
    destruct ov as [v|]; simpl in *.
    + destruct (psetitem_sim c pi mi k v Hmax Ii Ri) as [pi1 [Es Ri1]]. rewrite Es.
      destruct (setitem_sim c mi k v Hmax Ii) as [mi1 [Ems [Ii1 _]]]. rewrite Ems in *. simpl in *.
      now apply IH.
    + exists pi, pj1. auto.
Qed.

(* ---- heaps of caches ---------------------------------------------------------------------------- *)
Lemma Forall2_nth_error {A B} (P : A -> B -> Prop) l1 l2 i :
  Forall2 P l1 l2 ->
  match nth_error l1 i, nth_error l2 i with
  | Some a, Some b => P a b
  | None, None => True
  | _, _ => False
  end.
Proof.
  intro F. revert i. induction F; intro i; destruct i; simpl; auto. apply IHF.
Qed.

Lemma Forall2_upd_nth {A B} (P : A -> B -> Prop) l1 l2 i a b :
  Forall2 P l1 l2 -> P a b -> Forall2 P (upd_nth i a l1) (upd_nth i b l2).
Proof.
  intros F Pab. revert i. induction F; intro i; destruct i; simpl; constructor; auto.
Qed.

Lemma Forall2_nth {A B} (P : A -> B -> Prop) l1 l2 i da db :
  Forall2 P l1 l2 -> P da db -> P (nth i l1 da) (nth i l2 db).
Proof.
  intros F Pd. revert i. induction F; intro i; destruct i; simpl; auto.
Qed.

Lemma Forall2_length' {A B} (P : A -> B -> Prop) l1 l2 : Forall2 P l1 l2 -> length l1 = length l2.
Proof. induction 1; simpl; congruence. Qed.

Lemma pobserve_eq cb p m out : PRel p m -> pobserve cb p out = observe cb m out.
Proof.
  intros [ES _ EH EM ESo EC]. unfold pobserve, observe. now rewrite ES, EH, EM, ESo, EC.
Qed.

Lemma phobserve_sim c ph h o :
  1 <= c_max c -> Forall (Inv c) h -> Forall2 PRel ph h ->
  snd (phobserve c ph o) = snd (hobserve c h o)
  /\ Forall2 PRel (fst (phobserve c ph o)) (fst (hobserve c h o)).
Proof.
  intros Hmax FI F. unfold phobserve, hobserve.
  pose proof (Forall2_length' _ _ _ F) as LEN.
  destruct o as [i o1|i|i j|i j]; simpl.
  - pose proof (Forall2_nth_error _ _ _ i F) as N.
    destruct (nth_error ph i) as [p|] eqn:NP; destruct (nth_error h i) as [m|] eqn:NM; try tauto.
    + pose proof (nth_error_Forall _ _ _ _ FI NM) as I.
      destruct (pstep1_sim c p m o1 Hmax I N) as [p' [E R']]. rewrite E.
      destruct (step1 c m o1) as [m' out]. simpl in *.
      assert (F' : Forall2 PRel (upd_nth i p' ph) (upd_nth i m' h)) by now apply Forall2_upd_nth.
      split; [|exact F'].
      destruct N as [_ _ _ _ _ EC]. rewrite EC. apply pobserve_eq.
      apply Forall2_nth; [exact F'|apply prel_empty].
    + simpl. split; [|exact F]. apply pobserve_eq. apply Forall2_nth; [exact F|apply prel_empty].
  - pose proof (Forall2_nth_error _ _ _ i F) as N.
    destruct (nth_error ph i) as [p|] eqn:NP; destruct (nth_error h i) as [m|] eqn:NM; try tauto.
    + pose proof (nth_error_Forall _ _ _ _ FI NM) as I.
      destruct N as [ES [ids R] EH EM ESo EC]. pose proof I as [NR _ _ _ _ _].
      unfold pcopy_cache, copy_cache. rewrite (rep_flatten _ _ _ R).
      destruct (psetitems_sim c (ring m) p_empty empty_cache Hmax (inv_empty c) prel_empty) as [p' [E R']].
      rewrite E. destruct (setitems c empty_cache (ring m)) as [m' [[]|ex]]; simpl in *.
      * assert (F' : Forall2 PRel (ph ++ [p']) (h ++ [m'])) by (apply Forall2_app; auto).
        split; [|exact F']. rewrite LEN. apply pobserve_eq. apply Forall2_nth; [exact F'|apply prel_empty].
      * assert (F' : Forall2 PRel (ph ++ [p']) (h ++ [m'])) by (apply Forall2_app; auto).
        split; [|exact F']. rewrite LEN. apply pobserve_eq. apply Forall2_nth; [exact F'|apply prel_empty].
    + simpl. split; [|exact F]. apply pobserve_eq. apply Forall2_nth; [exact F|apply prel_empty].
  - pose proof (Forall2_nth_error _ _ _ i F) as N. pose proof (Forall2_nth_error _ _ _ j F) as N2.
    destruct (nth_error ph i) as [p|] eqn:NP; destruct (nth_error h i) as [m|] eqn:NM; try tauto.
    + destruct (nth_error ph j) as [p2|] eqn:NP2; destruct (nth_error h j) as [m2|] eqn:NM2; try tauto; simpl.
      * split; [|exact F]. rewrite (pcache_eq_eq p m _ N).
        destruct N2 as [ES2 _ _ _ _ _]. rewrite ES2. destruct N as [_ _ _ _ _ EC]. rewrite EC.
        apply pobserve_eq. apply Forall2_nth; [exact F|apply prel_empty].
      * split; [|exact F]. destruct N as [_ _ _ _ _ EC]. rewrite EC.
        apply pobserve_eq. apply Forall2_nth; [exact F|apply prel_empty].
    + simpl. split; [|exact F]. apply pobserve_eq. apply Forall2_nth; [exact F|apply prel_empty].
  - (* UpdateFrom *)
    pose proof (Forall2_nth_error _ _ _ i F) as N. pose proof (Forall2_nth_error _ _ _ j F) as N2.
    destruct (nth_error ph i) as [pi|] eqn:NP; destruct (nth_error h i) as [mi|] eqn:NM; try tauto.
    + destruct (nth_error ph j) as [pj|] eqn:NP2; destruct (nth_error h j) as [mj|] eqn:NM2; try tauto; simpl.
      * assert (ESj : ps_store pj = store mj) by (destruct N2; assumption).
        assert (ECi : ps_calls pi = calls mi) by (destruct N; assumption).
        rewrite ESj, ECi. destruct (Nat.eqb i j).
        -- simpl. split; [|exact F]. apply pobserve_eq. apply Forall2_nth; [exact F|apply prel_empty].
        -- pose proof (nth_error_Forall _ _ _ _ FI NM) as Ii. pose proof (nth_error_Forall _ _ _ _ FI NM2) as Ij.
           destruct (pupd_from_sim c (d_keys (store mj)) pi pj mi mj Hmax Ii Ij N N2) as [pi' [pj' [E [R1 R2]]]].
           rewrite E. destruct (upd_from c mi mj (d_keys (store mj))) as [[mi' mj'] [[]|ex]]; simpl in *.
           ++ assert (F' : Forall2 PRel (upd_nth i pi' (upd_nth j pj' ph)) (upd_nth i mi' (upd_nth j mj' h)))
                by (apply Forall2_upd_nth; [apply Forall2_upd_nth|]; assumption).
              split; [|exact F']. apply pobserve_eq. apply Forall2_nth; [exact F'|apply prel_empty].
           ++ assert (F' : Forall2 PRel (upd_nth i pi' (upd_nth j pj' ph)) (upd_nth i mi' (upd_nth j mj' h)))
                by (apply Forall2_upd_nth; [apply Forall2_upd_nth|]; assumption).
              split; [|exact F']. apply pobserve_eq. apply Forall2_nth; [exact F'|apply prel_empty].
      * split; [|exact F]. destruct N as [_ _ _ _ _ EC]. rewrite EC.
        apply pobserve_eq. apply Forall2_nth; [exact F|apply prel_empty].
    + simpl. split; [|exact F]. apply pobserve_eq. apply Forall2_nth; [exact F|apply prel_empty].
Qed.

Lemma pagree_walk_eq c steps : forall ph h,
  1 <= c_max c -> Forall (Inv c) h -> Forall2 PRel ph h ->
  pagree_walk c ph steps = agree_walk c h steps.
Proof.
  induction steps as [|[o ob] rest IH]; intros ph h Hmax FI F; simpl; [reflexivity|].
  destruct (phobserve_sim c ph h o Hmax FI F) as [E F'].
  pose proof (hstep_inv c h o Hmax FI) as FI'.
  destruct (phobserve c ph o) as [ph' mo]. destruct (hobserve c h o) as [h' mo'] eqn:HO. simpl in *.
  subst mo'. rewrite (Forall2_length' _ _ _ F). f_equal. apply IH; auto.
  unfold hobserve in HO. destruct (hstep c h o) as [[h'' i] out]. inversion HO; subst. exact FI'.
Qed.

Lemma pagree_check_eq c init steps :
  1 <= c_max c -> pagree_check c init steps = agree_check c init steps.
Proof.
  intro Hmax. unfold pagree_check, agree_check, pinit_cache, init_cache.
  destruct (psetitems_sim c init p_empty empty_cache Hmax (inv_empty c) prel_empty) as [p [E R]].
  destruct (setitems_sim c init empty_cache Hmax (inv_empty c)) as [m [Em [I _]]].
  rewrite E, Em in *. simpl in *. apply pagree_walk_eq; auto.
Qed.

(* agree on the pointer-level model implies holds *)
Lemma pagree_implies_holds c init steps :
  1 <= c_max c -> pagree_check c init steps = true -> spec_check c init steps = true.
Proof.
  intros Hmax H. rewrite pagree_check_eq in H by assumption. now apply agree_implies_holds.
Qed.

(* ---- every reachable pointer-level state represents the list-level state ------------------ *)
Lemma fst_phobserve c ph o : fst (phobserve c ph o) = fst (fst (phstep c ph o)).
Proof. unfold phobserve. destruct (phstep c ph o) as [[h' i] out]. reflexivity. Qed.

Lemma fst_hobserve c h o : fst (hobserve c h o) = fst (fst (hstep c h o)).
Proof. unfold hobserve. destruct (hstep c h o) as [[h' i] out]. reflexivity. Qed.

Lemma prun_heap_from_rel c ops : forall ph h,
  1 <= c_max c -> Forall (Inv c) h -> Forall2 PRel ph h ->
  Forall2 PRel (prun_heap_from c ph ops) (run_heap_from c h ops).
Proof.
  induction ops as [|o rest IH]; intros ph h Hmax FI F; simpl; [exact F|].
  apply IH; [assumption|now apply hstep_inv|].
  destruct (phobserve_sim c ph h o Hmax FI F) as [_ F']. now rewrite fst_phobserve, fst_hobserve in F'.
Qed.

Lemma prun_heap_rel c init ops :
  1 <= c_max c -> Forall2 PRel (prun_heap c init ops) (run_heap c init ops).
Proof.
  intro Hmax. unfold prun_heap, run_heap, pinit_cache, init_cache.
  destruct (psetitems_sim c init p_empty empty_cache Hmax (inv_empty c) prel_empty) as [p [E R]].
  destruct (setitems_sim c init empty_cache Hmax (inv_empty c)) as [m [Em [I _]]].
  rewrite E, Em in *. simpl in *. apply prun_heap_from_rel; auto.
Qed.

(* ---- the verdict computed by Check/C02_Check.v: agree implies holds, for every case ----- *)
From Boltons Require Import Check.C02_Check.

Lemma ctor_same max ok : ctor_outcome max ok = spec_ctor max ok.
Proof. unfold ctor_outcome, spec_ctor. destruct max; simpl; [reflexivity|]. now destruct ok. Qed.

Lemma verdict_sound k : c02_agree k = true -> c02_holds k = true.
Proof.
  unfold c02_agree, c02_holds. rewrite ctor_same. intro H.
  apply andb_true_iff in H as [H1 H2]. rewrite H1. simpl.
  destruct (k_ctor k) as [e|] eqn:E; [exact H2|].
  apply pagree_implies_holds; [|exact H2].
  unfold spec_ctor in H1. unfold case_cfg. simpl.
  destruct (k_max k); simpl in *; [discriminate|lia].
Qed.
