(* What the boolean Spec predicates evaluated by [holds] MEAN, as propositions
   about the observed lists (so a green [holds] is the property text itself). *)
From Boltons Require Import Lib.Prelude Model.C17_Model Spec.C17_Spec Proofs.C17_Dict Proofs.C17_OTO
  Proofs.C17_SpecLemmas.

(* OneToOne view: list(o.items()), list(o.inv.items()), o.inv.inv is o *)
Lemma oto_healthy_sound (f i : rel) (b : bool) : oto_healthy (f, i, b) = true <->
  NoDup (map fst f) /\ NoDup (map fst i) /\ NoDup (map snd f) /\
  (forall k v, In (k, v) i <-> In (v, k) f) /\ b = true.
Proof.
  unfold oto_healthy, ov_fwd, ov_inv, functional, injective. simpl.
  rewrite !andb_true_iff, !nodup_b_true, same_set_true. split.
  - intros [[[[A B] C] D] E]. repeat split; trivial.
    + intro H. apply D in H. rewrite transpose_flip in H. exact (proj1 (flip_In _ _ _) H).
    + intro H. apply D. rewrite transpose_flip. exact (proj2 (flip_In _ _ _) H).
  - intros [A [B [C [D E]]]]. split; [split; [split; [split|]|]|]; trivial.
    intros [k v]. rewrite transpose_flip. split; intro H.
    + apply (proj2 (flip_In _ _ _)). now apply D.
    + apply D. exact (proj1 (flip_In _ _ _) H).
Qed.

(* ManyToMany view: [(k, sorted(m[k]))] of both sides, m.inv.inv is m *)
Lemma In_pairs_of' (d : sview) k v : In (k, v) (pairs_of d) <-> exists s, In (k, s) d /\ In v s.
Proof.
  unfold pairs_of. rewrite in_flat_map. split.
  - intros [[k0 s] [H1 H2]]. simpl in H2. apply in_map_iff in H2. destruct H2 as [v0 [[= <- <-] H2]]. eauto.
  - intros [s [H1 H2]]. exists (k, s). split; trivial. simpl. apply in_map_iff. eauto.
Qed.

Lemma side_ok_sound (d : sview) : side_ok d = true <->
  NoDup (map fst d) /\ forall k s, In (k, s) d -> s <> [] /\ NoDup s.
Proof.
  unfold side_ok. rewrite andb_true_iff, nodup_b_true, forallb_forall. split.
  - intros [A B]. split; trivial. intros k s Hin. specialize (B (k, s) Hin). simpl in B.
    destruct s; [discriminate|]. split; [discriminate|]. now apply nodup_b_true.
  - intros [A B]. split; trivial. intros [k s] Hin. simpl. destruct (B k s Hin) as [Hne Hnd].
    destruct s; [congruence|]. now apply nodup_b_true.
Qed.

Lemma m2m_healthy_sound (d i : sview) (b : bool) : m2m_healthy (d, i, b) = true <->
  (NoDup (map fst d) /\ forall k s, In (k, s) d -> s <> [] /\ NoDup s) /\
  (NoDup (map fst i) /\ forall k s, In (k, s) i -> s <> [] /\ NoDup s) /\
  (forall k v, (exists s, In (v, s) i /\ In k s) <-> (exists s, In (k, s) d /\ In v s)) /\ b = true.
Proof.
  unfold m2m_healthy, mv_data, mv_inv. simpl.
  rewrite !andb_true_iff, !side_ok_sound, same_set_true. split.
  - intros [[[A B] C] D]. split; [exact A|split; [exact B|split; [|exact D]]].
    intros k v. split; intro H.
    + apply In_pairs_of' in H. apply C in H. rewrite transpose_flip in H.
      apply In_pairs_of'. exact (proj1 (flip_In _ _ _) H).
    + apply In_pairs_of'. apply C. rewrite transpose_flip. apply (proj2 (flip_In _ _ _)). now apply In_pairs_of'.
  - intros [A [B [C D]]]. split; [split; [split; [exact A|exact B]|]|exact D].
    intros [v k]. rewrite transpose_flip. split; intro H.
    + apply (proj2 (flip_In _ _ _)). apply In_pairs_of'. apply C. now apply In_pairs_of'.
    + apply (proj1 (flip_In _ _ _)) in H. apply In_pairs_of'. apply C. now apply In_pairs_of'.
Qed.
