(* FrozenDict: the model's observations satisfy exactly the Spec predicate that
   [holds] evaluates (mutators raise / nothing changes / hash outcomes / updated /
   copy / pickle / equal twins hash alike). *)
From Coq Require Import Permutation.
From Boltons Require Import Lib.Prelude Model.C17_Model Spec.C17_Spec Check.C17_Check
  Proofs.C17_Dict Proofs.C17_OTO Proofs.C17_FD Proofs.C17_SpecLemmas Proofs.C17_RefineOTO.

Ltac dex := match goal with |- context [existsb ?f ?l] => destruct (existsb f l) end.

Lemma bool_eq_iff (x y : bool) : (x = true <-> y = true) -> x = y.
Proof. destruct x, y; intros [H1 H2]; auto; try (symmetry; auto). Qed.

Lemma kv_eqb_refl p : kv_eqb p p = true.
Proof. unfold kv_eqb. now rewrite !Nat.eqb_refl. Qed.

Lemma items_eqb_refl (l : dict) : list_eqb kv_eqb l l = true.
Proof. apply list_eqb_refl, kv_eqb_refl. Qed.

Lemma pairs_eqb_refl (l : rel) : list_eqb pair_eq l l = true.
Proof. apply list_eqb_refl, pair_eq_refl. Qed.

Lemma r_map_update_spec (kvs : list pair) (r : rel) : NoDup (map fst r) ->
  NoDup (map fst (r_map_update r kvs)) /\
  forall k, d_get (r_map_update r kvs) k = match d_get (rev kvs) k with Some v => Some v | None => d_get r k end.
Proof. intro H. exact (r_dict_acc kvs r H). Qed.

Lemma fres_eqb_refl r : f_res_eqb (tr_fres r) (tr_fres r) = true \/
  (forall h, r <> Ok (FHashV h)) /\ (forall e, r <> Raise e).
Proof.
  destruct r as [v|e]; simpl.
  - destruct v; simpl; try (right; split; intros; discriminate). left. apply Z.eqb_refl.
  - left. destruct e; simpl; trivial; apply Nat.eqb_refl.
Qed.

Section FD.
  Variable ih : kv -> Z.

  Lemma hash_of_fres items : f_res_eqb (tr_fres (hash_of ih items)) (tr_fres (hash_of ih items)) = true.
  Proof.
    unfold hash_of. dex; simpl; [reflexivity|apply Z.eqb_refl].
  Qed.

  Lemma hash_shape_model items : hash_shape_ok items (tr_hout (hash_out ih items)) = true.
  Proof.
    unfold hash_shape_ok, hash_out.
    change (fun p : nat * nat => is_unhashable (snd p)) with (fun p : nat * nat => unhashable (snd p)).
    match goal with |- context [existsb ?f ?l] => destruct (existsb f l) eqn:E end; simpl; reflexivity.
  Qed.

  Lemma hash_out_of items : tr_hout (hash_out ih items) = tr_fres (hash_of ih items).
  Proof. unfold hash_out, hash_of. dex; reflexivity. Qed.

  Lemma fd_step_refines f op : NoDup (map fst (f_items f)) -> slot_ok ih f ->
    f_op_ok (f_items f) (tr_fop op) (tr_fres (snd (fd_step ih f op))) (f_items (fst (fd_step ih f op))) = true.
  Proof.
    intros ND SO. unfold f_op_ok. rewrite fd_step_items, pairs_eqb_refl. simpl.
    destruct op as [k v|k|kvs|kvs|k d|k d| | | |k|kvs| |plain| ]; simpl; trivial.
    - (* hash *)
      rewrite (fd_hash_result ih f SO). unfold hash_of.
      change (fun p : nat * nat => is_unhashable (snd p)) with (fun p : nat * nat => unhashable (snd p)).
      dex; reflexivity.
    - rewrite r_lookup_get. destruct (d_get (f_items f) k); simpl; trivial. apply Nat.eqb_refl.
    - (* updated *)
      assert (ND' : NoDup (map fst (d_update (f_items f) kvs))) by now apply d_update_nodup.
      destruct (r_map_update_spec kvs (f_items f) ND) as [NDr Gr].
      assert (E : EqSet (d_update (f_items f) kvs) (r_map_update (f_items f) kvs)).
      { apply EqSet_of_get; trivial. intro k. now rewrite d_update_get, Gr. }
      unfold functional. rewrite (proj2 (nodup_b_true _) ND'). simpl.
      rewrite (proj2 (same_set_true _ _) E). simpl.
      rewrite dict_eqb_same_set by assumption. rewrite hash_shape_model. destruct (same_set _ _); reflexivity.
    - unfold functional. rewrite (proj2 (nodup_b_true _) ND), same_set_refl, hash_shape_model. reflexivity.
    - unfold functional. rewrite (proj2 (nodup_b_true _) ND), same_set_refl.
      destruct plain; [reflexivity|]. rewrite hash_shape_model. reflexivity.
    - (* loaded in another process *)
      unfold functional. rewrite (proj2 (nodup_b_true _) ND), same_set_refl. simpl.
      change (fun p : nat * nat => is_unhashable (snd p)) with (fun p : nat * nat => unhashable (snd p)).
      match goal with |- context [existsb ?g ?l] => destruct (existsb g l) eqn:E end; simpl; rewrite ?E; reflexivity.
  Qed.

  Fixpoint fd_trace (f : fdict) (ops : list fd_op) : list (fd_op * fd_obs) :=
    match ops with
    | [] => []
    | op :: rest =>
        let '(f', r) := fd_step ih f op in (op, (r, f_items f')) :: fd_trace f' rest
    end.

  Lemma res_fval_eqb_refl (r : res fval) : res_eqb fval_eqb r r = true.
  Proof.
    destruct r as [v|e]; simpl.
    - destruct v; simpl; rewrite ?Nat.eqb_refl, ?Z.eqb_refl; trivial.
      + rewrite items_eqb_refl. destruct same_obj, equal, h; simpl; rewrite ?Z.eqb_refl; reflexivity.
      + rewrite items_eqb_refl. destruct hash_same, equal, member as [[|]|]; reflexivity.
    - destruct e; simpl; trivial; apply Nat.eqb_refl.
  Qed.

  (* walking the model's own trace: agree, ok, and every recorded hash outcome is
     the one a fresh computation on the items gives *)
  Lemma hs_of_step_model f op : NoDup (map fst (f_items f)) -> slot_ok ih f ->
    Forall (fun h => h = tr_fres (hash_of ih (f_items f))) (hs_of_step op (snd (fd_step ih f op))) /\
    (op = FHash -> hs_of_step op (snd (fd_step ih f op)) <> []).
  Proof.
    intros ND SO.
    assert (P : forall items', NoDup (map fst items') -> dict_eqb_unordered items' (f_items f) = true ->
                hs_of_step (FClone false) (Ok (FNew items' false true (hash_out ih items'))) = [tr_fres (hash_of ih (f_items f))]).
    { intros items' ND' Eq. rewrite dict_eqb_same_set in Eq by assumption. apply same_set_true in Eq.
      assert (Pm : Permutation items' (f_items f)) by now apply EqSet_perm.
      rewrite <- (hash_order_free ih _ _ Pm), <- hash_out_of. unfold hash_out. dex; reflexivity. }
    destruct op as [k v|k|kvs|kvs|k d|k d| | | |k|kvs| |plain| ]; simpl;
      try (split; [constructor|intro; discriminate]; fail).
    - (* hash *) split; [|intros _; discriminate]. constructor; [|constructor].
      now rewrite (fd_hash_result ih f SO).
    - (* get *) destruct (d_get (f_items f) k); split; try constructor; intro; discriminate.
    - (* updated *) split; [|intro; discriminate].
      destruct (dict_eqb_unordered (d_update (f_items f) kvs) (f_items f)) eqn:Eq.
      + specialize (P (d_update (f_items f) kvs) (d_update_nodup kvs _ ND) Eq). simpl in P.
        destruct (hash_out ih (d_update (f_items f) kvs)); inversion P; subst; repeat constructor.
      + constructor.
    - (* copy *) split; [|intro; discriminate].
      assert (Eq : dict_eqb_unordered (f_items f) (f_items f) = true).
      { rewrite dict_eqb_same_set by assumption. apply same_set_refl. }
      specialize (P (f_items f) ND Eq). simpl in P.
      destruct (hash_out ih (f_items f)); inversion P; subst; repeat constructor.
    - (* clone *) split; [|intro; discriminate]. destruct plain; [constructor|].
      assert (Eq : dict_eqb_unordered (f_items f) (f_items f) = true).
      { rewrite dict_eqb_same_set by assumption. apply same_set_refl. }
      specialize (P (f_items f) ND Eq). simpl in P.
      destruct (hash_out ih (f_items f)); inversion P; subst; repeat constructor.
  Qed.

  (* walking the model's own trace: agree, ok, and every recorded hash outcome is
     the one a fresh computation on the items gives *)
  Lemma fd_walk_trace ops : forall f, NoDup (map fst (f_items f)) -> slot_ok ih f ->
    exists hs fl, fd_walk ih f (f_items f) (fd_trace f ops) = (true, true, hs, fl) /\
                  Forall (fun h => h = tr_fres (hash_of ih (f_items f))) hs /\
                  (In FHash ops -> hs <> []).
  Proof.
    induction ops as [|op rest IH]; simpl; intros f ND SO.
    - exists [], f. repeat split; trivial. intros [].
    - pose proof (fd_step_refines f op ND SO) as R.
      pose proof (fd_step_items ih f op) as I. pose proof (fd_step_slot_ok ih f op SO) as SO'.
      destruct (hs_of_step_model f op ND SO) as [HF HN].
      destruct (fd_step ih f op) as [f' r] eqn:E. simpl in *.
      assert (ND' : NoDup (map fst (f_items f'))) by now rewrite I.
      destruct (IH f' ND' SO') as [hs [fl [W [FA NE]]]].
      rewrite E. rewrite I in *. rewrite W.
      rewrite res_fval_eqb_refl, items_eqb_refl, R. simpl.
      exists (hs_of_step op r ++ hs), fl. repeat split; trivial.
      + apply Forall_app. split; trivial.
      + intros [->|Hin]; intro Hnil; apply app_eq_nil in Hnil; destruct Hnil as [N1 N2].
        * now apply HN.
        * now apply NE.
  Qed.

  Lemma forallb_same (x : f_res) l : f_res_eqb x x = true -> Forall (fun h => h = x) l -> forallb (f_res_eqb x) l = true.
  Proof. intros H F. apply forallb_forall. intros y Hy. rewrite Forall_forall in F. now rewrite (F y Hy). Qed.

  Lemma last_same (x d : f_res) l : l <> [] -> Forall (fun h => h = x) l -> last l d = x.
  Proof.
    intros NE F. destruct (exists_last NE) as [l' [y ->]]. rewrite last_last.
    rewrite Forall_forall in F. apply F. apply in_or_app. right. now left.
  Qed.

  Theorem fd_model_refines_spec kvs ops kvs2 ihs :
    (forall p, ih_lookup ihs p = ih p) -> In FHash ops ->
    c17_verdict (CFd kvs ihs (fd_trace (mkFD (dict_of kvs) HUnset) ops) kvs2 (dict_of kvs2)
                     (dict_eqb_unordered (dict_of kvs) (dict_of kvs2))
                     (snd (fd_hash ih (mkFD (dict_of kvs2) HUnset)))) = (true, true, false).
  Proof.
    intros Hih Hh. unfold c17_verdict.
    assert (Eho : forall items, hash_out (ih_lookup ihs) items = hash_out ih items).
    { intro items. unfold hash_out. now rewrite (map_ext (ih_lookup ihs) ih Hih). }
    assert (Ehh : forall f, fd_hash (ih_lookup ihs) f = fd_hash ih f).
    { intro f. unfold fd_hash. destruct (f_slot f); trivial.
      dex; trivial. now rewrite (map_ext (ih_lookup ihs) ih Hih). }
    assert (Eih : forall f op, fd_step (ih_lookup ihs) f op = fd_step ih f op).
    { intros f op. destruct op; simpl; rewrite ?Eho, ?Ehh; trivial. }
    assert (Ew : forall steps f prev, fd_walk (ih_lookup ihs) f prev steps = fd_walk ih f prev steps).
    { induction steps as [|[op [r it]] rest IHs]; simpl; intros f prev; trivial.
      rewrite Eih. destruct (fd_step ih f op). now rewrite IHs. }
    rewrite Ew.
    set (f0 := mkFD (dict_of kvs) HUnset).
    destruct (fd_walk_trace ops f0 (dict_of_nodup kvs) I) as [hs [fl [W [FA NE]]]].
    simpl in W. rewrite W.
    assert (Eh : fd_hash (ih_lookup ihs) (mkFD (dict_of kvs2) HUnset) = fd_hash ih (mkFD (dict_of kvs2) HUnset)).
    { unfold fd_hash. simpl. dex; trivial. now rewrite (map_ext (ih_lookup ihs) ih Hih). }
    rewrite Eh. destruct (fd_hash ih (mkFD (dict_of kvs2) HUnset)) as [f2' mh2] eqn:E2.
    simpl. rewrite items_eqb_refl, res_fval_eqb_refl. simpl.
    assert (Bool.eqb (dict_eqb_unordered (dict_of kvs) (dict_of kvs2))
                     (dict_eqb_unordered (dict_of kvs) (dict_of kvs2)) = true) as -> by apply eqb_reflx.
    specialize (NE Hh). simpl in FA.
    assert (Hcons : hashes_consistent hs = true).
    { destruct hs as [|x l]; trivial. simpl. inversion FA; subst. apply forallb_same; trivial. apply hash_of_fres. }
    rewrite Hcons. destruct hs as [|x l] eqn:Ehs; [congruence|]. rewrite <- Ehs in *.
    assert (Hit : match fd_trace f0 ops with (_, (_, it)) :: _ => it | [] => dict_of kvs end = dict_of kvs).
    { destruct ops as [|op rest]; simpl; trivial.
      pose proof (fd_step_items ih f0 op) as I1. destruct (fd_step ih f0 op). simpl in *. exact I1. }
    rewrite Hit. unfold last_hash. rewrite (last_same (tr_fres (hash_of ih (dict_of kvs))) FOkNone hs NE FA).
    unfold f_pair_ok, functional.
    rewrite (proj2 (nodup_b_true _) (dict_of_nodup kvs)), (proj2 (nodup_b_true _) (dict_of_nodup kvs2)). simpl.
    rewrite dict_eqb_same_set by apply dict_of_nodup.
    assert (eqb (same_set (dict_of kvs) (dict_of kvs2)) (same_set (dict_of kvs) (dict_of kvs2)) = true) as -> by apply eqb_reflx.
    simpl. destruct (same_set (dict_of kvs) (dict_of kvs2)) eqn:Es; simpl; trivial.
    apply same_set_true in Es.
    assert (P : Permutation (dict_of kvs) (dict_of kvs2)) by (apply EqSet_perm; trivial; apply dict_of_nodup).
    assert (mh2 = hash_of ih (dict_of kvs2)).
    { change mh2 with (snd (f2', mh2)). rewrite <- E2. now apply fd_hash_result. }
    subst mh2. rewrite (hash_order_free ih _ _ P). rewrite hash_of_fres. reflexivity.
  Qed.
End FD.
