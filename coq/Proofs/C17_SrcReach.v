(* Every instance reachable by any history holds hashable objects only, so the
   source-level functions of Proofs/C17_SrcEq.v coincide with the model on every
   reachable state. *)
From Boltons Require Import Lib.Prelude Model.C17_Model Spec.C17_Spec Check.C17_Check Lib.C17_Py Gen.C17_Src
  Proofs.C17_Dict Proofs.C17_OTO Proofs.C17_FD Proofs.C17_SpecLemmas Proofs.C17_RefineOTO Proofs.C17_SrcEq.

Definition Good (o : oto) : Prop := OtoInv o /\ OtoH o.

Lemma Good_swap o : Good o -> Good (oto_swap o).
Proof. intros [I H]. split; [now apply OtoInv_swap|now apply OtoH_swap]. Qed.

Lemma setitem_H o k v : OtoInv o -> OtoH o -> unhashable k = false -> unhashable v = false ->
  OtoH (oto_setitem o k v).
Proof.
  intros I H Uk Uv a b E. apply (setitem_fwd o k v a b (oi_bij _ I)) in E.
  destruct E as [[-> ->]|[_ [_ E]]]; [tauto|now apply H].
Qed.

Lemma update_H kvs : forall o, OtoInv o -> OtoH o -> existsb kv_unhashable kvs = false ->
  OtoH (oto_update o kvs).
Proof.
  unfold oto_update. induction kvs as [|[k v] r IH]; simpl; intros o I H E; trivial.
  apply orb_false_iff in E. destruct E as [E1 E2]. unfold kv_unhashable in E1. simpl in E1.
  apply orb_false_iff in E1. destruct E1 as [Uk Uv].
  apply IH; trivial; [now apply setitem_ok|now apply setitem_H].
Qed.

Lemma delpair_H o k v : OtoH o -> OtoH (mkOto (d_rm (o_fwd o) k) (d_rm (o_inv o) v)).
Proof.
  intros H a b E. simpl in E. rewrite get_rm in E. destruct (Nat.eqb a k); [discriminate|now apply H].
Qed.

Lemma step_H o op : OtoInv o -> OtoH o -> OtoH (fst (oto_step o op)).
Proof.
  intros I H. destruct op as [k v|k|k d| | |k d|kvs|kvs|k]; simpl.
  - destruct (unhashable v) eqn:Uv; simpl; trivial. destruct (unhashable k) eqn:Uk; simpl; trivial.
    now apply setitem_H.
  - destruct (unhashable k); simpl; trivial. destruct (d_get (o_fwd o) k); simpl; trivial. now apply delpair_H.
  - destruct (unhashable k); simpl; trivial. destruct (d_get (o_fwd o) k); simpl; [now apply delpair_H|].
    destruct d; trivial.
  - destruct (rev (o_fwd o)) as [|[k v] r] eqn:E; simpl; trivial.
    destruct (popitem_shape o k v r (oi_ndf _ I) E) as [-> _]. now apply delpair_H.
  - intros a b E. discriminate.
  - destruct (unhashable k) eqn:Uk; simpl; trivial. destruct (d_get (o_fwd o) k); simpl; trivial.
    destruct (unhashable d) eqn:Ud; simpl; trivial. now apply setitem_H.
  - destruct (existsb kv_unhashable kvs) eqn:E; simpl; trivial. now apply update_H.
  - destruct (existsb kv_unhashable kvs) eqn:E; simpl; trivial. now apply update_H.
  - destruct (unhashable k); trivial.
Qed.

Lemma step_side_Good s o op : Good o -> Good (fst (oto_step_side s o op)).
Proof.
  intros G. split; [apply step_side_ok, G|]. unfold oto_step_side. destruct s.
  - destruct (Good_swap _ G) as [I' H'].
    pose proof (step_H (oto_swap o) op I' H') as SH. pose proof (step_ok (oto_swap o) op I') as SI.
    destruct (oto_step (oto_swap o) op) as [o' r]. simpl in *. now apply OtoH_swap.
  - destruct G. now apply step_H.
Qed.

Lemma init_fwd_sub kvs k v : In (k, v) (o_fwd (oto_init kvs)) -> In (k, v) (dict_of kvs).
Proof.
  destruct (init_shape kvs) as [[_ [-> _]]|[_ [_ ->]]]; simpl; trivial.
  intro Hin. apply (proj1 (flip_In _ _ _)) in Hin. apply dict_of_In in Hin.
  exact (proj1 (flip_In _ _ _) Hin).
Qed.

Lemma existsb_false_In {A} (f : A -> bool) l x : existsb f l = false -> In x l -> f x = false.
Proof.
  intros E Hin. destruct (f x) eqn:Fx; trivial.
  assert (existsb f l = true) by (apply existsb_exists; eauto). congruence.
Qed.

Lemma init_H kvs : new_rejects kvs = false -> OtoH (oto_init kvs).
Proof.
  unfold new_rejects. intro E. apply orb_false_iff in E. destruct E as [Ek Ev].
  intros k v G. apply get_In in G. apply init_fwd_sub in G. split.
  - pose proof (dict_of_In _ _ _ G) as G'. exact (existsb_false_In _ _ _ Ek G').
  - exact (existsb_false_In _ _ _ Ev G).
Qed.

Lemma init_items_H (l : dict) : (forall k v, In (k, v) l -> unhashable k = false /\ unhashable v = false) ->
  OtoH (oto_init l).
Proof.
  intros Hl k v G. apply get_In in G. apply init_fwd_sub in G. apply dict_of_In in G. now apply Hl.
Qed.

Lemma side_Good s o : Good o -> Good (oto_side s o).
Proof. destruct s; simpl; trivial. apply Good_swap. Qed.

Lemma deepcopy_H x : Good x -> OtoH (oto_deepcopy x).
Proof.
  intros [I H] k v G. cbn [oto_deepcopy o_fwd] in G. apply get_In in G.
  apply (proj1 (flip_In _ _ _)) in G. apply In_get in G; [|apply I].
  apply (oi_bij _ I) in G. now apply H.
Qed.

Lemma hstep_Good h hop : Forall Good h -> Forall Good (fst (oto_hstep h hop)).
Proof.
  intro F.
  assert (FI : Forall OtoInv h) by (eapply Forall_impl; [|exact F]; intros a [Ia _]; exact Ia).
  destruct hop as [u kvs|i s|i s op|ior i s j t|keys v|i s|i s j t]; simpl.
  - unfold oto_new. destruct (new_rejects kvs) eqn:Er; simpl; trivial.
    assert (G : Good (oto_init kvs)) by (split; [apply init_ok|now apply init_H]).
    destruct u; simpl; [|now apply Forall_snoc].
    destruct (oto_init_unique kvs) as [o|] eqn:Eu; simpl; trivial. apply Forall_snoc; trivial.
    unfold oto_init_unique in Eu. unfold oto_init in G.
    destruct (Nat.eqb _ _); [|discriminate]. now inversion Eu; subst.
  - destruct (nth_error h i) as [o|] eqn:E; simpl; trivial. apply Forall_snoc; trivial.
    pose proof (side_Good s o (Forall_nth_error _ _ _ _ F E)) as [I H].
    split; [apply init_ok|]. apply init_items_H. intros k v Hin. apply H. apply In_get; trivial. apply I.
  - destruct (nth_error h i) as [o|] eqn:E; simpl; trivial.
    pose proof (step_side_Good s o op (Forall_nth_error _ _ _ _ F E)) as G.
    destruct (oto_step_side s o op) as [o' r]. simpl in *. now apply Forall_set_nth.
  - destruct (nth_error h i) as [o|] eqn:E; simpl; trivial.
    destruct (nth_error h j) as [o2|] eqn:E2; simpl; trivial.
    set (op := if ior then _ else _).
    pose proof (step_side_Good s o op (Forall_nth_error _ _ _ _ F E)) as G.
    destruct (oto_step_side s o op) as [o' r]. simpl in *. now apply Forall_set_nth.
  - destruct (existsb kv_unhashable (fromkeys_pairs keys v)) eqn:E; simpl; trivial.
    apply Forall_snoc; trivial. split; [apply update_ok, empty_ok|].
    apply update_H; trivial; [apply empty_ok|]. intros a b G. discriminate.
  - destruct (nth_error h i) as [o|] eqn:E; simpl; trivial. apply Forall_snoc; trivial.
    pose proof (side_Good s o (Forall_nth_error _ _ _ _ F E)) as G.
    split; [apply deepcopy_ok, G|now apply deepcopy_H].
  - destruct (nth_error h i); simpl; trivial. destruct (nth_error h j); simpl; trivial.
Qed.

Lemma run_Good hops : Forall Good (oto_run hops).
Proof.
  unfold oto_run.
  assert (G : forall h, Forall Good h -> Forall Good (fold_left (fun h hop => fst (oto_hstep h hop)) hops h)).
  { induction hops as [|hop r IH]; simpl; intros h H; trivial. apply IH. now apply hstep_Good. }
  apply G. constructor.
Qed.

(* on every state reachable by any history, through either side, the functions
   regenerated from the source ARE the model's operations *)
Theorem src_methods_eq_model_on_reachable hops o s : In o (oto_run hops) ->
  let x := oto_side s o in
  (forall k, src_delitem x k = lift_step x (ODel k)) /\
  (forall k v, src_setitem x k v = lift_step x (OSet k v)) /\
  (forall k d, src_pop x k d = lift_step x (OPop k d)) /\
  src_popitem x = lift_step x OPopitem /\
  src_clear x = lift_step x OClear /\
  (forall k d, src_setdefault x k d = lift_step x (OSetdefault k d)).
Proof.
  intros Hin x. pose proof (run_Good hops) as F. rewrite Forall_forall in F.
  destruct (side_Good s o (F o Hin)) as [I H]. fold x in I, H. repeat split; intros.
  - now apply src_delitem_eq.
  - now apply src_setitem_eq.
  - now apply src_pop_eq.
  - now apply src_popitem_eq.
  - now apply src_setdefault_eq.
Qed.
