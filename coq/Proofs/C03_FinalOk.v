(* C03: the clauses of Spec.final_ok about the final items and len hold for every model state
   that stands for a C02 state, the reference state being C02's ring. *)
From Boltons Require Import Lib.Prelude Lib.C03_Syntax Lib.C03_Conc Model.C03_Model Spec.C03_Spec
     Proofs.C03_Link1 Proofs.C03_Link2 Proofs.C03_Link4 Proofs.C03_Link3.
From Boltons Require Lib.C02_Syntax Model.C02_Model Proofs.C02_Lists Proofs.C02_Inv.

Lemma in_insert_sorted p q l : In p (insert_sorted q l) <-> p = q \/ In p l.
Proof.
  induction l as [|a r IH]; simpl; [intuition|].
  destruct (Nat.leb (fst q) (fst a)); simpl; [intuition|]. rewrite IH. intuition.
Qed.

Lemma in_sort_items p l : In p (sort_items l) <-> In p l.
Proof.
  induction l as [|a r IH]; simpl; [tauto|]. rewrite in_insert_sorted, IH. intuition.
Qed.

Lemma length_insert_sorted q l : length (insert_sorted q l) = S (length l).
Proof. induction l as [|a r IH]; simpl; [reflexivity|]. destruct (Nat.leb (fst q) (fst a)); simpl; auto. Qed.

Lemma length_sort_items l : length (sort_items l) = length l.
Proof. induction l as [|a r IH]; simpl; [reflexivity|]. now rewrite length_insert_sorted, IH. Qed.

(* lower bound on the keys of a list *)
Definition all_gt (k : K) (l : list (K * V)) : Prop := forall p, In p l -> k < fst p.

Lemma sorted_cons a l : strictly_sorted l = true -> all_gt (fst a) l -> strictly_sorted (a :: l) = true.
Proof.
  intros S G. destruct l as [|b r]; [reflexivity|].
  assert (H : fst a < fst b) by (apply G; now left). apply Nat.ltb_lt in H.
  change (strictly_sorted (a :: b :: r)) with (Nat.ltb (fst a) (fst b) && strictly_sorted (b :: r)).
  now rewrite H, S.
Qed.

Lemma sorted_all_gt a l : strictly_sorted (a :: l) = true -> all_gt (fst a) l.
Proof.
  revert a. induction l as [|b r IH]; intros a S p H; [destruct H|].
  change (strictly_sorted (a :: b :: r)) with (Nat.ltb (fst a) (fst b) && strictly_sorted (b :: r)) in S.
  apply andb_true_iff in S as [L S]. apply Nat.ltb_lt in L.
  destruct H as [<-|H]; [exact L|]. specialize (IH b S p H). lia.
Qed.

Lemma sorted_tail a l : strictly_sorted (a :: l) = true -> strictly_sorted l = true.
Proof.
  destruct l as [|b r]; [reflexivity|].
  change (strictly_sorted (a :: b :: r)) with (Nat.ltb (fst a) (fst b) && strictly_sorted (b :: r)).
  intro H. apply andb_true_iff in H. tauto.
Qed.

Lemma insert_sorted_sorted q l :
  strictly_sorted l = true -> (forall p, In p l -> fst p <> fst q) ->
  strictly_sorted (insert_sorted q l) = true.
Proof.
  induction l as [|a r IH]; intros S NE; [reflexivity|].
  simpl. destruct (Nat.leb (fst q) (fst a)) eqn:L.
  - apply sorted_cons; [exact S|]. intros p [<-|H].
    + apply Nat.leb_le in L. assert (fst a <> fst q) by (apply NE; now left). lia.
    + pose proof (sorted_all_gt a r S p H). apply Nat.leb_le in L. lia.
  - apply Nat.leb_gt in L. apply sorted_cons.
    + apply IH; [eapply sorted_tail; eauto|]. intros p H. apply NE. now right.
    + intros p H. apply in_insert_sorted in H as [->|H]; [exact L|]. apply (sorted_all_gt a r S p H).
Qed.

Lemma sort_items_sorted l : NoDup (map fst l) -> strictly_sorted (sort_items l) = true.
Proof.
  induction l as [|a r IH]; intro ND; [reflexivity|].
  simpl in ND. inversion ND as [|? ? NI ND']; subst.
  change (sort_items (a :: r)) with (insert_sorted a (sort_items r)).
  apply insert_sorted_sorted; [apply IH; exact ND'|].
  intros p H E. apply (proj1 (in_sort_items p r)) in H. apply NI. rewrite <- E. apply in_map. exact H.
Qed.

Theorem final_items_ok c s m :
  stands_for c s m ->
  strictly_sorted (view_items s) = true
  /\ same_items (M2.ring m) (view_items s) = true
  /\ Nat.eqb (view_len s) (length (M2.ring m)) = true
  /\ view_len s <= cf_max c.
Proof.
  intro SF. pose proof (stands_for_store _ _ _ SF) as ES. pose proof (stands_for_size _ _ _ SF) as SZ.
  destruct SF as [[NR NS SAME LEN CAP _] _].
  unfold view_items, view_len. rewrite ES. split; [|split; [|split]].
  - apply sort_items_sorted. exact NS.
  - unfold same_items. rewrite length_sort_items, <- LEN, Nat.eqb_refl. simpl.
    apply forallb_forall. intros [k v] H. apply (proj1 (in_sort_items _ _)) in H. simpl.
    unfold r_lookup. rewrite <- SAME. rewrite (Li2.d_get_in_nd _ _ _ NS H). apply Nat.eqb_refl.
  - rewrite LEN. apply Nat.eqb_refl.
  - rewrite <- ES. exact SZ.
Qed.
