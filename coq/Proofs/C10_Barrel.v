(* C10 - BarrelList is a list: flattening the sub-lists commutes with insert,
   pop, item read and len, for every size-limit function; _balance_list never
   changes the flattened content; bisect.insort on a sorted barrel keeps it
   sorted. *)
From Boltons Require Import Lib.Prelude Spec.C10_Spec Model.C10_Model.
From Coq Require Import Sorting.Sorted Permutation.

Local Open Scope nat_scope.

(* ------------------------------------------------------------------------ *)
(* Python list primitives on in-range natural indices                        *)
(* ------------------------------------------------------------------------ *)
Section PyListFacts.
  Context {A : Type}.

  (* an index past the end clamps: list.insert appends *)
  Lemma py_insert_clamp (l : list A) (r : nat) (x : A) :
    length l <= r -> py_insert l (Z.of_nat r) x = l ++ [x].
  Proof.
    intro H. unfold py_insert.
    destruct (Z.ltb_spec (Z.of_nat r) 0); [lia|].
    destruct (Z.ltb_spec (Z.of_nat r) 0); [lia|].
    destruct (Z.ltb_spec (Z.of_nat (length l)) (Z.of_nat r)).
    - rewrite Nat2Z.id, firstn_all, skipn_all. reflexivity.
    - assert (r = length l) by lia. subst. rewrite Nat2Z.id, firstn_all, skipn_all. reflexivity.
  Qed.

  Lemma list_insert_clamp (l : list A) (r : nat) (x : A) :
    length l <= r -> list_insert r x l = l ++ [x].
  Proof. intro H. unfold list_insert. now rewrite firstn_all2, skipn_all2 by lia. Qed.

  Lemma py_insert_nat (l : list A) (r : nat) (x : A) :
    py_insert l (Z.of_nat r) x = list_insert r x l.
  Proof.
    destruct (Nat.le_gt_cases r (length l)) as [H|H].
    - unfold py_insert, list_insert.
      destruct (Z.ltb_spec (Z.of_nat r) 0); [lia|].
      destruct (Z.ltb_spec (Z.of_nat r) 0); [lia|].
      destruct (Z.ltb_spec (Z.of_nat (length l)) (Z.of_nat r)); [lia|].
      now rewrite Nat2Z.id.
    - rewrite py_insert_clamp, list_insert_clamp by lia. reflexivity.
  Qed.

  Lemma py_index_nat (l : list A) (r : nat) :
    py_index l (Z.of_nat r) = if r <? length l then Some r else None.
  Proof.
    unfold py_index.
    destruct (Z.ltb_spec (Z.of_nat r) 0); [lia|].
    destruct (Nat.ltb_spec r (length l)).
    - destruct (Z.ltb_spec (Z.of_nat r) 0); [lia|].
      destruct (Z.leb_spec (Z.of_nat (length l)) (Z.of_nat r)); [lia|].
      simpl. now rewrite Nat2Z.id.
    - destruct (Z.leb_spec (Z.of_nat (length l)) (Z.of_nat r)); [|lia].
      now rewrite orb_true_r.
  Qed.

  Lemma py_get_nat (l : list A) (r : nat) :
    py_get l (Z.of_nat r) = match nth_error l r with Some v => Ok v | None => Raise IndexError end.
  Proof.
    unfold py_get. rewrite py_index_nat.
    destruct (Nat.ltb_spec r (length l)) as [H|H]; [reflexivity|].
    apply nth_error_None in H. now rewrite H.
  Qed.

  Lemma py_pop_nat (l : list A) (r : nat) :
    py_pop l (Z.of_nat r) =
    match nth_error l r with Some v => Ok (v, list_remove r l) | None => Raise IndexError end.
  Proof.
    unfold py_pop. rewrite py_index_nat.
    destruct (Nat.ltb_spec r (length l)) as [H|H]; [reflexivity|].
    apply nth_error_None in H. now rewrite H.
  Qed.

  Lemma set_nth_split {X} (before : list X) (l l' : X) (after : list X) :
    set_nth (length before) l' (before ++ l :: after) = before ++ l' :: after.
  Proof. induction before; simpl; congruence. Qed.

  Lemma nth_error_split {X} (before : list X) (l : X) (after : list X) :
    nth_error (before ++ l :: after) (length before) = Some l.
  Proof. induction before; simpl; auto. Qed.

  Lemma list_insert_app_r (l1 l2 : list A) (r : nat) (x : A) :
    list_insert (length l1 + r) x (l1 ++ l2) = l1 ++ list_insert r x l2.
  Proof.
    unfold list_insert. rewrite firstn_app_2, skipn_app.
    rewrite skipn_all2 by lia. replace (length l1 + r - length l1) with r by lia.
    simpl. now rewrite <- app_assoc.
  Qed.

  Lemma list_insert_app_l (l1 l2 : list A) (r : nat) (x : A) :
    r <= length l1 -> list_insert r x (l1 ++ l2) = list_insert r x l1 ++ l2.
  Proof.
    intro H. unfold list_insert. rewrite firstn_app, skipn_app.
    replace (r - length l1) with 0 by lia. simpl. rewrite app_nil_r.
    now rewrite <- app_assoc.
  Qed.

  Lemma list_remove_app_r (l1 l2 : list A) (r : nat) :
    list_remove (length l1 + r) (l1 ++ l2) = l1 ++ list_remove r l2.
  Proof.
    unfold list_remove. rewrite firstn_app_2, skipn_app.
    rewrite skipn_all2 by lia. replace (S (length l1 + r) - length l1) with (S r) by lia.
    simpl. now rewrite <- app_assoc.
  Qed.

  Lemma list_remove_app_l (l1 l2 : list A) (r : nat) :
    r < length l1 -> list_remove r (l1 ++ l2) = list_remove r l1 ++ l2.
  Proof.
    intro H. unfold list_remove. rewrite firstn_app, skipn_app.
    replace (r - length l1) with 0 by lia. replace (S r - length l1) with 0 by lia.
    simpl. rewrite app_nil_r. now rewrite <- app_assoc.
  Qed.

  Lemma nth_error_app_r (l1 l2 : list A) (r : nat) :
    nth_error (l1 ++ l2) (length l1 + r) = nth_error l2 r.
  Proof. rewrite nth_error_app2 by lia. f_equal. lia. Qed.

  Lemma In_firstn_nth (l : list A) r y :
    In y (firstn r l) -> exists j, j < r /\ nth_error l j = Some y.
  Proof.
    intro H. apply In_nth_error in H as [j Hj]. exists j.
    assert (Hlt : j < length (firstn r l)) by (apply nth_error_Some; congruence).
    split; [rewrite firstn_length in Hlt; lia|].
    rewrite <- (firstn_skipn r l) at 1. now rewrite nth_error_app1.
  Qed.

  Lemma In_skipn_nth (l : list A) r y :
    In y (skipn r l) -> exists j, r <= j /\ nth_error l j = Some y.
  Proof.
    intro H. destruct (Nat.le_gt_cases r (length l)) as [Hr|Hr].
    - apply In_nth_error in H as [j Hj]. exists (r + j). split; [lia|].
      rewrite <- (firstn_skipn r l) at 1.
      rewrite nth_error_app2; rewrite firstn_length; [|lia].
      replace (r + j - Nat.min r (length l)) with j by lia. exact Hj.
    - rewrite skipn_all2 in H by lia. destruct H.
  Qed.

  Lemma py_insert_neg (l : list A) (k : nat) (x : A) :
    0 < k -> py_insert l (- Z.of_nat k)%Z x = list_insert (length l - k) x l.
  Proof.
    intro Hk. unfold py_insert, list_insert.
    destruct (Z.ltb_spec (- Z.of_nat k) 0); [|lia].
    destruct (Z.ltb_spec (- Z.of_nat k + Z.of_nat (length l)) 0).
    - replace (length l - k) with 0 by lia. reflexivity.
    - destruct (Z.ltb_spec (Z.of_nat (length l)) (- Z.of_nat k + Z.of_nat (length l))); [lia|].
      replace (Z.to_nat (- Z.of_nat k + Z.of_nat (length l))) with (length l - k) by lia. reflexivity.
  Qed.

  Lemma py_pop_last (l1 : list A) (v : A) : py_pop (l1 ++ [v]) (-1) = Ok (v, l1).
  Proof.
    unfold py_pop, py_index. rewrite app_length. simpl length.
    destruct (Z.ltb_spec (-1) 0); [|lia].
    destruct (Z.ltb_spec (-1 + Z.of_nat (length l1 + 1)) 0); [lia|].
    destruct (Z.leb_spec (Z.of_nat (length l1 + 1)) (-1 + Z.of_nat (length l1 + 1))); [lia|].
    simpl orb. cbv iota.
    replace (Z.to_nat (-1 + Z.of_nat (length l1 + 1))) with (length l1 + 0) by lia.
    rewrite nth_error_app_r. simpl nth_error. cbv iota.
    rewrite Nat.add_0_r, firstn_app, firstn_all, Nat.sub_diag. simpl firstn. rewrite app_nil_r.
    rewrite skipn_all2 by (rewrite app_length; simpl; lia). now rewrite app_nil_r.
  Qed.

  Lemma py_pop_last_nil : py_pop (@nil A) (-1) = Raise IndexError.
  Proof. reflexivity. Qed.
End PyListFacts.

(* ------------------------------------------------------------------------ *)
(* BarrelList                                                                *)
(* ------------------------------------------------------------------------ *)
Section BarrelFacts.
  Context {A : Type}.
  Variable limit : nat -> nat.
  Implicit Types ls : barrel (A := A).

  Lemma bl_len_concat ls : bl_len ls = length (concat ls).
  Proof. induction ls; simpl; [reflexivity|]. rewrite app_length. congruence. Qed.

  (* ---- _translate_index ------------------------------------------------- *)
  (* the loop stops in sub-list k at offset r: rel = |before| + r, and either r
     is inside that sub-list or it is the last one *)
  Lemma translate_go_spec ls : forall i rel,
    ls <> [] -> (0 <= rel)%Z ->
    exists before l after r,
      ls = before ++ l :: after /\
      translate_go ls i rel = (i + length before, Z.of_nat r) /\
      rel = (Z.of_nat (length (concat before)) + Z.of_nat r)%Z /\
      (r < length l \/ after = []).
  Proof.
    induction ls as [|l rest IH]; intros i rel Hne Hrel; [congruence|].
    simpl. destruct (Z.ltb_spec rel (Z.of_nat (length l))) as [Hlt|Hge].
    - exists [], l, rest, (Z.to_nat rel). simpl.
      split; [reflexivity|]. split; [f_equal; lia|]. split; [lia|]. left. lia.
    - destruct rest as [|l2 rest'].
      + exists [], l, [], (Z.to_nat rel). simpl.
        split; [reflexivity|]. split; [f_equal; lia|]. split; [lia|]. now right.
      + destruct (IH (S i) (rel - Z.of_nat (length l))%Z) as (before & l' & after & r & E & T & R & C);
          [congruence | lia |].
        exists (l :: before), l', after, r.
        split; [simpl; now rewrite E|].
        split; [rewrite T; simpl; f_equal; lia|].
        split; [simpl; rewrite app_length; lia|]. exact C.
  Qed.

  Lemma translate_index_nat ls (n : nat) :
    ls <> [] ->
    exists before l after r,
      ls = before ++ l :: after /\
      translate_index ls (Z.of_nat n) = Ok (Some (length before, Z.of_nat r)) /\
      n = length (concat before) + r /\
      (r < length l \/ after = []).
  Proof.
    intro Hne.
    destruct (translate_go_spec ls 0 (Z.of_nat n) Hne ltac:(lia))
      as (before & l & after & r & E & T & R & C).
    exists before, l, after, r. repeat split; try assumption; try lia.
    unfold translate_index. destruct ls; [congruence|].
    destruct (Z.ltb_spec (Z.of_nat n) 0); [lia|].
    rewrite T. simpl. destruct (Z.ltb_spec (Z.of_nat r) 0); [lia|]. reflexivity.
  Qed.

  (* ---- _balance_list ----------------------------------------------------- *)
  Lemma bal_loop_flat : forall fuel half (cur : list A) after,
    length cur <= fuel ->
    exists cur' after', bal_loop fuel half cur after = Some (cur', after') /\
                        cur' ++ concat after' = cur ++ concat after.
  Proof.
    induction fuel as [|f IH]; intros half cur after Hf.
    - destruct cur; [|simpl in Hf; lia]. simpl.
      destruct (Nat.ltb_spec half 0); [lia|]. eauto.
    - simpl. destruct (Nat.ltb_spec half (length cur)) as [Hlt|Hge]; [|eauto].
      set (k := if Nat.eqb half 0 then 0 else length cur - half).
      assert (Hk : k < length cur).
      { unfold k. destruct (Nat.eqb_spec half 0); lia. }
      destruct (IH half (firstn k cur) (skipn k cur :: after)) as (c' & a' & E & F).
      { rewrite firstn_length. lia. }
      exists c', a'. split; [exact E|]. rewrite F. simpl.
      now rewrite app_assoc, firstn_skipn.
  Qed.

  Lemma bl_balance_flat (before : barrel) (cur : list A) (after : barrel) :
    exists ls', bl_balance limit (before ++ cur :: after) (length before) = Ok ls' /\
                concat ls' = concat (before ++ cur :: after) /\ ls' <> [].
  Proof.
    unfold bl_balance. rewrite nth_error_split.
    destruct (Nat.ltb_spec (limit (bl_len (before ++ cur :: after))) (length cur)).
    - replace (skipn (S (length before)) (before ++ cur :: after)) with after.
      2:{ rewrite skipn_app, skipn_all2 by lia.
          replace (S (length before) - length before) with 1 by lia. reflexivity. }
      destruct (bal_loop_flat (length cur) (Nat.div (limit (bl_len (before ++ cur :: after))) 2) cur after (le_n _))
        as (c' & a' & E & F).
      rewrite E. eexists. split; [reflexivity|]. split.
      + rewrite firstn_app, firstn_all2 by lia. rewrite Nat.sub_diag. simpl. rewrite app_nil_r.
        rewrite !concat_app. simpl. now rewrite F.
      + destruct (firstn (length before) (before ++ cur :: after)); discriminate.
    - eexists. split; [reflexivity|]. split; [reflexivity|]. destruct before; discriminate.
  Qed.

  (* ---- insert ------------------------------------------------------------ *)
  Theorem bl_insert_flat ls (i : nat) (x : A) :
    ls <> [] ->
    exists ls', bl_insert limit ls (Z.of_nat i) x = Ok ls' /\
                concat ls' = list_insert i x (concat ls) /\ ls' <> [].
  Proof.
    intros Hne.
    assert (Hmulti :
      exists ls', match translate_index ls (Z.of_nat i) with
                  | Raise e => Raise e
                  | Ok tr =>
                      let '(li, rel) := match tr with None => (0, 0%Z) | Some p => p end in
                      match nth_error ls li with
                      | None => Raise IndexError
                      | Some l => bl_balance limit (set_nth li (py_insert l rel x) ls) li
                      end
                  end = Ok ls' /\ concat ls' = list_insert i x (concat ls) /\ ls' <> []).
    { destruct (translate_index_nat ls i Hne) as (before & l & after & r & E & T & R & C).
      rewrite T. cbv beta iota. subst ls. rewrite nth_error_split, set_nth_split.
      rewrite py_insert_nat.
      destruct (bl_balance_flat before (list_insert r x l) after) as (ls' & B1 & B2 & B3).
      exists ls'. split; [exact B1|]. split; [|exact B3].
      rewrite B2, !concat_app. simpl. rewrite R.
      rewrite list_insert_app_r. f_equal.
      destruct C as [C|C].
      - rewrite list_insert_app_l by lia. reflexivity.
      - subst after. simpl. now rewrite !app_nil_r. }
    destruct ls as [|l0 [|l1 rest]]; [congruence| |exact Hmulti].
    (* single sub-list: self.lists[0].insert(index, item) *)
    unfold bl_insert. rewrite py_insert_nat.
    destruct (bl_balance_flat [] (list_insert i x l0) []) as (ls' & B1 & B2 & B3).
    exists ls'. split; [exact B1|]. split; [|exact B3].
    rewrite B2. simpl. now rewrite !app_nil_r.
  Qed.

  (* ---- negative indices -------------------------------------------------------------- *)
  Lemma translate_index_neg ls (k : nat) :
    ls <> [] -> 0 < k ->
    translate_index ls (- Z.of_nat k)%Z =
    if k <=? bl_len ls then translate_index ls (Z.of_nat (bl_len ls - k)) else Ok None.
  Proof.
    intros Hne Hk. unfold translate_index. destruct ls as [|l0 rest]; [congruence|].
    destruct (Z.ltb_spec (- Z.of_nat k) 0); [|lia].
    destruct (Nat.leb_spec k (bl_len (l0 :: rest))) as [Hle|Hgt].
    - destruct (Z.ltb_spec (Z.of_nat (bl_len (l0 :: rest) - k)) 0); [lia|].
      replace (- Z.of_nat k + Z.of_nat (bl_len (l0 :: rest)))%Z
        with (Z.of_nat (bl_len (l0 :: rest) - k)) by lia. reflexivity.
    - set (rel := (- Z.of_nat k + Z.of_nat (bl_len (l0 :: rest)))%Z).
      assert (Hrel : (rel < 0)%Z) by (unfold rel; lia).
      simpl translate_go. destruct (Z.ltb_spec rel (Z.of_nat (length l0))); [|lia].
      destruct (Z.ltb_spec rel 0); [reflexivity|lia].
  Qed.

  (* insert(-k, x): before the k-th item from the end, clamped to the front *)
  Theorem bl_insert_neg_flat ls (k : nat) (x : A) :
    ls <> [] -> 0 < k ->
    exists ls', bl_insert limit ls (- Z.of_nat k)%Z x = Ok ls' /\
                concat ls' = list_insert (length (concat ls) - k) x (concat ls) /\ ls' <> [].
  Proof.
    intros Hne Hk.
    destruct (Nat.leb_spec k (length (concat ls))) as [Hle|Hgt].
    - (* same as inserting at the natural index len - k *)
      assert (E : bl_insert limit ls (- Z.of_nat k)%Z x
                  = bl_insert limit ls (Z.of_nat (length (concat ls) - k)) x).
      { unfold bl_insert. destruct ls as [|l0 [|l1 r]]; [congruence| |].
        - simpl concat. rewrite app_nil_r. now rewrite py_insert_neg, py_insert_nat by exact Hk.
        - rewrite translate_index_neg by (congruence || exact Hk).
          rewrite bl_len_concat. apply Nat.leb_le in Hle. now rewrite Hle. }
      rewrite E. apply bl_insert_flat. exact Hne.
    - replace (length (concat ls) - k) with 0 by lia.
      unfold bl_insert. destruct ls as [|l0 [|l1 r]]; [congruence| |].
      + simpl concat in *. rewrite app_nil_r in *. rewrite py_insert_neg by exact Hk.
        replace (length l0 - k) with 0 by lia.
        destruct (bl_balance_flat [] (list_insert 0 x l0) []) as (ls' & B1 & B2 & B3).
        exists ls'. split; [exact B1|]. split; [|exact B3]. rewrite B2. simpl. now rewrite !app_nil_r.
      + rewrite translate_index_neg by (congruence || exact Hk).
        rewrite bl_len_concat. apply Nat.leb_gt in Hgt. rewrite Hgt. cbv beta iota.
        simpl nth_error. cbv iota. simpl set_nth.
        change 0%Z with (Z.of_nat 0). rewrite py_insert_nat.
        destruct (bl_balance_flat [] (list_insert 0 x l0) (l1 :: r)) as (ls' & B1 & B2 & B3).
        exists ls'. split; [exact B1|]. split; [|exact B3]. rewrite B2. reflexivity.
  Qed.

  (* ---- __getitem__ --------------------------------------------------------- *)
  Theorem bl_get_flat ls (i : nat) :
    ls <> [] ->
    bl_get ls (Z.of_nat i) =
    match nth_error (concat ls) i with Some v => Ok v | None => Raise IndexError end.
  Proof.
    intro Hne. unfold bl_get.
    destruct (translate_index_nat ls i Hne) as (before & l & after & r & E & T & R & C).
    rewrite T. subst ls. rewrite nth_error_split, py_get_nat.
    rewrite concat_app. simpl. rewrite R, nth_error_app_r.
    destruct C as [C|C].
    - rewrite nth_error_app1 by exact C. reflexivity.
    - subst after. simpl. now rewrite app_nil_r.
  Qed.

  (* a negative index counts from the end; further back than the first item: IndexError *)
  Theorem bl_get_neg_flat ls (k : nat) :
    ls <> [] -> 0 < k ->
    bl_get ls (- Z.of_nat k)%Z =
    match (if k <=? length (concat ls) then nth_error (concat ls) (length (concat ls) - k) else None) with
    | Some v => Ok v | None => Raise IndexError end.
  Proof.
    intros Hne Hk. destruct (Nat.leb_spec k (length (concat ls))) as [Hle|Hgt].
    - rewrite <- (bl_get_flat ls (length (concat ls) - k) Hne).
      unfold bl_get, translate_index. destruct ls as [|l0 rest]; [congruence|].
      destruct (Z.ltb_spec (- Z.of_nat k) 0); [|lia].
      destruct (Z.ltb_spec (Z.of_nat (length (concat (l0 :: rest)) - k)) 0); [lia|].
      rewrite bl_len_concat.
      replace (- Z.of_nat k + Z.of_nat (length (concat (l0 :: rest))))%Z
        with (Z.of_nat (length (concat (l0 :: rest)) - k)) by lia.
      reflexivity.
    - unfold bl_get, translate_index. destruct ls as [|l0 rest]; [congruence|].
      destruct (Z.ltb_spec (- Z.of_nat k) 0); [|lia].
      rewrite bl_len_concat.
      set (rel := (- Z.of_nat k + Z.of_nat (length (concat (l0 :: rest))))%Z).
      assert (Hrel : (rel < 0)%Z) by (unfold rel; lia).
      simpl translate_go. destruct (Z.ltb_spec rel (Z.of_nat (length l0))); [|lia].
      destruct (Z.ltb_spec rel 0); [reflexivity|lia].
  Qed.

  (* ---- pop(index), index <> -1 ------------------------------------------------ *)
  Theorem bl_pop_flat ls (i : nat) :
    ls <> [] ->
    match nth_error (concat ls) i with
    | Some v => exists ls', bl_pop limit ls (Some (Z.of_nat i)) = Ok (v, ls') /\
                            concat ls' = list_remove i (concat ls) /\ ls' <> []
    | None => bl_pop limit ls (Some (Z.of_nat i)) = Raise IndexError
    end.
  Proof.
    intro Hne.
    assert (Hb : bl_pop limit ls (Some (Z.of_nat i)) =
      match translate_index ls (Z.of_nat i) with
      | Raise e => Raise e
      | Ok None => Raise IndexError
      | Ok (Some (li, rel)) =>
          match nth_error ls li with
          | None => Raise IndexError
          | Some l => match py_pop l rel with
                      | Raise e => Raise e
                      | Ok (v, l') =>
                          match bl_balance limit (set_nth li l' ls) li with
                          | Raise e => Raise e
                          | Ok ls' => Ok (v, ls')
                          end
                      end
          end
      end).
    { unfold bl_pop. destruct (Z.eqb_spec (Z.of_nat i) (-1)); [lia|].
      destruct ls as [|? [|? ?]]; reflexivity. }
    rewrite Hb. clear Hb.
    destruct (translate_index_nat ls i Hne) as (before & l & after & r & E & T & R & C).
    rewrite T. subst ls. rewrite nth_error_split, py_pop_nat.
    rewrite concat_app. simpl. rewrite R, nth_error_app_r.
    assert (Hn : nth_error (l ++ concat after) r = nth_error l r).
    { destruct C as [C|C]; [now rewrite nth_error_app1 | subst after; simpl; now rewrite app_nil_r]. }
    rewrite Hn. destruct (nth_error l r) as [v|] eqn:Ev; [|reflexivity].
    rewrite set_nth_split.
    destruct (bl_balance_flat before (list_remove r l) after) as (ls' & B1 & B2 & B3).
    rewrite B1. exists ls'. split; [reflexivity|]. split; [|exact B3].
    rewrite B2, concat_app. simpl. rewrite list_remove_app_r. f_equal.
    rewrite list_remove_app_l; [reflexivity|]. apply nth_error_Some. congruence.
  Qed.

  (* ---- len ------------------------------------------------------------------- *)
  (* (bl_len_concat above) *)

  (* ---- pop() / pop(-1) / pop(-k) ------------------------------------------------------------ *)
  Lemma trim_tail_shape ls :
    ls <> [] ->
    concat (trim_tail ls) = concat ls /\
    exists init lastl, trim_tail ls = init ++ [lastl] /\ (lastl <> [] \/ init = []).
  Proof.
    induction ls as [|l rest IH]; intro Hne; [congruence|].
    destruct rest as [|a r].
    - simpl. split; [reflexivity|]. exists [], l. split; [reflexivity|now right].
    - destruct (IH ltac:(discriminate)) as (Ec & init & lastl & Et & Hl).
      change (trim_tail (l :: a :: r)) with
        (match trim_tail (a :: r) with [[]] => [l] | r' => l :: r' end).
      destruct (trim_tail (a :: r)) as [|t0 tr] eqn:Etr.
      { destruct init; discriminate. }
      destruct t0 as [|y t0]; destruct tr as [|z tr].
      + (* the rest is one empty sub-list *)
        split.
        * simpl in Ec. simpl. rewrite <- Ec. now rewrite !app_nil_r.
        * exists [], l. split; [reflexivity|now right].
      + split; [simpl; simpl in Ec; now rewrite <- Ec|].
        exists (l :: init), lastl. split; [simpl; now rewrite <- Et|].
        left. destruct Hl as [Hl|Hl]; [exact Hl|]. subst init. simpl in Et. discriminate.
      + split; [simpl; simpl in Ec; now rewrite <- Ec|].
        exists (l :: init), lastl. split; [simpl; now rewrite <- Et|].
        left. destruct Hl as [Hl|Hl]; [exact Hl|]. subst init. simpl in Et. inversion Et. discriminate.
      + split; [simpl; simpl in Ec; now rewrite <- Ec|].
        exists (l :: init), lastl. split; [simpl; now rewrite <- Et|].
        left. destruct Hl as [Hl|Hl]; [exact Hl|]. subst init. simpl in Et. discriminate.
  Qed.

  Lemma bl_pop_last_empty ls : ls <> [] -> concat ls = [] -> bl_pop_last ls = Raise IndexError.
  Proof.
    intros Hne Ec. destruct (trim_tail_shape ls Hne) as (Et & init & lastl & Es & Hl).
    unfold bl_pop_last. rewrite Es, last_last.
    assert (lastl = []).
    { rewrite Ec, Es, concat_app in Et. simpl in Et. rewrite app_nil_r in Et.
      apply app_eq_nil in Et. tauto. }
    subst lastl. reflexivity.
  Qed.

  Lemma bl_pop_last_flat ls l1 v :
    ls <> [] -> concat ls = l1 ++ [v] ->
    exists ls', bl_pop_last ls = Ok (v, ls') /\ concat ls' = l1 /\ ls' <> [].
  Proof.
    intros Hne Ec. destruct (trim_tail_shape ls Hne) as (Et & init & lastl & Es & Hl).
    rewrite Ec, Es, concat_app in Et. simpl in Et. rewrite app_nil_r in Et.
    assert (Hnl : lastl <> []).
    { destruct Hl as [Hl|Hl]; [exact Hl|]. subst init. simpl in Et. intro. subst lastl.
      destruct l1; discriminate. }
    destruct (exists_last Hnl) as (l2 & v' & El). subst lastl.
    rewrite app_assoc in Et. apply app_inj_tail in Et as [E1 E2]. subst v'.
    unfold bl_pop_last. rewrite Es, last_last, py_pop_last.
    rewrite app_length. simpl length. replace (length init + 1 - 1) with (length init) by lia.
    rewrite set_nth_split.
    destruct ((1 <? length init + 1) && match l2 with [] => true | _ :: _ => false end) eqn:Eb.
    - apply andb_true_iff in Eb as [Eb1 Eb2]. apply Nat.ltb_lt in Eb1.
      destruct l2; [|discriminate]. rewrite removelast_last.
      exists init. split; [reflexivity|]. split; [now rewrite app_nil_r in E1|].
      destruct init; [simpl in Eb1; lia|discriminate].
    - exists (init ++ [l2]). split; [reflexivity|]. split.
      + rewrite concat_app. simpl. now rewrite app_nil_r.
      + destruct init; discriminate.
  Qed.

  Lemma bl_pop_none_empty ls : ls <> [] -> concat ls = [] -> bl_pop limit ls None = Raise IndexError.
  Proof.
    intros Hne Ec. destruct ls as [|l0 [|l1 r]]; [congruence| |].
    - simpl in Ec. rewrite app_nil_r in Ec. subst l0. reflexivity.
    - now apply bl_pop_last_empty.
  Qed.

  Lemma bl_pop_none_flat ls l1 v :
    ls <> [] -> concat ls = l1 ++ [v] ->
    exists ls', bl_pop limit ls None = Ok (v, ls') /\ concat ls' = l1 /\ ls' <> [].
  Proof.
    intros Hne Ec. destruct ls as [|l0 [|l1' r]]; [congruence| |].
    - simpl in Ec. rewrite app_nil_r in Ec. subst l0. simpl. rewrite py_pop_last.
      exists [l1]. split; [reflexivity|]. split; [simpl; now rewrite app_nil_r|discriminate].
    - now apply bl_pop_last_flat.
  Qed.

  Lemma bl_pop_neg_eq ls (k : nat) :
    ls <> [] -> 2 <= k ->
    bl_pop limit ls (Some (- Z.of_nat k)%Z) =
    if k <=? bl_len ls then bl_pop limit ls (Some (Z.of_nat (bl_len ls - k))) else Raise IndexError.
  Proof.
    intros Hne Hk.
    assert (G : forall idx, (idx =? -1)%Z = false ->
      bl_pop limit ls (Some idx) =
      match translate_index ls idx with
      | Raise e => Raise e
      | Ok None => Raise IndexError
      | Ok (Some (li, rel)) =>
          match nth_error ls li with
          | None => Raise IndexError
          | Some l => match py_pop l rel with
                      | Raise e => Raise e
                      | Ok (v, l') => match bl_balance limit (set_nth li l' ls) li with
                                      | Raise e => Raise e
                                      | Ok ls' => Ok (v, ls')
                                      end
                      end
          end
      end).
    { intros idx Hi. unfold bl_pop. rewrite Hi. destruct ls as [|? [|? ?]]; reflexivity. }
    rewrite G by (apply Z.eqb_neq; lia).
    rewrite translate_index_neg by (exact Hne || lia).
    destruct (k <=? bl_len ls); [|reflexivity].
    rewrite G by (apply Z.eqb_neq; lia). reflexivity.
  Qed.

  (* ---- bisect.insort_right -------------------------------------------------- *)
  Variable ltb : A -> A -> bool.

  (* [x < a[j]] is monotone along the list (true from some point on): what
     sortedness gives the binary search *)
  Definition step_on (x : A) (l : list A) : Prop :=
    forall j1 j2 y1 y2, j1 <= j2 -> nth_error l j1 = Some y1 -> nth_error l j2 = Some y2 ->
                        ltb x y1 = true -> ltb x y2 = true.

  Lemma bisect_loop_eq fuel ls (x : A) lo hi :
    bisect_loop ltb fuel ls x lo hi =
    if lo <? hi then
      match fuel with
      | O => Raise OutOfFuel
      | S f =>
          match bl_get ls (Z.of_nat (Nat.div (lo + hi) 2)) with
          | Raise e => Raise e
          | Ok y => if ltb x y then bisect_loop ltb f ls x lo (Nat.div (lo + hi) 2)
                    else bisect_loop ltb f ls x (S (Nat.div (lo + hi) 2)) hi
          end
      end
    else Ok lo.
  Proof. destruct fuel; reflexivity. Qed.

  Lemma bisect_loop_spec ls (x : A) : ls <> [] -> step_on x (concat ls) ->
    forall fuel lo hi,
      hi - lo <= fuel -> lo <= hi -> hi <= length (concat ls) ->
      (forall j y, j < lo -> nth_error (concat ls) j = Some y -> ltb x y = false) ->
      (forall j y, hi <= j -> nth_error (concat ls) j = Some y -> ltb x y = true) ->
      exists r, bisect_loop ltb fuel ls x lo hi = Ok r /\ r <= length (concat ls) /\
                (forall j y, j < r -> nth_error (concat ls) j = Some y -> ltb x y = false) /\
                (forall j y, r <= j -> nth_error (concat ls) j = Some y -> ltb x y = true).
  Proof.
    intros Hne Hstep. induction fuel as [|f IH]; intros lo hi Hf Hle Hhi Hlo Hup.
    - rewrite bisect_loop_eq. destruct (Nat.ltb_spec lo hi); [lia|]. exists lo.
      split; [reflexivity|]. split; [lia|]. split; [exact Hlo|]. intros j y Hj. apply Hup. lia.
    - rewrite bisect_loop_eq. destruct (Nat.ltb_spec lo hi) as [Hlt|Hge].
      2:{ exists lo. split; [reflexivity|]. split; [lia|]. split; [exact Hlo|].
          intros j y Hj. apply Hup. lia. }
      set (mid := Nat.div (lo + hi) 2).
      assert (Hmid : lo <= mid < hi).
      { unfold mid. split.
        - apply Nat.div_le_lower_bound; lia.
        - apply Nat.div_lt_upper_bound; lia. }
      rewrite bl_get_flat by exact Hne.
      destruct (nth_error (concat ls) mid) as [y|] eqn:Ey.
      2:{ apply nth_error_None in Ey. lia. }
      destruct (ltb x y) eqn:Exy.
      + apply IH; try lia; auto.
        intros j y' Hj Ej. eapply Hstep; [exact Hj | exact Ey | exact Ej | exact Exy].
      + apply IH; try lia; auto.
        intros j y' Hj Ej. destruct (ltb x y') eqn:E'; [|reflexivity].
        assert (ltb x y = true); [|congruence].
        eapply Hstep; [| exact Ej | exact Ey | exact E']. lia.
  Qed.

  Theorem bl_insort_flat ls (x : A) :
    ls <> [] -> step_on x (concat ls) ->
    exists r ls', bl_insort limit ltb ls x = Ok ls' /\ ls' <> [] /\
                  concat ls' = list_insert r x (concat ls) /\ r <= length (concat ls) /\
                  (forall y, In y (firstn r (concat ls)) -> ltb x y = false) /\
                  (forall y, In y (skipn r (concat ls)) -> ltb x y = true).
  Proof.
    intros Hne Hstep. unfold bl_insort.
    destruct (bisect_loop_spec ls x Hne Hstep (bl_len ls) 0 (bl_len ls))
      as (r & E & Hr & Hlo & Hup); try lia.
    - rewrite bl_len_concat. lia.
    - intros j y Hj Ej. rewrite bl_len_concat in Hj.
      assert (Hs : nth_error (concat ls) j <> None) by congruence.
      apply nth_error_Some in Hs. lia.
    - rewrite E.
      destruct (bl_insert_flat ls r x Hne) as (ls' & I1 & I2 & I3).
      exists r, ls'. split; [exact I1|]. split; [exact I3|]. split; [exact I2|]. split; [exact Hr|]. split.
      + intros y Hy. apply In_firstn_nth in Hy as (j & Hj & Ej). eapply Hlo; eauto.
      + intros y Hy. apply In_skipn_nth in Hy as (j & Hj & Ej). eapply Hup; eauto.
  Qed.
End BarrelFacts.

(* ------------------------------------------------------------------------ *)
(* BarrelList driven directly = Python list (Spec.lspec_run), any limit      *)
(* ------------------------------------------------------------------------ *)
Lemma if_true_eq {X} (a b : X) : (if true then a else b) = a.
Proof. reflexivity. Qed.
Lemma if_false_eq {X} (a b : X) : (if false then a else b) = b.
Proof. reflexivity. Qed.

Lemma last_case {X} (L : list X) : L = [] \/ exists l1 v, L = l1 ++ [v].
Proof.
  destruct L as [|a L]; [now left|right].
  destruct (@exists_last X (a :: L)) as (l1 & v & E); [discriminate|]. eauto.
Qed.

Theorem barrel_refines_list (limit : nat -> nat) : forall ops (ls : barrel (A := nat)),
  ls <> [] -> bl_run limit ls ops = lspec_run (concat ls) ops.
Proof.
  induction ops as [|op ops IH]; intros ls Hne; [reflexivity|].
  destruct op as [i x|i|i|k|k x| |k| |]; cbn [bl_run lspec_run bl_step lspec_step].
  - destruct (bl_insert_flat limit ls i x Hne) as (ls' & E & F & G).
    rewrite E. f_equal. rewrite <- F. now apply IH.
  - pose proof (bl_pop_flat limit ls i Hne) as P.
    destruct (nth_error (concat ls) i) as [v|].
    + destruct P as (ls' & E & F & G). rewrite E. f_equal. rewrite <- F. now apply IH.
    + rewrite P. f_equal. now apply IH.
  - rewrite (bl_get_flat ls i Hne).
    destruct (nth_error (concat ls) i); f_equal; now apply IH.
  - destruct k as [|k].
    + change (- Z.of_nat 0)%Z with (Z.of_nat 0). rewrite (bl_get_flat ls 0 Hne). cbn [Nat.eqb].
      destruct (nth_error (concat ls) 0); f_equal; now apply IH.
    + rewrite (bl_get_neg_flat ls (S k) Hne ltac:(lia)). cbn [Nat.eqb].
      destruct (if S k <=? length (concat ls) then nth_error (concat ls) (length (concat ls) - S k) else None);
        f_equal; now apply IH.
  - (* insert(-k, x) *)
    destruct k as [|k].
    + change (- Z.of_nat 0)%Z with (Z.of_nat 0). cbn [Nat.eqb].
      destruct (bl_insert_flat limit ls 0 x Hne) as (ls' & E & F & G).
      rewrite E. f_equal. rewrite <- F. now apply IH.
    + cbn [Nat.eqb].
      destruct (bl_insert_neg_flat limit ls (S k) x Hne ltac:(lia)) as (ls' & E & F & G).
      rewrite E. f_equal. rewrite <- F. now apply IH.
  - (* pop() *)
    destruct (last_case (concat ls)) as [Ec|(l1 & v & Ec)].
    + rewrite (bl_pop_none_empty limit ls Hne Ec), Ec. f_equal. rewrite <- Ec. now apply IH.
    + destruct (bl_pop_none_flat limit ls l1 v Hne Ec) as (ls' & E & F & G).
      rewrite E, Ec. destruct (l1 ++ [v]) eqn:El; [destruct l1; discriminate|]. rewrite <- El.
      rewrite removelast_last, last_last. f_equal. rewrite <- F. now apply IH.
  - (* pop(-k) *)
    destruct k as [|[|k]].
    + change (- Z.of_nat 0)%Z with (Z.of_nat 0). cbn [Nat.eqb].
      pose proof (bl_pop_flat limit ls 0 Hne) as P.
      destruct (nth_error (concat ls) 0) as [v|].
      * destruct P as (ls' & E & F & G). rewrite E. f_equal. rewrite <- F. now apply IH.
      * rewrite P. f_equal. now apply IH.
    + (* pop(-1) is pop() *)
      cbn [Nat.eqb].
      assert (Ep : bl_pop limit ls (Some (- Z.of_nat 1)%Z) = bl_pop limit ls None).
      { unfold bl_pop. change (- Z.of_nat 1 =? -1)%Z with true.
        destruct ls as [|l0 [|l1 r]]; reflexivity. }
      rewrite Ep.
      destruct (last_case (concat ls)) as [Ec|(l1 & v & Ec)].
      * rewrite (bl_pop_none_empty limit ls Hne Ec), Ec. simpl. f_equal.
        replace (lspec_run [] ops) with (lspec_run (concat ls) ops) by now rewrite Ec.
        now apply IH.
      * destruct (bl_pop_none_flat limit ls l1 v Hne Ec) as (ls' & E & F & G).
        rewrite E, Ec. rewrite app_length. simpl length.
        destruct (Nat.leb_spec 1 (length l1 + 1)); [|lia].
        replace (length l1 + 1 - 1) with (length l1 + 0) by lia.
        rewrite nth_error_app_r. simpl nth_error.
        rewrite Nat.add_0_r. unfold list_remove. rewrite firstn_app, firstn_all, Nat.sub_diag. simpl firstn.
        rewrite skipn_all2 by (rewrite app_length; simpl; lia). rewrite !app_nil_r.
        f_equal. rewrite <- F. now apply IH.
    + cbn [Nat.eqb]. rewrite (bl_pop_neg_eq limit ls (S (S k)) Hne ltac:(lia)), bl_len_concat.
      destruct (S (S k) <=? length (concat ls)); [|f_equal; now apply IH].
      pose proof (bl_pop_flat limit ls (length (concat ls) - S (S k)) Hne) as P.
      destruct (nth_error (concat ls) (length (concat ls) - S (S k))) as [v|].
      * destruct P as (ls' & E & F & G). rewrite E. f_equal. rewrite <- F. now apply IH.
      * rewrite P. f_equal. now apply IH.
  - rewrite bl_len_concat. f_equal. now apply IH.
  - f_equal. now apply IH.
Qed.
