(* C03 -> C02 link, part 4: copy() and c == c, so that the link covers all 15 operations. *)
From Boltons Require Import Lib.Prelude Lib.C03_Syntax Lib.C03_Conc Model.C03_Model
     Proofs.C03_Link1 Proofs.C03_Link2.
From Boltons Require Lib.C02_Syntax Model.C02_Model Model.C02_PtrModel Model.C02_PtrCache.
From Boltons Require Proofs.C02_Lists Proofs.C02_Inv Proofs.C02_PtrLemmas Proofs.C02_PtrRep Proofs.C02_PtrSim.

Definition enc_item (kv : K * V) : fval * fval := (FKey (fst kv), FVal (snd kv)).

(* walking NEXT from cell x through the cells `ids` (holding the items l) back to the anchor a *)
Lemma walk_link st S s pr a :
  SR s st pr -> Closed pr S -> P2.pr_anchor pr = a ->
  forall ids l x acc fuel,
    L2.chain (P2.pr_heap pr) (x :: ids ++ [a]) -> L2.cells_hold (P2.pr_heap pr) ids l ->
    ~ In a ids -> In x S -> (forall y, In y ids -> In y S) ->
    length ids < fuel ->
    arun (walk_ll fuel x acc) s
    = (s, Ok (acc ++ (key_fv (P2.c_key (P2.pr_heap pr x)), val_fv (P2.c_val (P2.pr_heap pr x))) :: map enc_item l)).
Proof.
  intros R C Ea. induction ids as [|i ir IH]; intros l x acc fuel CH CE NA Hx Hall LF.
  - destruct l; [|simpl in CE; tauto]. destruct fuel as [|f]; [simpl in LF; lia|].
    simpl walk_ll.
    rewrite (st_rd_key st S s pr x _ R C Hx), (st_rd_val st S s pr x _ R C Hx).
    simpl in CH. destruct CH as [CN _].
    match goal with |- context [arun (rd_addr x NEXT ?kk) s] =>
      destruct (st_rd_next st S s pr x kk R C Hx) as [E' _]; rewrite E' end.
    rewrite (st_anchor st s pr _ R), CN, Ea, Nat.eqb_refl. reflexivity.
  - destruct l as [|[k0 v0] lr]; [simpl in CE; tauto|]. simpl in CE. destruct CE as [CK [CV CR]].
    destruct fuel as [|f]; [simpl in LF; lia|].
    simpl walk_ll.
    rewrite (st_rd_key st S s pr x _ R C Hx), (st_rd_val st S s pr x _ R C Hx).
    change (x :: (i :: ir) ++ [a]) with (x :: i :: ir ++ [a]) in CH.
    destruct CH as [CN [_ CH']].
    match goal with |- context [arun (rd_addr x NEXT ?kk) s] =>
      destruct (st_rd_next st S s pr x kk R C Hx) as [E' _]; rewrite E' end.
    rewrite (st_anchor st s pr _ R), CN, Ea.
    assert (NE : Nat.eqb i a = false).
    { apply Nat.eqb_neq. intro H. apply NA. left. now symmetry. }
    rewrite NE.
    rewrite (IH lr i _ f CH' CR).
    + rewrite CK, CV. simpl. rewrite <- app_assoc. reflexivity.
    + intro H. apply NA. now right.
    + apply Hall. now left.
    + intros y Hy. apply Hall. now right.
    + simpl in LF. lia.
Qed.

Lemma real_items_enc l : real_items (map enc_item l) = Some l.
Proof. induction l as [|[k v] r IH]; simpl; [reflexivity|]. now rewrite IH. Qed.

(* copy(): the items of the ring, oldest first -- C02's `ring m` *)
Lemma copy_link tb c s m p :
  Lk p m -> CR s p -> length (M2.ring m) <= cf_max c ->
  run_op tb c s Copy = (s, RItems (M2.ring m)).
Proof.
  intros [NR LEN ES [ids RP]] R CAP. pose proof (rep_closed _ _ _ RP) as C.
  destruct RP as [ND CH CE LK LND FR].
  unfold run_op, compile_cfg, compile. rewrite arun_ret_of.
  unfold m_copy, locked. rewrite arun_with_lock.
  unfold CR in R. rewrite (st_anchor _ s _ _ R), arun_bindr.
  rewrite (walk_link _ _ s _ (P2.pr_anchor (PC2.ps_ring p)) R C eq_refl ids (M2.ring m)
                     (P2.pr_anchor (PC2.ps_ring p)) [] (cf_max c + 2) CH CE).
  - simpl tl. rewrite real_items_enc. reflexivity.
  - inversion ND; assumption.
  - now left.
  - intros y Hy. now right.
  - rewrite (L2.cells_hold_length _ _ _ CE). lia.
Qed.

Lemma eqself_link tb c s : run_op tb c s EqSelf = (s, RBool true).
Proof.
  unfold run_op, compile_cfg, compile. rewrite arun_ret_of.
  unfold m_eq_self, locked. rewrite arun_with_lock. reflexivity.
Qed.

(* c | {}, {} | c, repr(c): the items of the dict storage, sorted -- C02's `store m` *)
Lemma snapshot_link tb c s m p w :
  Lk p m -> CR s p ->
  run_op tb c s (Snapshot w) = (s, RItems (sort_items (M2.store m))).
Proof.
  intros [_ _ ES _] R. unfold run_op, compile_cfg, compile. rewrite arun_ret_of.
  unfold m_snapshot, locked. rewrite arun_with_lock, arun_act. unfold sem at 1. cbn beta iota.
  unfold CR in R. rewrite (sr_store _ _ _ R), ES. reflexivity.
Qed.

(* copy.copy(c) = LRI.__copy__ = copy() under the (re-entrant) lock *)
Lemma copycopy_link tb c s m p :
  Lk p m -> CR s p -> length (M2.ring m) <= cf_max c ->
  run_op tb c s CopyCopy = (s, RItems (M2.ring m)).
Proof.
  intros LK R CAP. pose proof (copy_link tb c s m p LK R CAP) as CL.
  unfold run_op, compile_cfg, compile in *. rewrite arun_ret_of in *.
  unfold m_copy2, locked. rewrite arun_with_lock. exact CL.
Qed.
