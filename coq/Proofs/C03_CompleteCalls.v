(* C03: the search with the on_miss call count (Spec.find_serial_calls) is complete, and an accepted
   event sequence gives an accepted interleaving with the sum of the calls of its steps. *)
From Boltons Require Import Lib.Prelude Lib.C03_Syntax Spec.C03_Spec Proofs.C03_Complete.

Section CC.
  Variables (c : rcfg) (final : rcache -> nat -> bool).

  Inductive accepted_c : rcache -> nat -> list tprog -> Prop :=
  | accc_done s n ths : all_done ths = true -> final s n = true -> accepted_c s n ths
  | accc_step s n ths i o r ths' s' :
      In (i, (o, r), ths') (picks ths) -> r_accepts c s o r = Some s' ->
      accepted_c s' (n + r_calls c s o) ths' -> accepted_c s n ths.

  Theorem find_serial_calls_complete : forall s n ths,
    accepted_c s n ths -> forall fuel, size ths <= fuel -> find_serial_calls fuel c s n ths final = true.
  Proof.
    intros s n ths A. induction A as [s n ths D F|s n ths i o r ths' s' I RA A IH]; intros fuel L.
    - destruct fuel; simpl; rewrite D; exact F.
    - assert (ND : all_done ths = false).
      { destruct (all_done ths) eqn:E; [|reflexivity].
        unfold picks in I. rewrite (all_done_no_picks ths 0 [] E) in I. destruct I. }
      pose proof (picks_size ths 0 [] _ I) as PS. simpl in PS.
      destruct fuel as [|f]; [lia|].
      simpl. rewrite ND. apply existsb_exists. exists (i, (o, r), ths'). split; [exact I|].
      rewrite RA. apply IH. lia.
  Qed.
End CC.

(* the calls of an event sequence replayed on the reference *)
Fixpoint replay_calls (c : rcfg) (l : rcache) (tr : list ev) : nat :=
  match tr with
  | [] => 0
  | (_, o, x) :: r => match r_accepts c l o x with
                      | Some l' => r_calls c l o + replay_calls c l' r
                      | None => 0
                      end
  end.

Theorem trace_to_accepted_c c final : forall tr s n sf ths,
  replay' c s tr = Some sf -> final sf (n + replay_calls c s tr) = true ->
  (forall e, In e tr -> fst (fst e) < length ths) ->
  (forall t, t < length ths -> nth t ths [] = combine (ops_of' t tr) (results_of' t tr)) ->
  accepted_c c final s n ths.
Proof.
  induction tr as [|[[t o] x] tr IH]; intros s n sf ths RP F B PR.
  - simpl in RP. inversion RP; subst sf. simpl in F. rewrite Nat.add_0_r in F.
    apply accc_done; [|exact F]. apply all_done_nth. intros t Ht. exact (PR t Ht).
  - simpl in RP, F. destruct (r_accepts c s o x) as [s'|] eqn:RA; [|discriminate].
    assert (Ht : t < length ths) by (apply (B (t, o, x)); now left).
    pose proof (PR t Ht) as Pt. unfold ops_of', results_of' in Pt. simpl in Pt.
    rewrite Nat.eqb_refl in Pt. simpl in Pt.
    set (rest := combine (ops_of' t tr) (results_of' t tr)) in *.
    assert (NE : nth_error ths t = Some ((o, x) :: rest)).
    { rewrite (nth_error_nth' ths [] Ht). now rewrite Pt. }
    apply (accc_step c final s n ths t o x (set_nth ths t rest) s' (picks_in ths t (o, x) rest NE) RA).
    apply (IH s' (n + r_calls c s o) sf (set_nth ths t rest) RP).
    + rewrite <- Nat.add_assoc. exact F.
    + intros e He. rewrite set_nth_length. apply B. now right.
    + intros u Hu. rewrite set_nth_length in Hu.
      destruct (Nat.eq_dec u t) as [->|NEu].
      * rewrite nth_set_nth_same by exact Hu. reflexivity.
      * rewrite nth_set_nth_other by congruence. rewrite (PR u Hu).
        unfold ops_of', results_of'. simpl.
        destruct (Nat.eqb_spec t u); [congruence|]. reflexivity.
Qed.
