(* The query of the result at the level of (key, value) pairs: RFC 5.2.2's
   T.query read as a pair list (Spec.target_query_pairs), and the model's result
   carries exactly those pairs. *)
From Boltons Require Import Lib.Prelude Lib.C07_Str Spec.C07_Spec Gen.C07_Gen Model.C07_Model
     Proofs.C07_StrLemmas Proofs.C07_Rds Proofs.C07_Resolve Proofs.C07_Parse Proofs.C07_Navigate.
Open Scope N_scope.

Lemma pairs_eqb_refl l : pairs_eqb l l = true.
Proof.
  unfold pairs_eqb. induction l as [|[k v] l IH]; [reflexivity|]. cbn [list_eqb]. rewrite IH, andb_true_r.
  unfold pair_eqb. cbn [fst snd]. rewrite str_eqb_refl. destruct v; [apply str_eqb_refl | reflexivity].
Qed.

(* 5.2.2 on pair lists *)
Lemma transform_query B R T : transform B R = Some T ->
  query_pairs (query T) = target_query_pairs B R.
Proof.
  unfold transform, transform_gen, target_query_pairs.
  destruct (scheme R).
  - destruct (remove_dot_segments (path R)); [|discriminate]. intro E. inversion E. reflexivity.
  - destruct (authority R).
    + destruct (remove_dot_segments (path R)); [|discriminate]. intro E. inversion E. reflexivity.
    + destruct (path R) as [|c p].
      * destruct (remove_dot_segments (path B)); [|discriminate]. intro E. inversion E. cbn [query].
        destruct (query R); reflexivity.
      * destruct (remove_dot_segments _); [|discriminate]. intro E. inversion E. reflexivity.
Qed.

Lemma spec_query_of base ref x T :
  transform (parse base) (parse ref) = Some T -> query (parse x) = query T ->
  spec_query base ref x = true.
Proof.
  intros ET EQ. unfold spec_query. rewrite EQ, (transform_query _ _ _ ET). apply pairs_eqb_refl.
Qed.

(* the query component of what the model's result renders to *)
Lemma nav_result_query u d : wf_base u -> wf_ref d ->
  query (parse (to_text (navigate_rel u d))) = opt (query_text (nav_query u d)).
Proof.
  intros W Wd. pose proof (navigate_rel_wf u d W Wd) as Wn.
  destruct (base_facts _ Wn) as (_ & _ & _ & _ & Tn & Un).
  destruct (base_facts u W) as (segs & Hp & _).
  rewrite Tn, (parse_recompose _ Un), (nav_uri u d segs W Wd Hp). reflexivity.
Qed.

Lemma nav_uri_query u d : wf_base u -> wf_ref d ->
  query (uri_of (navigate_rel u d)) = opt (query_text (nav_query u d)).
Proof.
  intros W Wd. destruct (base_facts u W) as (segs & Hp & _). rewrite (nav_uri u d segs W Wd Hp). reflexivity.
Qed.

Lemma normalize_result_query d : wf_base d ->
  query (parse (to_text (normalize d))) = opt (query_text (u_query d)).
Proof.
  intro W. pose proof (normalize_wf d W) as Wn.
  destruct (base_facts _ Wn) as (_ & _ & _ & _ & Tn & Un).
  destruct (base_facts d W) as (segs & Hp & _).
  rewrite Tn, (parse_recompose _ Un), (normalize_uri d segs W Hp). reflexivity.
Qed.

Lemma nav_query_rootify u d : nav_query (rootify u) d = nav_query u d.
Proof.
  unfold nav_query, rootify. destruct (u_path u) as [|x r]; [reflexivity|].
  destruct x; [|reflexivity]. destruct r; reflexivity.
Qed.

(* any base text whose parse is B: the result of navigate_url carries the target's pairs *)
Lemma spec_query_step bt B n d x :
  parse bt = B -> wf_base n ->
  (wf_ref d -> exists T, transform B (uri_of d) = Some T /\ query T = opt (query_text (nav_query n d))) ->
  wf_ref d \/ wf_base d ->
  query (parse x) = query (parse (to_text (navigate_url n d))) ->
  spec_query bt (to_text d) x = true.
Proof.
  intros PB Wn HT Wd Hx. destruct Wd as [Wd|Wd].
  - destruct (HT Wd) as (T & ET & QT). destruct (ref_facts d Wd) as (_ & Td & Ud).
    apply (spec_query_of _ _ _ T).
    + rewrite PB, Td, (parse_recompose _ Ud). exact ET.
    + rewrite Hx. unfold navigate_url. rewrite (wf_ref_relative d Wd), (nav_result_query n d Wn Wd). symmetry. exact QT.
  - destruct (base_facts d Wd) as (segs & Hp & Hs & Hu & Td & Ud).
    unfold spec_query, target_query_pairs. rewrite Hx, Td, (parse_recompose _ Ud), Hu.
    cbn [scheme authority path query].
    unfold navigate_url. rewrite (wf_base_absolute d Wd), (normalize_result_query d Wd). apply pairs_eqb_refl.
Qed.

(* an absolute destination: whatever the base text *)
Lemma abs_dest_query bt d : wf_base d -> spec_query bt (to_text d) (to_text (normalize d)) = true.
Proof.
  intro Wd. apply (spec_query_step bt (parse bt) d d); [reflexivity | exact Wd | | right; exact Wd |].
  - intro Wr. exfalso. apply (wb_scheme_ne d Wd). exact (wr_scheme d Wr).
  - unfold navigate_url. rewrite (wf_base_absolute d Wd). reflexivity.
Qed.

Theorem navigate_url_query b d : wf_base b -> wf_ref d \/ wf_base d ->
  spec_query (to_text b) (to_text d) (to_text (navigate_url b d)) = true.
Proof.
  intros Wb Wd. destruct (base_facts b Wb) as (_ & _ & _ & _ & Tb & Ub).
  apply (spec_query_step _ (uri_of b) b d); [rewrite Tb; apply (parse_recompose _ Ub) | exact Wb | | exact Wd | reflexivity].
  intro Wr. exists (uri_of (navigate_rel b d)). split; [apply nav_transform; assumption|].
  rewrite <- (nav_result_query b d Wb Wr).
  pose proof (navigate_rel_wf b d Wb Wr) as Wn. destruct (base_facts _ Wn) as (_ & _ & _ & _ & Tn & Un).
  rewrite Tn, (parse_recompose _ Un). reflexivity.
Qed.

(* the model-level statement itself: which pair list the result object carries *)
Theorem navigate_rel_query_pairs b d : wf_base b -> wf_ref d ->
  u_query (navigate_rel b d) =
  if is_nil (path_text d) && is_nil (u_query d) then u_query b else u_query d.
Proof.
  intros Wb Wd. destruct (base_facts b Wb) as (segs & Hp & _).
  rewrite (navigate_rel_eq b d segs Wb Wd Hp). cbn [u_query]. unfold nav_query.
  rewrite (path_text_join d (wr_segs d Wd)).
  pose proof (wr_segs d Wd) as Hs.
  destruct (u_path d) as [|x r]; [cbn; destruct (u_query d); reflexivity|].
  destruct x as [|c x'].
  - destruct r; [cbn; destruct (u_query d); reflexivity|]. cbn [join]. cbn. reflexivity.
  - reflexivity.
Qed.
