(* SpooledBytesIO: for every max_size the model behaves as the reference file,
   at every position >= 0 (also past the end of the data). *)
From Coq Require Import ZifyBool.
From Boltons Require Import Lib.Prelude Spec.C18_Spec Model.C18_Model Proofs.C18_Lines.

Lemma f_seek0_eq f pos : f_seek0 f pos = mkRF (rf_data f) pos.
Proof.
  unfold f_seek0, f_seek, call. simpl.
  destruct (Z.of_nat pos <? 0)%Z eqn:E; [lia|]. simpl. now rewrite Nat2Z.id.
Qed.

Lemma f_seek_end f : f_seek f 0 2 = mkRF (rf_data f) (length (rf_data f)).
Proof.
  unfold f_seek, call. simpl.
  destruct (Z.of_nat (length (rf_data f)) + 0 <? 0)%Z eqn:E; [lia|]. simpl.
  f_equal. lia.
Qed.

Lemma f_write_empty d : f_write rf_empty d = mkRF d (length d).
Proof.
  unfold f_write, call, rf_empty. cbn [ref_step fst]. unfold write_at, overwrite. cbn [rf_data rf_pos].
  destruct d as [|x d]; [reflexivity|].
  cbn [firstn length Nat.sub repeat app Nat.add]. rewrite skipn_nil, app_nil_r. reflexivity.
Qed.

(* buffer.seek: the reference seek, and the file is flushed *)
Lemma sb_seek_spec s off wh :
  sb_buf (fst (sb_seek s off wh)) = fst (ref_step (sb_buf s) (Seek off wh)) /\
  snd (sb_seek s off wh) = snd (ref_step (sb_buf s) (Seek off wh)) /\
  sb_max (fst (sb_seek s off wh)) = sb_max s /\ sb_rolled (fst (sb_seek s off wh)) = sb_rolled s /\
  (Nat.eqb wh 0 && (off <? 0)%Z = false -> sb_synced (fst (sb_seek s off wh)) = length (rf_data (sb_buf s))).
Proof.
  unfold sb_seek, call. destruct (Nat.eqb wh 0 && (off <? 0)%Z) eqn:Q.
  - apply andb_true_iff in Q as [Q1 Q2]. apply Nat.eqb_eq in Q1. subst wh.
    cbn [ref_step seek_target fst snd]. rewrite Q2. cbn. repeat split; auto. discriminate.
  - destruct (ref_step (sb_buf s) (Seek off wh)) as [b o] eqn:E. cbn.
    repeat split. intros _. cbn [ref_step] in E.
    destruct (seek_target (sb_buf s) off wh <? 0)%Z; injection E as <- _; reflexivity.
Qed.

Lemma sb_seek0_spec s pos :
  sb_buf (sb_seek0 s pos) = mkRF (rf_data (sb_buf s)) pos /\
  sb_max (sb_seek0 s pos) = sb_max s /\ sb_rolled (sb_seek0 s pos) = sb_rolled s /\
  sb_synced (sb_seek0 s pos) = length (rf_data (sb_buf s)).
Proof.
  unfold sb_seek0. destruct (sb_seek_spec s (Z.of_nat pos) 0) as [A [_ [B [C D]]]].
  rewrite A, B, C, D by (cbn; lia). split; [|auto]. apply f_seek0_eq.
Qed.

Lemma sb_seek_end_spec s :
  sb_buf (fst (sb_seek s 0 2)) = mkRF (rf_data (sb_buf s)) (length (rf_data (sb_buf s))) /\
  sb_max (fst (sb_seek s 0 2)) = sb_max s /\ sb_rolled (fst (sb_seek s 0 2)) = sb_rolled s.
Proof.
  destruct (sb_seek_spec s 0 2) as [A [_ [B [C _]]]]. rewrite A, B, C. split; [|auto]. apply f_seek_end.
Qed.

Lemma rf_eta f : mkRF (rf_data f) (rf_pos f) = f.
Proof. now destruct f. Qed.

(* rollover copies content and position *)
Lemma sb_rollover_buf s : sb_buf (sb_rollover s) = sb_buf s /\ sb_max (sb_rollover s) = sb_max s.
Proof.
  unfold sb_rollover. destruct (sb_rolled s); [auto|].
  match goal with |- context [sb_seek0 ?t ?p] => destruct (sb_seek0_spec t p) as [A [B _]] end.
  rewrite A, B. cbn [sb_buf sb_max]. rewrite f_write_empty. cbn [rf_data]. unfold f_tell.
  split; [apply rf_eta|reflexivity].
Qed.

(* len(f): the seek(0) before fstat is what makes the size right on disk *)
Lemma sb_len_spec s : sb_buf (fst (sb_len s)) = sb_buf s /\ snd (sb_len s) = length (rf_data (sb_buf s))
                      /\ sb_max (fst (sb_len s)) = sb_max s.
Proof.
  unfold sb_len, f_tell. destruct (sb_rolled s); cbn [fst snd].
  - destruct (sb_seek0_spec s 0) as [A [B [_ D]]].
    destruct (sb_seek0_spec (sb_seek0 s 0) (rf_pos (sb_buf s))) as [A' [B' _]].
    rewrite A', B', A, B, D. cbn [rf_data]. split; [apply rf_eta|auto].
  - destruct (sb_seek_end_spec s) as [A [B _]].
    destruct (sb_seek0_spec (fst (sb_seek s 0 2)) (rf_pos (sb_buf s))) as [A' [B' _]].
    rewrite A', B', A, B. cbn [rf_data rf_pos]. split; [apply rf_eta|auto].
Qed.

Lemma sb_getvalue_spec s : sb_buf (fst (sb_getvalue s)) = sb_buf s /\ snd (sb_getvalue s) = rf_data (sb_buf s)
                           /\ sb_max (fst (sb_getvalue s)) = sb_max s.
Proof.
  unfold sb_getvalue, f_tell, call_data, call.
  destruct (sb_seek0_spec s 0) as [A [B _]]. rewrite A. cbn [ref_step rest rf_pos rf_data skipn fst snd].
  match goal with |- context [sb_seek0 ?t ?p] => destruct (sb_seek0_spec t p) as [A' [B' _]] end.
  rewrite A', B'. cbn [sb_with sb_buf sb_max advance rf_data]. rewrite B. split; [apply rf_eta|auto].
Qed.

(* next(f) *)
Lemma sb_next_line s : take_line (rest (sb_buf s)) <> [] ->
  sb_next s = (sb_with s (advance (sb_buf s) (length (take_line (rest (sb_buf s))))),
               Ok (take_line (rest (sb_buf s)))).
Proof.
  intros NE. unfold sb_next, sb_readline, call_data, call. cbn [ref_step].
  destruct (take_line (rest (sb_buf s))) as [|x l] eqn:E; [congruence|]. reflexivity.
Qed.

Lemma sb_next_stop s : take_line (rest (sb_buf s)) = [] ->
  exists s', sb_next s = (s', Raise StopIteration) /\ sb_buf s' = sb_buf s /\ sb_max s' = sb_max s.
Proof.
  intros E. unfold sb_next, sb_readline, call_data, call. cbn [ref_step]. rewrite E.
  cbn [nonempty length]. set (s1 := sb_with s (advance (sb_buf s) 0)).
  assert (B1 : sb_buf s1 = sb_buf s).
  { unfold s1, advance. cbn. rewrite Nat.add_0_r. apply rf_eta. }
  destruct (sb_seek_end_spec s1) as [A [B _]].
  match goal with |- context [sb_seek0 ?t ?p] => destruct (sb_seek0_spec t p) as [A' [B' _]] end.
  unfold f_tell in *. rewrite A in *. cbn [rf_pos rf_data] in *.
  apply (proj1 (take_line_nil_iff _)) in E. apply rest_nil_ge in E.
  rewrite B1 in *.
  replace (length (rf_data (sb_buf s)) <=? rf_pos (sb_buf s)) with true by lia.
  eexists. split; [reflexivity|]. rewrite A', B', B. split; [apply rf_eta|reflexivity].
Qed.

Lemma sb_iter_spec fuel : forall s acc,
  length (lines (rest (sb_buf s))) < fuel ->
  exists s', sb_iter fuel s acc = (s', OLines (acc ++ lines (rest (sb_buf s)))) /\
             sb_buf s' = advance (sb_buf s) (length (rest (sb_buf s))) /\ sb_max s' = sb_max s.
Proof.
  induction fuel as [|fuel IH]; intros s acc F; [lia|].
  cbn [sb_iter].
  destruct (take_line (rest (sb_buf s))) as [|x l] eqn:E.
  - destruct (sb_next_stop s E) as [s' [N1 [N2 N3]]]. rewrite N1.
    apply (proj1 (take_line_nil_iff _)) in E. rewrite E. cbn [lines length]. rewrite app_nil_r.
    exists s'. split; [reflexivity|]. rewrite N2. split; [|exact N3].
    unfold advance. rewrite Nat.add_0_r. symmetry. apply rf_eta.
  - assert (NE : take_line (rest (sb_buf s)) <> []) by (rewrite E; discriminate).
    assert (NE' : rest (sb_buf s) <> []) by (intro Z; rewrite Z in E; discriminate).
    rewrite (sb_next_line s NE).
    set (d := take_line (rest (sb_buf s))) in *.
    set (s1 := sb_with s (advance (sb_buf s) (length d))).
    pose proof (take_line_length (rest (sb_buf s))) as L. fold d in L.
    rewrite (lines_unfold _ NE') in F |- *. fold d in F |- *. cbn [length] in F.
    assert (R' : rest (sb_buf s1) = skipn (length d) (rest (sb_buf s))).
    { unfold s1. cbn [sb_buf sb_with]. apply rest_advance. }
    destruct (IH s1 (acc ++ [d])) as [s' [J1 [J2 J3]]]; [rewrite R'; lia|].
    exists s'. rewrite J1, R', <- app_assoc. split; [reflexivity|]. split; [|exact J3].
    rewrite J2, R'. unfold s1, advance. cbn. f_equal. rewrite skipn_length. lia.
Qed.

(* readlines(hint) *)
Lemma sb_readlines_spec fuel : forall s hint total acc,
  length (lines (rest (sb_buf s))) < fuel ->
  exists s', sb_readlines fuel s hint total acc =
               (s', OLines (acc ++ take_hint hint total (lines (rest (sb_buf s))))) /\
             sb_buf s' = advance (sb_buf s) (total_len (take_hint hint total (lines (rest (sb_buf s))))) /\
             sb_max s' = sb_max s.
Proof.
  induction fuel as [|fuel IH]; intros s hint total acc F; [lia|].
  cbn [sb_readlines]. unfold sb_readline, call_data, call. cbn [ref_step].
  destruct (take_line (rest (sb_buf s))) as [|x l] eqn:E.
  - cbn [nonempty length].
    apply (proj1 (take_line_nil_iff _)) in E. rewrite E. cbn [lines take_hint]. rewrite app_nil_r.
    eexists. split; [reflexivity|]. cbn. auto.
  - assert (NE' : rest (sb_buf s) <> []) by (intro Z; rewrite Z in E; discriminate).
    cbn [nonempty].
    rewrite (lines_unfold _ NE') in F |- *. rewrite E in F |- *. cbn [length] in F.
    cbn [take_hint].
    set (d := x :: l) in *.
    destruct ((0 <? hint) && (hint <=? total + length d)) eqn:H.
    + eexists. split; [reflexivity|]. cbn [sb_with sb_buf sb_max]. split; [|reflexivity].
      unfold total_len. cbn. now rewrite app_nil_r.
    + set (s1 := sb_with s (advance (sb_buf s) (length d))).
      assert (R' : rest (sb_buf s1) = skipn (length d) (rest (sb_buf s))).
      { unfold s1. cbn [sb_buf sb_with]. apply rest_advance. }
      destruct (IH s1 hint (total + length d) (acc ++ [d])) as [s' [J1 [J2 J3]]]; [rewrite R'; unfold d; cbn [length]; lia|].
      exists s'. rewrite J1, R', <- app_assoc. split; [reflexivity|]. split; [|exact J3].
      rewrite J2, R'. unfold s1, advance, total_len. cbn [sb_buf sb_with rf_data rf_pos concat].
      rewrite app_length. f_equal. lia.
Qed.

Lemma iter_fuel f : length (lines (rest f)) < S (length (rf_data f)).
Proof. pose proof (lines_count (rest f)). pose proof (rest_length_le f). lia. Qed.

(* write(d) *)
Lemma sb_write_spec s d :
  sb_buf (sb_write s d) = write_at (sb_buf s) d /\ sb_max (sb_write s d) = sb_max s.
Proof.
  unfold sb_write. destruct (sb_rollover_buf s) as [R1 R2].
  destruct (sb_max s <=? f_tell (sb_buf s) + length d); cbn [sb_with sb_buf sb_max];
    rewrite ?R1, ?R2; auto.
Qed.

Lemma sb_writelines_spec ds : forall s,
  sb_buf (fold_left sb_write ds s) = fold_left write_at ds (sb_buf s) /\
  sb_max (fold_left sb_write ds s) = sb_max s.
Proof.
  induction ds as [|d ds IH]; intro s; cbn [fold_left]; [auto|].
  destruct (IH (sb_write s d)) as [A B]. destruct (sb_write_spec s d) as [C D].
  rewrite A, B, C, D. auto.
Qed.

(* one call: same value, same file afterwards *)
Lemma sb_step_ref s op : ref_pre KBytes (sb_buf s) op = true ->
  sb_buf (fst (sb_step s op)) = fst (ref_step (sb_buf s) op) /\
  snd (sb_step s op) = snd (ref_step (sb_buf s) op) /\
  sb_max (fst (sb_step s op)) = sb_max s.
Proof.
  intros P.
  destruct op as [d| |n|lim|hint| | | |off wh| | | |ds|].
  - (* write *)
    cbn [sb_step ref_step fst snd]. destruct (sb_write_spec s d); auto.
  - simpl; auto.
  - cbn [sb_step]. unfold call. destruct (ref_step (sb_buf s) (Read n)) as [b o] eqn:E. cbn. auto.
  - (* readline *)
    cbn [sb_step]. unfold sb_readline, call_data, call.
    destruct lim as [n|]; simpl; auto.
  - (* readlines *)
    cbn [sb_step ref_step].
    destruct (sb_readlines_spec _ s hint 0 [] (iter_fuel (sb_buf s))) as [s' [J1 [J2 J3]]].
    rewrite J1. cbn. auto.
  - (* next *)
    cbn [sb_step ref_step].
    destruct (take_line (rest (sb_buf s))) as [|x l] eqn:E.
    + destruct (sb_next_stop s E) as [s' [N1 [N2 N3]]]. rewrite N1. cbn. auto.
    + rewrite sb_next_line by (rewrite E; discriminate). rewrite E. cbn. auto.
  - (* list(f): len(f) then iteration *)
    cbn [sb_step ref_step]. pose proof (sb_len_spec s) as [L1 [L2 L3]].
    destruct (sb_len s) as [s1 n]. cbn [fst snd] in *.
    destruct (sb_iter_spec _ s1 [] (iter_fuel (sb_buf s1))) as [s' [J1 [J2 J3]]].
    rewrite J1. cbn [fst snd app]. rewrite J2, J3, L1, L3. rewrite total_len_lines. auto.
  - (* iteration *)
    cbn [sb_step ref_step].
    destruct (sb_iter_spec _ s [] (iter_fuel (sb_buf s))) as [s' [J1 [J2 J3]]].
    rewrite J1. cbn [fst snd app]. rewrite J2, J3. rewrite total_len_lines. auto.
  - cbn [sb_step]. destruct (sb_seek_spec s off wh) as [A [B [C _]]]. auto.
  - simpl; auto.
  - cbn [sb_step ref_step]. pose proof (sb_getvalue_spec s) as [G1 [G2 G3]].
    destruct (sb_getvalue s); cbn [fst snd] in *. subst; auto.
  - cbn [sb_step ref_step]. pose proof (sb_len_spec s) as [G1 [G2 G3]].
    destruct (sb_len s); cbn [fst snd] in *. subst; auto.
  - cbn [sb_step ref_step fst snd]. destruct (sb_writelines_spec ds s); auto.
  - cbn [sb_step ref_step fst snd]. destruct (sb_rollover_buf s); auto.
Qed.

(* the whole history *)
Lemma sb_run_ref ops : forall s r,
  ref_run KBytes (sb_buf s) ops = Some r -> sb_run s ops = r.
Proof.
  induction ops as [|op ops IH]; intros s r R; cbn [ref_run sb_run] in *.
  - congruence.
  - destruct (ref_pre KBytes (sb_buf s) op) eqn:P; [|discriminate].
    pose proof (sb_step_ref s op P) as [S1 [S2 S3]].
    destruct (ref_step (sb_buf s) op) as [f' o] eqn:E.
    destruct (sb_step s op) as [s' o'] eqn:E'. cbn [fst snd] in *. subst f' o'.
    destruct (ref_run KBytes (sb_buf s') ops) as [os|] eqn:R'; [|discriminate].
    rewrite (IH s' os R'). unfold f_tell. congruence.
Qed.

Theorem bytes_refines_reference max ops r :
  ref_run KBytes rf_empty ops = Some r -> sb_run (sb_init max) ops = r.
Proof. intro R. apply sb_run_ref. exact R. Qed.

(* independence of max_size, as a corollary *)
Corollary bytes_max_independent max1 max2 ops r :
  ref_run KBytes rf_empty ops = Some r -> sb_run (sb_init max1) ops = sb_run (sb_init max2) ops.
Proof.
  intro R. now rewrite (bytes_refines_reference max1 ops r R), (bytes_refines_reference max2 ops r R).
Qed.
