(* SpooledBytesIO: for every max_size the model behaves as the reference file. *)
From Coq Require Import ZifyBool.
From Boltons Require Import Lib.Prelude Spec.C18_Spec Model.C18_Model Proofs.C18_Lines.

Lemma f_seek0_eq f pos : f_seek0 f pos = mkRF (rf_data f) pos.
Proof.
  unfold f_seek0, f_seek, call. simpl.
  destruct (Z.of_nat pos <? 0)%Z eqn:E; [lia|]. simpl. now rewrite Nat2Z.id.
Qed.

Lemma f_seek_end f : f_seek f 0 2 = mkRF (rf_data f) (length (rf_data f)).
Proof.
  unfold f_seek, call. simpl.
  destruct (Z.of_nat (length (rf_data f)) + 0 <? 0)%Z eqn:E; [lia|]. simpl.
  f_equal. lia.
Qed.

Lemma f_write_empty d : f_write rf_empty d = mkRF d (length d).
Proof.
  unfold f_write, call, rf_empty. simpl. unfold overwrite. simpl. rewrite skipn_nil, app_nil_r. reflexivity.
Qed.

(* rollover copies content and position *)
Lemma sb_rollover_buf s : sb_buf (sb_rollover s) = sb_buf s.
Proof.
  unfold sb_rollover. destruct (sb_rolled s); [reflexivity|]. simpl.
  rewrite f_write_empty, f_seek0_eq. simpl. unfold f_tell. now destruct (sb_buf s).
Qed.
Lemma sb_rollover_max s : sb_max (sb_rollover s) = sb_max s.
Proof. unfold sb_rollover. now destruct (sb_rolled s). Qed.

Lemma sb_len_spec s : sb_buf (fst (sb_len s)) = sb_buf s /\ snd (sb_len s) = length (rf_data (sb_buf s))
                      /\ sb_max (fst (sb_len s)) = sb_max s.
Proof.
  unfold sb_len. destruct (sb_rolled s); simpl;
    rewrite ?f_seek_end, !f_seek0_eq; simpl; unfold f_tell; destruct (sb_buf s); simpl; auto.
Qed.

Lemma sb_getvalue_spec s : sb_buf (fst (sb_getvalue s)) = sb_buf s /\ snd (sb_getvalue s) = rf_data (sb_buf s)
                           /\ sb_max (fst (sb_getvalue s)) = sb_max s.
Proof.
  unfold sb_getvalue, call_data, call. rewrite f_seek0_eq. simpl. rewrite f_seek0_eq.
  unfold f_tell. destruct (sb_buf s); simpl; auto.
Qed.

(* next(f) *)
Lemma sb_next_line s : take_line (rest (sb_buf s)) <> [] ->
  sb_next s = (sb_with s (advance (sb_buf s) (length (take_line (rest (sb_buf s))))),
               Ok (take_line (rest (sb_buf s)))).
Proof.
  intros NE. unfold sb_next, sb_readline, call_data, call. cbn [ref_step].
  destruct (take_line (rest (sb_buf s))) as [|x l] eqn:E; [congruence|]. reflexivity.
Qed.

Lemma sb_next_stop s : wf (sb_buf s) -> take_line (rest (sb_buf s)) = [] ->
  sb_next s = (sb_with s (sb_buf s), Raise StopIteration).
Proof.
  intros W E. unfold sb_next, sb_readline, call_data, call. cbn [ref_step]. rewrite E.
  cbn [nonempty length sb_buf sb_with]. rewrite f_seek_end. unfold f_tell, advance. cbn [rf_pos rf_data].
  apply (proj1 (take_line_nil_iff _)) in E. apply (proj1 (rest_nil_iff _ W)) in E.
  rewrite Nat.add_0_r, E, Nat.eqb_refl. unfold sb_with. cbn. rewrite <- E. now destruct (sb_buf s).
Qed.

Lemma sb_iter_spec fuel : forall s acc, wf (sb_buf s) ->
  length (lines (rest (sb_buf s))) < fuel ->
  sb_iter fuel s acc =
  (sb_with s (advance (sb_buf s) (length (rest (sb_buf s)))), OLines (acc ++ lines (rest (sb_buf s)))).
Proof.
  induction fuel as [|fuel IH]; intros s acc W F; [lia|].
  cbn [sb_iter].
  destruct (take_line (rest (sb_buf s))) as [|x l] eqn:E.
  - rewrite (sb_next_stop s W E).
    apply (proj1 (take_line_nil_iff _)) in E. rewrite E. cbn [lines length]. rewrite app_nil_r.
    unfold advance. rewrite Nat.add_0_r. now destruct (sb_buf s).
  - assert (NE : take_line (rest (sb_buf s)) <> []) by (rewrite E; discriminate).
    assert (NE' : rest (sb_buf s) <> []) by (intro Z; rewrite Z in E; discriminate).
    rewrite (sb_next_line s NE).
    set (d := take_line (rest (sb_buf s))) in *.
    set (s' := sb_with s (advance (sb_buf s) (length d))).
    pose proof (take_line_length (rest (sb_buf s))) as L. fold d in L.
    assert (W' : wf (sb_buf s')).
    { unfold s', wf, advance. cbn. rewrite rest_length in L by exact W. unfold wf in W. lia. }
    rewrite (lines_unfold _ NE') in F |- *. fold d in F |- *. cbn [length] in F.
    assert (R' : rest (sb_buf s') = skipn (length d) (rest (sb_buf s))).
    { unfold s'. cbn [sb_buf sb_with]. apply rest_advance. }
    rewrite (IH s' (acc ++ [d]) W') by (rewrite R'; lia).
    rewrite R'. f_equal.
    + unfold s', sb_with, advance. cbn. f_equal. f_equal. rewrite skipn_length. lia.
    + now rewrite <- app_assoc.
Qed.

Lemma iter_fuel f : wf f -> length (lines (rest f)) < S (length (rf_data f)).
Proof. intro W. pose proof (lines_count (rest f)). rewrite rest_length in H by exact W. lia. Qed.

(* one call: same value, same file afterwards *)
Lemma sb_step_ref s op : wf (sb_buf s) -> ref_pre KBytes (sb_buf s) op = true ->
  sb_buf (fst (sb_step s op)) = fst (ref_step (sb_buf s) op) /\
  snd (sb_step s op) = snd (ref_step (sb_buf s) op) /\
  sb_max (fst (sb_step s op)) = sb_max s.
Proof.
  intros W P.
  destruct op as [d| |n|lim|hint| | | |off wh| | |].
  - (* write *)
    simpl. destruct (sb_max s <=? f_tell (sb_buf s) + length d); simpl;
      rewrite ?sb_rollover_buf, ?sb_rollover_max; auto.
  - simpl; auto.
  - cbn [sb_step]. unfold call. destruct (ref_step (sb_buf s) (Read n)) as [b o] eqn:E. cbn. auto.
  - (* readline *)
    simpl. unfold sb_readline, call_data, call.
    destruct lim as [[|n]|]; [discriminate| |]; simpl; auto.
  - cbn [sb_step]. unfold call. destruct (ref_step (sb_buf s) (ReadLines hint)) as [b o] eqn:E. cbn. auto.
  - (* next *)
    cbn [sb_step ref_step].
    destruct (take_line (rest (sb_buf s))) as [|x l] eqn:E.
    + rewrite (sb_next_stop s W E). cbn. now destruct (sb_buf s).
    + rewrite sb_next_line by (rewrite E; discriminate). rewrite E. cbn. auto.
  - (* list(f): len(f) then iteration *)
    cbn [sb_step ref_step]. pose proof (sb_len_spec s) as [L1 [L2 L3]].
    destruct (sb_len s) as [s1 n]. cbn [fst snd] in *.
    assert (W1 : wf (sb_buf s1)) by now rewrite L1.
    rewrite (sb_iter_spec _ s1 [] W1 (iter_fuel _ W1)). rewrite L1. cbn.
    rewrite total_len_lines. auto.
  - (* iteration *)
    cbn [sb_step ref_step].
    rewrite (sb_iter_spec _ s [] W (iter_fuel _ W)). cbn.
    rewrite total_len_lines. auto.
  - cbn [sb_step]. unfold call. destruct (ref_step (sb_buf s) (Seek off wh)) as [b o] eqn:E. cbn. auto.
  - simpl; auto.
  - cbn [sb_step ref_step]. pose proof (sb_getvalue_spec s) as [G1 [G2 G3]].
    destruct (sb_getvalue s); cbn [fst snd] in *. subst; auto.
  - cbn [sb_step ref_step]. pose proof (sb_len_spec s) as [G1 [G2 G3]].
    destruct (sb_len s); cbn [fst snd] in *. subst; auto.
Qed.

(* the whole history *)
Lemma sb_run_ref ops : forall s r, wf (sb_buf s) ->
  ref_run KBytes (sb_buf s) ops = Some r -> sb_run s ops = r.
Proof.
  induction ops as [|op ops IH]; intros s r W R; cbn [ref_run sb_run] in *.
  - congruence.
  - destruct (ref_pre KBytes (sb_buf s) op) eqn:P; [|discriminate].
    pose proof (sb_step_ref s op W P) as [S1 [S2 S3]].
    pose proof (ref_step_wf KBytes _ _ W P) as W'.
    destruct (ref_step (sb_buf s) op) as [f' o] eqn:E.
    destruct (sb_step s op) as [s' o'] eqn:E'. cbn [fst snd] in *. subst f' o'.
    destruct (ref_run KBytes (sb_buf s') ops) as [os|] eqn:R'; [|discriminate].
    rewrite (IH s' os W' R'). unfold f_tell. congruence.
Qed.

Theorem bytes_refines_reference max ops r :
  ref_run KBytes rf_empty ops = Some r -> sb_run (sb_init max) ops = r.
Proof. intro R. apply sb_run_ref; [unfold wf; simpl; lia|exact R]. Qed.

(* independence of max_size, as a corollary *)
Corollary bytes_max_independent max1 max2 ops r :
  ref_run KBytes rf_empty ops = Some r -> sb_run (sb_init max1) ops = sb_run (sb_init max2) ops.
Proof.
  intro R. now rewrite (bytes_refines_reference max1 ops r R), (bytes_refines_reference max2 ops r R).
Qed.
