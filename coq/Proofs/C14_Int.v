(* C14, integer clauses, part 1: format_int_list writes exactly the canonical
   range string of the set of its arguments. *)
From Coq Require Import Sorting.Sorted.
From Boltons Require Import Lib.Prelude Lib.C14_Text Spec.C14_Spec Model.C14_Model.
Open Scope Z_scope.

(* ---- the ranges the loop of format_int_list emits ------------------------- *)
Fixpoint runs_from (a b : Z) (l : list Z) : list range :=
  match l with
  | [] => [(a, b)]
  | x :: r =>
      if x - b =? 1 then runs_from a x r
      else if 1 <? x - b then (a, b) :: runs_from x x r
      else runs_from a b r
  end.
Definition runs (l : list Z) : list range :=
  match l with [] => [] | x :: r => runs_from x x r end.

(* contig_range holds a, a+1, ..., b *)
Inductive is_run (a : Z) : Z -> list Z -> Prop :=
| run_one : is_run a a [a]
| run_snoc b l : is_run a b l -> is_run a (b + 1) (l ++ [b + 1]).

Lemma fold_min_snoc r h x : fold_left Z.min (r ++ [x]) h = Z.min (fold_left Z.min r h) x.
Proof. rewrite fold_left_app. reflexivity. Qed.
Lemma fold_max_snoc r h x : fold_left Z.max (r ++ [x]) h = Z.max (fold_left Z.max r h) x.
Proof. rewrite fold_left_app. reflexivity. Qed.

Lemma is_run_facts a b l :
  is_run a b l ->
  a <= b /\ l <> [] /\ last l 0 = b /\ list_minZ l = a /\ list_maxZ l = b /\
  ((a = b /\ l = [a]) \/ (a < b /\ exists c d t, l = c :: d :: t)).
Proof.
  induction 1 as [|b l H IH].
  - repeat split; try lia; try discriminate; try reflexivity. left. split; reflexivity.
  - destruct IH as (Hle & Hne & Hlast & Hmin & Hmax & Hshape).
    repeat split.
    + lia.
    + intro E. apply app_eq_nil in E as [_ E]. discriminate.
    + apply last_last.
    + destruct l as [|h r]; [congruence|]. cbn [app list_minZ] in *. rewrite fold_min_snoc, Hmin. lia.
    + destruct l as [|h r]; [congruence|]. cbn [app list_maxZ] in *. rewrite fold_max_snoc, Hmax. lia.
    + right. split; [lia|]. destruct Hshape as [[_ ->]|[_ (c & d & t & ->)]].
      * exists a, (b + 1), []. reflexivity.
      * exists c, d, (t ++ [b + 1]). reflexivity.
Qed.

Section FmtProof.
  Variables delim rdelim : text.

  Lemma fmt_loop_runs xs : forall a b contig out,
    is_run a b contig ->
    fmt_loop rdelim xs contig out = out ++ map (render_range rdelim) (runs_from a b xs).
  Proof.
    induction xs as [|x r IH]; intros a b contig out Hrun;
      destruct (is_run_facts _ _ _ Hrun) as (Hle & Hne & Hlast & Hmin & Hmax & Hshape).
    - cbn [fmt_loop runs_from map].
      destruct Hshape as [[<- ->]|[Hlt (c & d & t & ->)]].
      + unfold render_range. cbn [fst snd]. rewrite Z.eqb_refl. reflexivity.
      + unfold render_range, range_substr. cbn [fst snd]. rewrite Hmin, Hmax.
        assert (E : (a =? b) = false) by (apply Z.eqb_neq; lia). rewrite E. reflexivity.
    - cbn [fmt_loop runs_from].
      destruct Hshape as [[<- ->]|[Hlt (c & d & t & ->)]].
      + destruct (x - a =? 1) eqn:E1.
        * apply IH. apply Z.eqb_eq in E1. replace x with (a + 1) by lia.
          apply (run_snoc a a [a]). constructor.
        * destruct (1 <? x - a) eqn:E2.
          -- rewrite (IH x x) by constructor. rewrite <- app_assoc. cbn [map app].
             unfold render_range at 2. cbn [fst snd]. rewrite Z.eqb_refl. reflexivity.
          -- apply IH. constructor.
      + rewrite Hlast. destruct (x - b =? 1) eqn:E1.
        * apply IH. apply Z.eqb_eq in E1. replace x with (b + 1) by lia.
          apply run_snoc. exact Hrun.
        * destruct (1 <? x - b) eqn:E2.
          -- rewrite (IH x x) by constructor. rewrite <- app_assoc. cbn [map app].
             unfold render_range at 2, range_substr. cbn [fst snd]. rewrite Hmin, Hmax.
             assert (E : (a =? b) = false) by (apply Z.eqb_neq; lia). rewrite E. reflexivity.
          -- apply IH. exact Hrun.
  Qed.

  Lemma format_int_list_runs L space :
    format_int_list delim rdelim L space
    = render_ranges (if space then delim ++ [c_sp] else delim) rdelim (runs (sortZ L)).
  Proof.
    unfold format_int_list, render_ranges. f_equal.
    destruct (sortZ L) as [|x r]; [reflexivity|].
    cbn [fmt_loop runs]. rewrite (fmt_loop_runs r x x) by constructor. reflexivity.
  Qed.
End FmtProof.

(* ---- sorting --------------------------------------------------------------- *)
Lemma insZ_in x l y : In y (insZ x l) <-> y = x \/ In y l.
Proof.
  induction l as [|h t IH]; cbn [insZ].
  - cbn. intuition.
  - destruct (x <=? h); cbn [In]; [intuition|]. rewrite IH. intuition.
Qed.

Lemma sortZ_in L y : In y (sortZ L) <-> In y L.
Proof.
  induction L as [|h t IH]; cbn [sortZ fold_right]; [reflexivity|].
  fold (sortZ t). rewrite insZ_in, IH. cbn. intuition.
Qed.

(* weakly increasing, as a recursive predicate *)
Fixpoint wsorted (l : list Z) : Prop :=
  match l with
  | [] => True
  | x :: r => (forall y, In y r -> x <= y) /\ wsorted r
  end.
Fixpoint ssorted (l : list Z) : Prop :=
  match l with
  | [] => True
  | x :: r => (forall y, In y r -> x < y) /\ ssorted r
  end.

Lemma insZ_wsorted x l : wsorted l -> wsorted (insZ x l).
Proof.
  induction l as [|h t IH]; cbn [insZ wsorted]; intro H.
  - split; [intros y []|exact I].
  - destruct H as [Hh Ht]. destruct (x <=? h) eqn:E.
    + apply Z.leb_le in E. cbn [wsorted]. split; [|split; assumption].
      intros y [<-|Hy]; [lia|]. specialize (Hh y Hy). lia.
    + apply Z.leb_gt in E. cbn [wsorted]. split; [|apply IH; assumption].
      intros y Hy. apply insZ_in in Hy as [->|Hy]; [lia|apply Hh; assumption].
Qed.

Lemma sortZ_wsorted L : wsorted (sortZ L).
Proof.
  induction L as [|h t IH]; cbn [sortZ fold_right]; [exact I|]. apply insZ_wsorted. exact IH.
Qed.

Lemma ins_uniq_in x l y : In y (ins_uniq x l) <-> y = x \/ In y l.
Proof.
  induction l as [|h t IH]; cbn [ins_uniq].
  - cbn. intuition.
  - destruct (x <? h); [cbn [In]; intuition|].
    destruct (x =? h) eqn:E.
    + apply Z.eqb_eq in E. subst h. cbn [In]. intuition.
    + cbn [In]. rewrite IH. intuition.
Qed.

Lemma sort_dedup_in L y : In y (sort_dedup L) <-> In y L.
Proof.
  induction L as [|h t IH]; cbn [sort_dedup fold_right]; [reflexivity|].
  fold (sort_dedup t). rewrite ins_uniq_in, IH. cbn. intuition.
Qed.

Lemma ins_uniq_ssorted x l : ssorted l -> ssorted (ins_uniq x l).
Proof.
  induction l as [|h t IH]; cbn [ins_uniq ssorted]; intro H.
  - split; [intros y []|exact I].
  - destruct H as [Hh Ht]. destruct (x <? h) eqn:E.
    + apply Z.ltb_lt in E. cbn [ssorted]. split; [|split; assumption].
      intros y [<-|Hy]; [lia|]. specialize (Hh y Hy). lia.
    + apply Z.ltb_ge in E. destruct (x =? h) eqn:E2.
      * cbn [ssorted]. split; assumption.
      * apply Z.eqb_neq in E2. cbn [ssorted]. split; [|apply IH; assumption].
        intros y Hy. apply ins_uniq_in in Hy as [->|Hy]; [lia|apply Hh; assumption].
Qed.

Lemma sort_dedup_ssorted L : ssorted (sort_dedup L).
Proof.
  induction L as [|h t IH]; cbn [sort_dedup fold_right]; [exact I|]. apply ins_uniq_ssorted. exact IH.
Qed.

Lemma ssorted_wsorted l : ssorted l -> wsorted l.
Proof.
  induction l as [|h t IH]; cbn; [trivial|]. intros [H1 H2]. split; [|apply IH; assumption].
  intros y Hy. specialize (H1 y Hy). lia.
Qed.

(* ---- the emitted ranges are canonical and cover exactly the input ----------- *)
Lemma runs_from_props l : forall a b,
  a <= b -> wsorted l -> (forall y, In y l -> b <= y) ->
  canonical (runs_from a b l) = true /\
  (exists b' t, runs_from a b l = (a, b') :: t) /\
  (forall x, in_ranges (runs_from a b l) x = true <-> (a <= x <= b \/ In x l)).
Proof.
  induction l as [|y r IH]; intros a b Hab Hs Hge.
  - cbn [runs_from]. repeat split.
    + cbn. apply andb_true_iff. split; [apply andb_true_iff; split; [apply Z.leb_le; lia|reflexivity]|reflexivity].
    + eexists _, _. reflexivity.
    + unfold in_ranges. cbn. rewrite orb_false_r. rewrite andb_true_iff, !Z.leb_le. intuition.
    + unfold in_ranges. cbn. rewrite orb_false_r. rewrite andb_true_iff, !Z.leb_le. intuition.
  - destruct Hs as [Hy Hr]. assert (Hby : b <= y) by (apply Hge; left; reflexivity).
    cbn [runs_from]. destruct (y - b =? 1) eqn:E1.
    + apply Z.eqb_eq in E1.
      destruct (IH a y ltac:(lia) Hr Hy) as (Hc & Hh & Hm).
      repeat split; try assumption.
      * intro H. apply Hm in H. cbn [In]. destruct H as [H|H]; [|tauto].
        destruct (Z.eq_dec y x); [tauto|]. left. lia.
      * intro H. apply Hm. cbn [In] in H. destruct H as [H|[H|H]]; [left; lia|left; lia|right; assumption].
    + destruct (1 <? y - b) eqn:E2.
      * apply Z.ltb_lt in E2.
        destruct (IH y y ltac:(lia) Hr Hy) as (Hc & (b' & t & Hh) & Hm).
        repeat split.
        -- cbn [canonical]. rewrite Hh in *. rewrite Hc.
           rewrite !andb_true_r. apply andb_true_iff. split; apply Z.leb_le; lia.
        -- eexists _, _. reflexivity.
        -- intro H. unfold in_ranges in H. cbn [existsb fst snd] in H. apply orb_true_iff in H as [H|H].
           ++ apply andb_true_iff in H. rewrite !Z.leb_le in H. left. lia.
           ++ apply Hm in H. cbn [In]. destruct H as [H|H]; [|tauto].
              right. left. lia.
        -- intro H. unfold in_ranges. cbn [existsb fst snd]. apply orb_true_iff.
           destruct H as [H|[H|H]].
           ++ left. apply andb_true_iff. rewrite !Z.leb_le. lia.
           ++ right. apply Hm. left. lia.
           ++ right. apply Hm. right. assumption.
      * apply Z.ltb_ge in E2. apply Z.eqb_neq in E1. assert (y = b) by lia. subst y.
        destruct (IH a b Hab Hr) as (Hc & Hh & Hm).
        { intros z Hz. apply Hy. assumption. }
        repeat split; try assumption.
        -- intro H. apply Hm in H. cbn [In]. tauto.
        -- intro H. apply Hm. cbn [In] in H. destruct H as [H|[H|H]]; [tauto|left; lia|tauto].
Qed.

Lemma runs_props l :
  wsorted l ->
  canonical (runs l) = true /\ (forall x, in_ranges (runs l) x = true <-> In x l).
Proof.
  destruct l as [|y r]; intro Hs.
  - split; [reflexivity|]. intro x. cbn. split; [discriminate|tauto].
  - destruct Hs as [Hy Hr]. cbn [runs].
    destruct (runs_from_props r y y ltac:(lia) Hr Hy) as (Hc & _ & Hm).
    split; [assumption|]. intro x. rewrite Hm. cbn [In]. split.
    + intros [H|H]; [left; lia|right; assumption].
    + intros [H|H]; [left; lia|right; assumption].
Qed.

(* on a strictly increasing list the reference grouping is the same function *)
Lemma group_from_runs l : forall a b,
  ssorted l -> (forall y, In y l -> b < y) -> group_from a b l = runs_from a b l.
Proof.
  induction l as [|y r IH]; intros a b Hs Hgt; [reflexivity|].
  destruct Hs as [Hy Hr]. assert (b < y) by (apply Hgt; left; reflexivity).
  cbn [group_from runs_from].
  destruct (y =? b + 1) eqn:E.
  - apply Z.eqb_eq in E. assert (E' : (y - b =? 1) = true) by (apply Z.eqb_eq; lia). rewrite E'.
    apply IH; assumption.
  - apply Z.eqb_neq in E. assert (E1 : (y - b =? 1) = false) by (apply Z.eqb_neq; lia).
    assert (E2 : (1 <? y - b) = true) by (apply Z.ltb_lt; lia). rewrite E1, E2.
    f_equal. apply IH; assumption.
Qed.

Lemma group_runs l : ssorted l -> group l = runs l.
Proof.
  destruct l as [|y r]; [reflexivity|]. intros [Hy Hr]. cbn [group runs]. apply group_from_runs; assumption.
Qed.

(* ---- canonical range lists are determined by their members ----------------- *)
Lemma canonical_tail a b r : canonical ((a, b) :: r) = true -> canonical r = true.
Proof. cbn [canonical]. intro H. apply andb_true_iff in H as [_ H]. exact H. Qed.

Lemma canonical_bounds r : forall a b,
  canonical ((a, b) :: r) = true -> a <= b /\ forall x, in_ranges r x = true -> b + 2 <= x.
Proof.
  induction r as [|[a' b'] r IH]; intros a b H.
  - cbn in H. rewrite !andb_true_r in H. apply Z.leb_le in H. split; [assumption|]. intros x Hx. discriminate.
  - cbn [canonical] in H. apply andb_true_iff in H as [H Hc]. apply andb_true_iff in H as [Hab Hgap].
    apply Z.leb_le in Hab, Hgap. split; [assumption|].
    destruct (IH a' b' Hc) as [Hab' Hr].
    intros x Hx. unfold in_ranges in Hx. cbn [existsb fst snd] in Hx. apply orb_true_iff in Hx as [Hx|Hx].
    + apply andb_true_iff in Hx. rewrite !Z.leb_le in Hx. lia.
    + specialize (Hr x Hx). lia.
Qed.

Lemma in_ranges_cons a b r x :
  in_ranges ((a, b) :: r) x = true <-> (a <= x <= b \/ in_ranges r x = true).
Proof.
  unfold in_ranges. cbn [existsb fst snd]. rewrite orb_true_iff, andb_true_iff, !Z.leb_le. reflexivity.
Qed.

Lemma canonical_unique r1 : forall r2,
  canonical r1 = true -> canonical r2 = true ->
  (forall x, in_ranges r1 x = true <-> in_ranges r2 x = true) -> r1 = r2.
Proof.
  induction r1 as [|[a1 b1] t1 IH]; intros [|[a2 b2] t2] H1 H2 Hm.
  - reflexivity.
  - exfalso. destruct (canonical_bounds _ _ _ H2) as [Hab _].
    assert (in_ranges [] a2 = true) by (apply Hm, in_ranges_cons; left; lia). discriminate.
  - exfalso. destruct (canonical_bounds _ _ _ H1) as [Hab _].
    assert (in_ranges [] a1 = true) by (apply Hm, in_ranges_cons; left; lia). discriminate.
  - destruct (canonical_bounds _ _ _ H1) as [Hab1 Hg1].
    destruct (canonical_bounds _ _ _ H2) as [Hab2 Hg2].
    assert (Ha : a1 = a2).
    { assert (M1 : in_ranges ((a2, b2) :: t2) a1 = true) by (apply Hm, in_ranges_cons; left; lia).
      assert (M2 : in_ranges ((a1, b1) :: t1) a2 = true) by (apply Hm, in_ranges_cons; left; lia).
      apply in_ranges_cons in M1. apply in_ranges_cons in M2.
      destruct M1 as [M1|M1]; [|specialize (Hg2 _ M1)];
      destruct M2 as [M2|M2]; [|specialize (Hg1 _ M2)| |specialize (Hg1 _ M2)]; lia. }
    subst a2.
    assert (Hb : b1 = b2).
    { destruct (Z.lt_trichotomy b1 b2) as [Hlt|[He|Hlt]]; [|assumption|].
      - exfalso. assert (M : in_ranges ((a1, b1) :: t1) (b1 + 1) = true) by (apply Hm, in_ranges_cons; left; lia).
        apply in_ranges_cons in M. destruct M as [M|M]; [lia|specialize (Hg1 _ M); lia].
      - exfalso. assert (M : in_ranges ((a1, b2) :: t2) (b2 + 1) = true) by (apply Hm, in_ranges_cons; left; lia).
        apply in_ranges_cons in M. destruct M as [M|M]; [lia|specialize (Hg2 _ M); lia]. }
    subst b2. f_equal. apply IH.
    + eapply canonical_tail; eassumption.
    + eapply canonical_tail; eassumption.
    + intro x. split; intro Hx.
      * assert (M : in_ranges ((a1, b1) :: t2) x = true) by (apply Hm, in_ranges_cons; right; assumption).
        apply in_ranges_cons in M. destruct M as [M|M]; [specialize (Hg1 _ Hx); lia|assumption].
      * assert (M : in_ranges ((a1, b1) :: t1) x = true) by (apply Hm, in_ranges_cons; right; assumption).
        apply in_ranges_cons in M. destruct M as [M|M]; [specialize (Hg2 _ Hx); lia|assumption].
Qed.

(* ---- main results of this part -------------------------------------------- *)
Lemma spec_ranges_runs L : spec_ranges L = runs (sortZ L).
Proof.
  unfold spec_ranges. rewrite group_runs by apply sort_dedup_ssorted.
  destruct (runs_props (sort_dedup L) (ssorted_wsorted _ (sort_dedup_ssorted L))) as [C1 M1].
  destruct (runs_props (sortZ L) (sortZ_wsorted L)) as [C2 M2].
  apply canonical_unique; try assumption.
  intro x. rewrite M1, M2, sort_dedup_in, sortZ_in. reflexivity.
Qed.

Theorem format_int_list_spec delim rdelim L space :
  format_int_list delim rdelim L space
  = spec_format (if space then delim ++ [c_sp] else delim) rdelim L.
Proof. rewrite format_int_list_runs. unfold spec_format. rewrite spec_ranges_runs. reflexivity. Qed.

Theorem spec_format_canonical delim rdelim L :
  canonical_text_of delim rdelim L (spec_format delim rdelim L).
Proof.
  exists (spec_ranges L). rewrite spec_ranges_runs.
  destruct (runs_props (sortZ L) (sortZ_wsorted L)) as [C M].
  repeat split; try assumption.
  - intro H. apply M in H. apply (proj1 (sortZ_in L x)) in H. exact H.
  - intro H. apply M. apply (proj2 (sortZ_in L x)). exact H.
  - unfold spec_format. rewrite spec_ranges_runs. reflexivity.
Qed.

Theorem sort_dedup_spec L :
  ssorted (sort_dedup L) /\ forall x, In x (sort_dedup L) <-> In x L.
Proof. split; [apply sort_dedup_ssorted|intro; apply sort_dedup_in]. Qed.
