(* C01: abstraction function, invariant, and the list / pydict lemmas everything else uses. *)
From Boltons Require Import Lib.Prelude Spec.C01_Spec Model.C01_Model.
From Coq Require Import Permutation.

(* ---- abstraction and invariant --------------------------------------------------- *)
Definition abs (s : omd) : pairs := m_items s.

Definition ids_of (l : list cell) (k : K) : list nat :=
  map c_id (filter (fun c => Nat.eqb (c_key c) k) l).

Definition ne_opt {A} (l : list A) : option (list A) :=
  match l with [] => None | _ => Some l end.

(* the dict storage holds, for each key, exactly the non-empty list of its values in
   pair order *)
Definition StoreOk (s : omd) : Prop :=
  NoDup (map fst (store s)) /\
  forall k, d_get (store s) k = ne_opt (vals_of (abs s) k).

(* _map holds, for each key, exactly the ids of its cells in link order; ids are unique
   and below the allocation counter *)
Definition CmapOk (s : omd) : Prop :=
  NoDup (map c_id (ll s)) /\
  (forall c, In c (ll s) -> c_id c < nxt s) /\
  NoDup (map fst (cmap s)) /\
  forall k, d_get (cmap s) k = ne_opt (ids_of (ll s) k).

Definition Inv (s : omd) : Prop := StoreOk s /\ CmapOk s.

(* ---- booleans ------------------------------------------------------------------------ *)
Lemma mem_nat_In k ks : mem_nat k ks = true <-> In k ks.
Proof.
  unfold mem_nat. rewrite existsb_exists. split.
  - intros [x [H E]]. apply Nat.eqb_eq in E. subst. exact H.
  - intro H. exists k. split; [exact H | apply Nat.eqb_refl].
Qed.

Lemma mem_nat_false k ks : mem_nat k ks = false <-> ~ In k ks.
Proof.
  rewrite <- mem_nat_In. destruct (mem_nat k ks); split; intro H; try discriminate; try reflexivity.
  exfalso; apply H; reflexivity.
Qed.

Lemma nodup_b_NoDup l : nodup_b l = true -> NoDup l.
Proof.
  induction l as [|x r IH]; simpl; intro H; [constructor|].
  apply andb_true_iff in H as [H1 H2]. constructor.
  - apply negb_true_iff in H1. apply mem_nat_false in H1. exact H1.
  - apply IH, H2.
Qed.

(* ---- filter ---------------------------------------------------------------------------- *)
Lemma filter_filter {A} (p q : A -> bool) l :
  filter p (filter q l) = filter (fun x => q x && p x) l.
Proof.
  induction l as [|x r IH]; simpl; [reflexivity|].
  destruct (q x); simpl; [destruct (p x)|]; rewrite IH; reflexivity.
Qed.

Lemma filter_ext_in' {A} (p q : A -> bool) l :
  (forall x, In x l -> p x = q x) -> filter p l = filter q l.
Proof. apply filter_ext_in. Qed.

Lemma filter_all {A} (p : A -> bool) l : (forall x, In x l -> p x = true) -> filter p l = l.
Proof.
  induction l as [|x r IH]; simpl; intro H; [reflexivity|].
  rewrite (H x (or_introl eq_refl)). f_equal. apply IH. intros; apply H; right; assumption.
Qed.

Lemma filter_none {A} (p : A -> bool) l : (forall x, In x l -> p x = false) -> filter p l = [].
Proof.
  induction l as [|x r IH]; simpl; intro H; [reflexivity|].
  rewrite (H x (or_introl eq_refl)). apply IH. intros; apply H; right; assumption.
Qed.

(* ---- pair-list vocabulary ---------------------------------------------------------------- *)
Lemma vals_of_app l1 l2 k : vals_of (l1 ++ l2) k = vals_of l1 k ++ vals_of l2 k.
Proof. unfold vals_of. rewrite filter_app, map_app. reflexivity. Qed.

Lemma vals_of_cons p l k :
  vals_of (p :: l) k = (if Nat.eqb (fst p) k then [snd p] else []) ++ vals_of l k.
Proof. unfold vals_of, keyb. simpl. destruct (Nat.eqb (fst p) k); reflexivity. Qed.

Lemma vals_of_single k' v k : vals_of [(k', v)] k = if Nat.eqb k' k then [v] else [].
Proof. unfold vals_of, keyb. simpl. destruct (Nat.eqb k' k); reflexivity. Qed.

Lemma has_key_app l1 l2 k : has_key (l1 ++ l2) k = has_key l1 k || has_key l2 k.
Proof. unfold has_key. apply existsb_app. Qed.

Lemma has_key_In l k : has_key l k = true <-> In k (map fst l).
Proof.
  unfold has_key, keyb. rewrite existsb_exists, in_map_iff. split.
  - intros [p [H E]]. apply Nat.eqb_eq in E. exists p. split; assumption.
  - intros [p [E H]]. exists p. split; [assumption | apply Nat.eqb_eq; assumption].
Qed.

Lemma has_key_vals l k : has_key l k = false <-> vals_of l k = [].
Proof.
  unfold has_key, vals_of. induction l as [|p r IH]; simpl; [tauto|].
  destruct (keyb k p); simpl; [split; discriminate | exact IH].
Qed.

Lemma has_key_vals_true l k : has_key l k = true <-> vals_of l k <> [].
Proof.
  destruct (has_key l k) eqn:E.
  - split; [|reflexivity]. intros _ H. apply has_key_vals in H. congruence.
  - split; [discriminate|]. intro H. apply has_key_vals in E. contradiction.
Qed.

Lemma ne_opt_vals l k : ne_opt (vals_of l k) = if has_key l k then Some (vals_of l k) else None.
Proof.
  destruct (has_key l k) eqn:E.
  - apply has_key_vals_true in E. destruct (vals_of l k); [contradiction | reflexivity].
  - apply has_key_vals in E. rewrite E. reflexivity.
Qed.

Lemma remove_key_app l1 l2 k : remove_key (l1 ++ l2) k = remove_key l1 k ++ remove_key l2 k.
Proof. unfold remove_key. apply filter_app. Qed.

Lemma vals_of_remove_key l k k' :
  vals_of (remove_key l k) k' = if Nat.eqb k' k then [] else vals_of l k'.
Proof.
  unfold vals_of, remove_key. rewrite filter_filter.
  destruct (Nat.eqb k' k) eqn:E.
  - apply Nat.eqb_eq in E. subst. rewrite filter_none; [reflexivity|].
    intros p _. unfold keyb. destruct (Nat.eqb (fst p) k); reflexivity.
  - f_equal. apply filter_ext. intro p. unfold keyb.
    destruct (Nat.eqb (fst p) k) eqn:E1, (Nat.eqb (fst p) k') eqn:E2; try reflexivity.
    apply Nat.eqb_eq in E1, E2. subst. rewrite Nat.eqb_refl in E. discriminate.
Qed.

Lemma remove_key_absent l k : has_key l k = false -> remove_key l k = l.
Proof.
  unfold remove_key, has_key. intro H. apply filter_all. intros p Hp.
  destruct (keyb k p) eqn:E; [|reflexivity].
  assert (existsb (keyb k) l = true) by (apply existsb_exists; exists p; split; assumption).
  congruence.
Qed.

Lemma remove_keys_nil l : remove_keys l [] = l.
Proof. unfold remove_keys. apply filter_all. reflexivity. Qed.

Lemma remove_keys_ext l ks ks' :
  (forall k, In k ks <-> In k ks') -> remove_keys l ks = remove_keys l ks'.
Proof.
  intro H. unfold remove_keys. apply filter_ext. intro p. f_equal.
  destruct (mem_nat (fst p) ks) eqn:E1, (mem_nat (fst p) ks') eqn:E2; try reflexivity.
  - apply mem_nat_In in E1. apply H in E1. apply mem_nat_In in E1. congruence.
  - apply mem_nat_In in E2. apply H in E2. apply mem_nat_In in E2. congruence.
Qed.

Lemma remove_keys_snoc l ks k : remove_keys l (ks ++ [k]) = remove_key (remove_keys l ks) k.
Proof.
  unfold remove_keys, remove_key. rewrite filter_filter. apply filter_ext. intro p.
  unfold mem_nat, keyb. rewrite existsb_app. simpl. rewrite orb_false_r, negb_orb. reflexivity.
Qed.

Lemma remove_keys_single l k : remove_keys l [k] = remove_key l k.
Proof. change [k] with ([] ++ [k]). rewrite (remove_keys_snoc l [] k), remove_keys_nil. reflexivity. Qed.

(* ---- nodup_nat / keys1 ------------------------------------------------------------------------ *)
Lemma In_filter_neq x y l : In y (filter (fun z => negb (Nat.eqb x z)) l) <-> In y l /\ x <> y.
Proof.
  rewrite filter_In. split; intros [H1 H2]; split; try assumption.
  - apply negb_true_iff, Nat.eqb_neq in H2. exact H2.
  - apply negb_true_iff, Nat.eqb_neq. exact H2.
Qed.

Lemma nodup_nat_In l x : In x (nodup_nat l) <-> In x l.
Proof.
  induction l as [|y r IH]; simpl; [tauto|].
  rewrite In_filter_neq, IH. destruct (Nat.eq_dec y x); tauto.
Qed.

Lemma NoDup_filter {A} (p : A -> bool) l : NoDup l -> NoDup (filter p l).
Proof.
  induction 1 as [|x r Hx Hr IH]; simpl; [constructor|].
  destruct (p x); [constructor|]; try assumption. rewrite filter_In. tauto.
Qed.

Lemma nodup_nat_NoDup l : NoDup (nodup_nat l).
Proof.
  induction l as [|y r IH]; simpl; constructor.
  - rewrite In_filter_neq. intros [_ H]. apply H. reflexivity.
  - apply NoDup_filter. exact IH.
Qed.

Lemma keys1_In l k : In k (keys1 l) <-> In k (map fst l).
Proof. apply nodup_nat_In. Qed.

Lemma keys1_has_key l k : In k (keys1 l) <-> has_key l k = true.
Proof. rewrite keys1_In, has_key_In. tauto. Qed.

Lemma keys1_NoDup l : NoDup (keys1 l).
Proof. apply nodup_nat_NoDup. Qed.

Lemma nodup_nat_filter_comm x l :
  nodup_nat (filter (fun z => negb (Nat.eqb x z)) l) = filter (fun z => negb (Nat.eqb x z)) (nodup_nat l).
Proof.
  induction l as [|y r IH]; simpl; [reflexivity|].
  destruct (Nat.eqb x y) eqn:E; simpl.
  - apply Nat.eqb_eq in E. subst y. rewrite IH, filter_filter.
    apply filter_ext. intro z. destruct (Nat.eqb x z); reflexivity.
  - f_equal. rewrite IH, !filter_filter. apply filter_ext. intro z.
    apply andb_comm.
Qed.

(* appending one key at the end *)
Lemma nodup_nat_snoc l x :
  nodup_nat (l ++ [x]) = if mem_nat x l then nodup_nat l else nodup_nat l ++ [x].
Proof.
  induction l as [|y r IH]; simpl; [reflexivity|].
  rewrite IH. destruct (Nat.eqb x y) eqn:E; simpl.
  - apply Nat.eqb_eq in E. subst y. destruct (mem_nat x r); [reflexivity|].
    rewrite filter_app. simpl. rewrite Nat.eqb_refl. simpl. rewrite app_nil_r. reflexivity.
  - destruct (mem_nat x r); [reflexivity|].
    rewrite filter_app. simpl. rewrite Nat.eqb_sym, E. reflexivity.
Qed.

Lemma walk_keys_spec y l :
  walk_keys y l = filter (fun k => negb (mem_nat k y)) (nodup_nat (map c_key l)).
Proof.
  revert y. induction l as [|c r IH]; intro y; simpl; [reflexivity|].
  destruct (mem_nat (c_key c) y) eqn:E; simpl.
  - rewrite IH, filter_filter. apply filter_ext_in. intros k _.
    destruct (Nat.eqb (c_key c) k) eqn:E1; simpl; [|reflexivity].
    apply Nat.eqb_eq in E1. subst k. rewrite E. reflexivity.
  - f_equal. rewrite IH, filter_filter. apply filter_ext. intro k. simpl.
    rewrite (Nat.eqb_sym k (c_key c)). destruct (Nat.eqb (c_key c) k); reflexivity.
Qed.

Lemma map_fst_abs s : map fst (abs s) = map c_key (ll s).
Proof. unfold abs, m_items. rewrite map_map. reflexivity. Qed.

Lemma iterkeys_correct s : m_iterkeys s = keys1 (abs s).
Proof.
  unfold m_iterkeys, keys1. rewrite walk_keys_spec, map_fst_abs. apply filter_all. reflexivity.
Qed.

(* ---- pydict ------------------------------------------------------------------------------------- *)
Section Dict.
  Context {B : Type}.
  Implicit Types d : pydict B.

  Lemma d_get_set d k v k' :
    d_get (d_set d k v) k' = if Nat.eqb k' k then Some v else d_get d k'.
  Proof.
    induction d as [|[k0 v0] r IH]; simpl.
    - destruct (Nat.eqb k' k); reflexivity.
    - destruct (Nat.eqb k k0) eqn:E; simpl.
      + apply Nat.eqb_eq in E. subst k0. destruct (Nat.eqb k' k); reflexivity.
      + rewrite IH. destruct (Nat.eqb k' k0) eqn:E1; [|reflexivity].
        apply Nat.eqb_eq in E1. subst k0. rewrite Nat.eqb_sym, E. reflexivity.
  Qed.

  Lemma d_get_None d k : d_get d k = None <-> ~ In k (map fst d).
  Proof.
    induction d as [|[k0 v0] r IH]; simpl; [tauto|].
    destruct (Nat.eqb k k0) eqn:E.
    - apply Nat.eqb_eq in E. subst. split; [discriminate | intro H; exfalso; apply H; left; reflexivity].
    - apply Nat.eqb_neq in E. rewrite IH. split; intro H; [intros [H1|H1]; [congruence | tauto] | tauto].
  Qed.

  Lemma d_get_Some_In d k : (exists v, d_get d k = Some v) <-> In k (map fst d).
  Proof.
    destruct (d_get d k) eqn:E.
    - split; [|intros _; eexists; reflexivity]. intros _.
      destruct (in_dec Nat.eq_dec k (map fst d)) as [H|H]; [exact H|].
      apply d_get_None in H. congruence.
    - split; [intros [v H]; discriminate|]. intro H. apply d_get_None in E. contradiction.
  Qed.

  Lemma d_del_keys d k : forall x, In x (map fst (d_del d k)) -> In x (map fst d).
  Proof.
    induction d as [|[k0 v0] r IH]; simpl; [tauto|]. intros x.
    destruct (Nat.eqb k k0); simpl; [tauto|]. intros [H|H]; [tauto | right; apply IH, H].
  Qed.

  Lemma d_del_NoDup d k : NoDup (map fst d) -> NoDup (map fst (d_del d k)).
  Proof.
    induction d as [|[k0 v0] r IH]; simpl; intro H; [constructor|].
    inversion H; subst. destruct (Nat.eqb k k0); simpl; [assumption|].
    constructor; [|apply IH; assumption]. intro Hin. apply d_del_keys in Hin. contradiction.
  Qed.

  Lemma d_get_del d k k' : NoDup (map fst d) ->
    d_get (d_del d k) k' = if Nat.eqb k' k then None else d_get d k'.
  Proof.
    induction d as [|[k0 v0] r IH]; simpl; intro H.
    - destruct (Nat.eqb k' k); reflexivity.
    - inversion H; subst. destruct (Nat.eqb k k0) eqn:E; simpl.
      + apply Nat.eqb_eq in E. subst k0. destruct (Nat.eqb k' k) eqn:E1; [|reflexivity].
        apply Nat.eqb_eq in E1. subst k'. apply d_get_None. assumption.
      + rewrite IH by assumption. destruct (Nat.eqb k' k0) eqn:E1; [|reflexivity].
        apply Nat.eqb_eq in E1. subst k0. rewrite Nat.eqb_sym, E. reflexivity.
  Qed.

  Lemma d_set_keys d k v : forall x, In x (map fst (d_set d k v)) <-> In x (map fst d) \/ x = k.
  Proof.
    induction d as [|[k0 v0] r IH]; simpl; intro x.
    - split; [intros [H|[]]; right; congruence | intros [[]|H]; left; congruence].
    - destruct (Nat.eqb k k0) eqn:E; simpl.
      + apply Nat.eqb_eq in E. subst. split; [tauto|]. intros [H|H]; [tauto | left; congruence].
      + rewrite IH. tauto.
  Qed.

  Lemma d_set_NoDup d k v : NoDup (map fst d) -> NoDup (map fst (d_set d k v)).
  Proof.
    induction d as [|[k0 v0] r IH]; simpl; intro H.
    - constructor; [tauto | constructor].
    - inversion H; subst. destruct (Nat.eqb k k0) eqn:E; simpl.
      + constructor; assumption.
      + constructor; [|apply IH; assumption]. rewrite d_set_keys. intros [H1|H1]; [contradiction|].
        subst. rewrite Nat.eqb_refl in E. discriminate.
  Qed.

  Lemma d_mem_get d k : d_mem d k = match d_get d k with Some _ => true | None => false end.
  Proof. reflexivity. Qed.
End Dict.

(* two duplicate-free lists with the same elements have the same length *)
Lemma NoDup_same_length (l1 l2 : list nat) :
  NoDup l1 -> NoDup l2 -> (forall x, In x l1 <-> In x l2) -> length l1 = length l2.
Proof.
  intros H1 H2 H. apply Permutation_length. apply NoDup_Permutation; assumption.
Qed.

(* ---- consequences of StoreOk ----------------------------------------------------------------------- *)
Lemma store_get s k : StoreOk s ->
  d_get (store s) k = if has_key (abs s) k then Some (vals_of (abs s) k) else None.
Proof. intros [_ H]. rewrite H. apply ne_opt_vals. Qed.

Lemma store_mem s k : StoreOk s -> d_mem (store s) k = has_key (abs s) k.
Proof.
  intro H. unfold d_mem. rewrite (store_get s k H). destruct (has_key (abs s) k); reflexivity.
Qed.

Lemma store_len s : StoreOk s -> length (store s) = length (keys1 (abs s)).
Proof.
  intro H. rewrite <- (map_length fst (store s)).
  apply NoDup_same_length; [apply H | apply keys1_NoDup |].
  intro k. rewrite keys1_has_key, <- d_get_Some_In, (store_get s k H).
  destruct (has_key (abs s) k); split; intro H1; try reflexivity; try discriminate.
  - eexists; reflexivity.
  - destruct H1; discriminate.
Qed.

Lemma last_res_last {A} (l : list A) d : l <> [] -> last_res l = Ok (last l d).
Proof.
  intro H. unfold last_res. destruct (exists_last H) as [l' [x E]]. subst.
  rewrite rev_app_distr, last_last. reflexivity.
Qed.

Lemma getitem_correct s k : StoreOk s ->
  m_getitem s k = if has_key (abs s) k then Ok (visible (abs s) k) else Raise KeyError.
Proof.
  intro H. unfold m_getitem. rewrite (store_get s k H).
  destruct (has_key (abs s) k) eqn:E; [|reflexivity].
  apply last_res_last. apply has_key_vals_true. exact E.
Qed.

Lemma getlist_correct s k : StoreOk s -> m_getlist s k = vals_of (abs s) k.
Proof.
  intro H. unfold m_getlist, d_getd. rewrite (store_get s k H).
  destruct (has_key (abs s) k) eqn:E; [reflexivity|]. apply has_key_vals in E. congruence.
Qed.
