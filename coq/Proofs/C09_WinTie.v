(* C09 (T): obligations over coq/Gen/C09_Win.v, regenerated from /repo's current
   source of windowed_iter by harness/translators/c09_window.py on every run. *)
From Boltons Require Import Lib.Prelude Spec.C09_Spec Model.C09_Model Model.C09_PyWindow.
From Boltons Require Import Proofs.C09_Windowed Proofs.C09_PyWindowProof Gen.C09_Win.

Lemma gen_windowed_is_expected : gen_windowed_prog = expected_windowed_prog.
Proof. reflexivity. Qed.

Lemma gen_windowed_source_is_model src size fill :
  run_windowed gen_windowed_prog src size fill = Some (m_windowed src size fill).
Proof. rewrite gen_windowed_is_expected. apply py_windowed_is_model. Qed.

(* hence the interpreted source yields exactly the slices *)
Lemma gen_windowed_source_is_slices src size fill :
  1 <= size -> run_windowed gen_windowed_prog src size fill = Some (spec_windowed src size fill).
Proof. intro H. rewrite gen_windowed_source_is_model, m_windowed_spec by exact H. reflexivity. Qed.
