(* Obligation over data regenerated from the source on every run (coq/Gen/C04_Gen.v, written by
   the translator in harness/c04.py): for a fixed grid of 40 scenarios (all flag combinations x
   destination absent/present x two bodies, four real kills each; eight injected-failure paths) the trace, outcome and
   directories recorded on the CURRENT code are exactly what the model's program computes
   (gen_trace = save cfg body: [agree]) and satisfy the Spec's predicates ([holds]). *)
From Boltons Require Import Lib.Prelude Model.C04_Model Spec.C04_Spec Check.C04_Check Gen.C04_Gen.

Lemma gen_cases_ok : forallb (fun c => agree c && holds c) gen_cases = true.
Proof. vm_compute. reflexivity. Qed.

Lemma gen_cases_count : length gen_cases = 40%nat.
Proof. reflexivity. Qed.
