(* C14, integer clauses: the round trip for multi-character delimiters.
   Sufficient condition: the FIRST character of delim is no digit, no space and
   does not occur in range_delim; the first character of range_delim is no digit
   and no space.  (One-character delimiters are the special case C14_Int3.) *)
From Boltons Require Import Lib.Prelude Lib.C14_Text Spec.C14_Spec Model.C14_Model Check.C14_Check
  Proofs.C14_Sh Proofs.C14_Int Proofs.C14_Int2 Proofs.C14_Int3.
Open Scope N_scope.

(* ---- str.split / substring test with a separator whose first character is rare ---- *)
Lemma split_aux_skip sep pre : forall cur rest,
  split_aux sep (length pre) cur (pre ++ rest) = split_aux sep 0 cur rest.
Proof. induction pre as [|c r IH]; intros cur rest; [reflexivity|]. cbn [length app split_aux]. apply IH. Qed.

Lemma starts_with_refl sep rest : starts_with sep (sep ++ rest) = true.
Proof. induction sep as [|c r IH]; [reflexivity|]. cbn. rewrite N.eqb_refl, IH. reflexivity. Qed.

Section FirstChar.
  Variables (c0 : N) (sep' : text).
  Let sep := c0 :: sep'.

  Lemma starts_with_hd c s : (c0 =? c) = false -> starts_with sep (c :: s) = false.
  Proof. intro H. cbn. rewrite H. reflexivity. Qed.

  Lemma split_aux_first w : forall cur rest,
    memN c0 w = false ->
    split_aux sep 0 cur (w ++ sep ++ rest) = (rev cur ++ w) :: split_aux sep 0 [] rest.
  Proof.
    induction w as [|c r IH]; intros cur rest H.
    - cbn [app]. rewrite app_nil_r. unfold sep at 2. cbn [app split_aux].
      fold sep. change (c0 :: sep' ++ rest) with (sep ++ rest). rewrite starts_with_refl.
      replace (length sep - 1)%nat with (length sep') by (unfold sep; cbn [length]; lia).
      rewrite split_aux_skip. reflexivity.
    - unfold memN in H. cbn [existsb] in H. apply orb_false_iff in H as [Hc Hr].
      cbn [app split_aux]. rewrite starts_with_hd by exact Hc.
      rewrite IH by exact Hr. cbn [rev]. rewrite <- app_assoc. reflexivity.
  Qed.

  Lemma split_aux_none w : forall cur, memN c0 w = false -> split_aux sep 0 cur w = [rev cur ++ w].
  Proof.
    induction w as [|c r IH]; intros cur H.
    - cbn. rewrite app_nil_r. reflexivity.
    - unfold memN in H. cbn [existsb] in H. apply orb_false_iff in H as [Hc Hr].
      cbn [split_aux]. rewrite starts_with_hd by exact Hc. rewrite IH by exact Hr.
      cbn [rev]. rewrite <- app_assoc. reflexivity.
  Qed.

  Lemma contains_none w : memN c0 w = false -> contains sep w = false.
  Proof.
    induction w as [|c r IH]; intro H; [reflexivity|].
    unfold memN in H. cbn [existsb] in H. apply orb_false_iff in H as [Hc Hr].
    cbn [contains]. rewrite starts_with_hd by exact Hc. apply IH. exact Hr.
  Qed.

  Lemma contains_app w rest : contains sep (w ++ sep ++ rest) = true.
  Proof.
    induction w as [|c r IH].
    - cbn [app]. unfold sep at 2. cbn [app contains]. fold sep.
      change (c0 :: sep' ++ rest) with (sep ++ rest). rewrite starts_with_refl. reflexivity.
    - cbn [app contains]. rewrite IH. apply orb_true_r.
  Qed.
End FirstChar.

Definition pieceT (RD : text) (pad : bool) (r : range) : text :=
  (if pad then [c_sp] else []) ++ render_range RD r.

Lemma good_renderT RD r : range_ok r -> good (render_range RD r).
Proof.
  intros [H0 H1]. unfold render_range. destruct (fst r =? snd r)%Z.
  - rewrite decZ_nonneg by lia. apply good_digits; [apply dec_digits|apply dec_nonempty].
  - rewrite !decZ_nonneg by lia. apply good_app; apply good_digits; (apply dec_digits || apply dec_nonempty).
Qed.

Lemma good_joinT sep RD rs :
  Forall range_ok rs -> rs <> [] -> good (join sep (map (render_range RD) rs)).
Proof.
  induction rs as [|r t IH]; intros Hok Hne; [congruence|].
  inversion Hok as [|? ? Hr Ht]; subst. cbn [map].
  destruct t as [|r2 t2].
  - cbn [map join]. apply good_renderT. exact Hr.
  - rewrite join_cons2 by discriminate.
    apply good_app; [apply good_renderT; exact Hr|]. apply IH; [exact Ht|discriminate].
Qed.

Section ParseProofT.
  Variables (d0 : N) (D' : text) (r0 : N) (RD' : text).
  Let D := d0 :: D'.
  Let RD := r0 :: RD'.
  Hypothesis Hd_digit : is_digit d0 = false.
  Hypothesis Hd_sp : (d0 =? c_sp) = false.
  Hypothesis Hd_rd : memN d0 RD = false.
  Hypothesis Hr_digit : is_digit r0 = false.
  Hypothesis Hr_sp : (r0 =? c_sp) = false.

  Lemma parse_pieceT (pad : bool) r rest out :
    range_ok r ->
    parse_parts RD (pieceT RD pad r :: rest) out = parse_parts RD rest (out ++ expand_range r).
  Proof.
    destruct r as [a b]. unfold range_ok, pieceT, render_range, expand_range, RD. cbn [fst snd]. intros [H0 H1].
    destruct (a =? b)%Z eqn:E.
    - apply Z.eqb_eq in E. subst b. rewrite decZ_nonneg by lia.
      cbn [parse_parts]. rewrite contains_none by (apply memN_pad_dec; assumption).
      assert (Hn : is_nil ((if pad then [c_sp] else []) ++ dec (Z.to_N a)) = false).
      { destruct pad; [reflexivity|]. cbn [app]. pose proof (dec_nonempty (Z.to_N a)).
        destruct (dec (Z.to_N a)); [congruence|reflexivity]. }
      rewrite Hn, py_int_dec. rewrite Z2N.id by lia.
      replace (zrange a (a + 1)) with [a]; [reflexivity|].
      unfold zrange. replace (a + 1 - a)%Z with 1%Z by lia.
      change (Z.to_nat 1) with 1%nat. cbn [seq map Z.of_nat]. rewrite Z.add_0_r. reflexivity.
    - apply Z.eqb_neq in E. rewrite !decZ_nonneg by lia.
      cbn [parse_parts]. rewrite app_assoc.
      rewrite contains_app. unfold py_split.
      rewrite split_aux_first by (apply memN_pad_dec; assumption).
      rewrite split_aux_none by (apply memN_digits; [apply dec_digits|assumption]).
      cbn [rev app map_res]. rewrite py_int_dec.
      pose proof (py_int_dec false (Z.to_N b)) as Hb. cbn [app] in Hb. rewrite Hb.
      rewrite !Z2N.id by lia. cbn [list_minZ list_maxZ fold_left].
      rewrite Z.min_l, Z.max_r by lia. reflexivity.
  Qed.

  Lemma parse_piecesT (pad : bool) rs : forall out,
    Forall range_ok rs ->
    parse_parts RD (map (pieceT RD pad) rs) out = Ok (sortZ (out ++ flat_map expand_range rs)).
  Proof.
    induction rs as [|r t IH]; intros out Hok.
    - cbn. rewrite app_nil_r. reflexivity.
    - inversion Hok as [|? ? Hr Ht]; subst. cbn [map flat_map].
      rewrite parse_pieceT by exact Hr. rewrite IH by exact Ht. rewrite <- app_assoc. reflexivity.
  Qed.

  Lemma memN_d_pieceT (pad : bool) r : range_ok r -> memN d0 (pieceT RD pad r) = false.
  Proof.
    intros [H0 H1]. unfold pieceT. rewrite memN_app. apply orb_false_iff. split.
    - destruct pad; [|reflexivity]. unfold memN. cbn [existsb]. rewrite Hd_sp. reflexivity.
    - unfold render_range. destruct (fst r =? snd r)%Z.
      + rewrite decZ_nonneg by lia. apply memN_digits; [apply dec_digits|assumption].
      + rewrite !decZ_nonneg by lia. rewrite !memN_app.
        rewrite (memN_digits d0 (dec (Z.to_N (fst r)))) by (apply dec_digits || assumption).
        rewrite (memN_digits d0 (dec (Z.to_N (snd r)))) by (apply dec_digits || assumption).
        rewrite Hd_rd. reflexivity.
  Qed.

  Lemma split_textT (space : bool) rs : forall pad : bool,
    Forall range_ok rs -> rs <> [] ->
    split_aux D 0 [] ((if pad then [c_sp] else []) ++ join (sep_of D space) (map (render_range RD) rs))
    = match rs with [] => [] | r :: t => pieceT RD pad r :: map (pieceT RD space) t end.
  Proof.
    induction rs as [|r t IH]; intros pad Hok Hne; [congruence|].
    inversion Hok as [|? ? Hr Ht]; subst. cbn [map].
    destruct t as [|r2 t2].
    - cbn [map join]. fold (pieceT RD pad r). unfold D.
      rewrite split_aux_none by (apply memN_d_pieceT; exact Hr). reflexivity.
    - remember (r2 :: t2) as t. rewrite join_cons2 by (subst t; discriminate).
      rewrite app_assoc. fold (pieceT RD pad r).
      unfold sep_of. destruct space.
      + rewrite <- app_assoc. unfold D at 1 2.
        rewrite split_aux_first by (apply memN_d_pieceT; exact Hr).
        subst t. cbn [rev app]. f_equal. exact (IH true Ht ltac:(discriminate)).
      + unfold D at 1 2. rewrite split_aux_first by (apply memN_d_pieceT; exact Hr).
        subst t. cbn [rev app]. f_equal. exact (IH false Ht ltac:(discriminate)).
  Qed.

  Lemma parse_renderedT (space : bool) rs :
    Forall range_ok rs ->
    parse_int_list (render_ranges (sep_of D space) RD rs) D RD = Ok (sortZ (flat_map expand_range rs)).
  Proof.
    intro Hok. unfold parse_int_list, render_ranges. unfold py_split. unfold D at 2.
    destruct rs as [|r t].
    - reflexivity.
    - rewrite good_strip by (left; apply good_joinT; [exact Hok|discriminate]).
      pose proof (split_textT space (r :: t) false Hok ltac:(discriminate)) as Hs. cbn [app] in Hs.
      fold D. rewrite Hs. inversion Hok as [|? ? Hr Ht]; subst.
      unfold D at 1. cbv iota.
      rewrite parse_pieceT by exact Hr. rewrite parse_piecesT by exact Ht. reflexivity.
  Qed.

  Theorem parse_format_roundtripT L (space : bool) :
    all_nonneg L = true ->
    parse_int_list (format_int_list D RD L space) D RD = Ok (sort_dedup L).
  Proof.
    intros Hnn. rewrite format_int_list_runs. fold (sep_of D space).
    destruct (runs_props (sortZ L) (sortZ_wsorted L)) as [C M].
    assert (Hok : Forall range_ok (runs (sortZ L))).
    { apply canonical_ranges_ok; [exact C|]. intros x Hx. apply M in Hx.
      apply (proj1 (sortZ_in L x)) in Hx. eapply all_nonneg_in; eassumption. }
    rewrite (parse_renderedT space _ Hok). f_equal.
    pose proof (expand_ssorted _ C) as Hs.
    rewrite wsorted_sortZ by (apply ssorted_wsorted; exact Hs).
    apply ssorted_unique; [exact Hs|apply sort_dedup_ssorted|].
    intro x. rewrite expand_in, M, sortZ_in, sort_dedup_in. reflexivity.
  Qed.
End ParseProofT.

Theorem parse_format_roundtrip_multi D RD L (space : bool) :
  all_nonneg L = true -> mdelims_ok D RD = true ->
  parse_int_list (format_int_list D RD L space) D RD = Ok (sort_dedup L).
Proof.
  intros Hnn H. destruct D as [|d0 D']; [discriminate|]. destruct RD as [|r0 RD']; [discriminate|].
  unfold mdelims_ok in H. repeat (apply andb_true_iff in H as [H ?]). rewrite negb_true_iff in *.
  apply parse_format_roundtripT; assumption.
Qed.
