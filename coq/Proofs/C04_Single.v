(* C04: "in one atomic step": a call sequence accepted by the Spec's scan contains
   at most one call that changes anything at the destination's name, and it is the
   publication. *)
From Boltons Require Import Lib.Prelude Model.C04_Model Spec.C04_Spec Check.C04_Check Proofs.C04_Hoare Proofs.C04_Inv.
Open Scope nat_scope.

Definition touches (dest : nat) (c : call) : bool :=
  match c with
  | CCreate n _ => Nat.eqb n dest
  | CPublish s d => Nat.eqb d dest || Nat.eqb s dest
  | CRemove n | CTouch n => Nat.eqb n dest
  | _ => false
  end.

Definition b2n (b : bool) : nat := if b then 1 else 0.

Lemma scan_step_ok dest s c : sc_ok (scan_step dest s c) = true -> sc_ok s = true.
Proof.
  destruct c; cbn; try (intro H; repeat (apply andb_true_iff in H as [H ?]); exact H); auto.
  destruct (Nat.eqb dst dest); cbn; intro H; repeat (apply andb_true_iff in H as [H ?]); exact H.
Qed.

Lemma scan_step_count dest s c :
  sc_ok (scan_step dest s c) = true ->
  b2n (touches dest c) + b2n (sc_published s) = b2n (sc_published (scan_step dest s c)).
Proof.
  destruct c; cbn; auto.
  - intro H. repeat (apply andb_true_iff in H as [H ?]).
    match goal with H : negb (Nat.eqb n dest) = true |- _ => apply negb_true_iff in H; rewrite H end. reflexivity.
  - destruct (Nat.eqb dst dest) eqn:E; cbn.
    + intro H. repeat (apply andb_true_iff in H as [H ?]).
      match goal with H : negb (sc_published s) = true |- _ => apply negb_true_iff in H; rewrite H end. reflexivity.
    + intro H. apply andb_true_iff in H as [_ H]. apply negb_true_iff in H. rewrite H. reflexivity.
  - intro H. apply andb_true_iff in H as [_ H]. apply negb_true_iff in H. rewrite H. reflexivity.
  - intro H. apply andb_true_iff in H as [_ H]. apply negb_true_iff in H. rewrite H. reflexivity.
Qed.

Lemma scan_count dest cs : forall s,
  sc_ok (fold_left (scan_step dest) cs s) = true ->
  sc_ok s = true /\
  length (filter (touches dest) cs) + b2n (sc_published s) = b2n (sc_published (fold_left (scan_step dest) cs s)).
Proof.
  induction cs as [|c r IH]; intros s H; cbn [fold_left filter length] in *; [auto|].
  destruct (IH _ H) as [Hok Hc]. split; [eapply scan_step_ok; eauto|].
  pose proof (scan_step_count dest s c Hok) as Hs.
  destruct (touches dest c); cbn [length b2n] in *; lia.
Qed.

Lemma single_step_lemma c ops raises s0 umask crash sched o w :
  c_dest c <> c_part c -> same_dir (c_part c) = true -> wf s0 ->
  run_save c ops raises s0 umask crash sched = (o, w) ->
  let calls := map call_of (rev (w_trace w)) in
  length (filter (touches (c_dest c)) calls) <= 1 /\
  (completed o = true -> length (filter (touches (c_dest c)) calls) = 1).
Proof.
  intros Hdp Hpd Hwf Hr calls.
  pose proof (calls_lemma c ops raises s0 umask crash sched o w Hdp Hpd Hwf Hr) as H.
  unfold calls_ok in H. apply andb_true_iff in H as [Hok Hpub]. fold calls in Hok, Hpub.
  unfold scan_calls in *. destruct (scan_count (c_dest c) calls scan0 Hok) as [_ Hc]. cbn [scan0 sc_published b2n] in Hc.
  split.
  - destruct (sc_published (fold_left (scan_step (c_dest c)) calls scan0)); cbn in Hc; lia.
  - intro Hcomp. rewrite Hcomp in Hpub. cbn in Hpub. rewrite Hpub in Hc. cbn in Hc. lia.
Qed.
