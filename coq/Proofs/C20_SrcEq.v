(* The Gallina text regenerated from ThresholdCounter.add's current source equals the
   hand-written model step, for every state and key. *)
From Boltons Require Import Lib.Prelude Lib.PySrc Model.C20_Model Gen.C20_Src.
Open Scope N_scope.

Lemma incr_or_insert_bump m k b : pd_incr0_or_insert m k 1 (1, b - 1) = bump m k b.
Proof.
  unfold pd_incr0_or_insert. induction m as [|[k0 [c dl]] r IH]; [reflexivity|].
  cbn [d_get bump]. destruct (Nat.eqb k k0) eqn:E.
  - cbn [d_set]. rewrite E. reflexivity.
  - destruct (d_get r k) as [[c1 dl1]|] eqn:G; cbn [d_set]; rewrite E; f_equal; exact IH.
Qed.

Lemma filter_keep b m : filter (fun '(k, v) => b <? sum2 v) m = filter (keep b) m.
Proof. apply filter_ext. intros [k [c dl]]. reflexivity. Qed.

Lemma src_add_is_model s k : src_add s k = tc_add s k.
Proof.
  unfold src_add, tc_add, set_total, set_map, set_bucket. cbn [tc_total tc_bucket tc_w tc_map].
  rewrite incr_or_insert_bump.
  destruct ((tc_total s + 1) mod tc_w s =? 0); cbn [tc_total tc_bucket tc_w tc_map].
  - rewrite filter_keep. reflexivity.
  - reflexivity.
Qed.
