(* The Gallina text regenerated from ThresholdCounter.add's current source equals the
   hand-written model step, for every state and key. *)
From Boltons Require Import Lib.Prelude Lib.PySrc Model.C20_Model Gen.C20_Src.
Open Scope N_scope.

Lemma incr_or_insert_bump m k b : pd_incr0_or_insert m k 1 (1, b - 1) = bump m k b.
Proof.
  unfold pd_incr0_or_insert. induction m as [|[k0 [c dl]] r IH]; [reflexivity|].
  cbn [d_get bump]. destruct (Nat.eqb k k0) eqn:E.
  - cbn [d_set]. rewrite E. reflexivity.
  - destruct (d_get r k) as [[c1 dl1]|] eqn:G; cbn [d_set]; rewrite E; f_equal; exact IH.
Qed.

Lemma filter_keep b m : filter (fun '(k, v) => b <? sum2 v) m = filter (keep b) m.
Proof. apply filter_ext. intros [k [c dl]]. reflexivity. Qed.

Lemma src_add_is_model s k : src_add s k = tc_add s k.
Proof.
  unfold src_add, tc_add, set_total, set_map, set_bucket. cbn [tc_total tc_bucket tc_w tc_map].
  rewrite incr_or_insert_bump.
  destruct ((tc_total s + 1) mod tc_w s =? 0); cbn [tc_total tc_bucket tc_w tc_map].
  - rewrite filter_keep. reflexivity.
  - reflexivity.
Qed.

(* ---- update(iterable, **kwargs) ----------------------------------------------------------- *)
Definition src_all_keys (it : upd_src) : list K :=
  match it with SrcNone => [] | SrcMapping m => expand m | SrcIterable ks => ks end.

Lemma fold_src_add_keys ks : forall s,
  fold_left (fun self x => let key := x in let self := src_add self key in self) ks s = tc_adds s ks.
Proof.
  induction ks as [|k r IH]; intro s; cbn [fold_left tc_adds]; [reflexivity|].
  cbv zeta. rewrite src_add_is_model. apply IH.
Qed.

Lemma fold_src_add_repeat k n : forall s,
  fold_left (fun self x => let i := x in let self := src_add self k in self) (seq 0 n) s = tc_adds s (repeat k n).
Proof.
  generalize 0%nat as a. induction n as [|n IH]; intros a s; cbn [seq fold_left repeat tc_adds]; [reflexivity|].
  cbv zeta. rewrite src_add_is_model. apply IH.
Qed.

Lemma tc_adds_app s a b : tc_adds s (a ++ b) = tc_adds (tc_adds s a) b.
Proof. unfold tc_adds. apply fold_left_app. Qed.

Lemma fold_src_add_pairs m : forall s,
  fold_left (fun self '(x0, x1) =>
               let key := x0 in let count := x1 in
               let self := fold_left (fun self x => let i := x in let self := src_add self key in self) (seq 0 count) self in
               self) m s
  = tc_adds s (expand m).
Proof.
  induction m as [|[k c] r IH]; intro s; cbn [fold_left]; [reflexivity|].
  cbv zeta. rewrite fold_src_add_repeat, IH. unfold expand. cbn [flat_map fst snd].
  rewrite tc_adds_app. reflexivity.
Qed.

(* one level of the body, without the keyword part *)
Lemma src_update_no_kwargs fuel s it :
  src_update (S fuel) s it [] = tc_adds s (src_all_keys it).
Proof.
  cbn [src_update is_nonempty]. cbv zeta.
  destruct it as [|m|ks]; cbn [src_is_none negb src_items_method opt_is_some opt_items src_keys src_all_keys].
  - reflexivity.
  - apply fold_src_add_pairs.
  - apply fold_src_add_keys.
Qed.

Lemma src_update_is_model fuel s it kw : (2 <= fuel)%nat ->
  src_update fuel s it kw = tc_adds s (src_all_keys it ++ expand kw).
Proof.
  intro Hf. destruct fuel as [|[|fuel]]; [lia|lia|].
  rewrite tc_adds_app.
  destruct kw as [|p kw'].
  - cbn [expand flat_map tc_adds fold_left]. apply src_update_no_kwargs.
  - remember (p :: kw') as kw eqn:Ekw.
    assert (Hne : is_nonempty kw = true) by (subst; reflexivity).
    change (src_update (S (S fuel)) s it kw) with
      (let self := src_update (S (S fuel)) s it [] in
       if is_nonempty kw then src_update (S fuel) self (SrcMapping kw) [] else self) at 1.
    cbv zeta. rewrite Hne, !src_update_no_kwargs. reflexivity.
Qed.

(* ---- value-returning methods ---------------------------------------------------------------- *)
Lemma src_common_is_model s : src_get_common_count s = tc_common s.
Proof.
  unfold src_get_common_count, tc_common, tc_items, d_values. rewrite !map_map.
  induction (tc_map s) as [|[k [c dl]] r IH]; cbn [map sumN fst snd]; [reflexivity|]. rewrite IH. reflexivity.
Qed.

Lemma src_uncommon_is_model s : src_get_uncommon_count s = tc_uncommon s.
Proof. unfold src_get_uncommon_count, tc_uncommon. rewrite src_common_is_model. reflexivity. Qed.

Lemma src_len_is_model s : src_len s = tc_len s.
Proof. reflexivity. Qed.

(* most_common(n): n omitted/None = everything; n <= 0 = nothing; otherwise the first n *)
Lemma src_most_common_none s : src_most_common s None = tc_most_common s None.
Proof. reflexivity. Qed.

Lemma src_most_common_nonpos s z : (z <= 0)%Z -> src_most_common s (Some z) = [].
Proof.
  intro H. unfold src_most_common. cbn [opt_is_some opt_getZ andb].
  destruct (z <=? 0)%Z eqn:E; [reflexivity|lia].
Qed.

Lemma src_most_common_pos s k : (0 < k)%nat ->
  src_most_common s (Some (Z.of_nat k)) = tc_most_common s (Some k).
Proof.
  intro H. unfold src_most_common, tc_most_common. cbn [opt_is_some opt_getZ andb negb orb].
  destruct (Z.of_nat k <=? 0)%Z eqn:E; [lia|].
  cbv zeta. cbn [orb negb]. unfold zlen.
  destruct (Z.of_nat k >=? Z.of_nat (length (sort_desc (tc_items s))))%Z eqn:G.
  - symmetry. apply firstn_all2. lia.
  - rewrite Nat2Z.id. reflexivity.
Qed.
