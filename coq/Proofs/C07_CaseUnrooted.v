(* Mixed-case base AND rebuilt unrooted through from_parts: the text-level
   capstone for every value of the checker's c_unrooted flag. *)
From Boltons Require Import Lib.Prelude Lib.C07_Str Spec.C07_Spec Gen.C07_Gen Model.C07_Model
     Check.C07_Check Proofs.C07_StrLemmas Proofs.C07_Rds Proofs.C07_Resolve Proofs.C07_Parse
     Proofs.C07_Navigate Proofs.C07_Text Proofs.C07_Refine Proofs.C07_RoundTrip Proofs.C07_Unrooted
     Proofs.C07_RefineUnrooted Proofs.C07_Case Proofs.C07_CaseRefine Proofs.C07_CaseRoundTrip.
Open Scope N_scope.

Lemma unroot_cases_mc b : wf_base_mc b ->
  (unroot b = b) \/ (unrooted_shape (unroot b) /\ rootpath (unroot b) = nosep b).
Proof.
  intro W. destruct (mc_facts b W) as (segs & Hp & _). unfold unroot.
  rewrite is_nil_nonempty, (nonempty_true _ (mc_host_ne b W)). cbn [negb]. rewrite Hp.
  destruct segs as [|s rest]; [left; reflexivity|]. destruct s as [|c s]; [left; reflexivity|].
  right. unfold from_parts.
  assert (E : rootpath {| u_scheme := u_scheme b; u_sep := false; u_user := u_user b; u_pass := u_pass b;
                          u_host := u_host b; u_port := u_port b; u_path := (c :: s) :: rest;
                          u_query := u_query b; u_frag := u_frag b |} = nosep b).
  { unfold rootpath, nosep. cbn. rewrite Hp. reflexivity. }
  split; [|exact E]. split.
  - rewrite E. split; [exact (mc_scheme_ne b W)|]. split; [exact (mc_host_ne b W)|].
    exact (wb_segs _ (mc_twin b W)).
  - exists c, s, rest. reflexivity.
Qed.

Lemma record_obs_unrooted_eq_mc b d1 d2 : wf_base_mc b -> wf_ref d1 \/ wf_base d1 ->
  record_obs_unrooted b d1 d2 = record_obs b d1 d2.
Proof.
  intros W W1. unfold record_obs_unrooted, record_obs. cbv zeta.
  destruct (unroot_cases_mc b W) as [E|[WU ER]]; [rewrite E; reflexivity|].
  assert (EN : navigate_url (unroot b) d1 = navigate_url b d1).
  { unfold navigate_url. destruct W1 as [Wd|Wd].
    - rewrite (wf_ref_relative d1 Wd), (navigate_rel_unrooted_gen _ d1 WU Wd), ER. reflexivity.
    - rewrite (wf_base_absolute d1 Wd). reflexivity. }
  rewrite EN, (to_text_unrooted_gen _ WU), ER, (to_text_nosep b (mc_host_ne b W)). reflexivity.
Qed.

Theorem model_on_texts_mixed_case_any_base b d1 d2 unrooted f1 f2 o0 :
  wf_base_mc_text b -> dest_text_ok d1 -> dest_text_ok d2 ->
  exists o, c07_model (mkCase (to_text b) unrooted (to_text d1) f1 (to_text d2) f2 o0) = Some o /\
            c07_holds (mkCase (to_text b) unrooted (to_text d1) f1 (to_text d2) f2 o) = true.
Proof.
  intros Wb W1 W2. destruct unrooted; [|apply model_on_texts_mixed_case; assumption].
  exists (record_obs b d1 d2). split.
  - rewrite <- (record_obs_unrooted_eq_mc b d1 d2 (mct_wf b Wb) (dest_text_ok_wf d1 W1)).
    unfold c07_model. cbn [c_base c_unrooted c_ref1 c_ref2 c_as_url1 c_as_url2].
    rewrite (base_round_trip_mc b Wb), (dest_round_trip d1 W1), (dest_round_trip d2 W2).
    rewrite (navigate_normal_form _ _ d1 f1 (dest_round_trip d1 W1) eq_refl).
    rewrite (navigate_normal_form _ _ d2 f2 (dest_round_trip d2 W2) eq_refl). destruct f1, f2; reflexivity.
  - apply mixed_case_observation_satisfies_spec;
      [exact (mct_wf b Wb) | apply dest_text_ok_wf; assumption ..].
Qed.
