(* C11: list lemmas used by the invariant and refinement proofs. *)
From Boltons Require Import Lib.Prelude Lib.C11_Iface Spec.C11_Spec Model.C11_Model.
From Coq Require Import Permutation.

(* ---- live_of ---------------------------------------------------------------- *)
Lemma live_of_app a b : live_of (a ++ b) = live_of a ++ live_of b.
Proof. unfold live_of. apply flat_map_app. Qed.

Lemma live_of_map_some l : live_of (map Some l) = l.
Proof. induction l; simpl; congruence. Qed.

Lemma live_of_all_none l : Forall (fun o : option K => o = None) l -> live_of l = [].
Proof. induction 1; simpl; subst; auto. Qed.

Lemma live_of_length_le l : length (live_of l) <= length l.
Proof. induction l as [|[x|] l IH]; simpl; lia. Qed.

Lemma live_of_all_live l : Forall (fun o : option K => o <> None) l -> length (live_of l) = length l.
Proof. induction 1 as [|[x|] l H _ IH]; simpl; try congruence; lia. Qed.

Lemma live_of_has_none l : In None l -> length (live_of l) < length l.
Proof.
  induction l as [|[x|] l IH]; simpl; intros H.
  - contradiction.
  - destruct H as [H|H]; [discriminate|]. specialize (IH H). lia.
  - pose proof (live_of_length_le l). lia.
Qed.

Lemma In_live_of x l : In x (live_of l) <-> In (Some x) l.
Proof.
  induction l as [|[y|] l IH]; simpl.
  - tauto.
  - rewrite IH. split; intros [H|H]; auto; left; congruence.
  - rewrite IH. split; [auto|intros [H|H]; [discriminate|auto]].
Qed.

(* ---- set_nth ---------------------------------------------------------------- *)
Lemma set_nth_length {A} n (v : A) l : length (set_nth n v l) = length l.
Proof. revert n; induction l; destruct n; simpl; auto. Qed.

Lemma set_nth_split {A} n (v x : A) l :
  nth_error l n = Some x -> set_nth n v l = firstn n l ++ v :: skipn (S n) l.
Proof.
  revert n; induction l as [|y l IH]; destruct n; simpl; intros H; try discriminate.
  - reflexivity.
  - f_equal. apply IH. exact H.
Qed.

Lemma nth_error_split {A} n (x : A) l :
  nth_error l n = Some x -> l = firstn n l ++ x :: skipn (S n) l.
Proof.
  revert n; induction l as [|y l IH]; destruct n; simpl; intros H; try discriminate.
  - congruence.
  - f_equal. apply IH. exact H.
Qed.

Lemma nth_error_set_nth {A} n (v : A) l i :
  nth_error (set_nth n v l) i =
  if Nat.eqb i n then (if n <? length l then Some v else None) else nth_error l i.
Proof.
  revert n i; induction l as [|y l IH]; intros n i.
  - simpl. destruct (Nat.eqb i n); destruct i; reflexivity.
  - destruct n, i; simpl; try reflexivity.
    rewrite IH. destruct (Nat.eqb i n); try reflexivity.
Qed.

(* ---- firstn / skipn --------------------------------------------------------- *)
Lemma skipn_skipn' {A} a b (l : list A) : skipn a (skipn b l) = skipn (a + b) l.
Proof.
  revert l a; induction b; intros l a.
  - rewrite Nat.add_0_r. reflexivity.
  - replace (a + S b) with (S (a + b)) by lia. destruct l as [|y l]; simpl.
    + apply skipn_nil.
    + apply IHb.
Qed.

Lemma firstn_app_le {A} n (l1 l2 : list A) : n <= length l1 -> firstn n (l1 ++ l2) = firstn n l1.
Proof. intros H. rewrite firstn_app. replace (n - length l1) with 0 by lia. simpl. apply app_nil_r. Qed.

Lemma skipn_app_le {A} n (l1 l2 : list A) : n <= length l1 -> skipn n (l1 ++ l2) = skipn n l1 ++ l2.
Proof. intros H. rewrite skipn_app. replace (n - length l1) with 0 by lia. reflexivity. Qed.

Lemma Forall_firstn {A} (P : A -> Prop) n l : Forall P l -> Forall P (firstn n l).
Proof. intros H. revert n. induction H; destruct n; simpl; auto. Qed.

Lemma Forall_skipn {A} (P : A -> Prop) n l : Forall P l -> Forall P (skipn n l).
Proof. intros H. revert n. induction H; destruct n; simpl; auto. Qed.

Lemma Forall_nth_error {A} (P : A -> Prop) l n x : Forall P l -> nth_error l n = Some x -> P x.
Proof. intros H E. apply nth_error_In in E. rewrite Forall_forall in H. auto. Qed.

Lemma nth_error_firstn {A} (l : list A) n i : i < n -> nth_error (firstn n l) i = nth_error l i.
Proof.
  revert n i; induction l as [|y l IH]; intros [|n] [|i] H; simpl; try reflexivity; try lia.
  apply IH. lia.
Qed.

Lemma nth_error_skipn {A} (l : list A) n i : nth_error (skipn n l) i = nth_error l (n + i).
Proof. revert l; induction n; intros [|y l]; simpl; auto. destruct i; reflexivity. Qed.

Lemma Forall_nth_error_intro {A} (P : A -> Prop) l :
  (forall i y, nth_error l i = Some y -> P y) -> Forall P l.
Proof.
  intros H. apply Forall_forall. intros y Hy. apply In_nth_error in Hy. destruct Hy as [i Hi]. eauto.
Qed.

Lemma nth_error_firstn_some {A} (l : list A) n i y :
  nth_error (firstn n l) i = Some y -> i < n /\ nth_error l i = Some y.
Proof.
  intros H. assert (i < n).
  { assert (i < length (firstn n l)) by (apply nth_error_Some; congruence).
    rewrite firstn_length in H0. lia. }
  split; [assumption|]. rewrite nth_error_firstn in H by assumption. exact H.
Qed.

Lemma set_nth_firstn {A} n r (v : A) l : n <= r -> firstn n (set_nth r v l) = firstn n l.
Proof.
  revert n r; induction l as [|y l IH]; intros n r H; [destruct r; reflexivity|].
  destruct r, n; simpl; try reflexivity; try lia. f_equal. apply IH. lia.
Qed.

Lemma set_nth_skipn_gt {A} n r (v : A) l : r < n -> skipn n (set_nth r v l) = skipn n l.
Proof.
  revert n r; induction l as [|y l IH]; intros n r H; [destruct r; reflexivity|].
  destruct r, n; simpl; try reflexivity; try lia. apply IH. lia.
Qed.

Lemma set_nth_skipn_le {A} n r (v : A) l : n <= r -> skipn n (set_nth r v l) = set_nth (r - n) v (skipn n l).
Proof.
  revert n r; induction l as [|y l IH]; intros n r H.
  - destruct r, n; reflexivity.
  - destruct n; [rewrite Nat.sub_0_r; reflexivity|].
    destruct r; [lia|]. simpl. apply IH. lia.
Qed.

Lemma firstn_add {A} n m (l : list A) : firstn (n + m) l = firstn n l ++ firstn m (skipn n l).
Proof.
  revert l; induction n; intros l; simpl; [reflexivity|].
  destruct l as [|y l]; simpl.
  - rewrite firstn_nil. reflexivity.
  - f_equal. apply IHn.
Qed.

Lemma all_live_nth l i : Forall (fun o : option K => o <> None) l -> i < length l ->
  exists x, nth_error l i = Some (Some x).
Proof.
  intros H L. destruct (nth_error l i) as [[x|]|] eqn:E.
  - eauto.
  - exfalso. apply (Forall_nth_error _ _ _ _ H E). reflexivity.
  - apply nth_error_None in E. lia.
Qed.

Lemma NoDup_snoc {A} (l : list A) x : NoDup l -> ~ In x l -> NoDup (l ++ [x]).
Proof.
  intros H N. apply (Permutation_NoDup (l := x :: l)).
  - apply Permutation_cons_append.
  - constructor; assumption.
Qed.
