(* resolve_path_parts / normalize: the result has no dot segments, a rooted
   list stays rooted, and both are idempotent (for every segment list, rooted
   or not). *)
From Boltons Require Import Lib.Prelude Lib.C07_Str Spec.C07_Spec Gen.C07_Gen Model.C07_Model
     Proofs.C07_StrLemmas Proofs.C07_Rds.
Open Scope N_scope.

Definition clean (s : str) : Prop := is_dot_seg s = false.

Lemma clean_split s : clean s <-> is_dot s = false /\ is_dotdot s = false.
Proof. unfold clean, is_dot_seg, is_dot, is_dotdot. apply orb_false_iff. Qed.

Lemma clean_nil : clean []. Proof. reflexivity. Qed.

Lemma rpp_loop_clean parts : forall ret,
  Forall clean ret -> Forall clean (rpp_loop parts ret).
Proof.
  induction parts as [|p rest IH]; intros ret H; [exact H|].
  cbn [rpp_loop]. destruct (is_dot p) eqn:E1; [apply IH; exact H|].
  destruct (is_dotdot p) eqn:E2.
  - destruct (_ && _); apply IH; [apply Forall_removelast|]; exact H.
  - apply IH. apply Forall_app. split; [exact H|]. constructor; [|constructor].
    apply clean_split. split; assumption.
Qed.

Theorem resolve_clean parts : Forall clean (resolve_path_parts parts).
Proof.
  unfold resolve_path_parts. cbv zeta.
  pose proof (rpp_loop_clean parts [] (Forall_nil _)) as H.
  destruct (ends_with_dots parts); [|exact H].
  apply Forall_app. split; [exact H|]. constructor; [exact clean_nil | constructor].
Qed.

Lemma rpp_loop_id parts : forall ret, Forall clean parts -> rpp_loop parts ret = ret ++ parts.
Proof.
  induction parts as [|p rest IH]; intros ret H; [symmetry; apply app_nil_r|].
  inversion H as [|? ? Hp Hrest]; subst. apply clean_split in Hp as [E1 E2].
  cbn [rpp_loop]. rewrite E1, E2, (IH _ Hrest), <- app_assoc. reflexivity.
Qed.

Lemma ends_with_dots_clean parts : Forall clean parts -> ends_with_dots parts = false.
Proof.
  intro H. unfold ends_with_dots. destruct (list_last_case parts) as [->|(l & a & ->)]; [reflexivity|].
  rewrite rev_app_distr. cbn. apply Forall_app in H as [_ Ha]. inversion Ha; subst. assumption.
Qed.

Lemma resolve_id parts : Forall clean parts -> resolve_path_parts parts = parts.
Proof.
  intro H. unfold resolve_path_parts. cbv zeta.
  rewrite (ends_with_dots_clean _ H), (rpp_loop_id parts [] H). reflexivity.
Qed.

Theorem resolve_idem parts :
  resolve_path_parts (resolve_path_parts parts) = resolve_path_parts parts.
Proof. apply resolve_id, resolve_clean. Qed.

Theorem normalize_idem u : normalize (normalize u) = normalize u.
Proof. unfold normalize. cbn. rewrite !lower_idem, resolve_idem. reflexivity. Qed.

(* a rooted list stays rooted: ".." never removes the root marker *)
Theorem resolve_stays_rooted segs : exists segs', resolve_path_parts ([] :: segs) = [] :: segs'.
Proof. eexists. apply resolve_rooted. Qed.

(* nothing but what was there, or "", appears in the result; used for the
   character-class side conditions *)
Lemma rpp_loop_incl (P : str -> Prop) parts : forall ret,
  Forall P parts -> Forall P ret -> Forall P (rpp_loop parts ret).
Proof.
  induction parts as [|p rest IH]; intros ret Hp Hr; [exact Hr|].
  inversion Hp; subst. cbn [rpp_loop]. destruct (is_dot p); [apply IH; assumption|].
  destruct (is_dotdot p).
  - destruct (_ && _); apply IH; try assumption. apply Forall_removelast. assumption.
  - apply IH; [assumption|]. apply Forall_app. split; [assumption|]. constructor; [assumption|constructor].
Qed.

Lemma resolve_incl (P : str -> Prop) parts : P [] -> Forall P parts -> Forall P (resolve_path_parts parts).
Proof.
  intros H0 H. unfold resolve_path_parts. cbv zeta.
  pose proof (rpp_loop_incl P parts [] H (Forall_nil _)) as R.
  destruct (ends_with_dots parts); [|exact R]. apply Forall_app. split; [exact R|]. constructor; [exact H0|constructor].
Qed.
