(* SpooledStringIO.readline(length) over the code-point read path: chunks are
   read until one contains "\n"; what follows it is handed back to the reader. *)
From Coq Require Import ZifyBool.
From Boltons Require Import Lib.Prelude Spec.C18_Spec Model.C18_Model
  Proofs.C18_Lines Proofs.C18_Bytes Proofs.C18_Mfr Proofs.C18_Utf8 Proofs.C18_Reader Proofs.C18_String.

(* ---- ends_nl / take_line ------------------------------------------------------- *)
Lemma ends_nl_cons (x y : N) t : ends_nl (x :: y :: t) = ends_nl (y :: t).
Proof.
  unfold ends_nl. cbn [rev]. destruct (rev t ++ [y]) eqn:E.
  - destruct (rev t); discriminate.
  - reflexivity.
Qed.

Lemma take_line_stable l r : ends_nl (take_line l) = true -> take_line (l ++ r) = take_line l.
Proof.
  induction l as [|x t IH]; intro H; [discriminate|].
  cbn [app take_line] in *. destruct (N.eqb x 10) eqn:E; [reflexivity|].
  f_equal. apply IH. destruct (take_line t) as [|y u] eqn:Et.
  - unfold ends_nl in H. cbn in H. congruence.
  - now rewrite ends_nl_cons in H.
Qed.

Lemma no_nl_of_take_line l : ends_nl (take_line l) = false -> ~ In 10%N l.
Proof.
  induction l as [|x t IH]; intros H []; cbn [take_line] in H.
  - subst x. cbn in H. unfold ends_nl in H. cbn in H. discriminate.
  - destruct (N.eqb x 10) eqn:E; [unfold ends_nl in H; cbn in H; congruence|].
    destruct (take_line t) as [|y u] eqn:Et.
    + apply (proj1 (take_line_nil_iff _)) in Et. subst t. contradiction.
    + rewrite ends_nl_cons in H. now apply IH.
Qed.

Lemma take_line_no_nl l r : ~ In 10%N l -> take_line (l ++ r) = l ++ take_line r.
Proof.
  induction l as [|x t IH]; intro H; [reflexivity|].
  cbn [app take_line]. destruct (N.eqb x 10) eqn:E.
  - apply N.eqb_eq in E. subst x. exfalso. apply H. now left.
  - f_equal. apply IH. intro Z. apply H. now right.
Qed.

Lemma ss_read_lines_none s n : rd_lines (ef_rd (ss_buf (fst (ss_read s n)))) = None.
Proof.
  unfold ss_read, rd_read.
  destruct (rd_loop _ _ _ _ _ _ _) as [[[st bb] cb] ok].
  destruct (match n with None => n | Some _ => n end); reflexivity.
Qed.

Section Readline.
  Variable C : list N.
  Hypothesis V : Forall uvalid C.

  (* handing characters back to the reader *)
  Lemma push_back_RI s k back :
    RI C (k + length back) (ss_buf s) -> rd_lines (ef_rd (ss_buf s)) = None ->
    skipn k C = back ++ skipn (k + length back) C ->
    RI C k (ss_buf (ss_push_back s back)) /\
    ss_tell (ss_push_back s back) = ss_tell s - length back /\ same_cfg s (ss_push_back s back).
  Proof.
    intros [Ok [K [D [W [LO [R [Sk E]]]]]]] Ln Pfx. unfold ss_push_back, ss_with.
    cbn [ss_buf ss_tell]. split; [|split; [reflexivity|split; reflexivity]].
    unfold RI, lines_ok, pending in *. cbn [ef_rd ef_stream rd_ok rd_bytes rd_lines rd_chars].
    rewrite Ln in *. split; [exact Ok|]. split; [lia|]. split; [exact D|]. split; [exact W|]. split; [exact I|].
    exists R. split; [|exact E]. rewrite Pfx, Sk. now rewrite app_assoc.
  Qed.

  Definition line_result (limit : option nat) (T : list N) : list N :=
    match limit with None => take_line T | Some l => firstn l (take_line T) end.

  Lemma ss_readline_loop_spec k0 t0 limit : forall fuel s line,
    RI C (k0 + length line) (ss_buf s) ->
    skipn k0 C = line ++ skipn (k0 + length line) C ->
    ~ In 10%N line ->
    match limit with Some l => length line <= l | None => True end ->
    ss_tell s = t0 + length line ->
    1 <= ss_chunk s ->
    length C - (k0 + length line) + 1 <= fuel ->
    snd (ss_readline_loop fuel s limit line) = line_result limit (skipn k0 C) /\
    RI C (k0 + length (snd (ss_readline_loop fuel s limit line)))
       (ss_buf (fst (ss_readline_loop fuel s limit line))) /\
    ss_tell (fst (ss_readline_loop fuel s limit line)) = t0 + length (snd (ss_readline_loop fuel s limit line)) /\
    same_cfg s (fst (ss_readline_loop fuel s limit line)).
  Proof.
    induction fuel as [|fuel IH]; intros s line I Pfx Nl Lim Tl Ch F; [lia|].
    cbn [ss_readline_loop].
    assert (TL : take_line (skipn k0 C) = line ++ take_line (skipn (k0 + length line) C)).
    { rewrite Pfx at 1. now apply take_line_no_nl. }
    destruct (match limit with Some l => l <=? length line | None => false end) eqn:Q.
    { (* the limit is reached *)
      destruct limit as [l|]; [|discriminate]. cbn [fst snd line_result].
      assert (length line = l) by lia. subst l.
      split; [rewrite TL, firstn_app, Nat.sub_diag, firstn_all; cbn; now rewrite app_nil_r|].
      split; [exact I|]. split; [exact Tl|apply same_cfg_refl]. }
    set (n := match limit with None => ss_chunk s | Some l => Nat.min (ss_chunk s) (l - length line) end).
    assert (Hn : 1 <= n) by (unfold n; destruct limit; lia).
    pose proof (ss_read_spec C V s _ (Some n) I) as [R1 [R2 [R3 R4]]].
    pose proof (ss_read_lines_none s (Some n)) as Ln.
    destruct (ss_read s (Some n)) as [s1 chunk]. cbn [fst snd] in *.
    set (k := k0 + length line) in *.
    assert (Kd : skipn k C = chunk ++ skipn (k + length chunk) C).
    { replace (skipn (k + length chunk) C) with (skipn (length chunk) (skipn k C)) by (now rewrite <- skipn_add).
      rewrite R1, skipn_firstn_len. symmetry. apply firstn_skipn. }
    assert (Lc : length chunk <= n) by (rewrite R1, firstn_length; lia).
    destruct (nonempty chunk) eqn:NE.
    2:{ (* end of the data *)
      apply nonempty_false in NE. rewrite NE in *. cbn [length] in *. rewrite Nat.add_0_r in R2.
      assert (Z : skipn k C = []).
      { destruct (skipn k C) as [|y t] eqn:Es; [reflexivity|]. destruct n; [lia|]. cbn in R1. discriminate. }
      rewrite Z in TL. cbn [take_line] in TL. rewrite app_nil_r in TL.
      cbn [fst snd]. split.
      - unfold line_result. rewrite TL. destruct limit as [l|]; [symmetry; apply firstn_all2; exact Lim|reflexivity].
      - split; [exact R2|]. split; [lia|exact R4]. }
    assert (Lp : 1 <= length chunk) by (destruct chunk; [discriminate|cbn; lia]).
    assert (Pfx' : skipn k0 C = (line ++ chunk) ++ skipn (k0 + length (line ++ chunk)) C).
    { rewrite app_length, <- app_assoc. replace (k0 + (length line + length chunk)) with (k + length chunk) by (unfold k; lia).
      rewrite <- Kd. exact Pfx. }
    destruct (ends_nl (take_line chunk)) eqn:En.
    - (* the line ends inside this chunk *)
      set (l := take_line chunk) in *. set (back := skipn (length l) chunk).
      assert (Sp : chunk = l ++ back) by apply take_line_prefix.
      assert (Ll : length chunk = length l + length back) by (rewrite Sp at 1; apply app_length).
      assert (Tk : take_line (skipn k C) = l).
      { rewrite Kd. now apply take_line_stable. }
      destruct (push_back_RI s1 (k + length l) back) as [P1 [P2 P3]].
      + replace (k + length l + length back) with (k + length chunk) by lia. exact R2.
      + exact Ln.
      + replace (k + length l + length back) with (k + length chunk) by lia.
        rewrite skipn_add, Kd, Sp at 1. rewrite <- app_assoc, skipn_app, skipn_all, Nat.sub_diag. reflexivity.
      + cbn [fst snd]. rewrite app_length.
        split.
        * unfold line_result. fold k in TL. rewrite TL, Tk.
          destruct limit as [lm|]; [|reflexivity]. symmetry. apply firstn_all2. rewrite app_length. unfold n in Lc. lia.
        * split; [replace (k0 + (length line + length l)) with (k + length l) by (unfold k; lia); exact P1|].
          split; [lia|]. eapply same_cfg_trans; eassumption.
    - (* no line end yet: go on *)
      assert (Nc : ~ In 10%N chunk) by now apply no_nl_of_take_line.
      destruct (IH s1 (line ++ chunk)) as [J1 [J2 [J3 J4]]].
      + rewrite app_length. replace (k0 + (length line + length chunk)) with (k + length chunk) by (unfold k; lia). exact R2.
      + exact Pfx'.
      + intro Z. apply in_app_or in Z as [Z|Z]; auto.
      + destruct limit as [lm|]; [|trivial]. rewrite app_length. unfold n in Lc. lia.
      + rewrite app_length. lia.
      + destruct R4 as [_ R4]. lia.
      + assert (Kc : k + length chunk <= length C) by (destruct R2 as [_ [Kc _]]; exact Kc).
        rewrite app_length. unfold k in *. lia.
      + split; [exact J1|]. split; [exact J2|]. split; [exact J3|]. eapply same_cfg_trans; eassumption.
  Qed.

  (* readline(length) *)
  Lemma ss_readline_spec s k lim : RI C k (ss_buf s) -> 1 <= ss_chunk s ->
    snd (ss_readline s lim) = line_result lim (skipn k C) /\
    RI C (k + length (snd (ss_readline s lim))) (ss_buf (fst (ss_readline s lim))) /\
    ss_tell (fst (ss_readline s lim)) = ss_tell s + length (snd (ss_readline s lim)) /\
    same_cfg s (fst (ss_readline s lim)).
  Proof.
    intros I Ch. unfold ss_readline.
    assert (D : rf_data (ef_stream (ss_buf s)) = utf8_enc C) by (destruct I as [_ [_ [D _]]]; exact D).
    pose proof (enc_length C) as EL. rewrite <- D in EL.
    apply (ss_readline_loop_spec k (ss_tell s) lim); cbn [length app]; rewrite ?Nat.add_0_r; auto.
    - destruct lim; [lia|trivial].
    - lia.
  Qed.
End Readline.
