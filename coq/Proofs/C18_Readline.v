(* StreamReader.readline() and the line calls, for text whose only line-break
   character is "\n" (the guard of the open finding C18-line-boundaries). *)
From Coq Require Import ZifyBool.
From Boltons Require Import Lib.Prelude Spec.C18_Spec Model.C18_Model
  Proofs.C18_Lines Proofs.C18_Bytes Proofs.C18_Mfr Proofs.C18_Utf8 Proofs.C18_Reader.

Definition plain (l : list N) : Prop := Forall (fun x => odd_break x = false) l.

Lemma plain_brk x : odd_break x = false -> is_ubrk x = N.eqb x 10 /\ is_bbrk x = N.eqb x 10 /\ N.eqb x 13 = false.
Proof.
  unfold odd_break, is_ubrk, is_bbrk. intro H.
  destruct (N.eqb x 10) eqn:E10.
  - apply N.eqb_eq in E10. subst x. auto.
  - cbn [negb] in H. rewrite andb_true_r in H. cbn [orb] in *.
    destruct (N.eqb x 13) eqn:E13; [discriminate|]. auto.
Qed.

(* splitlines = lines when "\n" is the only break character around *)
Lemma gsplit_plain brk l :
  Forall (fun x => brk x = N.eqb x 10 /\ N.eqb x 13 = false) l -> gsplit brk l = lines l.
Proof.
  induction 1 as [|x r [Hb H13] _ IH]; [reflexivity|].
  cbn [gsplit lines]. rewrite H13, IH, Hb. cbn [andb]. reflexivity.
Qed.

Lemma gsplit_u_plain l : plain l -> gsplit is_ubrk l = lines l.
Proof. intro P. apply gsplit_plain. eapply Forall_impl; [|exact P]. intros x H. apply plain_brk in H. tauto. Qed.
Lemma gsplit_b_plain l : plain l -> gsplit is_bbrk l = lines l.
Proof. intro P. apply gsplit_plain. eapply Forall_impl; [|exact P]. intros x H. apply plain_brk in H. tauto. Qed.

(* ---- ends_with ----------------------------------------------------------------- *)
Lemma ends_with_cons p (x y : N) t : ends_with p (x :: y :: t) = ends_with p (y :: t).
Proof.
  unfold ends_with. cbn [rev]. destruct (rev t ++ [y]) eqn:E.
  - destruct (rev t); discriminate.
  - reflexivity.
Qed.

Lemma ends_with_ext p q l : Forall (fun x => p x = q x) l -> ends_with p l = ends_with q l.
Proof.
  induction 1 as [|x t H _ IH]; [reflexivity|].
  destruct t as [|y t]; [unfold ends_with; cbn; exact H|]. now rewrite !ends_with_cons.
Qed.

Lemma ends_with_none p l : Forall (fun x => p x = false) l -> ends_with p l = false.
Proof.
  induction 1 as [|x t H _ IH]; [reflexivity|].
  destruct t as [|y t]; [unfold ends_with; cbn; exact H|]. now rewrite ends_with_cons.
Qed.

Definition ends10 := ends_with (fun x => N.eqb x 10).

(* ---- take_line against a longer text ----------------------------------------- *)
Lemma take_line_stable l r : ends10 (take_line l) = true -> take_line (l ++ r) = take_line l.
Proof.
  induction l as [|x t IH]; intro H; [discriminate|].
  cbn [app take_line] in *. destruct (N.eqb x 10) eqn:E; [reflexivity|].
  f_equal. apply IH. destruct (take_line t) as [|y u] eqn:Et.
  - unfold ends10, ends_with in H. cbn in H. congruence.
  - unfold ends10 in *. now rewrite ends_with_cons in H.
Qed.

Lemma take_line_proper l : skipn (length (take_line l)) l <> [] -> ends10 (take_line l) = true.
Proof.
  induction l as [|x t IH]; intro H; [now cbn in H|].
  cbn [take_line] in *. destruct (N.eqb x 10) eqn:E.
  - unfold ends10, ends_with. cbn. exact E.
  - cbn [length skipn] in H. specialize (IH H).
    destruct (take_line t) as [|y u] eqn:Et; [discriminate|].
    unfold ends10 in *. now rewrite ends_with_cons.
Qed.

Lemma lines_nil_inv l : lines l = [] -> l = [].
Proof. intro H. apply (f_equal (@concat N)) in H. now rewrite concat_lines in H. Qed.

Lemma lines_single l l0 : lines l = [l0] -> l0 = l /\ take_line l = l.
Proof.
  intro H. assert (E : l0 = l).
  { apply (f_equal (@concat N)) in H. rewrite concat_lines in H. cbn in H. now rewrite app_nil_r in H. }
  split; [exact E|]. subst l0.
  destruct l as [|x t]; [reflexivity|].
  rewrite lines_unfold in H by discriminate. now injection H.
Qed.

Lemma lines_many l l0 l1 more r : lines l = l0 :: l1 :: more ->
  take_line (l ++ r) = l0 /\ l = l0 ++ concat (l1 :: more).
Proof.
  intro H. assert (NE : l <> []) by (intro Z; subst; discriminate).
  rewrite (lines_unfold _ NE) in H. injection H as H0 H1.
  assert (P : skipn (length (take_line l)) l <> []).
  { intro Z. rewrite Z in H1. discriminate. }
  split.
  - rewrite take_line_stable; [exact H0|]. now apply take_line_proper.
  - rewrite <- H0, <- H1, concat_lines. apply take_line_prefix.
Qed.

(* every line but the last is complete *)
Lemma complete_cons x ln : N.eqb x 10 = false -> complete_line ln -> complete_line (x :: ln).
Proof.
  intros E [b [-> Hb]]. exists (x :: b). split; [reflexivity|].
  intros [Z|Z]; [|now apply Hb]. subst x. discriminate.
Qed.

Lemma lines_complete l : Forall complete_line (removelast (lines l)).
Proof.
  induction l as [|x r IH]; [constructor|].
  cbn [lines]. destruct (N.eqb x 10) eqn:E.
  - destruct (lines r) as [|ln more] eqn:El; [constructor|].
    change (removelast ([x] :: ln :: more)) with ([x] :: removelast (ln :: more)).
    constructor; [|exact IH]. apply N.eqb_eq in E. subst x. exists []. split; [reflexivity|intros []].
  - destruct (lines r) as [|ln more] eqn:El; [constructor|].
    destruct more as [|m more']; [constructor|].
    change (removelast ((x :: ln) :: m :: more')) with ((x :: ln) :: removelast (m :: more')).
    change (removelast (ln :: m :: more')) with (ln :: removelast (m :: more')) in IH.
    inversion IH; subst. constructor; [|assumption]. now apply complete_cons.
Qed.

Lemma take_line_complete l r : complete_line l -> take_line (l ++ r) = l.
Proof.
  intros [b [-> Hb]]. induction b as [|x b IH]; [reflexivity|].
  cbn [app take_line]. destruct (N.eqb x 10) eqn:E.
  - apply N.eqb_eq in E. subst x. exfalso. apply Hb. now left.
  - f_equal. apply IH. intro Z. apply Hb. now right.
Qed.

(* the cached lines: the last one gets the pending characters appended *)
Lemma concat_cached (X : list (list N)) chars : X <> [] ->
  concat (removelast X ++ [last X [] ++ chars]) = concat X ++ chars.
Proof.
  intro NE. rewrite (app_removelast_last [] NE) at 3.
  rewrite !concat_app. cbn. now rewrite !app_nil_r, app_assoc.
Qed.

Lemma removelast_snoc_length {A} (X : list A) y : X <> [] -> length (removelast X ++ [y]) = length X.
Proof.
  intro NE. rewrite (app_removelast_last y NE) at 2. now rewrite !app_length.
Qed.

Lemma Forall_firstn' {A} (Q : A -> Prop) n l : Forall Q l -> Forall Q (firstn n l).
Proof.
  intro H. rewrite <- (firstn_skipn n l) in H. apply Forall_app in H. tauto.
Qed.

Section Readline.
  Variable C : list N.
  Hypothesis V : Forall uvalid C.
  Hypothesis P : plain C.

  Lemma rl_loop_spec k0 : forall fuel e line readsize,
    RI C (k0 + length line) e ->
    skipn k0 C = line ++ skipn (k0 + length line) C ->
    1 <= readsize ->
    length C - (k0 + length line) + 1 <= fuel ->
    snd (rl_loop fuel e line readsize) = take_line (skipn k0 C) /\
    RI C (k0 + length (snd (rl_loop fuel e line readsize))) (fst (rl_loop fuel e line readsize)).
  Proof.
    induction fuel as [|fuel IH]; intros e line readsize I Pfx Hr F; [lia|].
    cbn [rl_loop].
    pose proof (rd_read_spec C _ e (Some readsize) None V I (or_introl eq_refl)) as [R1 [R2 R3]].
    destruct (rd_read e (Some readsize) None) as [e1 data0]. cbn [fst snd] in *.
    assert (PT : plain (skipn k0 C)) by now apply Forall_skipn.
    assert (Pd : plain data0) by (rewrite R1; apply Forall_firstn'; now apply Forall_skipn).
    replace (nonempty data0 && ends_with (N.eqb 13) data0) with false.
    2:{ rewrite ends_with_none; [now rewrite andb_false_r|].
        eapply Forall_impl; [|exact Pd]. intros x H. apply plain_brk in H. rewrite N.eqb_sym. tauto. }
    match goal with |- context [if readsize <? ?n then 2 * readsize else readsize] =>
      set (rs' := if readsize <? n then 2 * readsize else readsize) end.
    assert (Hr' : 1 <= rs') by (unfold rs'; destruct (readsize <? _); lia).
    clearbody rs'.
    (* the text from k0 on starts with line ++ data0 *)
    assert (Kd : skipn (k0 + length line) C = data0 ++ skipn (k0 + length line + length data0) C).
    { replace (skipn (k0 + length line + length data0) C) with (skipn (length data0) (skipn (k0 + length line) C))
        by (now rewrite <- skipn_add).
      set (T := skipn (k0 + length line) C) in *. rewrite R1, skipn_firstn_len.
      symmetry. apply firstn_skipn. }
    assert (Pfx' : skipn k0 C = (line ++ data0) ++ skipn (k0 + length (line ++ data0)) C).
    { rewrite app_length, <- app_assoc.
      replace (k0 + (length line + length data0)) with (k0 + length line + length data0) by lia.
      rewrite <- Kd. exact Pfx. }
    assert (I' : RI C (k0 + length (line ++ data0)) e1).
    { rewrite app_length. replace (k0 + (length line + length data0)) with (k0 + length line + length data0) by lia. exact R2. }
    assert (Pl : plain (line ++ data0)).
    { rewrite Pfx' in PT. apply Forall_app in PT. tauto. }
    rewrite (gsplit_u_plain _ Pl).
    assert (Kc : k0 + length (line ++ data0) <= length C) by (destruct I' as [_ [K _]]; exact K).
    destruct (lines (line ++ data0)) as [|l0 [|l1 more]] eqn:EL.
    - (* no character at all: end of the data *)
      apply lines_nil_inv in EL. apply app_eq_nil in EL as [-> Ed]. rewrite Ed in *. cbn [nonempty app fst snd length] in *.
      rewrite Nat.add_0_r in *. split; [|exact I'].
      symmetry. apply take_line_nil_iff.
      destruct (skipn k0 C) as [|y t] eqn:Es; [reflexivity|].
      destruct readsize; [lia|]. cbn in R1. discriminate.
    - (* one line so far *)
      apply lines_single in EL as [-> TL].
      rewrite (ends_with_ext is_ubrk (fun x => N.eqb x 10)).
      2:{ eapply Forall_impl; [|exact Pl]. intros x H. apply plain_brk in H. tauto. }
      fold (ends10 (line ++ data0)).
      destruct (ends10 (line ++ data0)) eqn:E10.
      + cbn [fst snd]. split; [|exact I'].
        rewrite Pfx'. rewrite take_line_stable; [now symmetry|]. now rewrite TL.
      + destruct (nonempty data0) eqn:NE.
        * assert (1 <= length data0) by (destruct data0; [discriminate|cbn; lia]).
          apply IH; auto. rewrite app_length in *. lia.
        * apply nonempty_false in NE. rewrite NE in *. rewrite app_nil_r in *. cbn [fst snd length] in *.
          split; [|exact I'].
          assert (Z : skipn (k0 + length line) C = []).
          { destruct (skipn (k0 + length line) C) as [|y t] eqn:Es; [reflexivity|].
            destruct readsize; [lia|]. cbn in R1. discriminate. }
          rewrite Pfx, Z, app_nil_r. now symmetry.
    - (* more than one line: the first is returned, the others are put back *)
      destruct (lines_many _ _ _ _ (skipn (k0 + length (line ++ data0)) C) EL) as [T0 Sp].
      rewrite <- Pfx' in T0.
      assert (C0 : complete_line l0).
      { pose proof (lines_complete (line ++ data0)) as LC. rewrite EL in LC.
        change (removelast (l0 :: l1 :: more)) with (l0 :: removelast (l1 :: more)) in LC. now inversion LC. }
      assert (L0 : length l0 + length (concat (l1 :: more)) = length (line ++ data0)).
      { rewrite <- app_length. f_equal. now symmetry. }
      destruct I' as [Ok [K [D [W [LO [R [Sk E]]]]]]].
      unfold pending in Sk. rewrite R3 in Sk.
      assert (Rest : skipn (k0 + length l0) C = concat (l1 :: more) ++ rd_chars (ef_rd e1) ++ R).
      { rewrite skipn_add, Pfx'. rewrite Sp at 1. rewrite <- !app_assoc, skipn_app, skipn_all, Nat.sub_diag.
        cbn [skipn app]. rewrite <- Sk. reflexivity. }
      destruct more as [|m more']; cbn [fst snd].
      + split; [now symmetry|].
        unfold RI, lines_ok, pending. cbn [ef_rd ef_stream rd_ok rd_bytes rd_lines rd_chars].
        repeat split; auto; try lia.
        exists R. split; [|exact E]. rewrite Rest. cbn [concat]. now rewrite app_nil_r, <- app_assoc.
      + split; [now symmetry|].
        unfold RI, lines_ok, pending. cbn [ef_rd ef_stream rd_ok rd_bytes rd_lines rd_chars].
        repeat split; auto; try lia.
        * rewrite removelast_snoc_length by discriminate. cbn [length]. lia.
        * rewrite removelast_last.
          pose proof (lines_complete (line ++ data0)) as LC. rewrite EL in LC.
          change (removelast (l0 :: l1 :: m :: more')) with (l0 :: removelast (l1 :: m :: more')) in LC.
          now inversion LC.
        * exists R. split; [|exact E]. rewrite Rest, concat_cached by discriminate. now rewrite <- app_assoc.
  Qed.

  (* readline() *)
  Lemma rd_readline_spec k e : RI C k e ->
    snd (rd_readline e) = take_line (skipn k C) /\
    RI C (k + length (snd (rd_readline e))) (fst (rd_readline e)).
  Proof.
    intro I. unfold rd_readline.
    destruct (rd_lines (ef_rd e)) as [[|l0 more]|] eqn:EL.
    - destruct I as [_ [_ [_ [_ [LO _]]]]]. unfold lines_ok in LO. rewrite EL in LO. cbn in LO. lia.
    - (* cached lines *)
      destruct I as [Ok [K [D [W [LO [R [Sk E]]]]]]].
      unfold lines_ok in LO. unfold pending in Sk. rewrite EL in LO, Sk. destruct LO as [L2 LC].
      destruct more as [|l1 more]; [cbn in L2; lia|].
      change (removelast (l0 :: l1 :: more)) with (l0 :: removelast (l1 :: more)) in LC.
      inversion LC as [|? ? C0 LC']; subst.
      cbn [concat] in Sk. rewrite <- app_assoc in Sk.
      assert (Kl : k + length l0 <= length C).
      { apply (f_equal (@length N)) in Sk. rewrite skipn_length, app_length in Sk. lia. }
      assert (Rest : skipn (k + length l0) C = concat (l1 :: more) ++ R).
      { rewrite skipn_add, Sk, skipn_app, skipn_all, Nat.sub_diag. reflexivity. }
      destruct more as [|l2 more]; cbn [fst snd].
      + split; [rewrite Sk; symmetry; now apply take_line_complete|].
        unfold RI, lines_ok, pending. cbn [ef_rd ef_stream rd_ok rd_bytes rd_lines rd_chars].
        repeat split; auto.
        exists R. split; [|exact E]. rewrite Rest. cbn. now rewrite app_nil_r.
      + split; [rewrite Sk; symmetry; now apply take_line_complete|].
        unfold RI, lines_ok, pending. cbn [ef_rd ef_stream rd_ok rd_bytes rd_lines rd_chars].
        repeat split; auto.
        * cbn [length]. lia.
        * exists R. split; [exact Rest|exact E].
    - assert (K : k <= length C) by (destruct I as [_ [K _]]; exact K).
      destruct (rl_loop_spec k (S (S (length (rest (ef_stream e)) + length (rd_chars (ef_rd e)) + length (rd_bytes (ef_rd e))))) e [] 72) as [A B].
      + cbn [length]. now rewrite Nat.add_0_r.
      + cbn [length app]. now rewrite Nat.add_0_r.
      + lia.
      + (* the fuel covers every character still to come *)
        destruct I as [Ok [_ [D [W [LO [R [Sk E]]]]]]].
        unfold pending in Sk. rewrite EL in Sk.
        apply (f_equal (@length N)) in Sk. rewrite skipn_length, app_length in Sk.
        pose proof (enc_length R) as LR. rewrite E, app_length in LR.
        cbn [length]. rewrite Nat.add_0_r. lia.
      + split; assumption.
  Qed.
End Readline.
