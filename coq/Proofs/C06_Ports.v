(* C06: every port 0..65535 is well-formed in the sense of C06_Round.port_wf - structurally:
   str(n) is a non-empty string of ASCII digits with at most as many digits as n has bits, int() strips
   nothing from it, finds no sign and no underscore, and N.of_uint inverts N.to_uint. *)
From Boltons Require Import Lib.Prelude Lib.C06_Text Spec.C06_Spec Model.C06_Model
  Proofs.C06_Codec Proofs.C06_Round.
From Coq Require Import ZifyBool DecimalN DecimalPos DecimalFacts.
Open Scope N_scope.

(* ---- digit strings ---------------------------------------------------------------------------- *)
Lemma digits_all_digit u : forallb is_digit (digits_of_uint u) = true.
Proof. induction u; cbn [digits_of_uint forallb]; try reflexivity; rewrite IHu; reflexivity. Qed.

Lemma uint_of_digits_of u : uint_of_digits (digits_of_uint u) = Some u.
Proof. induction u; cbn [digits_of_uint uint_of_digits]; try reflexivity; rewrite IHu; reflexivity. Qed.

Lemma digits_length u : length (digits_of_uint u) = Decimal.nb_digits u.
Proof. induction u; cbn [digits_of_uint length Decimal.nb_digits]; try reflexivity; rewrite IHu; reflexivity. Qed.

Lemma digit_facts c : is_digit c = true ->
  int_space c = false /\ (c =? 45) = false /\ (c =? 43) = false /\ (c =? 95) = false /\
  is_ascii c = true /\ not_in [64; 47; 63; 35; 93] c = true.
Proof.
  unfold is_digit, int_space, is_ascii, not_in. cbn [memN]. intro H.
  repeat split; lia.
Qed.

Lemma forallb_impl {A} (p q : A -> bool) l : (forall x, p x = true -> q x = true) -> forallb p l = true -> forallb q l = true.
Proof. intros I H. rewrite forallb_forall in *. intros x Hx. apply I, H, Hx. Qed.

Lemma lstrip_digit ds : match ds with c :: _ => is_digit c = true | [] => True end -> lstrip int_space ds = ds.
Proof. destruct ds as [|c r]; [reflexivity|]. intro H. cbn [lstrip]. destruct (digit_facts c H) as [S _]. rewrite S. reflexivity. Qed.

Lemma forallb_rev {A} (p : A -> bool) l : forallb p l = true -> forallb p (rev l) = true.
Proof. intro H. rewrite forallb_forall in *. intros x Hx. apply H. apply in_rev. exact Hx. Qed.

Lemma strip_digits ds : forallb is_digit ds = true -> strip int_space ds = ds.
Proof.
  intro H. unfold strip. rewrite (lstrip_digit ds).
  - rewrite (lstrip_digit (rev ds)); [apply rev_involutive|].
    pose proof (forallb_rev _ _ H) as R. destruct (rev ds) as [|c r]; [exact I|].
    cbn [forallb] in R. apply andb_true_iff in R as [R _]. exact R.
  - destruct ds as [|c r]; [exact I|]. cbn [forallb] in H. apply andb_true_iff in H as [H _]. exact H.
Qed.

Lemma drop_underscores_digits ds : forallb is_digit ds = true -> drop_underscores true ds = Some ds.
Proof.
  induction ds as [|c r IH]; intro H; [reflexivity|].
  cbn [forallb] in H. apply andb_true_iff in H as [Hc Hr].
  cbn [drop_underscores]. destruct (digit_facts c Hc) as [_ [_ [_ [U _]]]]. rewrite U, Hc, (IH Hr). reflexivity.
Qed.

Lemma sign_digit (c : N) (r : text) : is_digit c = true ->
  (match c :: r with 45 :: r' => (true, r') | 43 :: r' => (false, r') | _ => (false, c :: r) end) = (false, c :: r).
Proof.
  intro H. unfold is_digit in H.
  assert (E : c = 48 \/ c = 49 \/ c = 50 \/ c = 51 \/ c = 52 \/ c = 53 \/ c = 54 \/ c = 55 \/ c = 56 \/ c = 57) by lia.
  repeat (destruct E as [E|E]; [subst c; reflexivity|]). subst c. reflexivity.
Qed.

(* int() of a non-empty digit string of at most 4300 digits *)
Lemma py_int_digits u :
  u <> Decimal.Nil -> (Decimal.nb_digits u <= 4300)%nat ->
  py_int (digits_of_uint u) = Some (Z.of_N (N.of_uint u)).
Proof.
  intros NE L. unfold py_int. rewrite (strip_digits _ (digits_all_digit u)).
  pose proof (digits_all_digit u) as D. pose proof (digits_length u) as LEN.
  destruct (digits_of_uint u) as [|c r] eqn:E.
  { exfalso. destruct u; try discriminate. apply NE. reflexivity. }
  cbn [forallb] in D. apply andb_true_iff in D as [Dc Dr].
  assert (LT : Nat.ltb INT_MAX_STR_DIGITS (length (c :: r)) = false).
  { apply Nat.ltb_ge. rewrite LEN. exact L. }
  assert (UD : uint_of_digits (c :: r) = Some u) by (rewrite <- E; apply uint_of_digits_of).
  assert (E10 : c = 48 \/ c = 49 \/ c = 50 \/ c = 51 \/ c = 52 \/ c = 53 \/ c = 54 \/ c = 55 \/ c = 56 \/ c = 57)
    by (unfold is_digit in Dc; lia).
  repeat (destruct E10 as [E10|E10];
          [subst c; cbn [drop_underscores N.eqb Pos.eqb is_digit N.leb N.compare Pos.compare Pos.compare_cont andb];
           rewrite (drop_underscores_digits r Dr), LT, UD; reflexivity|]).
  subst c. cbn [drop_underscores N.eqb Pos.eqb is_digit N.leb N.compare Pos.compare Pos.compare_cont andb].
  rewrite (drop_underscores_digits r Dr), LT, UD. reflexivity.
Qed.

(* ---- a decimal numeral has at most as many digits as the number has bits ------------------------- *)
Lemma double_digits d :
  (Decimal.nb_digits (Decimal.Little.double d) <= S (Decimal.nb_digits d))%nat /\
  (Decimal.nb_digits (Decimal.Little.succ_double d) <= S (Decimal.nb_digits d))%nat.
Proof. induction d; cbn [Decimal.Little.double Decimal.Little.succ_double Decimal.nb_digits]; try (destruct IHd as [A B]); split; lia. Qed.

Lemma little_digits p : (Decimal.nb_digits (Pos.to_little_uint p) <= Pos.size_nat p)%nat.
Proof.
  induction p as [p IH|p IH|]; cbn [Pos.to_little_uint Pos.size_nat].
  - pose proof (proj2 (double_digits (Pos.to_little_uint p))). lia.
  - pose proof (proj1 (double_digits (Pos.to_little_uint p))). lia.
  - cbn. lia.
Qed.

Lemma size_nat_bound (k : nat) : forall p, N.pos p < 2 ^ N.of_nat k -> (Pos.size_nat p <= k)%nat.
Proof.
  induction k as [|k IH]; intros p H.
  - cbn in H. lia.
  - rewrite Nat2N.inj_succ, N.pow_succ_r' in H.
    destruct p as [p|p|]; cbn [Pos.size_nat]; [| |lia].
    + assert (N.pos p < 2 ^ N.of_nat k) by lia. specialize (IH p H0). lia.
    + assert (N.pos p < 2 ^ N.of_nat k) by lia. specialize (IH p H0). lia.
Qed.

Lemma to_uint_digits n : n < 2 ^ 4300 -> (Decimal.nb_digits (N.to_uint n) <= 4300)%nat.
Proof.
  intro H. destruct n as [|p]; [cbn; lia|].
  cbn [N.to_uint]. unfold Pos.to_uint. rewrite nb_digits_rev.
  pose proof (little_digits p). pose proof (size_nat_bound 4300 p).
  assert (N.of_nat 4300 = 4300) by reflexivity. rewrite H2 in H1. specialize (H1 H). lia.
Qed.

Lemma to_uint_nonnil n : N.to_uint n <> Decimal.Nil.
Proof. destruct n as [|p]; [discriminate|apply Unsigned.to_uint_nonnil]. Qed.

(* ---- ports ----------------------------------------------------------------------------------------- *)
Theorem port_check_bits n : n < 2 ^ 4300 -> port_check n = true.
Proof.
  intro H. unfold port_check, str_of_N.
  rewrite (py_int_digits (N.to_uint n) (to_uint_nonnil n) (to_uint_digits n H)).
  rewrite DecimalN.Unsigned.of_to, Z.eqb_refl. cbn [andb].
  pose proof (digits_all_digit (N.to_uint n)) as D.
  unfold all_ascii. rewrite (forallb_impl _ is_ascii _ (fun c Hc => proj1 (proj2 (proj2 (proj2 (proj2 (digit_facts c Hc)))))) D).
  rewrite (forallb_impl _ (not_in [64; 47; 63; 35; 93]) _ (fun c Hc => proj2 (proj2 (proj2 (proj2 (proj2 (digit_facts c Hc)))))) D).
  rewrite D. reflexivity.
Qed.

Theorem port_wf_range p : (0 <= p < 65536)%Z -> port_wf (Some p) = true.
Proof.
  intro H. cbn [port_wf]. apply andb_true_iff. split; [apply Z.leb_le; lia|].
  apply port_check_bits.
  assert (E : 65536 = 2 ^ 16) by reflexivity.
  assert (Z.to_N p < 2 ^ 16) by (rewrite <- E; lia).
  eapply N.lt_le_trans; [exact H0|]. apply N.pow_le_mono_r; lia.
Qed.
