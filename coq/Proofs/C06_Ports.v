(* C06: every port 0..65535 is well-formed in the sense of C06_Round.port_wf (its decimal rendering
   is read back by int(), is ASCII digits only).  Exhaustive computation over the 65536 values with
   vm_compute; kept out of the dependency cone of Props/C06.v because coqchk, which has no VM,
   needs more than half an hour for it. *)
From Boltons Require Import Lib.Prelude Lib.C06_Text Spec.C06_Spec Model.C06_Model
  Proofs.C06_Codec Proofs.C06_Round.
From Coq Require Import ZifyBool.
Open Scope N_scope.

Lemma port_check_all : forallb port_check (range 65536) = true.
Proof. vm_compute. reflexivity. Qed.

Theorem port_wf_range p : (0 <= p < 65536)%Z -> port_wf (Some p) = true.
Proof.
  intro H. cbn [port_wf]. apply andb_true_iff. split; [apply Z.leb_le; lia|].
  assert (L : Z.to_N p < 65536) by lia.
  exact (forallb_range 65536 _ port_check_all (Z.to_N p) L).
Qed.
