(* The oracle laws assumed by the JSONL theorems hold for the concrete json.loads fragment the
   correspondence check uses (Check.mini_loads, and loads_bytes mini_loads on bytes): a trailing
   \n or \r\n changes nothing.  Shows the hypotheses of C19_jsonl* are inhabited by a real oracle. *)
From Coq Require Import ZArith List Bool Lia ZifyBool.
From Boltons Require Import Lib.Prelude Lib.C19_Utf8 Spec.C19_Spec Model.C19_Model Check.C19_Check
     Proofs.C19_Jsonl.
Open Scope N_scope.

Lemma strip_ws_term s term : term <> [] -> forallb is_json_ws term = true ->
  strip_ws (s ++ term) = strip_ws s.
Proof.
  intros N0 W. unfold strip_ws, lstrip_ws.
  rewrite (lstrip_app_ws is_json_ws s term W).
  destruct (lstrip is_json_ws s) as [|x r] eqn:E; [reflexivity|].
  rewrite rev_app_distr.
  assert (G : forall u v, forallb is_json_ws u = true -> lstrip is_json_ws (u ++ v) = lstrip is_json_ws v).
  { induction u as [|a u IH]; intros v H; [reflexivity|]. cbn [forallb] in H.
    apply andb_true_iff in H as [Ha Hu]. cbn [app lstrip]. rewrite Ha. apply IH. exact Hu. }
  rewrite G; [reflexivity|].
  rewrite forallb_forall in *. intros y I. apply W. apply in_rev. exact I.
Qed.

Lemma mini_loads_strip t u : strip_ws t = strip_ws u -> mini_loads t = mini_loads u.
Proof. intros H. unfold mini_loads. rewrite H. reflexivity. Qed.

Theorem mini_loads_lf : forall s, mini_loads (s ++ [LF]) = mini_loads s.
Proof. intros s. apply mini_loads_strip. apply strip_ws_term; [discriminate|reflexivity]. Qed.

Theorem mini_loads_crlf : forall s, mini_loads (s ++ [CR; LF]) = mini_loads s.
Proof. intros s. apply mini_loads_strip. apply strip_ws_term; [discriminate|reflexivity]. Qed.

(* appending an ASCII byte to a byte string appends the character to its decoding *)
Lemma dec_snoc b : b < 128 -> forall n s, (length s <= n)%nat ->
  utf8_decode (s ++ [b]) = option_map (fun t => t ++ [b]) (utf8_decode s).
Proof.
  intros Hb.
  assert (Cb : is_cont b = false) by (unfold is_cont; lia).
  induction n as [|n IH]; intros s L.
  - destruct s; [|cbn in L; lia]. cbn [app utf8_decode]. destruct (b <? 128) eqn:E; [reflexivity|lia].
  - destruct s as [|b0 r0].
    { cbn [app utf8_decode]. destruct (b <? 128) eqn:E; [reflexivity|lia]. }
    cbn [length] in L. cbn [app utf8_decode].
    destruct (b0 <? 128).
    { rewrite IH by lia. destruct (utf8_decode r0); reflexivity. }
    destruct ((194 <=? b0) && (b0 <=? 223)).
    { destruct r0 as [|b1 r1]; cbn [app].
      - rewrite Cb. reflexivity.
      - cbn [length] in L. destruct (is_cont b1); [|reflexivity].
        rewrite IH by lia. destruct (utf8_decode r1); reflexivity. }
    destruct ((224 <=? b0) && (b0 <=? 239)).
    { destruct r0 as [|b1 [|b2 r2]]; cbn [app]; [reflexivity| |].
      - rewrite Cb, andb_false_r. reflexivity.
      - cbn [length] in L.
        destruct (is_cont b1 && is_cont b2 && (negb (b0 =? 224) || (160 <=? b1)) && (negb (b0 =? 237) || (b1 <=? 159)));
          [|reflexivity].
        rewrite IH by lia. destruct (utf8_decode r2); reflexivity. }
    destruct ((240 <=? b0) && (b0 <=? 244)); [|reflexivity].
    destruct r0 as [|b1 [|b2 [|b3 r3]]]; cbn [app]; [reflexivity|reflexivity| |].
    + rewrite Cb, andb_false_r. reflexivity.
    + cbn [length] in L.
      destruct (is_cont b1 && is_cont b2 && is_cont b3 && (negb (b0 =? 240) || (144 <=? b1))
                && (negb (b0 =? 244) || (b1 <=? 143))); [|reflexivity].
      rewrite IH by lia. destruct (utf8_decode r3); reflexivity.
Qed.

Lemma decode_snoc b s : b < 128 -> utf8_decode (s ++ [b]) = option_map (fun t => t ++ [b]) (utf8_decode s).
Proof. intros H. apply (dec_snoc b H (length s)). lia. Qed.

Theorem mini_bytes_lf : forall s, loads_bytes mini_loads (s ++ [LF]) = loads_bytes mini_loads s.
Proof.
  intros s. unfold loads_bytes. rewrite decode_snoc by reflexivity.
  destruct (utf8_decode s); [apply mini_loads_lf|reflexivity].
Qed.

Theorem mini_bytes_crlf : forall s, loads_bytes mini_loads (s ++ [CR; LF]) = loads_bytes mini_loads s.
Proof.
  intros s. unfold loads_bytes.
  replace (s ++ [CR; LF]) with ((s ++ [CR]) ++ [LF]) by (rewrite <- app_assoc; reflexivity).
  rewrite !decode_snoc by reflexivity.
  destruct (utf8_decode s) as [t|]; [|reflexivity]. cbn [option_map].
  rewrite <- app_assoc. apply mini_loads_crlf.
Qed.

(* JSON white space of the check's json.loads fragment, as a literal table *)
Lemma json_space_table : forall c, is_json_ws c = existsb (N.eqb c) [9; 10; 13; 32].
Proof. intros c. unfold is_json_ws. cbn [existsb]. lia. Qed.
