(* Mixed-case scheme / host in the base.  navigate() lower-cases them (RFC 3986
   6.2.2.1), the 5.2 algorithm copies them verbatim; spec_navigate compares
   modulo that case folding.  Here: the model treats a base exactly like its
   lower-cased twin, the RFC transformation commutes with case folding of the
   base, hence C07_navigate extends to mixed-case bases. *)
From Boltons Require Import Lib.Prelude Lib.C07_Str Spec.C07_Spec Gen.C07_Gen Model.C07_Model
     Proofs.C07_StrLemmas Proofs.C07_Rds Proofs.C07_Resolve Proofs.C07_Parse Proofs.C07_Navigate.
Open Scope N_scope.

(* ---- the model: a base and its lower-cased twin ------------------------------------------ *)
Definition lc (b : url) : url :=
  mkUrl (lower (u_scheme b)) (u_sep b) (u_user b) (u_pass b) (lower (u_host b)) (u_port b)
        (u_path b) (u_query b) (u_frag b).

Lemma nonempty_lower s : nonempty (lower s) = nonempty s.
Proof. destruct s; reflexivity. Qed.

Lemma or_str_lower a s : lower (or_str a (lower s)) = lower (or_str a s).
Proof. unfold or_str. destruct (nonempty a); [reflexivity | apply lower_idem]. Qed.

Lemma navigate_rel_lc b r : navigate_rel (lc b) r = navigate_rel b r.
Proof.
  unfold navigate_rel, lc. cbn [u_scheme u_host u_path u_query u_user u_pass u_port].
  rewrite nonempty_lower.
  destruct (if nonempty (path_text r) then _ else _) as [np q].
  unfold normalize, from_parts. cbn [u_scheme u_host u_path u_sep u_user u_pass u_port u_query u_frag].
  rewrite !or_str_lower. reflexivity.
Qed.

Lemma navigate_url_lc b d : navigate_url (lc b) d = navigate_url b d.
Proof. unfold navigate_url. destruct (is_absolute_dest d); [reflexivity | apply navigate_rel_lc]. Qed.

(* ---- the Spec: case folding of the base commutes with 5.2.2 ---------------------------- *)
Lemma merge_norm_case B p : merge (norm_case B) p = merge B p.
Proof. unfold merge, norm_case. cbn [authority path]. destruct (authority B); reflexivity. Qed.

Lemma transform_fold_base B R : scheme R = None -> authority R = None ->
  transform (norm_case B) R = option_map norm_case (transform B R).
Proof.
  intros Hs Ha. unfold transform, transform_gen. rewrite Hs, Ha, merge_norm_case.
  change (path (norm_case B)) with (path B).
  destruct (path R) as [|c p].
  - destruct (remove_dot_segments (path B)); reflexivity.
  - destruct (remove_dot_segments (if c =? SL then c :: p else merge B (c :: p))); reflexivity.
Qed.

Lemma transform_keeps_sa B R T : scheme R = None -> authority R = None -> transform B R = Some T ->
  scheme T = scheme B /\ authority T = authority B.
Proof.
  intros Hs Ha. unfold transform, transform_gen. rewrite Hs, Ha.
  destruct (path R) as [|c p].
  - destruct (remove_dot_segments (path B)); [|discriminate]. intro E. inversion E. split; reflexivity.
  - destruct (remove_dot_segments _); [|discriminate]. intro E. inversion E. split; reflexivity.
Qed.

Lemma transform_abs_ref B B' R s : scheme R = Some s -> transform B R = transform B' R.
Proof. intro Hs. unfold transform, transform_gen. rewrite Hs. reflexivity. Qed.

Lemma norm_case_root u : norm_case (root_if_empty u) = root_if_empty (norm_case u).
Proof.
  destruct u as [s a p q f]. unfold root_if_empty, norm_case. cbn [scheme authority path query fragment option_map].
  destruct a; [destruct p|]; reflexivity.
Qed.

(* well-formedness does not look at the case of scheme and authority, only at
   their character classes: swap them between two tuples *)
Lemma wf_uri_swap u s a : wf_uri u ->
  scheme u <> None -> authority u <> None ->
  s <> [] -> forallb (not_in [COLON; SL; QM; HASH]) s = true ->
  forallb (not_in [SL; QM; HASH]) a = true ->
  wf_uri (mkUri (Some s) (Some a) (path u) (query u) (fragment u)).
Proof.
  intros W Hs Ha Hne Hsc Hac. constructor; cbn [scheme authority path query fragment].
  - split; assumption.
  - exact Hac.
  - exact (wf_path u W).
  - pose proof (wf_path_auth u W) as H. destruct (authority u); [exact H | contradiction].
  - exact I.
  - exact (wf_query u W).
Qed.

(* ---- mixed-case bases ------------------------------------------------------------------------- *)
(* b may spell scheme and host in any case; its lower-cased twin is a
   well-formed base, and the rendered authority of the twin is the case-folded
   rendered authority of b (this excludes a port that is the default of the
   lower-case scheme only: to_text would then drop it from the twin) *)
Record wf_base_mc (b : url) : Prop := {
  mc_twin : wf_base (lc b);
  mc_scheme_chars : forallb (not_in [COLON; SL; QM; HASH]) (u_scheme b) = true;
  mc_auth_chars : forallb (not_in [SL; QM; HASH]) (authority_text b) = true;
  mc_auth_fold : authority_text (lc b) = lower_host (authority_text b) }.

Lemma mc_scheme_ne b : wf_base_mc b -> u_scheme b <> [].
Proof.
  intros W E. pose proof (wb_scheme_ne _ (mc_twin b W)) as H. cbn [lc u_scheme] in H. rewrite E in H.
  apply H. reflexivity.
Qed.

Lemma mc_host_ne b : wf_base_mc b -> u_host b <> [].
Proof.
  intros W E. pose proof (wb_host_ne _ (mc_twin b W)) as H. cbn [lc u_host] in H. rewrite E in H.
  apply H. reflexivity.
Qed.

Lemma mc_facts b : wf_base_mc b ->
  exists segs, u_path b = [] :: segs /\
    uri_of b = mkUri (Some (u_scheme b)) (Some (authority_text b)) (abs_path segs)
                     (opt (query_text (u_query b))) (opt (u_frag b)) /\
    uri_of (lc b) = norm_case (uri_of b) /\
    to_text b = recompose (uri_of b) /\ wf_uri (uri_of b).
Proof.
  intro W. pose proof (mc_twin b W) as Wl.
  destruct (base_facts _ Wl) as (segs & Hp & Hs & Hu & _ & Ul). cbn [lc u_path] in Hp.
  exists segs. split; [exact Hp|].
  assert (Hsegs : Forall seg_ok (u_path b)) by exact (wb_segs _ Wl).
  assert (Hpt : path_text b = abs_path segs).
  { rewrite (path_text_join b Hsegs), Hp. apply join_rooted. }
  assert (Hub : uri_of b = mkUri (Some (u_scheme b)) (Some (authority_text b)) (abs_path segs)
                     (opt (query_text (u_query b))) (opt (u_frag b))).
  { pose proof (wb_frag _ Wl) as Hf. cbn [lc u_frag] in Hf.
    unfold uri_of. rewrite Hpt, (quote_frag_id _ Hf), (opt_some _ (mc_scheme_ne b W)).
    unfold opt at 1. rewrite (authority_nonempty b (mc_host_ne b W)). reflexivity. }
  split; [exact Hub|]. split.
  - rewrite Hu, Hub. unfold norm_case. cbn [scheme authority path query fragment option_map lc u_scheme u_query u_frag].
    rewrite (mc_auth_fold b W). reflexivity.
  - split.
    + apply to_text_abs.
      * apply nonempty_true, (mc_scheme_ne b W).
      * apply authority_nonempty, (mc_host_ne b W).
      * rewrite Hpt. destruct (tail_ok_abs segs) as [E|[t E]]; [left|right; exists t]; exact E.
    + rewrite Hub. rewrite Hu in Ul. cbn [lc u_query u_frag] in Ul.
      apply (wf_uri_swap _ (u_scheme b) (authority_text b) Ul); cbn [scheme authority];
        try discriminate; [exact (mc_scheme_ne b W) | exact (mc_scheme_chars b W) | exact (mc_auth_chars b W)].
Qed.

Lemma fold_case_recompose u : wf_uri u -> fold_case (recompose u) = recompose (norm_case u).
Proof. intro W. unfold fold_case. rewrite (parse_recompose u W). reflexivity. Qed.

(* norm_case is the identity on the components of a lower-case base *)
Lemma norm_case_wf_base n : wf_base n -> norm_case (uri_of n) = uri_of n.
Proof.
  intro W. destruct (base_facts n W) as (segs & _ & _ & Hu & _). rewrite Hu.
  unfold norm_case. cbn [scheme authority path query fragment option_map].
  rewrite (wb_scheme_lower n W), (wb_auth_lower n W). reflexivity.
Qed.

Lemma wf_uri_root u : wf_uri u -> wf_uri (root_if_empty u).
Proof.
  intro W. destruct u as [s a p q f]. unfold root_if_empty. cbn [authority path].
  destruct a as [a|]; [|exact W]. destruct p; [|exact W].
  pose proof (wf_scheme _ W) as H1. pose proof (wf_auth _ W) as H2. pose proof (wf_query _ W) as H6.
  cbn [scheme authority path query fragment] in *.
  constructor; cbn [scheme authority path query fragment]; try assumption.
  - reflexivity.
  - right. eexists. reflexivity.
  - destruct s; exact I.
Qed.

Theorem navigate_mixed_case b d : wf_base_mc b -> wf_ref d ->
  spec_navigate (to_text b) (to_text d) (to_text (navigate_url b d)) = true.
Proof.
  intros W Wd. pose proof (mc_twin b W) as Wl.
  destruct (mc_facts b W) as (segs & Hp & Hub & Hfold & Tb & Ub).
  destruct (ref_facts d Wd) as (Hud & Td & Ud).
  pose proof (navigate_rel_wf (lc b) d Wl Wd) as Wn.
  destruct (base_facts _ Wn) as (_ & _ & _ & _ & Tn & Un).
  pose proof (nav_transform (lc b) d Wl Wd) as NT. rewrite Hfold in NT.
  assert (Rs : scheme (uri_of d) = None /\ authority (uri_of d) = None) by (rewrite Hud; split; reflexivity).
  destruct Rs as [Rs Ra]. rewrite (transform_fold_base _ _ Rs Ra) in NT.
  destruct (transform (uri_of b) (uri_of d)) as [T|] eqn:ET; [|discriminate].
  cbn [option_map] in NT.
  assert (NT' : norm_case T = uri_of (navigate_rel (lc b) d)).
  { apply (f_equal (fun o => match o with Some x => x | None => norm_case T end)) in NT. exact NT. }
  clear NT.
  destruct (transform_keeps_sa _ _ _ Rs Ra ET) as [Ts Ta]. rewrite Hub in Ts, Ta. cbn [scheme authority] in Ts, Ta.
  unfold spec_navigate, target. rewrite Tb, Td, (parse_recompose _ Ub), (parse_recompose _ Ud), ET.
  unfold navigate_url. rewrite (wf_ref_relative d Wd), <- (navigate_rel_lc b d).
  rewrite Tn, (canon_recompose _ Un).
  (* left: fold (recompose (root Un)) = recompose (root Un) *)
  rewrite (fold_case_recompose _ (wf_uri_root _ Un)), norm_case_root, (norm_case_wf_base _ Wn).
  (* right: fold (recompose (root T)) = recompose (root (norm_case T)) = recompose (root Un) *)
  assert (WT : wf_uri (root_if_empty T)).
  { assert (ET' : root_if_empty T =
                  mkUri (Some (u_scheme b)) (Some (authority_text b)) (path (root_if_empty (uri_of (navigate_rel (lc b) d))))
                        (query (root_if_empty (uri_of (navigate_rel (lc b) d)))) (fragment (root_if_empty (uri_of (navigate_rel (lc b) d))))).
    { rewrite <- NT'. destruct T as [ts ta tp tq tf]. cbn [scheme authority] in Ts, Ta. subst ts ta.
      unfold root_if_empty, norm_case. cbn [scheme authority path query fragment option_map].
      destruct tp; reflexivity. }
    rewrite ET'. apply wf_uri_swap.
    - apply wf_uri_root, Un.
    - rewrite <- NT'. destruct T as [ts ta tp tq tf]. cbn [scheme] in Ts. subst ts.
      unfold root_if_empty, norm_case. cbn. destruct (option_map lower_host ta); [destruct tp|]; discriminate.
    - rewrite <- NT'. destruct T as [ts ta tp tq tf]. cbn [authority] in Ta. subst ta.
      unfold root_if_empty, norm_case. cbn. destruct tp; discriminate.
    - exact (mc_scheme_ne b W).
    - exact (mc_scheme_chars b W).
    - exact (mc_auth_chars b W). }
  rewrite (fold_case_recompose _ WT), norm_case_root, NT'. apply str_eqb_refl.
Qed.

(* the result, and everything after it, is that of the lower-cased twin *)
Theorem navigate_mixed_case_twin b d : navigate_url b d = navigate_url (lc b) d.
Proof. symmetry. apply navigate_url_lc. Qed.

(* ---- an inhabitant ------------------------------------------------------------------------------ *)
From Coq Require Import String.
From Boltons Require Import Proofs.C07_RfcExamples Proofs.C07_Text.
Open Scope list_scope.

Definition ex_mixed : url := or_dummy (url_of_text (codes "HTTP://U:p@Example.COM:8080/B/c/../D?Q=1#F")).

Lemma ex_mixed_ok : wf_base_mc ex_mixed /\ u_scheme ex_mixed = codes "HTTP" /\
  to_text (navigate_url ex_mixed ex_ref1) = codes "http://U:p@example.com:8080/g//?y=2#s".
Proof.
  split; [|vm_compute; split; reflexivity].
  constructor; [wf_concrete | vm_compute; reflexivity ..].
Qed.
