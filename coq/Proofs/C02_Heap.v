(* C02: histories over the heap of caches (original + copies): invariant for
   every reachable cache and "agree implies holds". *)
From Boltons Require Import Lib.Prelude Lib.C02_Syntax Spec.C02_Spec Model.C02_Model
  Proofs.C02_Lists Proofs.C02_Eqb Proofs.C02_Inv Proofs.C02_Refine.
Close Scope N_scope.
Open Scope nat_scope.

(* ---- list plumbing ---------------------------------------------------------- *)
Lemma nth_error_map' {A B} (f : A -> B) l i : nth_error (map f l) i = option_map f (nth_error l i).
Proof. revert i. induction l; destruct i; simpl; auto. Qed.

Lemma upd_nth_map {A B} (f : A -> B) i x l : upd_nth i (f x) (map f l) = map f (upd_nth i x l).
Proof. revert i. induction l; destruct i; simpl; auto. now rewrite IHl. Qed.

Lemma upd_nth_Forall {A} (P : A -> Prop) i x l : Forall P l -> P x -> Forall P (upd_nth i x l).
Proof.
  revert i. induction l; intros i F Px; destruct i; simpl; auto; inversion F; subst; constructor; auto.
Qed.

Lemma nth_upd_nth {A} i (x d : A) l y : nth_error l i = Some y -> nth i (upd_nth i x l) d = x.
Proof. revert i. induction l; destruct i; simpl; intro H; try discriminate; auto. Qed.

Lemma nth_error_Forall {A} (P : A -> Prop) l i x : Forall P l -> nth_error l i = Some x -> P x.
Proof. intros F H. rewrite Forall_forall in F. apply F. eapply nth_error_In; eauto. Qed.

Lemma nth_error_nth' {A} (l : list A) i x d : nth_error l i = Some x -> nth i l d = x.
Proof. revert i. induction l; destruct i; simpl; intro H; try discriminate; auto. congruence. Qed.

Lemma nth_snoc {A} (l : list A) x d : nth (length l) (l ++ [x]) d = x.
Proof. induction l; simpl; auto. Qed.

Lemma length_upd_nth {A} i (x : A) l : length (upd_nth i x l) = length l.
Proof. revert i. induction l; destruct i; simpl; auto. Qed.

(* ---- assignments of fresh keys below capacity just append -------------------- *)
Lemma r_sets_fresh c l : forall r,
  NoDup (keys (r_items r ++ l)) -> length (r_items r ++ l) <= c_max c ->
  r_sets c r l = r_with_items r (r_items r ++ l).
Proof.
  induction l as [|[k v] rest IH]; intros r ND LE.
  - unfold r_sets. simpl. rewrite app_nil_r. destruct r; reflexivity.
  - unfold r_sets in *. simpl.
    assert (Hk : ~ In k (keys (r_items r))).
    { rewrite keys_app in ND. apply NoDup_remove_2 in ND. rewrite in_app_iff in ND. tauto. }
    assert (E : r_set c r k v = r_with_items r (r_items r ++ [(k, v)])).
    { unfold r_set, items_set. apply d_mem_false_iff in Hk. rewrite Hk.
      rewrite app_length in LE. simpl in LE.
      destruct (Nat.ltb_spec (length (r_items r)) (c_max c)); [reflexivity|lia]. }
    rewrite E. rewrite IH.
    + unfold r_with_items. simpl. now rewrite <- app_assoc.
    + simpl. now rewrite <- app_assoc.
    + simpl. now rewrite <- app_assoc.
Qed.

(* ---- what obs_agree gives ---------------------------------------------------- *)
Lemma obs_agree_fields mo ob :
  obs_agree mo ob = true ->
  o_out ob = o_out mo /\ o_len ob = o_len mo /\ o_hit ob = o_hit mo /\ o_miss ob = o_miss mo
  /\ o_soft ob = o_soft mo /\ o_calls ob = o_calls mo
  /\ (forall l, o_items ob = Some l -> o_items mo = Some l).
Proof.
  unfold obs_agree. rewrite !andb_true_iff. intros [[[[[[H1 H2] H3] H4] H5] H6] H7].
  apply res_eqb_eq in H1. apply Nat.eqb_eq in H2. apply N.eqb_eq in H3, H4, H5.
  apply (list_eqb_eq Nat.eqb Nat.eqb_eq) in H6.
  repeat split; try congruence.
  intros l E. rewrite E in H7. destruct (o_items mo) as [l'|]; simpl in H7; [|discriminate].
  apply (list_eqb_eq kv_eqb kv_eqb_eq) in H7. congruence.
Qed.

Lemma firstn_app_exact {A} (new cb : list A) :
  firstn (length (new ++ cb) - length cb) (new ++ cb) = new.
Proof.
  rewrite app_length. replace (length new + length cb - length cb) with (length new + 0) by lia.
  rewrite firstn_app_2. simpl. apply app_nil_r.
Qed.

Lemma view_ok_model c m' cb new out ob :
  Inv c m' -> calls m' = new ++ cb ->
  obs_agree (observe cb m' out) ob = true -> view_ok c cb (abs m') ob = true.
Proof.
  intros [NR NS SAME LEN CAP SOFT] C AG.
  apply obs_agree_fields in AG as [_ [E2 [E3 [E4 [E5 [E6 E7]]]]]]. simpl in *.
  unfold view_ok. simpl. rewrite E2, E3, E4, E5, E6.
  rewrite !andb_true_iff. repeat split.
  - apply Nat.eqb_eq. assumption.
  - apply Nat.leb_le. lia.
  - apply N.eqb_refl.
  - apply N.eqb_refl.
  - apply N.eqb_refl.
  - apply N.leb_le. assumption.
  - apply (list_eqb_eq Nat.eqb Nat.eqb_eq). rewrite rev_involutive, C, firstn_app_exact. reflexivity.
  - destruct (o_items ob) as [l|]; [|reflexivity]. specialize (E7 l eq_refl). inversion E7; subst.
    now apply same_map_true.
Qed.

Lemma nth_error_upd_nth_ne {A} i j (x : A) l : i <> j -> nth_error (upd_nth i x l) j = nth_error l j.
Proof.
  revert i j. induction l; intros i j NE; destruct i, j; simpl; auto; try congruence.
Qed.

(* ---- c_i.update(c_j) ------------------------------------------------------------------ *)
Lemma getitem_present c m k :
  1 <= c_max c -> Inv c m -> In k (keys (ring m)) ->
  exists m' v, getitem c m k = (m', Ok v) /\ Inv c m'
    /\ r_lookup c (abs m) k = (abs m', Some v)
    /\ calls m' = calls m
    /\ (forall k', In k' (keys (ring m')) <-> In k' (keys (ring m))).
Proof.
  intros Hmax I Hk. pose proof I as [NR NS SAME LEN CAP SOFT].
  assert (G : exists v, d_get (ring m) k = Some v).
  { apply d_mem_iff in Hk. unfold d_mem in Hk. destruct (d_get (ring m) k); [eauto|discriminate]. }
  destruct G as [v G].
  destruct (getitem_sim c m k Hmax I) as [m' [ov [E [I' [L _]]]]].
  unfold r_lookup in L. simpl in L. rewrite G in L. inversion L as [[A1 A2 A3 A4 A5 A6]]. subst ov.
  exists m', v. split; [exact E|]. split; [exact I'|]. split.
  { unfold r_lookup. simpl. rewrite G. exact L. }
  split; [congruence|].
  intro k'. rewrite <- A1. destruct (c_cls c); [tauto|].
  rewrite keys_app, in_app_iff, in_keys_del by assumption. simpl.
  destruct (Nat.eq_dec k' k) as [->|NE]; [tauto|]. split; [intros [[_ H]|[H|[]]]; [assumption|congruence]|tauto].
Qed.

Lemma upd_from_sim c ks : forall mi mj,
  1 <= c_max c -> Inv c mi -> Inv c mj -> Forall (fun k => In k (keys (ring mj))) ks ->
  exists mi' mj', upd_from c mi mj ks = (mi', mj', Ok tt) /\ Inv c mi' /\ Inv c mj'
    /\ r_upd_from c (abs mi) (abs mj) ks = (abs mi', abs mj', Ok tt)
    /\ calls mi' = calls mi.
Proof.
  induction ks as [|k rest IH]; intros mi mj Hmax Ii Ij F; simpl.
  - exists mi, mj. split; [reflexivity|]. split; [assumption|]. split; [assumption|]. split; reflexivity.
  - inversion F as [|? ? Hk Fr]; subst.
    destruct (getitem_present c mj k Hmax Ij Hk) as [mj1 [v [Eg [Ij1 [L [_ KS]]]]]].
    rewrite Eg, L.
    destruct (setitem_sim c mi k v Hmax Ii) as [mi1 [Es [Ii1 [A [C _]]]]]. rewrite Es.
    assert (Fr' : Forall (fun k0 => In k0 (keys (ring mj1))) rest).
    { eapply Forall_impl; [|exact Fr]. intros a Ha. now apply KS. }
    destruct (IH mi1 mj1 Hmax Ii1 Ij1 Fr') as [mi' [mj' [E [I1 [I2 [R C']]]]]].
    exists mi', mj'. rewrite E. rewrite <- A, R.
    split; [reflexivity|]. split; [assumption|]. split; [assumption|]. split; [reflexivity|congruence].
Qed.

(* ---- one heap step -------------------------------------------------------------- *)
Lemma hstep_inv c h o :
  1 <= c_max c -> Forall (Inv c) h -> Forall (Inv c) (fst (fst (hstep c h o))).
Proof.
  intros Hmax F. destruct o as [i o1|i|i j|i j]; simpl.
  - destruct (nth_error h i) as [m|] eqn:N; [|assumption].
    destruct (step1_sim c m o1 Hmax (nth_error_Forall _ _ _ _ F N)) as [m' [out [E [I' _]]]].
    rewrite E. simpl. now apply upd_nth_Forall.
  - destruct (nth_error h i) as [m|] eqn:N; [|assumption].
    destruct (setitems_sim c (ring m) empty_cache Hmax (inv_empty c)) as [m' [E [I' _]]].
    unfold copy_cache. rewrite E. simpl. apply Forall_app. split; [assumption|]. now constructor.
  - destruct (nth_error h i); [destruct (nth_error h j)|]; assumption.
  - destruct (nth_error h i) as [mi|] eqn:Ni; [|assumption].
    destruct (nth_error h j) as [mj|] eqn:Nj; [|assumption].
    destruct (Nat.eqb_spec i j); [assumption|].
    pose proof (nth_error_Forall _ _ _ _ F Ni) as Ii. pose proof (nth_error_Forall _ _ _ _ F Nj) as Ij.
    assert (FK : Forall (fun k => In k (keys (ring mj))) (d_keys (store mj))).
    { apply Forall_forall. intros k Hk. apply d_mem_iff. rewrite <- (inv_mem c mj k Ij). now apply d_mem_iff. }
    destruct (upd_from_sim c _ mi mj Hmax Ii Ij FK) as [mi' [mj' [E [I1 [I2 _]]]]].
    rewrite E. simpl. apply upd_nth_Forall; [apply upd_nth_Forall|]; assumption.
Qed.

Lemma hobserve_sim c h o ob :
  1 <= c_max c -> Forall (Inv c) h -> valid_hop (length h) o = true ->
  obs_agree (snd (hobserve c h o)) ob = true ->
  spec_ok_step c (map abs h) o ob = Some (map abs (fst (hobserve c h o))).
Proof.
  intros Hmax F VAL AG. unfold hobserve in *. destruct o as [i o1|i|i j|i j]; simpl in *.
  - (* On i o1 *)
    apply Nat.ltb_lt in VAL. destruct (nth_error h i) as [m|] eqn:N;
      [|apply nth_error_None in N; lia].
    pose proof (nth_error_Forall _ _ _ _ F N) as I.
    destruct (step1_sim c m o1 Hmax I) as [m' [out [E [I' [ACC [new C]]]]]].
    rewrite E in *. simpl in *. rewrite (nth_upd_nth i m' empty_cache h m N) in AG.
    rewrite nth_error_map', N. simpl.
    pose proof (obs_agree_fields _ _ AG) as [EO _]. simpl in EO. rewrite EO.
    change (mkR (ring m) (hit m) (miss m) (soft m) (calls m)) with (abs m).
    rewrite ACC. change (r_calls (abs m)) with (calls m).
    rewrite (view_ok_model c m' (calls m) new out ob I' C AG).
    now rewrite upd_nth_map.
  - (* Copy i *)
    apply Nat.ltb_lt in VAL. destruct (nth_error h i) as [m|] eqn:N;
      [|apply nth_error_None in N; lia].
    pose proof (nth_error_Forall _ _ _ _ F N) as I. pose proof I as [NR NS SAME LEN CAP SOFT].
    destruct (setitems_sim c (ring m) empty_cache Hmax (inv_empty c))
      as [m' [E [I' [A [C [H0 [M0 S0]]]]]]].
    unfold copy_cache in *. rewrite E in *. simpl in *. rewrite nth_snoc in AG.
    rewrite nth_error_map', N. simpl.
    assert (A' : abs m' = mkR (ring m) 0 0 0 []).
    { rewrite A. change (abs empty_cache) with r_empty. rewrite r_sets_fresh; simpl; auto. }
    pose proof (obs_agree_fields _ _ AG) as [EO _]. simpl in EO. rewrite EO. simpl.
    rewrite <- A'. rewrite (view_ok_model c m' [] [] (Ok ONone) ob I' C AG).
    now rewrite map_app.
  - (* EqCache i j *)
    apply andb_true_iff in VAL as [V1 V2]. apply Nat.ltb_lt in V1, V2.
    destruct (nth_error h i) as [m|] eqn:N; [|apply nth_error_None in N; lia].
    destruct (nth_error h j) as [m2|] eqn:N2; [|apply nth_error_None in N2; lia].
    pose proof (nth_error_Forall _ _ _ _ F N) as I. pose proof I as [NR NS SAME LEN CAP SOFT].
    pose proof (nth_error_Forall _ _ _ _ F N2) as I2. pose proof I2 as [NR2 NS2 SAME2 LEN2 CAP2 SOFT2].
    simpl in *. rewrite (nth_error_nth' h i m empty_cache N) in AG.
    rewrite !nth_error_map', N, N2. simpl.
    pose proof (obs_agree_fields _ _ AG) as [EO _]. simpl in EO. rewrite EO.
    assert (EB : (if Nat.eqb i j then true else cache_eq m (store m2)) = same_map (ring m) (ring m2)).
    { destruct (Nat.eqb_spec i j).
      - subst j. rewrite N in N2. inversion N2; subst m2. symmetry. apply same_map_true; auto. intro; reflexivity.
      - rewrite (cache_eq_same_map c m (store m2) I). apply Bool.eq_true_iff_eq.
        rewrite !same_map_iff by assumption. split; intros H k.
        + rewrite <- SAME2. symmetry. apply H.
        + rewrite SAME2. symmetry. apply H. }
    rewrite EB, res_eqb_refl. simpl.
    change (mkR (ring m) (hit m) (miss m) (soft m) (calls m)) with (abs m).
    now rewrite (view_ok_model c m (calls m) [] _ ob I eq_refl AG).
  - (* UpdateFrom i j *)
    apply andb_true_iff in VAL as [V1 V2]. apply Nat.ltb_lt in V1, V2.
    destruct (nth_error h i) as [mi|] eqn:Ni; [|apply nth_error_None in Ni; lia].
    destruct (nth_error h j) as [mj|] eqn:Nj; [|apply nth_error_None in Nj; lia].
    pose proof (nth_error_Forall _ _ _ _ F Ni) as Ii. pose proof (nth_error_Forall _ _ _ _ F Nj) as Ij.
    pose proof Ij as [NRj NSj SAMEj LENj CAPj SOFTj].
    rewrite !nth_error_map', Ni, Nj. simpl.
    assert (SK : same_keys (d_keys (store mj)) (ring mj) = true) by now apply same_keys_true.
    destruct (Nat.eqb_spec i j) as [EQ|NE].
    + simpl in AG. rewrite (nth_error_nth' h i mi empty_cache Ni) in AG.
      pose proof (obs_agree_fields _ _ AG) as [EO _]. simpl in EO. rewrite EO. rewrite SK.
      change (mkR (ring mi) (hit mi) (miss mi) (soft mi) (calls mi)) with (abs mi).
      now rewrite (view_ok_model c mi (calls mi) [] _ ob Ii eq_refl AG).
    + assert (FK : Forall (fun k => In k (keys (ring mj))) (d_keys (store mj))).
      { apply Forall_forall. intros k Hk. apply d_mem_iff. rewrite <- (inv_mem c mj k Ij). now apply d_mem_iff. }
      destruct (upd_from_sim c _ mi mj Hmax Ii Ij FK) as [mi' [mj' [E [I1 [I2 [R C]]]]]].
      rewrite E in *. simpl in *.
      assert (Ni' : nth_error (upd_nth j mj' h) i = Some mi) by (rewrite nth_error_upd_nth_ne; auto).
      rewrite (nth_upd_nth i mi' empty_cache _ mi Ni') in AG.
      pose proof (obs_agree_fields _ _ AG) as [EO _]. simpl in EO. rewrite EO. rewrite SK.
      change (mkR (ring mi) (hit mi) (miss mi) (soft mi) (calls mi)) with (abs mi).
      change (mkR (ring mj) (hit mj) (miss mj) (soft mj) (calls mj)) with (abs mj).
      rewrite R. change (r_calls (abs mi)) with (calls mi).
      rewrite (view_ok_model c mi' (calls mi) [] _ ob I1 C AG).
      now rewrite !upd_nth_map.
Qed.

(* ---- whole histories --------------------------------------------------------------- *)
Lemma walk_sim c steps : forall h,
  1 <= c_max c -> Forall (Inv c) h -> agree_walk c h steps = true -> spec_walk c (map abs h) steps = true.
Proof.
  induction steps as [|[o ob] rest IH]; intros h Hmax F AG; simpl in *; [reflexivity|].
  destruct (hobserve c h o) as [h' mo] eqn:HO.
  rewrite !andb_true_iff in AG. destruct AG as [[VAL AG1] AG2].
  pose proof (hobserve_sim c h o ob Hmax F VAL) as S. rewrite HO in S. simpl in S.
  rewrite (S AG1). apply IH; try assumption.
  pose proof (hstep_inv c h o Hmax F) as F'. unfold hobserve in HO.
  destruct (hstep c h o) as [[h'' i] out]. inversion HO; subst. exact F'.
Qed.

Lemma init_sim c init :
  1 <= c_max c ->
  exists m, init_cache c init = (m, Ok tt) /\ Inv c m /\ abs m = r_init c init.
Proof.
  intro Hmax. destruct (setitems_sim c init empty_cache Hmax (inv_empty c)) as [m [E [I [A _]]]].
  exists m. split; [exact E|]. split; [exact I|]. exact A.
Qed.

(* agree implies holds: observations that the model reproduces satisfy the Spec *)
Lemma agree_implies_holds c init steps :
  1 <= c_max c -> agree_check c init steps = true -> spec_check c init steps = true.
Proof.
  intros Hmax AG. unfold agree_check, spec_check in *.
  destruct (init_sim c init Hmax) as [m [E [I A]]]. rewrite E in AG.
  apply andb_true_iff. split; [now apply Nat.leb_le|].
  rewrite <- A. change [abs m] with (map abs [m]). apply walk_sim; auto.
Qed.

(* every cache of every reachable heap satisfies the invariant *)
Lemma run_heap_from_inv c ops : forall h,
  1 <= c_max c -> Forall (Inv c) h -> Forall (Inv c) (run_heap_from c h ops).
Proof.
  induction ops as [|o rest IH]; intros h Hmax F; simpl; [assumption|].
  apply IH; [assumption|]. now apply hstep_inv.
Qed.

Lemma run_heap_inv c init ops : 1 <= c_max c -> Forall (Inv c) (run_heap c init ops).
Proof.
  intro Hmax. unfold run_heap. apply run_heap_from_inv; [assumption|].
  destruct (init_sim c init Hmax) as [m [E [I _]]]. rewrite E. simpl. now constructor.
Qed.

(* ---- the model's own observations satisfy the Spec ----------------------------------------- *)
(* every operation names caches that exist at that point of the history *)
Fixpoint all_valid (c : cfg) (h : list cache) (ops : list hop) : bool :=
  match ops with
  | [] => true
  | o :: rest => valid_hop (length h) o && all_valid c (fst (hobserve c h o)) rest
  end.

Lemma obs_agree_refl m out cb : obs_agree (observe cb m out) (observe cb m out) = true.
Proof.
  unfold obs_agree, observe. simpl.
  rewrite res_eqb_refl, Nat.eqb_refl, !N.eqb_refl. simpl.
  rewrite (proj2 (list_eqb_eq Nat.eqb Nat.eqb_eq _ _) eq_refl). simpl.
  apply (list_eqb_eq kv_eqb kv_eqb_eq). reflexivity.
Qed.

Lemma agree_walk_own c ops : forall h,
  agree_walk c h (combine ops (model_trace c h ops)) = all_valid c h ops.
Proof.
  induction ops as [|o rest IH]; intro h; simpl; [reflexivity|].
  destruct (hobserve c h o) as [h' mo] eqn:HO. simpl. rewrite HO. rewrite IH.
  assert (R : obs_agree mo mo = true).
  { unfold hobserve in HO. destruct (hstep c h o) as [[h'' i] out]. inversion HO; subst.
    apply obs_agree_refl. }
  rewrite R. now rewrite andb_true_r.
Qed.

Lemma model_satisfies_spec c init ops :
  1 <= c_max c -> all_valid c [fst (init_cache c init)] ops = true ->
  spec_check c init (combine ops (model_run c init ops)) = true.
Proof.
  intros Hmax V. apply agree_implies_holds; [assumption|].
  unfold agree_check, model_run. destruct (init_sim c init Hmax) as [m [E _]]. rewrite E in *. simpl in *.
  now rewrite agree_walk_own.
Qed.
