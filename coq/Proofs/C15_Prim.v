(* C15: the IEEE-754 law records of Lib/C15_Float.v hold for Coq's primitive
   binary64 floats.  Proved from Coq's FloatAxioms (the specification of the
   primitive operations by SpecFloat) through Flocq's BinarySingleNaN
   (Bmult_correct, Bminus_correct, Bcompare_correct, round_le). *)
From Coq Require Import ZArith Reals Floats Lra Lia Bool.
From Flocq Require Import Core.Core IEEE754.BinarySingleNaN IEEE754.PrimFloat.
From Boltons Require Import Lib.Prelude Lib.C15_Float Spec.C15_Spec Model.C15_Model Proofs.C15_Proofs.

Local Open Scope R_scope.
Local Existing Instance Hprec.
Local Existing Instance Hmax.

Notation B := (binary_float prec emax).
Notation rnd := (round radix2 (SpecFloat.fexp prec emax) (round_mode mode_NE)).

(* ---- the order on non-NaN floats as a relation on extended reals ----------------- *)
Definition BLE (x y : B) : Prop :=
  match x, y with
  | B754_nan, _ | _, B754_nan => False
  | B754_infinity true, _ => True
  | _, B754_infinity false => True
  | B754_infinity false, _ => False
  | _, B754_infinity true => False
  | _, _ => B2R x <= B2R y
  end.

Lemma Bleb_fin : forall x y : B, is_finite x = true -> is_finite y = true ->
  (Bleb x y = true <-> B2R x <= B2R y).
Proof.
  intros x y Fx Fy. rewrite (Bleb_correct _ _ x y Fx Fy).
  destruct (Rle_bool_spec (B2R x) (B2R y)); split; intros; try reflexivity; try assumption;
    try discriminate; lra.
Qed.

Lemma Bleb_BLE : forall x y : B, Bleb x y = true <-> BLE x y.
Proof.
  intros x y.
  destruct x as [sx|[|]| |sx mx ex Hx]; destruct y as [sy|[|]| |sy my ey Hy];
    try (apply Bleb_fin; reflexivity);
    try (simpl; split; [intros; exact I|reflexivity]);
    try (simpl; split; [discriminate|intros []]).
  all: try (unfold Bleb, SFleb; simpl; destruct sx; simpl; split; intros H; try exact I; try reflexivity; try discriminate; try destruct H).
  all: try (unfold Bleb, SFleb; simpl; destruct sy; simpl; split; intros H; try exact I; try reflexivity; try discriminate; try destruct H).
Qed.

Definition notnan (x : B) : Prop := match x with B754_nan => False | _ => True end.

Lemma BLE_refl_iff : forall x, BLE x x <-> notnan x.
Proof. intros [s|[|]| |s m e H]; simpl; split; auto; intros; lra. Qed.

Lemma BLE_notnan_l : forall x y, BLE x y -> notnan x.
Proof. intros [s|[|]| |s m e H] y; simpl; auto. Qed.
Lemma BLE_notnan_r : forall x y, BLE x y -> notnan y.
Proof. intros [s|[|]| |s m e H] [s'|[|]| |s' m' e' H']; simpl; auto. Qed.

Lemma BLE_trans : forall x y z, BLE x y -> BLE y z -> BLE x z.
Proof.
  intros [sx|[|]| |sx mx ex Hx] [sy|[|]| |sy my ey Hy] [sz|[|]| |sz mz ez Hz]; simpl; intros;
    try tauto; try lra.
Qed.

Lemma BLE_total : forall x y, notnan x -> notnan y -> BLE x y \/ BLE y x.
Proof.
  intros [sx|[|]| |sx mx ex Hx] [sy|[|]| |sy my ey Hy]; simpl; intros; try tauto; lra.
Qed.

(* ltb and eqb in terms of leb, through Bcompare *)
Lemma Bltb_def : forall x y : B, Bltb x y = Bleb x y && negb (Bleb y x).
Proof.
  intros x y. unfold Bltb, Bleb, SFltb, SFleb.
  change (SFcompare (B2SF y) (B2SF x)) with (Bcompare y x).
  change (SFcompare (B2SF x) (B2SF y)) with (Bcompare x y).
  rewrite (Bcompare_swap _ _ x y). destruct (Bcompare x y) as [[]|]; reflexivity.
Qed.

Lemma Beqb_def : forall x y : B, Beqb x y = Bleb x y && Bleb y x.
Proof.
  intros x y. unfold Beqb, Bleb, SFeqb, SFleb.
  change (SFcompare (B2SF y) (B2SF x)) with (Bcompare y x).
  change (SFcompare (B2SF x) (B2SF y)) with (Bcompare x y).
  rewrite (Bcompare_swap _ _ x y). destruct (Bcompare x y) as [[]|]; reflexivity.
Qed.

Definition Bzero : B := B754_zero false.
Definition B1 : B := Bone.

Lemma BLT_pos : forall x : B, Bltb Bzero x = true ->
  x = B754_infinity false \/ (is_finite_strict x = true /\ 0 < B2R x).
Proof.
  intros x H. rewrite Bltb_def in H. apply andb_true_iff in H as [H1 H2].
  apply negb_true_iff in H2. apply Bleb_BLE in H1.
  assert (H3 : ~ BLE x Bzero) by (intro K; apply Bleb_BLE in K; congruence).
  unfold Bzero in *. destruct x as [s|[|]| |s m e Hb]; simpl in *; try tauto.
  all: try (exfalso; apply H3; lra).
  right. split; auto. apply Rnot_le_lt, H3.
Qed.

Lemma BLE_antisym_pos : forall x y : B, Bltb Bzero x = true -> BLE x y -> BLE y x -> x = y.
Proof.
  intros x y Hp H1 H2. destruct (BLT_pos x Hp) as [->|[Fx Px]].
  - destruct y as [s|[|]| |s m e Hb]; simpl in *; tauto.
  - assert (Fy : is_finite_strict y = true /\ B2R x = B2R y).
    { destruct x as [sx|[|]| |sx mx ex Hx]; try discriminate.
      destruct y as [sy|[|]| |sy my ey Hy]; simpl in *; try tauto; try (split; [reflexivity|lra]).
      lra. }
    destruct Fy as [Fy E]. apply B2R_inj; auto.
Qed.

(* ---- order_laws for the primitive floats ------------------------------------------ *)
Lemma leb_iff : forall x y : PrimFloat.float, PrimFloat.leb x y = true <-> BLE (Prim2B x) (Prim2B y).
Proof. intros. rewrite leb_equiv. apply Bleb_BLE. Qed.

Lemma Prim2B_zero : Prim2B PrimFloat.zero = Bzero.
Proof. rewrite zero_equiv. apply Prim2B_B2Prim. Qed.
Lemma Prim2B_one : Prim2B PrimFloat.one = B1.
Proof. rewrite one_equiv. apply Prim2B_B2Prim. Qed.

Lemma sf_same_eq : forall a b, sf_same a b = true <-> a = b.
Proof.
  intros [s|s| |s m e] [t|t| |t n f]; simpl; split; intro H; try discriminate; try reflexivity;
    try (apply Bool.eqb_prop in H; congruence);
    try (inversion H; subst; apply Bool.eqb_reflx).
  - apply andb_true_iff in H as [H H3]. apply andb_true_iff in H as [H1 H2].
    apply Bool.eqb_prop in H1. apply Pos.eqb_eq in H2. apply Z.eqb_eq in H3. congruence.
  - inversion H; subst. now rewrite Bool.eqb_reflx, Pos.eqb_refl, Z.eqb_refl.
Qed.

Lemma prim_order_laws : order_laws prim_ops.
Proof.
  constructor; unfold num; simpl.
  - intros x y H. apply leb_iff in H. apply leb_iff, BLE_refl_iff. eapply BLE_notnan_l; eauto.
  - intros x y H. apply leb_iff in H. apply leb_iff, BLE_refl_iff. eapply BLE_notnan_r; eauto.
  - intros x y z H1 H2. apply leb_iff in H1, H2. apply leb_iff. eapply BLE_trans; eauto.
  - intros x y Hx Hy. apply leb_iff, BLE_refl_iff in Hx. apply leb_iff, BLE_refl_iff in Hy.
    destruct (BLE_total _ _ Hx Hy); [left|right]; now apply leb_iff.
  - intros x y. rewrite ltb_equiv, !leb_equiv. apply Bltb_def.
  - intros x y. rewrite eqb_equiv, !leb_equiv. apply Beqb_def.
  - intros x y Hp H1 H2. apply leb_iff in H1, H2. rewrite ltb_equiv, Prim2B_zero in Hp.
    apply Prim2B_inj. now apply BLE_antisym_pos.
  - reflexivity.
  - intros x y. unfold float_same. rewrite sf_same_eq. split; [apply Prim2SF_inj|congruence].
Qed.

(* ---- rounding facts ------------------------------------------------------------------ *)
Lemma BLE_fin : forall x z : B, is_finite x = true -> is_finite z = true ->
  (BLE x z <-> B2R x <= B2R z).
Proof. intros [s|[|]| |s m e H] [s'|[|]| |s' m' e' H']; simpl; intros; try discriminate; tauto. Qed.

Lemma BLE_inf_r : forall x : B, notnan x -> BLE x (B754_infinity false).
Proof. intros [s|[|]| |s m e H]; simpl; auto. Qed.

Lemma BLE_inf_l : forall x : B, notnan x -> BLE (B754_infinity true) x.
Proof. intros [s|[|]| |s m e H]; simpl; auto. Qed.

Lemma rnd_B2R : forall x : B, rnd (B2R x) = B2R x.
Proof.
  intro x. apply round_generic; [apply valid_rnd_round_mode|apply generic_format_B2R].
Qed.

Lemma rnd_le : forall a b, a <= b -> rnd a <= rnd b.
Proof.
  intros. apply round_le; auto; try apply (fexp_correct prec emax); try apply valid_rnd_round_mode; try exact Hprec.
Qed.

Lemma finite_sign_pos : forall x : B, is_finite x = true -> 0 < B2R x -> Bsign x = false.
Proof.
  intros [s|[|]| |s m e H]; simpl; intros F P; try discriminate; try lra.
  destruct s; [|reflexivity]. exfalso.
  assert (F2R (Float radix2 (Z.neg m) e) < 0) by (apply F2R_lt_0; reflexivity).
  simpl in P. lra.
Qed.

Lemma finite_sign_neg : forall x : B, is_finite x = true -> B2R x < 0 -> Bsign x = true.
Proof.
  intros [s|[|]| |s m e H]; simpl; intros F P; try discriminate; try lra.
  destruct s; [reflexivity|]. exfalso.
  assert (0 < F2R (Float radix2 (Z.pos m) e)) by (apply F2R_gt_0; reflexivity).
  simpl in P. lra.
Qed.

Lemma B2R_B1 : B2R B1 = 1.
Proof. apply Bone_correct. Qed.
Lemma fin_B1 : is_finite B1 = true.
Proof. apply is_finite_Bone. Qed.

Lemma BLE_one : forall f : B, BLE B1 f ->
  f = B754_infinity false \/ (is_finite f = true /\ 1 <= B2R f).
Proof.
  intros f H. pose proof fin_B1 as F1. pose proof B2R_B1 as R1.
  destruct f as [s|[|]| |s m e Hb]; [right|right; exfalso|left|exfalso|right];
    try (split; [reflexivity|]); destruct B1 as [s1|[|]| |s1 m1 e1 H1]; simpl in *;
    try discriminate; try tauto; try lra.
Qed.

Lemma overflow_is_inf : forall (z : B) s, B2SF z = binary_overflow prec emax mode_NE s ->
  z = B754_infinity s.
Proof.
  intros z s H. unfold binary_overflow in H. simpl in H.
  destruct z as [s'|s'| |s' m e Hb]; simpl in H; try discriminate. congruence.
Qed.

(* x > 0, f >= 1 : x <= x*f after rounding (an overflowing product is +infinity) *)
Lemma Bmult_grow : forall x f : B, Bltb Bzero x = true -> BLE B1 f ->
  BLE x (Bmult mode_NE x f).
Proof.
  intros x f Hx Hf.
  destruct (BLT_pos x Hx) as [->|[Fx Px]]; destruct (BLE_one f Hf) as [->|[Ff Rf]].
  - simpl. exact I.
  - assert (Sf : Bsign f = false) by (apply finite_sign_pos; auto; lra).
    destruct f as [s|[|]| |s m e Hb]; simpl in *; try discriminate; try lra.
    subst s. simpl. exact I.
  - assert (Sx : Bsign x = false).
    { apply finite_sign_pos; auto. destruct x; try discriminate; reflexivity. }
    destruct x as [s|[|]| |s m e Hb]; try discriminate. simpl in Sx. subst s. simpl. exact I.
  - assert (Fx' : is_finite x = true) by (destruct x; try discriminate; reflexivity).
    assert (Sx : Bsign x = false) by (apply finite_sign_pos; auto).
    assert (Sf : Bsign f = false) by (apply finite_sign_pos; auto; lra).
    pose proof (Bmult_correct prec emax _ _ mode_NE x f) as C.
    assert (Hle : B2R x <= rnd (B2R x * B2R f)).
    { rewrite <- (rnd_B2R x) at 1. apply rnd_le. nra. }
    destruct (Rlt_bool _ _).
    + destruct C as (R & Fi & _). rewrite Fx', Ff in Fi.
      apply BLE_fin; auto. simpl in Fi. rewrite R. exact Hle.
    + rewrite Sx, Sf in C. simpl in C. apply overflow_is_inf in C. rewrite C.
      apply BLE_inf_r. destruct x; try discriminate; exact I.
Qed.

Lemma prim_grow_laws : grow_laws prim_ops.
Proof.
  constructor. simpl. intros x f Hx Hf.
  rewrite ltb_equiv, Prim2B_zero in Hx. apply leb_iff in Hf. rewrite Prim2B_one in Hf.
  apply leb_iff. rewrite mul_equiv. now apply Bmult_grow.
Qed.

(* ---- jitter laws ------------------------------------------------------------------------ *)
Lemma BLE_fin_between : forall x y z : B, BLE x y -> BLE y z -> is_finite x = true ->
  is_finite z = true -> is_finite y = true.
Proof.
  intros [sx|[|]| |sx mx ex Hx] [sy|[|]| |sy my ey Hy] [sz|[|]| |sz mz ez Hz]; simpl; intros;
    try tauto; try discriminate.
Qed.

Lemma rnd_0 : rnd 0 = 0.
Proof. apply round_0. apply valid_rnd_round_mode. Qed.

Lemma rnd_opp_B2R : forall x : B, rnd (- B2R x) = - B2R x.
Proof.
  intro x. apply round_generic; [apply valid_rnd_round_mode|].
  apply generic_format_opp, generic_format_B2R.
Qed.

(* a product with a factor of magnitude <= 1 does not overflow *)
Lemma Bmult_small : forall x y : B, is_finite x = true -> is_finite y = true ->
  Rabs (B2R y) <= 1 ->
  is_finite (Bmult mode_NE x y) = true /\ B2R (Bmult mode_NE x y) = rnd (B2R x * B2R y).
Proof.
  intros x y Fx Fy Hy.
  pose proof (Bmult_correct prec emax _ _ mode_NE x y) as C.
  assert (Hb : Rabs (rnd (B2R x * B2R y)) <= Rabs (B2R x)).
  { assert (Rabs (B2R x * B2R y) <= Rabs (B2R x)).
    { rewrite Rabs_mult. pose proof (Rabs_pos (B2R x)). nra. }
    apply Rabs_le. apply Rabs_le_inv in H. destruct H as [H1 H2].
    destruct (Rle_or_lt 0 (B2R x)) as [P|P].
    - rewrite Rabs_pos_eq in * by assumption. split.
      + rewrite <- (rnd_opp_B2R x). now apply rnd_le.
      + rewrite <- (rnd_B2R x) at 2. now apply rnd_le.
    - rewrite Rabs_left in * by assumption. rewrite Ropp_involutive in *. split.
      + rewrite <- (rnd_B2R x) at 1. now apply rnd_le.
      + rewrite <- (rnd_opp_B2R x). now apply rnd_le. }
  rewrite Rlt_bool_true in C.
  - destruct C as (R & Fi & _). rewrite Fx, Fy in Fi. auto.
  - eapply Rle_lt_trans; [exact Hb|]. apply abs_B2R_lt_emax.
Qed.

Lemma Bmult_bounds : forall x y : B, is_finite x = true -> is_finite y = true ->
  Rabs (B2R y) <= 1 -> forall lo hi : B, is_finite lo = true -> is_finite hi = true ->
  B2R lo <= B2R x * B2R y <= B2R hi ->
  is_finite (Bmult mode_NE x y) = true /\ BLE lo (Bmult mode_NE x y) /\ BLE (Bmult mode_NE x y) hi.
Proof.
  intros x y Fx Fy Hy lo hi Flo Fhi [H1 H2].
  destruct (Bmult_small x y Fx Fy Hy) as [Fm Rm].
  split; [assumption|]. split; apply BLE_fin; auto; rewrite Rm.
  - rewrite <- (rnd_B2R lo). now apply rnd_le.
  - rewrite <- (rnd_B2R hi). now apply rnd_le.
Qed.

Lemma BLE_real : forall x y : B, is_finite x = true -> BLE x y -> is_finite y = true -> B2R x <= B2R y.
Proof. intros. now apply BLE_fin. Qed.

(* finite values between -1 and 1, or 0 and 1 *)
Lemma unit_range : forall lo r hi : B, is_finite lo = true -> is_finite hi = true ->
  BLE lo r -> BLE r hi -> is_finite r = true /\ B2R lo <= B2R r <= B2R hi.
Proof.
  intros lo r hi Flo Fhi H1 H2.
  assert (Fr : is_finite r = true) by (eapply BLE_fin_between; eauto).
  split; auto. split; apply BLE_fin; auto.
Qed.

Definition Bm1 : B := Bopp B1.
Lemma B2R_Bm1 : B2R Bm1 = -1.
Proof. unfold Bm1. rewrite B2R_Bopp, B2R_B1. reflexivity. Qed.
Lemma fin_Bm1 : is_finite Bm1 = true.
Proof. unfold Bm1. rewrite is_finite_Bopp. apply fin_B1. Qed.
Lemma fin_Bzero : is_finite Bzero = true.
Proof. reflexivity. Qed.
Lemma B2R_Bzero : B2R Bzero = 0.
Proof. reflexivity. Qed.

Lemma Bmult_j_nonneg : forall b j : B, is_finite b = true -> BLE Bzero b -> BLE Bzero j -> BLE j B1 ->
  is_finite (Bmult mode_NE b j) = true /\ BLE Bzero (Bmult mode_NE b j).
Proof.
  intros b j Fb Hb Hj0 Hj1.
  destruct (unit_range Bzero j B1 fin_Bzero fin_B1 Hj0 Hj1) as [Fj [J0 J1]].
  rewrite B2R_Bzero, B2R_B1 in *.
  pose proof (BLE_real _ _ fin_Bzero Hb Fb) as B0. rewrite B2R_Bzero in B0.
  destruct (Bmult_bounds b j Fb Fj) with (lo := Bzero) (hi := b) as (F & L & _); auto.
  - apply Rabs_le. lra.
  - rewrite B2R_Bzero. nra.
Qed.

Lemma Bmult_j_nonpos : forall b j : B, is_finite b = true -> BLE Bzero b -> BLE Bm1 j -> BLE j Bzero ->
  is_finite (Bmult mode_NE b j) = true /\ BLE (Bmult mode_NE b j) Bzero.
Proof.
  intros b j Fb Hb Hj0 Hj1.
  destruct (unit_range Bm1 j Bzero fin_Bm1 fin_Bzero Hj0 Hj1) as [Fj [J0 J1]].
  rewrite B2R_Bzero, B2R_Bm1 in *.
  pose proof (BLE_real _ _ fin_Bzero Hb Fb) as B0. rewrite B2R_Bzero in B0.
  destruct (Bmult_bounds b j Fb Fj) with (lo := Bopp b) (hi := Bzero) as (F & _ & L); auto.
  - apply Rabs_le. lra.
  - now rewrite is_finite_Bopp.
  - rewrite B2R_Bopp, B2R_Bzero. nra.
Qed.

Lemma Bmult_r_nonneg : forall y r : B, is_finite y = true -> BLE Bzero y -> BLE Bzero r -> BLE r B1 ->
  BLE Bzero (Bmult mode_NE y r) /\ BLE (Bmult mode_NE y r) y.
Proof.
  intros y r Fy Hy Hr0 Hr1.
  destruct (unit_range Bzero r B1 fin_Bzero fin_B1 Hr0 Hr1) as [Fr [R0 R1]].
  rewrite B2R_Bzero, B2R_B1 in *.
  pose proof (BLE_real _ _ fin_Bzero Hy Fy) as Y0. rewrite B2R_Bzero in Y0.
  destruct (Bmult_bounds y r Fy Fr) with (lo := Bzero) (hi := y) as (F & L & U); auto.
  - apply Rabs_le. lra.
  - rewrite B2R_Bzero. nra.
Qed.

Lemma Bmult_r_nonpos : forall y r : B, is_finite y = true -> BLE y Bzero -> BLE Bzero r -> BLE r B1 ->
  BLE y (Bmult mode_NE y r) /\ BLE (Bmult mode_NE y r) Bzero.
Proof.
  intros y r Fy Hy Hr0 Hr1.
  destruct (unit_range Bzero r B1 fin_Bzero fin_B1 Hr0 Hr1) as [Fr [R0 R1]].
  rewrite B2R_Bzero, B2R_B1 in *.
  pose proof (BLE_real _ _ Fy Hy fin_Bzero) as Y0. rewrite B2R_Bzero in Y0.
  destruct (Bmult_bounds y r Fy Fr) with (lo := y) (hi := Bzero) as (F & L & U); auto.
  - apply Rabs_le. lra.
  - rewrite B2R_Bzero. nra.
Qed.

(* ---- subtraction ---------------------------------------------------------------------------- *)
Lemma sign_true_nonpos : forall x : B, is_finite x = true -> Bsign x = true -> B2R x <= 0.
Proof.
  intros [s|[|]| |s m e H]; simpl; intros F S; try discriminate; try lra.
  subst s. apply Rlt_le. apply F2R_lt_0. reflexivity.
Qed.
Lemma sign_false_nonneg : forall x : B, is_finite x = true -> Bsign x = false -> 0 <= B2R x.
Proof.
  intros [s|[|]| |s m e H]; simpl; intros F S; try discriminate; try lra.
  subst s. apply Rlt_le. apply F2R_gt_0. reflexivity.
Qed.

Lemma notnan_fin : forall x : B, is_finite x = true -> notnan x.
Proof. intros [s|[|]| |s m e H]; simpl; auto; discriminate. Qed.

(* b - y for finite b, y: either the rounded difference (finite), or an infinity with the
   sign of b when the rounded difference is out of range *)
Lemma Bminus_cases : forall b y : B, is_finite b = true -> is_finite y = true ->
  let r := rnd (B2R b - B2R y) in
  (Rabs r < bpow radix2 emax /\ is_finite (Bminus mode_NE b y) = true /\ B2R (Bminus mode_NE b y) = r) \/
  (bpow radix2 emax <= r /\ Bminus mode_NE b y = B754_infinity false) \/
  (r <= - bpow radix2 emax /\ Bminus mode_NE b y = B754_infinity true).
Proof.
  intros b y Fb Fy r.
  pose proof (Bminus_correct prec emax _ _ mode_NE b y Fb Fy) as C. fold r in C.
  destruct (Rlt_bool_spec (Rabs r) (bpow radix2 emax)) as [L|L].
  - left. destruct C as (R & F & _). auto.
  - right. destruct C as [C S]. apply overflow_is_inf in C.
    assert (D : r = rnd (B2R b - B2R y)) by reflexivity.
    destruct (Bsign b) eqn:Sb.
    + right. split; [|assumption].
      assert (B2R b - B2R y <= 0).
      { pose proof (sign_true_nonpos b Fb Sb). symmetry in S. apply negb_true_iff in S.
        pose proof (sign_false_nonneg y Fy S). lra. }
      assert (r <= 0) by (rewrite D, <- rnd_0; now apply rnd_le).
      rewrite Rabs_left1 in L by assumption. lra.
    + left. split; [|assumption].
      assert (0 <= B2R b - B2R y).
      { pose proof (sign_false_nonneg b Fb Sb). symmetry in S. apply negb_false_iff in S.
        pose proof (sign_true_nonpos y Fy S). lra. }
      assert (0 <= r) by (rewrite D, <- rnd_0; now apply rnd_le).
      rewrite Rabs_pos_eq in L by assumption. lra.
Qed.

Lemma Bminus_antitone : forall b y1 y2 : B, is_finite b = true -> is_finite y1 = true ->
  is_finite y2 = true -> BLE y1 y2 -> BLE (Bminus mode_NE b y2) (Bminus mode_NE b y1).
Proof.
  intros b y1 y2 Fb F1 F2 H.
  apply BLE_fin in H; auto.
  assert (M : rnd (B2R b - B2R y2) <= rnd (B2R b - B2R y1)) by (apply rnd_le; lra).
  pose proof (bpow_gt_0 radix2 emax) as P.
  destruct (Bminus_cases b y1 Fb F1) as [(A1 & G1 & R1)|[(A1 & ->)|(A1 & ->)]];
  destruct (Bminus_cases b y2 Fb F2) as [(A2 & G2 & R2)|[(A2 & E2)|(A2 & E2)]]; try rewrite E2.
  - apply BLE_fin; auto. now rewrite R1, R2.
  - exfalso. apply Rabs_lt_inv in A1. lra.
  - apply BLE_inf_l. now apply notnan_fin.
  - apply BLE_inf_r. now apply notnan_fin.
  - exact I.
  - exact I.
  - exfalso. apply Rabs_lt_inv in A2. lra.
  - exfalso. lra.
  - exact I.
Qed.

Lemma Beqb_zero : forall z : B, Beqb z Bzero = true -> exists s, z = B754_zero s.
Proof.
  intros [s|[|]| |s m e H] E; try discriminate; try (exists s; reflexivity).
  unfold Beqb, SFeqb in E. simpl in E. destruct s; discriminate.
Qed.

Lemma Bminus_zero : forall b z : B, is_finite b = true -> Beqb z Bzero = true ->
  BLE (Bminus mode_NE b z) b /\ BLE b (Bminus mode_NE b z).
Proof.
  intros b z Fb E. destruct (Beqb_zero z E) as [s ->].
  destruct b as [sb|[|]| |sb mb eb Hb]; try discriminate; simpl.
  - destruct (Bool.eqb sb (negb s)); simpl; lra.
  - lra.
Qed.

Lemma prim_fin_iff : forall x, fin prim_ops x <-> is_finite (Prim2B x) = true.
Proof. intro x. unfold fin. simpl. now rewrite is_finite_equiv. Qed.

Lemma Prim2B_m1 : Prim2B (PrimFloat.opp PrimFloat.one) = Bm1.
Proof. rewrite opp_equiv, Prim2B_one. reflexivity. Qed.

Lemma prim_jitter_laws : jitter_laws prim_ops.
Proof.
  constructor; simpl.
  - reflexivity.
  - intros x Hx. apply prim_fin_iff in Hx. unfold num. simpl.
    apply leb_iff, BLE_refl_iff. now apply notnan_fin.
  - reflexivity.
  - intros x y z H1 H2 Fx Fz. apply leb_iff in H1, H2. apply prim_fin_iff in Fx, Fz.
    apply prim_fin_iff. eapply BLE_fin_between; eauto.
  - intros b j Fb Hb Hj0 Hj1. apply prim_fin_iff in Fb. apply leb_iff in Hb, Hj0, Hj1.
    rewrite Prim2B_zero in *. rewrite Prim2B_one in *.
    destruct (Bmult_j_nonneg _ _ Fb Hb Hj0 Hj1) as [F L].
    split; [apply prim_fin_iff|apply leb_iff; rewrite Prim2B_zero]; now rewrite mul_equiv.
  - intros b j Fb Hb Hj0 Hj1. apply prim_fin_iff in Fb. apply leb_iff in Hb, Hj0, Hj1.
    rewrite Prim2B_zero in *. replace (Prim2B (-1)%float) with Bm1 in * by (symmetry; exact Prim2B_m1).
    destruct (Bmult_j_nonpos _ _ Fb Hb Hj0 Hj1) as [F L].
    split; [apply prim_fin_iff|apply leb_iff; rewrite Prim2B_zero]; now rewrite mul_equiv.
  - intros y r Fy Hy Hr0 Hr1. apply prim_fin_iff in Fy. apply leb_iff in Hy, Hr0, Hr1.
    rewrite Prim2B_zero in *. rewrite Prim2B_one in *.
    destruct (Bmult_r_nonneg _ _ Fy Hy Hr0 Hr1) as [L U].
    split; apply leb_iff; rewrite ?Prim2B_zero, mul_equiv; assumption.
  - intros y r Fy Hy Hr0 Hr1. apply prim_fin_iff in Fy. apply leb_iff in Hy, Hr0, Hr1.
    rewrite Prim2B_zero in *. rewrite Prim2B_one in *.
    destruct (Bmult_r_nonpos _ _ Fy Hy Hr0 Hr1) as [L U].
    split; apply leb_iff; rewrite ?Prim2B_zero, mul_equiv; assumption.
  - intros b y1 y2 Fb F1 F2 H. apply prim_fin_iff in Fb, F1, F2. apply leb_iff in H.
    apply leb_iff. rewrite !sub_equiv. now apply Bminus_antitone.
  - intros b z Fb E. apply prim_fin_iff in Fb. rewrite eqb_equiv, Prim2B_zero in E.
    destruct (Bminus_zero _ _ Fb E) as [L U].
    split; apply leb_iff; rewrite sub_equiv; assumption.
Qed.


(* ---- the theorems of Proofs/C15_Proofs.v, for binary64 ------------------------------------ *)
Local Close Scope R_scope.

Theorem binary64_refines_spec : forall p fuel draws, draws_ok prim_ops draws ->
  o_end (run prim_ops p fuel draws) <> EFuel ->
  spec_holds prim_ops p (run prim_ops p fuel draws) = true \/ spec_known prim_ops p fuel = true.
Proof. exact (run_refines_spec prim_ops prim_order_laws prim_grow_laws prim_jitter_laws). Qed.

Theorem binary64_ideal_monotone_capped : forall start stop factor,
  valid prim_ops start stop factor = true ->
  forall n, plain_ok prim_ops start stop factor (ideal prim_ops stop factor start n) = true.
Proof. exact (ideal_plain_ok prim_ops prim_order_laws prim_grow_laws). Qed.

Theorem binary64_jitter_bounded : forall start stop factor j,
  valid prim_ops start stop factor = true ->
  jitter_valid prim_ops j = true -> jitter_off prim_ops j = false ->
  forall n a draws vs, Inv prim_ops stop a -> Forall (unit_draw prim_ops) draws ->
    gen_loop prim_ops n true j stop factor a draws = Some vs ->
    length vs = n /\ jitter_ok prim_ops j (ideal prim_ops stop factor a n) vs = true.
Proof. exact (gen_loop_jitter prim_ops prim_order_laws prim_grow_laws prim_jitter_laws). Qed.

(* ---- termination of the default-count loop in binary64 ---------------------------------------- *)
Local Open Scope R_scope.
Notation emin := (3 - emax - prec)%Z.

(* every finite float is an integer multiple of 2^emin *)
Definition kof (x : B) : Z :=
  match x with
  | B754_finite s m e _ => cond_Zopp s (Z.pos m) * 2 ^ (e - emin)
  | _ => 0
  end.

Lemma bounded_emin : forall m e, bounded prec emax m e = true -> (emin <= e)%Z.
Proof.
  intros m e H. unfold bounded in H. apply andb_true_iff in H as [H _].
  unfold canonical_mantissa in H. apply Zeq_bool_eq in H.
  unfold SpecFloat.fexp, SpecFloat.emin in H. lia.
Qed.

Lemma kof_spec : forall x : B, is_finite x = true -> B2R x = IZR (kof x) * bpow radix2 emin.
Proof.
  intros [s|[|]| |s m e H] F; try discriminate.
  - cbv beta iota delta [kof B2R]. lra.
  - pose proof (bounded_emin m e H) as He.
    cbv beta iota delta [kof B2R]. unfold F2R. cbn [Fnum Fexp]. rewrite mult_IZR.
    replace (bpow radix2 e) with (bpow radix2 (e - emin) * bpow radix2 emin).
    + rewrite (IZR_Zpower radix2) by lia. change (radix_val radix2) with 2%Z. ring.
    + rewrite <- bpow_plus. f_equal. lia.
Qed.

Definition KMAX : Z := 2 ^ (emax - emin).

Lemma kof_lt_KMAX : forall x : B, is_finite x = true -> (kof x < KMAX)%Z.
Proof.
  intros x F. pose proof (abs_B2R_lt_emax prec emax x) as A. rewrite (kof_spec x F) in A.
  apply Rabs_lt_inv in A. destruct A as [_ A].
  apply lt_IZR. unfold KMAX. rewrite (IZR_Zpower radix2) by (unfold emax, prec; lia).
  assert (E : bpow radix2 emax = bpow radix2 (emax - emin) * bpow radix2 emin)
    by (rewrite <- bpow_plus; f_equal; lia).
  rewrite E in A.
  pose proof (bpow_gt_0 radix2 emin). nra.
Qed.

Lemma kof_lt : forall x y : B, is_finite x = true -> is_finite y = true ->
  B2R x < B2R y -> (kof x + 1 <= kof y)%Z.
Proof.
  intros x y Fx Fy H. rewrite (kof_spec x Fx), (kof_spec y Fy) in H.
  pose proof (bpow_gt_0 radix2 emin).
  assert (IZR (kof x) < IZR (kof y)) by nra. apply lt_IZR in H1. lia.
Qed.

Lemma Bltb_fin : forall x y : B, is_finite x = true -> is_finite y = true ->
  Bltb x y = true -> B2R x < B2R y.
Proof.
  intros x y Fx Fy H. rewrite (Bltb_correct _ _ x y Fx Fy) in H.
  destruct (Rlt_bool_spec (B2R x) (B2R y)); [assumption|discriminate].
Qed.

Local Close Scope R_scope.

(* x < y with x finite: y is finite or +infinity *)
Lemma Bltb_right : forall x y : B, is_finite x = true -> Bltb x y = true ->
  is_finite y = true \/ y = B754_infinity false.
Proof.
  intros x y Fx H. rewrite Bltb_def in H. apply andb_true_iff in H as [H _]. apply Bleb_BLE in H.
  destruct x as [sx|[|]| |sx mx ex Hx]; try discriminate;
    destruct y as [sy|[|]| |sy my ey Hy]; simpl in *; auto; tauto.
Qed.

Lemma Bltb_left_fin : forall x y : B, BLE Bzero x -> Bltb x y = true -> is_finite x = true.
Proof.
  intros x y H0 H. rewrite Bltb_def in H. apply andb_true_iff in H as [H1 H2]. apply Bleb_BLE in H1.
  apply negb_true_iff in H2.
  destruct x as [sx|[|]| |sx mx ex Hx]; try reflexivity; simpl in *; try tauto.
  exfalso. destruct y as [sy|[|]| |sy my ey Hy]; simpl in *; try tauto; discriminate.
Qed.

Lemma default_count_terminates_aux : forall (n : nat) stop factor cur c,
  is_finite (Prim2B cur) = true -> (KMAX - kof (Prim2B cur) <= Z.of_nat n)%Z ->
  default_count prim_ops (S (S n)) stop factor cur c <> DCFuel.
Proof.
  induction n as [|n IH]; intros stop factor cur c Fc Hk.
  - pose proof (kof_lt_KMAX _ Fc). lia.
  - remember (S (S n)) as fuel eqn:Ef.
    cbn [default_count]. subst fuel.
    destruct (fltb prim_ops cur stop); [|discriminate].
    set (nxt := if negb (feqb prim_ops cur (f0 prim_ops)) then fmul prim_ops cur factor else f1 prim_ops).
    destruct (fltb prim_ops cur nxt) eqn:G; simpl negb; cbv iota; [|discriminate].
    simpl in G. rewrite ltb_equiv in G.
    destruct (Bltb_right _ _ Fc G) as [Fn|En].
    + apply IH; auto.
      pose proof (kof_lt _ _ Fc Fn (Bltb_fin _ _ Fc Fn G)). lia.
    + (* nxt = +infinity: the next test cur < stop fails *)
      cbn [default_count]. simpl fltb. rewrite ltb_equiv, En.
      replace (Bltb (B754_infinity false) (Prim2B stop)) with false; [discriminate|].
      symmetry. rewrite Bltb_def.
      destruct (Bleb (B754_infinity false) (Prim2B stop)) eqn:E1; [|reflexivity].
      apply Bleb_BLE in E1. destruct (Prim2B stop) as [s|[|]| |s m e H]; simpl in E1; try tauto; reflexivity.
Qed.

(* for 0 <= start there is a fuel with which the count loop finishes *)
Theorem default_count_terminates : forall start stop factor,
  PrimFloat.leb PrimFloat.zero start = true ->
  exists fuel, forall c, default_count prim_ops fuel stop factor start c <> DCFuel.
Proof.
  intros start stop factor H0.
  destruct (is_finite (Prim2B start)) eqn:Fs.
  - exists (S (S (Z.to_nat (KMAX - kof (Prim2B start))))). intro c.
    apply default_count_terminates_aux; auto.
    pose proof (kof_lt_KMAX _ Fs). lia.
  - exists 1%nat. intro c. cbn [default_count].
    destruct (fltb prim_ops start stop) eqn:L; [|discriminate]. exfalso.
    simpl in L. rewrite ltb_equiv in L. apply leb_iff in H0. rewrite Prim2B_zero in H0.
    rewrite (Bltb_left_fin _ _ H0 L) in Fs. discriminate.
Qed.

(* ---- the default-count clause in binary64, without the fuel proviso ----------------------------
   For valid parameters, factor > 1, no jitter: if the ideal sequence never stalls below
   stop, there is a fuel for which backoff() returns a list that satisfies every clause on
   the values and whose last value is stop. *)
Theorem binary64_default_count_last_is_stop : forall start stop factor j take,
  let p := mkP ApiList start stop CNone factor j take in
  must_raise prim_ops p = false -> jitter_off prim_ops j = true ->
  PrimFloat.ltb PrimFloat.one factor = true ->
  (forall n, stalls prim_ops stop factor start n = false) ->
  exists fuel,
    let o := run prim_ops p fuel [] in
    o_end o = EStop /\ values_ok prim_ops p (o_vals o) = true /\
    last_is prim_ops stop (o_vals o) = true.
Proof.
  intros start stop factor j take p M Off Lf St.
  destruct (must_raise_false_parts prim_ops p M) as [V _]. cbn [p p_start p_stop p_factor] in V.
  destruct (valid_parts prim_ops start stop factor V) as (H0 & _).
  destruct (default_count_terminates start stop factor H0) as [fuel Hfuel].
  exists fuel.
  pose proof (run_list_default_not_fuel prim_ops prim_order_laws prim_grow_laws
                start stop factor j take fuel [] V Off (Hfuel 1%Z)) as NF.
  pose proof (default_count_last_is_stop prim_ops prim_order_laws prim_grow_laws prim_jitter_laws
                start stop factor j take fuel [] (Forall_nil _) M Lf (St fuel) NF) as R.
  cbv zeta in R. rewrite Off in R. exact R.
Qed.

(* ---- closed form of the stall guard: a normal number times a factor > 1 grows strictly ---------- *)
Local Open Scope R_scope.
Notation fexp64 := (SpecFloat.fexp prec emax).
Notation ulp64 := (ulp radix2 fexp64).
Notation succ64 := (succ radix2 fexp64).
Notation fmt64 := (generic_format radix2 fexp64).

Lemma fmt_B2R : forall x : B, fmt64 (B2R x).
Proof. intro x. apply generic_format_B2R. Qed.

Lemma ulp_one : ulp64 1 = bpow radix2 (-52).
Proof.
  rewrite ulp_neq_0 by lra. unfold cexp. rewrite mag_1. reflexivity.
Qed.

Lemma ulp_normal : forall X, bpow radix2 (emin + prec - 1) <= X -> ulp64 X = bpow radix2 (mag radix2 X - prec).
Proof.
  intros X H. pose proof (bpow_gt_0 radix2 (emin + prec - 1)).
  rewrite ulp_neq_0 by lra. unfold cexp. f_equal.
  assert ((emin + prec <= mag radix2 X)%Z).
  { apply mag_ge_bpow. rewrite Rabs_pos_eq by lra. exact H. }
  unfold SpecFloat.fexp, SpecFloat.emin. lia.
Qed.

(* X normal, F > 1 both in the format: rnd (X*F) >= succ X > X *)
Lemma rnd_mul_strict : forall X F, fmt64 X -> fmt64 F ->
  bpow radix2 (emin + prec - 1) <= X -> 1 < F -> X < rnd (X * F).
Proof.
  intros X F FX FF HX HF.
  pose proof (bpow_gt_0 radix2 (emin + prec - 1)) as P0.
  assert (F1 : fmt64 1) by (rewrite <- B2R_B1; apply fmt_B2R).
  assert (S1 : 1 + bpow radix2 (-52) <= F).
  { rewrite <- ulp_one, <- succ_eq_pos by lra. apply succ_le_lt; auto.
    apply (fexp_correct prec emax). exact Hprec. }
  assert (U : ulp64 X <= X * bpow radix2 (-52)).
  { rewrite (ulp_normal X HX).
    replace (mag radix2 X - prec)%Z with ((mag radix2 X - 1) + (-52))%Z by (unfold prec; lia).
    rewrite bpow_plus. apply Rmult_le_compat_r; [apply bpow_ge_0|].
    pose proof (bpow_mag_le radix2 X) as M. rewrite Rabs_pos_eq in M by lra. apply M. lra. }
  assert (SX : succ64 X <= X * F).
  { rewrite succ_eq_pos by lra. nra. }
  apply Rlt_le_trans with (succ64 X).
  - apply succ_gt_id. lra.
  - assert (R : rnd (succ64 X) = succ64 X).
    { apply round_generic; [apply valid_rnd_round_mode|].
      apply generic_format_succ; auto. apply (fexp_correct prec emax). exact Hprec. }
    rewrite <- R. now apply rnd_le.
Qed.

Definition minnorm : PrimFloat.float := 0x1p-1022%float.     (* smallest normal number *)

Lemma fin_minnorm : is_finite (Prim2B minnorm) = true.
Proof. rewrite <- is_finite_equiv. reflexivity. Qed.

Lemma B2R_minnorm : B2R (Prim2B minnorm) = bpow radix2 (emin + prec - 1).
Proof.
  unfold Prim2B. rewrite B2R_SF2B.
  replace (Prim2SF minnorm) with (S754_finite false 4503599627370496 (-1074)) by (vm_compute; reflexivity).
  unfold SF2R, F2R. cbn [Fnum Fexp cond_Zopp].
  change (Z.pos 4503599627370496) with (radix2 ^ 52)%Z.
  rewrite IZR_Zpower by lia. rewrite <- bpow_plus. reflexivity.
Qed.

(* x finite and normal, f > 1: x < x*f after rounding (or the product overflows to +inf) *)
Lemma Bmult_strict_grow : forall x f : B, is_finite x = true ->
  BLE (Prim2B minnorm) x -> Bltb B1 f = true -> Bltb x (Bmult mode_NE x f) = true.
Proof.
  intros x f Fx Hx Hf.
  pose proof (BLE_real _ _ fin_minnorm Hx Fx) as HX. rewrite B2R_minnorm in HX.
  pose proof (bpow_gt_0 radix2 (emin + prec - 1)) as P0.
  assert (Sx : Bsign x = false) by (apply finite_sign_pos; auto; lra).
  assert (Nx : notnan x) by now apply notnan_fin.
  assert (LtInf : Bltb x (B754_infinity false) = true).
  { rewrite Bltb_def. replace (Bleb x (B754_infinity false)) with true
      by (symmetry; apply Bleb_BLE, BLE_inf_r, Nx).
    destruct (Bleb (B754_infinity false) x) eqn:E; [|reflexivity].
    apply Bleb_BLE in E. destruct x as [s|[|]| |s m e H]; simpl in *; try discriminate; tauto. }
  destruct (Bltb_right _ _ fin_B1 Hf) as [Ff|Ef]; [|subst f].
  - pose proof (Bltb_fin _ _ fin_B1 Ff Hf) as HF. rewrite B2R_B1 in HF.
    assert (Sf : Bsign f = false) by (apply finite_sign_pos; auto; lra).
    pose proof (Bmult_correct prec emax _ _ mode_NE x f) as C.
    pose proof (rnd_mul_strict (B2R x) (B2R f) (fmt_B2R x) (fmt_B2R f) HX HF) as G.
    destruct (Rlt_bool _ _).
    + destruct C as (R & Fi & _). rewrite Fx, Ff in Fi. simpl in Fi.
      rewrite (Bltb_correct _ _ _ _ Fx Fi), R. now apply Rlt_bool_true.
    + rewrite Sx, Sf in C. simpl in C. apply overflow_is_inf in C. now rewrite C.
  - destruct x as [s|[|]| |s m e H]; try discriminate; simpl in Sx; subst; simpl in *; try lra.
    exact LtInf.
Qed.

Local Close Scope R_scope.

Lemma prim_strict_grow : forall x f, PrimFloat.is_finite x = true ->
  PrimFloat.leb minnorm x = true -> PrimFloat.ltb PrimFloat.one f = true ->
  PrimFloat.ltb x (PrimFloat.mul x f) = true.
Proof.
  intros x f Fx Hx Hf. rewrite is_finite_equiv in Fx. apply leb_iff in Hx.
  rewrite ltb_equiv, Prim2B_one in Hf. rewrite ltb_equiv, mul_equiv.
  now apply Bmult_strict_grow.
Qed.

(* ---- the ideal sequence stalls only from a subnormal value ------------------------------------- *)
Section NoStall.
  Local Notation le x y := (PrimFloat.leb x y = true).
  Local Notation lt x y := (PrimFloat.ltb x y = true).
  Let OL := prim_order_laws.
  Let GL := prim_grow_laws.

  Lemma p_le_lt_trans : forall x y z, le x y -> lt y z -> lt x z.
  Proof.
    intros x y z H1 H2.
    pose proof (ltb_def prim_ops OL x z) as D. simpl in D. rewrite D.
    pose proof (lt_le prim_ops OL y z H2) as H3. simpl in H3.
    pose proof (leb_trans prim_ops OL x y z H1 H3) as H4. simpl in H4. rewrite H4. simpl.
    apply negb_true_iff. destruct (PrimFloat.leb z x) eqn:E; [|reflexivity].
    pose proof (leb_trans prim_ops OL z x y E H1) as H5. simpl in H5.
    pose proof (lt_nle prim_ops OL y z H2) as H6. simpl in H6. congruence.
  Qed.

  Lemma p_lt_fmin : forall a x stop, lt a x -> lt a stop -> lt a (fmin prim_ops x stop).
  Proof. intros. unfold fmin. simpl. destruct (PrimFloat.leb x stop); assumption. Qed.

  Variables start stop factor : PrimFloat.float.
  Hypothesis Hvalid : valid prim_ops start stop factor = true.
  Hypothesis Hf : lt PrimFloat.one factor.

  (* zero, or normal, or already at stop *)
  Definition safe (a : PrimFloat.float) : Prop :=
    PrimFloat.eqb a PrimFloat.zero = true \/ le minnorm a \/ PrimFloat.ltb a stop = false.

  Lemma lt_stop_finite : forall a, le PrimFloat.zero a -> lt a stop -> PrimFloat.is_finite a = true.
  Proof.
    intros a H0 H. rewrite is_finite_equiv. apply leb_iff in H0. rewrite Prim2B_zero in H0.
    rewrite ltb_equiv in H. eapply Bltb_left_fin; eauto.
  Qed.

  Lemma no_stall_from_safe : forall n a, Inv prim_ops stop a -> safe a ->
    stalls prim_ops stop factor a n = false.
  Proof.
    destruct (valid_parts prim_ops start stop factor Hvalid) as (H0s & Hss & H0t & H1f).
    simpl in H0s, Hss, H0t, H1f.
    induction n as [|n IH]; intros a Ha Sa; [reflexivity|].
    cbn [stalls]. simpl fltb.
    destruct (PrimFloat.ltb a stop) eqn:L; [|reflexivity]. simpl andb.
    assert (Va : valid prim_ops a stop factor = true).
    { destruct Ha as [A1 A2]. unfold valid. simpl in *. now rewrite A1, A2, H0t, H1f. }
    destruct (ideal_next_Inv prim_ops OL GL a stop factor Va a Ha) as [Hi _].
    assert (G : lt a (ideal_next prim_ops stop factor a) /\ safe (ideal_next prim_ops stop factor a)).
    { unfold ideal_next. simpl feqb. simpl f0.
      destruct (PrimFloat.eqb a PrimFloat.zero) eqn:E.
      - destruct (eqb_0_le prim_ops OL a E) as [Ea0 _]. simpl in Ea0. split.
        + apply p_le_lt_trans with PrimFloat.zero; auto.
          apply p_lt_fmin; [reflexivity|assumption].
        + unfold safe, fmin. simpl. destruct (PrimFloat.leb PrimFloat.one stop) eqn:E1.
          * right. left. reflexivity.
          * right. right. pose proof (le_nlt prim_ops OL stop stop) as K. simpl in K. apply K.
            eapply (leb_num_r prim_ops OL). exact Hss.
      - destruct Sa as [Sa|[Sa|Sa]]; [congruence| |congruence].
        destruct Ha as [A1 A2]. simpl in A1, A2.
        pose proof (prim_strict_grow a factor (lt_stop_finite a A1 L) Sa Hf) as SG. split.
        + apply p_lt_fmin; assumption.
        + unfold safe, fmin. simpl. destruct (PrimFloat.leb (PrimFloat.mul a factor) stop) eqn:E1.
          * right. left. pose proof (leb_trans prim_ops OL minnorm a (PrimFloat.mul a factor) Sa) as T.
            simpl in T. apply T. pose proof (lt_le prim_ops OL _ _ SG) as T2. exact T2.
          * right. right. pose proof (le_nlt prim_ops OL stop stop) as K. simpl in K. apply K.
            eapply (leb_num_r prim_ops OL). exact Hss. }
    destruct G as [G1 G2]. simpl fltb. rewrite G1. simpl. apply IH; auto.
  Qed.

  Theorem no_stall_zero_or_normal :
    PrimFloat.eqb start PrimFloat.zero = true \/ le minnorm start ->
    forall n, stalls prim_ops stop factor start n = false.
  Proof.
    intros H n. apply no_stall_from_safe.
    - apply (Inv_start prim_ops start stop factor Hvalid).
    - unfold safe. tauto.
  Qed.
End NoStall.

(* the default-count clause, complete for every start that is zero or a normal number:
   valid parameters, factor > 1, no jitter  =>  for some fuel backoff() returns a list
   satisfying every clause on the values and ending at stop *)
Theorem binary64_default_count_normal_start : forall start stop factor j take,
  let p := mkP ApiList start stop CNone factor j take in
  must_raise prim_ops p = false -> jitter_off prim_ops j = true ->
  PrimFloat.ltb PrimFloat.one factor = true ->
  PrimFloat.eqb start PrimFloat.zero = true \/ PrimFloat.leb minnorm start = true ->
  exists fuel,
    let o := run prim_ops p fuel [] in
    o_end o = EStop /\ values_ok prim_ops p (o_vals o) = true /\
    last_is prim_ops stop (o_vals o) = true.
Proof.
  intros start stop factor j take p M Off Lf Hs.
  apply binary64_default_count_last_is_stop; auto.
  destruct (must_raise_false_parts prim_ops p M) as [V _]. cbn [p p_start p_stop p_factor] in V.
  apply (no_stall_zero_or_normal start stop factor V Lf Hs).
Qed.

(* hence the guard of the open finding implies a subnormal start *)
Theorem known_guard_is_subnormal_start : forall p n, spec_known prim_ops p n = true ->
  PrimFloat.ltb PrimFloat.zero (p_start p) = true /\ PrimFloat.ltb (p_start p) minnorm = true.
Proof.
  intros p n H. unfold spec_known in H.
  apply andb_true_iff in H as [H St]. apply andb_true_iff in H as [H _].
  apply andb_true_iff in H as [M Lf]. apply negb_true_iff in M.
  destruct (must_raise_false_parts prim_ops p M) as [V _].
  destruct (valid_parts prim_ops _ _ _ V) as (H0 & _). simpl in H0, Lf.
  pose proof prim_order_laws as OL.
  assert (N0 : PrimFloat.eqb (p_start p) PrimFloat.zero = false).
  { destruct (PrimFloat.eqb (p_start p) PrimFloat.zero) eqn:E; [|reflexivity].
    rewrite (no_stall_zero_or_normal _ _ _ V Lf (or_introl E) n) in St. discriminate. }
  assert (N1 : PrimFloat.leb minnorm (p_start p) = false).
  { destruct (PrimFloat.leb minnorm (p_start p)) eqn:E; [|reflexivity].
    rewrite (no_stall_zero_or_normal _ _ _ V Lf (or_intror E) n) in St. discriminate. }
  split.
  - apply (neqb_0_lt prim_ops OL); assumption.
  - pose proof (ltb_negb_leb prim_ops OL (p_start p) minnorm) as K. simpl in K. rewrite K, N1; auto.
    + eapply (leb_num_r prim_ops OL). exact H0.
    + reflexivity.
Qed.

(* the default-count clause with jitter: for some fuel and number n of draws, whatever n or more
   draws in [0,1] random.random() returns, backoff() returns a list within the jitter bounds whose
   un-jittered value at the last position is stop *)
Theorem binary64_default_count_jitter : forall start stop factor j take,
  let p := mkP ApiList start stop CNone factor j take in
  must_raise prim_ops p = false -> PrimFloat.ltb PrimFloat.one factor = true ->
  PrimFloat.eqb start PrimFloat.zero = true \/ PrimFloat.leb minnorm start = true ->
  exists fuel n, forall draws, draws_ok prim_ops draws -> (n <= length draws)%nat ->
    let o := run prim_ops p fuel draws in
    o_end o = EStop /\ values_ok prim_ops p (o_vals o) = true /\
    last_is prim_ops stop (if jitter_off prim_ops j then o_vals o
                           else ideal prim_ops stop factor start (length (o_vals o))) = true.
Proof.
  intros start stop factor j take p M Lf Hs.
  destruct (must_raise_false_parts prim_ops p M) as [V _]. cbn [p p_start p_stop p_factor] in V.
  destruct (valid_parts prim_ops start stop factor V) as (H0 & _).
  destruct (default_count_terminates start stop factor H0) as [fuel Hfuel].
  exists fuel, (default_len prim_ops fuel start stop factor). intros draws Hd Hn.
  pose proof (run_list_default_not_fuel_draws prim_ops prim_order_laws
                start stop factor j take fuel draws V (Hfuel 1%Z) Hn) as NF.
  exact (default_count_last_is_stop prim_ops prim_order_laws prim_grow_laws prim_jitter_laws
           start stop factor j take fuel draws Hd M Lf
           (no_stall_zero_or_normal start stop factor V Lf Hs fuel) NF).
Qed.

(* through backoff_iter: for some fuel and number n of draws, pulling [take] values either leaves the
   iterator live after exactly [take] values or exhausts it on (the un-jittered) stop *)
Theorem binary64_default_count_iter : forall start stop factor j take,
  let p := mkP ApiIter start stop CNone factor j take in
  must_raise prim_ops p = false -> PrimFloat.ltb PrimFloat.one factor = true ->
  PrimFloat.eqb start PrimFloat.zero = true \/ PrimFloat.leb minnorm start = true -> take <> O ->
  exists fuel n, forall draws, draws_ok prim_ops draws -> (n <= length draws)%nat ->
    let o := run prim_ops p fuel draws in
    values_ok prim_ops p (o_vals o) = true /\
    ((o_end o = EMore /\ length (o_vals o) = take) \/
     (o_end o = EStop /\
      last_is prim_ops stop (if jitter_off prim_ops j then o_vals o
                             else ideal prim_ops stop factor start (length (o_vals o))) = true)).
Proof.
  intros start stop factor j take p M Lf Hs Ht.
  destruct (must_raise_false_parts prim_ops p M) as [V _]. cbn [p p_start p_stop p_factor] in V.
  destruct (valid_parts prim_ops start stop factor V) as (H0 & _).
  destruct (default_count_terminates start stop factor H0) as [fuel Hfuel].
  exists fuel, (Nat.max take (default_len prim_ops fuel start stop factor)). intros draws Hd Hn.
  pose proof (run_iter_default_not_fuel_draws prim_ops prim_order_laws
                start stop factor j take fuel draws V (Hfuel 1%Z)) as NF.
  exact (default_count_iter_last_is_stop prim_ops prim_order_laws prim_grow_laws prim_jitter_laws
           start stop factor j take fuel draws Hd M Lf
           (no_stall_zero_or_normal start stop factor V Lf Hs fuel) Ht
           (NF ltac:(lia) ltac:(lia))).
Qed.
