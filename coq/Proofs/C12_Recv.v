(* C12, receive side: every call of the model, from any state, on any
   well-formed network, either times out (losing nothing) or returns exactly
   what the reference says for remaining = rbuf ++ undelivered. *)
From Boltons Require Import Lib.Prelude Lib.C12_Base Spec.C12_Spec Model.C12_Model Proofs.C12_Find.

Definition remaining (s : bs) : bytes := rbuf s ++ flat (nt s).

Definition same_rest (s s' : bs) : Prop :=
  maxsize s' = maxsize s /\ recvsize s' = recvsize s /\ sbuf s' = sbuf s /\
  script s' = script s /\ wire s' = wire s /\ dl s' = dl s.

Lemma remaining_set_recv s rb n : remaining (set_recv s rb n) = rb ++ flat n.
Proof. reflexivity. Qed.

Lemma same_rest_refl s : same_rest s s.
Proof. repeat split. Qed.

Lemma same_rest_set_recv s rb n : same_rest s (set_recv s rb n).
Proof. repeat split. Qed.

Lemma same_rest_trans a b c : same_rest a b -> same_rest b c -> same_rest a c.
Proof. unfold same_rest. intuition congruence. Qed.

(* ---- the scripted socket ---------------------------------------------------------- *)
Lemma is_nil_false (b : bytes) : is_nil b = false <-> b <> [].
Proof. destruct b; cbn; split; congruence. Qed.

Lemma sock_recv_intr rs n e n' :
  wf_net n = true -> sock_recv rs n = (RIntr e, n') ->
  flat n = flat n' /\ intrs n = e :: intrs n' /\ wf_net n' = true /\ net_size n' < net_size n.
Proof.
  destruct n as [|[c| |c|c] r]; cbn; intros W H.
  - discriminate.
  - destruct (Nat.leb (length c) rs); discriminate.
  - inversion H; subst. repeat split; auto.
  - inversion H; subst. repeat split; auto.
  - destruct (Nat.leb (length c) rs); discriminate.
Qed.

Lemma intrs_head n e l : intrs n = e :: l -> is_intr_exn e = true.
Proof.
  induction n as [|[c| |c|c] r IH]; cbn; intro H; try discriminate; auto; inversion H; reflexivity.
Qed.

Lemma sock_recv_data rs n b n' :
  wf_net n = true -> 1 <= rs -> sock_recv rs n = (RData b, n') ->
  (b = [] /\ n = [] /\ n' = []) \/
  (b <> [] /\ flat n = b ++ flat n' /\ intrs n' = intrs n /\ wf_net n' = true /\
   net_size n' < net_size n).
Proof.
  intros W R H.
  assert (Hchunk : forall c r, negb (is_nil c) && wf_net r = true ->
            (if Nat.leb (length c) rs then (RData c, r) else (RData (firstn rs c), Chunk (skipn rs c) :: r))
            = (RData b, n') ->
            b <> [] /\ c ++ flat r = b ++ flat n' /\ intrs n' = intrs r /\ wf_net n' = true /\
            net_size n' < S (length c + net_size r)).
  { intros c r Wc0 Hc. apply andb_true_iff in Wc0 as [Wc Wr]. apply negb_true_iff, is_nil_false in Wc.
    destruct (Nat.leb (length c) rs) eqn:E; inversion Hc; subst.
    + repeat split; auto; lia.
    + apply Nat.leb_gt in E. repeat split.
      * destruct rs; [lia|]. destruct c; [congruence|]. cbn. congruence.
      * cbn. rewrite app_assoc, firstn_skipn. reflexivity.
      * cbn. rewrite Wr, andb_true_r. apply negb_true_iff, is_nil_false.
        intro Hn. apply (f_equal (@length N)) in Hn. rewrite skipn_length in Hn. cbn in Hn. lia.
      * cbn. rewrite skipn_length. lia. }
  destruct n as [|[c| |c|c] r]; cbn in *.
  - inversion H; subst. left. auto.
  - right. apply Hchunk; assumption.
  - discriminate.
  - discriminate.
  - right. apply Hchunk; assumption.
Qed.

Lemma lim_take_length stop (l : bytes) : length (lim_take stop l) <= length l.
Proof. destruct stop; cbn; [rewrite firstn_length|]; lia. Qed.

(* ---- how a call can be interrupted --------------------------------------------------------- *)
(* by the network: the next pending interruption was raised; or by the call's
   own deadline (only Timeout, only when the call has a timeout), the network
   raising nothing.  Either way the network has made progress (net_size). *)
Definition intr_by (d_on : bool) (e : exn) (n n' : net) : Prop :=
  net_size n' < net_size n /\
  (intrs n = e :: intrs n' \/ (e = Timeout /\ intrs n' = intrs n /\ d_on = true)).

(* inside a loop that may already be late *)
Definition intr_loop (d_on late : bool) (e : exn) (n n' : net) : Prop :=
  (intrs n = e :: intrs n' /\ net_size n' < net_size n) \/
  (e = Timeout /\ intrs n' = intrs n /\ d_on = true /\ net_size n' <= net_size n /\
   (late = true \/ net_size n' < net_size n)).

Lemma intr_loop_top d_on e n n' : intr_loop d_on false e n n' -> intr_by d_on e n n'.
Proof.
  intros [[H1 H2]|(H1 & H2 & H3 & H4 & [H5|H5])]; [split; auto|discriminate|split; auto].
Qed.

Lemma intr_loop_after_data d_on late late' e n n1 n' :
  net_size n1 < net_size n -> intrs n1 = intrs n ->
  intr_loop d_on late' e n1 n' -> intr_loop d_on late e n n'.
Proof.
  intros Hs Hi [[H1 H2]|(H1 & H2 & H3 & H4 & H5)].
  - left. split; [congruence|lia].
  - right. repeat split; auto; try congruence; try lia.
Qed.

Lemma intr_by_is_intr d_on e n n' : intr_by d_on e n n' -> is_intr_exn e = true.
Proof. intros [_ [H|(-> & _)]]; [exact (intrs_head _ _ _ H)|reflexivity]. Qed.

Lemma exn_eqb_refl' e : exn_eqb e e = true.
Proof. destruct e; cbn; auto using Nat.eqb_refl. Qed.

Lemma intr_by_explain d_on e n n' :
  intr_by d_on e n n' -> explain_intr d_on (OExn e) (intrs n) (length (intrs n')) = Some (intrs n').
Proof.
  intros [_ [H|(-> & H & ->)]]; unfold explain_intr.
  - rewrite H. cbn [length]. rewrite Nat.eqb_refl. cbn [next_intr]. rewrite exn_eqb_refl'. reflexivity.
  - rewrite H. assert (E : Nat.eqb (S (length (intrs n))) (length (intrs n)) = false)
      by (apply Nat.eqb_neq; lia).
    rewrite E, Nat.eqb_refl. reflexivity.
Qed.

(* ---- recv_until ------------------------------------------------------------------------ *)
Definition ru_post (d : bytes) (lim : limit) (d_on late : bool) (recvd : bytes) (n : net)
           (r : ru_res) (n' : net) : Prop :=
  let rem := recvd ++ flat n in
  wf_net n' = true /\
  match r with
  | RuFound off recvd' =>
      (exists pre, recvd' = recvd ++ pre /\ flat n = pre ++ flat n') /\
      intrs n' = intrs n /\
      first_occ d (lim_take lim rem) = Some off /\ off + length d <= length recvd'
  | RuExn e recvd' =>
      (exists pre, recvd' = recvd ++ pre /\ flat n = pre ++ flat n') /\
      (intr_loop d_on late e n n' \/
       (intrs n' = intrs n /\ first_occ d (lim_take lim rem) = None /\
        e = (if lim_exceeded lim rem then MessageTooLong else ConnectionClosed)))
  end.

Lemma ru_loop_ok d lim rs d_on : 1 <= rs -> forall fuel late recvd start n r n',
  wf_net n = true -> net_size n < fuel ->
  py_find d recvd start lim = py_find d recvd 0 lim ->
  ru_loop fuel d lim rs d_on late recvd start n = (r, n') ->
  ru_post d lim d_on late recvd n r n'.
Proof.
  intros R. induction fuel as [|f IH]; intros late recvd start n r n' W F Inv H; [lia|].
  cbn [ru_loop] in H. rewrite Inv in H. pose proof (py_find_first_occ d recvd lim) as A.
  destruct (py_find d recvd 0 lim) as [off|] eqn:Ef.
  - inversion H; subst. split; [assumption|]. split; [|split; [|split]].
    + exists []. rewrite app_nil_r. auto.
    + reflexivity.
    + apply first_occ_extend. congruence.
    + symmetry in A. apply first_occ_bound in A. pose proof (lim_take_length lim recvd). lia.
  - destruct (lim_exceeded lim recvd) eqn:Ex.
    + inversion H; subst. split; [assumption|]. split.
      * exists []. rewrite app_nil_r. auto.
      * right. destruct (lim_take_exceeded lim recvd (flat n') Ex) as [T1 T2].
        rewrite T1, T2. repeat split; congruence.
    + destruct (d_on && late) eqn:Edl.
      { (* the deadline has passed *)
        apply andb_true_iff in Edl as [-> ->]. inversion H; subst. split; [assumption|]. split.
        - exists []. rewrite app_nil_r. auto.
        - left. right. repeat split; auto. }
      destruct (sock_recv rs n) as [[b|] n1] eqn:Er.
      * destruct (sock_recv_data _ _ _ _ W R Er) as [(Hb & Hn & Hn1)|(Hb & Hf & Ht & W1 & Hs)].
        -- subst. inversion H; subst. split; [reflexivity|]. split.
           ++ exists []. rewrite app_nil_r. auto.
           ++ right. cbn [flat]. rewrite app_nil_r. rewrite Ex. repeat split; congruence.
        -- destruct b as [|x b]; [congruence|].
           assert (Hpost : ru_post d lim d_on (late || slow_head n) (recvd ++ x :: b) n1 r n').
           { apply (IH _ _ (length recvd + 1 - length d)); try assumption; try lia.
             apply find_rolling. exact Ef. }
           clear H. rename Hpost into H.
           unfold ru_post in *. destruct H as [W' H]. split; [assumption|].
           rewrite <- app_assoc, <- Hf in H.
           destruct r as [off recvd'|e recvd']; destruct H as [(pre & P1 & P2) H].
           ++ split; [exists ((x :: b) ++ pre); rewrite P1, Hf, P2, <- !app_assoc; auto|].
              rewrite Ht in H. exact H.
           ++ split; [exists ((x :: b) ++ pre); rewrite P1, Hf, P2, <- !app_assoc; auto|].
              destruct H as [H|H].
              ** left. eapply intr_loop_after_data; eauto.
              ** right. rewrite Ht in H. exact H.
      * inversion H; subst. destruct (sock_recv_intr _ _ _ _ W Er) as (Hf & Ht & W1 & Hs).
        split; [assumption|]. split.
        -- exists []. rewrite app_nil_r. auto.
        -- left. left. auto.
Qed.

(* what one receive-side call guarantees (d_on: the truth value of the call's timeout) *)
Definition recv_post (d_on : bool) (s : bs) (o : op) (out : outcome) (s' : bs) : Prop :=
  wf_net (nt s') = true /\ same_rest s s' /\ (exists pre, flat (nt s) = pre ++ flat (nt s')) /\
  ((exists e, out = OExn e /\ remaining s' = remaining s /\ intr_by d_on e (nt s) (nt s'))
   \/ (is_interrupt out = false /\ intrs (nt s') = intrs (nt s) /\
       match o with
       | Recv n => exists dd, out = OBytes dd /\ spec_recv_ok (remaining s) n dd = true /\
                              remaining s' = skipn (length dd) (remaining s)
       | _ => spec_framing (maxsize s) (remaining s) o = Some (out, remaining s')
       end)).

Lemma firstn_app_le {A} (l x : list A) k : k <= length l -> firstn k (l ++ x) = firstn k l.
Proof. intro H. rewrite firstn_app. replace (k - length l) with 0 by lia. cbn. apply app_nil_r. Qed.

Lemma skipn_app_le {A} (l x : list A) k : k <= length l -> skipn k (l ++ x) = skipn k l ++ x.
Proof. intro H. rewrite skipn_app. replace (k - length l) with 0 by lia. reflexivity. Qed.

Lemma recv_until_dl_ok d_on s d m w out s' :
  wf_net (nt s) = true -> 1 <= recvsize s ->
  recv_until_dl d_on s d m w = (out, s') -> recv_post d_on s (RecvUntil d m w) out s'.
Proof.
  intros W R H. unfold recv_until_dl in H.
  destruct (ru_loop _ _ _ _ _ _ _ _ _) as [r n'] eqn:E.
  apply ru_loop_ok in E; try assumption; try lia; [|reflexivity].
  destruct E as [W' E]. unfold recv_post, remaining.
  destruct r as [off recvd'|e recvd']; inversion H; subst; clear H; cbn [rbuf nt set_recv].
  - destruct E as ((pre & P1 & P2) & Ht & Ho & Hb).
    split; [assumption|]. split; [apply same_rest_set_recv|]. split; [eauto|].
    right. split; [reflexivity|]. split; [assumption|].
    cbn [spec_framing]. rewrite Ho.
    assert (Hrem : rbuf s ++ flat (nt s) = recvd' ++ flat n').
    { rewrite P1, P2, app_assoc. reflexivity. }
    rewrite Hrem. rewrite firstn_app_le by (destruct w; lia). rewrite skipn_app_le by lia. reflexivity.
  - destruct E as ((pre & P1 & P2) & E).
    assert (Hrem : recvd' ++ flat n' = rbuf s ++ flat (nt s)).
    { rewrite P1, P2, app_assoc. reflexivity. }
    split; [assumption|]. split; [apply same_rest_set_recv|]. split; [eauto|].
    destruct E as [Ht|(Ht & Ho & ->)].
    + left. exists e. split; [reflexivity|]. split; [assumption|]. apply intr_loop_top. exact Ht.
    + right. split; [destruct (lim_exceeded _ _); reflexivity|]. split; [assumption|].
      cbn [spec_framing]. rewrite Ho, Hrem. reflexivity.
Qed.

Lemma recv_until_ok s d m w out s' :
  wf_net (nt s) = true -> 1 <= recvsize s ->
  recv_until s d m w = (out, s') -> recv_post (dl s) s (RecvUntil d m w) out s'.
Proof. apply recv_until_dl_ok. Qed.

(* ---- recv_size ---------------------------------------------------------------------------- *)
Definition rs_post (size : limit) (d_on late : bool) (acc nxt : bytes) (n : net) (r : rs_res) (n' : net) : Prop :=
  wf_net n' = true /\ exists pre, flat n = pre ++ flat n' /\
  match r with
  | RsDone acc' total' nxt' =>
      acc' ++ nxt' = acc ++ nxt ++ pre /\ total' = length acc' + length nxt' /\ nxt' <> [] /\
      reached size total' = true /\ (reached size (length acc') = false \/ acc' = []) /\
      intrs n' = intrs n
  | RsExn e acc' =>
      acc' = acc ++ nxt ++ pre /\
      (intr_loop d_on late e n n' \/
       (e = ConnectionClosed /\ n' = [] /\ intrs n' = intrs n /\
        (reached size (length acc') = false \/ acc' = [])))
  end.

Lemma rs_loop_ok size rsz d_on : 1 <= rsz -> forall fuel late acc total nxt n r n',
  wf_net n = true -> net_size n + (if is_nil nxt then 1 else 2) <= fuel ->
  total = length acc -> (nxt = [] -> n = []) ->
  (reached size total = false \/ acc = []) ->
  rs_loop fuel size rsz d_on late acc total nxt n = (r, n') ->
  rs_post size d_on late acc nxt n r n'.
Proof.
  intros R. induction fuel as [|f IH]; intros late acc total nxt n r n' W F T Hc Hr H.
  { destruct (is_nil nxt); lia. }
  cbn [rs_loop] in H. destruct nxt as [|x nxt].
  - inversion H; subst. specialize (Hc eq_refl). subst. split; [reflexivity|].
    exists []. cbn. rewrite app_nil_r. repeat split. right. repeat split; auto.
  - cbn [is_nil] in F. remember (x :: nxt) as nx eqn:Enx.
    destruct (reached size (total + length nx)) eqn:Ereach.
    + inversion H; subst. split; [assumption|]. exists []. cbn [app]. rewrite !app_nil_r.
      repeat split; auto. congruence.
    + destruct (d_on && late) eqn:Edl.
      { apply andb_true_iff in Edl as [-> ->]. inversion H; subst. split; [assumption|]. exists [].
        cbn [app]. rewrite !app_nil_r. split; [reflexivity|]. split; [reflexivity|].
        left. right. repeat split; auto. }
      destruct (sock_recv rsz n) as [[b|] n1] eqn:Er.
      * destruct (sock_recv_data _ _ _ _ W R Er) as [(Hb & Hn & Hn1)|(Hb & Hf & Ht & W1 & Hs)].
        -- subst b n n1.
           assert (Hpost : rs_post size d_on (late || slow_head []) (acc ++ nx) [] [] r n').
           { eapply (IH _ (acc ++ nx) (total + length nx) [] []);
               [reflexivity | cbn; lia | rewrite app_length; lia | auto | left; exact Ereach | exact H]. }
           clear H. destruct Hpost as [W' (pre & P & H)]. split; [assumption|]. exists pre.
           split; [assumption|].
           destruct r as [acc' total' nxt'|e acc'].
           ++ destruct H as (H1 & H2). split; [|exact H2].
              rewrite H1. cbn [app]. rewrite <- !app_assoc. reflexivity.
           ++ destruct H as (H1 & H2). split.
              ** rewrite H1. cbn [app]. rewrite <- !app_assoc. reflexivity.
              ** destruct H2 as [H2|H2]; [|right; exact H2].
                 (* the recursive call ran on the closed network: it cannot have been interrupted *)
                 left. destruct H2 as [[H2 H3]|(H2 & H3 & H4 & H5 & H6)].
                 --- cbn in H2. discriminate.
                 --- right. repeat split; auto. rewrite orb_false_r in H6. exact H6.
        -- assert (Hpost : rs_post size d_on (late || slow_head n) (acc ++ nx) b n1 r n').
           { eapply (IH _ (acc ++ nx) (total + length nx) b n1);
               [assumption | destruct (is_nil b); lia | rewrite app_length; lia | intro; congruence
               | left; exact Ereach | exact H]. }
           clear H. destruct Hpost as [W' (pre & P & H)]. split; [assumption|]. exists (b ++ pre).
           split; [rewrite Hf, P, app_assoc; reflexivity|].
           destruct r as [acc' total' nxt'|e acc'].
           ++ destruct H as (H1 & H2 & H3 & H4 & H5 & H6). repeat split; auto; try congruence.
              rewrite H1, <- !app_assoc. reflexivity.
           ++ destruct H as (H1 & H2). split.
              ** rewrite H1, <- !app_assoc. reflexivity.
              ** destruct H2 as [H2|H2].
                 --- left. eapply intr_loop_after_data; eauto.
                 --- right. rewrite Ht in H2. exact H2.
      * inversion H; subst. destruct (sock_recv_intr _ _ _ _ W Er) as (Hf & Ht & W1 & Hs).
        split; [assumption|]. exists []. cbn [app]. rewrite !app_nil_r. split; [assumption|].
        split; [reflexivity|]. left. left. auto.
Qed.

(* recv_size with a size that may be infinite (recv_close(maxsize=None)) *)
Definition size_post (s : bs) (size : limit) (out : outcome) (s' : bs) : Prop :=
  let rem := remaining s in
  wf_net (nt s') = true /\ same_rest s s' /\ (exists pre, flat (nt s) = pre ++ flat (nt s')) /\
  ((exists e, out = OExn e /\ remaining s' = rem /\ intr_by (dl s) e (nt s) (nt s'))
   \/ (intrs (nt s') = intrs (nt s) /\
       match size with
       | Some k =>
           if Nat.leb k (length rem) && negb (is_nil rem)
           then out = OBytes (firstn k rem) /\ remaining s' = skipn k rem
           else out = OExn ConnectionClosed /\ nt s' = [] /\ rbuf s' = rem
       | None => out = OExn ConnectionClosed /\ nt s' = [] /\ rbuf s' = rem
       end)).

Lemma recv_size_lim_ok s size out s' :
  wf_net (nt s) = true -> 1 <= recvsize s ->
  recv_size_lim s size = (out, s') -> size_post s size out s'.
Proof.
  intros W R H. unfold recv_size_lim in H.
  (* the first chunk: the buffer, or one recv *)
  assert (Hfirst : (exists nxt n1,
            (match rbuf s with [] => sock_recv (recvsize s) (nt s) | rb => (RData rb, nt s) end)
            = (RData nxt, n1) /\ wf_net n1 = true /\ (nxt = [] -> n1 = []) /\
            remaining s = nxt ++ flat n1 /\ intrs n1 = intrs (nt s) /\
            (exists pre, flat (nt s) = pre ++ flat n1) /\
            net_size n1 <= net_size (nt s) /\
            (match rbuf s with [] => slow_head (nt s) | _ => false end = true -> net_size n1 < net_size (nt s)))
          \/ exists e1 n1,
            (match rbuf s with [] => sock_recv (recvsize s) (nt s) | rb => (RData rb, nt s) end)
            = (RIntr e1, n1) /\ rbuf s = [] /\ wf_net n1 = true /\ flat (nt s) = flat n1 /\
            intrs (nt s) = e1 :: intrs n1 /\ net_size n1 < net_size (nt s)).
  { unfold remaining. destruct (rbuf s) as [|x rb] eqn:Erb.
    - destruct (sock_recv (recvsize s) (nt s)) as [[b|] n1] eqn:Er.
      + left. exists b, n1. split; [reflexivity|].
        destruct (sock_recv_data _ _ _ _ W R Er) as [(Hb & Hn & Hn1)|(Hb & Hf & Ht & W1 & Hs)].
        * subst. rewrite Hn. repeat split; auto; try (exists []; reflexivity). cbn. discriminate.
        * repeat split; auto; try congruence; try lia. exists b. assumption.
      + right. exists e, n1. destruct (sock_recv_intr _ _ _ _ W Er) as (Hf & Ht & W1 & Hs).
        repeat split; auto.
    - left. exists (x :: rb), (nt s). repeat split; auto; try congruence; try discriminate.
      exists []. reflexivity. }
  destruct Hfirst as [(nxt & n1 & E1 & W1 & Hc & Hrem & Ht1 & (pre1 & Hp1) & Hle1 & Hlate1)
                     |(e1 & n1 & E1 & Erb & W1 & Hf & Ht & Hs1)];
    rewrite E1 in H.
  - destruct (rs_loop _ _ _ _ _ _ _ _ _) as [r n2] eqn:E2.
    apply rs_loop_ok in E2; auto; try (destruct (is_nil nxt); lia).
    destruct E2 as [W2 (pre & P & E2)].
    assert (Hsuf : exists p, flat (nt s) = p ++ flat n2).
    { exists (pre1 ++ pre). rewrite Hp1, P, app_assoc. reflexivity. }
    unfold size_post. rewrite Hrem.
    destruct r as [acc total nxt'|e acc]; inversion H; subst; clear H; unfold remaining;
      cbn [rbuf nt set_recv]; (split; [assumption|]); (split; [apply same_rest_set_recv|]);
      (split; [assumption|]).
    + destruct E2 as (H1 & H2 & H3 & H4 & H5 & H6). cbn [app] in H1. subst total. right.
      split; [congruence|].
      destruct size as [k|]; [|cbn in H4; discriminate].
      cbn [reached] in H4, H5. apply Nat.leb_le in H4.
      assert (Hk : length acc <= k).
      { destruct H5 as [H5| ->]; [apply Nat.leb_gt in H5; lia|cbn; lia]. }
      assert (Hfull : nxt ++ flat n1 = acc ++ nxt' ++ flat n2).
      { rewrite P, app_assoc, <- H1, <- app_assoc. reflexivity. }
      rewrite Hfull.
      assert (Hnn : is_nil (acc ++ nxt' ++ flat n2) = false).
      { apply is_nil_false. destruct acc; [destruct nxt'; [congruence|]|]; cbn; congruence. }
      rewrite Hnn. rewrite (proj2 (Nat.leb_le _ _)) by (rewrite !app_length; lia). cbn [andb negb].
      replace (length nxt' - (length acc + length nxt' - k)) with (k - length acc) by lia.
      split.
      * f_equal. rewrite firstn_app. rewrite (firstn_all2 (n := k)) by lia.
        f_equal. rewrite firstn_app_le by lia. reflexivity.
      * rewrite skipn_app. rewrite (skipn_all2 (n := k)) by lia. cbn [app].
        rewrite skipn_app_le by lia. reflexivity.
    + destruct E2 as (H1 & E2). cbn [app] in H1.
      destruct E2 as [Ht|(-> & Hn2 & Ht & Hr)].
      * left. exists e. split; [reflexivity|]. split; [rewrite H1, P, app_assoc; reflexivity|].
        destruct Ht as [[Ha Hb]|(Ha & Hb & Hc' & Hd & He)]; split; try lia.
        -- left. congruence.
        -- destruct He as [He|He]; [specialize (Hlate1 He)|]; lia.
        -- right. repeat split; auto. congruence.
      * right. split; [congruence|]. subst n2. cbn [flat] in P. rewrite app_nil_r in P.
        assert (Hacc : acc = nxt ++ flat n1) by (rewrite H1, P; reflexivity).
        rewrite <- Hacc. destruct size as [k|]; [|auto].
        replace (Nat.leb k (length acc) && negb (is_nil acc)) with false; [auto|].
        symmetry. destruct Hr as [Hr| ->]; [cbn in Hr; rewrite Hr; reflexivity|].
        cbn. apply andb_false_r.
  - inversion H; subst; clear H. unfold size_post, remaining. cbn [rbuf nt set_recv].
    split; [assumption|]. split; [apply same_rest_set_recv|]. split; [exists []; assumption|].
    left. exists e1. rewrite Erb. cbn [app]. split; [reflexivity|]. split; [congruence|].
    split; [assumption|]. left. assumption.
Qed.

Lemma recv_size_ok s k out s' :
  wf_net (nt s) = true -> 1 <= recvsize s ->
  recv_size s k = (out, s') -> recv_post (dl s) s (RecvSize k) out s'.
Proof.
  intros W R H. apply recv_size_lim_ok in H; auto.
  destruct H as (W' & SR & Suf & H). unfold recv_post. repeat (split; [assumption|]).
  destruct H as [H|(Ht & H)]; [left; exact H|right].
  cbn [spec_framing]. destruct (Nat.leb k (length (remaining s)) && negb (is_nil (remaining s))).
  - destruct H as [-> H]. rewrite H. auto.
  - destruct H as (-> & Hn & Hb). split; [reflexivity|]. split; [assumption|].
    replace (remaining s') with (remaining s); [reflexivity|].
    unfold remaining at 2. rewrite Hn, Hb. cbn [flat]. rewrite app_nil_r. reflexivity.
Qed.

(* ---- peek, recv_close, recv -------------------------------------------------------------------- *)
Lemma peek_ok s k out s' :
  wf_net (nt s) = true -> 1 <= recvsize s ->
  peek s k = (out, s') -> recv_post (dl s) s (Peek k) out s'.
Proof.
  intros W R H. unfold peek in H. destruct (Nat.leb k (length (rbuf s))) eqn:E.
  - apply Nat.leb_le in E. inversion H; subst; clear H. unfold recv_post.
    split; [assumption|]. split; [apply same_rest_refl|]. split; [exists []; reflexivity|].
    right. repeat split. cbn [spec_framing]. unfold remaining.
    rewrite (proj2 (Nat.leb_le _ _)) by (rewrite app_length; lia).
    rewrite firstn_app_le by assumption. reflexivity.
  - apply Nat.leb_gt in E. destruct (recv_size s k) as [o1 s1] eqn:E1.
    pose proof E1 as E1'. apply recv_size_lim_ok in E1'; auto.
    destruct E1' as (W' & SR & Suf & H1). unfold recv_post.
    destruct H1 as [(e & -> & Hrem & Ht)|(Ht & H1)].
    + inversion H; subst; clear H. repeat (split; [assumption|]). left. exists e. auto.
    + destruct (Nat.leb k (length (remaining s)) && negb (is_nil (remaining s))) eqn:Ec.
      * destruct H1 as [-> Hrem]. inversion H; subst; clear H. cbn [nt set_recv].
        split; [assumption|]. split; [exact SR|]. split; [assumption|]. right.
        split; [reflexivity|]. split; [assumption|]. cbn [spec_framing].
        apply andb_true_iff in Ec as [Ec _]. rewrite Ec.
        rewrite remaining_set_recv, <- app_assoc. change (rbuf s1 ++ flat (nt s1)) with (remaining s1).
        rewrite Hrem, firstn_skipn. reflexivity.
      * destruct H1 as (-> & Hn & Hb). inversion H; subst; clear H.
        repeat (split; [assumption|]). right. split; [reflexivity|]. split; [assumption|].
        cbn [spec_framing].
        assert (Hk : Nat.leb k (length (remaining s)) = false).
        { apply andb_false_iff in Ec as [Ec|Ec]; [assumption|].
          apply negb_false_iff in Ec. destruct (remaining s); [|discriminate].
          apply Nat.leb_gt. cbn. lia. }
        rewrite Hk. replace (remaining s') with (remaining s); [reflexivity|].
        unfold remaining at 2. rewrite Hn, Hb. cbn [flat]. rewrite app_nil_r. reflexivity.
Qed.

Lemma recv_close_ok s m out s' :
  wf_net (nt s) = true -> 1 <= recvsize s ->
  recv_close s m = (out, s') -> recv_post (dl s) s (RecvClose m) out s'.
Proof.
  intros W R H. unfold recv_close in H.
  destruct (recv_size_lim s (option_map S (resolve (maxsize s) m))) as [o1 s1] eqn:E1.
  apply recv_size_lim_ok in E1; auto. destruct E1 as (W' & SR & Suf & H1).
  unfold recv_post. destruct H1 as [(e & -> & Hrem & Ht)|(Ht & H1)].
  - pose proof (intr_by_is_intr _ _ _ _ Ht) as Hi.
    destruct e; try discriminate Hi; inversion H; subst; clear H; repeat (split; [assumption|]);
      left; eexists; auto.
  - cbn [spec_framing]. destruct (resolve (maxsize s) m) as [mx|] eqn:Em; cbn [option_map] in H1.
    + cbn [lim_exceeded].
      destruct (Nat.leb (S mx) (length (remaining s)) && negb (is_nil (remaining s))) eqn:Ec.
      * destruct H1 as [-> Hrem]. inversion H; subst; clear H. cbn [nt set_recv].
        split; [assumption|]. split; [exact SR|]. split; [assumption|]. right.
        split; [reflexivity|]. split; [assumption|].
        apply andb_true_iff in Ec as [Ec _]. apply Nat.leb_le in Ec.
        rewrite (proj2 (Nat.ltb_lt _ _)) by lia.
        rewrite remaining_set_recv, <- app_assoc. change (rbuf s1 ++ flat (nt s1)) with (remaining s1).
        rewrite Hrem. do 2 f_equal. symmetry. exact (firstn_skipn (S mx) (remaining s)).
      * destruct H1 as (-> & Hn & Hb). inversion H; subst; clear H. cbn [nt set_recv].
        split; [assumption|]. split; [exact SR|]. split; [assumption|]. right.
        split; [reflexivity|]. split; [assumption|].
        assert (Hk : Nat.ltb mx (length (remaining s)) = false).
        { apply andb_false_iff in Ec as [Ec|Ec].
          - apply Nat.leb_gt in Ec. apply Nat.ltb_ge. lia.
          - apply negb_false_iff in Ec. destruct (remaining s); [|discriminate]. reflexivity. }
        rewrite Hk. rewrite remaining_set_recv, Hn, Hb. reflexivity.
    + destruct H1 as (-> & Hn & Hb). inversion H; subst; clear H. cbn [nt set_recv lim_exceeded].
      split; [assumption|]. split; [exact SR|]. split; [assumption|]. right.
      split; [reflexivity|]. split; [assumption|].
      rewrite remaining_set_recv, Hn, Hb. reflexivity.
Qed.

Lemma is_prefix_firstn_self (l : bytes) k : is_prefix (firstn k l) l = true.
Proof.
  rewrite <- (firstn_skipn k l) at 2. apply is_prefix_self.
Qed.

Lemma recv_ok s k out s' :
  wf_net (nt s) = true -> 1 <= recvsize s ->
  recv s k = (out, s') -> recv_post (dl s) s (Recv k) out s'.
Proof.
  intros W R H. unfold recv in H. unfold recv_post, spec_recv_ok, remaining.
  destruct (Nat.leb k (length (rbuf s))) eqn:E.
  - apply Nat.leb_le in E. inversion H; subst; clear H. cbn [rbuf nt set_recv].
    split; [assumption|]. split; [apply same_rest_set_recv|]. split; [exists []; reflexivity|].
    right. repeat split. exists (firstn k (rbuf s)). rewrite firstn_length_le by assumption.
    split; [reflexivity|]. split.
    + rewrite is_prefix_app_r by apply is_prefix_firstn_self.
      rewrite Nat.leb_refl. cbn [andb].
      destruct k; [apply orb_true_r|]. destruct (rbuf s); [cbn in E; lia|]. reflexivity.
    + rewrite skipn_app_le by assumption. reflexivity.
  - apply Nat.leb_gt in E. destruct (rbuf s) as [|x rb] eqn:Erb.
    + destruct (sock_recv (recvsize s) (nt s)) as [[b|] n1] eqn:Er.
      * destruct (sock_recv_data _ _ _ _ W R Er) as [(Hb & Hn & Hn1)|(Hb & Hf & Ht & W1 & Hs)].
        -- subst b n1. rewrite Hn in *. cbn in H. inversion H; subst; clear H.
           cbn [rbuf nt set_recv]. split; [reflexivity|]. split; [apply same_rest_set_recv|].
           split; [exists []; reflexivity|]. right. repeat split. exists []. cbn. auto.
        -- destruct (Nat.ltb k (length b)) eqn:Ek; inversion H; subst; clear H; cbn [rbuf nt set_recv];
             (split; [assumption|]); (split; [apply same_rest_set_recv|]);
             (split; [exists b; assumption|]); right; (split; [reflexivity|]); (split; [assumption|]).
           ++ apply Nat.ltb_lt in Ek. exists (firstn k b). rewrite firstn_length_le by lia.
              cbn [app]. rewrite Hf. split; [reflexivity|]. split.
              ** rewrite is_prefix_app_r by apply is_prefix_firstn_self.
                 rewrite Nat.leb_refl. cbn [andb].
                 destruct k; [apply orb_true_r|]. destruct b; [congruence|]. reflexivity.
              ** rewrite skipn_app_le by lia. reflexivity.
           ++ apply Nat.ltb_ge in Ek. exists b. cbn [app]. rewrite Hf. split; [reflexivity|]. split.
              ** rewrite is_prefix_self. rewrite (proj2 (Nat.leb_le _ _)) by assumption.
                 destruct b; [congruence|]. reflexivity.
              ** rewrite skipn_app_le by lia. rewrite skipn_all. reflexivity.
      * inversion H; subst; clear H. destruct (sock_recv_intr _ _ _ _ W Er) as (Hf & Ht & W1 & Hs).
        cbn [rbuf nt set_recv]. split; [assumption|]. split; [apply same_rest_set_recv|].
        split; [exists []; assumption|]. left. exists e. cbn [app].
        split; [reflexivity|]. split; [congruence|]. split; [assumption|]. left. assumption.
    + inversion H; subst; clear H. cbn [rbuf nt set_recv].
      split; [assumption|]. split; [apply same_rest_set_recv|]. split; [exists []; reflexivity|].
      right. repeat split. exists (x :: rb). split; [reflexivity|]. split.
      * rewrite is_prefix_self. rewrite (proj2 (Nat.leb_le _ _)) by lia. reflexivity.
      * rewrite skipn_app_le by lia. rewrite skipn_all. reflexivity.
Qed.

(* ---- any receive-side call ------------------------------------------------------------------------ *)
Theorem step_recv_ok s o out s' :
  wf_net (nt s) = true -> 1 <= recvsize s -> is_recv_op o = true ->
  step s o = (out, s') -> recv_post (dl s) s o out s'.
Proof.
  intros W R Ho H. destruct o; try discriminate; cbn [step] in H.
  - apply recv_until_ok; assumption.
  - apply recv_size_ok; assumption.
  - apply peek_ok; assumption.
  - apply recv_close_ok; assumption.
  - apply recv_ok; assumption.
Qed.

(* ---- the network never grows ---------------------------------------------------------------------- *)
Lemma sock_recv_le rs n x n' : sock_recv rs n = (x, n') -> net_size n' <= net_size n.
Proof.
  destruct n as [|[c| |c|c] r]; cbn; intro H; try (inversion H; subst; cbn; lia);
    destruct (Nat.leb (length c) rs); inversion H; subst; cbn; try rewrite skipn_length; lia.
Qed.

Lemma ru_loop_le d lim rs d_on : forall fuel late recvd start n r n',
  ru_loop fuel d lim rs d_on late recvd start n = (r, n') -> net_size n' <= net_size n.
Proof.
  induction fuel as [|f IH]; intros late recvd start n r n' H; cbn [ru_loop] in H.
  - inversion H; subst. lia.
  - destruct (py_find d recvd start lim); [inversion H; subst; lia|].
    destruct (lim_exceeded lim recvd); [inversion H; subst; lia|].
    destruct (d_on && late); [inversion H; subst; lia|].
    destruct (sock_recv rs n) as [[[|x b]|e] n1] eqn:Er; pose proof (sock_recv_le _ _ _ _ Er);
      try (inversion H; subst; lia).
    apply IH in H. lia.
Qed.

Lemma rs_loop_le size rsz d_on : forall fuel late acc total nxt n r n',
  rs_loop fuel size rsz d_on late acc total nxt n = (r, n') -> net_size n' <= net_size n.
Proof.
  induction fuel as [|f IH]; intros late acc total nxt n r n' H; cbn [rs_loop] in H.
  - inversion H; subst. lia.
  - destruct nxt as [|x nxt]; [inversion H; subst; lia|].
    destruct (reached size _); [inversion H; subst; lia|].
    destruct (d_on && late); [inversion H; subst; lia|].
    destruct (sock_recv rsz n) as [[b|e] n1] eqn:Er; pose proof (sock_recv_le _ _ _ _ Er);
      try (inversion H; subst; lia).
    apply IH in H. lia.
Qed.

Lemma recv_until_dl_le d_on s d m w out s' :
  recv_until_dl d_on s d m w = (out, s') -> net_size (nt s') <= net_size (nt s).
Proof.
  unfold recv_until_dl. destruct (ru_loop _ _ _ _ _ _ _ _ _) as [r n'] eqn:E. apply ru_loop_le in E.
  destruct r; intro H; inversion H; subst; exact E.
Qed.

Lemma recv_size_lim_le s size out s' :
  recv_size_lim s size = (out, s') -> net_size (nt s') <= net_size (nt s).
Proof.
  unfold recv_size_lim.
  destruct (match rbuf s with [] => sock_recv (recvsize s) (nt s) | _ => _ end) as [[nxt|e] n1] eqn:E1.
  - assert (net_size n1 <= net_size (nt s)).
    { destruct (rbuf s); [exact (sock_recv_le _ _ _ _ E1)|inversion E1; subst; lia]. }
    destruct (rs_loop _ _ _ _ _ _ _ _ _) as [r n2] eqn:E2. apply rs_loop_le in E2.
    destruct r; intro H0; inversion H0; subst; cbn; lia.
  - assert (net_size n1 <= net_size (nt s)).
    { destruct (rbuf s); [exact (sock_recv_le _ _ _ _ E1)|inversion E1]. }
    intro H0; inversion H0; subst; cbn; lia.
Qed.

Lemma recv_le s k out s' : recv s k = (out, s') -> net_size (nt s') <= net_size (nt s).
Proof.
  unfold recv. destruct (Nat.leb _ _); [intro H; inversion H; subst; cbn; lia|].
  destruct (rbuf s); [|intro H; inversion H; subst; cbn; lia].
  destruct (sock_recv _ _) as [[b|e] n1] eqn:Er; pose proof (sock_recv_le _ _ _ _ Er).
  - destruct (Nat.ltb _ _); intro H0; inversion H0; subst; cbn; lia.
  - intro H0; inversion H0; subst; cbn; lia.
Qed.

Lemma intr_by_weaken d_on e n n' : intr_by d_on e n n' -> intr_by true e n n'.
Proof. intros [H1 [H2|(H2 & H3 & _)]]; split; auto. Qed.

(* an interruption in a later phase of a composite call is an interruption of the whole call *)
Lemma intr_by_later d_on e n n1 n' :
  net_size n1 <= net_size n -> intrs n1 = intrs n -> intr_by d_on e n1 n' -> intr_by d_on e n n'.
Proof.
  intros Hs Hi [H1 [H2|(H2 & H3 & H4)]]; split; try lia; [left; congruence|right; repeat split; auto; congruence].
Qed.
