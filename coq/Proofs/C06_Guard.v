(* C06: ONE statement of the full-quoting fixed point for parsed URLs, under an explicit, executable
   guard [fx_guard] (a boolean function of the parsed URL, the tables and the oracle answers) that
   dispatches to the three proved classes: no userinfo and no host / name-IPv4-IDN host / IPv6 host. *)
From Boltons Require Import Lib.Prelude Lib.C06_Text Spec.C06_Spec Model.C06_Model
  Proofs.C06_Codec Proofs.C06_Quote Proofs.C06_Lists Proofs.C06_Round Proofs.C06_Shape Proofs.C06_NoAuth
  Proofs.C06_Ports Proofs.C06_QuoteMin Proofs.C06_Parts Proofs.C06_RoundMin Proofs.C06_NoAuthMin.
Open Scope N_scope.

Section Guard.
Variable T : tables.
Variable O : oracles.
Let nfc := o_nfc O.

Definition pair_okb (kv : text * option text) : bool :=
  let '(k, v) := kv in
  all_scalar (nfc k) && match v with Some v => all_scalar (nfc v) | None => nonempty (nfc k) end.

Lemma pair_okb_ok kv : pair_okb kv = true -> C06_Round.pair_ok O kv.
Proof.
  destruct kv as [k [v|]]; cbn [pair_okb pair_ok]; intro H; apply andb_true_iff in H as [H1 H2]; split; try assumption.
  intro E. fold nfc in E. rewrite E in H2. discriminate.
Qed.

(* decoded components are scalar-value strings after NFC, parameters have keys *)
Definition comps_ok (u : url) : bool :=
  all_scalar (nfc (u_user u)) && all_scalar (nfc (u_pass u)) && all_scalar (nfc (u_frag u)) &&
  forallb (fun s => all_scalar (nfc s)) (u_path u) && forallb pair_okb (u_query u).

Definition is_ok_eq (r : mres text) (t : text) : bool := match r with MOk x => text_eqb x t | _ => false end.

(* a name / IPv4 / IDN host: encodable, the encoding is a host text, decodable, and encodes to the same text again *)
Definition host_plain_ok (u : url) : bool :=
  negb (u_family u =? 6) && negb (memN 58 (u_host u)) &&
  match o_idna_enc O (u_host u) with
  | MOk ht =>
    nonempty ht && forallb (not_in [58; 64; 47; 63; 35]) ht &&
    match o_inet4 O ht with MOk _ => true | _ => false end &&
    match (if all_ascii ht then o_idna_dec O ht else MOk ht) with
    | MOk h2 => nonempty h2 && negb (memN 58 h2) && is_ok_eq (o_idna_enc O h2) ht
    | _ => false
    end
  | _ => false
  end.

Definition host_v6_ok (u : url) : bool :=
  memN 58 (u_host u) && forallb (not_in [93; 64; 47; 63; 35]) (u_host u) &&
  match o_inet6 O (u_host u) with MOk V6Ok => true | _ => false end &&
  is_ok_eq (decode_host O (u_host u)) (u_host u).

Definition nonempty_list {A} (l : list A) : bool := match l with [] => false | _ => true end.

Definition fx_guard (u : url) : bool :=
  comps_ok u && port_wf (u_port u) &&
  match u_host u with
  | [] =>
    (* no authority, or an empty one: no userinfo either; a scheme-less reference must not look like "scheme:";
       the empty reference is excluded *)
    negb (nonempty (u_user u)) && negb (nonempty (u_pass u)) && nonempty_list (u_path u) &&
    (nonempty (u_scheme u) || noscheme (join [47] (map (quote_full T O CPath) (u_path u)))) &&
    match to_text T O true u with MOk (_ :: _) => true | _ => false end
  | _ => u_sep u && (host_plain_ok u || host_v6_ok u)
  end.
End Guard.

Lemma is_ok_eq_eq r t : is_ok_eq r t = true -> r = MOk t.
Proof. destruct r as [x| |]; cbn; intro H; try discriminate. apply text_eqb_eq in H. subst. reflexivity. Qed.

Lemma forallb_Forall {A} (p : A -> bool) l : forallb p l = true -> Forall (fun x => p x = true) l.
Proof. intro H. apply Forall_forall. rewrite forallb_forall in H. exact H. Qed.

Lemma not_nonempty (s : text) : negb (nonempty s) = true -> s = [].
Proof. destruct s; [reflexivity|discriminate]. Qed.

Theorem fixpoint_full_guarded T O :
  tables_ok T = true ->
  let nfc := o_nfc O in
  nfc [] = [] -> (forall x, nfc (nfc x) = nfc x) -> (forall x, nfc x = [] -> x = []) ->
  forall t u, url_init T O t = MOk u -> fx_guard T O u = true ->
  forall t1 u1, to_text T O true u = MOk t1 -> url_init T O t1 = MOk u1 -> to_text T O true u1 = MOk t1.
Proof.
  intros TOK nfc N0 IDEM NN t u P G t1 u1 R P1.
  destruct (parsed_shape T O t u P) as [S1' S2].
  assert (S1 : forallb (not_in [58; 47; 63; 35]) (u_scheme u) = true).
  { destruct (u_scheme u) as [|c0 cr] eqn:ES; [reflexivity|]. apply S1'. discriminate. }
  clear S1'.
  unfold fx_guard in G. apply andb_true_iff in G as [G GH]. apply andb_true_iff in G as [GC PV].
  unfold comps_ok in GC. repeat (apply andb_true_iff in GC as [GC ?]).
  rename GC into Su. rename H into Fq0. rename H0 into Fp0. rename H1 into Sf. rename H2 into Sp.
  assert (Fq : Forall (C06_Round.pair_ok O) (u_query u)).
  { apply Forall_forall. intros kv Hkv. apply pair_okb_ok. rewrite forallb_forall in Fq0. apply Fq0. exact Hkv. }
  pose proof (forallb_Forall _ _ Fp0) as Fp. cbn beta in Fp.
  destruct u as [scheme sep user pw fam host port path q frag]. cbn [u_scheme u_sep u_user u_pass u_family u_host u_port u_path u_query u_frag] in *.
  destruct host as [|h0 hr].
  - (* no host *)
    repeat (apply andb_true_iff in GH as [GH ?]).
    apply not_nonempty in GH. apply not_nonempty in H2. subst user pw.
    assert (NEp : path <> []) by (destruct path; [discriminate|discriminate]).
    assert (NS : scheme = [] -> noscheme (join [47] (map (quote_full T O CPath) path)) = true).
    { intro E. subst scheme. cbn [nonempty orb] in H0. exact H0. }
    assert (NEt : t1 <> []).
    { rewrite R in H. destruct t1; [discriminate|discriminate]. }
    apply (fixpoint_full_na T O TOK scheme sep fam port path q frag S1 N0 IDEM NEp Fp Fq Sf NS t1 u1 R NEt P1).
  - apply andb_true_iff in GH as [SEP GH]. destruct (S2 SEP) as [rest EP]. subst path.
    assert (Fr : Forall (fun s => all_scalar (nfc s) = true) rest) by (inversion Fp; assumption).
    apply orb_true_iff in GH as [GP|G6].
    + (* name / IPv4 / IDN host *)
      unfold host_plain_ok in GP. cbn [u_family u_host] in GP.
      apply andb_true_iff in GP as [GP GE]. apply andb_true_iff in GP as [F6 M58].
      apply negb_true_iff in F6. apply negb_true_iff in M58.
      destruct (o_idna_enc O (h0 :: hr)) as [ht| |] eqn:ENC; try discriminate.
      repeat (apply andb_true_iff in GE as [GE ?]).
      destruct (o_inet4 O ht) as [b4| |] eqn:I4; try discriminate.
      assert (HTNE : ht <> []) by (destruct ht; [discriminate|discriminate]).
      destruct (if all_ascii ht then o_idna_dec O ht else MOk ht) as [h2| |] eqn:DEC; try discriminate.
      repeat (apply andb_true_iff in H as [H ?]).
      assert (H2NE : h2 <> []) by (destruct h2; [discriminate|discriminate]).
      apply negb_true_iff in H3. apply is_ok_eq_eq in H2.
      assert (DEC' : if all_ascii ht then o_idna_dec O ht = MOk h2 else h2 = ht).
      { destruct (all_ascii ht); [exact DEC|]. inversion DEC. reflexivity. }
      apply (fixpoint_full_class T O TOK scheme sep user pw fam (h0 :: hr) port rest q frag ht b4 h2
               S1 N0 IDEM NN Su Sp Sf Fr Fq ltac:(discriminate) F6 M58 ENC HTNE H1 I4 DEC' H2NE H3 H2 PV t1 u1 R P1).
    + (* IPv6 host *)
      unfold host_v6_ok in G6. cbn [u_host] in G6.
      repeat (apply andb_true_iff in G6 as [G6 ?]).
      destruct (o_inet6 O (h0 :: hr)) as [[| |]| |] eqn:I6; try discriminate.
      apply is_ok_eq_eq in H.
      apply (fixpoint_full_v6 T O TOK scheme sep user pw fam (h0 :: hr) port rest q frag
               S1 N0 IDEM NN Su Sp Sf Fr Fq G6 H1 I6 H PV t1 u1 R P1).
Qed.

(* ---- the same for minimal quoting ---------------------------------------------------------------------- *)
Definition nopctb (s : text) : bool := negb (memN 37 s).
Definition pair_okmb (kv : text * option text) : bool :=
  let '(k, v) := kv in nopctb k && match v with Some v => nopctb v | None => nonempty k end.

Lemma pair_okmb_ok kv : pair_okmb kv = true -> pair_okm kv.
Proof.
  destruct kv as [k [v|]]; unfold pair_okmb, pair_okm, C06_Parts.pair_ok, nopct, nopctb, idt; intro H;
    apply andb_true_iff in H as [H1 H2]; apply negb_true_iff in H1; split; try exact H1.
  - apply negb_true_iff in H2. exact H2.
  - intro E. subst k. discriminate.
Qed.

Definition fx_guard_min (T : tables) (O : oracles) (u : url) : bool :=
  all_scalar (o_nfc O (u_user u)) && all_scalar (o_nfc O (u_pass u)) &&
  nopctb (u_frag u) && forallb nopctb (u_path u) && forallb pair_okmb (u_query u) && port_wf (u_port u) &&
  match u_host u with
  | [] =>
    negb (nonempty (u_user u)) && negb (nonempty (u_pass u)) && nonempty_list (u_path u) &&
    (nonempty (u_scheme u) || noscheme (join [47] (map (quote_min T CPath) (u_path u)))) &&
    match to_text T O false u with MOk (_ :: _) => true | _ => false end
  | h =>
    (* a name / IPv4 host, written as it is, that decodes to itself *)
    u_sep u && negb (u_family u =? 6) && forallb (not_in [58; 64; 47; 63; 35]) h &&
    match o_inet4 O h with MOk _ => true | _ => false end && is_ok_eq (decode_host O h) h
  end.

Theorem fixpoint_min_guarded T O :
  tables_ok T = true -> delims_ok T = true ->
  let nfc := o_nfc O in
  nfc [] = [] -> (forall x, nfc (nfc x) = nfc x) -> (forall x, nfc x = [] -> x = []) ->
  forall t u, url_init T O t = MOk u -> fx_guard_min T O u = true ->
  forall m u1, to_text T O false u = MOk m -> url_init T O m = MOk u1 -> to_text T O false u1 = MOk m.
Proof.
  intros TOK DOK nfc N0 IDEM NN t u P G m u1 R P1.
  destruct (parsed_shape T O t u P) as [S1' S2].
  assert (S1 : forallb (not_in [58; 47; 63; 35]) (u_scheme u) = true).
  { destruct (u_scheme u) as [|c0 cr] eqn:ES; [reflexivity|]. apply S1'. discriminate. }
  clear S1'.
  unfold fx_guard_min in G. repeat (apply andb_true_iff in G as [G ?]).
  rename G into Su. rename H into GH. rename H0 into PV. rename H1 into Fq0. rename H2 into Fp0. rename H3 into Sf. rename H4 into Sp.
  assert (Fq : Forall pair_okm (u_query u)).
  { apply Forall_forall. intros kv Hkv. apply pair_okmb_ok. rewrite forallb_forall in Fq0. apply Fq0. exact Hkv. }
  assert (Fp : Forall nopct (u_path u)).
  { apply Forall_forall. intros x Hx. rewrite forallb_forall in Fp0. specialize (Fp0 x Hx). apply negb_true_iff in Fp0. exact Fp0. }
  apply negb_true_iff in Sf.
  destruct u as [scheme sep user pw fam host port path q frag]. cbn [u_scheme u_sep u_user u_pass u_family u_host u_port u_path u_query u_frag] in *.
  destruct host as [|h0 hr].
  - repeat (apply andb_true_iff in GH as [GH ?]).
    apply not_nonempty in GH. apply not_nonempty in H2. subst user pw.
    assert (NEp : path <> []) by (destruct path; [discriminate|discriminate]).
    assert (NS : scheme = [] -> noscheme (join [47] (map (quote_min T CPath) path)) = true).
    { intro E. subst scheme. cbn [nonempty orb] in H0. exact H0. }
    assert (NEt : m <> []).
    { rewrite R in H. destruct m; [discriminate|discriminate]. }
    apply (fixpoint_min_na T O TOK DOK scheme sep fam port path q frag S1 NEp Fp Fq Sf NS m u1 R NEt P1).
  - repeat (apply andb_true_iff in GH as [GH ?]).
    destruct (S2 GH) as [rest EP]. subst path.
    assert (Fr : Forall nopct rest) by (inversion Fp; assumption).
    apply negb_true_iff in H2. apply is_ok_eq_eq in H.
    destruct (o_inet4 O (h0 :: hr)) as [b4| |] eqn:I4; try discriminate.
    apply (fixpoint_min_class T O TOK DOK scheme sep user pw fam (h0 :: hr) port rest q frag b4
             S1 N0 IDEM NN Su Sp Fr Fq Sf ltac:(discriminate) H2 H1 I4 H PV m u1 R P1).
Qed.
