(* A generic pass over the AtomicSaver program: a world predicate that every primitive
   event preserves (whatever its outcome) is preserved by the whole save. *)
From Boltons Require Import Lib.Prelude Model.C04_Model Proofs.C04_Hoare.

Section Pass.
  Variable J : world -> Prop.
  Definition JQ {A} : A -> world -> Prop := fun _ => J.
  Hypothesis Jprim : forall e forced, triple J (prim_f e forced) JQ JQ J.

  Lemma pass_rm c : triple J (rm_part_file c) JQ JQ J.
  Proof.
    unfold rm_part_file. destruct (c_rm_part_on_exc c).
    - eapply t_catch; [apply Jprim|]. intro e. apply t_ret. auto.
    - apply t_ret. auto.
  Qed.

  Lemma pass_rm_raise {A} c e : triple J (rm_part_file c ;;; raise e) (@JQ A) JQ J.
  Proof. eapply t_bind; [apply pass_rm|]. intros ?; cbv beta. apply t_raise. auto. Qed.

  Lemma pass_open_part c : triple J (open_part_file c) JQ JQ J.
  Proof.
    unfold open_part_file. eapply t_bind with (Q := JQ).
    - destruct (c_file_perms c); [apply t_ret; auto|].
      eapply t_bind with (Q := JQ); [apply t_read; auto|]. intro. apply t_ret. auto.
    - intros [perms do_chmod]. eapply t_bind; [apply Jprim|]. intros ?; cbv beta.
      eapply t_bind with (Q := JQ).
      + eapply t_catch; [apply Jprim|]. intro e. apply pass_rm_raise.
      + intros ?; cbv beta. destruct do_chmod; [|apply t_ret; auto].
        eapply t_catch; [apply Jprim|]. intro e.
        eapply t_bind with (Q := JQ).
        * eapply t_catch; [apply Jprim|]. intro e2. apply pass_rm_raise.
        * intros ?; cbv beta. apply pass_rm_raise.
  Qed.

  Lemma pass_setup c : triple J (setup c) JQ JQ J.
  Proof.
    unfold setup. eapply t_bind with (Q := JQ); [apply t_read; auto|]. intro de.
    destruct (de && negb (c_overwrite c)); [apply t_raise; auto|].
    eapply t_bind with (Q := JQ); [apply t_read; auto|]. intro pe.
    eapply t_bind with (Q := JQ).
    - destruct (c_overwrite_part c && pe); [apply Jprim|apply t_ret; auto].
    - intros ?; cbv beta. apply pass_open_part.
  Qed.

  Lemma pass_run_body ops : triple J (run_body ops) JQ JQ J.
  Proof.
    induction ops as [|o r IH]; cbn [run_body]; [apply t_ret; auto|].
    destruct o; (eapply t_bind; [apply Jprim|]; intros ?; cbv beta; exact IH).
  Qed.

  Lemma pass_exit c exc : triple J (exit_ c exc) JQ JQ J.
  Proof.
    unfold exit_. eapply t_bind with (Q := JQ); [apply t_read; auto|]. intro f.
    eapply t_bind with (Q := JQ).
    - assert (H : triple J
                    (catch (prim EFlush;;; prim EFsync;;; prim EClose)
                           (fun e => catch (prim EClose) (fun _ => ret tt);;; rm_part_file c;;; raise e))
                    JQ JQ J).
      { eapply t_catch.
        - eapply t_bind; [apply Jprim|]. intros ?; cbv beta.
          eapply t_bind; [apply Jprim|]. intros ?; cbv beta. apply Jprim.
        - intro e. eapply t_bind with (Q := JQ).
          + eapply t_catch; [apply Jprim|]. intro e2. apply t_ret. auto.
          + intros ?; cbv beta. apply pass_rm_raise. }
      destruct f; [apply t_ret; auto|exact H|exact H].
    - intros ?; cbv beta. destruct exc; [apply pass_rm|].
      eapply t_catch.
      + unfold atomic_rename. destruct (c_overwrite c); [apply Jprim|].
        eapply t_bind; [apply Jprim|]. intros ?; cbv beta. apply Jprim.
      + intro e. apply pass_rm_raise.
  Qed.

  Lemma pass_save c ops raises : triple J (save c ops raises) JQ JQ J.
  Proof.
    unfold save. eapply t_bind; [apply pass_setup|]. intros ?; cbv beta.
    intros w Hw.
    assert (Hb : triple J (body ops raises) JQ JQ J).
    { unfold body. eapply t_bind; [apply pass_run_body|]. intros ?; cbv beta.
      destruct raises; [apply t_raise; auto|apply t_ret; auto]. }
    specialize (Hb w Hw). destruct (body ops raises w) as [[x|e|] w'].
    - apply pass_exit. exact Hb.
    - assert (T : triple J (exit_ c true ;;; raise e) (@JQ unit) JQ J).
      { eapply t_bind; [apply pass_exit|]. intros ?; cbv beta. apply t_raise. auto. }
      apply T. exact Hb.
    - exact Hb.
  Qed.
End Pass.
