(* C02: every public method of the model refines the reference cache. *)
From Boltons Require Import Lib.Prelude Lib.C02_Syntax Spec.C02_Spec Model.C02_Model
  Proofs.C02_Lists Proofs.C02_Eqb Proofs.C02_Inv.
Close Scope N_scope.
Open Scope nat_scope.

Definition relational (o : op1) : bool :=
  match o with PopItem | Iter | Items => true | _ => false end.

Lemma accept_det c r o r' out :
  relational o = false -> spec_step c r o = (r', out) -> spec_accept c r o out = Some r'.
Proof.
  intros R E. destruct o; simpl in R; try discriminate; unfold spec_accept; rewrite E;
    now rewrite res_eqb_refl.
Qed.

Lemma inv_remove c m k :
  Inv c m -> In k (keys (ring m)) -> Inv c (set_sr m (d_del (store m) k) (d_del (ring m) k)).
Proof.
  intros [NR NS SAME LEN CAP SOFT] Hk.
  assert (Hks : In k (keys (store m))).
  { apply d_mem_iff. apply d_mem_iff in Hk. unfold d_mem in *. now rewrite SAME. }
  apply inv_set_sr; try assumption.
  - now apply nodup_del.
  - now apply nodup_del.
  - intro k'. rewrite !d_get_del by assumption. now rewrite SAME.
  - pose proof (length_del_in _ _ Hk). pose proof (length_del_in _ _ Hks). lia.
  - pose proof (length_del_in _ _ Hk). lia.
Qed.

Lemma ll_remove_in r k : In k (keys r) -> ll_remove r k = Some (d_del r k).
Proof. intro H. unfold ll_remove. apply d_mem_iff in H. now rewrite H. Qed.

(* LRI.__eq__ against a dict = "same finite map as the reference contents" *)
Lemma dict_eq_same_map (s d r : list (K * V)) :
  NoDup (keys s) -> NoDup (keys r) -> map_eq s r -> length d = length s ->
  forallb (fun kv => option_eqb Nat.eqb (d_get d (fst kv)) (Some (snd kv))) s = same_map d r.
Proof.
  intros NS NR SAME LEN. apply Bool.eq_true_iff_eq. split; intro H.
  - rewrite forallb_forall in H.
    assert (Hsd : forall k v, d_get s k = Some v -> d_get d k = Some v).
    { intros k v G. apply d_get_some_in in G. specialize (H _ G). simpl in H. now apply opt_eqb_some in H. }
    assert (I1 : incl (keys s) (keys d)).
    { intros k Hk. apply d_mem_iff in Hk. unfold d_mem in Hk. destruct (d_get s k) eqn:G; [|discriminate].
      apply Hsd in G. eapply d_get_some_keys; eauto. }
    assert (ND : NoDup (keys d)).
    { eapply NoDup_incl_NoDup; [exact NS| |exact I1]. unfold keys. rewrite !map_length. lia. }
    assert (I2 : incl (keys d) (keys s)).
    { apply NoDup_length_incl; [assumption| |assumption]. unfold keys. rewrite !map_length. lia. }
    apply same_map_true; [assumption|assumption|].
    intro k. rewrite <- SAME. destruct (d_get s k) eqn:G.
    + now apply Hsd.
    + apply d_get_none_iff. apply d_get_none_iff in G. intro Hk. apply G. now apply I2.
  - apply same_map_sound in H as [ND ME]; [|assumption].
    apply forallb_forall. intros [k v] Hin. simpl. apply opt_eqb_some.
    rewrite ME, <- SAME. now apply d_get_in_nd.
Qed.

Lemma cache_eq_same_map c m d : Inv c m -> cache_eq m d = same_map d (ring m).
Proof.
  intros [NR NS SAME LEN CAP SOFT]. unfold cache_eq, dict_eq.
  destruct (Nat.eqb_spec (length d) (length (store m))) as [E|E]; simpl.
  - rewrite <- E, Nat.eqb_refl. simpl. now apply dict_eq_same_map.
  - unfold same_map. destruct (Nat.eqb_spec (length d) (length (ring m))); [congruence|].
    now rewrite andb_false_r.
Qed.

Lemma same_map_iff l1 l2 :
  NoDup (keys l1) -> NoDup (keys l2) -> (same_map l1 l2 = true <-> map_eq l1 l2).
Proof.
  intros N1 N2. split; intro H.
  - now apply same_map_sound in H.
  - now apply same_map_true.
Qed.

Lemma last_of_rev_in {A} (l : list A) x r : rev l = x :: r -> In x l.
Proof. intro H. apply in_rev. rewrite H. now left. Qed.

(* ---- the simulation, one public method call -------------------------------- *)
Local Arguments spec_accept : simpl never.

Lemma step1_sim c m o :
  1 <= c_max c -> Inv c m ->
  exists m' out, step1 c m o = (m', out) /\ Inv c m'
    /\ spec_accept c (abs m) o out = Some (abs m')
    /\ (exists new, calls m' = new ++ calls m).
Proof.
  intros Hmax I. pose proof I as [NR NS SAME LEN CAP SOFT].
  destruct o as [k v|k|k d|k d|k|k d| | |e f|e|k| | | |d|d|f| |]; simpl step1.
  - (* SetItem *)
    destruct (setitem_sim c m k v Hmax I) as [m' [E [I' [A [C _]]]]]. rewrite E. simpl.
    exists m', (Ok ONone). split; [reflexivity|]. split; [assumption|]. split.
    + apply accept_det; [reflexivity|]. simpl. now rewrite A.
    + exists []. now rewrite C.
  - (* GetItem *)
    destruct (getitem_sim c m k Hmax I) as [m' [ov [E [I' [L [C _]]]]]]. rewrite E.
    destruct ov as [v|]; simpl.
    + exists m', (Ok (OVal v)). split; [reflexivity|]. split; [assumption|]. split; [|assumption].
      apply accept_det; [reflexivity|]. simpl. now rewrite L.
    + exists m', (Raise KeyError). split; [reflexivity|]. split; [assumption|]. split; [|assumption].
      apply accept_det; [reflexivity|]. simpl. now rewrite L.
  - (* Get *)
    destruct (getitem_sim c m k Hmax I) as [m' [ov [E [I' [L [C MS]]]]]]. rewrite E.
    destruct ov as [v|]; simpl.
    + exists m', (Ok (OVal v)). split; [reflexivity|]. split; [assumption|]. split; [|assumption].
      apply accept_det; [reflexivity|]. simpl. now rewrite L.
    + exists (bump_soft m'), (Ok (OVal d)). split; [reflexivity|]. split.
      * destruct I'. destruct (MS eq_refl) as [M S]. constructor; simpl; try assumption. lia.
      * split; [|assumption]. apply accept_det; [reflexivity|]. simpl. now rewrite L.
  - (* SetDefault *)
    destruct (getitem_sim c m k Hmax I) as [m' [ov [E [I' [L [C MS]]]]]]. rewrite E.
    destruct ov as [v|]; simpl.
    + exists m', (Ok (OVal v)). split; [reflexivity|]. split; [assumption|]. split; [|assumption].
      apply accept_det; [reflexivity|]. simpl. now rewrite L.
    + assert (IB : Inv c (bump_soft m')).
      { destruct I'. destruct (MS eq_refl) as [M S]. constructor; simpl; try assumption. lia. }
      destruct (setitem_sim c (bump_soft m') k d Hmax IB) as [m2 [E2 [I2 [A2 [C2 _]]]]].
      rewrite E2. simpl. exists m2, (Ok (OVal d)). split; [reflexivity|]. split; [assumption|]. split.
      * apply accept_det; [reflexivity|]. simpl. rewrite L. now rewrite A2.
      * destruct C as [new C]. exists new. rewrite C2. exact C.
  - (* DelItem *)
    rewrite (inv_mem c m k I). destruct (d_mem (ring m) k) eqn:DM.
    + assert (Hk : In k (keys (ring m))) by now apply d_mem_iff.
      rewrite ll_remove_in by assumption.
      eexists. eexists. split; [reflexivity|]. split; [now apply inv_remove|]. split; [|now exists []].
      apply accept_det; [reflexivity|]. simpl. unfold r_has. simpl. now rewrite DM.
    + exists m, (Raise KeyError). split; [reflexivity|]. split; [assumption|]. split; [|now exists []].
      apply accept_det; [reflexivity|]. simpl. unfold r_has. simpl. now rewrite DM.
  - (* Pop *)
    rewrite SAME. destruct (d_get (ring m) k) as [v|] eqn:G.
    + assert (Hk : In k (keys (ring m))) by (eapply d_get_some_keys; eauto).
      rewrite ll_remove_in by assumption.
      eexists. eexists. split; [reflexivity|]. split; [now apply inv_remove|]. split; [|now exists []].
      apply accept_det; [reflexivity|]. simpl. now rewrite G.
    + destruct d as [dv|].
      * exists m, (Ok (OVal dv)). split; [reflexivity|]. split; [assumption|]. split; [|now exists []].
        apply accept_det; [reflexivity|]. simpl. now rewrite G.
      * exists m, (Raise KeyError). split; [reflexivity|]. split; [assumption|]. split; [|now exists []].
        apply accept_det; [reflexivity|]. simpl. now rewrite G.
  - (* PopItem *)
    destruct (rev (store m)) as [|[k v] rest] eqn:R.
    + exists m, (Raise KeyError). split; [reflexivity|]. split; [assumption|]. split; [|now exists []].
      assert (store m = []).
      { rewrite <- (rev_involutive (store m)), R. reflexivity. }
      unfold spec_accept. simpl. destruct (ring m); [reflexivity|]. rewrite H in LEN. simpl in LEN. discriminate.
    + assert (Hin : In (k, v) (store m)) by (eapply last_of_rev_in; eauto).
      assert (G : d_get (ring m) k = Some v) by (rewrite <- SAME; now apply d_get_in_nd).
      assert (Hk : In k (keys (ring m))) by (eapply d_get_some_keys; eauto).
      rewrite ll_remove_in by assumption.
      eexists. eexists. split; [reflexivity|]. split; [now apply inv_remove|]. split; [|now exists []].
      unfold spec_accept. simpl. rewrite G. simpl. now rewrite Nat.eqb_refl.
  - (* Clear *)
    eexists. eexists. split; [reflexivity|]. split; [|split; [|now exists []]].
    + apply inv_set_sr; simpl; first [assumption | constructor | intro; reflexivity | lia].
    + apply accept_det; reflexivity.
  - (* Update *)
    destruct (setitems_sim c (e ++ f) m Hmax I) as [m' [E [I' [A [C _]]]]]. rewrite E. simpl.
    exists m', (Ok ONone). split; [reflexivity|]. split; [assumption|]. split.
    + apply accept_det; [reflexivity|]. simpl. now rewrite A.
    + exists []. now rewrite C.
  - (* IOr *)
    destruct (setitems_sim c e m Hmax I) as [m' [E [I' [A [C _]]]]]. rewrite E. simpl.
    exists m', (Ok (OBool true)). split; [reflexivity|]. split; [assumption|]. split.
    + apply accept_det; [reflexivity|]. simpl. now rewrite A.
    + exists []. now rewrite C.
  - (* Contains *)
    eexists. eexists. split; [reflexivity|]. split; [assumption|]. split; [|now exists []].
    apply accept_det; [reflexivity|]. simpl. unfold r_has. simpl. now rewrite (inv_mem c m k I).
  - (* Len *)
    eexists. eexists. split; [reflexivity|]. split; [assumption|]. split; [|now exists []].
    apply accept_det; [reflexivity|]. simpl. now rewrite LEN.
  - (* Iter *)
    eexists. eexists. split; [reflexivity|]. split; [assumption|]. split; [|now exists []].
    unfold spec_accept. simpl. change (d_keys (store m)) with (keys (store m)). now rewrite same_keys_true.
  - (* Items *)
    eexists. eexists. split; [reflexivity|]. split; [assumption|]. split; [|now exists []].
    unfold spec_accept. simpl. now rewrite same_map_true.
  - (* EqDict *)
    eexists. eexists. split; [reflexivity|]. split; [assumption|]. split; [|now exists []].
    apply accept_det; [reflexivity|]. simpl. now rewrite (cache_eq_same_map c m d I).
  - (* NeDict *)
    eexists. eexists. split; [reflexivity|]. split; [assumption|]. split; [|now exists []].
    apply accept_det; [reflexivity|]. simpl. now rewrite (cache_eq_same_map c m d I).
  - (* UpdateSelf *)
    destruct (setitems_sim c f m Hmax I) as [m' [E [I' [A [C _]]]]]. rewrite E. simpl.
    exists m', (Ok ONone). split; [reflexivity|]. split; [assumption|]. split.
    + apply accept_det; [reflexivity|]. simpl. now rewrite A.
    + exists []. now rewrite C.
  - (* EqOther *)
    eexists. eexists. split; [reflexivity|]. split; [assumption|]. split; [|now exists []].
    apply accept_det; reflexivity.
  - (* NeOther *)
    eexists. eexists. split; [reflexivity|]. split; [assumption|]. split; [|now exists []].
    apply accept_det; reflexivity.
Qed.
