(* C01, (T) tie from the Python source: the regenerated programs of __eq__ and __ne__, interpreted by
   Model/C01_SrcLang.v with the callees interpreted one layer below, compute exactly the pointer-level
   model's equality (pm_eq_omd / pm_eq_map / the constant answers) and leave the state unchanged. *)
From Boltons Require Import Lib.Prelude Spec.C01_Spec Model.C01_Model Model.C01_Ptr Model.C01_PModel
  Model.C01_SrcLang Gen.C01_Src Proofs.C01_Base Proofs.C01_PSimDefs Proofs.C01_PSim1 Proofs.C01_PSim2
  Proofs.C01_SrcDefs Proofs.C01_SrcInv Proofs.C01_SrcEq1 Proofs.C01_SrcEq2 Proofs.C01_SrcEq4.

Local Arguments d_get : simpl never.
Local Arguments d_set : simpl never.
Local Arguments d_del : simpl never.
Local Arguments rev : simpl never.
Local Arguments sem : simpl never.
Local Arguments fuel_of : simpl never.
Local Arguments loop : simpl never.
Local Arguments for_each : simpl never.
Local Arguments for_each2 : simpl never.
Local Arguments for_zip : simpl never.
Local Arguments pm_items : simpl never.
Local Arguments pm_iterkeys : simpl never.
Local Arguments pm_items1 : simpl never.
Local Arguments pm_getitem : simpl never.
Local Arguments p_cells : simpl never.
Local Arguments p_cells_rev : simpl never.
Local Arguments zip_eq : simpl never.
Local Arguments p_eq_map_loop : simpl never.

(* what `self == other` is in the model, by the kind of `other` *)
Definition eq_model (p : pomd) (x : pv) : res bool :=
  match x with
  | VArg ASelf => Ok true
  | VOtherObj q => Ok (pm_eq_omd p q)
  | VArg (AMap m) => pm_eq_map p m
  | VJunk _ => Ok false
  | _ => Raise type_error
  end.
Definition eq_arg_ok (x : pv) : Prop :=
  match x with VArg ASelf | VOtherObj _ | VArg (AMap _) | VJunk _ => True | _ => False end.

(* ---- the zip_longest loop ------------------------------------------------------------------------- *)
(* if k1 != k2 or v1 != v2: return False *)
Definition zip_body : stmt :=
  SIf (EOr (ENe (EVar 3) (EVar 5)) (ENe (EVar 4) (EVar 6))) (SReturn EFalse) SPass.

Lemma for_zip_nil_nil k1 v1 k2 v2 body en s :
  for_zip k1 v1 k2 v2 [] [] body en s = (ONormal, en, s).
Proof. reflexivity. Qed.

Lemma for_zip_nil_cons k1 v1 k2 v2 c d rb body en s :
  for_zip k1 v1 k2 v2 [] ((c, d) :: rb) body en s
  = match body (env_set (env_set (env_set (env_set en k1 VMissing) v1 VMissing) k2 (VTok c)) v2 (VTok d)) s with
    | (ONormal, en2, s2) => for_zip k1 v1 k2 v2 [] rb body en2 s2
    | o => o
    end.
Proof. reflexivity. Qed.

Lemma for_zip_cons_nil k1 v1 k2 v2 a b ra body en s :
  for_zip k1 v1 k2 v2 ((a, b) :: ra) [] body en s
  = match body (env_set (env_set (env_set (env_set en k1 (VTok a)) v1 (VTok b)) k2 VMissing) v2 VMissing) s with
    | (ONormal, en2, s2) => for_zip k1 v1 k2 v2 ra [] body en2 s2
    | o => o
    end.
Proof. reflexivity. Qed.

Lemma for_zip_cons_cons k1 v1 k2 v2 a b ra c d rb body en s :
  for_zip k1 v1 k2 v2 ((a, b) :: ra) ((c, d) :: rb) body en s
  = match body (env_set (env_set (env_set (env_set en k1 (VTok a)) v1 (VTok b)) k2 (VTok c)) v2 (VTok d)) s with
    | (ONormal, en2, s2) => for_zip k1 v1 k2 v2 ra rb body en2 s2
    | o => o
    end.
Proof. reflexivity. Qed.

Lemma exec_zip_body_tt callee fu en s a b c d :
  exec callee fu zip_body
       (env_set (env_set (env_set (env_set en 3 (VTok a)) 4 (VTok b)) 5 (VTok c)) 6 (VTok d)) s
  = (if Nat.eqb a c && Nat.eqb b d then ONormal else OReturn (VBool false),
     env_set (env_set (env_set (env_set en 3 (VTok a)) 4 (VTok b)) 5 (VTok c)) 6 (VTok d), s).
Proof.
  unfold zip_body. cbn. unfold eval_truth. cbn.
  destruct (Nat.eqb a c); cbn; [|reflexivity].
  destruct (Nat.eqb b d); reflexivity.
Qed.

Lemma exec_zip_body_tm callee fu en s a b :
  exec callee fu zip_body
       (env_set (env_set (env_set (env_set en 3 (VTok a)) 4 (VTok b)) 5 VMissing) 6 VMissing) s
  = (OReturn (VBool false),
     env_set (env_set (env_set (env_set en 3 (VTok a)) 4 (VTok b)) 5 VMissing) 6 VMissing, s).
Proof. reflexivity. Qed.

Lemma exec_zip_body_mt callee fu en s c d :
  exec callee fu zip_body
       (env_set (env_set (env_set (env_set en 3 VMissing) 4 VMissing) 5 (VTok c)) 6 (VTok d)) s
  = (OReturn (VBool false),
     env_set (env_set (env_set (env_set en 3 VMissing) 4 VMissing) 5 (VTok c)) 6 (VTok d), s).
Proof. reflexivity. Qed.
Local Arguments zip_body : simpl never.

Lemma zip_eq_cons_cons a b ra c d rb :
  zip_eq ((a, b) :: ra) ((c, d) :: rb)
  = if Nat.eqb a c && Nat.eqb b d then zip_eq ra rb else false.
Proof. reflexivity. Qed.

Lemma for_zip_eq callee fu : forall la lb en s,
  exists en', for_zip 3 4 5 6 la lb (exec callee fu zip_body) en s
              = (if zip_eq la lb then ONormal else OReturn (VBool false), en', s).
Proof.
  induction la as [|[a b] ra IH]; intros lb en s.
  - destruct lb as [|[c d] rb].
    + rewrite for_zip_nil_nil. eexists. reflexivity.
    + rewrite for_zip_nil_cons, exec_zip_body_mt. eexists. reflexivity.
  - destruct lb as [|[c d] rb].
    + rewrite for_zip_cons_nil, exec_zip_body_tm. eexists. reflexivity.
    + rewrite for_zip_cons_cons, exec_zip_body_tt, zip_eq_cons_cons.
      destruct (Nat.eqb a c && Nat.eqb b d).
      * apply IH.
      * eexists. reflexivity.
Qed.

(* ---- the loop over the keys, for a plain mapping ---------------------------------------------------- *)
(* try: if other[selfk] != self[selfk]: return False   except KeyError: return False *)
Definition map_body : stmt :=
  STryKeyError (SIf (ENe (EArgGet (EVar 0) (EVar 3)) (ECall1 MGetItem (EVar 3))) (SReturn EFalse) SPass)
               (SReturn EFalse).

Lemma exec_map_body n fu en p m k v :
  env_get en 0 = Ok (VArg (AMap m)) -> env_get en 3 = Ok (VTok k) -> pm_getitem p k = Ok v ->
  exec (sem (S n)) fu map_body en p
  = (match d_get m k with
     | None => OReturn (VBool false)
     | Some ov => if Nat.eqb ov v then ONormal else OReturn (VBool false)
     end, en, p).
Proof.
  intros E0 E3 Eg. unfold map_body. cbn. unfold eval_truth. cbn. rewrite E0, E3.
  destruct (d_get m k) as [ov|]; cbn; [|reflexivity].
  rewrite ?E3. rewrite (source_getitem n p p k). unfold pm_op. rewrite Eg. cbn.
  destruct (Nat.eqb ov v); reflexivity.
Qed.
Local Arguments map_body : simpl never.

Lemma p_eq_map_loop_cons p m k r :
  p_eq_map_loop p m (k :: r)
  = match d_get m k with
    | None => Ok false
    | Some ov => do v <- pm_getitem p k; if Nat.eqb ov v then p_eq_map_loop p m r else Ok false
    end.
Proof. reflexivity. Qed.

Lemma for_map n fu p m : forall ks en,
  env_get en 0 = Ok (VArg (AMap m)) ->
  (forall k, In k ks -> exists v, pm_getitem p k = Ok v) ->
  exists b en', p_eq_map_loop p m ks = Ok b
                /\ for_each 3 ks (exec (sem (S n)) fu map_body) en p
                   = (if b then ONormal else OReturn (VBool false), en', p).
Proof.
  induction ks as [|k r IH]; intros en E0 Hk.
  - exists true, en. split; reflexivity.
  - destruct (Hk k (or_introl eq_refl)) as [v Eg].
    rewrite for_each_cons, p_eq_map_loop_cons.
    rewrite (exec_map_body n fu _ p m k v); [|exact E0|reflexivity|exact Eg].
    rewrite Eg. cbn [bind].
    destruct (d_get m k) as [ov|].
    + destruct (Nat.eqb ov v).
      * apply IH; [exact E0 | intros k' H'; apply Hk; right; exact H'].
      * exists false. eexists. split; reflexivity.
    + exists false. eexists. split; reflexivity.
Qed.

(* under the invariant, self[k] succeeds for every key that iteration yields *)
Lemma pinv_iterkeys_getitem p : PInv p -> forall k, In k (pm_iterkeys p) -> exists v, pm_getitem p k = Ok v.
Proof.
  intros [G HS] k Hin. rewrite sim_iterkeys, iterkeys_correct in Hin. apply keys1_has_key in Hin.
  rewrite sim_getitem, (getitem_correct (lift p) k HS), Hin. eexists. reflexivity.
Qed.

Lemma pinv_eq_map_ok p m : PInv p -> exists b, pm_eq_map p m = Ok b.
Proof.
  intro I. unfold pm_eq_map. destruct (negb (length m =? length (pstore p))); [eexists; reflexivity|].
  destruct (for_map 0 0 p m (pm_iterkeys p) [(0, VArg (AMap m))] eq_refl (pinv_iterkeys_getitem p I))
    as (b & _ & E & _).
  exists b. exact E.
Qed.

Lemma gen_eq_eq : gen_eq =
  (SSeq (SIf (EIsSelf (EVar 0)) (SReturn ETrue) SPass) (SSeq (STryTypeError (SIf (ENe (ELenObj (EVar 0)) ELenSelf) (SReturn EFalse) SPass) (SReturn EFalse)) (SSeq (SIf (EIsOMD (EVar 0)) (SSeq (SAssign 1 (ECall1 MIterItems ETrue)) (SSeq (SAssign 2 (EArgItemsMulti (EVar 0))) (SSeq (SForZip 3 4 5 6 (EVar 1) (EVar 2) zip_body) (SSeq (SIf (ENot (EAnd EExhausted EExhausted)) (SReturn EFalse) SPass) (SReturn ETrue))))) (SIf (EHasKeys (EVar 0)) (SSeq (SFor 3 (ECall0 MIter) map_body) (SReturn ETrue)) SPass)) (SReturn EFalse)))).
Proof. reflexivity. Qed.

Lemma source_eq n p x : PInv p -> eq_arg_ok x ->
  sem (S (S (S n))) MEq [x] p
  = (match eq_model p x with Ok b => Ok (VBool b) | Raise e => Raise e end, p).
Proof.
  intros I Hx. pose proof I as [G HS]. rewrite sem_S, run_body_fin. unfold gen_prog. rewrite gen_eq_eq.
  destruct x as [| | | | | | | |a|q| | | | | | | | |j| | | | |]; try contradiction.
  - destruct a as [l|m| |]; try contradiction.
    2: (* self *) reflexivity.
    + (* a plain mapping *)
      cbn. unfold eval_truth. cbn. unfold pm_eq_map.
      destruct (negb (length m =? length (pstore p))); cbn; [reflexivity|].
      rewrite (source_iter n p G).
      destruct (for_map (S n) (fuel_of p) p m (pm_iterkeys p) [(0, VArg (AMap m))] eq_refl
                  (pinv_iterkeys_getitem p I)) as (b & en' & Eb & EL).
      rewrite EL, Eb. destruct b; reflexivity.
  - (* another OrderedMultiDict *)
    cbn. unfold eval_truth. cbn. unfold pm_eq_omd.
    destruct (negb (length (pstore q) =? length (pstore p))); cbn; [reflexivity|].
    rewrite (source_iteritems n p true G). cbn.
    destruct (for_zip_eq (sem (S (S n))) (fuel_of p) (pm_items p) (pm_items q)
                (env_set (env_set [(0, VOtherObj q)] 1 (VPairs (pm_items p))) 2 (VPairs (pm_items q))) p)
      as (en' & EL).
    rewrite EL. destruct (zip_eq (pm_items p) (pm_items q)); reflexivity.
  - (* neither *)
    destruct j as [len|]; cbn; unfold eval_truth; cbn; [|reflexivity].
    destruct (negb (len =? length (pstore p))); reflexivity.
Qed.

Lemma source_ne n p x : PInv p -> eq_arg_ok x ->
  sem (S (S (S (S n)))) MNe [x] p
  = (match eq_model p x with Ok b => Ok (VBool (negb b)) | Raise e => Raise e end, p).
Proof.
  intros I Hx. rewrite sem_S, run_body_fin. unfold gen_prog, gen_ne. cbn.
  rewrite (source_eq n p x I Hx). destruct (eq_model p x) as [b|e]; reflexivity.
Qed.

Print Assumptions source_eq.
Print Assumptions source_ne.
