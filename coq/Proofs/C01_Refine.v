(* C01: what it means for one modelled operation to refine the pair-list reference. *)
From Boltons Require Import Lib.Prelude Spec.C01_Spec Model.C01_Model Proofs.C01_Base.

(* from states satisfying the invariant the model's operation returns exactly what the
   reference returns on the abstracted pair lists, leaves a state that again satisfies the
   invariant and abstracts to the reference's next list; when it raises, the reference
   raises the same exception and the (unchanged) state is the reference's next state *)
Definition refines_op (op_ : op) : Prop :=
  forall s o, Inv s -> Inv o -> wf_op op_ = true ->
    match m_op s o op_ with
    | Ok (s', x) => Inv s' /\ spec_step (abs s) (abs o) op_ = (abs s', Ok x)
    | Raise e => spec_step (abs s) (abs o) op_ = (abs s, Raise e)
    end.

Lemma view_correct s : StoreOk s -> m_view s = spec_view (abs s).
Proof.
  intro H. unfold m_view, spec_view. f_equal. rewrite iterkeys_correct.
  apply map_ext. intro k. rewrite getlist_correct by assumption. reflexivity.
Qed.
