(* C15: soundness of the correspondence verdict.  If the checker's [agree] bit is true for a
   case, then the implementation's observation recorded in that case satisfies the Spec (or the
   call is inside the recorded finding): the theorem about the model transfers to the code on
   that run.  So [holds], which the check evaluates separately, is a cross-check of this proof. *)
From Coq Require Import Floats.
From Boltons Require Import Lib.Prelude Lib.C15_Float Spec.C15_Spec Model.C15_Model
  Check.C15_Check Proofs.C15_Proofs Proofs.C15_Prim.

Section TieGeneric.
  Context {F : Type} (fo : fops F).
  Local Notation zero := (f0 fo).
  Hypothesis Hz : feqb fo zero zero = true.

  Fixpoint map2e (j : F) (bs rs : list F) : list F :=
    match bs, rs with
    | b :: bs', r :: rs' => emit fo true j b r :: map2e j bs' rs'
    | _, _ => []
    end.

  Lemma gen_loop_plain_length : forall n j stop factor a d bs,
    gen_loop fo n false j stop factor a d = Some bs -> length bs = n.
  Proof.
    induction n as [|n IH]; intros j stop factor a d bs H; simpl in H.
    - inversion H. reflexivity.
    - destruct (gen_loop fo n false j stop factor (step fo stop factor a) d) as [l|] eqn:G;
        simpl in H; [|discriminate].
      inversion H; subst. simpl. f_equal. eapply IH; eauto.
  Qed.

  Lemma gen_loop_jit_of_plain : forall n j j0 stop factor a rs bs d0,
    gen_loop fo n false j0 stop factor a d0 = Some bs -> length rs = n ->
    gen_loop fo n true j stop factor a rs = Some (map2e j bs rs).
  Proof.
    induction n as [|n IH]; intros j j0 stop factor a rs bs d0 H L; simpl in H.
    - inversion H; subst. destruct rs; [reflexivity|discriminate].
    - destruct (gen_loop fo n false j0 stop factor (step fo stop factor a) d0) as [l|] eqn:G;
        simpl in H; [|discriminate].
      inversion H; subst bs. destruct rs as [|r rs']; [discriminate|].
      simpl in L. injection L as L. simpl.
      rewrite (IH j j0 stop factor (step fo stop factor a) rs' l d0 G L). reflexivity.
  Qed.

  Lemma prepare_zero_jit : forall fuel s st f c n jit,
    prepare fo fuel s st f c zero = PreOk n jit -> jit = false.
  Proof.
    intros fuel s st f c n jit H. unfold prepare in H. rewrite Hz in H. simpl negb in H.
    destruct (negb (fleb fo zero s)); [discriminate|].
    destruct (negb (fleb fo (f1 fo) f)); [discriminate|].
    destruct (feqb fo st zero); [discriminate|].
    destruct (negb (fleb fo s st)); [discriminate|].
    cbv zeta in H.
    destruct c as [|z|].
    - destruct (default_count fo fuel st f s 1) as [m| |]; try discriminate.
      destruct (Z.ltb m 0); [discriminate|]. inversion H. reflexivity.
    - destruct (Z.ltb z 0); [discriminate|]. inversion H. reflexivity.
    - inversion H. reflexivity.
  Qed.

  Lemma prepare_plain : forall fuel s st f c j,
    jitter_valid fo j = true -> jitter_off fo j = false ->
    prepare fo fuel s st f c j =
      match prepare fo fuel s st f c zero with PreOk n _ => PreOk n true | x => x end.
  Proof.
    intros fuel s st f c j Hv Hoff. unfold prepare. rewrite Hz.
    unfold jitter_valid in Hv. rewrite Hoff in Hv. simpl in Hv.
    unfold jitter_off in Hoff. rewrite Hoff, Hv. simpl negb.
    destruct (negb (fleb fo zero s)); [reflexivity|].
    destruct (negb (fleb fo (f1 fo) f)); [reflexivity|].
    destruct (feqb fo st zero); [reflexivity|].
    destruct (negb (fleb fo s st)); [reflexivity|].
    cbv zeta.
    destruct c as [|z|].
    - destruct (default_count fo fuel st f s 1) as [m| |]; try reflexivity.
      destruct (Z.ltb m 0); reflexivity.
    - destruct (Z.ltb z 0); reflexivity.
    - reflexivity.
  Qed.

  Definition plainp (p : params F) : params F :=
    mkP (p_api p) (p_start p) (p_stop p) (p_count p) (p_factor p) zero (p_take p).

  Lemma produce_jitter_of_plain : forall n e p rs,
    o_end (produce fo n e false (plainp p) []) <> EFuel ->
    length rs = length (o_vals (produce fo n e false (plainp p) [])) ->
    produce fo n e true p rs
    = mkObs (map2e (p_jitter p) (o_vals (produce fo n e false (plainp p) [])) rs)
            (o_end (produce fo n e false (plainp p) [])).
  Proof.
    intros n e p rs Hf L. unfold produce in *. cbn [plainp p_jitter p_stop p_factor p_start] in *.
    destruct (gen_loop fo n false zero (p_stop p) (p_factor p) (p_start p) []) as [bs|] eqn:G.
    - cbn [o_vals o_end] in *.
      rewrite (gen_loop_jit_of_plain n (p_jitter p) zero _ _ _ rs bs [] G); [reflexivity|].
      rewrite L. eapply gen_loop_plain_length; eauto.
    - exfalso. apply Hf. reflexivity.
  Qed.

  (* a jittered run is the un-jittered run with [emit] applied position by position *)
  Lemma run_jitter_of_plain : forall p fuel rs,
    jitter_valid fo (p_jitter p) = true -> jitter_off fo (p_jitter p) = false ->
    let base := run fo (plainp p) fuel [] in
    o_end base <> EFuel -> length rs = length (o_vals base) ->
    run fo p fuel rs = mkObs (map2e (p_jitter p) (o_vals base) rs) (o_end base).
  Proof.
    intros p fuel rs Hv Hoff base Hf L. subst base. unfold run in *.
    cbn [plainp p_api p_start p_stop p_count p_factor p_jitter p_take] in *.
    rewrite (prepare_plain fuel _ _ _ (p_count p) (p_jitter p) Hv Hoff).
    pose proof (prepare_zero_jit fuel (p_start p) (p_stop p) (p_factor p) (p_count p)) as PZ.
    destruct (p_api p).
    - destruct (p_count p) eqn:C; try reflexivity.
      + destruct (prepare fo fuel (p_start p) (p_stop p) (p_factor p) CNone zero) as [e| |[|m] jit] eqn:P;
          try reflexivity.
        rewrite (PZ _ _ eq_refl) in *. now apply produce_jitter_of_plain.
      + destruct (prepare fo fuel (p_start p) (p_stop p) (p_factor p) (CNum c) zero) as [e| |[|m] jit] eqn:P;
          try reflexivity.
        rewrite (PZ _ _ eq_refl) in *. now apply produce_jitter_of_plain.
    - destruct (p_take p) as [|t] eqn:T; [reflexivity|].
      destruct (prepare fo fuel (p_start p) (p_stop p) (p_factor p) (p_count p) zero) as [e| |[|m] jit] eqn:P;
        try reflexivity.
      + rewrite (PZ _ _ eq_refl) in *. now apply produce_jitter_of_plain.
      + rewrite (PZ _ _ eq_refl) in *.
        destruct (Z.leb (Z.of_nat (S t)) m); now apply produce_jitter_of_plain.
  Qed.
End TieGeneric.

(* ---- binary64: agree implies holds (or known) -------------------------------------------------- *)
Lemma float_same_eq : forall x y, float_same x y = true <-> x = y.
Proof. exact (same_spec prim_ops prim_order_laws). Qed.

Lemma exn_eqb_eq : forall a b, exn_eqb a b = true -> a = b.
Proof.
  intros a b H. destruct a, b; simpl in H; try discriminate; try reflexivity;
    apply Nat.eqb_eq in H; congruence.
Qed.

Lemma ending_eqb_eq : forall a b, ending_eqb a b = true -> a = b /\ a <> EFuel.
Proof.
  intros a b H. destruct a, b; simpl in H; try discriminate; split; try reflexivity; try discriminate.
  apply exn_eqb_eq in H. congruence.
Qed.

Lemma obs_eqb_eq : forall a b, obs_eqb a b = true -> a = b /\ o_end a <> EFuel.
Proof.
  intros [va ea] [vb eb] H. unfold obs_eqb in H. simpl in H.
  apply andb_true_iff in H as [H1 H2].
  apply (list_eqb_eq float_same float_same_eq) in H1. apply ending_eqb_eq in H2 as [H2 H3].
  simpl. split; congruence.
Qed.

Lemma draws_in_unit_ok : forall draws, draws_in_unit draws = true ->
  forall r, In r draws -> unit_draw prim_ops r.
Proof.
  intros draws H r Hr. unfold draws_in_unit in H. rewrite forallb_forall in H.
  specialize (H r Hr). apply andb_true_iff in H. exact H.
Qed.

Lemma jit_match_witness : forall j draws bs vs, jit_match j draws bs vs = true ->
  exists rs, length rs = length bs /\ (forall r, In r rs -> In r draws) /\
             vs = map2e prim_ops j bs rs.
Proof.
  intros j draws. induction bs as [|b bs IH]; intros vs H; destruct vs as [|v vs]; simpl in H;
    try discriminate.
  - exists []. repeat split; auto. intros r [].
  - destruct (existsb _ draws) eqn:E; [|discriminate].
    apply existsb_exists in E as (r & Hr & Er).
    cbv zeta in Er. match type of Er with (if ?t then _ else _) = _ => destruct t end; [|discriminate Er].
    apply float_same_eq in Er.
    destruct (IH vs H) as (rs & L & Hin & Hv).
    exists (r :: rs). simpl. repeat split.
    + congruence.
    + intros r' [->|H']; auto.
    + rewrite Hv, Er. reflexivity.
Qed.

Theorem agree_implies_holds : forall c, c15_agree c = true ->
  spec_holds prim_ops (c_p c) (c_obs c) = true \/ spec_known prim_ops (c_p c) (c_fuel c) = true.
Proof.
  intros c H. unfold c15_agree in H. cbv zeta in H.
  destruct (draws_in_unit (c_draws c)) eqn:DU; cbn [negb] in H; [|discriminate H].
  pose proof (draws_in_unit_ok _ DU) as DOK.
  destruct (obs_eqb (run prim_ops (c_p c) (c_fuel c) (c_draws c)) (c_obs c)) eqn:E1.
  - apply obs_eqb_eq in E1 as [E1 NF]. rewrite <- E1.
    apply binary64_refines_spec; auto.
    unfold draws_ok. apply Forall_forall. exact DOK.
  - destruct (negb (jitter_off prim_ops (p_jitter (c_p c))) && jitter_valid prim_ops (p_jitter (c_p c))) eqn:J;
      [|discriminate].
    apply andb_true_iff in J as [Joff Jv]. apply negb_true_iff in Joff.
    change (plain_params (c_p c)) with (plainp prim_ops (c_p c)) in H.
    destruct (ending_eqb (o_end (run prim_ops (plainp prim_ops (c_p c)) (c_fuel c) [])) (o_end (c_obs c))) eqn:E2;
      [|discriminate].
    apply ending_eqb_eq in E2 as [E2 NF].
    destruct (jit_match_witness _ _ _ _ H) as (rs & L & Hin & Hv).
    pose proof (run_jitter_of_plain prim_ops eq_refl (c_p c) (c_fuel c) rs Jv Joff NF L) as R.
    assert (Eobs : run prim_ops (c_p c) (c_fuel c) rs = c_obs c).
    { rewrite R. destruct (c_obs c) as [vs e]. simpl in *. congruence. }
    rewrite <- Eobs. apply binary64_refines_spec.
    + unfold draws_ok. apply Forall_forall. intros r Hr. apply DOK, Hin, Hr.
    + rewrite R. exact NF.
Qed.
