(* C01, (T) tie from the Python source, layer 0: the regenerated programs of the methods that call no
   other method (_clear_ll, _insert, _remove, _remove_all, __getitem__, get, getlist), interpreted by
   Model/C01_SrcLang.v, compute exactly the pointer-level model's methods. *)
From Boltons Require Import Lib.Prelude Spec.C01_Spec Model.C01_Model Model.C01_Ptr Model.C01_PModel
  Model.C01_SrcLang Gen.C01_Src Proofs.C01_Base Proofs.C01_Prim Proofs.C01_Ptr Proofs.C01_PtrLink
  Proofs.C01_PSimDefs Proofs.C01_PSim1 Proofs.C01_SrcDefs Proofs.C01_SrcInv.

Lemma source_clear_ll n p :
  sem (S n) MClearLL [] p = (Ok (VTok none_tok), mkPomd (pstore p) h_clear [] (pnxt p)).
Proof. reflexivity. Qed.

Lemma source_getitem n p q k :
  sem (S n) MGetItem [VTok k] p = of_op p (pm_op p q (GetItem k)).
Proof.
  cbn. unfold run_body, gen_getitem, pm_getitem, last_res. cbn.
  destruct (d_get (pstore p) k) as [vs|] eqn:E; cbn; [|reflexivity].
  try rewrite E. unfold V in *. destruct (rev vs); reflexivity.
Qed.

Lemma source_get n p q k d :
  sem (S n) MGet [VTok k; VTok (dflt d)] p = of_op p (pm_op p q (Get k d)).
Proof.
  cbn. unfold run_body, gen_get, last_res. cbn.
  destruct (d_get (pstore p) k) as [vs|] eqn:E; cbn; [|reflexivity].
  try rewrite E. unfold V in *. destruct (rev vs); reflexivity.
Qed.

Lemma source_getlist n p q k d :
  sem (S n) MGetList [VTok k; pv_of_opt d] p = of_op p (pm_op p q (GetList k d)).
Proof.
  cbn. unfold run_body, gen_getlist. cbn.
  destruct (d_get (pstore p) k) as [vs|] eqn:E; cbn.
  - try rewrite E. reflexivity.
  - destruct d; reflexivity.
Qed.

(* ---- pydict facts ------------------------------------------------------------------------------ *)
Lemma d_set_d_set {B} (d : pydict B) k a b : d_set (d_set d k a) k b = d_set d k b.
Proof.
  induction d as [|[k0 v0] r IH]; simpl.
  - rewrite Nat.eqb_refl. reflexivity.
  - destruct (Nat.eqb k k0) eqn:E; simpl; rewrite E; [reflexivity|]. rewrite IH. reflexivity.
Qed.

Lemma d_del_d_set {B} (d : pydict B) k a x : d_get d k = Some x -> d_del (d_set d k a) k = d_del d k.
Proof.
  induction d as [|[k0 v0] r IH]; simpl; [discriminate|].
  destruct (Nat.eqb k k0) eqn:E; simpl; rewrite E; [reflexivity|].
  intro H. rewrite IH by exact H. reflexivity.
Qed.

Local Arguments d_get : simpl never.
Local Arguments d_set : simpl never.
Local Arguments d_del : simpl never.
Local Arguments set_next : simpl never.
Local Arguments set_prev : simpl never.
Local Arguments rev : simpl never.

Lemma source_insert n p k v : Good p ->
  sem (S n) MInsert [VTok k; VTok v] p = (Ok (VTok none_tok), pl_insert p k v).
Proof.
  intro G. destruct (good_lift p G) as [R [HC _]].
  assert (Hfr : ~ In (pnxt p) (map c_id (ll (lift p)))).
  { destruct HC as [_ [Hfresh _]]. intro Hin. apply in_map_iff in Hin as [c [E Hc]].
    apply Hfresh in Hc. simpl in Hc. lia. }
  destruct (Rep_insert _ _ _ k v R Hfr) as [h' [Eh _]].
  unfold pl_insert, h_insert_t. rewrite Eh.
  unfold h_insert in Eh.
  destruct (d_get (pheap p) root) as [r|] eqn:Er; [|discriminate].
  cbn zeta in Eh.
  destruct (set_next (d_set (pheap p) (S (pnxt p)) (mkP (p_prev r) root k v)) (p_prev r) (S (pnxt p)))
    as [h2|] eqn:E2; [|discriminate].
  cbn [bind] in Eh.
  cbn [sem gen_prog]. unfold run_body, gen_insert.
  destruct (d_get (pcmap p) k) as [cells|] eqn:Ec.
  - cbn. rewrite Ec. cbn. rewrite Er. cbn. rewrite E2. cbn. rewrite Eh. cbn.
    rewrite Ec. unfold d_getd. rewrite Ec. reflexivity.
  - cbn. rewrite Ec. cbn. rewrite Er. cbn. rewrite E2. cbn. rewrite Eh. cbn.
    rewrite d_get_set, Nat.eqb_refl. cbn. rewrite d_set_d_set. unfold d_getd. rewrite Ec. reflexivity.
Qed.

(* ---- the unlink statement:  cell[PREV][NEXT], cell[NEXT][PREV] = cell[NEXT], cell[PREV] ---------- *)
Definition unlink_stmt : stmt :=
  SSetIdx2 (EIdx (EVar 2) FPrev) FNext (EIdx (EVar 2) FNext) FPrev (EIdx (EVar 2) FNext) (EIdx (EVar 2) FPrev).

(* re-reading cell[NEXT] after cell[PREV][NEXT] = cell[NEXT] gives the same address (even if the
   cell were its own predecessor) *)
Lemma reread_next h a c h1 : d_get h a = Some c -> set_next h (p_prev c) (p_next c) = Ok h1 ->
  exists c', d_get h1 a = Some c' /\ p_next c' = p_next c.
Proof.
  intros Ea E1. unfold set_next in E1.
  destruct (d_get h (p_prev c)) as [cp|] eqn:Ep; [|discriminate].
  injection E1 as E1. subst h1. rewrite d_get_set.
  destruct (Nat.eqb a (p_prev c)) eqn:E.
  - eexists. split; reflexivity.
  - exists c. split; [exact Ea | reflexivity].
Qed.

Lemma exec_unlink callee fuel en s a h' :
  env_get en 2 = Ok (VCell a) -> h_unlink (pheap s) a = Ok h' ->
  exec callee fuel unlink_stmt en s = (ONormal, en, set_heap s h').
Proof.
  intros He Hu. unfold h_unlink in Hu.
  destruct (d_get (pheap s) a) as [c|] eqn:Ea; [|discriminate].
  destruct (set_next (pheap s) (p_prev c) (p_next c)) as [h1|] eqn:E1; [|discriminate].
  cbn [bind] in Hu.
  destruct (reread_next _ _ _ _ Ea E1) as (c' & Ea' & En').
  unfold unlink_stmt. cbn.
  repeat (progress (rewrite ?He, ?Ea, ?E1, ?Ea', ?En', ?Hu; cbn)).
  reflexivity.
Qed.
Local Arguments unlink_stmt : simpl never.

Lemma source_remove n p k : Good p ->
  sem (S n) MRemove [VTok k] p
  = match pl_remove p k with Ok p' => (Ok (VTok none_tok), p') | Raise e => (Raise e, p) end.
Proof.
  intro G. destruct (good_lift p G) as [R [HC _]].
  pose proof HC as [Hid [Hfresh [Hnd Hget]]].
  unfold pl_remove. cbn [sem gen_prog]. unfold run_body, gen_remove. fold unlink_stmt.
  destruct (d_get (pcmap p) k) as [cells|] eqn:Ec.
  2: { cbn. rewrite Ec. reflexivity. }
  destruct (rev cells) as [|i rr] eqn:Er.
  { cbn. rewrite Ec. cbn. rewrite Ec, Er. reflexivity. }
  assert (Ecells : cells = ids_of (ll (lift p)) k).
  { apply ne_opt_Some. rewrite <- Hget. exact Ec. }
  assert (Hin : In i (map c_id (ll (lift p)))).
  { apply (ids_of_sub _ k). rewrite <- Ecells. apply in_rev. rewrite Er. left. reflexivity. }
  destruct (Rep_unlink _ _ _ R Hin) as [h' [Eh _]].
  unfold h_unlink_t. rewrite Eh.
  cbn. rewrite Ec. cbn. rewrite Ec, Er. cbn.
  rewrite (exec_unlink _ _ _ _ (S i) h'); [|reflexivity|exact Eh].
  unfold eval_truth. cbn. rewrite d_get_set, Nat.eqb_refl.
  destruct (rev rr) as [|j rr'] eqn:Err; cbn.
  - rewrite d_get_set, Nat.eqb_refl. cbn. rewrite (d_del_d_set _ _ _ _ Ec). reflexivity.
  - reflexivity.
Qed.

(* ---- the loop of _remove_all:  while values: cell = values.pop(); unlink cell --------------------- *)
Definition pop_unlink_stmt : stmt := SSeq (SAssign 2 (EPop (EVar 1))) unlink_stmt.

Lemma loop_S n cond body en s :
  loop (S n) cond body en s
  = match cond en s with
    | (Raise x, s1) => (ORaise x, en, s1)
    | (Ok false, s1) => (ONormal, en, s1)
    | (Ok true, s1) =>
        match body en s1 with
        | (ONormal, en2, s2) => loop n cond body en2 s2
        | r => r
        end
    end.
Proof. reflexivity. Qed.

Lemma exec_pop_unlink callee fuel en s k cells i rr h' :
  env_get en 1 = Ok (VMapRef k) ->
  d_get (pcmap s) k = Some cells -> rev cells = i :: rr ->
  h_unlink (pheap s) (S i) = Ok h' ->
  exec callee fuel pop_unlink_stmt en s
  = (ONormal, env_set en 2 (VCell (S i)), mkPomd (pstore s) h' (d_set (pcmap s) k (rev rr)) (pnxt s)).
Proof.
  intros He Ec Er Eh. unfold pop_unlink_stmt. cbn. rewrite He. cbn. rewrite Ec, Er. cbn.
  rewrite (exec_unlink _ _ _ _ (S i) h'); [reflexivity | reflexivity | exact Eh].
Qed.

Local Arguments pop_unlink_stmt : simpl never.
Local Arguments loop : simpl never.

Lemma eval_truth_var1 callee en s k l :
  env_get en 1 = Ok (VMapRef k) -> d_get (pcmap s) k = Some l ->
  eval_truth callee (EVar 1) en s = (Ok (match l with [] => false | _ => true end), s).
Proof. intros He Ec. unfold eval_truth. cbn. rewrite He. cbn. rewrite Ec. reflexivity. Qed.

Lemma loop_unlink callee fuel k : forall ids fu en s l,
  env_get en 1 = Ok (VMapRef k) ->
  d_get (pcmap s) k = Some (rev ids) ->
  NoDup ids -> incl ids (map c_id l) -> Rep (pheap s) l ->
  length ids < fu ->
  exists en' c',
    loop fu (eval_truth callee (EVar 1)) (exec callee fuel pop_unlink_stmt) en s
    = (ONormal, en',
       mkPomd (pstore s) (fold_left (fun h id => h_unlink_t h (S id)) ids (pheap s)) c' (pnxt s))
    /\ env_get en' 0 = env_get en 0
    /\ d_get c' k = Some [] /\ d_del c' k = d_del (pcmap s) k.
Proof.
  induction ids as [|i r IH]; intros fu en s l He Ec Hnd Hincl R Hfu.
  - destruct fu as [|fu]; [inversion Hfu|].
    exists en, (pcmap s). rewrite loop_S, (eval_truth_var1 _ _ _ _ _ He Ec). cbn.
    destruct s; repeat split; assumption.
  - destruct fu as [|fu]; [inversion Hfu|]. simpl in Hfu.
    inversion Hnd as [|x y Hni Hnr]; subst.
    assert (Hi : In i (map c_id l)) by (apply Hincl; left; reflexivity).
    destruct (Rep_unlink _ _ _ R Hi) as [h' [Eh R']].
    set (s2 := mkPomd (pstore s) h' (d_set (pcmap s) k (rev r)) (pnxt s)).
    destruct (IH fu (env_set en 2 (VCell (S i))) s2 (unlink l i)) as (en' & c' & EL & E0 & Eg & Ed).
    + cbn. exact He.
    + unfold s2. cbn. rewrite d_get_set, Nat.eqb_refl. reflexivity.
    + exact Hnr.
    + intros j Hj. apply unlink_ids. split.
      * apply Hincl. right. exact Hj.
      * intro E. subst j. contradiction.
    + exact R'.
    + lia.
    + exists en', c'. rewrite loop_S, (eval_truth_var1 _ _ _ _ _ He Ec).
      assert (Hne : exists a b, rev (i :: r) = a :: b).
      { destruct (rev (i :: r)) as [|a b] eqn:E; [|eauto].
        apply (f_equal (@rev nat)) in E. rewrite rev_involutive in E. discriminate. }
      destruct Hne as (a & b & Hne). rewrite Hne.
      rewrite (exec_pop_unlink callee fuel en s k (rev (i :: r)) i r h' He Ec (rev_involutive _) Eh).
      fold s2. rewrite EL. split; [|split; [|split]].
      * unfold s2. cbn.
        replace (h_unlink_t (pheap s) (S i)) with h' by (unfold h_unlink_t; rewrite Eh; reflexivity).
        reflexivity.
      * rewrite E0. reflexivity.
      * exact Eg.
      * rewrite Ed. unfold s2. cbn. apply (d_del_d_set _ _ _ _ Ec).
Qed.

Lemma source_remove_all n p k : Good p ->
  sem (S n) MRemoveAll [VTok k] p
  = match pl_remove_all p k with Ok p' => (Ok (VTok none_tok), p') | Raise e => (Raise e, p) end.
Proof.
  intro G. destruct (good_lift p G) as [R [HC _]].
  pose proof HC as [Hid [Hfresh [Hnd Hget]]].
  unfold pl_remove_all. cbn [sem gen_prog]. unfold run_body, gen_remove_all.
  fold unlink_stmt. fold pop_unlink_stmt.
  destruct (d_get (pcmap p) k) as [cells|] eqn:Ec.
  2: { cbn. rewrite Ec. reflexivity. }
  assert (Ecells : cells = ids_of (ll (lift p)) k).
  { apply ne_opt_Some. rewrite <- Hget. exact Ec. }
  assert (Hnd' : NoDup (rev cells)).
  { apply NoDup_rev. rewrite Ecells. apply NoDup_ids_of. exact Hid. }
  assert (Hincl : incl (rev cells) (map c_id (ll (lift p)))).
  { intros j Hj. apply in_rev in Hj. rewrite Ecells in Hj. apply (ids_of_sub _ k). exact Hj. }
  assert (Hlen : length (rev cells) < fuel_of p).
  { unfold fuel_of. pose proof (NoDup_incl_length Hnd' Hincl) as H1. rewrite map_length in H1.
    pose proof (cells_bound _ _ Hid Hfresh) as H2. change (C01_Model.nxt (lift p)) with (pnxt p) in H2. lia. }
  cbn. rewrite Ec. cbn.
  destruct (loop_unlink (sem n) (fuel_of p) k (rev cells) (fuel_of p)
              (env_set [(0, VTok k)] 1 (VMapRef k)) p (ll (lift p)))
    as (en' & c' & EL & E0 & Eg & Ed); try assumption.
  - reflexivity.
  - rewrite rev_involutive. exact Ec.
  - rewrite EL. cbn in E0. rewrite E0. cbn. rewrite Eg, Ed. reflexivity.
Qed.

Print Assumptions source_clear_ll.
Print Assumptions source_insert.
Print Assumptions source_remove.
Print Assumptions source_getitem.
Print Assumptions source_get.
Print Assumptions source_getlist.
Print Assumptions source_remove_all.
