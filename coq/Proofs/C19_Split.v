(* General facts about the reference splitlines (Spec.C19_Spec), for any class of breaks. *)
From Boltons Require Import Lib.Prelude Spec.C19_Spec.
Open Scope N_scope.

Definition starts_lf (t : text) : bool := match t with d :: _ => d =? LF | [] => false end.
Definition nobrk (brk : N -> bool) (l : text) : bool := forallb (fun c => negb (brk c)) l.

Lemma cons_head_app {A} (c : A) ls r : ls <> [] -> cons_head c (ls ++ r) = cons_head c ls ++ r.
Proof. destruct ls; [congruence|reflexivity]. Qed.

Lemma cons_head_nonempty {A} (c : A) ls : cons_head c ls <> [].
Proof. destruct ls; discriminate. Qed.

Lemma starts_lf_app p x : p <> [] -> starts_lf (p ++ x) = starts_lf p.
Proof. destruct p; [congruence|reflexivity]. Qed.

Section Brk.
  Variable brk : N -> bool.

  Lemma sl_nobrk c t : brk c = false -> splitlines brk (c :: t) = cons_head c (splitlines brk t).
  Proof. intros H. cbn [splitlines]. rewrite H. reflexivity. Qed.

  Lemma sl_brk c t : brk c = true -> (c =? CR) = false -> splitlines brk (c :: t) = [] :: splitlines brk t.
  Proof. intros H E. cbn [splitlines]. rewrite H, E. reflexivity. Qed.

  Lemma sl_crlf t : brk CR = true -> splitlines brk (CR :: LF :: t) = [] :: splitlines brk t.
  Proof. intros H. cbn [splitlines]. rewrite H. reflexivity. Qed.

  Lemma sl_cr t : brk CR = true -> starts_lf t = false -> splitlines brk (CR :: t) = [] :: splitlines brk t.
  Proof.
    intros H E. cbn [splitlines]. rewrite H. change (CR =? CR) with true. cbv iota.
    destruct t as [|d t'']; [reflexivity|]. cbn [starts_lf] in E. rewrite E. reflexivity.
  Qed.

  (* the case analysis every proof about line splitting follows *)
  Lemma split_ind (P : text -> Prop) :
    P [] ->
    (forall c t, brk c = false -> P t -> P (c :: t)) ->
    (forall c t, brk c = true -> (c =? CR) = false -> P t -> P (c :: t)) ->
    (forall t, brk CR = true -> P t -> P (CR :: LF :: t)) ->
    (forall t, brk CR = true -> starts_lf t = false -> P t -> P (CR :: t)) ->
    forall t, P t.
  Proof.
    intros H0 H1 H2 H3 H4 t.
    assert (G : forall n t, (length t <= n)%nat -> P t).
    { induction n as [|n IH]; intros [|c u] L; try exact H0; cbn [length] in L; [lia|].
      assert (Pu : P u) by (apply IH; lia).
      destruct (brk c) eqn:B; [|apply H1; assumption].
      destruct (c =? CR) eqn:E; [|apply H2; assumption].
      apply N.eqb_eq in E; subst c.
      destruct (starts_lf u) eqn:S; [|apply H4; assumption].
      destruct u as [|d v]; [discriminate|]. cbn [starts_lf] in S. apply N.eqb_eq in S; subst d.
      apply H3; [assumption|]. apply IH. cbn [length] in L. lia. }
    apply (G (length t)). lia.
  Qed.

  Lemma sl_nonempty t : t <> [] -> splitlines brk t <> [].
  Proof.
    destruct t as [|c t]; [congruence|]. intros _. cbn [splitlines].
    destruct (brk c); [discriminate|apply cons_head_nonempty].
  Qed.

  Lemma sl_breakfree l : nobrk brk l = true -> l <> [] -> splitlines brk l = [l].
  Proof.
    induction l as [|c l IH]; [congruence|]. intros H _. cbn [nobrk forallb] in H.
    apply andb_true_iff in H as [Hc Hl]. apply negb_true_iff in Hc.
    rewrite sl_nobrk by assumption. destruct l as [|d l]; [reflexivity|].
    rewrite IH; [reflexivity|assumption|discriminate].
  Qed.

  (* the first line of a split is free of breaks, and the text starts with it *)
  Lemma sl_head_nobrk : forall b l0 ls, splitlines brk b = l0 :: ls -> nobrk brk l0 = true.
  Proof.
    intros b. pattern b. apply split_ind; clear b.
    - discriminate.
    - intros c t B IH l0 ls E. rewrite sl_nobrk in E by assumption.
      destruct (splitlines brk t) as [|l' r] eqn:S; cbn [cons_head] in E; inversion E; subst.
      + cbn. rewrite B. reflexivity.
      + cbn [nobrk forallb]. rewrite B. cbn [negb andb]. eapply IH. reflexivity.
    - intros c t B E IH l0 ls S. rewrite sl_brk in S by assumption. inversion S. reflexivity.
    - intros t B IH l0 ls S. rewrite sl_crlf in S by assumption. inversion S. reflexivity.
    - intros t B E IH l0 ls S. rewrite sl_cr in S by assumption. inversion S. reflexivity.
  Qed.

  Lemma sl_head_first : forall b x l0 ls, splitlines brk b = (x :: l0) :: ls -> exists b', b = x :: b'.
  Proof.
    intros [|c t] x l0 ls; [discriminate|]. cbn [splitlines].
    destruct (brk c); [discriminate|].
    destruct (splitlines brk t); cbn [cons_head]; intros E; inversion E; subst; eauto.
  Qed.

  (* prepending text to a buffer whose split has a non-empty first line only changes that line *)
  Lemma sl_prepend : brk LF = true ->
    forall p b l0 ls, splitlines brk b = l0 :: ls -> l0 <> [] ->
    splitlines brk (p ++ b) = splitlines brk (p ++ l0) ++ ls.
  Proof.
    intros BLF p b l0 ls S N0.
    assert (F : nobrk brk l0 = true) by (eapply sl_head_nobrk; eassumption).
    pattern p. apply split_ind; clear p.
    - cbn [app]. rewrite S, sl_breakfree by assumption. reflexivity.
    - intros c t B IH. cbn [app]. rewrite !sl_nobrk by assumption. rewrite IH.
      apply cons_head_app. apply sl_nonempty. destruct t; [cbn [app]; assumption|discriminate].
    - intros c t B E IH. cbn [app]. rewrite !sl_brk by assumption. rewrite IH. reflexivity.
    - intros t B IH. cbn [app]. rewrite !sl_crlf by assumption. rewrite IH. reflexivity.
    - intros t B E IH. cbn [app].
      assert (E1 : starts_lf (t ++ b) = false /\ starts_lf (t ++ l0) = false).
      { destruct t as [|d t'].
        - cbn [app]. destruct l0 as [|x l0']; [congruence|].
          destruct (sl_head_first _ _ _ _ S) as [b' ->].
          cbn [nobrk forallb] in F. apply andb_true_iff in F as [Fx _]. apply negb_true_iff in Fx.
          cbn [starts_lf]. destruct (x =? LF) eqn:X; [apply N.eqb_eq in X; subst; congruence|]. split; reflexivity.
        - rewrite !starts_lf_app by discriminate. split; assumption. }
      destruct E1 as [Ea Eb]. rewrite !sl_cr by assumption. rewrite IH. reflexivity.
  Qed.
End Brk.
