(* from_string on the interpreter's own rendering, recursive entries folded into
   "[Previous line repeated N more times]": the scanner expands the folding line
   into copies of the previous entry and so recovers every entry. *)
From Boltons Require Import Lib.Prelude Lib.C16_Text Spec.C16_Spec Model.C16_Model
  Proofs.C16_Text Proofs.C16_Regex Proofs.C16_Parse.
Open Scope N_scope.

Lemma repeat_snoc {A} (x : A) n l : repeat x n ++ x :: l = repeat x (S n) ++ l.
Proof. induction n as [|n IH]; [reflexivity|]. cbn [repeat app]. f_equal. exact IH. Qed.

Section Fold.
  Context (C : cc) (OK : cc_ok C).

  (* entries at the same place with the same source text are the same entry *)
  Lemma same_frame a b :
    frame_ok C a = true -> frame_ok C b = true ->
    same_place a b = true -> str_eqb (f_src a) (f_src b) = true -> a = b.
  Proof.
    destruct a as [p n [g|] s], b as [p2 n2 [g2|] s2]; intros Ha Hb H Hs;
      try (apply (frame_ok_inv C) in Ha as [_ [_ [Hg _]]]; discriminate);
      try (apply (frame_ok_inv C) in Hb as [_ [_ [Hg _]]]; discriminate).
    unfold same_place in H. cbn [f_path f_lineno func_of f_func f_src] in *.
    apply andb_true_iff in H as [H H3]. apply andb_true_iff in H as [H1 H2].
    apply str_eqb_eq in H1, H2, H3, Hs. subst. reflexivity.
  Qed.

  (* the head of what follows an entry is acceptable to the look-ahead *)
  Lemma fold_head_ok r0 R' : E_ok C r0 -> forall fs last count,
    Forall (fun f => frame_ok C f = true) fs ->
    exists x X, fold_entries last count fs ++ r0 :: R' = x :: X /\ R_ok C x.
  Proof.
    intros HE. induction fs as [|f fs IH]; intros last count Hall; cbn [fold_entries].
    - unfold flush_repeat. destruct (3 <? count); cbn [app].
      + eexists _, _. split; [reflexivity|apply (repeat_line_R_ok C OK)].
      + eexists _, _. split; [reflexivity|apply E_ok_R_ok; exact HE].
    - inversion Hall as [|x xs Hf Hrest]; subst.
      assert (FR : R_ok C (frame_line f)).
      { destruct f as [p n [g|] s]; [apply (frame_line_R_ok C OK); exact Hf|].
        apply (frame_ok_inv C) in Hf as [_ [_ [Hg _]]]. discriminate. }
      destruct (match last with Some l => same_place l f | None => false end).
      + destruct (3 <? count + 1).
        * apply IH. exact Hrest.
        * unfold entry_lines. cbn [app]. eexists _, _. split; [reflexivity|exact FR].
      + unfold flush_repeat. destruct (3 <? count); cbn [app].
        * eexists _, _. split; [reflexivity|apply (repeat_line_R_ok C OK)].
        * unfold entry_lines. cbn [app]. eexists _, _. split; [reflexivity|exact FR].
  Qed.

  Lemma entry_lines_as_m f : entry_lines f = entry_lines_m (f, None).
  Proof. unfold entry_lines, entry_lines_m. rewrite app_nil_r. reflexivity. Qed.

  (* scanning one entry that is followed by the rest of a folded rendering *)
  Lemma scan_entry_fold prev f fs last count r0 R' :
    frame_ok C f = true -> Forall (fun f => frame_ok C f = true) fs -> E_ok C r0 ->
    scan C (frame_re C) prev (entry_lines f ++ fold_entries last count fs ++ r0 :: R') =
    cons_frame f (scan C (frame_re C) (Some f) (fold_entries last count fs ++ r0 :: R')).
  Proof.
    intros Hf Hall HE. destruct (fold_head_ok r0 R' HE fs last count Hall) as [x [X [EX HX]]].
    rewrite EX, entry_lines_as_m.
    destruct f as [p n [g|] s].
    - apply (scan_entry C OK); [exact Hf|exact I|exact HX].
    - apply (frame_ok_inv C) in Hf as [_ [_ [Hg _]]]. discriminate.
  Qed.

  Lemma scan_flush l count X :
    scan C (frame_re C) (Some l) (flush_repeat count ++ X) =
    match scan C (frame_re C) (Some l) X with
    | Ok (fs, r) => Ok (repeat l (N.to_nat (count - 3)) ++ fs, r)
    | Raise e => Raise e
    end.
  Proof.
    unfold flush_repeat. destruct (3 <? count) eqn:E.
    - cbn [app]. rewrite (scan_repeat C _ l _ _ (dec (count - 3))).
      + rewrite (int_of_dec C OK). reflexivity.
      + rewrite (strip_repeat_line C OK). apply (repeat_re_line C OK).
    - apply N.ltb_ge in E. replace (count - 3) with 0 by lia. cbn [app N.to_nat repeat].
      destruct (scan C (frame_re C) (Some l) X) as [[fs r]|e]; reflexivity.
  Qed.

  (* consecutive entries at the same place are equal entries *)
  Fixpoint runs_equal (l : frame) (fs : list frame) : Prop :=
    match fs with
    | [] => True
    | f :: r => (same_place l f = true -> f = l) /\ runs_equal f r
    end.

  Lemma scan_fold r0 R' : E_ok C r0 -> forall fs l count,
    frame_ok C l = true -> Forall (fun f => frame_ok C f = true) fs -> runs_equal l fs -> 1 <= count ->
    scan C (frame_re C) (Some l) (fold_entries (Some l) count fs ++ r0 :: R') =
    Ok (repeat l (N.to_nat (count - 3)) ++ fs, r0 :: R').
  Proof.
    intros HE. induction fs as [|f fs IH]; intros l count Hl Hall Hruns Hc; cbn [fold_entries].
    - rewrite (scan_flush l count).
      destruct HE as [_ [_ [HF HR]]]. rewrite (scan_stop C _ _ _ _ (or_intror HR) HF).
      rewrite app_nil_r. reflexivity.
    - inversion Hall as [|x xs Hf Hrest]; subst. destruct Hruns as [Hsame Hruns].
      destruct (same_place l f) eqn:SP.
      + specialize (Hsame eq_refl). subst f. clear SP.
        destruct (3 <? count + 1) eqn:E.
        * rewrite (IH l (count + 1) Hl Hrest Hruns) by lia.
          apply N.ltb_lt in E. replace (N.to_nat (count + 1 - 3)) with (Datatypes.S (N.to_nat (count - 3))) by lia.
          rewrite <- repeat_snoc. reflexivity.
        * apply N.ltb_ge in E. rewrite <- app_assoc.
          rewrite (scan_entry_fold (Some l) l fs (Some l) (count + 1) r0 R' Hl Hrest HE).
          rewrite (IH l (count + 1) Hl Hrest Hruns) by lia.
          replace (count + 1 - 3) with 0 by lia. replace (count - 3) with 0 by lia. reflexivity.
      + rewrite <- app_assoc, (scan_flush l count). rewrite <- app_assoc.
        rewrite (scan_entry_fold (Some l) f fs (Some f) 1 r0 R' Hf Hrest HE).
        rewrite (IH f 1 Hf Hrest Hruns) by lia. cbn [N.sub N.to_nat repeat app cons_frame]. reflexivity.
  Qed.

  Lemma scan_folded r0 R' fs :
    E_ok C r0 -> Forall (fun f => frame_ok C f = true) fs ->
    match fs with [] => True | f :: r => runs_equal f r end ->
    scan C (frame_re C) None (fold_entries None 0 fs ++ r0 :: R') = Ok (fs, r0 :: R').
  Proof.
    intros HE Hall Hruns. destruct fs as [|f fs]; cbn [fold_entries].
    - cbn [flush_repeat N.ltb N.compare app]. destruct HE as [_ [_ [HF HR]]].
      apply (scan_stop C); [left; reflexivity|exact HF].
    - inversion Hall as [|x xs Hf Hrest]; subst. cbn [flush_repeat N.ltb N.compare app].
      rewrite <- app_assoc, (scan_entry_fold None f fs (Some f) 1 r0 R' Hf Hrest HE).
      rewrite (scan_fold r0 R' HE fs f 1 Hf Hrest Hruns) by lia. reflexivity.
  Qed.

  (* from the boolean conditions of the Spec *)
  Lemma runs_equal_of fs : forall l,
    frame_ok C l = true -> Forall (fun f => frame_ok C f = true) fs ->
    src_consistent (l :: fs) = true -> runs_equal l fs.
  Proof.
    induction fs as [|f fs IH]; intros l Hl Hall Hc; [exact I|].
    inversion Hall as [|x xs Hf Hrest]; subst.
    change (src_consistent (l :: f :: fs)) with
      ((negb (same_place l f) || str_eqb (f_src l) (f_src f)) && src_consistent (f :: fs)) in Hc.
    apply andb_true_iff in Hc as [H1 H2]. split; [|apply IH; assumption].
    intro S. rewrite S in H1. cbn [negb orb] in H1. symmetry. apply same_frame; assumption.
  Qed.
  Lemma fold_no_break fs : forall last count,
    Forall (fun f => frame_ok C f = true) fs ->
    Forall (fun l => no_break C l = true) (fold_entries last count fs).
  Proof.
    assert (FL : forall count, Forall (fun l => no_break C l = true) (flush_repeat count)).
    { intro count. unfold flush_repeat. destruct (3 <? count); constructor; [|constructor].
      apply (no_break_repeat_line C OK). }
    induction fs as [|f fs IH]; intros last count Hall; cbn [fold_entries]; [apply FL|].
    inversion Hall as [|x xs Hf Hrest]; subst.
    assert (EN : Forall (fun l => no_break C l = true) (entry_lines f)).
    { rewrite entry_lines_as_m. apply (entry_lines_no_break C OK). split; [exact Hf|exact I]. }
    destruct (match last with Some l => same_place l f | None => false end).
    - destruct (3 <? count + 1); [apply IH; exact Hrest|]. apply Forall_app. split; [exact EN|apply IH; exact Hrest].
    - apply Forall_app. split; [apply FL|]. apply Forall_app. split; [exact EN|apply IH; exact Hrest].
  Qed.

  (* from_string on the interpreter's rendering: every entry is recovered, folded or not *)
  Theorem parse_std (T : tb) :
    wf C T = true -> src_consistent (t_frames T) = true -> from_string C (std_text T) = Ok T.
  Proof.
    intros Hwf Hc. destruct T as [frames ty msg]. apply (wf_inv C) in Hwf as [Hfr [Hty Hmsg]].
    cbn [t_frames] in Hc. unfold std_text, std_lines. cbn [t_frames t_type t_msg].
    apply (parse_lines C OK); [apply fold_no_break; exact Hfr| |exact Hty|exact Hmsg].
    intros r0 R' HE. apply scan_folded; [exact HE|exact Hfr|].
    destruct frames as [|f fs]; [exact I|]. inversion Hfr; subst. apply runs_equal_of; assumption.
  Qed.
End Fold.
