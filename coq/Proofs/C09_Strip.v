(* C09: lstrip / rstrip / strip = str.lstrip / rstrip / strip on lists. *)
From Boltons Require Import Lib.Prelude Spec.C09_Spec Model.C09_Model.

Lemma m_lstrip_spec v l : m_lstrip v l = py_lstrip v l.
Proof.
  unfold py_lstrip. induction l as [|x r IH]; cbn [m_lstrip dropwhile]; [reflexivity|].
  rewrite (Nat.eqb_sym v x). destruct (Nat.eqb x v); cbn [negb]; [exact IH|reflexivity].
Qed.

(* ---- dropwhile at the right end ----------------------------------------- *)
Lemma dropwhile_app_last {A} (p : A -> bool) (a : list A) (x : A) :
  dropwhile p (a ++ [x]) =
  match dropwhile p a with
  | [] => if p x then [] else [x]
  | d => d ++ [x]
  end.
Proof.
  induction a as [|y a IH]; cbn [app dropwhile].
  - reflexivity.
  - destruct (p y); [exact IH|reflexivity].
Qed.

(* structural characterisation of the reference rstrip *)
Lemma py_rstrip_cons v x r :
  py_rstrip v (x :: r) =
  match py_rstrip v r with
  | [] => if Nat.eqb v x then [] else [x]
  | out => x :: out
  end.
Proof.
  unfold py_rstrip. cbn [rev]. rewrite dropwhile_app_last.
  destruct (dropwhile (Nat.eqb v) (rev r)) as [|d ds] eqn:E.
  - cbn [rev]. destruct (Nat.eqb v x); reflexivity.
  - rewrite rev_app_distr. cbn [rev app].
    destruct (rev ds ++ [d]) eqn:E2.
    + destruct (rev ds); discriminate.
    + reflexivity.
Qed.

Lemma py_rstrip_nil v : py_rstrip v [] = [].
Proof. reflexivity. Qed.

Lemma rstrip_loop_spec v : forall l cache,
  rstrip_loop v cache l =
  match py_rstrip v l with [] => [] | out => cache ++ out end.
Proof.
  induction l as [|i r IH]; intro cache.
  - reflexivity.
  - cbn [rstrip_loop]. rewrite py_rstrip_cons. rewrite (Nat.eqb_sym v i).
    destruct (Nat.eqb i v) eqn:E.
    + apply Nat.eqb_eq in E. subst i. rewrite IH.
      destruct (py_rstrip v r) as [|o os]; [reflexivity|].
      rewrite <- app_assoc. reflexivity.
    + rewrite IH. destruct (py_rstrip v r); reflexivity.
Qed.

Lemma m_rstrip_spec v l : m_rstrip v l = py_rstrip v l.
Proof.
  unfold m_rstrip. rewrite rstrip_loop_spec. destruct (py_rstrip v l); reflexivity.
Qed.

Lemma m_strip_spec v l : m_strip v l = py_strip v l.
Proof. unfold m_strip, py_strip. rewrite m_lstrip_spec, m_rstrip_spec. reflexivity. Qed.

(* ---- the list laws behind "agree with str.strip" -------------------------- *)
(* lstrip removes a block of v's at the front and nothing else; the result
   does not start with v *)
Lemma py_lstrip_decompose v l :
  exists k, l = repeat v k ++ py_lstrip v l /\
            match py_lstrip v l with [] => True | x :: _ => x <> v end.
Proof.
  unfold py_lstrip. induction l as [|x r IH]; cbn [dropwhile].
  - exists 0. split; [reflexivity|exact I].
  - destruct (Nat.eqb v x) eqn:E.
    + apply Nat.eqb_eq in E. subst x. destruct IH as [k [H1 H2]].
      exists (S k). split; [cbn [repeat app]; f_equal; exact H1|exact H2].
    + exists 0. split; [reflexivity|]. apply Nat.eqb_neq in E. congruence.
Qed.

Lemma py_rstrip_decompose v l :
  exists k, l = py_rstrip v l ++ repeat v k /\
            match rev (py_rstrip v l) with [] => True | x :: _ => x <> v end.
Proof.
  unfold py_rstrip. rewrite rev_involutive.
  destruct (py_lstrip_decompose v (rev l)) as [k [H1 H2]]. unfold py_lstrip in *.
  exists k. split; [|exact H2].
  rewrite <- (rev_involutive l) at 1. rewrite H1 at 1. rewrite rev_app_distr.
  f_equal. clear. induction k as [|k IH]; [reflexivity|].
  cbn [repeat rev]. rewrite IH. clear. induction k; cbn [repeat app]; [reflexivity|]. f_equal. exact IHk.
Qed.
