(* C06: in the model, URL(text) either returns a URL or raises URLParseError -
   whatever the text, the tables and the answers of the codecs. *)
From Boltons Require Import Lib.Prelude Lib.C06_Text Model.C06_Model.
Open Scope N_scope.

(* inet_pton's failures are caught inside parse_host: the oracle answers, it does not raise *)
Definition oracle_total (O : oracles) : Prop :=
  (forall h, exists b, o_inet4 O h = MOk b) /\ (forall h, exists r, o_inet6 O h = MOk r) /\
  (forall s, exists r, o_int O s = MOk r).

Definition only_parse_error {A} (r : mres A) : Prop :=
  match r with
  | MOk _ => True
  | MRaise e => e = URLParseError
  | MOut w => True          (* only if the idna oracle itself answers MOut *)
  end.

Section Total.
Variable T : tables.
Variable O : oracles.
Hypothesis OT : oracle_total O.

Lemma parse_host_total h : only_parse_error (parse_host O h).
Proof.
  unfold parse_host. destruct h as [|h0 r]; [exact I|].
  destruct OT as [O4 [O6 _]].
  destruct (memN 58 (h0 :: r) && (h0 =? 91) && last_is 93 (h0 :: r)).
  - destruct (O6 (removelast (tl (h0 :: r)))) as [x Hx]. rewrite Hx. cbn [mbind].
    destruct x; try exact I; try reflexivity.
    destruct (O4 (removelast (tl (h0 :: r)))) as [b Hb]. rewrite Hb. exact I.
  - destruct (O4 (h0 :: r)) as [b Hb]. rewrite Hb. exact I.
Qed.

Lemma mbind_only {A B} (x : mres A) (f : A -> mres B) :
  only_parse_error x -> (forall a, only_parse_error (f a)) -> only_parse_error (mbind x f).
Proof. destruct x; cbn; auto. Qed.

Lemma split_hostport_total hi : only_parse_error (split_hostport O hi).
Proof.
  unfold split_hostport. destruct hi as [|c hi]; [exact I|].
  destruct (partition 58 (c :: hi)) as [[host sep] port_str].
  destruct sep; [|exact I].
  destruct (if (match host with h0 :: _ => h0 =? 91 | [] => false end) && memN 93 port_str then _ else _)
    as [host' port_str'].
  apply mbind_only; [|intro; exact I]. unfold port_of.
  destruct (all_ascii port_str').
  - destruct (py_int port_str'); [exact I|]. destruct port_str'; [exact I|reflexivity].
  - destruct OT as [_ [_ OI]]. destruct (OI port_str') as [r Hr]. rewrite Hr. cbn [mbind].
    destruct r; [exact I|reflexivity].
Qed.

Lemma parse_url_total s : only_parse_error (parse_url O s).
Proof.
  unfold parse_url.
  destruct (split_userinfo _) as [[user pw] hostinfo].
  apply mbind_only; [apply split_hostport_total|].
  intros [host port]. apply mbind_only; [apply parse_host_total|].
  intros [family host']. exact I.
Qed.

Theorem url_init_total s : only_parse_error (url_init T O s).
Proof.
  unfold url_init. destruct s as [|c s']; [exact I|].
  apply mbind_only; [apply parse_url_total|]. intro p.
  apply mbind_only; [|intro; exact I].
  unfold decode_host. destruct (pu_host p) as [|h0 hr]; [exact I|].
  destruct (all_ascii (h0 :: hr)); [|exact I].
  destruct (o_idna_dec O (h0 :: hr)); try exact I. reflexivity.
Qed.
End Total.

(* ---- strict form: when every codec answers (ok / error), nothing is left outside the model ----- *)
Definition oracle_answers (O : oracles) : Prop :=
  oracle_total O /\
  (forall h, (exists r, o_idna_dec O h = MOk r) \/ (exists e, o_idna_dec O h = MRaise e)).

Definition url_or_parse_error {A} (r : mres A) : Prop :=
  match r with
  | MOk _ => True
  | MRaise e => e = URLParseError
  | MOut _ => False
  end.

Section Strict.
Variable T : tables.
Variable O : oracles.
Hypothesis OA : oracle_answers O.

Lemma mbind_strict {A B} (x : mres A) (f : A -> mres B) :
  url_or_parse_error x -> (forall a, url_or_parse_error (f a)) -> url_or_parse_error (mbind x f).
Proof. destruct x; cbn; auto. Qed.

Lemma parse_host_strict h : url_or_parse_error (parse_host O h).
Proof.
  unfold parse_host. destruct h as [|h0 r]; [exact I|].
  destruct OA as [[O4 [O6 _]] _].
  destruct (memN 58 (h0 :: r) && (h0 =? 91) && last_is 93 (h0 :: r)).
  - destruct (O6 (removelast (tl (h0 :: r)))) as [x Hx]. rewrite Hx. cbn [mbind].
    destruct x; try exact I; try reflexivity.
    destruct (O4 (removelast (tl (h0 :: r)))) as [b Hb]. rewrite Hb. exact I.
  - destruct (O4 (h0 :: r)) as [b Hb]. rewrite Hb. exact I.
Qed.

Lemma split_hostport_strict hi : url_or_parse_error (split_hostport O hi).
Proof.
  unfold split_hostport. destruct hi as [|c hi]; [exact I|].
  destruct (partition 58 (c :: hi)) as [[host sep] port_str].
  destruct sep; [|exact I].
  destruct (if (match host with h0 :: _ => h0 =? 91 | [] => false end) && memN 93 port_str then _ else _)
    as [host' port_str'].
  apply mbind_strict; [|intro; exact I]. unfold port_of.
  destruct (all_ascii port_str').
  - destruct (py_int port_str'); [exact I|]. destruct port_str'; [exact I|reflexivity].
  - destruct OA as [[_ [_ OI]] _]. destruct (OI port_str') as [r Hr]. rewrite Hr. cbn [mbind].
    destruct r; [exact I|reflexivity].
Qed.

Theorem url_init_total_strict s : url_or_parse_error (url_init T O s).
Proof.
  unfold url_init. destruct s as [|c s']; [exact I|].
  apply mbind_strict.
  - unfold parse_url. destruct (split_userinfo _) as [[user pw] hostinfo].
    apply mbind_strict; [apply split_hostport_strict|].
    intros [host port]. apply mbind_strict; [apply parse_host_strict|].
    intros [family host']. exact I.
  - intro p. apply mbind_strict; [|intro; exact I].
    unfold decode_host. destruct (pu_host p) as [|h0 hr]; [exact I|].
    destruct (all_ascii (h0 :: hr)); [|exact I].
    destruct OA as [_ OD]. destruct (OD (h0 :: hr)) as [[r Hr]|[e He]]; [rewrite Hr; exact I|rewrite He; reflexivity].
Qed.
End Strict.

(* ---- find_all_links never raises (model): whatever the regular expression matched -------------------- *)
Section Links.
Variable T : tables.
Variable O : oracles.
Hypothesis OA : oracle_answers O.

Lemma url_init_cases s : (exists u, url_init T O s = MOk u) \/ url_init T O s = MRaise URLParseError.
Proof.
  pose proof (url_init_total_strict T O OA s) as H. destruct (url_init T O s) as [u|e|w]; cbn in H.
  - left. eauto.
  - right. subst e. reflexivity.
  - contradiction.
Qed.

Lemma fal_step_ok wt ds schemes t st sp : exists st', fal_step T O wt ds schemes t st sp = MOk st'.
Proof.
  unfold fal_step. destruct st as [prev_end ret]. destruct sp as [start end_].
  destruct (url_init_cases (slice t start end_)) as [[u E]|E]; rewrite E; [|eauto].
  destruct (u_scheme u) as [|c r].
  - destruct ds as [d|]; [|eauto].
    destruct (url_init_cases (d ++ [58; 47; 47] ++ slice t start end_)) as [[u2 E2]|E2]; rewrite E2; [|eauto].
    destruct (match schemes with [] => false | _ :: _ => negb (mem_text (u_scheme u2) schemes) end); eauto.
  - destruct (match schemes with [] => false | _ :: _ => negb (mem_text (c :: r) schemes) end); eauto.
Qed.

Theorem find_all_links_total wt ds schemes t spans : exists items, find_all_links T O wt ds schemes t spans = MOk items.
Proof.
  unfold find_all_links.
  assert (L : forall spans st, exists st', fal_loop T O wt ds schemes t spans st = MOk st').
  { induction spans0 as [|sp r IH]; intro st; cbn [fal_loop]; [eauto|].
    destruct (fal_step_ok wt ds schemes t st sp) as [st' E]. rewrite E. cbn [mbind]. apply IH. }
  destruct (L spans (0%nat, [])) as [[pe ret] E]. rewrite E. cbn [mbind]. eauto.
Qed.
End Links.
