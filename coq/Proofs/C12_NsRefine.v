(* C12, netstrings: the model's observations of a writer history (write_ns,
   bsock.flush, setmaxsize; any partial sends, time-outs and socket errors)
   and of a reader history (read_ns with or without per-call maxsize,
   setmaxsize; any chunking and interruptions) satisfy Spec.spec_ns_holds -
   the predicate the check evaluates on the implementation. *)
From Boltons Require Import Lib.Prelude Lib.C12_Base Spec.C12_Spec Model.C12_Model
  Proofs.C12_Find Proofs.C12_Recv Proofs.C12_Send Proofs.C12_Main Proofs.C12_Chunking
  Proofs.C12_Netstring.

(* ---- writer ------------------------------------------------------------------------------------ *)
Definition is_wop (o : nsop) : bool := match o with ReadNs _ => false | _ => true end.

Definition wobs (out : outcome) (x : ns) : step_obs :=
  mkObs out (getsendbuffer (ns_bs x)) (length (wire (ns_bs x))) (length (sintrs (script (ns_bs x)))).

Record WRel (mx : nat) (acc : bytes) (ps : list bytes) (pend : list exn) (x : ns) : Prop := mkWRel {
  W_acc : wire (ns_bs x) ++ concat (sbuf (ns_bs x)) = acc;
  W_ps : acc = concat (map frame ps);
  W_pend : pend = sintrs (script (ns_bs x));
  W_mx : ns_maxsize x = mx;
  W_dl : dl (ns_bs x) = true
}.

Lemma firstn_wire (w ext : bytes) : firstn (length w) (w ++ ext) = w.
Proof. rewrite firstn_app_le by lia. apply firstn_all. Qed.

Lemma conserved_w (w ext sb acc : bytes) :
  w ++ sb = acc ->
  bytes_eqb (firstn (length w) (w ++ ext) ++ sb) acc && Nat.leb (length w) (length (w ++ ext)) = true.
Proof.
  intros <-. rewrite firstn_wire, bytes_eqb_refl. cbn [andb]. apply Nat.leb_le. rewrite app_length. lia.
Qed.

(* what a send-like writer call (write_ns of an acceptable payload, flush) does to the reference *)
Lemma wstep_send mx acc ps pend x data out0 s' out ps' W ext r :
  WRel mx acc ps pend x ->
  send (ns_bs x) data = (out0, s') ->
  out = match out0 with ONat _ => ONone | _ => out0 end ->
  W = wire s' ++ ext ->
  (acc ++ data) = concat (map frame ps') ->
  exists pend',
    (if outcome_eqb out ONone
     then if bytes_eqb (firstn (length (wire s')) W ++ concat (sbuf s')) (acc ++ data)
             && Nat.leb (length (wire s')) (length W) && is_nil (concat (sbuf s'))
          then spec_writes mx W (acc ++ data) ps' pend r else None
     else if is_interrupt out
          then match explain_intr true out pend (length (sintrs (script s'))) with
               | Some t => if bytes_eqb (firstn (length (wire s')) W ++ concat (sbuf s')) (acc ++ data)
                              && Nat.leb (length (wire s')) (length W)
                           then spec_writes mx W (acc ++ data) ps' t r else None
               | None => None
               end
          else None) = spec_writes mx W (acc ++ data) ps' pend' r /\
    WRel mx (acc ++ data) ps' pend' (with_bs x s').
Proof.
  intros [Hacc Hps Hpend Hmx Hdl] E -> -> Hps'.
  pose proof (send_gen _ _ _ _ E) as ((_ & _ & _ & _ & Hdl') & sent & Hw & Hc & Hcase).
  rewrite Hacc in Hc.
  destruct out0 as [|n| |e]; try contradiction.
  - destruct Hcase as (Hsb & _ & Hst). cbn [outcome_eqb].
    rewrite conserved_w by exact Hc. rewrite Hsb. cbn [is_nil andb].
    exists pend. split; [reflexivity|]. constructor; cbn [ns_bs with_bs ns_maxsize]; auto; congruence.
  - cbn [outcome_eqb is_interrupt]. rewrite Hdl in Hcase. rewrite (sintr_by_is_intr _ _ _ _ Hcase).
    rewrite Hpend, (sintr_by_explain _ _ _ _ Hcase).
    rewrite conserved_w by exact Hc.
    exists (sintrs (script s')). split; [reflexivity|]. constructor; cbn [ns_bs with_bs ns_maxsize]; auto;
      congruence.
Qed.

Lemma ns_wstep mx acc ps pend x o out x' W ext :
  WRel mx acc ps pend x -> is_wop o = true -> ns_step x o = (out, x') ->
  W = wire (ns_bs x') ++ ext ->
  exists mx' acc' ps' pend',
    (forall r, spec_writes mx W acc ps pend ((o, wobs out x') :: r) = spec_writes mx' W acc' ps' pend' r) /\
    WRel mx' acc' ps' pend' x'.
Proof.
  intros HR Ho H HW. pose proof HR as [Hacc Hps Hpend Hmx Hdl].
  destruct o as [m|p|n|]; try discriminate; cbn [ns_step] in H.
  - (* write_ns *)
    unfold write_ns in H. rewrite Hmx in H.
    destruct (Nat.ltb mx (length p)) eqn:El.
    + inversion H; subst out x'; clear H. exists mx, acc, ps, pend. split; [|assumption].
      intro r. cbn [spec_writes wobs o_out o_buf o_cnt o_left]. rewrite El. unfold getsendbuffer.
      change (outcome_eqb (OExn NetstringMessageTooLong) (OExn NetstringMessageTooLong)) with true.
      rewrite HW, conserved_w by exact Hacc. reflexivity.
    + rewrite frame_model in H. destruct (send (ns_bs x) (frame p)) as [o0 s'] eqn:E.
      assert (Hx' : x' = with_bs x s' /\ out = match o0 with ONat _ => ONone | _ => o0 end).
      { destruct o0; inversion H; auto. }
      destruct Hx' as [-> ->].
      assert (Hps' : acc ++ frame p = concat (map frame (ps ++ [p]))).
      { rewrite map_app, concat_app. cbn. rewrite app_nil_r. congruence. }
      cbn [ns_bs with_bs] in HW.
      destruct (wstep_send mx acc ps pend x (frame p) o0 s' _ (ps ++ [p]) W ext []
                  HR E eq_refl HW Hps') as (pend' & _ & HR').
      exists mx, (acc ++ frame p), (ps ++ [p]), pend'. split; [|exact HR'].
      intro r. cbn [spec_writes wobs o_out o_buf o_cnt o_left ns_bs with_bs]. rewrite El. unfold getsendbuffer.
      destruct (wstep_send mx acc ps pend x (frame p) o0 s' _ (ps ++ [p]) W ext r
                  HR E eq_refl HW Hps') as (pend'' & Heq & HR'').
      assert (pend'' = pend') by (destruct HR' as [_ _ A _ _], HR'' as [_ _ B _ _]; congruence). subst pend''.
      exact Heq.
  - (* setmaxsize *)
    inversion H; subst out x'; clear H. exists n, acc, ps, pend. split.
    + intro r. reflexivity.
    + constructor; cbn [ns_bs ns_maxsize]; auto.
  - (* flush *)
    unfold flush in H. destruct (send (ns_bs x) []) as [o0 s'] eqn:E.
    assert (Hx' : x' = with_bs x s' /\ out = match o0 with ONat _ => ONone | _ => o0 end).
    { destruct o0; inversion H; auto. }
    destruct Hx' as [-> ->].
    assert (Hps' : acc ++ [] = concat (map frame ps)) by (rewrite app_nil_r; exact Hps).
    cbn [ns_bs with_bs] in HW.
    destruct (wstep_send mx acc ps pend x [] o0 s' _ ps W ext []
                HR E eq_refl HW Hps') as (pend' & _ & HR').
    rewrite app_nil_r in HR'.
    exists mx, acc, ps, pend'. split; [|exact HR'].
    intro r. cbn [spec_writes wobs o_out o_buf o_cnt o_left ns_bs with_bs]. unfold getsendbuffer.
    destruct (wstep_send mx acc ps pend x [] o0 s' _ ps W ext r
                HR E eq_refl HW Hps') as (pend'' & Heq & HR'').
    rewrite app_nil_r in Heq, HR''.
    assert (pend'' = pend') by (destruct HR' as [_ _ A _ _], HR'' as [_ _ B _ _]; congruence). subst pend''.
    exact Heq.
Qed.

Lemma ns_step_wire_grows x o out x' :
  is_wop o = true -> ns_step x o = (out, x') -> exists ext, wire (ns_bs x') = wire (ns_bs x) ++ ext.
Proof.
  intros Ho H. destruct o as [m|p|n|]; try discriminate; cbn [ns_step] in H.
  - unfold write_ns in H. destruct (Nat.ltb _ _).
    + inversion H; subst. exists []. rewrite app_nil_r. reflexivity.
    + destruct (send (ns_bs x) _) as [o0 s'] eqn:E. apply send_gen in E as (_ & sent & Hw & _).
      exists sent. destruct o0; inversion H; subst; exact Hw.
  - inversion H; subst. exists []. rewrite app_nil_r. reflexivity.
  - unfold flush in H. destruct (send (ns_bs x) []) as [o0 s'] eqn:E. apply send_gen in E as (_ & sent & Hw & _).
    exists sent. destruct o0; inversion H; subst; exact Hw.
Qed.

Lemma ns_run_w_wire_grows : forall ops x obs w,
  forallb is_wop ops = true -> ns_run true 0 x ops = (obs, w) ->
  exists ext, wire (ns_bs w) = wire (ns_bs x) ++ ext.
Proof.
  induction ops as [|o r IH]; intros x obs w Ho H; cbn [ns_run] in H.
  - inversion H; subst. exists []. rewrite app_nil_r. reflexivity.
  - cbn [forallb] in Ho. apply andb_true_iff in Ho as [Ho Hr].
    destruct (ns_step x o) as [out x1] eqn:E1. destruct (ns_run true 0 x1 r) as [obs' x2] eqn:E2.
    inversion H; subst. apply ns_step_wire_grows in E1 as [e1 H1]; auto. apply IH in E2 as [e2 H2]; auto.
    exists (e1 ++ e2). rewrite H2, H1, app_assoc. reflexivity.
Qed.

Lemma ns_run_writes_spec : forall ops mx acc ps pend x obs w,
  forallb is_wop ops = true -> WRel mx acc ps pend x ->
  ns_run true 0 x ops = (obs, w) ->
  exists mx' acc' ps' pend',
    spec_writes mx (wire (ns_bs w)) acc ps pend obs = Some (acc', ps') /\ WRel mx' acc' ps' pend' w.
Proof.
  induction ops as [|o r IH]; intros mx acc ps pend x obs w Ho HR H; cbn [ns_run] in H.
  - inversion H; subst. exists mx, acc, ps, pend. split; [reflexivity|assumption].
  - cbn [forallb] in Ho. apply andb_true_iff in Ho as [Ho Hr].
    destruct (ns_step x o) as [out x1] eqn:E1. destruct (ns_run true 0 x1 r) as [obs' x2] eqn:E2.
    inversion H; subst; clear H.
    destruct (ns_run_w_wire_grows _ _ _ _ Hr E2) as [ext Hext].
    destruct (ns_wstep mx acc ps pend x o out x1 (wire (ns_bs w)) ext HR Ho E1 Hext)
      as (mx1 & acc1 & ps1 & pend1 & Heq & HR1).
    destruct (IH mx1 acc1 ps1 pend1 x1 obs' w Hr HR1 E2) as (mx' & acc' & ps' & pend' & Hs & HR').
    exists mx', acc', ps', pend'. split; [|assumption].
    change (mkObs out (getsendbuffer (ns_bs x1)) (length (wire (ns_bs x1)))
                  (length (sintrs (script (ns_bs x1))))) with (wobs out x1).
    rewrite Heq. exact Hs.
Qed.

(* ---- reader ------------------------------------------------------------------------------------ *)
Definition is_rop (o : nsop) : bool :=
  match o with ReadNs _ | NsSetMaxsize _ => true | _ => false end.

Definition ns_mx (x : ns) (m : option nat) : nat := match m with Some k => k | None => ns_maxsize x end.
Definition ns_msg (x : ns) (m : option nat) : nat :=
  match m with Some k => calc_msgsize_maxsize k | None => ns_msgsize_maxsize x end.

Lemma ns_msg_eq x m : ns_inv x -> ns_msg x m = length (dec (ns_mx x m)) + 1.
Proof. intros [_ _ M]. destruct m; [reflexivity|exact M]. Qed.

Definition ns_suffix (x x' : ns) : Prop := exists pre, flat (nt (ns_bs x)) = pre ++ flat (nt (ns_bs x')).

Lemma suffix_trans (a b c : bytes) p q : a = p ++ b -> b = q ++ c -> exists r, a = r ++ c.
Proof. intros -> ->. exists (p ++ q). apply app_assoc. Qed.

(* phase 1 of read_ns: the size prefix.  Either the call ends there (with the
   outcome of recv_until, nothing consumed that is not re-buffered), or the
   prefix was returned. *)
Lemma first_occ_absent c : forall l, Forall (fun x => x <> c) l -> first_occ [c] l = None.
Proof.
  induction l as [|x l IH]; intro H; cbn [first_occ is_prefix]; [reflexivity|].
  inversion H; subst. assert (E : N.eqb c x = false) by (apply N.eqb_neq; congruence).
  rewrite E. cbn [andb]. rewrite IH by assumption. reflexivity.
Qed.

Lemma Forall_firstn {A} (P : A -> Prop) (l : list A) k : Forall P l -> Forall P (firstn k l).
Proof.
  revert k. induction l as [|x l IH]; intros k H; destruct k; cbn; auto.
  inversion H; subst. constructor; auto.
Qed.

(* the general outcome of one read_ns on a stream that starts with a frame *)
Lemma read_ns_frame x m p rest out x' :
  ns_inv x -> ns_rem x = frame p ++ rest -> read_ns x m = (out, x') ->
  ns_inv x' /\ ns_maxsize x' = ns_maxsize x /\ ns_suffix x x' /\
  ((exists e, out = OExn e /\ ns_rem x' = ns_rem x /\ ns_intr_by e x x') \/
   (ns_tmo x' = ns_tmo x /\
    if Nat.ltb (ns_mx x m) (length p)
    then out = OExn NetstringMessageTooLong \/ out = OExn MessageTooLong
    else out = OBytes p /\ ns_rem x' = rest)).
Proof.
  intros I Hrem H. pose proof I as [W R M D]. unfold ns_rem, ns_tmo, ns_suffix in *.
  assert (Hunf : read_ns x m =
     match recv_until_dl (ns_dl x) (ns_bs x) [58%N] (MVal (ns_msg x m)) false with
     | (OBytes size_prefix, s1) =>
         match py_int size_prefix with
         | None => (OExn NetstringInvalidSize, with_bs x s1)
         | Some size =>
             if Z.ltb (Z.of_nat (ns_mx x m)) size then (OExn NetstringMessageTooLong, with_bs x s1)
             else
               let size := Z.to_nat size in
               let unread (s : bs) (consumed : bytes) := set_recv s (consumed ++ rbuf s) (nt s) in
               match recv_size s1 size with
               | (OBytes payload, s2) =>
                   match recv s2 1 with
                   | (OBytes t, s3) =>
                       if bytes_eqb t [44%N] then (OBytes payload, with_bs x s3)
                       else (OExn NetstringProtocolError, with_bs x s3)
                   | (out, s3) => (out, with_bs x (unread s3 (size_prefix ++ 58%N :: payload)))
                   end
               | (out, s2) => (out, with_bs x (unread s2 (size_prefix ++ [58%N])))
               end
         end
     | (out, s1) => (out, with_bs x s1)
     end).
  { unfold read_ns, ns_mx, ns_msg. destruct m; reflexivity. }
  rewrite Hunf in H. clear Hunf.
  pose proof (ns_msg_eq x m I) as Hmsg. set (mx := ns_mx x m) in *. set (msg := ns_msg x m) in *.
  set (k := length (dec (length p))).
  (* phase 1 *)
  destruct (recv_until_dl (ns_dl x) (ns_bs x) [58%N] (MVal msg) false) as [o1 s1] eqn:E1.
  pose proof (recv_until_dl_ok _ _ _ _ _ _ _ W R E1) as (W1 & SR1 & (pre1 & Hp1) & C1).
  assert (Rs1 : 1 <= recvsize s1) by (destruct SR1 as (_ & -> & _); assumption).
  assert (D1 : dl s1 = true) by (destruct SR1 as (_ & _ & _ & _ & _ & ->); assumption).
  pose proof (recv_until_dl_le _ _ _ _ _ _ _ E1) as L1.
  destruct C1 as [(e & -> & Hr1 & Ht1)|(_ & Ht1 & C1)].
  { inversion H; subst; clear H. cbn [ns_bs with_bs ns_maxsize ns_msgsize_maxsize].
    split; [constructor; assumption|]. split; [reflexivity|]. split; [eauto|]. left. exists e.
    split; [reflexivity|]. split; [assumption|]. exact (intr_by_weaken _ _ _ _ Ht1). }
  cbn [spec_framing resolve lim_take] in C1. rewrite Hrem in C1.
  destruct (Nat.leb (k + 1) msg) eqn:Ek.
  - (* the size prefix fits into the search window *)
    apply Nat.leb_le in Ek.
    assert (F1 : first_occ [58%N] (firstn msg (frame p ++ rest)) = Some k).
    { unfold frame. rewrite <- app_assoc. cbn [app]. rewrite firstn_app_cons by (fold k; lia).
      apply first_occ_single. apply dec_no_colon. }
    rewrite F1 in C1. inversion C1 as [[Ho1 Hrem1]]; clear C1.
    assert (Hpre : firstn k (frame p ++ rest) = dec (length p)).
    { unfold frame. rewrite <- app_assoc. rewrite firstn_app_le by (fold k; lia). apply firstn_all. }
    assert (Hrest1 : skipn (k + 1) (frame p ++ rest) = p ++ 44%N :: rest).
    { unfold frame. rewrite <- app_assoc. cbn [app]. rewrite <- app_assoc. cbn [app].
      rewrite skipn_app.
      rewrite skipn_all2 by (fold k; lia). cbn [app].
      replace (k + 1 - length (dec (length p))) with 1 by (unfold k; lia). reflexivity. }
    rewrite Hpre in Ho1. rewrite Hrest1 in Hrem1. subst o1.
    rewrite py_int_dec in H. cbv zeta in H. rewrite Nat2Z.id in H.
    replace (Z.ltb (Z.of_nat mx) (Z.of_nat (length p))) with (Nat.ltb mx (length p)) in H
      by (destruct (Nat.ltb mx (length p)) eqn:Eq; symmetry;
          [apply Nat.ltb_lt in Eq; apply Z.ltb_lt; lia|apply Nat.ltb_ge in Eq; apply Z.ltb_ge; lia]).
    destruct (Nat.ltb mx (length p)) eqn:El.
    { inversion H; subst; clear H. cbn [ns_bs with_bs ns_maxsize ns_msgsize_maxsize].
      split; [constructor; assumption|]. split; [reflexivity|]. split; [eauto|]. right. auto. }
    (* phase 2: the payload *)
    destruct (recv_size s1 (length p)) as [o2 s2] eqn:E2.
    pose proof (recv_size_ok _ _ _ _ W1 Rs1 E2) as (W2 & SR2 & (pre2 & Hp2) & C2).
    assert (Rs2 : 1 <= recvsize s2) by (destruct SR2 as (_ & -> & _); assumption).
    assert (D2 : dl s2 = true) by (destruct SR2 as (_ & _ & _ & _ & _ & ->); assumption).
    pose proof (recv_size_lim_le _ _ _ _ E2) as L2.
    assert (Hsuf2 : exists q, flat (nt (ns_bs x)) = q ++ flat (nt s2)) by (eapply suffix_trans; eauto).
    destruct C2 as [(e & -> & Hr2 & Ht2)|(_ & Ht2 & C2)].
    { inversion H; subst; clear H. cbn [ns_bs with_bs ns_maxsize ns_msgsize_maxsize nt rbuf recvsize dl set_recv].
      split; [constructor; assumption|]. split; [reflexivity|]. split; [assumption|].
      left. exists e. split; [reflexivity|]. split; [|unfold ns_intr_by, ns_net; cbn [ns_bs with_bs nt set_recv]; apply (intr_by_later _ _ _ (nt s1)); [exact L1|exact Ht1|rewrite <- D1; exact Ht2]].
      rewrite remaining_set_recv, <- app_assoc. change (rbuf s2 ++ flat (nt s2)) with (remaining s2).
      rewrite Hr2, <- Hrem1, Hrem, frame_app, <- app_assoc. reflexivity. }
    cbn [spec_framing] in C2. rewrite <- Hrem1 in C2.
    assert (Hc2 : Nat.leb (length p) (length (p ++ 44%N :: rest)) && negb (is_nil (p ++ 44%N :: rest)) = true).
    { rewrite (proj2 (Nat.leb_le _ _)) by (rewrite app_length; lia). destruct p; reflexivity. }
    rewrite Hc2 in C2. inversion C2 as [[Ho2 Hrem2]]; clear C2.
    rewrite firstn_app_le, firstn_all in Ho2 by lia.
    rewrite skipn_app, skipn_all, Nat.sub_diag in Hrem2. cbn [app skipn] in Hrem2. subst o2.
    (* phase 3: the trailing comma *)
    destruct (recv s2 1) as [o3 s3] eqn:E3.
    pose proof (recv_ok _ _ _ _ W2 Rs2 E3) as (W3 & SR3 & (pre3 & Hp3) & C3).
    assert (Rs3 : 1 <= recvsize s3) by (destruct SR3 as (_ & -> & _); assumption).
    assert (D3 : dl s3 = true) by (destruct SR3 as (_ & _ & _ & _ & _ & ->); assumption).
    pose proof (recv_le _ _ _ _ E3) as L3.
    assert (Hsuf3 : exists q, flat (nt (ns_bs x)) = q ++ flat (nt s3)).
    { destruct Hsuf2 as [q Hq]. eapply suffix_trans; eauto. }
    destruct C3 as [(e & -> & Hr3 & Ht3)|(_ & Ht3 & (dd & -> & Hok & Hr3))].
    { inversion H; subst; clear H. cbn [ns_bs with_bs ns_maxsize ns_msgsize_maxsize nt rbuf recvsize dl set_recv].
      split; [constructor; assumption|]. split; [reflexivity|]. split; [assumption|].
      left. exists e. split; [reflexivity|]. split; [|unfold ns_intr_by, ns_net; cbn [ns_bs with_bs nt set_recv]; apply (intr_by_later _ _ _ (nt s1)); [exact L1|exact Ht1|]; apply (intr_by_later _ _ _ (nt s2)); [exact L2|exact Ht2|rewrite <- D2; exact Ht3]].
      rewrite remaining_set_recv, <- app_assoc. change (rbuf s3 ++ flat (nt s3)) with (remaining s3).
      rewrite Hr3, <- Hrem2, Hrem, frame_app, <- app_assoc. reflexivity. }
    rewrite <- Hrem2 in Hok, Hr3. apply spec_recv_one in Hok. subst dd. cbn [length skipn] in Hr3.
    change (bytes_eqb [44%N] [44%N]) with true in H. cbv iota in H.
    inversion H; subst; clear H. cbn [ns_bs with_bs ns_maxsize ns_msgsize_maxsize].
    split; [constructor; assumption|]. split; [reflexivity|]. split; [assumption|].
    right. split; [congruence|]. split; [reflexivity|congruence].
  - (* the size prefix alone is longer than the search window: MessageTooLong *)
    apply Nat.leb_gt in Ek.
    assert (Hlen : length (dec mx) < length (dec (length p))) by (unfold k in Ek; lia).
    assert (Hlt : mx < length p).
    { destruct (Nat.le_gt_cases (length p) mx) as [Hle|]; [|assumption].
      pose proof (dec_len_mono _ _ Hle). lia. }
    assert (F1 : first_occ [58%N] (firstn msg (frame p ++ rest)) = None).
    { unfold frame. rewrite <- app_assoc. rewrite firstn_app_le by (fold k; lia).
      apply first_occ_absent. apply Forall_firstn. apply dec_no_colon. }
    rewrite F1 in C1.
    assert (Hex : lim_exceeded (Some msg) (frame p ++ rest) = true).
    { unfold lim_exceeded. apply Nat.ltb_lt. unfold frame. rewrite !app_length. cbn [length].
      rewrite app_length. cbn [length]. fold k. lia. }
    rewrite Hex in C1. inversion C1 as [[Ho1 Hrem1]]; clear C1. subst o1.
    inversion H; subst; clear H. cbn [ns_bs with_bs ns_maxsize ns_msgsize_maxsize].
    split; [constructor; assumption|]. split; [reflexivity|]. split; [eauto|].
    right. split; [assumption|]. rewrite (proj2 (Nat.ltb_lt _ _)) by assumption. auto.
Qed.

(* read_ns on an exhausted, closed stream *)
Lemma read_ns_closed x m out x' :
  ns_inv x -> ns_rem x = [] -> read_ns x m = (out, x') ->
  ns_inv x' /\ ns_maxsize x' = ns_maxsize x /\ ns_suffix x x' /\
  ((exists e, out = OExn e /\ ns_rem x' = ns_rem x /\ ns_intr_by e x x') \/
   (ns_tmo x' = ns_tmo x /\ out = OExn ConnectionClosed /\ ns_rem x' = [])).
Proof.
  intros I Hrem H. pose proof I as [W R M D]. unfold ns_rem, ns_tmo, ns_suffix in *.
  assert (Hunf : exists K,
     read_ns x m =
     match recv_until_dl (ns_dl x) (ns_bs x) [58%N] (MVal (ns_msg x m)) false with
     | (OBytes size_prefix, s1) => K size_prefix s1
     | (out, s1) => (out, with_bs x s1)
     end).
  { unfold read_ns, ns_msg. destruct m; eexists; reflexivity. }
  destruct Hunf as [K Hunf]. rewrite Hunf in H. clear Hunf.
  destruct (recv_until_dl (ns_dl x) (ns_bs x) [58%N] (MVal (ns_msg x m)) false) as [o1 s1] eqn:E1.
  pose proof (recv_until_dl_ok _ _ _ _ _ _ _ W R E1) as (W1 & SR1 & Hp1 & C1).
  assert (Rs1 : 1 <= recvsize s1) by (destruct SR1 as (_ & -> & _); assumption).
  assert (D1 : dl s1 = true) by (destruct SR1 as (_ & _ & _ & _ & _ & ->); assumption).
  pose proof (recv_until_dl_le _ _ _ _ _ _ _ E1) as L1.
  destruct C1 as [(e & -> & Hr1 & Ht1)|(_ & Ht1 & C1)].
  { inversion H; subst; clear H. cbn [ns_bs with_bs ns_maxsize ns_msgsize_maxsize].
    split; [constructor; assumption|]. split; [reflexivity|]. split; [assumption|]. left. exists e.
    split; [reflexivity|]. split; [assumption|]. exact (intr_by_weaken _ _ _ _ Ht1). }
  cbn [spec_framing resolve lim_take] in C1. rewrite Hrem in C1.
  rewrite firstn_nil in C1. cbn in C1. inversion C1 as [[Ho1 Hrem1]]; clear C1. subst o1.
  inversion H; subst; clear H. cbn [ns_bs with_bs ns_maxsize ns_msgsize_maxsize].
  split; [constructor; assumption|]. split; [reflexivity|]. split; [assumption|]. right. auto.
Qed.

(* whatever the stream looks like: a read_ns that ends in an interruption has
   consumed nothing (this is what the two repairs of read_ns establish) *)
Lemma read_ns_interrupted x m out x' :
  ns_inv x -> read_ns x m = (out, x') -> is_interrupt out = true ->
  exists e, out = OExn e /\ ns_rem x' = ns_rem x /\ ns_intr_by e x x' /\
            ns_inv x' /\ ns_maxsize x' = ns_maxsize x /\ ns_suffix x x'.
Proof.
  intros I H Ei. pose proof I as [W R M D]. unfold ns_rem, ns_tmo, ns_suffix in *.
  assert (Hunf : read_ns x m =
     match recv_until_dl (ns_dl x) (ns_bs x) [58%N] (MVal (ns_msg x m)) false with
     | (OBytes size_prefix, s1) =>
         match py_int size_prefix with
         | None => (OExn NetstringInvalidSize, with_bs x s1)
         | Some size =>
             if Z.ltb (Z.of_nat (ns_mx x m)) size then (OExn NetstringMessageTooLong, with_bs x s1)
             else
               let size := Z.to_nat size in
               let unread (s : bs) (consumed : bytes) := set_recv s (consumed ++ rbuf s) (nt s) in
               match recv_size s1 size with
               | (OBytes payload, s2) =>
                   match recv s2 1 with
                   | (OBytes t, s3) =>
                       if bytes_eqb t [44%N] then (OBytes payload, with_bs x s3)
                       else (OExn NetstringProtocolError, with_bs x s3)
                   | (out, s3) => (out, with_bs x (unread s3 (size_prefix ++ 58%N :: payload)))
                   end
               | (out, s2) => (out, with_bs x (unread s2 (size_prefix ++ [58%N])))
               end
         end
     | (out, s1) => (out, with_bs x s1)
     end).
  { unfold read_ns, ns_mx, ns_msg. destruct m; reflexivity. }
  rewrite Hunf in H. clear Hunf.
  destruct (recv_until_dl (ns_dl x) (ns_bs x) [58%N] (MVal (ns_msg x m)) false) as [o1 s1] eqn:E1.
  pose proof (recv_until_dl_ok _ _ _ _ _ _ _ W R E1) as (W1 & SR1 & (pre1 & Hp1) & C1).
  assert (Rs1 : 1 <= recvsize s1) by (destruct SR1 as (_ & -> & _); assumption).
  assert (D1 : dl s1 = true) by (destruct SR1 as (_ & _ & _ & _ & _ & ->); assumption).
  pose proof (recv_until_dl_le _ _ _ _ _ _ _ E1) as L1.
  destruct C1 as [(e & -> & Hr1 & Ht1)|(Hn1 & Ht1 & C1)].
  { inversion H; subst; clear H. exists e. cbn [ns_bs with_bs ns_maxsize ns_msgsize_maxsize].
    split; [reflexivity|]. split; [assumption|]. split; [exact (intr_by_weaken _ _ _ _ Ht1)|].
    split; [constructor; assumption|]. split; [reflexivity|eauto]. }
  cbn [spec_framing resolve lim_take] in C1.
  destruct (first_occ [58%N] (firstn (ns_msg x m) (remaining (ns_bs x)))) as [k|] eqn:F1;
    inversion C1 as [[Ho1 Hrem1]]; clear C1; subst o1;
    [|inversion H; subst; rewrite Ei in Hn1; discriminate].
  pose proof (first_occ_lim_take [58%N] (Some (ns_msg x m)) _ _ F1) as Hsplit. cbn [length] in Hsplit.
  assert (Hwhole : remaining (ns_bs x) = firstn k (remaining (ns_bs x)) ++ 58%N :: remaining s1).
  { rewrite <- Hrem1. rewrite <- (firstn_skipn (k + 1) (remaining (ns_bs x))) at 1.
    rewrite Hsplit, <- app_assoc. reflexivity. }
  set (sp := firstn k (remaining (ns_bs x))) in *.
  destruct (py_int sp) as [size|]; [|inversion H; subst; discriminate].
  destruct (Z.ltb (Z.of_nat (ns_mx x m)) size); [inversion H; subst; discriminate|].
  cbv zeta in H. set (sz := Z.to_nat size) in *. clearbody sz. clear size. rename sz into size.
  destruct (recv_size s1 size) as [o2 s2] eqn:E2.
  pose proof (recv_size_ok _ _ _ _ W1 Rs1 E2) as (W2 & SR2 & (pre2 & Hp2) & C2).
  assert (Rs2 : 1 <= recvsize s2) by (destruct SR2 as (_ & -> & _); assumption).
  assert (D2 : dl s2 = true) by (destruct SR2 as (_ & _ & _ & _ & _ & ->); assumption).
  pose proof (recv_size_lim_le _ _ _ _ E2) as L2.
  assert (Hsuf2 : exists q, flat (nt (ns_bs x)) = q ++ flat (nt s2)) by (eapply suffix_trans; eauto).
  destruct C2 as [(e & -> & Hr2 & Ht2)|(Hn2 & Ht2 & C2)].
  { inversion H; subst; clear H. exists e. cbn [ns_bs with_bs ns_maxsize ns_msgsize_maxsize nt rbuf recvsize dl set_recv].
    split; [reflexivity|]. split.
    { rewrite remaining_set_recv, <- app_assoc. change (rbuf s2 ++ flat (nt s2)) with (remaining s2).
      rewrite Hr2, <- app_assoc. symmetry. exact Hwhole. }
    split; [unfold ns_intr_by, ns_net; cbn [ns_bs with_bs nt set_recv]; apply (intr_by_later _ _ _ (nt s1)); [exact L1|exact Ht1|rewrite <- D1; exact Ht2]|]. split; [constructor; assumption|]. split; [reflexivity|assumption]. }
  cbn [spec_framing] in C2.
  destruct (Nat.leb size (length (remaining s1)) && negb (is_nil (remaining s1)));
    inversion C2 as [[Ho2 Hrem2]]; clear C2; subst o2;
    [|inversion H; subst; discriminate].
  destruct (recv s2 1) as [o3 s3] eqn:E3.
  pose proof (recv_ok _ _ _ _ W2 Rs2 E3) as (W3 & SR3 & (pre3 & Hp3) & C3).
  assert (Rs3 : 1 <= recvsize s3) by (destruct SR3 as (_ & -> & _); assumption).
  assert (D3 : dl s3 = true) by (destruct SR3 as (_ & _ & _ & _ & _ & ->); assumption).
  pose proof (recv_le _ _ _ _ E3) as L3.
  assert (Hsuf3 : exists q, flat (nt (ns_bs x)) = q ++ flat (nt s3)).
  { destruct Hsuf2 as [q Hq]. eapply suffix_trans; eauto. }
  destruct C3 as [(e & -> & Hr3 & Ht3)|(_ & Ht3 & (dd & -> & Hok & Hr3))].
  { inversion H; subst; clear H. exists e. cbn [ns_bs with_bs ns_maxsize ns_msgsize_maxsize nt rbuf recvsize dl set_recv].
    split; [reflexivity|]. split.
    { rewrite remaining_set_recv, <- app_assoc. change (rbuf s3 ++ flat (nt s3)) with (remaining s3).
      rewrite Hr3, <- Hrem2. rewrite <- app_assoc. cbn [app]. rewrite firstn_skipn. symmetry. exact Hwhole. }
    split; [unfold ns_intr_by, ns_net; cbn [ns_bs with_bs nt set_recv]; apply (intr_by_later _ _ _ (nt s1)); [exact L1|exact Ht1|]; apply (intr_by_later _ _ _ (nt s2)); [exact L2|exact Ht2|rewrite <- D2; exact Ht3]|]. split; [constructor; assumption|]. split; [reflexivity|assumption]. }
  destruct (bytes_eqb dd [44%N]); inversion H; subst; discriminate.
Qed.

Definition robs (len : nat) (out : outcome) (x : ns) : step_obs :=
  mkObs out (getrecvbuffer (ns_bs x)) (consumed len (ns_bs x)) (length (intrs (nt (ns_bs x)))).

Lemma conserved_ns stream x :
  (exists pre, stream = pre ++ flat (nt (ns_bs x))) ->
  bytes_eqb (getrecvbuffer (ns_bs x) ++ skipn (consumed (length stream) (ns_bs x)) stream) (ns_rem x) = true.
Proof. intro H. apply conserved_ok. exact H. Qed.

Lemma ns_run_reads_spec stream junk : forall ops ps x obs xf,
  forallb is_rop ops = true -> ns_inv x ->
  ns_rem x = concat (map frame ps) ++ junk ->
  (exists pre, stream = pre ++ flat (nt (ns_bs x))) ->
  ns_run false (length stream) x ops = (obs, xf) ->
  spec_reads stream (ns_maxsize x) (ns_rem x) ps (ns_tmo x) (is_nil junk) obs = true.
Proof.
  induction ops as [|o r IH]; intros ps x obs xf Ho I Hrem Hsuf H; cbn [ns_run] in H.
  - inversion H; subst. reflexivity.
  - cbn [forallb] in Ho. apply andb_true_iff in Ho as [Ho Hr].
    destruct (ns_step x o) as [out x1] eqn:E1.
    destruct (ns_run false (length stream) x1 r) as [obs' x2] eqn:E2.
    inversion H; subst; clear H.
    change (mkObs out (getrecvbuffer (ns_bs x1)) (consumed (length stream) (ns_bs x1))
                  (length (intrs (nt (ns_bs x1))))) with (robs (length stream) out x1).
    destruct o as [m|p|n|]; try discriminate; cbn [ns_step] in E1.
    + (* read_ns *)
      cbn [spec_reads robs o_out o_buf o_cnt o_left].
      assert (Hsuf1 : ns_suffix x x1 -> exists pre, stream = pre ++ flat (nt (ns_bs x1))).
      { intros [q Hq]. destruct Hsuf as [pre Hpre]. eapply suffix_trans; eauto. }
      destruct ps as [|p ps'].
      * (* no frame left *)
        destruct junk as [|j junk'].
        -- cbn [map concat app] in Hrem.
           destruct (read_ns_closed _ _ _ _ I Hrem E1) as (I1 & Hm & Hs & [(e & -> & Hr1 & Ht)|(Ht & -> & Hr1)]).
           ++ unfold ns_intr_by, ns_net in Ht. cbn [is_interrupt]. rewrite (intr_by_is_intr _ _ _ _ Ht).
              unfold ns_tmo at 1. rewrite (intr_by_explain _ _ _ _ Ht).
              rewrite <- Hr1, conserved_ns by auto. cbn [andb].
              rewrite <- Hm. apply (IH [] x1 obs' xf); auto. rewrite Hr1. exact Hrem.
           ++ cbn [is_interrupt is_intr_exn is_nil]. rewrite outcome_eqb_refl. cbn [andb].
              rewrite Hrem, <- Hr1, conserved_ns by auto. cbn [andb].
              rewrite <- Hm. unfold ns_tmo in *. rewrite <- Ht.
              apply (IH [] x1 obs' xf); auto.
        -- (* junk follows: the reference is silent unless the call was interrupted *)
           cbn [is_nil].
           destruct (is_interrupt out) eqn:Ei; [|reflexivity].
           (* an interrupted read on arbitrary junk: every path re-buffers *)
           assert (Hgen : exists e, out = OExn e /\ ns_rem x1 = ns_rem x /\ ns_intr_by e x x1 /\
                                    ns_inv x1 /\ ns_maxsize x1 = ns_maxsize x /\ ns_suffix x x1).
           { apply (read_ns_interrupted x m out x1 I E1 Ei). }
           destruct Hgen as (e & -> & Hr1 & Ht & I1 & Hm & Hs).
           unfold ns_intr_by, ns_net in Ht. unfold ns_tmo at 1. rewrite (intr_by_explain _ _ _ _ Ht).
           rewrite <- Hr1, conserved_ns by auto. cbn [andb].
           rewrite <- Hm. apply (IH [] x1 obs' xf); auto. rewrite Hr1. exact Hrem.
      * (* a frame is next *)
        cbn [map concat] in Hrem. rewrite <- app_assoc in Hrem.
        destruct (read_ns_frame _ _ _ _ _ _ I Hrem E1) as (I1 & Hm & Hs & [(e & -> & Hr1 & Ht)|(Ht & Hc)]).
        -- unfold ns_intr_by, ns_net in Ht. cbn [is_interrupt]. rewrite (intr_by_is_intr _ _ _ _ Ht).
           unfold ns_tmo at 1. rewrite (intr_by_explain _ _ _ _ Ht).
           rewrite <- Hr1, conserved_ns by auto. cbn [andb].
           rewrite <- Hm. apply (IH (p :: ps') x1 obs' xf); auto.
           rewrite Hr1, Hrem. cbn [map concat]. rewrite <- app_assoc. reflexivity.
        -- fold (ns_mx x m). destruct (Nat.ltb (ns_mx x m) (length p)) eqn:El.
           ++ destruct Hc as [-> | ->]; reflexivity.
           ++ destruct Hc as [-> Hr1]. cbn [is_interrupt]. rewrite outcome_eqb_refl. cbn [andb].
              rewrite Hrem. rewrite skipn_app, skipn_all, Nat.sub_diag. cbn [app skipn].
              rewrite <- Hr1, conserved_ns by auto. cbn [andb].
              rewrite <- Hm. unfold ns_tmo in *. rewrite <- Ht.
              apply (IH ps' x1 obs' xf); auto.
    + (* setmaxsize *)
      inversion E1; subst out x1; clear E1. cbn [spec_reads robs o_out outcome_eqb andb].
      apply (IH ps (mkNS (ns_bs x) n (calc_msgsize_maxsize n) (ns_dl x)) obs' xf); auto.
      destruct I as [W R M D]. constructor; auto.
Qed.

(* ---- writer + reader: the predicate evaluated on NSCase ------------------------------------------ *)
Theorem ns_refines_spec wmax wsc wops rmax rd n junk rops :
  forallb is_wop wops = true -> forallb is_rop rops = true ->
  let '(wobs, w) := ns_run true 0 (ns_init wmax [] wsc) wops in
  getsendbuffer (ns_bs w) = [] ->
  wf_net n = true -> flat n = wire (ns_bs w) ++ junk ->
  let '(robs, _) := ns_run false (length (flat n)) (ns_init_dl rmax rd n []) rops in
  spec_ns_holds wmax (sintrs wsc) wobs (wire (ns_bs w)) rmax (flat n) junk (intrs n) robs = true.
Proof.
  intros Hw Hr. destruct (ns_run true 0 (ns_init wmax [] wsc) wops) as [wobs w] eqn:Ew.
  intros Hsb Wn Hflat. destruct (ns_run false (length (flat n)) (ns_init_dl rmax rd n []) rops) as [robs xf] eqn:Er.
  assert (HR0 : WRel wmax [] [] (sintrs wsc) (ns_init wmax [] wsc)) by (constructor; reflexivity).
  destruct (ns_run_writes_spec wops wmax [] [] (sintrs wsc) _ wobs w Hw HR0 Ew)
    as (mx' & acc' & ps' & pend' & Hs & [Hacc Hps _ _ _]).
  unfold getsendbuffer in Hsb. rewrite Hsb, app_nil_r in Hacc.
  unfold spec_ns_holds. rewrite Hs. rewrite <- Hacc, bytes_eqb_refl. cbn [andb].
  rewrite Hflat, bytes_eqb_refl. cbn [andb]. rewrite <- Hflat.
  assert (I0 : ns_inv (ns_init_dl rmax rd n [])).
  { constructor; cbn [ns_init_dl ns_bs bs_init_dl nt recvsize dl ns_msgsize_maxsize ns_maxsize]; auto.
    apply Nat.ltb_lt. vm_compute. reflexivity. }
  pose proof (ns_run_reads_spec (flat n) junk rops ps' (ns_init_dl rmax rd n []) robs xf Hr I0) as Hreads.
  apply Hreads; auto.
  - unfold ns_rem, remaining. cbn [ns_init_dl ns_bs bs_init_dl rbuf nt app]. rewrite Hflat, Hacc, <- Hps. reflexivity.
  - exists []. reflexivity.
Qed.

(* ---- the retry discipline: exactly the payloads ---------------------------------------------------- *)
Lemma read_ns_retry_ok : forall fuel x p rest out x',
  ns_inv x -> length p <= ns_maxsize x -> ns_rem x = frame p ++ rest ->
  net_size (nt (ns_bs x)) <= fuel ->
  read_ns_retry fuel x None = (out, x') ->
  ns_inv x' /\ ns_maxsize x' = ns_maxsize x /\ out = OBytes p /\ ns_rem x' = rest.
Proof.
  induction fuel as [|f IH]; intros x p rest out x' I Hp Hrem F H; cbn [read_ns_retry] in H;
    destruct (read_ns x None) as [o1 x1] eqn:E;
    destruct (read_ns_frame _ _ _ _ _ _ I Hrem E) as (I1 & Hm & _ & [(e & -> & Hr & Ht)|(Ht & Hc)]);
    try (cbn [ns_mx] in Hc; rewrite (proj2 (Nat.ltb_ge _ _)) in Hc by assumption; destruct Hc as [-> Hr]).
  - destruct Ht as [Hs _]. unfold ns_net in Hs. lia.
  - cbn in H. inversion H; subst. auto.
  - cbn [is_interrupt] in H. rewrite (intr_by_is_intr _ _ _ _ Ht) in H.
    destruct Ht as [Hs _]. unfold ns_net in Hs.
    apply IH with (p := p) (rest := rest) in H; try congruence; try lia.
  - cbn in H. inversion H; subst. auto.
Qed.

Lemma ns_read_retry_ok : forall ps x,
  ns_inv x -> Forall (fun p => length p <= ns_maxsize x) ps -> ns_rem x = concat (map frame ps) ->
  ns_read_retry x (length ps) = map OBytes ps.
Proof.
  induction ps as [|p ps IH]; intros x I Hall Hrem; [reflexivity|].
  inversion Hall as [|? ? Hp Hrest]; subst. cbn [length ns_read_retry map].
  destruct (read_ns_retry (net_size (nt (ns_bs x))) x None) as [out x'] eqn:E.
  cbn [map concat] in Hrem.
  apply read_ns_retry_ok with (p := p) (rest := concat (map frame ps)) in E; auto.
  destruct E as (I' & Hm & -> & Hr). f_equal. apply IH; auto. rewrite Hm. assumption.
Qed.

Theorem netstring_roundtrip rmax rd ps n :
  wf_net n = true -> flat n = concat (map frame ps) ->
  Forall (fun p => length p <= rmax) ps ->
  ns_read_retry (ns_init_dl rmax rd n []) (length ps) = map OBytes ps.
Proof.
  intros W Hf Hall. apply ns_read_retry_ok; auto.
  constructor; cbn [ns_init_dl ns_bs bs_init_dl nt recvsize dl ns_msgsize_maxsize ns_maxsize]; auto.
  apply Nat.ltb_lt. vm_compute. reflexivity.
Qed.

(* ---- the writer alone: whatever happens on the sending side, the wire followed by the send buffer
        is the concatenation of the frames of the accepted payloads ------------------------------------ *)
Theorem ns_writer_conservation wmax wsc wops :
  forallb is_wop wops = true ->
  let '(wobs, w) := ns_run true 0 (ns_init wmax [] wsc) wops in
  exists acc ps, spec_writes wmax (wire (ns_bs w)) [] [] (sintrs wsc) wobs = Some (acc, ps) /\
                 wire (ns_bs w) ++ getsendbuffer (ns_bs w) = concat (map frame ps).
Proof.
  intros Hw. destruct (ns_run true 0 (ns_init wmax [] wsc) wops) as [wobs w] eqn:Ew.
  assert (HR0 : WRel wmax [] [] (sintrs wsc) (ns_init wmax [] wsc)) by (constructor; reflexivity).
  destruct (ns_run_writes_spec wops wmax [] [] (sintrs wsc) _ wobs w Hw HR0 Ew)
    as (mx' & acc' & ps' & pend' & Hs & [Hacc Hps _ _ _]).
  exists acc', ps'. split; [exact Hs|]. unfold getsendbuffer. congruence.
Qed.
