(* (T) tie: the Gallina text regenerated from the current source of
   strutils.args2cmd (Gen/C14_Src.v) computes the same function as the model. *)
From Boltons Require Import Lib.Prelude Lib.C14_Text Spec.C14_Spec Model.C14_Model Gen.C14_Src
  Proofs.C14_Sh Proofs.C14_Cmd.
Open Scope N_scope.

Lemma concat_sing (l : text) : concat (map (fun ch => [ch]) l) = l.
Proof. induction l as [|c r IH]; [reflexivity|]. cbn. rewrite IH. reflexivity. Qed.

Lemma repeat_snoc (x : N) n : repeat x n ++ [x] = repeat x (S n).
Proof. cbn [repeat]. symmetry. apply repeat_cons. Qed.

Lemma src_nonempty_repeat (x : N) n : src_nonempty (repeat x n) = negb (Nat.eqb n 0).
Proof. destruct n; reflexivity. Qed.

Theorem src_args2cmd_eq args sep : src_args2cmd args sep = args2cmd args.
Proof.
  unfold src_args2cmd, src_args2cmd_pieces, args2cmd.
  match goal with |- context [fold_left ?f args ?i] => set (F := f); set (I0 := i) end.
  (* one argument: concat of the pieces = the model text; emptiness agrees *)
  assert (Hstep : forall st arg m,
             concat (fst st) = m -> (fst st = [] <-> m = []) ->
             concat (fst (F st arg)) = cmd_arg m arg /\ fst (F st arg) <> [] /\ cmd_arg m arg <> []).
  { intros [res nq] arg m Hc He. cbn [fst] in Hc, He.
    assert (Hne : cmd_arg m arg <> []).
    { rewrite cmd_arg_piece. intro E. apply app_eq_nil in E as [_ E]. exact (cmd_piece_nonempty arg E). }
    assert (Hmain : concat (fst (F (res, nq) arg)) = cmd_arg m arg).
    { subst F. cbv beta iota zeta. cbn [fst].
      match goal with |- context [fold_left ?g arg ?j] => set (G := g) end.
      (* the character loop *)
      assert (Hin : forall a bs r n mr,
                 concat r = mr -> bs = repeat c_bs n ->
                 concat (snd (fold_left G a (bs, r))) = fst (cmd_loop mr n a)
                 /\ fst (fold_left G a (bs, r)) = repeat c_bs (snd (cmd_loop mr n a))).
      { induction a as [|c a IH]; intros bs r n mr Hr Hb.
        - cbn. split; assumption.
        - cbn [fold_left cmd_loop]. subst bs.
          destruct (c =? c_bs) eqn:Ebs.
          + assert (EG : G (repeat c_bs n, r) c = (repeat c_bs n ++ [c], r)).
            { subst G. cbv beta iota zeta. rewrite Ebs. reflexivity. }
            rewrite EG. apply (IH _ _ (S n)); [exact Hr|].
            apply N.eqb_eq in Ebs. subst c. apply repeat_snoc.
          + destruct (c =? c_dq) eqn:Edq.
            * assert (EG : G (repeat c_bs n, r) c
                           = ([], (r ++ [repeat 92 (length (repeat c_bs n) * 2)]) ++ [[92; 34]])).
              { subst G. cbv beta iota zeta. rewrite Ebs, Edq. reflexivity. }
              rewrite EG. apply (IH [] _ 0%nat); [|reflexivity].
              rewrite !concat_app. cbn [concat app]. rewrite repeat_length, Hr. rewrite ?app_nil_r.
              rewrite <- ?app_assoc. reflexivity.
            * destruct n as [|n].
              -- assert (EG : G ([], r) c = ([], r ++ [[c]])).
                 { subst G. cbv beta iota zeta. rewrite Ebs, Edq. reflexivity. }
                 cbn [repeat]. rewrite EG. apply (IH [] _ 0%nat); [|reflexivity].
                 rewrite concat_app, Hr. cbn. reflexivity.
              -- assert (EG : G (repeat c_bs (S n), r) c
                              = ([], (r ++ map (fun ch => [ch]) (repeat c_bs (S n))) ++ [[c]])).
                 { subst G. cbv beta iota zeta. rewrite Ebs, Edq. reflexivity. }
                 rewrite EG. apply (IH [] _ 0%nat); [|reflexivity].
                 rewrite !concat_app, concat_sing, Hr. cbn [concat app]. rewrite ?app_nil_r.
                 rewrite <- ?app_assoc. reflexivity. }
      (* around it *)
      unfold cmd_arg. cbv zeta.
      set (r1 := if src_nonempty res then res ++ [[32]] else res).
      match goal with |- context [cmd_loop (if needquote arg then ?x ++ [c_dq] else ?x) 0 arg] => set (m1 := x) end.
      assert (H1 : concat r1 = m1).
      { subst r1 m1. destruct res as [|p res'].
        - cbn in Hc. subst m. reflexivity.
        - destruct m as [|c0 m']; [destruct He as [_ He]; specialize (He eq_refl); discriminate|].
          cbn [src_nonempty is_nil]. rewrite concat_app, Hc. cbn. rewrite ?app_nil_r. reflexivity. }
      change (memN 32 arg || memN 9 arg || is_nil arg) with (needquote arg).
      destruct (needquote arg).
      + destruct (Hin arg [] (r1 ++ [[34]]) 0%nat (m1 ++ [c_dq])) as [Ha Hb];
          [rewrite concat_app, H1; cbn; reflexivity|reflexivity|].
        destruct (fold_left G arg ([], r1 ++ [[34]])) as [bs' r3]. cbn [fst snd] in Ha, Hb.
        destruct (cmd_loop (m1 ++ [c_dq]) 0 arg) as [m3 n3]. cbn [fst snd] in Ha, Hb. subst bs'.
        destruct n3 as [|n3].
        * cbn [fst]; rewrite ?src_nonempty_repeat; cbn [Nat.eqb negb]; rewrite ?concat_app, ?concat_sing;
          cbn [repeat concat app]; rewrite ?app_nil_r, ?Ha, <- ?app_assoc; cbn [app]; reflexivity.
        * cbn [fst]; rewrite ?src_nonempty_repeat; cbn [Nat.eqb negb]; rewrite ?concat_app, ?concat_sing;
          cbn [repeat concat app]; rewrite ?app_nil_r, ?Ha, <- ?app_assoc; cbn [app]; reflexivity.
      + destruct (Hin arg [] r1 0%nat m1) as [Ha Hb]; [exact H1|reflexivity|].
        destruct (fold_left G arg ([], r1)) as [bs' r3]. cbn [fst snd] in Ha, Hb.
        destruct (cmd_loop m1 0 arg) as [m3 n3]. cbn [fst snd] in Ha, Hb. subst bs'.
        destruct n3 as [|n3].
        * cbn [fst]; rewrite ?src_nonempty_repeat; cbn [Nat.eqb negb]; rewrite ?concat_app, ?concat_sing;
          cbn [repeat concat app]; rewrite ?app_nil_r, ?Ha, <- ?app_assoc; cbn [app]; reflexivity.
        * cbn [fst]; rewrite ?src_nonempty_repeat; cbn [Nat.eqb negb]; rewrite ?concat_app, ?concat_sing;
          cbn [repeat concat app]; rewrite ?app_nil_r, ?Ha, <- ?app_assoc; cbn [app]; reflexivity. }
    split; [exact Hmain|]. split; [|exact Hne].
    intro E. rewrite E in Hmain. cbn in Hmain. congruence. }
  (* all arguments *)
  assert (Hall : forall xs st m,
             concat (fst st) = m -> (fst st = [] <-> m = []) ->
             concat (fst (fold_left F xs st)) = fold_left cmd_arg xs m).
  { induction xs as [|a xs IH]; intros st m Hc He; [exact Hc|].
    cbn [fold_left]. destruct (Hstep st a m Hc He) as (H1 & H2 & H3).
    apply IH; [exact H1|]. split; intro; contradiction. }
  specialize (Hall args I0 []).
  destruct (fold_left F args I0) as [res nq]. cbn [fst] in Hall. apply Hall.
  - reflexivity.
  - split; reflexivity.
Qed.
