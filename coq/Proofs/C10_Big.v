(* C10 - soundness of the drained-history checker Spec.big_ok: an observation it
   accepts is exactly what the reference queue (spec_run) returns on that history. *)
From Boltons Require Import Lib.Prelude Spec.C10_Spec Model.C10_Model Proofs.C10_Queue.
From Coq Require Import Sorting.Sorted Permutation.
Local Open Scope N_scope.

(* ---- the history ----------------------------------------------------------------- *)
Definition tk (i : N) : K := N.to_nat i.
Definition upto (n : N) : list N := map N.of_nat (seq 0 (N.to_nat n)).

Definition big_adds (p : big_params) : list pq_op :=
  map (fun i => Add (tk i) (Some (rank_of (bf p) i))) (upto (bn p)).
Definition big_readds (p : big_params) : list pq_op :=
  map (fun i => Add (tk i) (Some (rank_of (bg p) i))) (filter (readded p) (upto (bn p))).
Definition big_removes (p : big_params) : list pq_op :=
  map (fun i => Remove (tk i)) (filter (removed p) (upto (bn p))).
Definition big_tail : list pq_op := [Pop (Some (DOther 0%nat)); Peek (Some (DOther 0%nat)); Len].

(* npop successful pops are followed by the pop that raises IndexError *)
Definition big_ops (p : big_params) (npop : nat) : list pq_op :=
  big_adds p ++ big_readds p ++ big_removes p ++ [Len] ++ repeat (Pop None) (S npop) ++ big_tail.

Definition big_expected (p : big_params) (o : big_obs) : list pq_obs :=
  repeat ONone (length (big_adds p) + length (big_readds p) + length (big_removes p))
  ++ [OLen (N.to_nat (o_len o))] ++ map (fun t => OTask (tk t)) (o_pops o)
  ++ [OErr IndexError; ODefault 0%nat; ODefault 0%nat; OLen 0%nat].

(* ---- running the reference in pieces ------------------------------------------------ *)
Fixpoint spec_final (s : spec_state) (ops : list pq_op) : spec_state :=
  match ops with [] => s | op :: r => spec_final (fst (spec_step s op)) r end.

Lemma spec_run_app s a b : spec_run s (a ++ b) = spec_run s a ++ spec_run (spec_final s a) b.
Proof.
  revert s. induction a as [|op a IH]; intro s; [reflexivity|].
  simpl. destruct (spec_step s op) as [s' o]. simpl. now rewrite IH.
Qed.

Lemma spec_final_app s a b : spec_final s (a ++ b) = spec_final (spec_final s a) b.
Proof. revert s. induction a as [|op a IH]; intro s; [reflexivity|]. simpl. apply IH. Qed.

(* ---- states indexed by N ---------------------------------------------------------------- *)
Definition enc (T : list (N * Z)) : spec_state := map (fun x => (tk (fst x), snd x)) T.
Definition inb (j : N) (l : list N) : bool := existsb (N.eqb j) l.

Lemma tk_eqb i j : Nat.eqb (tk i) (tk j) = (i =? j).
Proof.
  unfold tk. destruct (N.eqb_spec i j) as [->|Hn]; [apply Nat.eqb_refl|].
  apply Nat.eqb_neq. intro H. apply Hn. now apply N2Nat.inj.
Qed.

Lemma s_del_enc T j : s_del (enc T) (tk j) = enc (filter (fun x => negb (fst x =? j)) T).
Proof.
  unfold s_del, enc. induction T as [|[i r] T IH]; simpl; [reflexivity|].
  rewrite tk_eqb. destruct (i =? j); simpl; [exact IH | f_equal; exact IH].
Qed.

Lemma s_mem_enc T j : s_mem (enc T) (tk j) = inb j (map fst T).
Proof.
  unfold s_mem, enc, inb. induction T as [|[i r] T IH]; simpl; [reflexivity|].
  rewrite tk_eqb, (N.eqb_sym i j). now rewrite IH.
Qed.

Lemma enc_snoc T j r : enc T ++ [(tk j, r)] = enc (T ++ [(j, r)]).
Proof. unfold enc. rewrite map_app. reflexivity. Qed.

Lemma filter_filter {X} (f g : X -> bool) l :
  filter f (filter g l) = filter (fun x => g x && f x) l.
Proof.
  induction l as [|x l IH]; simpl; [reflexivity|].
  destruct (g x); simpl; [destruct (f x); simpl; congruence | exact IH].
Qed.

Lemma filter_map_comm {X Y} (h : X -> Y) (f : Y -> bool) l :
  filter f (map h l) = map h (filter (fun x => f (h x)) l).
Proof.
  induction l as [|x l IH]; simpl; [reflexivity|]. destruct (f (h x)); simpl; congruence.
Qed.

(* adds of distinct tasks (fresh or live): each one moves the task to the end *)
Lemma run_adds (rk : N -> Z) : forall l T,
  NoDup l ->
  spec_final (enc T) (map (fun i => Add (tk i) (Some (rk i))) l)
    = enc (filter (fun x => negb (inb (fst x) l)) T ++ map (fun i => (i, rk i)) l) /\
  spec_run (enc T) (map (fun i => Add (tk i) (Some (rk i))) l) = repeat ONone (length l).
Proof.
  induction l as [|j l IH]; intros T ND.
  - simpl. split; [|reflexivity]. rewrite app_nil_r. f_equal.
    induction T as [|x T IHT]; simpl; [reflexivity|]. now rewrite <- IHT.
  - inversion ND as [|? ? Hj ND']; subst. simpl.
    rewrite s_del_enc, enc_snoc.
    destruct (IH (filter (fun x => negb (fst x =? j)) T ++ [(j, rk j)]) ND') as [E1 E2].
    rewrite E1, E2. split; [|reflexivity]. f_equal.
    rewrite filter_app, filter_filter. simpl.
    assert (Hnj : inb j l = false).
    { unfold inb. apply not_true_is_false. intro H. apply existsb_exists in H as (y & Hy & E).
      apply N.eqb_eq in E. subst y. contradiction. }
    rewrite Hnj. simpl. rewrite <- app_assoc. simpl. f_equal.
    apply filter_ext. intros [i r]. simpl. now rewrite negb_orb.
Qed.

(* removals of distinct live tasks *)
Lemma run_removes : forall l T,
  NoDup l -> (forall j, In j l -> inb j (map fst T) = true) ->
  spec_final (enc T) (map (fun i => Remove (tk i)) l)
    = enc (filter (fun x => negb (inb (fst x) l)) T) /\
  spec_run (enc T) (map (fun i => Remove (tk i)) l) = repeat ONone (length l).
Proof.
  induction l as [|j l IH]; intros T ND Hin.
  - simpl. split; [|reflexivity]. f_equal.
    induction T as [|x T IHT]; simpl; [reflexivity|]. now rewrite <- IHT.
  - inversion ND as [|? ? Hj ND']; subst. simpl.
    rewrite s_mem_enc, (Hin j (or_introl eq_refl)). simpl. rewrite s_del_enc.
    destruct (IH (filter (fun x => negb (fst x =? j)) T) ND') as [E1 E2].
    { intros j' Hj'. pose proof (Hin j' (or_intror Hj')) as H.
      unfold inb in *. apply existsb_exists in H as (y & Hy & E). apply N.eqb_eq in E. subst y.
      apply existsb_exists. exists j'. split; [|apply N.eqb_refl].
      apply in_map_iff in Hy as ([i r] & Ei & Hy). simpl in Ei. subst i.
      apply in_map_iff. exists (j', r). split; [reflexivity|]. apply filter_In. split; [exact Hy|].
      simpl. apply negb_true_iff, N.eqb_neq. intro E. subst j'. contradiction. }
    rewrite E1, E2. split; [|reflexivity]. f_equal. rewrite filter_filter.
    apply filter_ext. intros [i r]. simpl. now rewrite negb_orb.
Qed.

(* ---- facts about 0 .. n-1 --------------------------------------------------------------- *)
Lemma In_upto n i : In i (upto n) <-> i < n.
Proof.
  unfold upto. rewrite in_map_iff. split.
  - intros (k & <- & Hk). apply in_seq in Hk. lia.
  - intro H. exists (N.to_nat i). split; [apply N2Nat.id|]. apply in_seq. lia.
Qed.

Lemma sorted_map_of_nat a k : StronglySorted N.lt (map N.of_nat (seq a k)).
Proof.
  revert a. induction k as [|k IH]; intro a; simpl; constructor; [apply IH|].
  apply Forall_forall. intros x Hx. apply in_map_iff in Hx as (y & <- & Hy). apply in_seq in Hy. lia.
Qed.

Lemma sorted_upto n : StronglySorted N.lt (upto n).
Proof. apply sorted_map_of_nat. Qed.

Lemma sorted_lt_NoDup (l : list N) : StronglySorted N.lt l -> NoDup l.
Proof.
  induction 1 as [|x l S IH F]; constructor; [|exact IH].
  intro H. rewrite Forall_forall in F. specialize (F x H). lia.
Qed.

Lemma NoDup_upto n : NoDup (upto n).
Proof. apply sorted_lt_NoDup, sorted_upto. Qed.

Lemma inb_In j l : inb j l = true <-> In j l.
Proof.
  unfold inb. rewrite existsb_exists. split.
  - intros (y & Hy & E). apply N.eqb_eq in E. now subst.
  - intro H. exists j. split; [exact H|apply N.eqb_refl].
Qed.

Lemma inb_filter q j l : inb j (filter q l) = q j && inb j l.
Proof.
  apply eq_true_iff_eq. rewrite andb_true_iff, !inb_In, filter_In. tauto.
Qed.

Lemma StronglySorted_filter {X} (R : X -> X -> Prop) (q : X -> bool) l :
  StronglySorted R l -> StronglySorted R (filter q l).
Proof.
  induction 1 as [|x l S IH F]; simpl; [constructor|]. destruct (q x); [|exact IH].
  constructor; [exact IH|]. rewrite Forall_forall in *. intros y Hy. apply filter_In in Hy as [Hy _]. auto.
Qed.

Lemma StronglySorted_app {X} (R : X -> X -> Prop) l1 l2 :
  StronglySorted R l1 -> StronglySorted R l2 -> (forall x y, In x l1 -> In y l2 -> R x y) ->
  StronglySorted R (l1 ++ l2).
Proof.
  induction 1 as [|x l S IH F]; intros S2 H; simpl; [exact S2|]. constructor.
  - apply IH; [exact S2|]. intros a b Ha Hb. apply H; [now right|exact Hb].
  - rewrite Forall_forall in *. intros y Hy. apply in_app_iff in Hy as [Hy|Hy]; [auto|].
    apply H; [now left|exact Hy].
Qed.

Lemma Permutation_filter {X} (q : X -> bool) (l l' : list X) :
  Permutation l l' -> Permutation (filter q l) (filter q l').
Proof.
  induction 1; simpl.
  - constructor.
  - destruct (q x); [now constructor|assumption].
  - destruct (q x), (q y); try apply Permutation_refl; apply perm_swap.
  - eapply Permutation_trans; eassumption.
Qed.

Lemma filter_all {X} (q : X -> bool) l : (forall x, In x l -> q x = true) -> filter q l = l.
Proof.
  induction l as [|x l IH]; simpl; intro H; [reflexivity|].
  rewrite (H x (or_introl eq_refl)). f_equal. apply IH. intros y Hy. apply H. now right.
Qed.

Lemma length_filter_split {X} (q r : X -> bool) l :
  (length (filter (fun x => negb (q x) && r x) l) + length (filter (fun x => q x && r x) l)
   = length (filter r l))%nat.
Proof.
  induction l as [|x l IH]; simpl; [reflexivity|].
  destruct (q x), (r x); simpl; lia.
Qed.

(* ---- the live tasks in arrival order ------------------------------------------------------- *)
Section Big.
  Variable p : big_params.
  Let U := upto (bn p).

  Definition arrivals : list N := filter (fun i => negb (readded p i)) U ++ filter (readded p) U.
  Definition live_order : list N := filter (fun i => negb (removed p i)) arrivals.
  Definition hr (i : N) : N * Z := (i, final_rank p i).

  Lemma In_arrivals i : In i arrivals <-> i < bn p.
  Proof.
    unfold arrivals. rewrite in_app_iff, !filter_In. unfold U. rewrite In_upto.
    destruct (readded p i); simpl; intuition congruence.
  Qed.

  Lemma In_live_order i : In i live_order <-> live p i = true.
  Proof.
    unfold live_order, live. rewrite filter_In, In_arrivals, andb_true_iff, N.ltb_lt. tauto.
  Qed.

  Definition seq_lt (a b : N) : Prop := final_seq p a < final_seq p b.

  Lemma sorted_seq_const l b :
    StronglySorted N.lt l -> (forall x, In x l -> readded p x = b) -> StronglySorted seq_lt l.
  Proof.
    induction 1 as [|x l S IH F]; intro H; constructor.
    - apply IH. intros y Hy. apply H. now right.
    - rewrite Forall_forall in *. intros y Hy. specialize (F y Hy). unfold seq_lt, final_seq.
      rewrite (H x (or_introl eq_refl)), (H y (or_intror Hy)). destruct b; lia.
  Qed.

  Lemma sorted_arrivals : StronglySorted seq_lt arrivals.
  Proof.
    unfold arrivals.
    assert (H1 : StronglySorted seq_lt (filter (fun i => negb (readded p i)) U)).
    { apply (sorted_seq_const _ false).
      - apply StronglySorted_filter, sorted_upto.
      - intros x Hx. apply filter_In in Hx as [_ Hx]. now apply negb_true_iff in Hx. }
    assert (H2 : StronglySorted seq_lt (filter (readded p) U)).
    { apply (sorted_seq_const _ true).
      - apply StronglySorted_filter, sorted_upto.
      - intros x Hx. now apply filter_In in Hx as [_ Hx]. }
    apply StronglySorted_app; [exact H1|exact H2|].
    intros x y Hx Hy. apply filter_In in Hx as [Hx Rx]. apply filter_In in Hy as [Hy Ry].
    apply In_upto in Hx. apply In_upto in Hy. apply negb_true_iff in Rx.
    unfold seq_lt, final_seq. rewrite Rx, Ry. lia.
  Qed.

  Lemma NoDup_arrivals : NoDup arrivals.
  Proof.
    assert (S : StronglySorted seq_lt arrivals) by exact sorted_arrivals.
    induction S as [|x l S IH F]; constructor; [|exact IH].
    intro H. rewrite Forall_forall in F. specialize (F x H). unfold seq_lt in F. lia.
  Qed.

  (* ---- state after the three phases ------------------------------------------------------- *)
  Definition encL (l : list N) : spec_state := enc (map hr l).

  Lemma phases_state :
    spec_final [] (big_adds p ++ big_readds p ++ big_removes p) = encL live_order /\
    spec_run [] (big_adds p ++ big_readds p ++ big_removes p)
      = repeat ONone (length (big_adds p) + length (big_readds p) + length (big_removes p)).
  Proof.
    unfold big_adds, big_readds, big_removes. fold U.
    (* adds *)
    destruct (run_adds (rank_of (bf p)) U [] (NoDup_upto _)) as [A1 A2].
    change (enc []) with (@nil (K * Z)) in A1, A2. simpl app in A1.
    (* re-adds *)
    assert (NDR : NoDup (filter (readded p) U)) by (apply NoDup_filter, NoDup_upto).
    destruct (run_adds (rank_of (bg p)) (filter (readded p) U)
                (map (fun i => (i, rank_of (bf p) i)) U) NDR) as [B1 B2].
    assert (ET2 : filter (fun x => negb (inb (fst x) (filter (readded p) U)))
                    (map (fun i => (i, rank_of (bf p) i)) U)
                  ++ map (fun i => (i, rank_of (bg p) i)) (filter (readded p) U)
                  = map hr arrivals).
    { unfold arrivals. rewrite map_app. f_equal.
      - rewrite filter_map_comm. simpl.
        rewrite (filter_ext_in (fun x => negb (inb x (filter (readded p) U))) (fun i => negb (readded p i))).
        + apply map_ext_in. intros i Hi. apply filter_In in Hi as [_ Hi]. apply negb_true_iff in Hi.
          unfold hr, final_rank. now rewrite Hi.
        + intros i Hi. rewrite inb_filter. apply inb_In in Hi. rewrite Hi. now rewrite andb_true_r.
      - apply map_ext_in. intros i Hi. apply filter_In in Hi as [_ Hi]. unfold hr, final_rank. now rewrite Hi. }
    rewrite ET2 in B1.
    (* removes *)
    assert (NDD : NoDup (filter (removed p) U)) by (apply NoDup_filter, NoDup_upto).
    destruct (run_removes (filter (removed p) U) (map hr arrivals) NDD) as [C1 C2].
    { intros j Hj. apply filter_In in Hj as [Hj _]. apply inb_In.
      rewrite map_map. simpl. rewrite map_id. apply In_arrivals. now apply In_upto in Hj. }
    assert (ET3 : filter (fun x => negb (inb (fst x) (filter (removed p) U))) (map hr arrivals)
                  = map hr live_order).
    { rewrite filter_map_comm. simpl. unfold live_order. f_equal.
      apply filter_ext_in. intros i Hi. rewrite inb_filter.
      apply In_arrivals in Hi. assert (Hu : inb i U = true) by (apply inb_In, In_upto; exact Hi).
      rewrite Hu. now rewrite andb_true_r. }
    rewrite ET3 in C1.
    split.
    - rewrite !spec_final_app. simpl in A1. rewrite A1, B1. exact C1.
    - rewrite !spec_run_app. simpl in A1. rewrite A2, A1, B2, B1, C2.
      rewrite !map_length, <- !repeat_app. f_equal. lia.
  Qed.
End Big.

(* ---- draining ------------------------------------------------------------------------------ *)
Section Drain.
  Variable p : big_params.

  Lemma before_iff a b :
    before p a b = true <->
    (final_rank p b < final_rank p a)%Z \/
    (final_rank p a = final_rank p b /\ final_seq p a < final_seq p b).
  Proof.
    unfold before. rewrite orb_true_iff, andb_true_iff, Z.ltb_lt, Z.eqb_eq, N.ltb_lt. tauto.
  Qed.

  Lemma before_trans a b c : before p a b = true -> before p b c = true -> before p a c = true.
  Proof. rewrite !before_iff. lia. Qed.

  Lemma before_irrefl a : before p a a = false.
  Proof. apply not_true_is_false. rewrite before_iff. lia. Qed.

  Lemma chain_tail a l : chain_ok p (a :: l) = true -> chain_ok p l = true.
  Proof. simpl. rewrite !andb_true_iff. tauto. Qed.

  Lemma chain_head_before a l : chain_ok p (a :: l) = true -> forall j, In j l -> before p a j = true.
  Proof.
    revert a. induction l as [|b l IH]; intros a H j Hj; [destruct Hj|].
    simpl in H. rewrite !andb_true_iff in H. destruct H as [[_ Hab] Hc].
    destruct Hj as [<-|Hj]; [exact Hab|].
    eapply before_trans; [exact Hab|]. apply IH; [|exact Hj].
    simpl. rewrite !andb_true_iff. exact Hc.
  Qed.

  Lemma chain_live l : chain_ok p l = true -> forall j, In j l -> live p j = true.
  Proof.
    induction l as [|a l IH]; intros H j Hj; [destruct Hj|].
    pose proof (chain_tail _ _ H) as Ht. simpl in H. rewrite !andb_true_iff in H.
    destruct Hj as [<-|Hj]; [tauto|auto].
  Qed.

  Lemma chain_NoDup l : chain_ok p l = true -> NoDup l.
  Proof.
    induction l as [|a l IH]; intro H; constructor.
    - intro Hin. pose proof (chain_head_before _ _ H a Hin) as B. rewrite before_irrefl in B. discriminate.
    - apply IH. eapply chain_tail; eauto.
  Qed.

  Lemma s_del_encL l a :
    s_del (encL p l) (tk a) = encL p (filter (fun i => negb (i =? a)) l).
  Proof. unfold encL. rewrite s_del_enc, filter_map_comm. reflexivity. Qed.

  (* the head of an accepted chain is the reference's choice *)
  Lemma best_encL (Lo : list N) a :
    StronglySorted (seq_lt p) Lo -> In a Lo ->
    (forall j, In j Lo -> j <> a -> before p a j = true) ->
    best (encL p Lo) = Some (tk a, final_rank p a).
  Proof.
    intros S Hin Hb.
    set (mk := fun i : N => (tk i, ((- final_rank p i)%Z, N.to_nat (final_seq p i)))).
    assert (E : encL p Lo = abs (map mk Lo)).
    { unfold encL, enc, abs. rewrite !map_map. apply map_ext. intro i. unfold abs1, mk, hr. simpl.
      now rewrite Z.opp_involutive. }
    rewrite E.
    replace (tk a, final_rank p a) with (abs1 (mk a)) by (unfold abs1, mk; simpl; now rewrite Z.opp_involutive).
    apply best_least.
    - unfold cnts_of. rewrite map_map. simpl.
      clear - S. induction S as [|x l S IH F]; simpl; constructor; [exact IH|].
      rewrite Forall_forall in *. intros y Hy. apply in_map_iff in Hy as (z & <- & Hz).
      specialize (F z Hz). unfold seq_lt in F. lia.
    - apply in_map. exact Hin.
    - intros y Hy. apply in_map_iff in Hy as (j & <- & Hj). unfold beats.
      destruct (N.eq_dec j a) as [->|Hne]; [left; reflexivity|].
      right. specialize (Hb j Hj Hne). apply before_iff in Hb. unfold mk. simpl. lia.
  Qed.

  Lemma run_pops : forall (l Lo : list N) (tail : list pq_op),
    NoDup Lo -> StronglySorted (seq_lt p) Lo -> Permutation l Lo -> chain_ok p l = true ->
    spec_run (encL p Lo) (repeat (Pop None) (length l) ++ tail)
      = map (fun t => OTask (tk t)) l ++ spec_run [] tail.
  Proof.
    induction l as [|a l IH]; intros Lo tail ND S Pm Hc.
    - apply Permutation_nil in Pm. subst Lo. reflexivity.
    - assert (Hin : In a Lo) by (apply (Permutation_in _ Pm); now left).
      assert (Hb : forall j, In j Lo -> j <> a -> before p a j = true).
      { intros j Hj Hne. apply (chain_head_before _ _ Hc).
        apply (Permutation_in _ (Permutation_sym Pm)) in Hj. destruct Hj as [E|Hj]; [congruence|exact Hj]. }
      simpl. rewrite (best_encL Lo a S Hin Hb). rewrite s_del_encL. f_equal.
      apply IH.
      + now apply NoDup_filter.
      + now apply StronglySorted_filter.
      + pose proof (Permutation_filter (fun i => negb (i =? a)) _ _ Pm) as Pf.
        simpl in Pf. rewrite N.eqb_refl in Pf. simpl in Pf.
        rewrite filter_all in Pf; [exact Pf|].
        intros x Hx. apply negb_true_iff, N.eqb_neq. intro E. subst x.
        pose proof (chain_NoDup _ Hc) as NDl. inversion NDl. contradiction.
      + eapply chain_tail; eauto.
  Qed.

  (* count_live counts the live tasks *)
  Lemma count_live_filter : forall k i,
    count_live p k i = N.of_nat (length (filter (live p) (map N.of_nat (seq (N.to_nat i) k)))).
  Proof.
    induction k as [|k IH]; intro i; [reflexivity|].
    cbn [count_live seq map filter]. rewrite N2Nat.id, IH.
    replace (N.to_nat (i + 1)) with (S (N.to_nat i)) by lia.
    destruct (live p i); cbn [length]; lia.
  Qed.

  Lemma length_live_order : N.of_nat (length (live_order p)) = count_live p (N.to_nat (bn p)) 0.
  Proof.
    rewrite count_live_filter. f_equal. change (map N.of_nat (seq (N.to_nat 0) (N.to_nat (bn p)))) with (upto (bn p)).
    unfold live_order, arrivals. rewrite filter_app, !filter_filter, app_length.
    rewrite (length_filter_split (readded p) (fun i => negb (removed p i))).
    f_equal. apply filter_ext_in. intros i Hi. apply In_upto in Hi. unfold live.
    apply N.ltb_lt in Hi. now rewrite Hi.
  Qed.

  Lemma spec_run_len s r : spec_run s (Len :: r) = OLen (length s) :: spec_run s r.
  Proof. reflexivity. Qed.

  Lemma repeat_S_app {X} (x : X) n (tl : list X) : repeat x (S n) ++ tl = repeat x n ++ x :: tl.
  Proof. induction n as [|n IH]; [reflexivity|]. simpl in *. now rewrite IH. Qed.

  Theorem big_ok_sound (o : big_obs) :
    big_ok p o = true ->
    spec_run [] (big_ops p (length (o_pops o))) = big_expected p o.
  Proof.
    unfold big_ok. rewrite !andb_true_iff, !N.eqb_eq. intros [[[Hlen Hn] Hc] _].
    rewrite <- length_live_order in Hlen, Hn. apply Nat2N.inj in Hn.
    destruct (phases_state p) as [F R].
    assert (NDo : NoDup (live_order p)) by (apply NoDup_filter, NoDup_arrivals).
    assert (So : StronglySorted (seq_lt p) (live_order p)) by (apply StronglySorted_filter, sorted_arrivals).
    assert (Pm : Permutation (o_pops o) (live_order p)).
    { apply NoDup_Permutation_bis; [now apply chain_NoDup | lia |].
      intros j Hj. apply In_live_order. eapply chain_live; eauto. }
    unfold big_ops, big_expected.
    replace (big_adds p ++ big_readds p ++ big_removes p ++ [Len]
             ++ repeat (Pop None) (S (length (o_pops o))) ++ big_tail)
      with ((big_adds p ++ big_readds p ++ big_removes p) ++ [Len]
            ++ repeat (Pop None) (S (length (o_pops o))) ++ big_tail)
      by (now rewrite <- !app_assoc).
    rewrite spec_run_app, R, F. f_equal.
    change ([Len] ++ repeat (Pop None) (S (length (o_pops o))) ++ big_tail)
      with (Len :: repeat (Pop None) (S (length (o_pops o))) ++ big_tail).
    rewrite spec_run_len.
    change ([OLen (N.to_nat (o_len o))] ++ map (fun t => OTask (tk t)) (o_pops o)
            ++ [OErr IndexError; ODefault 0%nat; ODefault 0%nat; OLen 0%nat])
      with (OLen (N.to_nat (o_len o)) :: map (fun t => OTask (tk t)) (o_pops o)
            ++ [OErr IndexError; ODefault 0%nat; ODefault 0%nat; OLen 0%nat]).
    f_equal.
    - f_equal. unfold encL, enc. rewrite !map_length. rewrite Hlen. now rewrite Nat2N.id.
    - rewrite repeat_S_app.
      rewrite (run_pops (o_pops o) (live_order p) _ NDo So Pm Hc). reflexivity.
  Qed.
End Drain.
