(* The theorems are about exactly what the correspondence check evaluates: for every
   well-formed case, if the implementation's observation agrees with the model ([agree]) then it
   satisfies the Spec predicate that [holds] computes.  So a run with agree = true everywhere
   transfers the theorems to the code on the inputs of that run, and a case with agree = true,
   holds = false cannot exist. *)
From Coq Require Import ZArith List Bool Lia ZifyBool.
From Boltons Require Import Lib.Prelude Lib.C19_Utf8 Spec.C19_Spec Model.C19_Model Gen.C19_Gen Check.C19_Check.
From Boltons Require Import Proofs.C19_Split Proofs.C19_IterSplit Proofs.C19_Reverse Proofs.C19_Text
     Proofs.C19_Jsonl Proofs.C19_Oracle.
Open Scope N_scope.

(* ---- boolean equalities reflect equality --------------------------------------------------- *)
Lemma text_eqb_eq a b : text_eqb a b = true <-> a = b.
Proof. apply list_eqb_eq. intros; apply N.eqb_eq. Qed.
Lemma lines_eqb_eq a b : lines_eqb a b = true <-> a = b.
Proof. apply list_eqb_eq. apply text_eqb_eq. Qed.

Lemma exn_eqb_eq e f : exn_eqb e f = true <-> e = f.
Proof.
  split.
  - destruct e, f; cbn; intros H; try discriminate; try reflexivity; apply Nat.eqb_eq in H; congruence.
  - intros <-. destruct e; cbn; try reflexivity; apply Nat.eqb_refl.
Qed.

Lemma res_eqb_eq {A} (eqb : A -> A -> bool) (H : forall a b, eqb a b = true <-> a = b) x y :
  res_eqb eqb x y = true <-> x = y.
Proof.
  destruct x as [a|e], y as [b|f]; cbn; split; intros E; try discriminate; try congruence.
  - apply H in E. congruence.
  - inversion E. apply H. reflexivity.
  - apply exn_eqb_eq in E. congruence.
  - inversion E. apply exn_eqb_eq. reflexivity.
Qed.

Lemma lres_eqb_eq a b : lres_eqb a b = true <-> a = b.
Proof. apply res_eqb_eq. apply lines_eqb_eq. Qed.

Lemma jval_eqb_eq a b : jval_eqb a b = true <-> a = b.
Proof.
  destruct a as [|x|x|x|x|x], b as [|y|y|y|y|y]; cbn; split; intros E; try discriminate; try reflexivity; try congruence.
  - apply Bool.eqb_prop in E. congruence.
  - inversion E. apply Bool.eqb_reflx.
  - apply Z.eqb_eq in E. congruence.
  - inversion E. apply Z.eqb_refl.
  - apply text_eqb_eq in E. congruence.
  - inversion E. apply text_eqb_eq. reflexivity.
  - apply text_eqb_eq in E. congruence.
  - inversion E. apply text_eqb_eq. reflexivity.
  - apply text_eqb_eq in E. congruence.
  - inversion E. apply text_eqb_eq. reflexivity.
Qed.

Lemma jpair_eqb_eq (a b : list jval * bool) :
  pair_eqb (list_eqb jval_eqb) Bool.eqb a b = true <-> a = b.
Proof.
  destruct a as [a1 a2], b as [b1 b2]. unfold pair_eqb. cbn [fst snd]. split.
  - intros E. apply andb_true_iff in E as [E1 E2].
    apply (list_eqb_eq jval_eqb jval_eqb_eq) in E1. apply Bool.eqb_prop in E2. congruence.
  - intros E. inversion E. subst. apply andb_true_iff. split.
    + apply (list_eqb_eq jval_eqb jval_eqb_eq). reflexivity.
    + apply Bool.eqb_reflx.
Qed.

Lemma jres_eqb_eq a b : jres_eqb a b = true <-> a = b.
Proof. apply res_eqb_eq. apply jpair_eqb_eq. Qed.

(* ---- well-formed cases: what [holds] demands of the case itself -------------------------- *)
(* a single-byte codec table must keep \n and \r (obligation C19_sbcs_ok for the regenerated ones) *)
Definition mode_ok (m : fmode) : bool := match m with TextTable tbl => table_ok tbl | _ => true end.

Definition c19_wf (k : c19_case) : bool :=
  match k with
  | CRev _ own arg _ rruns =>
      mode_ok (mode_of (caller_wins arg own)) && negb (is_nil rruns) && forallb (fun r => 1 <=? fst r) rruns
  | CJsonl _ m _ _ _ => mode_ok m
  | _ => true
  end.

Definition agree_of (v : verdict) : bool := fst (fst v).
Definition holds_of (v : verdict) : bool := snd (fst v).

(* ---- reverse reader -------------------------------------------------------------------------- *)
Definition rev_value (m : fmode) (c : text) (p : nat) : res (list text) :=
  match m with
  | Binary | TextLatin1 => Ok (ril_tail (firstn p c))
  | TextUtf8 => match decode_all (ril_tail (firstn p c)) with Some ts => Ok ts | None => Raise ValueError end
  | TextTable tbl => match sb_decode_all tbl (ril_tail (firstn p c)) with Some ts => Ok ts | None => Raise ValueError end
  end.

Lemma rev_model_value m c bs p : (1 <= bs)%nat -> reverse_iter_lines m c bs p = rev_value m c p.
Proof.
  intros H. unfold reverse_iter_lines, rev_value. rewrite reverse_bytes_all by exact H. destruct m; reflexivity.
Qed.

Lemma bs_nat_pos c bs : 1 <= bs -> (1 <= bs_nat c bs)%nat.
Proof. unfold bs_nat. lia. Qed.

Lemma all_same_const (l : list (res (list text))) v : (forall x, In x l -> x = v) -> all_same l = true.
Proof.
  intros H. destruct l as [|x r]; [reflexivity|]. cbn [all_same]. apply forallb_forall. intros y I.
  rewrite (H x (or_introl eq_refl)), (H y (or_intror I)). apply lres_eqb_eq. reflexivity.
Qed.

Lemma rev_value_spec m c p : mode_ok m = true -> rev_spec_ok m (firstn p c) (rev_value m c p) = true.
Proof.
  intros MO. unfold rev_spec_ok, rev_value. set (pre := firstn p c).
  destruct m.
  - destruct (no_lone_cr pre) eqn:D; [|reflexivity]. cbn [negb orb].
    rewrite ril_tail_spec by exact D. apply lres_eqb_eq. reflexivity.
  - destruct (utf8_decode pre) as [t|] eqn:U; [|reflexivity].
    destruct (no_lone_cr t) eqn:D; [|reflexivity]. cbn [negb orb].
    destruct (decode_sound pre t U) as [En Sc]. rewrite <- En.
    rewrite ril_tail_encode. rewrite decode_all_encode by (apply ril_tail_chars; exact Sc).
    rewrite ril_tail_spec by exact D. apply lres_eqb_eq. reflexivity.
  - destruct (no_lone_cr pre) eqn:D; [|reflexivity]. cbn [negb orb].
    rewrite ril_tail_spec by exact D. apply lres_eqb_eq. reflexivity.
  - cbn [mode_ok] in MO. destruct (sb_decode tbl pre) as [t|] eqn:U; [|reflexivity].
    destruct (no_lone_cr t) eqn:D; [|reflexivity]. cbn [negb orb].
    rewrite (sb_ril_tail tbl MO pre t U). rewrite ril_tail_spec by exact D. apply lres_eqb_eq. reflexivity.
Qed.

(* ---- JSON Lines ------------------------------------------------------------------------------- *)
Section J.
  Context {obj : Type}.
  Variable loads : text -> option obj.
  Variable ws : N -> bool.

  Lemma no_error_all_ok : forall ls os, jsonl_objects loads ws false ls = (os, false) ->
    forallb (line_ok loads ws) ls = true.
  Proof.
    induction ls as [|l r IH]; intros os H; [reflexivity|].
    cbn [jsonl_objects] in H. cbn [forallb]. unfold line_ok at 1.
    destruct (lstrip ws l) as [|x s] eqn:E.
    - cbn [andb]. eapply IH. exact H.
    - destruct (loads (x :: s)) eqn:L; [|discriminate].
      destruct (jsonl_objects loads ws false r) as [os' e'] eqn:R. inversion H; subst.
      cbn [andb]. eapply IH. reflexivity.
  Qed.

  (* whenever no error ends either direction, reverse = forward reversed: for any list of lines *)
  Lemma lines_mirrored ie L fo fe ro re_ :
    jsonl_objects loads ws ie L = (fo, fe) -> jsonl_objects loads ws ie (rev L) = (ro, re_) ->
    (fe = false -> re_ = false /\ ro = rev fo) /\ (ie = true -> fe = false).
  Proof.
    intros F R. split.
    - intros ->.
      assert (D : ie = true \/ forallb (line_ok loads ws) L = true).
      { destruct ie; [left; reflexivity|right]. eapply no_error_all_ok. exact F. }
      rewrite (objects_total loads ws ie L D) in F.
      assert (D' : ie = true \/ forallb (line_ok loads ws) (rev L) = true).
      { destruct D as [D|D]; [left; exact D|right]. rewrite forallb_forall in *. intros l I. apply D. apply in_rev. exact I. }
      rewrite (objects_total loads ws ie (rev L) D'), flat_map_rev_small in R.
      inversion F. inversion R. subst. split; reflexivity.
    - intros ->. rewrite (objects_total loads ws true L (or_introl eq_refl)) in F. inversion F. reflexivity.
  Qed.

  Lemma spec_mirrored ie c fo fe ro re_ :
    jsonl_forward_spec loads ws ie c = (fo, fe) -> jsonl_reverse_spec loads ws ie c = (ro, re_) ->
    (fe = false -> re_ = false /\ ro = rev fo) /\ (ie = true -> fe = false).
  Proof. apply lines_mirrored. Qed.
End J.

Lemma mirrored_of_spec (loads : text -> option jval) ws ie c :
  jsonl_mirrored ie (Ok (jsonl_forward_spec loads ws ie c)) (Ok (jsonl_reverse_spec loads ws ie c)) = true.
Proof.
  destruct (jsonl_forward_spec loads ws ie c) as [fo fe] eqn:F.
  destruct (jsonl_reverse_spec loads ws ie c) as [ro re_] eqn:R.
  destruct (spec_mirrored loads ws ie c fo fe ro re_ F R) as [A B].
  unfold jsonl_mirrored. destruct fe.
  - destruct ie; [specialize (B eq_refl); discriminate|reflexivity].
  - destruct (A eq_refl) as [-> ->]. apply (list_eqb_eq jval_eqb jval_eqb_eq). reflexivity.
Qed.

Lemma mirrored_of_lines (loads : text -> option jval) ws ie L :
  jsonl_mirrored ie (Ok (jsonl_objects loads ws ie L)) (Ok (jsonl_objects loads ws ie (rev L))) = true.
Proof.
  destruct (jsonl_objects loads ws ie L) as [fo fe] eqn:F.
  destruct (jsonl_objects loads ws ie (rev L)) as [ro re_] eqn:R.
  destruct (lines_mirrored loads ws ie L fo fe ro re_ F R) as [A B].
  unfold jsonl_mirrored. destruct fe.
  - destruct ie; [specialize (B eq_refl); discriminate|reflexivity].
  - destruct (A eq_refl) as [-> ->]. apply (list_eqb_eq jval_eqb jval_eqb_eq). reflexivity.
Qed.

(* text modes: what the model yields forward / in reverse for the text t, mirrored for every t *)
Lemma text_mirrored ie t :
  jsonl_mirrored ie (Ok (jsonl_next_all mini_loads is_ws_str ie (file_iter_text t)))
                    (Ok (jsonl_next_all mini_loads is_ws_str ie (ril_tail t))) = true.
Proof.
  rewrite !next_all_eq.
  pose proof (forward_text_universal mini_loads is_ws_str eq_refl mini_loads_lf ie t []) as F.
  rewrite !glue_nil in F. rewrite F, objects_ril_tail. apply mirrored_of_lines.
Qed.

Lemma jsonl_spec_on_sound (loads : text -> option jval) ws ie t :
  jsonl_spec_on loads ws ie t (Ok (jsonl_forward_spec loads ws ie t)) (Ok (jsonl_reverse_spec loads ws ie t)) = true.
Proof.
  unfold jsonl_spec_on. destruct (no_lone_cr t); [|reflexivity]. cbn [negb orb].
  rewrite mirrored_of_spec.
  rewrite (proj2 (jres_eqb_eq _ _) eq_refl), (proj2 (jres_eqb_eq _ _) eq_refl). reflexivity.
Qed.

(* outside the domain nothing is demanded *)
Lemma jsonl_spec_on_outside (loads : text -> option jval) ws ie t f r :
  no_lone_cr t = false -> jsonl_spec_on loads ws ie t f r = true.
Proof. intros H. unfold jsonl_spec_on. rewrite H. reflexivity. Qed.

Lemma jsonl_model_meets_spec m ie c : mode_ok m = true ->
  jsonl_spec_ok m ie c (jsonl_iter mini_loads m ie false c) (jsonl_iter mini_loads m ie true c) = true.
Proof.
  intros MO. unfold jsonl_spec_ok. destruct m.
  - destruct (no_lone_cr c) eqn:D; [|apply jsonl_spec_on_outside; exact D].
    rewrite (jsonl_binary_forward mini_loads mini_bytes_lf mini_bytes_crlf c ie D).
    rewrite (jsonl_binary_reverse mini_loads c ie D). apply jsonl_spec_on_sound.
  - destruct (utf8_decode c) as [t|] eqn:U; [|reflexivity].
    destruct (decode_sound c t U) as [En Sc]. apply andb_true_iff. split.
    + cbn [jsonl_iter]. rewrite U. rewrite <- En at 1 2.
      rewrite reverse_text_all; [|unfold jsonl_blocksize; lia|exact Sc]. apply text_mirrored.
    + destruct (no_lone_cr t) eqn:D; [|apply jsonl_spec_on_outside; exact D].
      rewrite <- En.
      rewrite (jsonl_text_forward mini_loads mini_loads_lf t ie Sc D).
      rewrite (jsonl_text_reverse mini_loads t ie Sc D). apply jsonl_spec_on_sound.
  - apply andb_true_iff. split.
    + cbn [jsonl_iter]. rewrite reverse_latin1_all by (unfold jsonl_blocksize; lia). apply text_mirrored.
    + destruct (no_lone_cr c) eqn:D; [|apply jsonl_spec_on_outside; exact D].
      destruct (jsonl_latin1 mini_loads mini_loads_lf c ie D) as [F R]. rewrite F, R. apply jsonl_spec_on_sound.
  - cbn [mode_ok] in MO. destruct (sb_decode tbl c) as [t|] eqn:U; [|reflexivity].
    apply andb_true_iff. split.
    + cbn [jsonl_iter]. rewrite U.
      rewrite (reverse_table_all tbl MO c t); [|unfold jsonl_blocksize; lia|exact U]. apply text_mirrored.
    + destruct (no_lone_cr t) eqn:D; [|apply jsonl_spec_on_outside; exact D].
      destruct (jsonl_table mini_loads tbl MO mini_loads_lf c t ie U D) as [F R]. rewrite F, R. apply jsonl_spec_on_sound.
Qed.

Theorem verdict_sound : alts_ok gen_breaks = true ->
  forall k, c19_wf k = true -> agree_of (c19_verdict k) = true -> holds_of (c19_verdict k) = true.
Proof.
  intros OK k W A. destruct k as [rt robs rpy | rt rm rn robs | rc bsplit biter blstrip dec titer tlstrip | rc own arg pos rruns | rc m ie rfwd rrev];
    unfold agree_of, holds_of in *; cbn [c19_verdict fst snd] in *.
  - (* iter_splitlines *)
    apply andb_true_iff in A as [A _]. apply lines_eqb_eq in A. rewrite <- A.
    rewrite iter_splitlines_correct by exact OK. apply lines_eqb_eq. reflexivity.
  - (* indent *)
    apply text_eqb_eq in A. rewrite <- A. rewrite indent_correct by exact OK. apply text_eqb_eq. reflexivity.
  - (* primitives: nothing demanded *)
    reflexivity.
  - (* reverse_iter_lines *)
    cbn [c19_wf] in W. apply andb_true_iff in W as [W1 W2]. apply andb_true_iff in W1 as [W0 W1].
    assert (PE : pick_encoding arg own = caller_wins arg own) by (destruct arg, own; reflexivity).
    rewrite PE in A. set (m := mode_of (caller_wins arg own)) in *.
    set (c := expand rc) in *. set (p := pos_of c pos) in *.
    set (runs := map (fun r => (bs_nat c (fst r), xres (snd r))) rruns) in *.
    assert (V : forall r, In r runs -> (1 <= fst r)%nat /\ snd r = rev_value m c p).
    { intros r I. unfold runs in I. apply in_map_iff in I as [r0 [E I0]]. subst r. cbn [fst snd].
      rewrite forallb_forall in W2. specialize (W2 r0 I0). apply N.leb_le in W2.
      assert (B : (1 <= bs_nat c (fst r0))%nat) by (apply bs_nat_pos; exact W2). split; [exact B|].
      rewrite forallb_forall in A. specialize (A (bs_nat c (fst r0), xres (snd r0))).
      cbn [fst snd] in A. rewrite <- (rev_model_value m c _ p B). symmetry. apply lres_eqb_eq. apply A.
      unfold runs. apply in_map_iff. exists r0. split; [reflexivity|exact I0]. }
    repeat (apply andb_true_iff; split).
    + apply (all_same_const _ (rev_value m c p)). intros x I. apply in_map_iff in I as [r [E I]]. subst x.
      apply V. exact I.
    + apply forallb_forall. intros r I. apply Nat.leb_le. apply V. exact I.
    + apply forallb_forall. intros r I. rewrite (proj2 (V r I)). apply rev_value_spec. exact W0.
    + unfold runs. destruct rruns; [discriminate|reflexivity].
  - (* JSONLIterator *)
    apply andb_true_iff in A as [A A3]. apply andb_true_iff in A as [A1 A2].
    apply jres_eqb_eq in A2. apply jres_eqb_eq in A3.
    rewrite A1. cbn [andb]. rewrite <- A2, <- A3. apply jsonl_model_meets_spec. exact W.
Qed.
