(* C09 (T): interpreting the (translated) source of windowed_iter gives the model
   m_windowed, for every input, size and fill. *)
From Boltons Require Import Lib.Prelude Spec.C09_Spec Model.C09_Model.
From Boltons Require Import Model.C09_PyWindow.

Definition expected_windowed_prog : list wstmt :=
  [ WIfFillUnset [ WTry [WForEnum [WForRangeI [WNext]]] [WReturnZipEmpty]; WReturnZip ];
    WForEnum [WForRangeI [WTry [WNext] [WContinue]]];
    WReturnZipLongest ].

(* ---- upd / nth_error -------------------------------------------------------------- *)
Lemma upd_app pre t t' suf : upd (length pre) t' (pre ++ t :: suf) = pre ++ t' :: suf.
Proof. induction pre as [|x pre IH]; cbn [length app upd]; [reflexivity|]. rewrite IH. reflexivity. Qed.

Lemma nth_error_mid {A} (pre : list A) t suf : nth_error (pre ++ t :: suf) (length pre) = Some t.
Proof. induction pre as [|x pre IH]; cbn [length app nth_error]; [reflexivity|exact IH]. Qed.

Section Loops.
  Variables (zf : nat) (fill : option K).

  (* one-step unfoldings of the interpreter (by computation) *)
  Lemma ws_next pos ts :
    ws zf fill WNext pos ts = match nth_error ts pos with Some (_ :: r) => ONormal (upd pos r ts) | _ => OStop ts end.
  Proof. reflexivity. Qed.
  Lemma ws_range body pos ts :
    ws zf fill (WForRangeI body) pos ts = rep_loop (fun t => wl zf fill body pos t) pos ts.
  Proof. reflexivity. Qed.
  Lemma ws_enum body pos ts :
    ws zf fill (WForEnum body) pos ts = enum_loop (fun p t => wl zf fill body p t) (length ts) 0 ts.
  Proof. reflexivity. Qed.
  Lemma ws_try body h pos ts :
    ws zf fill (WTry body h) pos ts
    = match wl zf fill body pos ts with OStop ts' => wl zf fill h pos ts' | o => o end.
  Proof. reflexivity. Qed.

  Lemma wl_cons s r pos ts :
    wl zf fill (s :: r) pos ts = match ws zf fill s pos ts with ONormal ts' => wl zf fill r pos ts' | o => o end.
  Proof. reflexivity. Qed.
  Lemma ws_if body pos ts :
    ws zf fill (WIfFillUnset body) pos ts = match fill with None => wl zf fill body pos ts | Some _ => ONormal ts end.
  Proof. reflexivity. Qed.

  Lemma wl_one s pos ts :
    wl zf fill [s] pos ts = match ws zf fill s pos ts with ONormal ts' => ONormal ts' | o => o end.
  Proof. reflexivity. Qed.

  (* ---- for _ in range(n): next(t)   at a fixed position ---------------------------- *)
  Lemma rep_next_strict pre suf : forall n t,
    rep_loop (fun t0 => wl zf fill [WNext] (length pre) t0) n (pre ++ t :: suf)
    = match advance n t with
      | Some t' => ONormal (pre ++ t' :: suf)
      | None => OStop (pre ++ [] :: suf)
      end.
  Proof.
    induction n as [|n IH]; intro t; cbn [rep_loop advance]; [reflexivity|].
    rewrite wl_one, ws_next, nth_error_mid. destruct t as [|x r]; [reflexivity|].
    rewrite upd_app. apply IH.
  Qed.

  Lemma rep_next_lenient pre suf : forall n t,
    rep_loop (fun t0 => wl zf fill [WTry [WNext] [WContinue]] (length pre) t0) n (pre ++ t :: suf)
    = ONormal (pre ++ advance_lenient n t :: suf).
  Proof.
    induction n as [|n IH]; intro t; cbn [rep_loop advance_lenient]; [reflexivity|].
    rewrite wl_one, ws_try, wl_one, ws_next, nth_error_mid. destruct t as [|x r].
    - rewrite wl_one. cbn [ws]. rewrite IH. destruct n; reflexivity.
    - rewrite upd_app. apply IH.
  Qed.

  (* ---- for i, t in enumerate(tees): for _ in range(i): next(t) ----------------------- *)
  Lemma enum_strict : forall suf pre,
    (forall suf', advance_all (combine (seq (length pre) (length suf)) suf) = Some suf' ->
       enum_loop (fun p t => wl zf fill [WForRangeI [WNext]] p t) (length suf) (length pre) (pre ++ suf)
       = ONormal (pre ++ suf'))
    /\ (advance_all (combine (seq (length pre) (length suf)) suf) = None ->
        exists ts, enum_loop (fun p t => wl zf fill [WForRangeI [WNext]] p t) (length suf) (length pre) (pre ++ suf) = OStop ts).
  Proof.
    induction suf as [|t suf IH]; intro pre.
    - cbn [length enum_loop seq combine advance_all]. split; [|discriminate].
      intros suf' H. injection H as <-. reflexivity.
    - cbn [length enum_loop seq combine advance_all]. rewrite wl_one, ws_range, rep_next_strict.
      destruct (advance (length pre) t) as [t'|] eqn:Ea.
      + specialize (IH (pre ++ [t'])). rewrite app_length in IH. cbn [length] in IH.
        rewrite Nat.add_1_r in IH. rewrite <- app_assoc in IH. cbn [app] in IH.
        destruct IH as [I1 I2]. cbv beta iota.
        destruct (advance_all (combine (seq (S (length pre)) (length suf)) suf)) as [suf1|] eqn:Eall.
        * split; [|discriminate]. intros suf' H. injection H as <-.
          rewrite (I1 suf1 eq_refl), <- app_assoc. reflexivity.
        * split; [discriminate|]. intros _. exact (I2 eq_refl).
      + cbv beta iota. split; [discriminate|]. intros _. eexists. reflexivity.
  Qed.

  Lemma enum_lenient : forall suf pre,
    enum_loop (fun p t => wl zf fill [WForRangeI [WTry [WNext] [WContinue]]] p t) (length suf) (length pre) (pre ++ suf)
    = ONormal (pre ++ map (fun it => advance_lenient (fst it) (snd it)) (combine (seq (length pre) (length suf)) suf)).
  Proof.
    induction suf as [|t suf IH]; intro pre.
    - reflexivity.
    - cbn [length enum_loop seq combine map fst snd]. rewrite wl_one, ws_range, rep_next_lenient.
      specialize (IH (pre ++ [advance_lenient (length pre) t])). rewrite app_length in IH. cbn [length] in IH.
      rewrite Nat.add_1_r in IH. rewrite <- app_assoc in IH. cbn [app] in IH.
      cbv beta iota. rewrite IH, <- app_assoc. reflexivity.
  Qed.
End Loops.

Lemma tees_combine src size : tees src size = combine (seq 0 size) (repeat src size).
Proof.
  unfold tees. generalize 0. induction size as [|n IH]; intro a; [reflexivity|].
  cbn [seq map repeat combine]. rewrite IH. reflexivity.
Qed.

Theorem py_windowed_is_model src size fill :
  run_windowed expected_windowed_prog src size fill = Some (m_windowed src size fill).
Proof.
  unfold run_windowed, expected_windowed_prog, m_windowed.
  set (zf := S (length src)). set (ts0 := repeat src size).
  assert (Hlen : length ts0 = size) by apply repeat_length.
  rewrite tees_combine. fold ts0.
  destruct fill as [f|].
  - (* fill given: lenient advance, zip_longest *)
    rewrite wl_cons, ws_if, wl_cons, ws_enum.
    pose proof (enum_lenient zf (Some f) ts0 []) as H. cbn [length app] in H. rewrite Hlen in *.
    rewrite H. reflexivity.
  - rewrite wl_cons, ws_if, wl_cons, ws_try, wl_one, ws_enum.
    destruct (enum_strict zf None ts0 []) as [H1 H2]. cbn [length app] in H1, H2. rewrite Hlen in *.
    destruct (advance_all (combine (seq 0 size) ts0)) as [ts'|] eqn:E.
    + rewrite (H1 ts' eq_refl). reflexivity.
    + destruct (H2 eq_refl) as [ts Hts]. rewrite Hts. reflexivity.
Qed.
