(* C14, cmd clause: the Microsoft C runtime rules (both variants of the
   doubled-quote rule) read the text of args2cmd back as exactly the arguments,
   for every argument list without NUL. *)
From Boltons Require Import Lib.Prelude Lib.C14_Text Spec.C14_Spec Model.C14_Model Proofs.C14_Sh.
Open Scope N_scope.

(* ---- the text of one argument, as a function of the pending backslashes ---- *)
Fixpoint cmd_out (b : nat) (arg : text) (q : bool) : text :=
  match arg with
  | [] => bsl b ++ (if q then bsl b ++ [c_dq] else [])
  | c :: r =>
      if c =? c_bs then cmd_out (S b) r q
      else if c =? c_dq then bsl (b * 2) ++ [c_bs; c_dq] ++ cmd_out 0 r q
      else bsl b ++ [c] ++ cmd_out 0 r q
  end.

Definition cmd_piece (arg : text) : text :=
  (if needquote arg then [c_dq] else []) ++ cmd_out 0 arg (needquote arg).

Lemma cmd_loop_out arg : forall (result : text) (b : nat) (q : bool),
  (let '(res', b') := cmd_loop result b arg in
   res' ++ bsl b' ++ (if q then bsl b' ++ [c_dq] else [])) = result ++ cmd_out b arg q.
Proof.
  induction arg as [|c r IH]; intros result b q.
  - reflexivity.
  - cbn [cmd_loop cmd_out]. destruct (c =? c_bs).
    + apply IH.
    + destruct (c =? c_dq).
      * rewrite IH. unfold bsl. rewrite <- !app_assoc. reflexivity.
      * rewrite IH. unfold bsl. rewrite <- !app_assoc. reflexivity.
Qed.

Lemma cmd_arg_piece result arg :
  cmd_arg result arg = (if is_nil result then result else result ++ [c_sp]) ++ cmd_piece arg.
Proof.
  unfold cmd_arg, cmd_piece.
  set (r0 := if is_nil result then result else result ++ [c_sp]).
  destruct (needquote arg).
  - pose proof (cmd_loop_out arg (r0 ++ [c_dq]) 0 true) as H.
    destruct (cmd_loop (r0 ++ [c_dq]) 0 arg) as [res' b'].
    unfold bsl in H. fold r0. rewrite <- app_assoc. rewrite H. rewrite <- app_assoc. reflexivity.
  - pose proof (cmd_loop_out arg r0 0 false) as H.
    destruct (cmd_loop r0 0 arg) as [res' b'].
    unfold bsl in H. rewrite app_nil_r in H. fold r0. cbn [app]. exact H.
Qed.

Lemma cmd_out_nonempty arg : forall b q,
  (arg <> [] \/ q = true \/ b <> O) -> cmd_out b arg q <> [].
Proof.
  induction arg as [|c r IH]; intros b q H; cbn [cmd_out].
  - destruct q.
    + intro E. apply app_eq_nil in E as [_ E]. apply app_eq_nil in E as [_ E]. discriminate.
    + destruct b; [destruct H as [H|[H|H]]; congruence|discriminate].
  - destruct (c =? c_bs).
    + apply IH. right. right. discriminate.
    + destruct (c =? c_dq); intro E; apply app_eq_nil in E as [_ E]; discriminate.
Qed.

Lemma cmd_piece_nonempty arg : cmd_piece arg <> [].
Proof.
  unfold cmd_piece. destruct (needquote arg) eqn:E; [discriminate|].
  cbn [app]. apply cmd_out_nonempty. left. intro Ea. subst arg. discriminate.
Qed.

(* args2cmd as a right fold *)
Lemma fold_cmd_arg args : forall result,
  result <> [] ->
  fold_left cmd_arg args result = result ++ flat_map (fun a => c_sp :: cmd_piece a) args.
Proof.
  induction args as [|a rest IH]; intros result Hne.
  - cbn. rewrite app_nil_r. reflexivity.
  - cbn [fold_left flat_map]. rewrite IH.
    + rewrite cmd_arg_piece. destruct result; [congruence|]. cbn [is_nil].
      rewrite <- !app_assoc. reflexivity.
    + rewrite cmd_arg_piece. intro E. apply app_eq_nil in E as [_ E].
      exact (cmd_piece_nonempty a E).
Qed.

Lemma args2cmd_cons a rest :
  args2cmd (a :: rest) = cmd_piece a ++ flat_map (fun a => c_sp :: cmd_piece a) rest.
Proof.
  unfold args2cmd. cbn [fold_left]. rewrite fold_cmd_arg.
  - rewrite cmd_arg_piece. reflexivity.
  - rewrite cmd_arg_piece. cbn [is_nil app]. apply cmd_piece_nonempty.
Qed.

(* ---- reading it back ------------------------------------------------------ *)
Lemma ms_run_cons dd inq cur nbs c r :
  ms_run dd inq cur nbs (c :: r) =
    if c =? 0 then ms_fin cur nbs
    else if c =? c_bs then ms_run dd inq cur (S nbs) r
    else if c =? c_dq then
      if Nat.even nbs then
        let w := word cur ++ bsl (Nat.div2 nbs) in
        match r with
        | c2 :: r2 =>
            if dd && inq && (c2 =? c_dq) then ms_run dd inq (Some (w ++ [c_dq])) 0 r2
            else ms_run dd (negb inq) (Some w) 0 r
        | [] => ms_run dd (negb inq) (Some w) 0 r
        end
      else ms_run dd inq (Some (word cur ++ bsl (Nat.div2 nbs) ++ [c_dq])) 0 r
    else if ms_blank c && negb inq then ms_fin cur nbs ++ ms_run dd false None 0 r
    else ms_run dd inq (Some (word cur ++ bsl nbs ++ [c])) 0 r.
Proof. reflexivity. Qed.

Lemma ms_run_bsl dd inq cur n : forall k s,
  ms_run dd inq cur k (bsl n ++ s) = ms_run dd inq cur (k + n) s.
Proof.
  induction n as [|n IH]; intros k s.
  - cbn. rewrite Nat.add_0_r. reflexivity.
  - cbn [bsl repeat app]. rewrite ms_run_cons. cbn [N.eqb c_bs Pos.eqb].
    fold (bsl n). rewrite IH. f_equal. lia.
Qed.

Lemma bsl_S_app n r : bsl (S n) ++ r = bsl n ++ c_bs :: r.
Proof.
  unfold bsl. change (repeat c_bs (S n)) with (c_bs :: repeat c_bs n).
  rewrite repeat_cons. rewrite <- app_assoc. reflexivity.
Qed.

Lemma even_double b : Nat.even (b + b) = true.
Proof. induction b as [|b IH]; [reflexivity|]. replace (S b + S b)%nat with (S (S (b + b))) by lia. exact IH. Qed.
Lemma div2_double b : Nat.div2 (b + b) = b.
Proof. induction b as [|b IH]; [reflexivity|]. replace (S b + S b)%nat with (S (S (b + b))) by lia. cbn [Nat.div2]. rewrite IH. reflexivity. Qed.
Lemma even_S_double b : Nat.even (S (b * 2)) = false.
Proof. rewrite Nat.even_succ. rewrite <- Nat.negb_even. replace (b * 2)%nat with (b + b)%nat by lia. rewrite even_double. reflexivity. Qed.
Lemma div2_S_double b : Nat.div2 (S (b * 2)) = b.
Proof. replace (b * 2)%nat with (2 * b)%nat by lia. apply Nat.div2_succ_double. Qed.

Section CmdProof.
  Variable dd : bool.

  (* what remains to be read after an argument: nothing, or a blank and more *)
  Definition ms_end (x : text) (tail : text) : list text :=
    match tail with [] => [x] | _ :: t => x :: ms_run dd false None 0 t end.
  Definition tail_ok (tail : text) : Prop := tail = [] \/ exists t, tail = c_sp :: t.

  Lemma ms_run_closed x b tail :
    tail_ok tail ->
    ms_run dd false x b tail = match x, b with
                               | None, O => match tail with [] => [] | _ :: t => ms_run dd false None 0 t end
                               | _, _ => ms_end (word x ++ bsl b) tail
                               end.
  Proof.
    intros [->|[t ->]].
    - cbn. destruct x, b; reflexivity.
    - rewrite ms_run_cons. cbn [N.eqb c_sp c_bs c_dq c_tab ms_blank Pos.eqb orb negb andb].
      unfold ms_fin, ms_end. destruct x, b; reflexivity.
  Qed.

  Lemma ms_run_dq_open cur r :
    ms_run dd false cur 0 (c_dq :: r) = ms_run dd true (Some (word cur)) 0 r.
  Proof.
    rewrite ms_run_cons. cbn [N.eqb c_dq c_bs Pos.eqb Nat.even Nat.div2 bsl repeat].
    rewrite app_nil_r. rewrite andb_false_r. cbn [andb negb]. destruct r; reflexivity.
  Qed.

  Lemma cmd_out_reads arg : forall (q : bool) cur b tail,
    ~ In 0 arg ->
    (q = false -> forall c, In c arg -> ms_blank c = false) ->
    tail_ok tail ->
    (cur <> None \/ b <> O \/ arg <> [] \/ q = true) ->
    ms_run dd q cur 0 (cmd_out b arg q ++ tail) = ms_end (word cur ++ bsl b ++ arg) tail.
  Proof.
    induction arg as [|c r IH]; intros q cur b tail Hn Hbl Ht Hst.
    - cbn [cmd_out]. rewrite app_nil_r. destruct q.
      + rewrite <- !app_assoc. rewrite ms_run_bsl, ms_run_bsl. cbn [Nat.add app].
        rewrite ms_run_cons. cbn [N.eqb c_dq c_bs Pos.eqb]. rewrite even_double, div2_double.
        cbv zeta.
        assert (E : ms_run dd (negb true) (Some (word cur ++ bsl b)) 0 tail = ms_end (word cur ++ bsl b) tail).
        { cbn [negb]. rewrite ms_run_closed by assumption. cbn [word bsl repeat]. rewrite app_nil_r. reflexivity. }
        destruct Ht as [->|[t ->]].
        * exact E.
        * rewrite <- E. cbn [N.eqb c_sp c_dq Pos.eqb]. rewrite andb_false_r. reflexivity.
      + cbn [app]. rewrite app_nil_r. rewrite ms_run_bsl. cbn [Nat.add].
        rewrite ms_run_closed by assumption.
        destruct cur as [w|]; [reflexivity|]. destruct b; [|reflexivity].
        exfalso. destruct Hst as [H|[H|[H|H]]]; congruence.
    - assert (Hc0 : (c =? 0) = false).
      { apply N.eqb_neq. intro E. apply Hn. left. exact E. }
      assert (Hn' : ~ In 0 r) by (intro; apply Hn; right; assumption).
      assert (Hbl' : q = false -> forall c, In c r -> ms_blank c = false).
      { intros Hq x Hx. apply Hbl; [assumption|right; assumption]. }
      cbn [cmd_out]. destruct (c =? c_bs) eqn:Ebs.
      + apply N.eqb_eq in Ebs. subst c.
        rewrite IH; try assumption.
        * rewrite bsl_S_app. reflexivity.
        * right. left. discriminate.
      + destruct (c =? c_dq) eqn:Edq.
        * apply N.eqb_eq in Edq. subst c.
          rewrite <- app_assoc. rewrite ms_run_bsl. cbn [Nat.add app].
          rewrite ms_run_cons. cbn [N.eqb c_bs Pos.eqb].
          rewrite ms_run_cons. cbn [N.eqb c_dq c_bs Pos.eqb].
          rewrite even_S_double, div2_S_double.
          rewrite IH; try assumption.
          -- cbn [word bsl repeat app]. rewrite <- !app_assoc. reflexivity.
          -- left. discriminate.
        * rewrite <- app_assoc. rewrite ms_run_bsl. cbn [Nat.add app].
          rewrite ms_run_cons, Hc0, Ebs, Edq.
          assert (Hb : ms_blank c && negb q = false).
          { destruct q; [apply andb_false_r|]. rewrite (Hbl eq_refl c) by (left; reflexivity). reflexivity. }
          rewrite Hb.
          rewrite IH; try assumption.
          -- cbn [word bsl repeat app]. rewrite <- !app_assoc. reflexivity.
          -- left. discriminate.
  Qed.

  Lemma needquote_false_blank arg :
    needquote arg = false -> arg <> [] /\ forall c, In c arg -> ms_blank c = false.
  Proof.
    unfold needquote. intro H. apply orb_false_iff in H as [H Hnil]. apply orb_false_iff in H as [Hsp Htab].
    split.
    - destruct arg; [discriminate|discriminate].
    - intros c Hc. unfold ms_blank. apply orb_false_iff. split.
      + rewrite N.eqb_sym. apply (memN_false_neq c_sp arg c Hsp Hc).
      + rewrite N.eqb_sym. apply (memN_false_neq c_tab arg c Htab Hc).
  Qed.

  Lemma cmd_piece_reads a tail :
    ~ In 0 a -> tail_ok tail ->
    ms_run dd false None 0 (cmd_piece a ++ tail) = ms_end a tail.
  Proof.
    intros Hn Ht. unfold cmd_piece. destruct (needquote a) eqn:Eq.
    - cbn [app]. rewrite ms_run_dq_open. rewrite cmd_out_reads; try assumption.
      + reflexivity.
      + discriminate.
      + right. right. right. reflexivity.
    - apply needquote_false_blank in Eq as [Hne Hbl]. cbn [app].
      rewrite cmd_out_reads; try assumption.
      + reflexivity.
      + intros _. exact Hbl.
      + right. right. left. exact Hne.
  Qed.

  Theorem args2cmd_splits_back : forall args,
    no_nul args -> ms_split dd (args2cmd args) = args.
  Proof.
    unfold ms_split. intros [|a rest] Hn; [reflexivity|].
    rewrite args2cmd_cons. revert a Hn. induction rest as [|b rest IH]; intros a Hn.
    - cbn [flat_map]. rewrite cmd_piece_reads.
      + reflexivity.
      + apply Hn. left. reflexivity.
      + left. reflexivity.
    - cbn [flat_map]. rewrite cmd_piece_reads.
      + cbn [app]. cbn [ms_end]. f_equal. apply IH. intros x Hx. apply Hn. right. exact Hx.
      + apply Hn. left. reflexivity.
      + right. eexists. reflexivity.
  Qed.
End CmdProof.
