(* C14, sh clause: a POSIX shell reads the text of args2sh back as exactly the
   arguments, for every argument list without NUL and every safe class whose
   members are literal in an unquoted word. *)
From Boltons Require Import Lib.Prelude Lib.C14_Text Spec.C14_Spec Model.C14_Model.
Open Scope N_scope.

Lemma join_cons sep x r : join sep (x :: r) = match r with [] => x | _ => x ++ sep ++ join sep r end.
Proof. reflexivity. Qed.

Lemma sh_run_cons m cur c r :
  sh_run m cur (c :: r) =
    if c =? 0 then None else
    match m with
    | MU =>
        if sh_blank c then
          match cur with
          | None => sh_run MU None r
          | Some w => option_map (cons w) (sh_run MU None r)
          end
        else if c =? c_sq then sh_run MS (Some (word cur)) r
        else if c =? c_dq then sh_run MD (Some (word cur)) r
        else if c =? c_bs then sh_run MUE cur r
        else if sh_literal c then sh_run MU (push cur c) r
        else None
    | MS => if c =? c_sq then sh_run MU cur r else sh_run MS (push cur c) r
    | MD =>
        if c =? c_dq then sh_run MU cur r
        else if c =? c_bs then sh_run MDE cur r
        else if (c =? 36) || (c =? 96) then None
        else sh_run MD (push cur c) r
    | MUE => if c =? c_nl then sh_run MU cur r
             else sh_run MU (push cur c) r
    | MDE => if c =? c_nl then sh_run MD cur r
             else if dq_escapable c then sh_run MD (push cur c) r
             else sh_run MD (push (push cur c_bs) c) r
    end.
Proof. reflexivity. Qed.

Lemma memN_false_neq c l x : memN c l = false -> In x l -> (c =? x) = false.
Proof.
  unfold memN. intros H Hin. destruct (c =? x) eqn:E; [|reflexivity].
  exfalso. assert (existsb (N.eqb c) l = true).
  { apply existsb_exists. exists x. split; assumption. }
  congruence.
Qed.

Lemma sh_literal_facts c :
  sh_literal c = true ->
  (c =? 0) = false /\ sh_blank c = false /\ (c =? c_sq) = false /\ (c =? c_dq) = false /\ (c =? c_bs) = false.
Proof.
  unfold sh_literal. intro H.
  apply andb_true_iff in H as [H Hs]. apply andb_true_iff in H as [Hlo Hhi].
  apply negb_true_iff in Hs. apply N.leb_le in Hlo.
  assert (In c_sq sh_special) by (vm_compute; tauto).
  assert (In c_dq sh_special) by (vm_compute; tauto).
  assert (In c_bs sh_special) by (vm_compute; tauto).
  unfold sh_blank. repeat split.
  - apply N.eqb_neq. lia.
  - apply orb_false_iff. split; apply N.eqb_neq; unfold c_sp, c_tab; lia.
  - apply (memN_false_neq _ _ _ Hs); assumption.
  - apply (memN_false_neq _ _ _ Hs); assumption.
  - apply (memN_false_neq _ _ _ Hs); assumption.
Qed.

(* a literal character extends (or starts) the current word *)
Lemma sh_run_literal cur c r :
  sh_literal c = true -> sh_run MU cur (c :: r) = sh_run MU (push cur c) r.
Proof.
  intro H. pose proof (sh_literal_facts c H) as (H0 & Hb & Hsq & Hdq & Hbs).
  rewrite sh_run_cons, H0, Hb, Hsq, Hdq, Hbs, H. reflexivity.
Qed.

Lemma sh_run_literals w : forall cur tail,
  forallb sh_literal w = true -> w <> [] ->
  sh_run MU cur (w ++ tail) = sh_run MU (Some (word cur ++ w)) tail.
Proof.
  induction w as [|c w IH]; intros cur tail Hl Hne; [congruence|].
  cbn [forallb] in Hl. apply andb_true_iff in Hl as [Hc Hw].
  cbn [app]. rewrite sh_run_literal by assumption.
  destruct w as [|c2 w2].
  - reflexivity.
  - rewrite IH by (assumption || discriminate).
    unfold push. cbn [word]. rewrite <- app_assoc. reflexivity.
Qed.

(* inside single quotes: the spliced text reads back as the argument *)
Lemma sh_run_squoted a : forall u tail,
  ~ In 0 a ->
  sh_run MS (Some u) (replace_sq a ++ c_sq :: tail) = sh_run MU (Some (u ++ a)) tail.
Proof.
  induction a as [|c a IH]; intros u tail Hn.
  - cbn [replace_sq flat_map app]. rewrite sh_run_cons. cbn. rewrite app_nil_r. reflexivity.
  - assert (Hc : (c =? 0) = false).
    { apply N.eqb_neq. intro E. apply Hn. left. exact E. }
    assert (Hn' : ~ In 0 a) by (intro; apply Hn; right; assumption).
    unfold replace_sq. cbn [flat_map]. fold (replace_sq a).
    destruct (c =? c_sq) eqn:Esq.
    + apply N.eqb_eq in Esq. subst c.
      unfold sq_splice. cbn [app].
      (* squote closes, dquote opens, squote is literal, dquote closes, squote reopens *)
      rewrite sh_run_cons. cbn [N.eqb c_sq Pos.eqb].
      rewrite sh_run_cons. cbn [N.eqb c_sq c_dq c_sp c_tab sh_blank Pos.eqb orb word].
      rewrite sh_run_cons. cbn [N.eqb c_sq c_dq c_bs Pos.eqb orb push word].
      rewrite sh_run_cons. cbn [N.eqb c_dq Pos.eqb].
      rewrite sh_run_cons. cbn [N.eqb c_sq c_dq c_sp c_tab sh_blank Pos.eqb orb word].
      unfold push. cbn [word].
      rewrite IH by assumption. rewrite <- app_assoc. reflexivity.
    + cbn [app]. rewrite sh_run_cons, Hc, Esq. unfold push. cbn [word].
      rewrite IH by assumption. rewrite <- app_assoc. reflexivity.
Qed.

(* at the end of a piece: end of text, or one blank and the rest *)
Lemma sh_run_end_nil u : sh_run MU (Some u) [] = Some [u].
Proof. reflexivity. Qed.

Lemma sh_run_end_sp u t : sh_run MU (Some u) (c_sp :: t) = option_map (cons u) (sh_run MU None t).
Proof. rewrite sh_run_cons. reflexivity. Qed.

Section ShProof.
  Variable safe : N -> bool.
  Hypothesis safe_literal : forall c, safe c = true -> sh_literal c = true.

  Lemma all_safe_literal a : all_safe safe a = true -> forallb sh_literal a = true.
  Proof.
    unfold all_safe. intro H. apply forallb_forall. intros c Hc.
    apply safe_literal. eapply forallb_forall in H; eassumption.
  Qed.

  (* one piece, whatever follows *)
  Lemma sh_piece_reads a tail :
    ~ In 0 a -> sh_run MU None (sh_piece safe a ++ tail) = sh_run MU (Some a) tail.
  Proof.
    intro Hn. unfold sh_piece. destruct a as [|c a].
    - reflexivity.
    - destruct (all_safe safe (c :: a)) eqn:Es.
      + rewrite sh_run_literals by (try apply all_safe_literal; assumption || discriminate).
        reflexivity.
      + cbn [app]. rewrite sh_run_cons. cbn [N.eqb c_sq c_sp c_tab sh_blank Pos.eqb orb word].
        rewrite <- app_assoc. cbn [app].
        rewrite sh_run_squoted by assumption. reflexivity.
  Qed.

  Theorem args2sh_splits_back : forall args,
    no_nul args -> sh_split (args2sh safe args) = Some args.
  Proof.
    unfold sh_split, args2sh. induction args as [|a rest IH]; intro Hn.
    - reflexivity.
    - assert (Ha : ~ In 0 a) by (apply Hn; left; reflexivity).
      assert (Hr : no_nul rest) by (intros x Hx; apply Hn; right; assumption).
      destruct rest as [|b rest'].
      + cbn [map]. rewrite join_cons. rewrite <- (app_nil_r (sh_piece safe a)).
        rewrite sh_piece_reads by assumption. reflexivity.
      + cbn [map]. rewrite join_cons.
        change (sh_piece safe b :: map (sh_piece safe) rest') with (map (sh_piece safe) (b :: rest')).
        rewrite sh_piece_reads by assumption.
        cbn [app]. rewrite sh_run_end_sp. rewrite IH by assumption. reflexivity.
  Qed.
End ShProof.
