(* C13: the names chosen for the generated source never clash (fixes b766f76, ec9ad8a, d49e931). *)
From Boltons Require Import Lib.Prelude Spec.C13_Spec Model.C13_Model Model.C13_Text Model.C13_Names.
From Coq Require Import Lia.
Local Open Scope N_scope.

Lemma text_eqb_eq a b : text_eqb a b = true <-> a = b.
Proof. apply list_eqb_eq. intros x y. apply N.eqb_eq. Qed.

Lemma mem_text_In t l : mem_text t l = true <-> In t l.
Proof.
  unfold mem_text. rewrite existsb_exists. split.
  - intros [x [Hx E]]. apply text_eqb_eq in E. subst. exact Hx.
  - intro H. exists t. split; [exact H | apply text_eqb_eq; reflexivity].
Qed.

Lemma mem_text_false t l : mem_text t l = false <-> ~ In t l.
Proof.
  rewrite <- mem_text_In. destruct (mem_text t l); split; intro H.
  - discriminate.
  - exfalso. apply H. reflexivity.
  - intro. discriminate.
  - reflexivity.
Qed.

(* candidates get longer, so a taken name that was tried is never tried again *)
Definition at_least (n : nat) (l : list text) : list text := filter (fun t => Nat.leb n (length t)) l.

Lemma at_least_mono n l : (length (at_least (S n) l) <= length (at_least n l))%nat.
Proof.
  unfold at_least. induction l as [|z r IH]; [apply Nat.le_refl|]. cbn [filter].
  destruct (Nat.leb (S n) (length z)) eqn:A; destruct (Nat.leb n (length z)) eqn:B; cbn [length]; try lia.
  apply Nat.leb_le in A. apply Nat.leb_gt in B. lia.
Qed.

Lemma at_least_shrinks n l x : In x l -> length x = n ->
  (length (at_least (S n) l) < length (at_least n l))%nat.
Proof.
  induction l as [|y r IH]; intros Hin Hl; [contradiction|].
  pose proof (at_least_mono n r) as MONO. unfold at_least in *. cbn [filter].
  destruct Hin as [->|Hin].
  - rewrite Hl. rewrite (proj2 (Nat.leb_le n n) (Nat.le_refl n)).
    replace (Nat.leb (S n) n) with false by (symmetry; apply Nat.leb_gt; lia). cbn [length]. lia.
  - specialize (IH Hin Hl).
    destruct (Nat.leb (S n) (length y)) eqn:A; destruct (Nat.leb n (length y)) eqn:B; cbn [length]; try lia.
    apply Nat.leb_le in A. apply Nat.leb_gt in B. lia.
Qed.

Lemma fresh_not_taken : forall fuel cand taken,
  (length (at_least (length cand) taken) < fuel)%nat ->
  mem_text (fresh fuel cand taken) taken = false.
Proof.
  induction fuel as [|k IH]; intros cand taken H; [inversion H|].
  cbn [fresh]. destruct (mem_text cand taken) eqn:M; [|exact M].
  apply IH. apply mem_text_In in M.
  pose proof (at_least_shrinks (length cand) taken cand M eq_refl) as S.
  rewrite app_length. simpl. rewrite Nat.add_1_r. lia.
Qed.

Lemma at_least_le n l : (length (at_least n l) <= length l)%nat.
Proof.
  unfold at_least. induction l as [|z r IH]; [apply Nat.le_refl|]. cbn [filter].
  destruct (Nat.leb n (length z)); cbn [length]; lia.
Qed.

Theorem fresh_enough cand taken :
  mem_text (fresh (S (length taken)) cand taken) taken = false.
Proof. apply fresh_not_taken. pose proof (at_least_le (length cand) taken). lia. Qed.

(* the wrapper is bound under a name that no parameter and not the function itself uses *)
Theorem pick_call_name_fresh taken : ~ In (pick_call_name taken) taken.
Proof. apply mem_text_false. apply fresh_enough. Qed.

Lemma fresh_shape : forall fuel cand taken,
  exists k, fresh fuel cand taken = cand ++ repeat UNDERSCORE k.
Proof.
  induction fuel as [|f IH]; intros cand taken; [exists 0%nat; simpl; rewrite app_nil_r; reflexivity|].
  cbn [fresh]. destruct (mem_text cand taken); [|exists 0%nat; simpl; rewrite app_nil_r; reflexivity].
  destruct (IH (cand ++ [UNDERSCORE]) taken) as [k E]. exists (S k). rewrite E, <- app_assoc. reflexivity.
Qed.

Section DefNameProofs.
  Variable xid_start : N -> bool.
  Variable xid_continue : N -> bool.
  Variable nfkc : text -> text.
  Variable iskeyword : text -> bool.
  (* facts about the oracles *)
  Hypothesis us_start : xid_start UNDERSCORE = true.
  Hypothesis start_continue : forall c, xid_start c = true -> xid_continue c = true.
  Hypothesis nfkc_keeps_xid : forall t, forallb xid_continue t = true -> forallb xid_continue (nfkc t) = true.
  Hypothesis nfkc_idem : forall t, nfkc (nfkc t) = nfkc t.
  Hypothesis nfkc_us_front : forall t, nfkc (UNDERSCORE :: t) = UNDERSCORE :: nfkc t.
  Hypothesis nfkc_us_back : forall t, nfkc (t ++ [UNDERSCORE]) = nfkc t ++ [UNDERSCORE].
  Hypothesis kw_no_us_front : forall t, iskeyword (UNDERSCORE :: t) = false.
  Hypothesis kw_no_us_back : forall t, iskeyword (t ++ [UNDERSCORE]) = false.

  Let isid := isidentifier xid_start xid_continue.

  Lemma sanitise_xid t : forallb xid_continue (sanitise xid_continue t) = true.
  Proof.
    unfold sanitise. induction t as [|c r IH]; [reflexivity|]. simpl.
    destruct (xid_continue c) eqn:E; simpl; rewrite ?E, ?(start_continue _ us_start); exact IH.
  Qed.

  Lemma isid_snoc t : isid t = true -> isid (t ++ [UNDERSCORE]) = true.
  Proof.
    unfold isid, isidentifier. destruct t as [|c r]; [discriminate|]. simpl.
    intro H. apply andb_true_iff in H as [H1 H2]. rewrite H1, forallb_app, H2. simpl.
    rewrite (start_continue _ us_start). reflexivity.
  Qed.

  Lemma isid_repeat t k : isid t = true -> isid (t ++ repeat UNDERSCORE k) = true.
  Proof.
    revert t. induction k as [|k IH]; intros t H; [simpl; rewrite app_nil_r; exact H|].
    simpl. change (UNDERSCORE :: repeat UNDERSCORE k) with ([UNDERSCORE] ++ repeat UNDERSCORE k).
    rewrite app_assoc. apply IH. apply isid_snoc. exact H.
  Qed.

  Lemma nfkc_repeat t k : nfkc (t ++ repeat UNDERSCORE k) = nfkc t ++ repeat UNDERSCORE k.
  Proof.
    revert t. induction k as [|k IH]; intro t; [simpl; rewrite !app_nil_r; reflexivity|].
    simpl. change (UNDERSCORE :: repeat UNDERSCORE k) with ([UNDERSCORE] ++ repeat UNDERSCORE k).
    rewrite !app_assoc, IH, nfkc_us_back. reflexivity.
  Qed.

  Lemma kw_repeat t k : iskeyword t = false -> iskeyword (t ++ repeat UNDERSCORE k) = false.
  Proof.
    intro H. destruct k as [|k]; [simpl; rewrite app_nil_r; exact H|].
    replace (repeat UNDERSCORE (S k)) with (repeat UNDERSCORE k ++ [UNDERSCORE]).
    - rewrite app_assoc. apply kw_no_us_back.
    - clear. induction k as [|k IH]; [reflexivity|]. simpl. rewrite IH. reflexivity.
  Qed.

  (* the base name compiles: an identifier, no keyword, and exactly what the parser stores *)
  Lemma def_name_base_ok fname :
    let n := def_name_base xid_start xid_continue nfkc iskeyword fname in
    isid n = true /\ iskeyword n = false /\ nfkc n = n.
  Proof.
    unfold def_name_base. set (n0 := nfkc (sanitise xid_continue fname)).
    assert (X : forallb xid_continue n0 = true) by (apply nfkc_keeps_xid; apply sanitise_xid).
    assert (S0 : nfkc n0 = n0) by (apply nfkc_idem).
    fold isid. destruct (isid n0 && negb (iskeyword n0)) eqn:E.
    - apply andb_true_iff in E as [E1 E2]. apply negb_true_iff in E2. repeat split; assumption.
    - repeat split.
      + unfold isid, isidentifier. rewrite us_start, X. reflexivity.
      + apply kw_no_us_front.
      + rewrite nfkc_us_front, S0. reflexivity.
  Qed.

  (* THE DEF NAME: a valid identifier, no keyword, stored unchanged by the parser, and
     bound to nothing in execdict (so the def statement rebinds neither the wrapper nor _func) *)
  Theorem pick_def_name_ok fname keys :
    let n := pick_def_name xid_start xid_continue nfkc iskeyword fname keys in
    isid n = true /\ iskeyword n = false /\ nfkc n = n /\ ~ In n keys.
  Proof.
    unfold pick_def_name.
    destruct (def_name_base_ok fname) as [B1 [B2 B3]].
    destruct (fresh_shape (S (length keys)) (def_name_base xid_start xid_continue nfkc iskeyword fname) keys) as [k E].
    split; [|split; [|split]].
    - rewrite E. apply isid_repeat. exact B1.
    - rewrite E. apply kw_repeat. exact B2.
    - rewrite E, nfkc_repeat, B3. reflexivity.
    - apply mem_text_false. apply fresh_enough.
  Qed.
End DefNameProofs.
