(* C03 -> C02 link, part 1: the sequential (atomic) execution of C03's micro-step
   transcription of the linked-list helpers computes exactly C02's pointer-level
   helper functions (Model/C02_PtrModel.v), under the correspondence
     heap list of C03  =  map enc (C02 heap function) over the allocated ids.
   Depends on C02 (DEPENDS = ["C02"] in harness/c03.py). *)
From Boltons Require Import Lib.Prelude Lib.C03_Syntax Lib.C03_Conc Model.C03_Model.
From Boltons Require Lib.C02_Syntax Model.C02_Model Model.C02_PtrModel Model.C02_PtrCache.
From Boltons Require Proofs.C02_Lists Proofs.C02_PtrLemmas Proofs.C02_PtrRep.

Module S2 := Boltons.Lib.C02_Syntax.
Module M2 := Boltons.Model.C02_Model.
Module P2 := Boltons.Model.C02_PtrModel.
Module PC2 := Boltons.Model.C02_PtrCache.
Module L2 := Boltons.Proofs.C02_PtrLemmas.

(* ---- sequential execution of composed programs ---------------------------------------- *)
Notation arun := (C03_Conc.arun sem).

Lemma arun_bind {A B} (p : P A) (f : A -> P B) s :
  arun (bind p f) s = let '(s', a) := arun p s in arun (f a) s'.
Proof.
  revert s. induction p; intro s; simpl; auto.
  destruct (sem a s) as [s' r]. apply H.
Qed.

Lemma arun_stat {A} sp (k : P A) s : arun (Stat sp k) s = arun k s.
Proof. reflexivity. Qed.

Lemma arun_act {A} a (k : ares -> P A) s :
  arun (Act a k) s = let '(s', r) := sem a s in arun (k r) s'.
Proof. reflexivity. Qed.

Lemma arun_with_lock {A} b (p : P A) s : arun (with_lock b p) s = arun p s.
Proof.
  unfold with_lock. destruct b; [|reflexivity]. simpl. rewrite arun_bind.
  destruct (arun p s). reflexivity.
Qed.

Lemma arun_bindr {A B} (p : P (res A)) (f : A -> P (res B)) s :
  arun (bindr p f) s = let '(s', r) := arun p s in
                       match r with Ok a => arun (f a) s' | Raise e => (s', Raise e) end.
Proof.
  unfold bindr. rewrite arun_bind. destruct (arun p s) as [s' [a|e]]; reflexivity.
Qed.

(* ---- encoding of C02 cells / heaps -------------------------------------------------------- *)
Definition key_fv (o : option K) : fval := match o with Some k => FKey k | None => FMissing end.
Definition val_fv (o : option V) : fval := match o with Some v => FVal v | None => FMissing end.

Definition enc (d : P2.cell) : cell :=
  mkCell (FAddr (P2.c_prev d)) (FAddr (P2.c_next d)) (key_fv (P2.c_key d)) (val_fv (P2.c_val d)).

Definition heap_of (h : P2.heap) (n : nat) : list cell := map (fun i => enc (h i)) (seq 0 n).

Lemma heap_of_length h n : length (heap_of h n) = n.
Proof. unfold heap_of. rewrite map_length, seq_length. reflexivity. Qed.

Lemma heap_of_nth h n i : i < n -> nth_error (heap_of h n) i = Some (enc (h i)).
Proof.
  intro H. unfold heap_of. rewrite nth_error_map.
  rewrite (nth_error_nth' (seq 0 n) 0) by (rewrite seq_length; exact H).
  rewrite seq_nth by exact H. reflexivity.
Qed.

Lemma list_set_map_seq (f g : nat -> cell) n i c :
  i < n -> (forall j, j <> i -> g j = f j) -> g i = c ->
  list_set (map f (seq 0 n)) i c = map g (seq 0 n).
Proof.
  intros Hi Hne He.
  assert (G : forall m start, i < start + m -> start <= i ->
              list_set (map f (seq start m)) (i - start) c = map g (seq start m)).
  { induction m as [|m IH]; intros start H1 H2; [lia|].
    simpl. destruct (i - start) as [|d] eqn:E.
    - assert (i = start) by lia. subst start. f_equal; [now rewrite He|].
      apply map_ext_in. intros j Hj. apply in_seq in Hj. symmetry. apply Hne. lia.
    - rewrite Hne by lia. f_equal.
      replace d with (i - S start) by lia.
      destruct (Nat.eq_dec m 0) as [->|Hm]; [lia|].
      apply IH; lia. }
  specialize (G n 0). rewrite Nat.sub_0_r in G. apply G; lia.
Qed.

Lemma heap_of_upd h n i d :
  i < n -> list_set (heap_of h n) i (enc d) = heap_of (P2.upd h i d) n.
Proof.
  intro H. unfold heap_of. apply list_set_map_seq; [exact H| |].
  - intros j Hj. unfold P2.upd. destruct (Nat.eqb_spec j i); [contradiction|reflexivity].
  - unfold P2.upd. rewrite Nat.eqb_refl. reflexivity.
Qed.

Lemma heap_of_alloc h n d : heap_of h n ++ [enc d] = heap_of (P2.upd h n d) (S n).
Proof.
  unfold heap_of. rewrite seq_S, map_app. simpl. f_equal.
  - apply map_ext_in. intros j Hj. apply in_seq in Hj. unfold P2.upd.
    destruct (Nat.eqb_spec j n); [lia|reflexivity].
  - unfold P2.upd. rewrite Nat.eqb_refl. reflexivity.
Qed.

(* the four setters, on the encoded heap *)
Lemma enc_set_prev (h : P2.heap) i x : cell_set (enc (h i)) PREV (FAddr x)
  = enc (P2.mkCell x (P2.c_next (h i)) (P2.c_key (h i)) (P2.c_val (h i))).
Proof. reflexivity. Qed.
Lemma enc_set_next (h : P2.heap) i x : cell_set (enc (h i)) NEXT (FAddr x)
  = enc (P2.mkCell (P2.c_prev (h i)) x (P2.c_key (h i)) (P2.c_val (h i))).
Proof. reflexivity. Qed.
Lemma enc_set_key (h : P2.heap) i o : cell_set (enc (h i)) KEY (key_fv o)
  = enc (P2.mkCell (P2.c_prev (h i)) (P2.c_next (h i)) o (P2.c_val (h i))).
Proof. reflexivity. Qed.
Lemma enc_set_val (h : P2.heap) i o : cell_set (enc (h i)) VALUE (val_fv o)
  = enc (P2.mkCell (P2.c_prev (h i)) (P2.c_next (h i)) (P2.c_key (h i)) o).
Proof. reflexivity. Qed.

(* ---- the correspondence on whole states ----------------------------------------------------- *)
(* C03 shared state  ~  (C02 storage, C02 pointer ring) *)
Record SR (s : shared) (st : pydict V) (pr : P2.pring) : Prop := mkSR {
  sr_heap : heap s = heap_of (P2.pr_heap pr) (P2.pr_fresh pr);
  sr_anchor : anchor s = P2.pr_anchor pr;
  sr_lookup : lookup s = P2.pr_lookup pr;
  sr_store : store s = st
}.

(* the allocated part of the ring is closed under PREV/NEXT and contains the anchor and every
   link of the lookup table *)
Record Closed (pr : P2.pring) (S : list nat) : Prop := mkClosed {
  cl_anchor : In (P2.pr_anchor pr) S;
  cl_lookup : Forall (fun kv => In (snd kv) S) (P2.pr_lookup pr);
  cl_range : forall x, In x S -> x < P2.pr_fresh pr;
  cl_prev : forall x, In x S -> In (P2.c_prev (P2.pr_heap pr x)) S;
  cl_next : forall x, In x S -> In (P2.c_next (P2.pr_heap pr x)) S
}.

Lemma dget_in {B} (d : pydict B) k x : d_get d k = Some x -> exists k', In (k', x) d.
Proof.
  induction d as [|[k0 v0] r IH]; simpl; [discriminate|].
  destruct (Nat.eqb k k0).
  - intro E. inversion E; subst. exists k0. now left.
  - intro E. destruct (IH E) as [k' H]. exists k'. now right.
Qed.

Lemma cl_lookup_get pr S k n : Closed pr S -> d_get (P2.pr_lookup pr) k = Some n -> In n S.
Proof.
  intros C G. destruct (dget_in _ _ _ G) as [k' H].
  pose proof (cl_lookup _ _ C) as F. rewrite Forall_forall in F. apply (F _ H).
Qed.

Lemma forall_dset {B} (Q : K * B -> Prop) (d : pydict B) k v :
  Forall Q d -> (forall k', Q (k', v)) -> Forall Q (d_set d k v).
Proof.
  intros F Hv. induction d as [|[k0 v0] r IH]; simpl.
  - constructor; [apply Hv|constructor].
  - inversion F; subst. destruct (Nat.eqb k k0); constructor; auto.
Qed.

Lemma forall_ddel {B} (Q : K * B -> Prop) (d : pydict B) k : Forall Q d -> Forall Q (d_del d k).
Proof.
  intro F. induction d as [|[k0 v0] r IH]; simpl; [constructor|].
  inversion F; subst. destruct (Nat.eqb k k0); [assumption|constructor; auto].
Qed.

(* single accesses under SR *)
Lemma sem_read s st pr x f :
  SR s st pr -> x < P2.pr_fresh pr ->
  sem (ARead x f) s = (s, XF (cell_get (enc (P2.pr_heap pr x)) f)).
Proof.
  intros R H. unfold sem. rewrite (sr_heap _ _ _ R), heap_of_nth by exact H. reflexivity.
Qed.

Definition set_heap (s : shared) (hp : list cell) : shared := mkShared hp (anchor s) (lookup s) (store s).

Lemma sem_write s st pr x f v :
  SR s st pr -> x < P2.pr_fresh pr ->
  sem (AWrite x f v) s = (set_heap s (list_set (heap s) x (cell_set (enc (P2.pr_heap pr x)) f v)), XUnit).
Proof.
  intros R H. unfold sem. rewrite (sr_heap _ _ _ R), heap_of_nth by exact H.
  reflexivity.
Qed.

(* ---- stepping through the micro-steps of the helpers ----------------------------------------- *)
Definition with_heap (pr : P2.pring) (h : P2.heap) : P2.pring :=
  P2.mkPR h (P2.pr_anchor pr) (P2.pr_lookup pr) (P2.pr_fresh pr).

Section Steps.
  Variables (st : pydict V) (S : list nat).

  Lemma st_rd_prev {A} s pr x (k : addr -> P (res A)) :
    SR s st pr -> Closed pr S -> In x S ->
    arun (rd_addr x PREV k) s = arun (k (P2.c_prev (P2.pr_heap pr x))) s
    /\ In (P2.c_prev (P2.pr_heap pr x)) S.
  Proof.
    intros R C H. split; [|apply (cl_prev _ _ C); exact H].
    unfold rd_addr. rewrite arun_act, (sem_read _ _ _ _ _ R (cl_range _ _ C _ H)). reflexivity.
  Qed.

  Lemma st_rd_next {A} s pr x (k : addr -> P (res A)) :
    SR s st pr -> Closed pr S -> In x S ->
    arun (rd_addr x NEXT k) s = arun (k (P2.c_next (P2.pr_heap pr x))) s
    /\ In (P2.c_next (P2.pr_heap pr x)) S.
  Proof.
    intros R C H. split; [|apply (cl_next _ _ C); exact H].
    unfold rd_addr. rewrite arun_act, (sem_read _ _ _ _ _ R (cl_range _ _ C _ H)). reflexivity.
  Qed.

  Lemma st_rd_key {A} s pr x (k : fval -> P (res A)) :
    SR s st pr -> Closed pr S -> In x S ->
    arun (rd x KEY k) s = arun (k (key_fv (P2.c_key (P2.pr_heap pr x)))) s.
  Proof.
    intros R C H. unfold rd. rewrite arun_act, (sem_read _ _ _ _ _ R (cl_range _ _ C _ H)). reflexivity.
  Qed.

  Lemma st_rd_val {A} s pr x (k : fval -> P (res A)) :
    SR s st pr -> Closed pr S -> In x S ->
    arun (rd x VALUE k) s = arun (k (val_fv (P2.c_val (P2.pr_heap pr x)))) s.
  Proof.
    intros R C H. unfold rd. rewrite arun_act, (sem_read _ _ _ _ _ R (cl_range _ _ C _ H)). reflexivity.
  Qed.

  Lemma st_anchor {A} s pr (k : addr -> P (res A)) :
    SR s st pr -> arun (anchor_get k) s = arun (k (P2.pr_anchor pr)) s.
  Proof. intro R. unfold anchor_get. rewrite arun_act. unfold sem. rewrite (sr_anchor _ _ _ R). reflexivity. Qed.

  (* generic write: the new C02 heap is h' = upd h x d', provided the written cell encodes d' *)
  Lemma st_write {A} s pr x f v d' (k : P (res A)) :
    SR s st pr -> In x S -> Closed pr S ->
    cell_set (enc (P2.pr_heap pr x)) f v = enc d' ->
    exists s', arun (wr x f v k) s = arun k s'
               /\ SR s' st (with_heap pr (P2.upd (P2.pr_heap pr) x d')).
  Proof.
    intros R H C E. pose proof (cl_range _ _ C _ H) as Hx.
    eexists. split.
    - unfold wr. rewrite arun_act, (sem_write _ _ _ _ _ _ R Hx). reflexivity.
    - constructor; simpl; try apply R.
      rewrite E, (sr_heap _ _ _ R). apply heap_of_upd. exact Hx.
  Qed.

  Lemma closed_set_ptr pr h' :
    Closed pr S ->
    (forall x, In x S -> In (P2.c_prev (h' x)) S /\ In (P2.c_next (h' x)) S) ->
    Closed (with_heap pr h') S.
  Proof.
    intros C H. constructor; simpl; try apply C.
    - intros x Hx. apply H. exact Hx.
    - intros x Hx. apply H. exact Hx.
  Qed.

  Lemma st_wr_prev {A} s pr x y (k : P (res A)) :
    SR s st pr -> Closed pr S -> In x S -> In y S ->
    exists s', arun (wr x PREV (FAddr y) k) s = arun k s'
               /\ SR s' st (with_heap pr (P2.set_prev (P2.pr_heap pr) x y))
               /\ Closed (with_heap pr (P2.set_prev (P2.pr_heap pr) x y)) S.
  Proof.
    intros R C Hx Hy.
    destruct (st_write s pr x PREV (FAddr y) _ k R Hx C (enc_set_prev _ x y)) as [s' [E R']].
    exists s'. split; [exact E|]. split; [exact R'|].
    apply closed_set_ptr; [exact C|]. intros z Hz. unfold P2.set_prev, P2.upd.
    destruct (Nat.eqb_spec z x); simpl; [subst; split; [exact Hy|apply C; exact Hx]|split; apply C; exact Hz].
  Qed.

  Lemma st_wr_next {A} s pr x y (k : P (res A)) :
    SR s st pr -> Closed pr S -> In x S -> In y S ->
    exists s', arun (wr x NEXT (FAddr y) k) s = arun k s'
               /\ SR s' st (with_heap pr (P2.set_next (P2.pr_heap pr) x y))
               /\ Closed (with_heap pr (P2.set_next (P2.pr_heap pr) x y)) S.
  Proof.
    intros R C Hx Hy.
    destruct (st_write s pr x NEXT (FAddr y) _ k R Hx C (enc_set_next _ x y)) as [s' [E R']].
    exists s'. split; [exact E|]. split; [exact R'|].
    apply closed_set_ptr; [exact C|]. intros z Hz. unfold P2.set_next, P2.upd.
    destruct (Nat.eqb_spec z x); simpl; [subst; split; [apply C; exact Hx|exact Hy]|split; apply C; exact Hz].
  Qed.

  Lemma st_wr_key {A} s pr x o (k : P (res A)) :
    SR s st pr -> Closed pr S -> In x S ->
    exists s', arun (wr x KEY (key_fv o) k) s = arun k s'
               /\ SR s' st (with_heap pr (P2.set_key (P2.pr_heap pr) x o))
               /\ Closed (with_heap pr (P2.set_key (P2.pr_heap pr) x o)) S.
  Proof.
    intros R C Hx.
    destruct (st_write s pr x KEY (key_fv o) _ k R Hx C (enc_set_key _ x o)) as [s' [E R']].
    exists s'. split; [exact E|]. split; [exact R'|].
    apply closed_set_ptr; [exact C|]. intros z Hz. unfold P2.set_key, P2.upd.
    destruct (Nat.eqb_spec z x); simpl; [subst; split; apply C; exact Hx|split; apply C; exact Hz].
  Qed.

  Lemma st_wr_val {A} s pr x o (k : P (res A)) :
    SR s st pr -> Closed pr S -> In x S ->
    exists s', arun (wr x VALUE (val_fv o) k) s = arun k s'
               /\ SR s' st (with_heap pr (P2.set_val (P2.pr_heap pr) x o))
               /\ Closed (with_heap pr (P2.set_val (P2.pr_heap pr) x o)) S.
  Proof.
    intros R C Hx.
    destruct (st_write s pr x VALUE (val_fv o) _ k R Hx C (enc_set_val _ x o)) as [s' [E R']].
    exists s'. split; [exact E|]. split; [exact R'|].
    apply closed_set_ptr; [exact C|]. intros z Hz. unfold P2.set_val, P2.upd.
    destruct (Nat.eqb_spec z x); simpl; [subst; split; apply C; exact Hx|split; apply C; exact Hz].
  Qed.

  (* link[PREV][NEXT] = link[NEXT]; link[NEXT][PREV] = link[PREV] *)
  Definition unlink (h : P2.heap) (n : nat) : P2.heap :=
    let h1 := P2.set_next h (P2.c_prev (h n)) (P2.c_next (h n)) in
    P2.set_prev h1 (P2.c_next (h1 n)) (P2.c_prev (h1 n)).

  Lemma st_splice {A} s pr n (k : P (res A)) :
    SR s st pr -> Closed pr S -> In n S ->
    exists s', arun (splice_out n k) s = arun k s'
               /\ SR s' st (with_heap pr (unlink (P2.pr_heap pr) n))
               /\ Closed (with_heap pr (unlink (P2.pr_heap pr) n)) S.
  Proof.
    intros R C Hn. unfold splice_out.
    match goal with |- context [arun (rd_addr ?x NEXT ?kk) ?ss] =>
      destruct (st_rd_next ss _ x kk R C Hn) as [E1 I1]; rewrite E1; clear E1 end.
    match goal with |- context [arun (rd_addr ?x PREV ?kk) ?ss] =>
      destruct (st_rd_prev ss _ x kk R C Hn) as [E2 I2]; rewrite E2; clear E2 end.
    match goal with |- context [arun (wr ?x NEXT (FAddr ?y) ?kk) ?ss] =>
      destruct (st_wr_next ss _ x y kk R C I2 I1) as [s1 [E3 [R1 C1]]]; rewrite E3; clear E3 end.
    match goal with |- context [arun (rd_addr ?x PREV ?kk) ?ss] =>
      destruct (st_rd_prev ss _ x kk R1 C1 Hn) as [E4 I4]; rewrite E4; clear E4 end.
    match goal with |- context [arun (rd_addr ?x NEXT ?kk) ?ss] =>
      destruct (st_rd_next ss _ x kk R1 C1 Hn) as [E5 I5]; rewrite E5; clear E5 end.
    match goal with |- context [arun (wr ?x PREV (FAddr ?y) ?kk) ?ss] =>
      destruct (st_wr_prev ss _ x y kk R1 C1 I5 I4) as [s2 [E6 [R2 C2]]]; rewrite E6; clear E6 end.
    exists s2. split; [reflexivity|]. split; [exact R2|exact C2].
  Qed.

  Ltac rdn R C H := match goal with |- context [arun (rd_addr ?x NEXT ?kk) ?ss] =>
    let E := fresh "E" in let I := fresh "I" in
    destruct (st_rd_next ss _ x kk R C H) as [E I]; rewrite E; clear E end.
  Ltac rdp R C H := match goal with |- context [arun (rd_addr ?x PREV ?kk) ?ss] =>
    let E := fresh "E" in let I := fresh "I" in
    destruct (st_rd_prev ss _ x kk R C H) as [E I]; rewrite E; clear E end.
  Ltac wrn R C Hx Hy := match goal with |- context [arun (wr ?x NEXT (FAddr ?y) ?kk) ?ss] =>
    let s' := fresh "s" in let E := fresh "E" in let R' := fresh "R" in let C' := fresh "C" in
    destruct (st_wr_next ss _ x y kk R C Hx Hy) as [s' [E [R' C']]]; rewrite E; clear E end.
  Ltac wrp R C Hx Hy := match goal with |- context [arun (wr ?x PREV (FAddr ?y) ?kk) ?ss] =>
    let s' := fresh "s" in let E := fresh "E" in let R' := fresh "R" in let C' := fresh "C" in
    destruct (st_wr_prev ss _ x y kk R C Hx Hy) as [s' [E [R' C']]]; rewrite E; clear E end.
  Ltac anc R := match goal with |- context [arun (anchor_get ?kk) ?ss] =>
    rewrite (st_anchor ss _ kk R) end.

  Lemma sem_lkget s pr key : SR s st pr ->
    sem (ALkGet key) s = (s, match d_get (P2.pr_lookup pr) key with Some x => XAddr x | None => XKeyError end).
  Proof.
    intro R. unfold sem. rewrite (sr_lookup _ _ _ R).
    match goal with |- ?L = (s, match ?X with _ => _ end) =>
      change L with (match X with Some x => (s, XAddr x) | None => (s, XKeyError) end); destruct X; reflexivity end.
  Qed.

  (* _get_link_and_move_to_front_of_ll *)
  Lemma mv_sim s pr key :
    SR s st pr -> Closed pr S ->
    match P2.p_move_to_front pr key with
    | Some (pr', n) => exists s', arun (get_link_and_move_to_front key) s = (s', Ok n)
                                  /\ SR s' st pr' /\ Closed pr' S /\ In n S
    | None => arun (get_link_and_move_to_front key) s = (s, Raise KeyError)
    end.
  Proof.
    intros R C. unfold P2.p_move_to_front, get_link_and_move_to_front.
    rewrite arun_act, (sem_lkget _ _ _ R).
    destruct (d_get (P2.pr_lookup pr) key) as [newest|] eqn:G; [|reflexivity].
    cbn beta iota.
    pose proof (cl_lookup_get _ _ _ _ C G) as Hn.
    match goal with |- context [arun (splice_out ?n ?kk) ?ss] =>
      destruct (st_splice ss _ n kk R C Hn) as [s1 [E1 [R1 C1]]] end.
    rewrite E1. clear E1.
    anc R1. pose proof (cl_anchor _ _ C1) as Ha. simpl in Ha.
    rdp R1 C1 Ha.
    wrn R1 C1 I Hn. wrp R0 C0 Ha Hn. wrp R2 C2 Hn I. wrn R3 C3 Hn Ha.
    eexists. split; [reflexivity|]. split; [exact R4|]. split; [exact C4|exact Hn].
  Qed.
End Steps.

(* ---- tactics for stepping, outside the section ---------------------------------------------- *)
Ltac rdn R C H := match goal with |- context [arun (rd_addr ?x NEXT ?kk) ?ss] =>
  let E := fresh "E" in let I := fresh "I" in
  destruct (st_rd_next _ _ ss _ x kk R C H) as [E I]; rewrite E; clear E end.
Ltac rdp R C H := match goal with |- context [arun (rd_addr ?x PREV ?kk) ?ss] =>
  let E := fresh "E" in let I := fresh "I" in
  destruct (st_rd_prev _ _ ss _ x kk R C H) as [E I]; rewrite E; clear E end.
Ltac wrn R C Hx Hy := match goal with |- context [arun (wr ?x NEXT (FAddr ?y) ?kk) ?ss] =>
  let s' := fresh "s" in let E := fresh "E" in let R' := fresh "R" in let C' := fresh "C" in
  destruct (st_wr_next _ _ ss _ x y kk R C Hx Hy) as [s' [E [R' C']]]; rewrite E; clear E end.
Ltac wrp R C Hx Hy := match goal with |- context [arun (wr ?x PREV (FAddr ?y) ?kk) ?ss] =>
  let s' := fresh "s" in let E := fresh "E" in let R' := fresh "R" in let C' := fresh "C" in
  destruct (st_wr_prev _ _ ss _ x y kk R C Hx Hy) as [s' [E [R' C']]]; rewrite E; clear E end.
Ltac wrk R C Hx o := match goal with |- context [arun (wr ?x KEY _ ?kk) ?ss] =>
  let s' := fresh "s" in let E := fresh "E" in let R' := fresh "R" in let C' := fresh "C" in
  destruct (st_wr_key _ _ ss _ x o kk R C Hx) as [s' [E [R' C']]]; simpl key_fv in E; rewrite E; clear E end.
Ltac wrv R C Hx o := match goal with |- context [arun (wr ?x VALUE _ ?kk) ?ss] =>
  let s' := fresh "s" in let E := fresh "E" in let R' := fresh "R" in let C' := fresh "C" in
  destruct (st_wr_val _ _ ss _ x o kk R C Hx) as [s' [E [R' C']]]; simpl val_fv in E; rewrite E; clear E end.
Ltac anc R := match goal with |- context [arun (anchor_get ?kk) ?ss] =>
  rewrite (st_anchor _ ss _ kk R) end.
Ltac spl R C Hn := match goal with |- context [arun (splice_out ?n ?kk) ?ss] =>
  let s' := fresh "s" in let E := fresh "E" in let R' := fresh "R" in let C' := fresh "C" in
  destruct (st_splice _ _ ss _ n kk R C Hn) as [s' [E [R' C']]]; rewrite E; clear E end.

(* ---- lookup table / anchor / allocation steps ---------------------------------------------------- *)
Lemma st_lkset {A} st S s pr key n (k : P (res A)) :
  SR s st pr -> Closed pr S -> In n S ->
  let pr' := P2.mkPR (P2.pr_heap pr) (P2.pr_anchor pr) (d_set (P2.pr_lookup pr) key n) (P2.pr_fresh pr) in
  exists s', arun (do_ (ALkSet key n) k) s = arun k s' /\ SR s' st pr' /\ Closed pr' S.
Proof.
  intros R C Hn pr'. eexists. split; [unfold do_; rewrite arun_act; reflexivity|]. split.
  - constructor; simpl; try apply R. now rewrite (sr_lookup _ _ _ R).
  - constructor; simpl; try apply C. apply forall_dset; [apply C|]. intro. exact Hn.
Qed.

Lemma st_anchor_set {A} st S s pr a (k : P (res A)) :
  SR s st pr -> Closed pr S -> In a S ->
  let pr' := P2.mkPR (P2.pr_heap pr) a (P2.pr_lookup pr) (P2.pr_fresh pr) in
  exists s', arun (do_ (AAnchorSet a) k) s = arun k s' /\ SR s' st pr' /\ Closed pr' S.
Proof.
  intros R C Ha pr'. eexists. split; [unfold do_; rewrite arun_act; reflexivity|]. split.
  - constructor; simpl; try apply R. reflexivity.
  - constructor; simpl; try apply C. exact Ha.
Qed.

Lemma closed_alloc pr S p n ko vo :
  Closed pr S -> In p (P2.pr_fresh pr :: S) -> In n (P2.pr_fresh pr :: S) ->
  Closed (P2.mkPR (P2.upd (P2.pr_heap pr) (P2.pr_fresh pr) (P2.mkCell p n ko vo))
                  (P2.pr_anchor pr) (P2.pr_lookup pr) (Datatypes.S (P2.pr_fresh pr)))
         (P2.pr_fresh pr :: S).
Proof.
  intros C Hp Hn. constructor; simpl.
  - right. apply C.
  - eapply Forall_impl; [|apply C]. intros a H. now right.
  - intros x [<-|H]; [lia|]. pose proof (cl_range _ _ C _ H). lia.
  - intros x [<-|H]; unfold P2.upd.
    + rewrite Nat.eqb_refl. exact Hp.
    + pose proof (cl_range _ _ C _ H). destruct (Nat.eqb_spec x (P2.pr_fresh pr)); [lia|]. right. now apply C.
  - intros x [<-|H]; unfold P2.upd.
    + rewrite Nat.eqb_refl. exact Hn.
    + pose proof (cl_range _ _ C _ H). destruct (Nat.eqb_spec x (P2.pr_fresh pr)); [lia|]. right. now apply C.
Qed.

Lemma sr_alloc st s pr d :
  SR s st pr ->
  SR (mkShared (heap s ++ [enc d]) (anchor s) (lookup s) (store s)) st
     (P2.mkPR (P2.upd (P2.pr_heap pr) (P2.pr_fresh pr) d) (P2.pr_anchor pr) (P2.pr_lookup pr)
              (Datatypes.S (P2.pr_fresh pr))).
Proof.
  intro R. constructor; simpl; try apply R. rewrite (sr_heap _ _ _ R). apply heap_of_alloc.
Qed.

Lemma sr_len st s pr : SR s st pr -> length (heap s) = P2.pr_fresh pr.
Proof. intro R. rewrite (sr_heap _ _ _ R). apply heap_of_length. Qed.

(* _set_key_and_add_to_front_of_ll *)
Lemma add_sim st S s pr key value :
  SR s st pr -> Closed pr S ->
  exists s', arun (set_key_and_add_to_front key value) s = (s', Ok tt)
             /\ SR s' st (P2.p_add_to_front pr key value)
             /\ Closed (P2.p_add_to_front pr key value) (P2.pr_fresh pr :: S).
Proof.
  intros R C. unfold set_key_and_add_to_front, P2.p_add_to_front.
  anc R. pose proof (cl_anchor _ _ C) as Ha. rdp R C Ha.
  rewrite arun_act. unfold sem at 1. rewrite (sr_len _ _ _ R). cbn beta iota.
  pose proof (sr_alloc st s pr (P2.mkCell (P2.c_prev (P2.pr_heap pr (P2.pr_anchor pr))) (P2.pr_anchor pr)
                                          (Some key) (Some value)) R) as R1.
  assert (C1 := closed_alloc pr S (P2.c_prev (P2.pr_heap pr (P2.pr_anchor pr))) (P2.pr_anchor pr)
                             (Some key) (Some value) C (or_intror I) (or_intror Ha)).
  change (mkCell (FAddr (P2.c_prev (P2.pr_heap pr (P2.pr_anchor pr)))) (FAddr (P2.pr_anchor pr)) (FKey key) (FVal value))
    with (enc (P2.mkCell (P2.c_prev (P2.pr_heap pr (P2.pr_anchor pr))) (P2.pr_anchor pr) (Some key) (Some value))).
  set (S' := P2.pr_fresh pr :: S) in *.
  assert (Hf : In (P2.pr_fresh pr) S') by now left.
  assert (I' : In (P2.c_prev (P2.pr_heap pr (P2.pr_anchor pr))) S') by now right.
  assert (Ha' : In (P2.pr_anchor pr) S') by now right.
  wrn R1 C1 I' Hf. wrp R0 C0 Ha' Hf.
  match goal with |- context [arun (do_ (ALkSet ?k ?n) ?kk) ?ss] =>
    destruct (st_lkset st S' ss _ k n kk R2 C2 Hf) as [s3 [E3 [R3 C3]]]; rewrite E3; clear E3 end.
  eexists. split; [reflexivity|]. split; [exact R3|exact C3].
Qed.

(* _set_key_and_evict_last_in_ll (when C02's function succeeds; under Rep it does) *)
Lemma ev_sim st S s pr key value pr' e :
  SR s st pr -> Closed pr S -> P2.p_evict pr key value = Some (pr', e) ->
  exists s', arun (set_key_and_evict_last key value) s = (s', Ok (FKey e))
             /\ SR s' st pr' /\ Closed pr' S.
Proof.
  intros R C. unfold set_key_and_evict_last, P2.p_evict.
  anc R. pose proof (cl_anchor _ _ C) as Ha.
  wrk R C Ha (Some key). wrv R0 C0 Ha (Some value).
  rdn R1 C1 Ha.
  match goal with |- context [arun (do_ (AAnchorSet ?a) ?kk) ?ss] =>
    destruct (st_anchor_set st S ss _ a kk R1 C1 I) as [s2 [E2 [R2 C2]]]; rewrite E2; clear E2 end.
  simpl P2.pr_heap in *.
  match goal with |- context [arun (rd ?x KEY ?kk) ?ss] =>
    rewrite (st_rd_key st S ss _ x kk R2 C2 I) end.
  simpl P2.pr_heap.
  set (h2 := P2.set_val (P2.set_key (P2.pr_heap pr) (P2.pr_anchor pr) (Some key)) (P2.pr_anchor pr) (Some value)) in *.
  set (a' := P2.c_next (h2 (P2.pr_anchor pr))) in *.
  wrk R2 C2 I (@None K). wrv R3 C3 I (@None V).
  simpl P2.pr_heap in *.
  destruct (P2.c_key (h2 a')) as [ev|] eqn:EK; [|discriminate].
  simpl key_fv.
  destruct (d_mem (P2.pr_lookup pr) ev) eqn:DM; [|discriminate].
  intro H. inversion H; subst pr' e. clear H.
  unfold do_ at 1. rewrite arun_act. unfold sem at 1.
  rewrite (sr_lookup _ _ _ R4). simpl P2.pr_lookup.
  unfold d_mem in DM. unfold P2.id, addr in *.
  change (match d_get (P2.pr_lookup pr) ev with Some _ => true | None => false end = true) in DM.
  match goal with |- context [match ?X with Some _ => (_, XUnit) | None => _ end] =>
    change X with (d_get (P2.pr_lookup pr) ev) end.
  destruct (d_get (P2.pr_lookup pr) ev) eqn:DG; [|discriminate].
  cbn beta iota.
  match goal with |- context [arun (do_ (ALkSet ?k ?n) ?kk) ?ss] =>
    assert (R5 : SR ss st (P2.mkPR (P2.set_val (P2.set_key h2 a' None) a' None) a'
                                    (d_del (P2.pr_lookup pr) ev) (P2.pr_fresh pr)))
  end.
  { constructor; simpl; try apply R4. reflexivity. }
  assert (C5 : Closed (P2.mkPR (P2.set_val (P2.set_key h2 a' None) a' None) a'
                               (d_del (P2.pr_lookup pr) ev) (P2.pr_fresh pr)) S).
  { constructor; simpl; try apply C4. apply forall_ddel. apply C. }
  match goal with |- context [arun (do_ (ALkSet ?k ?n) ?kk) ?ss] =>
    destruct (st_lkset st S ss _ k n kk R5 C5 Ha) as [s6 [E6 [R6 C6]]]; rewrite E6; clear E6 end.
  eexists. split; [reflexivity|]. split; [exact R6|exact C6].
Qed.

Lemma sem_lkpop st s pr key : SR s st pr ->
  sem (ALkPop key) s = match d_get (P2.pr_lookup pr) key with
                       | Some x => (mkShared (heap s) (anchor s) (d_del (P2.pr_lookup pr) key) (store s), XAddr x)
                       | None => (s, XKeyError)
                       end.
Proof. intro R. unfold sem. rewrite (sr_lookup _ _ _ R). reflexivity. Qed.

(* _remove_from_ll *)
Lemma rm_sim st S s pr key :
  SR s st pr -> Closed pr S ->
  match P2.p_remove pr key with
  | Some pr' => exists s', arun (remove_from_ll key) s = (s', Ok tt) /\ SR s' st pr' /\ Closed pr' S
  | None => arun (remove_from_ll key) s = (s, Raise KeyError)
  end.
Proof.
  intros R C. unfold P2.p_remove, remove_from_ll.
  rewrite arun_act, (sem_lkpop _ _ _ _ R).
  destruct (d_get (P2.pr_lookup pr) key) as [link|] eqn:G; [|reflexivity].
  cbn beta iota.
  pose proof (cl_lookup_get _ _ _ _ C G) as Hn.
  match goal with |- context [arun (splice_out _ _) ?ss] =>
    assert (R0 : SR ss st (P2.mkPR (P2.pr_heap pr) (P2.pr_anchor pr) (d_del (P2.pr_lookup pr) key) (P2.pr_fresh pr)))
      by (constructor; simpl; try apply R; reflexivity) end.
  assert (C0 : Closed (P2.mkPR (P2.pr_heap pr) (P2.pr_anchor pr) (d_del (P2.pr_lookup pr) key) (P2.pr_fresh pr)) S)
    by (constructor; simpl; try apply C; apply forall_ddel; apply C).
  spl R0 C0 Hn.
  eexists. split; [reflexivity|]. split; [exact R1|exact C1].
Qed.

(* _init_ll *)
Lemma init_sim st s pr :
  SR s st pr ->
  exists s', arun init_ll s = (s', Ok tt)
             /\ SR s' st (P2.p_init (P2.pr_heap pr) (P2.pr_fresh pr))
             /\ Closed (P2.p_init (P2.pr_heap pr) (P2.pr_fresh pr)) [P2.pr_fresh pr].
Proof.
  intro R. unfold init_ll, P2.p_init, do_.
  rewrite arun_act. unfold sem at 1. rewrite (sr_len _ _ _ R). cbn beta iota.
  rewrite arun_act. unfold sem at 1. cbn beta iota.
  rewrite arun_act. unfold sem at 1. cbn beta iota.
  eexists. split; [reflexivity|]. split.
  - constructor; simpl; try reflexivity; [|apply R].
    rewrite (sr_heap _ _ _ R).
    change (mkCell (FAddr (P2.pr_fresh pr)) (FAddr (P2.pr_fresh pr)) FMissing FMissing)
      with (enc (P2.mkCell (P2.pr_fresh pr) (P2.pr_fresh pr) None None)).
    apply heap_of_alloc.
  - constructor; simpl.
    + now left.
    + constructor.
    + intros x [<-|[]]. lia.
    + intros x [<-|[]]. unfold P2.upd. rewrite Nat.eqb_refl. now left.
    + intros x [<-|[]]. unfold P2.upd. rewrite Nat.eqb_refl. now left.
Qed.

(* link[VALUE] of a link of the table *)
Lemma rv_sim st S s pr n :
  SR s st pr -> Closed pr S -> In n S ->
  arun (read_value n) s = (s, match P2.c_val (P2.pr_heap pr n) with Some v => Ok v | None => Raise crash end).
Proof.
  intros R C H. unfold read_value. rewrite (st_rd_val st S s pr n _ R C H).
  destruct (P2.c_val (P2.pr_heap pr n)); reflexivity.
Qed.
