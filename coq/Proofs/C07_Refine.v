(* Capstone: for all well-formed inputs (as URL objects), the observation the
   model produces satisfies EXACTLY the predicate the correspondence run
   evaluates on the implementation's observation (Check.c07_holds).  So on every
   case where the run finds model = implementation (agree), the theorem speaks
   about the code. *)
From Boltons Require Import Lib.Prelude Lib.C07_Str Spec.C07_Spec Gen.C07_Gen Model.C07_Model
     Check.C07_Check Proofs.C07_StrLemmas Proofs.C07_Rds Proofs.C07_Resolve Proofs.C07_Parse
     Proofs.C07_Navigate Proofs.C07_Text Proofs.C07_Query.
Open Scope N_scope.

(* ---- split inverts the rendering of a rooted path ---------------------------------------- *)
Lemma split_app_slash s t : noslash s -> split SL (s ++ SL :: t) = s :: split SL t.
Proof.
  induction s as [|c s IH]; intro H.
  - reflexivity.
  - apply noslash_cons in H as [Hc Hs]. cbn [app split]. apply N.eqb_neq in Hc. rewrite Hc, (IH Hs).
    reflexivity.
Qed.

Lemma split_noslash s : noslash s -> split SL s = [s].
Proof.
  induction s as [|c s IH]; intro H; [reflexivity|].
  apply noslash_cons in H as [Hc Hs]. cbn [split]. apply N.eqb_neq in Hc. rewrite Hc, (IH Hs). reflexivity.
Qed.

Lemma split_seg_abs rest : forall s, noslash s -> Forall noslash rest ->
  split SL (s ++ abs_path rest) = s :: rest.
Proof.
  induction rest as [|r rest IH]; intros s Hs Hr.
  - cbn [abs_path map concat]. rewrite app_nil_r. apply split_noslash, Hs.
  - inversion Hr; subst. rewrite abs_path_cons, (split_app_slash s _ Hs), IH by assumption. reflexivity.
Qed.

Lemma split_abs_path segs : Forall noslash segs -> split SL (abs_path segs) = [] :: segs.
Proof. intro H. exact (split_seg_abs segs [] eq_refl H). Qed.

(* ---- the individual clauses of c07_holds ------------------------------------------------------ *)
Lemma base_text_parse b : wf_base b ->
  exists segs, u_path b = [] :: segs /\ Forall seg_ok segs /\
    parse (to_text b) = mkUri (Some (u_scheme b)) (Some (authority_text b)) (abs_path segs)
                              (opt (query_text (u_query b))) (opt (u_frag b)).
Proof.
  intro W. destruct (base_facts b W) as (segs & Hp & Hs & Hu & T & U).
  exists segs. split; [exact Hp|]. split; [exact Hs|]. rewrite T, (parse_recompose _ U). exact Hu.
Qed.

Lemma base_in_domain_wf b : wf_base b -> base_in_domain (to_text b) = true.
Proof.
  intro W. destruct (base_text_parse b W) as (segs & _ & _ & P). unfold base_in_domain. rewrite P.
  cbn [scheme authority path]. pose proof (wb_scheme_ne b W) as Hs. pose proof (authority_nonempty b (wb_host_ne b W)) as Ha.
  destruct (u_scheme b); [contradiction|]. rewrite Ha. reflexivity.
Qed.

Lemma ref_in_domain_wf d : wf_ref d \/ wf_base d -> ref_in_domain (to_text d) = true.
Proof.
  intros [W|W]; unfold ref_in_domain.
  - destruct (ref_facts d W) as (Hu & T & U). rewrite T, (parse_recompose _ U), Hu. reflexivity.
  - destruct (base_text_parse d W) as (segs & _ & _ & P). rewrite P. cbn [scheme authority].
    pose proof (authority_nonempty d (wb_host_ne d W)) as Ha.
    destruct (authority_text d); [discriminate|reflexivity].
Qed.

Lemma spec_clean_wf n : wf_base n -> Forall clean (u_path n) -> spec_clean (to_text n) = true.
Proof.
  intros W Hc. destruct (base_text_parse n W) as (segs & Hp & Hs & P). unfold spec_clean. rewrite P.
  cbn [path]. destruct segs as [|s rest]; [reflexivity|].
  rewrite split_abs_path by (eapply Forall_impl; [|exact Hs]; apply seg_ok_noslash).
  rewrite abs_path_cons. change (SL =? SL) with true. cbn [andb]. apply negb_true_iff.
  rewrite Hp in Hc. clear -Hc. apply not_true_is_false. intro E.
  apply existsb_exists in E as (x & Hx & Ex). rewrite Forall_forall in Hc. rewrite (Hc x Hx) in Ex. discriminate.
Qed.

Lemma navigate_url_clean b d : wf_base b -> wf_ref d \/ wf_base d -> Forall clean (u_path (navigate_url b d)).
Proof.
  intros Wb [W|W]; unfold navigate_url.
  - rewrite (wf_ref_relative d W). destruct (base_facts b Wb) as (segs & Hp & _).
    rewrite (navigate_rel_eq b d segs Wb W Hp). cbn [u_path]. apply resolve_clean.
  - rewrite (wf_base_absolute d W). unfold normalize. cbn [u_path]. apply resolve_clean.
Qed.

Lemma navigate_url_target b d : wf_base b -> wf_ref d \/ wf_base d ->
  target (to_text b) (to_text d) = Some (canon (to_text (navigate_url b d))).
Proof.
  intros Wb Wd. pose proof (navigate_url_refines_rfc_strict b d Wb Wd) as H. unfold spec_navigate_strict in H.
  destruct (target (to_text b) (to_text d)) as [t|]; [|discriminate].
  apply str_eqb_eq in H. congruence.
Qed.

Lemma navigate_url_rootify u d : wf_base u -> wf_ref d \/ wf_base d ->
  canon (to_text (navigate_url (rootify u) d)) = canon (to_text (navigate_url u d)).
Proof.
  intros W [Wd|Wd]; unfold navigate_url.
  - rewrite (wf_ref_relative d Wd). apply navigate_rootify; assumption.
  - rewrite (wf_base_absolute d Wd). reflexivity.
Qed.

Theorem navigate_url_chain b d1 d2 : wf_base b -> wf_ref d1 \/ wf_base d1 -> wf_ref d2 \/ wf_base d2 ->
  spec_chain (to_text b) (to_text d1) (to_text d2)
             (to_text (navigate_url (navigate_url b d1) d2)) = true.
Proof.
  intros Wb W1 W2. pose proof (navigate_url_wf b d1 Wb W1) as Wn1.
  unfold spec_chain. rewrite (navigate_url_target b d1 Wb W1), <- (rootify_text _ Wn1).
  unfold spec_navigate. rewrite (navigate_url_target _ d2 (rootify_wf _ Wn1) W2).
  rewrite (navigate_url_rootify _ d2 Wn1 W2). apply str_eqb_refl.
Qed.

(* the pair list after the second navigation *)
Lemma navigate_url_result_query_rootify u d : wf_base u -> wf_ref d \/ wf_base d ->
  query (parse (to_text (navigate_url u d))) = query (parse (to_text (navigate_url (rootify u) d))).
Proof.
  intros W [Wd|Wd]; unfold navigate_url.
  - rewrite (wf_ref_relative d Wd), (nav_result_query u d W Wd),
      (nav_result_query _ d (rootify_wf u W) Wd), nav_query_rootify. reflexivity.
  - rewrite (wf_base_absolute d Wd). reflexivity.
Qed.

Lemma query_second_step n1 d2 : wf_base n1 -> wf_ref d2 \/ wf_base d2 ->
  spec_query (to_text (rootify n1)) (to_text d2) (to_text (navigate_url n1 d2)) = true.
Proof.
  intros Wn1 W2.
  pose proof (rootify_wf _ Wn1) as Wr. destruct (base_facts _ Wr) as (_ & _ & _ & _ & Tr & Ur).
  apply (spec_query_step _ (uri_of (rootify n1)) (rootify n1) d2);
    [rewrite Tr; apply (parse_recompose _ Ur) | exact Wr | | exact W2 | apply navigate_url_result_query_rootify; assumption].
  intro Wd. exists (uri_of (navigate_rel (rootify n1) d2)). split; [apply nav_transform; assumption|].
  apply nav_uri_query; assumption.
Qed.

Theorem navigate_url_query_chain b d1 d2 : wf_base b -> wf_ref d1 \/ wf_base d1 -> wf_ref d2 \/ wf_base d2 ->
  spec_query_chain (to_text b) (to_text d1) (to_text d2)
                   (to_text (navigate_url (navigate_url b d1) d2)) = true.
Proof.
  intros Wb W1 W2. pose proof (navigate_url_wf b d1 Wb W1) as Wn1.
  unfold spec_query_chain. rewrite (navigate_url_target b d1 Wb W1), <- (rootify_text _ Wn1).
  apply query_second_step; assumption.
Qed.

Theorem normalize_spec b : wf_base b ->
  spec_normalized (to_text b) (to_text (normalize b)) (to_text (normalize (normalize b))) = true.
Proof.
  intro W. unfold spec_normalized. rewrite normalize_idem, str_eqb_refl. cbn [andb].
  destruct (base_text_parse b W) as (segs & Hp & Hs & P). rewrite P. cbn [scheme authority path query fragment].
  rewrite (rds_abs_path segs Hs).
  pose proof (normalize_wf b W) as Wn. destruct (base_facts _ Wn) as (_ & _ & _ & _ & Tn & Un).
  rewrite Tn, (canon_recompose _ Un), (normalize_uri b segs W Hp).
  assert (NC : forall p, norm_case (root_if_empty
              (mkUri (Some (u_scheme b)) (Some (authority_text b)) p
                     (opt (query_text (u_query b))) (opt (u_frag b)))) =
            root_if_empty (mkUri (Some (u_scheme b)) (Some (authority_text b)) p
                     (opt (query_text (u_query b))) (opt (u_frag b)))).
  { intro p. destruct p; unfold root_if_empty, norm_case; cbn [scheme authority path query fragment option_map];
      rewrite (wb_scheme_lower b W), (wb_auth_lower b W); reflexivity. }
  rewrite NC. apply str_eqb_refl.
Qed.

(* ---- the observation of the model on URL objects, and the capstone ------------------------- *)
Definition record_obs (b d1 d2 : url) : c07_obs :=
  let n1 := navigate_url b d1 in
  let n2 := navigate_url n1 d2 in
  let nb := normalize b in
  let nr := normalize d1 in
  mkObs (to_text b) (to_text n1) (to_text n1) (to_text b) (to_text n2)
        (to_text nb) (to_text (normalize nb)) (to_text nr) (to_text (normalize nr)) (to_text d1) (to_text d2) (u_path n1) (u_path n2) (u_query n1) (u_query n2).

Theorem model_observation_satisfies_spec b d1 d2 f1 f2 :
  wf_base b -> wf_ref d1 \/ wf_base d1 -> wf_ref d2 \/ wf_base d2 ->
  c07_holds (mkCase (to_text b) false (to_text d1) f1 (to_text d2) f2 (record_obs b d1 d2)) = true.
Proof.
  intros Wb W1 W2. pose proof (navigate_url_wf b d1 Wb W1) as Wn1.
  pose proof (navigate_url_wf _ d2 Wn1 W2) as Wn2.
  unfold c07_holds, record_obs. cbv zeta.
  cbn [c_obs c_ref1 c_ref2 o_before o_nav1 o_nav1_again o_after o_nav2 o_nb1 o_nb2 o_nr1 o_nr2 o_ref1 o_ref2].
  rewrite (base_in_domain_wf b Wb), (ref_in_domain_wf d1 W1), (ref_in_domain_wf d2 W2).
  rewrite (navigate_url_refines_rfc b d1 Wb W1), (navigate_url_query b d1 Wb W1).
  rewrite (spec_clean_wf _ Wn1 (navigate_url_clean b d1 Wb W1)).
  rewrite !str_eqb_refl.
  rewrite (navigate_url_chain b d1 d2 Wb W1 W2), (navigate_url_query_chain b d1 d2 Wb W1 W2).
  rewrite (spec_clean_wf _ Wn2 (navigate_url_clean _ d2 Wn1 W2)).
  rewrite (normalize_spec b Wb), normalize_idem, str_eqb_refl. reflexivity.
Qed.

(* the model run on the texts of these objects IS record_obs, provided the
   texts are parsed back to the objects they were printed from *)
Theorem c07_model_on_texts b d1 d2 f1 f2 o :
  url_of_text (to_text b) = Some b -> url_of_text (to_text d1) = Some d1 ->
  url_of_text (to_text d2) = Some d2 ->
  c07_model (mkCase (to_text b) false (to_text d1) f1 (to_text d2) f2 o) = Some (record_obs b d1 d2).
Proof.
  intros Hb H1 H2. unfold c07_model. cbn [c_base c_unrooted c_ref1 c_ref2 c_as_url1 c_as_url2].
  rewrite Hb, H1, H2, (navigate_normal_form b _ d1 f1 H1 eq_refl).
  rewrite (navigate_normal_form _ _ d2 f2 H2 eq_refl). destruct f1, f2; reflexivity.
Qed.
