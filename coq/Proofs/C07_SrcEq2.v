(* (T) The Gallina text regenerated on every run from the current source of
   URL.normalize and URL.navigate (Gen/C07_Src2.v, harness/translators/c07_src2.py)
   is the model the theorems are about. *)
From Boltons Require Import Lib.Prelude Lib.PySrc Lib.C07_Str Spec.C07_Spec Gen.C07_Gen Gen.C07_Src2
     Model.C07_Model Proofs.C07_StrLemmas.
Open Scope N_scope.

Theorem src_normalize_eq u : src_normalize u true = normalize u.
Proof. destruct u. reflexivity. Qed.

(* with_case=False: only the path is resolved *)
Theorem src_normalize_nocase u :
  src_normalize u false =
  mkUrl (u_scheme u) (u_sep u) (u_user u) (u_pass u) (u_host u) (u_port u)
        (resolve_path_parts (u_path u)) (u_query u) (u_frag u).
Proof. destruct u. reflexivity. Qed.

Lemma first1_is_empty (l : list str) : strs_eqb (py_first1 l) [[]] = first_is_empty l.
Proof.
  destruct l as [|x r]; [reflexivity|]. unfold py_first1, strs_eqb, first_is_empty. cbn [firstn list_eqb].
  rewrite andb_true_r. destruct x; reflexivity.
Qed.

(* the body of navigate after its str/URL dispatch: dest is a URL object,
   orig_is_none says it was passed as one, dest_copy is the value of URL(dest) *)
Theorem src_navigate_core_eq self dest orig_is_none dest_copy :
  src_navigate_core self dest orig_is_none dest_copy =
  if is_absolute_dest dest then normalize (if orig_is_none then dest_copy else dest)
  else navigate_rel self dest.
Proof.
  unfold src_navigate_core, is_absolute_dest. cbv zeta.
  destruct (nonempty (u_scheme dest) && nonempty (u_host dest)).
  - cbv iota beta. apply src_normalize_eq.
  - cbv iota beta. unfold navigate_rel. cbv zeta.
    destruct (nonempty (path_text dest)).
    + destruct (starts_with [SL] (path_text dest)); cbv iota beta;
        rewrite first1_is_empty, src_normalize_eq;
        destruct ((nonempty (u_host dest) || nonempty (u_host self)) && _); reflexivity.
    + rewrite <- is_nil_nonempty. destruct (is_nil (u_query dest)); cbv iota beta;
        rewrite first1_is_empty, src_normalize_eq;
        destruct ((nonempty (u_host dest) || nonempty (u_host self)) && _); reflexivity.
Qed.

(* ... and Model.navigate is exactly that body behind the dispatch (dest_copy, the value of
   URL(dest.to_text(full_quote=True)), modelled as dest itself) *)
Theorem navigate_is_dispatch_then_core self t as_url :
  navigate self t as_url =
  match url_of_text t with
  | None => None
  | Some dest => Some (src_navigate_core self dest as_url dest)
  end.
Proof.
  unfold navigate. destruct (url_of_text t) as [dest|]; [|reflexivity].
  rewrite src_navigate_core_eq. destruct (is_absolute_dest dest); [destruct as_url|]; reflexivity.
Qed.

(* URL.from_parts as it is in the source now: starting from cls() - the URL of
   the empty text - it builds the model's from_parts *)
Definition url0 : url := mkUrl [] false [] [] [] None [[]] [] [].

Theorem src_from_parts_eq s h p q f po us pw :
  url_of_text [] = Some url0 /\
  src_from_parts url0 s h p q f po us pw = from_parts s h p q f po us pw.
Proof.
  split; [reflexivity|]. unfold src_from_parts, from_parts, url0, py_or_list, py_omd_update.
  cbn. destruct p; reflexivity.
Qed.
