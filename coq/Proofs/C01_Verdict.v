(* C01: on well-formed cases the checker's two bits coincide (holds => agree). *)
From Boltons Require Import Lib.Prelude Spec.C01_Spec Model.C01_Model Model.C01_Ptr Model.C01_PModel Check.C01_Check
  Proofs.C01_Base Proofs.C01_Refine Proofs.C01_Main Proofs.C01_PSimDefs Proofs.C01_PSim1 Proofs.C01_PSim2 Proofs.C01_PSim3.

Definition wf_case (c : c01_case) : Prop := Forall (fun s => match s with St _ o _ _ => wf_op o = true end) c.

(* list-level model: on a well-formed case the model accepts what the reference accepts *)
Lemma holds_implies_model : forall c st, Inv2 st -> wf_case c ->
  walk_spec (abs2 st) c = true -> walk_model st c = true.
Proof.
  induction c as [|[reg o r snap] rest IH]; intros st Hst Hwfc H; [reflexivity|].
  inversion Hwfc as [|x y Hwf Hwr]; subst.
  destruct (m_step2_refines st reg o Hst Hwf) as [Hi Hs].
  cbn [walk_spec] in H. rewrite Hs in H.
  cbn [walk_model]. destruct (m_step2 st reg o) as [st' x] eqn:E. cbn [fst snd] in *.
  apply andb_true_iff in H as [H Hrest]. apply andb_true_iff in H as [Hres Hsnap].
  destruct Hi as [Hi0 Hi1].
  unfold abs2 in Hsnap. cbn [fst snd] in Hsnap.
  rewrite <- (view_correct _ (proj1 Hi0)), <- (view_correct _ (proj1 Hi1)) in Hsnap.
  rewrite Hwf, Hres, Hsnap. cbn [andb].
  apply (IH st' (conj Hi0 Hi1) Hwr Hrest).
Qed.

(* the pointer-level walk equals the list-level walk without its wf test *)
Lemma pmodel_walk_eq : forall c st, Good2 st -> wf_case c ->
  walk_pmodel st c = walk_model (lift2 st) c.
Proof.
  induction c as [|[reg o r snap] rest IH]; intros st Hst Hwfc; [reflexivity|].
  inversion Hwfc as [|x y Hwf Hwr]; subst.
  cbn [walk_pmodel walk_model].
  destruct (sim_step2 st reg o Hst) as [G [L R]].
  destruct (pm_step2 st reg o) as [st' x], (m_step2 (lift2 st) reg o) as [s' x'].
  cbn [fst snd] in *. subst. rewrite Hwf, (IH st' G Hwr), !sim_view. reflexivity.
Qed.

Theorem verdict_holds_implies_agree : forall c, wf_case c ->
  snd (fst (c01_verdict c)) = true -> fst (fst (c01_verdict c)) = true.
Proof.
  intros c Hwf H. unfold c01_verdict in *. cbn [fst snd] in *.
  assert (Hm : walk_model (m_empty, m_empty) c = true).
  { apply (holds_implies_model c (m_empty, m_empty) Inv2_init Hwf). exact H. }
  apply andb_true_iff. split; [exact Hm|].
  rewrite (pmodel_walk_eq c (pm_empty, pm_empty)); [| split; apply good_empty | exact Hwf].
  unfold lift2. cbn [fst snd]. rewrite (proj2 good_empty). exact Hm.
Qed.

(* hence on well-formed cases the two bits coincide *)
Theorem verdict_agree_iff_holds : forall c, wf_case c ->
  (fst (fst (c01_verdict c)) = true <-> snd (fst (c01_verdict c)) = true).
Proof.
  intros c Hwf. split.
  - apply verdict_agree_implies_holds.
  - apply verdict_holds_implies_agree. exact Hwf.
Qed.

Print Assumptions verdict_agree_iff_holds.
