(* C05: first theorems about refusals and the recorded open finding. *)
From Boltons Require Import Lib.Prelude Model.C04_Model Spec.C04_Spec Check.C04_Check Spec.C05_Spec Check.C05_Check.
Open Scope N_scope.

(* overwrite=False and the destination exists at entry: EEXIST before anything is touched
   (no event is issued, the world is returned as it was) *)
Lemma refuse_lemma c ops raises s0 umask crash sched j :
  c_overwrite c = false -> f_dir s0 (c_dest c) = Some j ->
  run_save c ops raises s0 umask crash sched =
  (Exc (OSErr EEXIST), init_world s0 umask (c_dest c) crash sched).
Proof.
  intros Ho Hd. unfold run_save, save, setup, bind, lexists. cbn. rewrite Hd, Ho. reflexivity.
Qed.

(* the open finding: link succeeds, the following unlink fails *)
Definition refuted_cfg : cfg := mkCfg false false true None false 0%nat 1%nat.
Definition refuted_sched : list (nat * action) := [(7%nat, AFault 5%nat)].
Definition refuted_body : list bop := [BWrite [104; 105] 0].

Lemma fault_refuted_lemma :
  let r := run_save refuted_cfg refuted_body false (fs_of_list []) 18 None refuted_sched in
  fst r = Exc (OSErr 5%nat) /\
  content_kill (fs_of_list []) 0%nat = None /\
  content_kill (w_fs (snd r)) 0%nat = Some [104; 105] /\
  link_then_unlink_failed (w_trace (snd r)) = true.
Proof. vm_compute. repeat split; reflexivity. Qed.
