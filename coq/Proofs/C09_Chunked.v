(* C09: chunked / chunked_iter — conservation of elements and chunk sizes. *)
From Boltons Require Import Lib.Prelude Spec.C09_Spec Model.C09_Model.

(* ---- arithmetic of the padding -------------------------------------------- *)
Lemma pad_amount_ge n len : 1 <= n -> n <= len -> pad_amount n len = pad_amount n (len - n).
Proof.
  intros Hn Hl. unfold pad_amount.
  replace (len mod n) with ((len - n) mod n); [reflexivity|].
  replace len with ((len - n) + 1 * n) at 2 by lia.
  rewrite Nat.mod_add by lia. reflexivity.
Qed.

Lemma pad_amount_small n len : 1 <= len -> len < n -> pad_amount n len = n - len.
Proof.
  intros H1 H2. unfold pad_amount. rewrite (Nat.mod_small len n) by lia.
  apply Nat.mod_small. lia.
Qed.

Lemma pad_amount_0 n : 1 <= n -> pad_amount n 0 = 0.
Proof.
  intro H. unfold pad_amount. rewrite Nat.mod_0_l by lia. rewrite Nat.sub_0_r.
  apply Nat.mod_same. lia.
Qed.

Lemma pad_amount_lt n len : 1 <= n -> pad_amount n len < n.
Proof. intro H. unfold pad_amount. apply Nat.mod_upper_bound. lia. Qed.

Lemma pad_amount_multiple n len : 1 <= n -> (len + pad_amount n len) mod n = 0.
Proof.
  intro H. unfold pad_amount.
  pose proof (Nat.mod_upper_bound len n ltac:(lia)) as Hr.
  pose proof (Nat.div_mod len n ltac:(lia)) as Hd.
  destruct (Nat.eq_dec (len mod n) 0) as [E|E].
  - rewrite E, Nat.sub_0_r, Nat.mod_same, Nat.add_0_r by lia. exact E.
  - rewrite (Nat.mod_small (n - len mod n) n) by lia.
    replace (len + (n - len mod n)) with (0 + (len / n + 1) * n) by nia.
    rewrite Nat.mod_add by lia. apply Nat.mod_0_l. lia.
Qed.

(* ---- the target of a non-empty input splits after the first chunk ---------- *)
Lemma chunk_target_ge n fill l :
  1 <= n -> n <= length l ->
  chunk_target n fill l = firstn n l ++ chunk_target n fill (skipn n l).
Proof.
  intros Hn Hl. destruct fill as [f|]; cbn [chunk_target].
  - rewrite skipn_length, <- pad_amount_ge by lia.
    rewrite app_assoc, firstn_skipn. reflexivity.
  - symmetry. apply firstn_skipn.
Qed.

Lemma chunk_target_nil n fill : 1 <= n -> chunk_target n fill [] = [].
Proof.
  intro H. destruct fill; cbn [chunk_target length app]; [|reflexivity].
  rewrite pad_amount_0 by lia. reflexivity.
Qed.

(* ---- the loop --------------------------------------------------------------- *)
Lemma chunk_loop_nil fuel n fill : chunk_loop (S fuel) n fill [] = Some [].
Proof. cbn [chunk_loop]. rewrite firstn_nil. reflexivity. Qed.

(* main invariant: with enough fuel the loop terminates normally; the
   concatenation of its output is the (padded) input; all chunks have the
   requested size except possibly a shorter last one (no fill); the output is
   empty exactly for the empty input. *)
Lemma chunk_loop_spec n fill :
  1 <= n ->
  forall fuel it, length it < fuel ->
    exists out,
      chunk_loop fuel n fill it = Some out
      /\ concat out = chunk_target n fill it
      /\ chunk_sizes_ok n out = true
      /\ (out = [] <-> it = []).
Proof.
  intro Hn. induction fuel as [|fuel IH]; intros it Hf; [lia|].
  destruct it as [|x r].
  - exists []. rewrite chunk_loop_nil, chunk_target_nil by lia.
    repeat split; reflexivity.
  - remember (x :: r) as it eqn:Eit.
    assert (Hlen : 1 <= length it) by (subst it; cbn [length]; lia).
    cbn [chunk_loop].
    destruct (firstn n it) as [|c cs] eqn:Ecur.
    { exfalso. assert (length (firstn n it) = 0) by (rewrite Ecur; reflexivity).
      rewrite firstn_length in H. lia. }
    rewrite <- Ecur.
    destruct (IH (skipn n it)) as [rest [Hrest [Hcat [Hsz Hnil]]]].
    { rewrite skipn_length. lia. }
    rewrite Hrest.
    destruct (le_lt_dec n (length it)) as [Hge|Hlt].
    + (* a full chunk *)
      assert (Hl : length (firstn n it) = n) by (rewrite firstn_length; lia).
      exists (firstn n it :: rest).
      assert (Hcur : match fill with
                     | Some f => if length (firstn n it) <? n
                                 then firstn n it ++ repeat f (n - length (firstn n it))
                                 else firstn n it
                     | None => firstn n it
                     end = firstn n it).
      { destruct fill; [|reflexivity]. rewrite Hl, Nat.ltb_irrefl. reflexivity. }
      rewrite Hcur. split; [reflexivity|]. split; [|split].
      * cbn [concat]. rewrite Hcat. symmetry. apply chunk_target_ge; lia.
      * cbn [chunk_sizes_ok]. destruct rest as [|r1 rs].
        -- rewrite Hl. apply andb_true_iff. split; apply Nat.leb_le; lia.
        -- rewrite Hl, Nat.eqb_refl. exact Hsz.
      * split; [discriminate|]. intro E. rewrite E in Hlen. cbn in Hlen. lia.
    + (* the last, short chunk *)
      assert (Hf1 : firstn n it = it) by (apply firstn_all2; lia).
      assert (Hs1 : skipn n it = []) by (apply skipn_all2; lia).
      assert (rest = []) as -> by (apply Hnil; exact Hs1).
      rewrite Hf1.
      destruct fill as [f|].
      * assert (length it <? n = true) as -> by (apply Nat.ltb_lt; lia).
        exists [it ++ repeat f (n - length it)].
        split; [reflexivity|]. split; [|split].
        -- cbn [concat chunk_target]. rewrite app_nil_r, pad_amount_small by lia. reflexivity.
        -- cbn [chunk_sizes_ok]. rewrite app_length, repeat_length.
           apply andb_true_iff. split; apply Nat.leb_le; lia.
        -- split; [discriminate|]. intro E. rewrite E in Hlen. cbn in Hlen. lia.
      * exists [it]. split; [reflexivity|]. split; [|split].
        -- cbn [concat chunk_target]. apply app_nil_r.
        -- cbn [chunk_sizes_ok]. apply andb_true_iff. split; apply Nat.leb_le; lia.
        -- split; [discriminate|]. intro E. rewrite E in Hlen. cbn in Hlen. lia.
Qed.

(* ---- public entry points ---------------------------------------------------- *)
Lemma m_chunked_iter_spec src size fill :
  (1 <= size)%Z ->
  exists out,
    m_chunked_iter src size fill = Ok out
    /\ concat out = chunk_target (Z.to_nat size) fill src
    /\ chunk_sizes_ok (Z.to_nat size) out = true.
Proof.
  intro Hs. unfold m_chunked_iter.
  assert ((size <=? 0)%Z = false) as -> by (apply Z.leb_gt; lia).
  destruct (chunk_loop_spec (Z.to_nat size) fill ltac:(lia) (S (length src)) src ltac:(lia))
    as [out [H1 [H2 [H3 _]]]].
  exists out. rewrite H1. repeat split; assumption.
Qed.

Lemma l_eqb_refl l : l_eqb l l = true.
Proof. unfold l_eqb. apply list_eqb_eq; [apply Nat.eqb_eq|reflexivity]. Qed.

Lemma l_eqb_true a b : l_eqb a b = true <-> a = b.
Proof. unfold l_eqb. apply list_eqb_eq. apply Nat.eqb_eq. Qed.

Lemma ll_eqb_true a b : ll_eqb a b = true <-> a = b.
Proof. unfold ll_eqb. apply list_eqb_eq. intros x y. apply list_eqb_eq. apply Nat.eqb_eq. Qed.

(* the model's full output passes the checker that [holds] evaluates *)
Lemma m_chunked_iter_ok src size fill :
  (1 <= size)%Z ->
  exists out, m_chunked_iter src size fill = Ok out
              /\ chunked_ok (Z.to_nat size) fill None src out = true.
Proof.
  intro Hs. destruct (m_chunked_iter_spec src size fill Hs) as [out [H1 [H2 H3]]].
  exists out. split; [exact H1|]. cbn [chunked_ok]. unfold chunked_full_ok.
  rewrite H2, l_eqb_refl, H3. reflexivity.
Qed.

(* ---- prefixes of a chunking (count) ------------------------------------------ *)
Lemma is_prefix_refl l : is_prefix l l = true.
Proof. induction l as [|x r IH]; cbn [is_prefix]; [reflexivity|]. rewrite Nat.eqb_refl. exact IH. Qed.

Lemma is_prefix_app p q : is_prefix p (p ++ q) = true.
Proof. induction p as [|x r IH]; cbn [is_prefix app]; [reflexivity|]. rewrite Nat.eqb_refl. exact IH. Qed.

Lemma concat_firstn_prefix (out : list (list K)) c :
  exists q, concat out = concat (firstn c out) ++ q.
Proof.
  exists (concat (skipn c out)). rewrite <- concat_app, firstn_skipn. reflexivity.
Qed.

Lemma chunk_sizes_full_prefix n : forall out c,
  chunk_sizes_ok n out = true -> c < length out ->
  forallb (fun ch => length ch =? n) (firstn c out) = true.
Proof.
  induction out as [|a r IH]; intros c H Hc; [cbn in Hc; lia|].
  destruct c as [|c]; [reflexivity|].
  cbn [firstn forallb]. destruct r as [|b r'].
  - cbn [length] in Hc. lia.
  - cbn [chunk_sizes_ok] in H. apply andb_true_iff in H as [Ha Hr].
    rewrite Ha. apply IH; [exact Hr|cbn [length] in *; lia].
Qed.

Lemma full_chunks_sizes_ok n out :
  1 <= n -> forallb (fun ch => length ch =? n) out = true -> chunk_sizes_ok n out = true.
Proof.
  intro Hn. induction out as [|a r IH]; intro H; [reflexivity|].
  cbn [forallb] in H. apply andb_true_iff in H as [Ha Hr]. apply Nat.eqb_eq in Ha.
  cbn [chunk_sizes_ok]. destruct r.
  - apply andb_true_iff. split; apply Nat.leb_le; lia.
  - rewrite Ha, Nat.eqb_refl. apply IH. exact Hr.
Qed.

Lemma chunked_ok_firstn n fill src out c :
  1 <= n ->
  concat out = chunk_target n fill src -> chunk_sizes_ok n out = true ->
  chunked_ok n fill (Some c) src (firstn c out) = true.
Proof.
  intros Hn Hcat Hsz. cbn [chunked_ok].
  destruct (concat_firstn_prefix out c) as [q Hq].
  destruct (le_lt_dec (length out) c) as [Hge|Hlt].
  - rewrite firstn_all2 by lia. rewrite Hcat, is_prefix_refl, Hsz, l_eqb_refl.
    assert (length out <=? c = true) as -> by (apply Nat.leb_le; lia). reflexivity.
  - pose proof (chunk_sizes_full_prefix n out c Hsz Hlt) as Hfull.
    rewrite <- Hcat, Hq, is_prefix_app.
    rewrite (full_chunks_sizes_ok n _ Hn Hfull), Hfull.
    rewrite firstn_length, Nat.min_l by lia. rewrite Nat.leb_refl, Nat.eqb_refl.
    cbn [andb]. apply orb_true_r.
Qed.

(* chunked(src, size, count, fill=...) for a valid size: the first [count]
   chunks of chunked_iter's output, and it passes the checker *)
Lemma m_chunked_spec src size count fill :
  (1 <= size)%Z ->
  exists full,
    m_chunked_iter src size fill = Ok full
    /\ m_chunked src size count fill
       = Ok (match count with None => full | Some c => firstn c full end)
    /\ chunked_ok (Z.to_nat size) fill count src
                  (match count with None => full | Some c => firstn c full end) = true.
Proof.
  intro Hs. destruct (m_chunked_iter_spec src size fill Hs) as [out [H1 [H2 H3]]].
  exists out. split; [exact H1|]. split.
  - unfold m_chunked. rewrite H1. destruct count as [[|c]|]; reflexivity.
  - destruct count as [c|].
    + apply chunked_ok_firstn; [lia|assumption|assumption].
    + cbn [chunked_ok]. unfold chunked_full_ok. rewrite H2, l_eqb_refl, H3. reflexivity.
Qed.

(* ---- the Spec determines the output: two outputs accepted by the checker are
   equal (so "agree" and "holds" can only both be true for one observation) ---- *)
Lemma chunk_sizes_unique n : 1 <= n -> forall o1 o2,
  chunk_sizes_ok n o1 = true -> chunk_sizes_ok n o2 = true ->
  concat o1 = concat o2 -> o1 = o2.
Proof.
  intro Hn. induction o1 as [|a r IH]; intros o2 H1 H2 Hc.
  - destruct o2 as [|b r2]; [reflexivity|]. exfalso.
    cbn [concat] in Hc. symmetry in Hc. apply app_eq_nil in Hc as [Hb _]. subst b.
    cbn [chunk_sizes_ok] in H2. destruct r2; cbn in H2; [discriminate|].
    destruct n; [lia|discriminate H2].
  - destruct o2 as [|b r2].
    + exfalso. cbn [concat] in Hc. apply app_eq_nil in Hc as [Ha _]. subst a.
      cbn [chunk_sizes_ok] in H1. destruct r; cbn in H1; [discriminate|].
      destruct n; [lia|discriminate H1].
    + cbn [concat] in Hc.
      (* lengths of the heads agree *)
      assert (Hab : length a = length b).
      { cbn [chunk_sizes_ok] in H1, H2.
        assert (La : 1 <= length a <= n /\ (r <> [] -> length a = n)).
        { destruct r; [apply andb_true_iff in H1 as [X Y]; apply Nat.leb_le in X, Y; split; [lia|congruence]|].
          apply andb_true_iff in H1 as [X _]. apply Nat.eqb_eq in X. split; [lia|auto]. }
        assert (Lb : 1 <= length b <= n /\ (r2 <> [] -> length b = n)).
        { destruct r2; [apply andb_true_iff in H2 as [X Y]; apply Nat.leb_le in X, Y; split; [lia|congruence]|].
          apply andb_true_iff in H2 as [X _]. apply Nat.eqb_eq in X. split; [lia|auto]. }
        assert (Hl : length (a ++ concat r) = length (b ++ concat r2)) by (rewrite Hc; reflexivity).
        rewrite !app_length in Hl.
        destruct r as [|a2 r'], r2 as [|b2 r2'].
        - cbn [concat length] in Hl. lia.
        - (* r = [] so a ends the whole; b is full *)
          destruct Lb as [Lb1 Lb2]. specialize (Lb2 ltac:(discriminate)).
          cbn [concat length] in Hl. lia.
        - destruct La as [La1 La2]. specialize (La2 ltac:(discriminate)).
          cbn [concat length] in Hl. lia.
        - destruct La as [_ La2], Lb as [_ Lb2].
          rewrite La2, Lb2 by discriminate. reflexivity. }
      assert (a = b /\ concat r = concat r2) as [-> Hr].
      { clear -Hc Hab. revert b Hab Hc. induction a as [|x a IHa]; intros [|y b] Hab Hc; cbn in Hab; try lia.
        - split; [reflexivity|exact Hc].
        - cbn [app] in Hc. injection Hc as -> Hc. destruct (IHa b ltac:(lia) Hc) as [-> ?]. split; [reflexivity|assumption]. }
      f_equal. apply IH; [| |exact Hr].
      * cbn [chunk_sizes_ok] in H1. destruct r; [reflexivity|]. apply andb_true_iff in H1 as [_ X]. exact X.
      * cbn [chunk_sizes_ok] in H2. destruct r2; [reflexivity|]. apply andb_true_iff in H2 as [_ X]. exact X.
Qed.

Lemma chunked_full_ok_unique n fill src o1 o2 :
  1 <= n ->
  chunked_full_ok n fill src o1 = true -> chunked_full_ok n fill src o2 = true -> o1 = o2.
Proof.
  intros Hn H1 H2. unfold chunked_full_ok in *.
  apply andb_true_iff in H1 as [C1 S1], H2 as [C2 S2].
  apply l_eqb_true in C1, C2. apply (chunk_sizes_unique n Hn); [assumption|assumption|congruence].
Qed.
