(* C11: the Gallina text of IndexedSet._cull regenerated from the current source
   (Gen/C11_Cull.v, by harness/translators/c11_cull.py) is the model's m_cull with
   the constants read from the source.  Branch order, conditions, comparison
   operators, constants and both `while` loops of the right-trim are part of the
   generated term, so a change of any of them breaks this proof (or the
   translation fails closed). *)
From Boltons Require Import Lib.Prelude Lib.PySrc Lib.C11_Iface Spec.C11_Spec Model.C11_Model Lib.C11_PyImp
     Gen.C11_Gen Gen.C11_Cull Proofs.C11_Lists Proofs.C11_Dead Proofs.C11_Inv.

Lemma nth_error_rev {A} (l : list A) k : k < length l -> nth_error (rev l) k = nth_error l (length l - 1 - k).
Proof.
  induction l as [|x l IH]; intros H; simpl in *; [lia|].
  destruct (Nat.lt_ge_cases k (length l)) as [L|L].
  - rewrite nth_error_app1 by (rewrite rev_length; exact L). rewrite (IH L).
    replace (length l - 0 - k) with (S (length l - 1 - k)) by lia. reflexivity.
  - assert (k = length l) by lia. subst k.
    rewrite nth_error_app2 by (rewrite rev_length; lia). rewrite rev_length, Nat.sub_diag.
    replace (length l - 0 - length l) with 0 by lia. reflexivity.
Qed.

(* l[-(k+1)] is the k-th element from the right *)
Lemma py_get_from_end {A} (l : list A) (k : nat) : py_get l (- (Z.of_nat k + 1))%Z = nth_error (rev l) k.
Proof.
  unfold py_get, zlen.
  replace (- (Z.of_nat k + 1) <? 0)%Z with true by (symmetry; apply Z.ltb_lt; lia).
  destruct (Nat.lt_ge_cases k (length l)) as [L|L].
  - replace (- (Z.of_nat k + 1) + Z.of_nat (length l) <? 0)%Z with false by (symmetry; apply Z.ltb_ge; lia).
    rewrite (nth_error_rev l k L). f_equal. lia.
  - replace (- (Z.of_nat k + 1) + Z.of_nat (length l) <? 0)%Z with true by (symmetry; apply Z.ltb_lt; lia).
    symmetry. apply nth_error_None. rewrite rev_length. exact L.
Qed.

Lemma py_is_missing_last l :
  py_is_missing l (- (1))%Z = match last l (Some 0%N) with None => true | Some _ => false end.
Proof.
  unfold py_is_missing. change (- (1))%Z with (- (Z.of_nat 0 + 1))%Z. rewrite py_get_from_end.
  destruct l as [|x l] using rev_ind; [reflexivity|].
  rewrite rev_app_distr, last_last. simpl. destruct x; reflexivity.
Qed.

(* first loop of the right-trim: count the trailing tombstones *)
Lemma count_loop (s : iset) : forall fuel k,
  leading_none (skipn k (rev (items s))) <= fuel ->
  while_fuel fuel
    (fun '(self, num_dead) => py_is_missing (items self) (- (num_dead + (1)%Z))%Z)
    (fun '(self, num_dead) => let num_dead := (num_dead + (1)%Z)%Z in (self, num_dead))
    (s, Z.of_nat k)
  = (s, Z.of_nat (k + leading_none (skipn k (rev (items s))))).
Proof.
  induction fuel as [|f IH]; intros k H.
  - simpl. replace (leading_none (skipn k (rev (items s)))) with 0 by lia. rewrite Nat.add_0_r. reflexivity.
  - cbn [while_fuel]. unfold py_is_missing at 1. rewrite py_get_from_end.
    destruct (nth_error (rev (items s)) k) as [[x|]|] eqn:E.
    + (* a live slot: stop *)
      pose proof (nth_error_skipn (rev (items s)) k 0) as Q. rewrite Nat.add_0_r, E in Q.
      destruct (skipn k (rev (items s))) as [|o t]; [discriminate|]. simpl in Q. injection Q as ->.
      simpl. rewrite Nat.add_0_r. reflexivity.
    + (* a tombstone: go on *)
      pose proof (nth_error_skipn (rev (items s)) k 0) as Q. rewrite Nat.add_0_r, E in Q.
      assert (SK : skipn k (rev (items s)) = None :: skipn (S k) (rev (items s))).
      { destruct (skipn k (rev (items s))) as [|o t] eqn:E2; [discriminate|]. simpl in Q. injection Q as ->.
        f_equal. replace (S k) with (1 + k) by lia. rewrite <- skipn_skipn', E2. reflexivity. }
      rewrite SK in *. cbn [leading_none] in H. cbn zeta.
      replace (Z.of_nat k + 1)%Z with (Z.of_nat (S k)) by lia.
      rewrite IH by lia. cbn [leading_none]. f_equal. f_equal. lia.
    + (* past the left end *)
      apply nth_error_None in E. rewrite skipn_all2 by exact E. simpl. rewrite Nat.add_0_r. reflexivity.
Qed.

(* second loop: drop the intervals that start at or beyond the new end *)
Lemma py_last_start_snoc d x : py_last_start (d ++ [x]) = Z.of_nat (fst x).
Proof.
  unfold py_last_start. change (-1)%Z with (- (Z.of_nat 0 + 1))%Z. rewrite py_get_from_end.
  rewrite rev_app_distr. reflexivity.
Qed.

Lemma drop_loop its (m : tdict nat) : forall fuel d, length d <= fuel ->
  while_fuel fuel
    (fun self => is_nonempty (dead self) && (zlen (items self) <=? py_last_start (dead self))%Z)
    (fun self => set_dead self (py_del_last (dead self)))
    (mkIS its m d)
  = mkIS its m (drop_trailing_dead d (length its)).
Proof.
  induction fuel as [|f IH]; intros d H.
  - destruct d; [reflexivity|simpl in H; lia].
  - destruct d as [|x d] using rev_ind.
    + reflexivity.
    + clear IHd. rewrite app_length in H. simpl in H.
      cbn [while_fuel dead items]. rewrite py_last_start_snoc.
      replace (is_nonempty (d ++ [x])) with true by (destruct d; reflexivity). cbn [andb].
      unfold drop_trailing_dead. rewrite rev_app_distr. cbn [rev app drop_while].
      unfold zlen. destruct (length its <=? fst x) eqn:C.
      * replace (Z.of_nat (length its) <=? Z.of_nat (fst x))%Z with true by (symmetry; apply Z.leb_le; apply Nat.leb_le in C; lia).
        cbn zeta. unfold set_dead, py_del_last. cbn [items imap dead]. rewrite removelast_last.
        rewrite IH by lia. reflexivity.
      * replace (Z.of_nat (length its) <=? Z.of_nat (fst x))%Z with false by (symmetry; apply Z.leb_gt; apply Nat.leb_gt in C; lia).
        cbn [rev]. rewrite rev_involutive. reflexivity.
Qed.

Theorem source_compact s : Inv0 s -> src_compact s = m_compact s.
Proof.
  intros H. unfold src_compact, m_compact.
  destruct (dead s) as [|ab t] eqn:D; [reflexivity|]. cbn [is_nonempty negb]. cbv zeta.
  assert (LE : length (imap s) <= length (items s)).
  { rewrite (inv_len s H). apply live_of_length_le. }
  assert (DC : dead_countZ s = Z.of_nat (dead_count s)).
  { unfold dead_countZ, dead_count, zlen. lia. }
  unfold set_items, set_imap, set_dead, py_del_tail. cbn [items imap dead]. rewrite DC.
  destruct (dead_count s =? 0) eqn:C.
  - apply Nat.eqb_eq in C. rewrite C. reflexivity.
  - apply Nat.eqb_neq in C.
    replace (Z.of_nat (dead_count s) <=? 0)%Z with false by (symmetry; apply Z.leb_gt; lia).
    rewrite Nat2Z.id. reflexivity.
Qed.

Theorem source_cull s : Inv0 s -> src_cull s = m_cull gen_cfg s.
Proof.
  intros H. unfold src_cull, m_cull. rewrite !(source_compact s H).
  destruct (dead s) as [|ab t] eqn:D; [reflexivity|]. cbn [is_nonempty negb].
  destruct (imap s) as [|kv m] eqn:M.
  - cbn [is_nonempty negb length Nat.eqb]. cbv zeta. unfold set_dead, set_items. cbn [items imap dead]. rewrite M. reflexivity.
  - cbn [is_nonempty negb]. replace (length (kv :: m) =? 0) with false by reflexivity.
    (* the literals of the generated text are the constants the translator put into gen_cfg *)
    set (lim := max_dead_intervals gen_cfg). set (fac := compaction_factor gen_cfg).
    unfold zlen at 1.
    match goal with |- context [(?z <? Z.of_nat (length (ab :: t)))%Z] =>
      assert (EZ : z = Z.of_nat lim) by reflexivity; rewrite EZ; clear EZ end.
    destruct (lim <? length (ab :: t)) eqn:C1.
    + replace (Z.of_nat lim <? Z.of_nat (length (ab :: t)))%Z with true by (symmetry; apply Z.ltb_lt; apply Nat.ltb_lt in C1; lia).
      reflexivity.
    + replace (Z.of_nat lim <? Z.of_nat (length (ab :: t)))%Z with false by (symmetry; apply Z.ltb_ge; apply Nat.ltb_ge in C1; lia).
      assert (LE : length (imap s) <= length (items s)).
      { rewrite (inv_len s H). apply live_of_length_le. }
      match goal with |- context [(dead_countZ s * ?z)%Z] =>
        assert (EZ : z = Z.of_nat fac) by reflexivity; rewrite EZ; clear EZ end.
      assert (DC : (dead_countZ s * Z.of_nat fac)%Z = Z.of_nat (fac * dead_count s)).
      { unfold dead_countZ, dead_count, zlen. nia. }
      rewrite DC. unfold zlen at 1.
      destruct (length (items s) <? fac * dead_count s) eqn:C2.
      * replace (Z.of_nat (length (items s)) <? Z.of_nat (fac * dead_count s))%Z with true
          by (symmetry; apply Z.ltb_lt; apply Nat.ltb_lt in C2; lia). reflexivity.
      * replace (Z.of_nat (length (items s)) <? Z.of_nat (fac * dead_count s))%Z with false
          by (symmetry; apply Z.ltb_ge; apply Nat.ltb_ge in C2; lia).
        rewrite py_is_missing_last.
        destruct (last (items s) (Some 0%N)) as [y|] eqn:EL; [reflexivity|].
        (* right-trim *)
        cbv zeta.
        assert (R : exists r, rev (items s) = None :: r).
        { destruct (items s) as [|o l] using rev_ind; [discriminate|]. rewrite last_last in EL. subst o.
          rewrite rev_app_distr. eexists. reflexivity. }
        destruct R as [r R].
        pose proof (count_loop s (length (items s) + length (dead s) + 1) 1) as CL.
        rewrite R in CL. cbn [skipn] in CL.
        assert (Lr : leading_none r <= length (items s)).
        { assert (length r <= length (items s)) by (rewrite <- (rev_length (items s)), R; simpl; lia).
          assert (G : forall l : list (option K), leading_none l <= length l).
          { induction l as [|[z|] l IHl]; simpl; lia. }
          pose proof (G r). lia. }
        rewrite D in CL. change (Z.of_nat 1) with 1%Z in CL.
        rewrite CL by lia. clear CL.
        rewrite R. cbn [leading_none].
        unfold set_items at 1 2. cbn [items imap dead].
        unfold py_del_tail.
        replace (Z.of_nat (1 + leading_none r) <=? 0)%Z with false by (symmetry; apply Z.leb_gt; lia).
        rewrite Nat2Z.id. rewrite D.
        replace (1 + leading_none r) with (S (leading_none r)) by lia.
        unfold set_items. rewrite D, M. rewrite drop_loop by lia. reflexivity.
Qed.

(* ---- _add_dead ----------------------------------------------------------------------------------- *)
Lemma leb_of_nat a b : (Z.of_nat a <=? Z.of_nat b)%Z = (a <=? b).
Proof.
  destruct (a <=? b) eqn:C; [apply Z.leb_le; apply Nat.leb_le in C; lia|apply Z.leb_gt; apply Nat.leb_gt in C; lia].
Qed.

Lemma py_iv_at_wrap (d : list (nat * nat)) (i : nat) :
  d <> [] ->
  let j := match i with 0 => length d - 1 | S i' => i' end in
  py_iv_at d (Z.of_nat i - 1)%Z = nth j d (0, 0) /\ py_pos d (Z.of_nat i - 1)%Z = j.
Proof.
  intros Hne. destruct i as [|i']; cbn zeta.
  - split.
    + unfold py_iv_at. change (Z.of_nat 0 - 1)%Z with (- (Z.of_nat 0 + 1))%Z. rewrite py_get_from_end.
      rewrite nth_last. destruct d as [|x d] using rev_ind; [contradiction|].
      rewrite rev_app_distr, last_last. reflexivity.
    + unfold py_pos, zlen. change (Z.of_nat 0 - 1)%Z with (-1)%Z. replace (-1 <? 0)%Z with true by reflexivity.
      destruct d; [contradiction|]. cbn [length]. lia.
  - replace (Z.of_nat (S i') - 1)%Z with (Z.of_nat i') by lia. split.
    + assert (F : (Z.of_nat i' <? 0)%Z = false) by (apply Z.ltb_ge; lia).
      unfold py_iv_at, py_get. rewrite F. rewrite F.
      rewrite Nat2Z.id. destruct (nth_error d i') as [ab|] eqn:E.
      * symmetry. apply nth_error_nth. exact E.
      * symmetry. apply nth_overflow. apply nth_error_None. exact E.
    + unfold py_pos. replace (Z.of_nat i' <? 0)%Z with false by (symmetry; apply Z.ltb_ge; lia). apply Nat2Z.id.
Qed.

Theorem source_add_dead s r : src_add_dead s (Z.of_nat r) = set_dead s (add_dead (dead s) r).
Proof.
  unfold src_add_dead, add_dead. cbv zeta.
  assert (IV : py_iv (Z.of_nat r, (Z.of_nat r + 1)%Z) = (r, S r)).
  { unfold py_iv. cbn [fst snd]. rewrite Nat2Z.id. f_equal. lia. }
  destruct (dead s) as [|ab t] eqn:D.
  - cbn [is_nonempty negb]. unfold py_append_iv. rewrite IV. reflexivity.
  - cbn [is_nonempty negb]. unfold py_bisect_left. rewrite IV.
    set (d := ab :: t) in *. set (i := bisect_left d (r, S r)).
    destruct (py_iv_at_wrap d i ltac:(discriminate)) as [A P]. cbn zeta in A, P.
    set (j := match i with 0 => length d - 1 | S i' => i' end) in *.
    unfold py_iv_start, py_iv_stop, py_set_iv_start, py_set_iv_stop, py_insert_iv. rewrite A, P, IV.
    destruct (nth j d (0, 0)) as [ds de]. cbn [fst snd].
    replace (Z.of_nat r + 1)%Z with (Z.of_nat (S r)) by lia.
    rewrite !leb_of_nat, !Nat2Z.id.
    destruct ((r <=? ds) && (ds <=? S r)); [reflexivity|].
    destruct ((r <=? de) && (de <=? S r)); reflexivity.
Qed.
